import TabulaModel.Lemmas.LayoutElem
import TabulaModel.Props.C09Api
/-
C09, `AnalysisResult.Elements` of `(*Analyzer).Analyze`: every fragment exactly once - for all
inputs and all heuristic outcomes (after the repair 8ee0e52), and EXACTLY which fragments the tree
lost and which it showed more than once before it.

`element_tree_once` was false for the code before 8ee0e52 (recorded findings
C09/elements-lost-paragraph-covered-by-heading-or-list and
C09/elements-duplicated-heading-or-list-also-in-paragraph, now `fixed:`). This file says, id by id:

* generic (any headings, lists, paragraphs): `element_tree_count`, `element_tree_exact`
  (count in the tree = max (headings shown + lists) (paragraphs)), `element_tree_no_invention`;
  for the old tree `element_tree_old_count`, `element_tree_old_lost_iff`, `element_tree_old_exact`;
* for the analyzer (`Model/LayoutElem.lean`: headings = accepted page paragraphs, lists = runs of
  list candidates as `groupIntoLists` builds them, paragraphs = those of the reading order):
  every input fragment occurs at most once among the headings, at most once among the lists and
  at most once among the paragraphs (`analysis_headings_once`, `analysis_lists_once`,
  `analysis_paragraphs_once`); a heading that shares a fragment with a list is an item of it and
  is not emitted (`analysis_shown_once`); so in `Elements()` every id occurs at most once
  (`analysis_elements_at_most_once`), exactly once when a paragraph, an emitted heading or a list
  shows it (`analysis_elements_exact`), and EVERY input fragment with visible text occurs exactly
  once (`element_tree_once`); nothing is invented (`analysis_elements_no_invention`); a page
  without headings and list candidates shows exactly the paragraphs of the reading order
  (`analysis_elements_plain`). The tree before the repair: `analysis_elements_old_exact`
  ([in a heading] + [in a list] + [its paragraph is not suppressed] times, up to 3),
  `analysis_elements_old_lost_iff`, and the `_pinned_counterexample`s at the recorded witnesses.
-/
namespace Tabula.C09Elem
open Tabula.Layout Tabula.C09

/-! ## any headings, lists and paragraphs -/

/-- the repaired element tree id by id: an id occurs as often as in the headings the tree emits,
plus in the lists, plus in the paragraphs as far as those do not cover it -/
theorem element_tree_count (rbox : Elem → List Nat → Box) (hs ls ps : List Elem) (i : Nat) :
    (idsOf (elementTree rbox hs ls ps)).count i =
      (idsOf (shownHeadings hs ls)).count i + (idsOf ls).count i +
        ((idsOf ps).count i - ((idsOf ls).count i + (idsOf (shownHeadings hs ls)).count i)) :=
  count_elementTree rbox hs ls ps i

/-- EXACTLY how often, no hypothesis: as often as the emitted headings and the lists show it, or
as often as the paragraphs show it - whichever is more. Nothing a paragraph shows is lost;
nothing is shown more often than its sources show it. -/
theorem element_tree_exact (rbox : Elem → List Nat → Box) (hs ls ps : List Elem) (i : Nat) :
    (idsOf (elementTree rbox hs ls ps)).count i =
      max ((idsOf (shownHeadings hs ls)).count i + (idsOf ls).count i) ((idsOf ps).count i) := by
  rw [element_tree_count]
  omega

/-- nothing is invented: an id of the tree is an id of a heading, of a list or of a paragraph -/
theorem element_tree_no_invention (rbox : Elem → List Nat → Box) (hs ls ps : List Elem) (i : Nat)
    (h : i ∈ idsOf (elementTree rbox hs ls ps)) : i ∈ idsOf hs ∨ i ∈ idsOf ls ∨ i ∈ idsOf ps := by
  have hc := element_tree_count rbox hs ls ps i
  have hp := List.count_pos_iff.mpr h
  have hsub : (idsOf (shownHeadings hs ls)).count i ≤ (idsOf hs).count i :=
    (sublist_flatMap _ List.filter_sublist).count_le i
  by_cases h1 : 0 < (idsOf hs).count i
  · exact Or.inl (List.count_pos_iff.mp h1)
  · by_cases h2 : 0 < (idsOf ls).count i
    · exact Or.inr (Or.inl (List.count_pos_iff.mp h2))
    · exact Or.inr (Or.inr (List.count_pos_iff.mp (by omega)))

/-! ## the tree before the repair 8ee0e52 (history) -/

/-- the old element tree id by id: an id occurs as often as in the headings, plus in the lists,
plus in the paragraphs that are not suppressed -/
theorem element_tree_old_count (ov : Box → Box → Bool) (hs ls ps : List Elem) (i : Nat) :
    (idsOf (elementTreeOld ov hs ls ps)).count i =
      (idsOf hs).count i + (idsOf ls).count i +
        (idsOf (ps.filter fun p => !consumed ov hs ls p)).count i :=
  count_elementTreeOld ov hs ls ps i

/-- EXACTLY what the old tree lost: an id is missing iff no heading and no list shows it and
every paragraph that shows it is suppressed -/
theorem element_tree_old_lost_iff (ov : Box → Box → Bool) (hs ls ps : List Elem) (i : Nat) :
    i ∉ idsOf (elementTreeOld ov hs ls ps) ↔
      i ∉ idsOf hs ∧ i ∉ idsOf ls ∧ ∀ p ∈ ps, i ∈ p.ids → consumed ov hs ls p = true := by
  unfold idsOf
  rw [mem_elementTreeOld]
  constructor
  · intro h
    refine ⟨fun a => h (Or.inl a), fun a => h (Or.inr (Or.inl a)), ?_⟩
    intro p hp hi
    cases hc : consumed ov hs ls p
    · exact absurd (Or.inr (Or.inr ⟨p, hp, hc, hi⟩)) h
    · rfl
  · rintro ⟨h1, h2, h3⟩ (h | h | ⟨p, hp, hc, hi⟩)
    · exact h1 h
    · exact h2 h
    · rw [h3 p hp hi] at hc; exact Bool.noConfusion hc

/-- EXACTLY how often in the old tree: when an id occurs at most once among the headings, the
lists and the paragraphs, it occurs [heading] + [list] + [paragraph not suppressed] times -/
theorem element_tree_old_exact (ov : Box → Box → Bool) (hs ls ps : List Elem) (i : Nat)
    (hh : (idsOf hs).count i ≤ 1) (hl : (idsOf ls).count i ≤ 1) (hp : (idsOf ps).count i ≤ 1) :
    (idsOf (elementTreeOld ov hs ls ps)).count i =
      (if i ∈ idsOf hs then 1 else 0) + (if i ∈ idsOf ls then 1 else 0) +
        (if i ∈ idsOf (ps.filter fun p => !consumed ov hs ls p) then 1 else 0) := by
  rw [element_tree_old_count, count_eq_ite hh, count_eq_ite hl]
  have h3 : (idsOf (ps.filter fun p => !consumed ov hs ls p)).count i ≤ 1 :=
    Nat.le_trans ((sublist_flatMap _ List.filter_sublist).count_le i) hp
  rw [count_eq_ite h3]

example : (idsOf [⟨⟨0, 0, 1, 1⟩, [7]⟩]).count 7 ≤ 1 := by decide

/-! ## the analyzer -/

theorem pagePars_ids_le (hz : Heur) (bh : BlockHeur) (eh : ElemHeur) (fs : List Frag) (i : Nat) :
    ((pagePars hz bh eh fs).flatMap (·.ids)).count i ≤ (fs.map (·.id)).count i := by
  unfold pagePars
  rw [pars_ids, detectParagraphs_flatten]
  unfold analyze
  simp only
  split
  · exact Nat.zero_le _
  · exact detectLines_ids_le _ _ _ _ i

/-- a fragment occurs at most once among the headings (as often as in the input, at most) -/
theorem analysis_headings_once (hz : Heur) (bh : BlockHeur) (eh : ElemHeur) (fs : List Frag) (i : Nat) :
    (idsOf (headingElems (pagePars hz bh eh fs))).count i ≤ (fs.map (·.id)).count i :=
  Nat.le_trans ((headingElems_ids_sublist _).count_le i) (pagePars_ids_le hz bh eh fs i)

/-- a fragment occurs at most once among the lists: `groupIntoLists` puts a candidate into one
run, and a short run is dropped as a whole -/
theorem analysis_lists_once (hz : Heur) (bh : BlockHeur) (eh : ElemHeur) (fs : List Frag) (i : Nat) :
    (idsOf (listElems 2 2 (pagePars hz bh eh fs))).count i ≤ (fs.map (·.id)).count i :=
  Nat.le_trans ((listElems_ids_sublist 2 2 _).count_le i) (pagePars_ids_le hz bh eh fs i)

/-- a fragment occurs at most once among the paragraphs of the reading order -/
theorem analysis_paragraphs_once (hz : Heur) (bh : BlockHeur) (eh : ElemHeur) (fs : List Frag) (i : Nat) :
    (idsOf (roParElems hz bh eh fs)).count i ≤ (fs.map (·.id)).count i := by
  unfold roParElems idsOf
  rw [ropars_ids]
  unfold analyze Heur.readingOrder
  simp only
  rw [C09Order.ro_paragraphs_segment]
  exact readingOrder_lines_ids_le _ _ _ _ _ _ _ _ fs i

/-- distinct fragment ids: the page paragraphs show every id at most once -/
theorem pagePars_nodup (hz : Heur) (bh : BlockHeur) (eh : ElemHeur) (fs : List Frag)
    (hn : (fs.map (·.id)).Nodup) : ((pagePars hz bh eh fs).flatMap (·.ids)).Nodup := by
  rw [List.nodup_iff_count]
  intro i
  exact Nat.le_trans (pagePars_ids_le hz bh eh fs i) (List.nodup_iff_count.mp hn i)

/-- the headings `Elements()` emits and the lists together show a fragment at most once: a
heading that shares a fragment with a list is the same page paragraph as an item of that list,
and the tree leaves it to the list -/
theorem analysis_shown_once (hz : Heur) (bh : BlockHeur) (eh : ElemHeur) (fs : List Frag) (i : Nat)
    (hn : (fs.map (·.id)).Nodup) :
    (idsOf (shownHeadings (headingElems (pagePars hz bh eh fs)) (listElems 2 2 (pagePars hz bh eh fs)))).count i +
      (idsOf (listElems 2 2 (pagePars hz bh eh fs))).count i ≤ 1 :=
  Nat.le_trans (shown_le_page _ (pagePars_nodup hz bh eh fs hn) i)
    (Nat.le_trans (pagePars_ids_le hz bh eh fs i) (List.nodup_iff_count.mp hn i))

/-- `Elements()` invents nothing: every fragment id it shows is the id of an input fragment -/
theorem analysis_elements_no_invention (hz : Heur) (bh : BlockHeur) (eh : ElemHeur) (fs : List Frag) (i : Nat)
    (h : i ∈ idsOf (analysisElements hz bh eh fs)) : i ∈ fs.map (·.id) := by
  have pos : ∀ l : List Nat, i ∈ l → l.count i ≤ (fs.map (·.id)).count i → i ∈ fs.map (·.id) := by
    intro l hm hc
    have := List.count_pos_iff.mpr hm
    exact List.count_pos_iff.mp (by omega)
  unfold analysisElements pageElements at h
  rcases element_tree_no_invention _ _ _ _ i h with h | h | h
  · exact pos _ h (analysis_headings_once hz bh eh fs i)
  · exact pos _ h (analysis_lists_once hz bh eh fs i)
  · exact pos _ h (analysis_paragraphs_once hz bh eh fs i)

/-- no fragment twice: for every page with distinct fragment ids and every outcome of every
heuristic, `Elements()` shows an id at most once -/
theorem analysis_elements_at_most_once (hz : Heur) (bh : BlockHeur) (eh : ElemHeur) (fs : List Frag) (i : Nat)
    (hn : (fs.map (·.id)).Nodup) : (idsOf (analysisElements hz bh eh fs)).count i ≤ 1 := by
  have h1 := analysis_shown_once hz bh eh fs i hn
  have h2 := Nat.le_trans (analysis_paragraphs_once hz bh eh fs i) (List.nodup_iff_count.mp hn i)
  unfold analysisElements pageElements
  rw [element_tree_exact]
  omega

/-- EXACTLY once: for every page with distinct fragment ids and every outcome of every
heuristic, `Elements()` shows an id once when a reading-order paragraph, an emitted heading or a
list shows it, and not at all otherwise -/
theorem analysis_elements_exact (hz : Heur) (bh : BlockHeur) (eh : ElemHeur) (fs : List Frag) (i : Nat)
    (hn : (fs.map (·.id)).Nodup) :
    (idsOf (analysisElements hz bh eh fs)).count i =
      if i ∈ idsOf (roParElems hz bh eh fs) ∨
          i ∈ idsOf (shownHeadings (headingElems (pagePars hz bh eh fs)) (listElems 2 2 (pagePars hz bh eh fs))) ∨
          i ∈ idsOf (listElems 2 2 (pagePars hz bh eh fs)) then 1 else 0 := by
  have h1 := analysis_shown_once hz bh eh fs i hn
  have h2 := Nat.le_trans (analysis_paragraphs_once hz bh eh fs i) (List.nodup_iff_count.mp hn i)
  have h3 : (idsOf (analysisElements hz bh eh fs)).count i =
      max ((idsOf (shownHeadings (headingElems (pagePars hz bh eh fs)) (listElems 2 2 (pagePars hz bh eh fs)))).count i +
        (idsOf (listElems 2 2 (pagePars hz bh eh fs))).count i) ((idsOf (roParElems hz bh eh fs)).count i) := by
    unfold analysisElements pageElements
    exact element_tree_exact _ _ _ _ i
  split
  · rename_i h
    rcases h with h | h | h
    · have := List.count_pos_iff.mpr h; omega
    · have := List.count_pos_iff.mpr h; omega
    · have := List.count_pos_iff.mpr h; omega
  · rename_i h
    have a1 : (idsOf (roParElems hz bh eh fs)).count i = 0 := List.count_eq_zero.mpr fun x => h (Or.inl x)
    have a2 := List.count_eq_zero.mpr fun x => h (Or.inr (Or.inl x))
    have a3 := List.count_eq_zero.mpr fun x => h (Or.inr (Or.inr x))
    omega

example : ((([⟨0, 72, 700, 30, 10, 10, [97]⟩, ⟨1, 110, 700, 30, 10, 10, [98]⟩] : List Frag)).map (·.id)).Nodup := by
  decide

/-- a fragment with visible text is in a paragraph of the reading order -/
theorem roParElems_mem (hz : Heur) (bh : BlockHeur) (eh : ElemHeur) (fs : List Frag) (f : Frag)
    (hf : f ∈ fs) (hv : visible f.text = true) : f.id ∈ idsOf (roParElems hz bh eh fs) := by
  unfold roParElems idsOf
  rw [ropars_ids]
  unfold analyze Heur.readingOrder
  simp only
  rw [C09Order.ro_paragraphs_segment]
  apply List.mem_map_of_mem
  rw [← List.count_pos_iff, List.count_flatten,
    C09Order.reading_order_lines_assign_once _ _ _ _ _ _ _ _ fs f hv]
  exact List.count_pos_iff.mpr hf

/-- `element_tree_once` (the recorded finding, now a theorem): for every page with distinct
fragment ids and every outcome of every heuristic, every input fragment with visible text occurs
in `Elements()` EXACTLY ONCE - not lost with a suppressed paragraph, not repeated by a heading or
list next to its paragraph. (A fragment of white space only may be dropped with its line,
`C09.buildLines_keeps`; it is shown at most once: `analysis_elements_at_most_once`.) -/
theorem element_tree_once (hz : Heur) (bh : BlockHeur) (eh : ElemHeur) (fs : List Frag) (f : Frag)
    (hn : (fs.map (·.id)).Nodup) (hf : f ∈ fs) (hv : visible f.text = true) :
    (idsOf (analysisElements hz bh eh fs)).count f.id = 1 := by
  rw [analysis_elements_exact hz bh eh fs f.id hn, if_pos (Or.inl (roParElems_mem hz bh eh fs f hf hv))]

example : (⟨0, 72, 700, 30, 10, 10, [97]⟩ : Frag) ∈ ([⟨0, 72, 700, 30, 10, 10, [97]⟩, ⟨1, 110, 700, 30, 10, 10, [98]⟩] : List Frag) ∧
    visible (⟨0, 72, 700, 30, 10, 10, [97]⟩ : Frag).text = true := by decide

/-- the ids of `Elements()` are exactly those of the reading-order paragraphs whenever the
headings and lists show only fragments of those paragraphs -/
theorem analysis_elements_conserve (hz : Heur) (bh : BlockHeur) (eh : ElemHeur) (fs : List Frag)
    (hn : (fs.map (·.id)).Nodup)
    (hsub : ∀ i ∈ (pagePars hz bh eh fs).flatMap (·.ids), i ∈ idsOf (roParElems hz bh eh fs)) :
    (idsOf (analysisElements hz bh eh fs)).Perm (idsOf (roParElems hz bh eh fs)) := by
  unfold analysisElements pageElements
  apply C09.element_tree_once
  intro i
  have h1 := shown_le_page _ (pagePars_nodup hz bh eh fs hn) i
  have h2 := Nat.le_trans (pagePars_ids_le hz bh eh fs i) (List.nodup_iff_count.mp hn i)
  by_cases hm : i ∈ (pagePars hz bh eh fs).flatMap (·.ids)
  · have := List.count_pos_iff.mpr (hsub i hm)
    unfold idsOf at *
    omega
  · have := List.count_eq_zero.mpr hm
    unfold idsOf at *
    omega

/-! ### the tree before the repair 8ee0e52 -/

/-- EXACTLY how often a fragment occurred in `Elements()` before the repair: [in a heading] +
[in a list] + [in a paragraph that is not suppressed] -/
theorem analysis_elements_old_exact (hz : Heur) (bh : BlockHeur) (eh : ElemHeur) (fs : List Frag) (i : Nat)
    (hn : (fs.map (·.id)).Nodup) :
    (idsOf (analysisElementsOld hz bh eh fs)).count i =
      (if i ∈ idsOf (headingElems (pagePars hz bh eh fs)) then 1 else 0) +
      (if i ∈ idsOf (listElems 2 2 (pagePars hz bh eh fs)) then 1 else 0) +
      (if i ∈ idsOf ((roParElems hz bh eh fs).filter fun p => !consumed bboxOverlaps
          (headingElems (pagePars hz bh eh fs)) (listElems 2 2 (pagePars hz bh eh fs)) p) then 1 else 0) := by
  have h1 : (fs.map (·.id)).count i ≤ 1 := List.nodup_iff_count.mp hn i
  unfold analysisElementsOld pageElementsOld
  exact element_tree_old_exact _ _ _ _ i
    (Nat.le_trans (analysis_headings_once hz bh eh fs i) h1)
    (Nat.le_trans (analysis_lists_once hz bh eh fs i) h1)
    (Nat.le_trans (analysis_paragraphs_once hz bh eh fs i) h1)

/-- EXACTLY which fragments `Elements()` lost before the repair: those that no heading and no
list shows and whose reading-order paragraph is suppressed by the box-overlap rule -/
theorem analysis_elements_old_lost_iff (hz : Heur) (bh : BlockHeur) (eh : ElemHeur) (fs : List Frag) (i : Nat) :
    i ∉ idsOf (analysisElementsOld hz bh eh fs) ↔
      i ∉ idsOf (headingElems (pagePars hz bh eh fs)) ∧ i ∉ idsOf (listElems 2 2 (pagePars hz bh eh fs)) ∧
      ∀ p ∈ roParElems hz bh eh fs, i ∈ p.ids → consumed bboxOverlaps
        (headingElems (pagePars hz bh eh fs)) (listElems 2 2 (pagePars hz bh eh fs)) p = true := by
  unfold analysisElementsOld pageElementsOld
  exact element_tree_old_lost_iff _ _ _ _ i

/-- the recorded loss (finding C09/elements-lost-paragraph-covered-by-heading-or-list) on the
tree before the repair: the page line "A" is a heading, the column paragraph "A B" is suppressed,
fragment 1 is in no element -/
theorem page_elements_loss_pinned_counterexample :
    (1 : Nat) ∉ idsOf (pageElementsOld [⟨[0], ⟨72, 700, 100, 12⟩, 12, true, 0⟩] [⟨⟨72, 688, 100, 24⟩, [0, 1]⟩]) := by
  decide +kernel

/-- the recorded repetition (finding C09/elements-duplicated-heading-or-list-also-in-paragraph)
on the tree before the repair: a heading in the second column (absolute x = 320) and its
paragraph (column-relative x = 0) are both emitted -/
theorem page_elements_dup_pinned_counterexample :
    (idsOf (pageElementsOld [⟨[0], ⟨320, 700, 100, 12⟩, 12, true, 0⟩] [⟨⟨0, 700, 100, 12⟩, [0]⟩])).count 0 = 2 := by
  decide +kernel

/-- a heading that is also a list item: three times before the repair (heading, list, paragraph
in a later column) -/
theorem page_elements_triple_pinned_counterexample :
    (idsOf (pageElementsOld
      [⟨[0], ⟨320, 700, 100, 12⟩, 12, true, 2⟩, ⟨[1], ⟨320, 686, 100, 12⟩, 12, false, 2⟩]
      [⟨⟨0, 686, 100, 26⟩, [0, 1]⟩])).count 0 = 3 := by
  decide +kernel

/-- the same three pages after the repair: every id exactly once -/
example :
    let rbox : Elem → List Nat → Box := fun p _ => p.box
    idsOf (pageElements rbox [⟨[0], ⟨72, 700, 100, 12⟩, 12, true, 0⟩] [⟨⟨72, 688, 100, 24⟩, [0, 1]⟩]) = [0, 1] ∧
    idsOf (pageElements rbox [⟨[0], ⟨320, 700, 100, 12⟩, 12, true, 0⟩] [⟨⟨0, 700, 100, 12⟩, [0]⟩]) = [0] ∧
    idsOf (pageElements rbox
      [⟨[0], ⟨320, 700, 100, 12⟩, 12, true, 2⟩, ⟨[1], ⟨320, 686, 100, 12⟩, 12, false, 2⟩]
      [⟨⟨0, 686, 100, 26⟩, [0, 1]⟩]) = [0, 1] := by
  refine ⟨?_, ?_, ?_⟩ <;> decide +kernel

/-- a page on which no paragraph is taken for a heading or a list item: `Elements()` are the
paragraphs of the reading order, nothing lost, nothing repeated -/
theorem analysis_elements_plain (hz : Heur) (bh : BlockHeur) (eh : ElemHeur) (fs : List Frag)
    (hH : ∀ p, (eh.info p).isH = false) (hL : ∀ p, (eh.info p).ty = 0) :
    analysisElements hz bh eh fs = roParElems hz bh eh fs := by
  unfold analysisElements pageElements
  have h1 : headingElems (pagePars hz bh eh fs) = [] := by
    unfold headingElems
    rw [List.filter_eq_nil_iff.mpr]
    · rfl
    · intro p hp
      unfold pagePars at hp
      rcases List.mem_map.mp hp with ⟨q, _, rfl⟩
      simp [mkPPar, hH q]
  have h2 : listElems 2 2 (pagePars hz bh eh fs) = [] := by
    unfold listElems
    rw [candsFrom_none]
    · rfl
    · intro p hp
      unfold pagePars at hp
      rcases List.mem_map.mp hp with ⟨q, _, rfl⟩
      exact hL q
  rw [h1, h2]
  exact element_tree_no_headings _ _

/-- ... and then they show exactly the characters of the fragments -/
theorem analysis_elements_plain_conserves (hz : Heur) (bh : BlockHeur) (eh : ElemHeur) (fs : List Frag)
    (hH : ∀ p, (eh.info p).isH = false) (hL : ∀ p, (eh.info p).ty = 0) :
    idsOf (analysisElements hz bh eh fs) = (analyze hz bh fs).paragraphs.flatten.flatten.map (·.id) ∧
    (nonspace (textsOf (analyze hz bh fs).paragraphs.flatten.flatten)).Perm (nonspace (textsOf fs)) := by
  refine ⟨?_, ?_⟩
  · rw [analysis_elements_plain hz bh eh fs hH hL]
    unfold roParElems idsOf
    exact ropars_ids _ _
  · unfold analyze Heur.readingOrder
    simp only
    rw [C09Order.ro_paragraphs_segment]
    exact C09Order.reading_order_lines_conserve _ _ _ _ _ _ _ _ fs

/-! ## `groupIntoLists` and `calculateListBBox` at witnesses -/

/-- three candidates: paragraphs 0 and 1 (bullets), paragraph 3 (bullet, within two font sizes
of paragraph 1), then a numbered item far below: one list of three items, the single numbered
item is no list -/
example :
    (groupIntoLists 2 2
      [(0, ⟨[0], ⟨72, 700, 100, 10⟩, 10, false, 1⟩), (1, ⟨[1], ⟨72, 688, 100, 10⟩, 10, false, 1⟩),
       (3, ⟨[3], ⟨72, 660, 100, 10⟩, 10, false, 1⟩), (5, ⟨[5], ⟨72, 400, 100, 10⟩, 10, false, 2⟩)]).map
      (fun g => g.map (·.1)) = [[0, 1, 3]] := by decide +kernel

/-- the gap rule at its edge: 20 points = 2.0 x 10 continues the list, 20.25 does not -/
example :
    listBreak 2 [(0, ⟨[0], ⟨72, 700, 100, 10⟩, 10, false, 1⟩)] (2, ⟨[2], ⟨72, 670, 100, 10⟩, 10, false, 1⟩) [] = false ∧
    listBreak 2 [(0, ⟨[0], ⟨72, 700, 100, 10⟩, 10, false, 1⟩)] (2, ⟨[2], ⟨72, 670 - 1/4, 100, 10⟩, 10, false, 1⟩) [] = true := by
  decide +kernel

example : listBox [⟨72, 700, 100, 10⟩, ⟨90, 688, 120, 10⟩, ⟨60, 690, 10, 30⟩] = ⟨60, 688, 150, 32⟩ := by
  decide +kernel

/-- the recorded loss on the old tree, located: fragment 1 is in the suppressed paragraph and in no heading -/
example :
    (1 : Nat) ∉ idsOf (elementTreeOld bboxOverlaps [⟨⟨72, 700, 100, 12⟩, [0]⟩] [] [⟨⟨72, 688, 100, 24⟩, [0, 1]⟩]) ∧
    (idsOf (elementTreeOld bboxOverlaps [⟨⟨72, 700, 100, 12⟩, [0]⟩] [] [⟨⟨72, 688, 100, 24⟩, [0, 1]⟩])).count 0 = 1 := by
  decide +kernel

end Tabula.C09Elem
