import TabulaModel.Props.C19Nav
/-!
# C19 — the class/id pattern as a language

`navigationPatterns.excluded` is `(?i)(^|[^a-z])(w1|w2|…)([^a-z]|$)`.  The model evaluates it by a
scan (`matchFrom`, `wordAt`, `stripWord`; tied to regexp by the c19.match ops).  This file shows
the scan decides exactly the language the expression denotes: the string splits as
pre ++ x ++ post where x, case-folded, is a word of the vocabulary, pre is empty or ends in a
non-letter, and post is empty or starts with a non-letter — for every string and every vocabulary.
-/
namespace Tabula.C19Pat
open Tabula.Html

/-- `([^a-z]|$)`: what follows the word -/
def EndsWord (post : Str) : Prop := post = [] ∨ ∃ c r, post = c :: r ∧ isLetter c = false

/-- `(^|[^a-z])`: what precedes the word — `pre` is empty (and, for a scan resumed in the middle
of a string, the character before it was not a letter: `prev = false`) or its last character is
not a letter -/
def boundaryBefore : Bool → Str → Bool
  | prev, [] => !prev
  | _, c :: cs => boundaryBefore (isLetter c) cs

/-- `boundaryBefore` is what its doc says: decided by the last character alone -/
theorem boundary_before_last : ∀ (p : Str) (prev : Bool) (c : Nat),
    boundaryBefore prev (p ++ [c]) = !isLetter c
  | [], _, _ => rfl
  | _ :: p, _, c => boundary_before_last p _ c

theorem boundary_before_start (prev : Bool) : boundaryBefore prev [] = !prev := rfl

/-- `stripWord w s = some rest` exactly when `s` is `x ++ rest` with `x` folding onto `w` -/
theorem strip_word_iff : ∀ (w s rest : Str),
    stripWord w s = some rest ↔ ∃ x, s = x ++ rest ∧ x.map fold = w
  | [], s, rest => by
      simp only [stripWord, Option.some.injEq]
      constructor
      · intro h; exact ⟨[], by simp [h], rfl⟩
      · rintro ⟨x, hs, hx⟩
        have : x = [] := by simpa using hx
        subst this; simpa using hs
  | a :: w, [], rest => by
      simp only [stripWord]
      constructor
      · intro h; cases h
      · rintro ⟨x, hs, hx⟩
        cases x with
        | nil => simp at hx
        | cons y ys => simp at hs
  | a :: w, c :: cs, rest => by
      simp only [stripWord]
      by_cases hf : fold c = a
      · simp only [hf, if_true]
        rw [strip_word_iff w cs rest]
        constructor
        · rintro ⟨x, hs, hx⟩; exact ⟨c :: x, by simp [hs], by simp [hf, hx]⟩
        · rintro ⟨x, hs, hx⟩
          cases x with
          | nil => simp at hx
          | cons y ys =>
            simp only [List.map_cons, List.cons.injEq] at hx
            simp only [List.cons_append, List.cons.injEq] at hs
            exact ⟨ys, hs.2, hx.2⟩
      · simp only [hf, if_false]
        constructor
        · intro h; cases h
        · rintro ⟨x, hs, hx⟩
          cases x with
          | nil => simp at hx
          | cons y ys =>
            simp only [List.map_cons, List.cons.injEq] at hx
            simp only [List.cons_append, List.cons.injEq] at hs
            exact absurd (by rw [hs.1]; exact hx.1) hf

/-- a vocabulary word (case-folded) starts here and a non-letter or the end follows -/
theorem word_at_iff (vocab : List Str) (s : Str) :
    wordAt vocab s = true ↔
      ∃ w, w ∈ vocab ∧ ∃ x post, s = x ++ post ∧ x.map fold = w ∧ EndsWord post := by
  unfold wordAt
  rw [List.any_eq_true]
  constructor
  · rintro ⟨w, hw, h⟩
    cases hsw : stripWord w s with
    | none => simp [hsw] at h
    | some rest =>
      obtain ⟨x, hs, hx⟩ := (strip_word_iff w s rest).mp hsw
      refine ⟨w, hw, x, rest, hs, hx, ?_⟩
      cases rest with
      | nil => exact Or.inl rfl
      | cons c r =>
        rw [hsw] at h
        exact Or.inr ⟨c, r, rfl, by simpa using h⟩
  · rintro ⟨w, hw, x, post, hs, hx, he⟩
    refine ⟨w, hw, ?_⟩
    rw [(strip_word_iff w s post).mpr ⟨x, hs, hx⟩]
    rcases he with e | ⟨c, r, e, hc⟩
    · subst e; rfl
    · subst e; simp [hc]

/-- the scan finds exactly the positions with a boundary before and a word at them -/
theorem match_from_iff (vocab : List Str) : ∀ (s : Str) (prev : Bool),
    matchFrom vocab prev s = true ↔
      ∃ pre rest, s = pre ++ rest ∧ rest ≠ [] ∧ boundaryBefore prev pre = true ∧ wordAt vocab rest = true
  | [], prev => by
      simp only [matchFrom, Bool.false_eq_true, false_iff]
      rintro ⟨pre, rest, hs, hne, _, _⟩
      cases pre with
      | nil => exact hne (by simpa using hs.symm)
      | cons _ _ => simp at hs
  | c :: cs, prev => by
      simp only [matchFrom, Bool.or_eq_true, Bool.and_eq_true]
      rw [match_from_iff vocab cs (isLetter c)]
      constructor
      · rintro (⟨hp, hw⟩ | ⟨pre, rest, hs, hne, hb, hw⟩)
        · exact ⟨[], c :: cs, rfl, by simp, hp, hw⟩
        · exact ⟨c :: pre, rest, by simp [hs], hne, hb, hw⟩
      · rintro ⟨pre, rest, hs, hne, hb, hw⟩
        cases pre with
        | nil =>
          have : rest = c :: cs := by simpa using hs.symm
          subst this
          exact Or.inl ⟨hb, hw⟩
        | cons d pre' =>
          simp only [List.cons_append, List.cons.injEq] at hs
          obtain ⟨hd, hcs⟩ := hs
          subst hd
          exact Or.inr ⟨pre', rest, hcs, hne, hb, hw⟩

/-- THE PATTERN AS A LANGUAGE (every vocabulary, every string): `MatchString` of
`(?i)(^|[^a-z])(w1|…)([^a-z]|$)` holds exactly when the string is pre ++ x ++ post with x folding
onto a vocabulary word, pre empty or ending in a non-letter, post empty or starting with a
non-letter (x ++ post not empty: the scan does not look at the end of the string, where only an
empty vocabulary word could match). -/
theorem pattern_language (vocab : List Str) (s : Str) :
    matchVocab vocab s = true ↔
      ∃ pre x post, s = pre ++ (x ++ post) ∧ x ++ post ≠ [] ∧ boundaryBefore false pre = true ∧
        x.map fold ∈ vocab ∧ EndsWord post := by
  unfold matchVocab
  rw [match_from_iff]
  constructor
  · rintro ⟨pre, rest, hs, hne, hb, hw⟩
    obtain ⟨w, hwv, x, post, hr, hx, he⟩ := (word_at_iff vocab rest).mp hw
    subst hr
    exact ⟨pre, x, post, hs, hne, hb, by rw [hx]; exact hwv, he⟩
  · rintro ⟨pre, x, post, hs, hne, hb, hx, he⟩
    exact ⟨pre, x ++ post, hs, hne, hb, (word_at_iff vocab _).mpr ⟨_, hx, x, post, rfl, rfl, he⟩⟩

/-- "main-nav bar" matches (nav between `-` and a space), "navy" and "canvas" do not -/
example : matchVocab vocabExcluded [109, 97, 105, 110, 45, 110, 97, 118, 32, 98, 97, 114] = true ∧
    matchVocab vocabExcluded [110, 97, 118, 121] = false ∧
    matchVocab vocabExcluded [99, 97, 110, 118, 97, 115] = false := by decide

/-- every word of the exclusion vocabulary is non-empty, so the side condition `x ++ post ≠ []`
never bites for it -/
theorem vocabulary_words_nonempty : ∀ w ∈ vocabExcluded, w ≠ [] := by decide

/-- the class/id rule in terms of the language: a class or id value is hit exactly when it
contains a vocabulary word, case-folded, between non-letters or the ends -/
theorem pattern_rule_language (attrs : List (Str × Str)) :
    Tabula.C19Nav.PatternRule attrs ↔
      ∃ v, (v = getAttr attrs A.class ∨ v = getAttr attrs A.id) ∧ v ≠ [] ∧
        ∃ pre x post, v = pre ++ (x ++ post) ∧ boundaryBefore false pre = true ∧
          x.map fold ∈ vocabExcluded ∧ EndsWord post := by
  unfold Tabula.C19Nav.PatternRule
  constructor
  · rintro (⟨hne, hm⟩ | ⟨hne, hm⟩)
    · obtain ⟨pre, x, post, hs, _, hb, hx, he⟩ := (pattern_language _ _).mp hm
      exact ⟨_, Or.inl rfl, hne, pre, x, post, hs, hb, hx, he⟩
    · obtain ⟨pre, x, post, hs, _, hb, hx, he⟩ := (pattern_language _ _).mp hm
      exact ⟨_, Or.inr rfl, hne, pre, x, post, hs, hb, hx, he⟩
  · rintro ⟨v, hv, hne, pre, x, post, hs, hb, hx, he⟩
    have hxne : x ++ post ≠ [] := by
      intro e
      have hx0 : x = [] := (List.append_eq_nil_iff.mp e).1
      subst hx0
      exact vocabulary_words_nonempty _ hx rfl
    have hm : matchVocab vocabExcluded v = true :=
      (pattern_language _ _).mpr ⟨pre, x, post, hs, hxne, hb, hx, he⟩
    rcases hv with e | e
    · subst e; exact Or.inl ⟨hne, hm⟩
    · subst e; exact Or.inr ⟨hne, hm⟩

end Tabula.C19Pat
