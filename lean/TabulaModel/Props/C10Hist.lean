import TabulaModel.Lemmas.BuilderHist
/-!
# C10 — invariants over operation histories

The property quantifies over *all sequences* of builder calls, terminal and non-terminal
operations and Closes on extractors that share a base.  `Props/C10.lean` proves, for every
such sequence, that a parent is unchanged by what happens to other extractors.  This file
proves the two statements the harness otherwise only observes at run time:

* **descriptors** (`fd_is_owners`, `fd_bounded`, `close_all_releases_all`): at every point of
  every history the number of open readers equals the number of extractors that currently own
  one (plus the reader the caller lent to `FromReader`); closing every extractor — once or
  any number of times — brings it back to what the caller holds;
* **answers** (`answer_of_lineage`, `history_independent`, `run_answers`): whatever ran
  before — on this extractor, on the ones it was derived from, on siblings — the answer of
  every operation is the one an extractor freshly built by the same chain of configuration
  calls gives; it is a function (`termStatic`) of the chain, the file and the format only.

All statements are about the store model of `Model/Builder.lean` (all fourteen terminal
operations, all formats); the bases are `Open(f)` for a file name of any format and
`FromReader(r)`.
-/
namespace Tabula.C10Hist
open Tabula.PageSel Tabula.Builder

/-! ## descriptors over histories -/

theorem fd_base_open (f : Fmt) : FdInv 0 (openBaseF f) := by
  unfold FdInv owners Store.fdCount openBaseF; rfl

theorem fd_base_reader : FdInv 1 readerBase := by
  unfold FdInv owners Store.fdCount readerBase; rfl

/-- **fd_is_owners**: after any history on extractors grown from `Open(f)`, the open readers
are exactly the ones currently owned, one per owning extractor; with a `FromReader` base
there is in addition the caller's own reader. -/
theorem fd_is_owners (w : World) (f : Fmt) (ops : List Op) :
    (exec w (openBaseF f) ops).fdCount = owners (exec w (openBaseF f) ops) ∧
    (exec w readerBase ops).fdCount = 1 + owners (exec w readerBase ops) := by
  constructor
  · have := fd_exec w 0 ops (inv_openBaseF f) (fd_base_open f)
    unfold FdInv at this; omega
  · exact fd_exec w 1 ops inv_readerBase fd_base_reader

/-- no history makes the number of open readers exceed the number of extractors -/
theorem fd_bounded (w : World) (f : Fmt) (ops : List Op) :
    (exec w (openBaseF f) ops).fdCount ≤ (exec w (openBaseF f) ops).exts.length := by
  rw [(fd_is_owners w f ops).1]
  exact List.countP_le_length

theorem owners_zero_of_unowned (s : Store) (h : ∀ (j : Nat) (e : Ext), s.exts[j]? = some e → e.owns = false) :
    owners s = 0 := by
  unfold owners
  rw [List.countP_eq_zero]
  intro e he
  obtain ⟨j, hj, hje⟩ := List.getElem_of_mem he
  have := h j e (by rw [List.getElem?_eq_getElem hj, hje])
  simp [this]

/-- closing every extractor of a reachable store leaves no extractor owning a reader -/
theorem all_unowned_after_closeAll (w : World) (s : Store) (hs : StoreInv s) :
    owners (exec w s (closeAll (List.range s.exts.length))) = 0 := by
  apply owners_zero_of_unowned
  intro j e he
  have hj : j < s.exts.length := by
    rw [← exec_closeAll_length w (List.range s.exts.length) s]
    exact lt_of_getElem? he
  exact closed_after_closeAll w _ hs j (List.mem_range.mpr hj) e he

/-- **close_all_releases_all**: after ANY history — successful and failed operations, on the
base, on derived extractors, in any order — closing every extractor releases every reader the
family opened: none is left for an `Open(f)` base, only the caller's own for `FromReader`.
(Since `ops` is arbitrary it may itself end in Closes: closing again changes nothing.) -/
theorem close_all_releases_all (w : World) (f : Fmt) (ops : List Op) :
    (exec w (exec w (openBaseF f) ops) (closeAll (List.range (exec w (openBaseF f) ops).exts.length))).fdCount = 0 ∧
    (exec w (exec w readerBase ops) (closeAll (List.range (exec w readerBase ops).exts.length))).fdCount = 1 := by
  constructor
  · have hs := inv_exec w ops (inv_openBaseF f)
    have hfd := fd_exec w 0 (closeAll (List.range (exec w (openBaseF f) ops).exts.length)) hs
      (fd_exec w 0 ops (inv_openBaseF f) (fd_base_open f))
    unfold FdInv at hfd
    rw [hfd, all_unowned_after_closeAll w _ hs]
  · have hs := inv_exec w ops inv_readerBase
    have hfd := fd_exec w 1 (closeAll (List.range (exec w readerBase ops).exts.length)) hs
      (fd_exec w 1 ops inv_readerBase fd_base_reader)
    unfold FdInv at hfd
    rw [hfd, all_unowned_after_closeAll w _ hs]

example : let w : World := ⟨true, some 3⟩
    let ops := [Op.nonTerm 0 .pageCount, .derive 0 (.pages [2]), .nonTerm 1 .isMultiColumn,
      .derive 1 .byColumn, .term 2 .lines, .nonTerm 2 .pageCount]
    (exec w openBase ops).fdCount = 3 ∧ owners (exec w openBase ops) = 3 ∧
      (exec w (exec w openBase ops) (closeAll [0, 1, 2])).fdCount = 0 := by decide

/-! ## answers over histories -/

theorem lineage_step (L : List (List BCall)) (op : Op) (ops : List Op) :
    lineage L (op :: ops) = lineage (lineage L [op]) ops := by
  cases op <;> rfl

/-- a lineage entry exists exactly for the extractors of the store -/
theorem lin_some {e0 : Ext} {L : List (List BCall)} {s : Store} (h : LinInv e0 L s) (i : Nat) :
    (L[i]?).isSome = (s.exts[i]?).isSome := by
  by_cases hi : i < L.length
  · have hi' : i < s.exts.length := by rw [← h.1]; exact hi
    simp [List.getElem?_eq_getElem hi, List.getElem?_eq_getElem hi']
  · have hi' : ¬ i < s.exts.length := by rw [← h.1]; exact hi
    have h1 : L[i]? = none := List.getElem?_eq_none_iff.mpr (by omega)
    have h2 : s.exts[i]? = none := List.getElem?_eq_none_iff.mpr (by omega)
    rw [h1, h2]; rfl

/-- in a reachable state of a family, the answer to any operation is the one predicted from
the chain of calls behind its receiver -/
theorem step_static_answer (w : World) (e0 : Ext) {L : List (List BCall)} {s : Store}
    (hs : StoreInv s) (hf : FamInv w s) (hl : LinInv e0 L s) (op : Op) :
    (step w s op).2 = staticAnswer w e0 L op := by
  cases op with
  | derive i c =>
    simp only [step, deriveOp, staticAnswer]
    have := lin_some hl i
    cases he : s.exts[i]? with
    | none => rw [he] at this; simp at this; simp [this]
    | some e => rw [he] at this; simp at this; simp [this]
  | close i =>
    simp only [step, closeOp, staticAnswer]
    have := lin_some hl i
    cases he : s.exts[i]? with
    | none => rw [he] at this; simp at this; simp [this]
    | some e => rw [he] at this; simp at this; simp [this]
  | term i k =>
    simp only [step, staticAnswer]
    have := lin_some hl i
    cases hL : L[i]? with
    | none =>
      rw [hL] at this
      have he : s.exts[i]? = none := by
        cases h : s.exts[i]? with
        | none => rfl
        | some e => rw [h] at this; cases this
      simp [terminal, he]
    | some cs =>
      rw [hL] at this
      cases he : s.exts[i]? with
      | none => rw [he] at this; cases this
      | some e =>
        simp only
        rw [terminal_static w k hs hf he]
        exact termStatic_congr w k _ _ (hl.2 i cs e hL he)
  | nonTerm i k =>
    simp only [step, staticAnswer]
    have := lin_some hl i
    cases hL : L[i]? with
    | none =>
      rw [hL] at this
      have he : s.exts[i]? = none := by
        cases h : s.exts[i]? with
        | none => rfl
        | some e => rw [h] at this; cases this
      simp [nonTerminal, he]
    | some cs =>
      rw [hL] at this
      cases he : s.exts[i]? with
      | none => rw [he] at this; cases this
      | some e =>
        simp only
        rw [nonTerminal_static w k hs hf he]
        exact nonTermStatic_congr w k _ _ (hl.2 i cs e hL he)

theorem run_answers_gen (w : World) (e0 : Ext) (ops : List Op) :
    ∀ (L : List (List BCall)) (s : Store), StoreInv s → FamInv w s → LinInv e0 L s →
      (run w s ops).2.map (·.1) = staticRun w e0 L ops := by
  induction ops with
  | nil => intro L s _ _ _; rfl
  | cons op ops ih =>
    intro L s hs hf hl
    have hstep := step_static_answer w e0 hs hf hl op
    have hl' : LinInv e0 (lineage L [op]) (step w s op).1 := lin_exec w e0 [op] hl
    have := ih (lineage L [op]) (step w s op).1 (inv_step w hs op) (fam_step w hs hf op) hl'
    simp only [run, staticRun, List.map_cons]
    rw [hstep, this]

/-- **run_answers**: the answers of a whole history — every derive, PageCount, IsMultiColumn,
IsCharacterLevel, terminal operation and Close, in any interleaving on any extractors of the
family — are the ones predicted operation by operation from the chain of configuration calls
behind each receiver.  Nothing an earlier operation did (opening, closing, failing) shows in a
later answer. -/
theorem run_answers (w : World) (f : Fmt) (ops : List Op) :
    (run w (openBaseF f) ops).2.map (·.1) = staticRun w { format := f } [[]] ops ∧
    (run w readerBase ops).2.map (·.1) =
      staticRun w { hasFile := false, reader := some 0, owns := false, opened := true } [[]] ops :=
  ⟨run_answers_gen w _ ops _ _ (inv_openBaseF f) (fam_openBaseF w f) (lin_base _ []),
   run_answers_gen w _ ops _ _ inv_readerBase (fam_readerBase w) (lin_base _ [true])⟩

/-- **answer_of_lineage**: after any history, the answer of every terminal and non-terminal
operation on extractor `i` is a function of the chain `cs` of calls that built `i`, of the
file and of the format. -/
theorem answer_of_lineage (w : World) (f : Fmt) (ops : List Op) (i : Nat) (cs : List BCall)
    (hl : (lineage [[]] ops)[i]? = some cs) :
    (∀ k : Term, (terminal w k (exec w (openBaseF f) ops) i).2 = termStatic w k (chainFrom { format := f } cs)) ∧
    (∀ k : NonTerm, (nonTerminal w k (exec w (openBaseF f) ops) i).2 =
      nonTermStatic w k (chainFrom { format := f } cs)) := by
  have hs := inv_exec w ops (inv_openBaseF f)
  have hf := fam_exec w ops (inv_openBaseF f) (fam_openBaseF w f)
  have hlin : LinInv { format := f } (lineage [[]] ops) (exec w (openBaseF f) ops) :=
    lin_exec w _ ops (lin_base _ [])
  constructor
  · intro k
    have := step_static_answer w _ hs hf hlin (.term i k)
    simpa [step, staticAnswer, hl] using this
  · intro k
    have := step_static_answer w _ hs hf hlin (.nonTerm i k)
    simpa [step, staticAnswer, hl] using this

/-- the same for a `FromReader` base -/
theorem answer_of_lineage_reader (w : World) (ops : List Op) (i : Nat) (cs : List BCall)
    (hl : (lineage [[]] ops)[i]? = some cs) (k : Term) :
    (terminal w k (exec w readerBase ops) i).2 =
      termStatic w k (chainFrom { hasFile := false, reader := some 0, owns := false, opened := true } cs) := by
  have hs := inv_exec w ops inv_readerBase
  have hf := fam_exec w ops inv_readerBase (fam_readerBase w)
  have hlin : LinInv _ (lineage [[]] ops) (exec w readerBase ops) := lin_exec w _ ops (lin_base _ [true])
  have := step_static_answer w _ hs hf hlin (.term i k)
  simpa [step, staticAnswer, hl] using this

/-- the lineage of a freshly built chain -/
theorem lineage_fresh (cs : List BCall) :
    ∀ (L : List (List BCall)) (j : Nat) (pre : List BCall), L.length = j + 1 → L[j]? = some pre →
      (lineage L (freshChainFrom j cs))[j + cs.length]? = some (pre ++ cs) := by
  induction cs with
  | nil => intro L j pre _ h; simpa [freshChainFrom, lineage] using h
  | cons c cs ih =>
    intro L j pre hlen h
    simp only [freshChainFrom, lineage, h]
    have := ih (L ++ [pre ++ [c]]) (j + 1) (pre ++ [c]) (by simp [hlen])
      (by rw [List.getElem?_append_right (by omega)]; simp [hlen])
    simpa [Nat.add_assoc, Nat.add_comm 1, List.append_assoc] using this

/-- **history_independent**: the answer of a terminal operation on extractor `i` after an
arbitrary history equals the answer of the same operation on the last extractor of the chain
`Open(f).c₁.c₂…cₙ` built afresh by the calls `c₁…cₙ` that built `i` and used for nothing
else — "whatever ran before, the result is that of an extractor without history". -/
theorem history_independent (w : World) (f : Fmt) (ops : List Op) (i : Nat) (cs : List BCall)
    (hl : (lineage [[]] ops)[i]? = some cs) (k : Term) :
    (terminal w k (exec w (openBaseF f) ops) i).2 =
      (terminal w k (exec w (openBaseF f) (freshChainFrom 0 cs)) cs.length).2 := by
  rw [(answer_of_lineage w f ops i cs hl).1 k]
  have hfresh : (lineage [[]] (freshChainFrom 0 cs))[cs.length]? = some cs := by
    have := lineage_fresh cs [[]] 0 [] rfl rfl
    simpa using this
  rw [(answer_of_lineage w f (freshChainFrom 0 cs) cs.length cs hfresh).1 k]

/-- non-vacuity: extractor 2 was built by `Pages(3).ByColumn()` from a base that had been
opened, counted, derived from and used; its Text is that of the fresh chain -/
example : let w : World := ⟨true, some 4⟩
    let ops := [Op.nonTerm 0 .pageCount, .derive 0 (.pages [3]), .term 0 .text, .derive 1 .byColumn,
      .nonTerm 1 .isMultiColumn, .close 1, .close 1]
    (lineage [[]] ops)[2]? = some [.pages [3], .byColumn] ∧
      (terminal w .text (exec w openBase ops) 2).2 = .pages [2] ∧
      (terminal w .text (exec w openBase (freshChainFrom 0 [.pages [3], .byColumn])) 2).2 = .pages [2] := by
  decide

end Tabula.C10Hist
