import TabulaModel.Props.C14Json
import TabulaModel.Lemmas.ExportDecodeVdb
/-!
# C14 (part 8) — the vector-database exports give the SAME RECORDS back

`Props/C14Json.lean` shows that the texts of `ExportForWeaviate`, `ExportForPinecone` and
`ExportForChroma` are well-formed JSON (Lines) and read back to the JSON values of the records.
Here the last step: the INVERSE READER of `Model/ExportDecodeVdb.lean` (what a consumer gets out of
the parsed JSON: id, text, title, first page, section title, chunk index, embedding) applied to
the parsed text returns exactly one view per chunk, in collection order, with the chunk's own
values and the embedding at the chunk's index — for every collection of well-formed-UTF-8 chunks
and every list of embeddings whose components are JSON number tokens.  Pinecone carries only the
chunks that have a non-empty vector (documented; `pinecone_omits_chunks_without_vector`).
-/
namespace Tabula.C14Vdb
open Tabula.Export Tabula.Csv Tabula.Json Tabula.C14 Tabula.C14Meta Tabula.C14Api Tabula.C14Json
open Tabula.Split (validUtf8)

/-- Weaviate: the text, read line by line and decoded, is exactly one record per chunk, in order: the class name given, the chunk's id, text, title, first page, section title, index, and the embedding at the chunk's index -/
theorem weaviate_same_records (cls : Str) (chunks : List Chunk) (embs : List (Emb Str))
    (hcls : validUtf8 cls = true) (hc : ∀ c ∈ chunks, chunkValid c = true) (he : embsOk embs = true) :
    decodeWeaviateText (weaviateText cls chunks embs) =
      some (chunks.zipIdx.map (fun p => (cls, vdbView true p.1 (embAt embs p.2)))) :=
  decodeWeaviateText_of_read _ cls chunks embs (weaviate_text_parses_back cls chunks embs hcls hc he).1

/-- Pinecone: exactly the chunks that have a non-empty vector at their index, in order -/
theorem pinecone_same_records (chunks : List Chunk) (embs : List (Emb Str))
    (hc : ∀ c ∈ chunks, chunkValid c = true) (he : embsOk embs = true) :
    decodePineconeText (pineconeText chunks embs) =
      some (chunks.zipIdx.filterMap (fun p => if embAt embs p.2 = [] then none else some (vdbView false p.1 (embAt embs p.2)))) :=
  decodePineconeText_of_read _ chunks embs (pinecone_text_parses_back chunks embs hc he).1

/-- Chroma: the parallel arrays zip back to one record per chunk, in order -/
theorem chroma_same_records (chunks : List Chunk) (embs : List (Emb Str))
    (hc : ∀ c ∈ chunks, chunkValid c = true) (he : embsOk embs = true) :
    decodeChromaText (chromaText chunks embs) =
      some (chunks.zipIdx.map (fun p => vdbView true p.1 (embAt embs p.2))) :=
  decodeChromaText_of_read _ chunks embs (chroma_text_parses_back chunks embs hc he).1

/-- corollary: ids and texts of the decoded records are the chunks', in order (Weaviate, Chroma: all chunks) -/
theorem vdb_ids_texts_in_order (cls : Str) (chunks : List Chunk) (embs : List (Emb Str))
    (hcls : validUtf8 cls = true) (hc : ∀ c ∈ chunks, chunkValid c = true) (he : embsOk embs = true) :
    (decodeWeaviateText (weaviateText cls chunks embs)).map (·.map (fun r => (r.2.id, r.2.text))) = some (chunks.map (fun c => (c.id, c.text))) ∧
    (decodeChromaText (chromaText chunks embs)).map (·.map (fun r => (r.id, r.text))) = some (chunks.map (fun c => (c.id, c.text))) := by
  rw [weaviate_same_records cls chunks embs hcls hc he, chroma_same_records chunks embs hc he]
  simp only [Option.map_some, List.map_map]
  exact ⟨congrArg some (zipIdx_map_fst_comp (fun c : Chunk => (c.id, c.text)) chunks 0),
    congrArg some (zipIdx_map_fst_comp (fun c : Chunk => (c.id, c.text)) chunks 0)⟩

/-- the hypotheses are satisfiable with non-trivial values: a class name, a chunk with quotes,
non-ASCII text and a title, embeddings with a vector, a nil vector and an empty one -/
example : validUtf8 [67, 104, 117, 110, 107] = true ∧
    (∀ c ∈ [({ id := [99, 34, 10], text := [0xC3, 0xA9, 44, 9], md := { documentTitle := [84], pageStart := 3, chunkIndex := 1 } } : Chunk)],
      chunkValid c = true) ∧
    embsOk [some [[48, 46, 53], [45, 49, 50]], none, some []] = true := by
  have h1 : validUtf8 [99, 34, 10] = true := validUtf8_ascii _ (by decide)
  have h2 : validUtf8 [0xC3, 0xA9, 44, 9] = true := by
    rw [Tabula.Split.validUtf8_step _ (by decide)]; exact validUtf8_ascii _ (by decide)
  have h3 : validUtf8 [84] = true := validUtf8_ascii _ (by decide)
  have h0 : validUtf8 [] = true := Tabula.Split.validUtf8_nil
  refine ⟨validUtf8_ascii _ (by decide), ?_, by decide⟩
  intro c hc
  simp only [List.mem_singleton] at hc
  subst hc
  simp [chunkValid, metaValid, strsValid, h1, h2, h3, h0]

/-- Pinecone's documented omission: a chunk without a vector at its index has no record — a
one-chunk collection exported without embeddings decodes to no record at all (while Weaviate and
Chroma give the chunk back: `weaviate_same_records`, `chroma_same_records`) -/
theorem pinecone_omits_chunks_without_vector :
    decodePineconeText (pineconeText [{ id := [99], text := [116], md := {} }] []) = some [] := by
  have hv : ∀ c ∈ [({ id := [99], text := [116], md := {} } : Chunk)], chunkValid c = true := by
    intro c hc
    simp only [List.mem_singleton] at hc
    subst hc
    have h1 : validUtf8 [99] = true := validUtf8_ascii _ (by decide)
    have h2 : validUtf8 [116] = true := validUtf8_ascii _ (by decide)
    have h0 : validUtf8 [] = true := Tabula.Split.validUtf8_nil
    simp [chunkValid, metaValid, strsValid, h1, h2, h0]
  rw [pinecone_same_records _ [] hv (by decide)]
  rfl

end Tabula.C14Vdb
