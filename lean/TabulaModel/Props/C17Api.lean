import TabulaModel.Lemmas.WorkbookMd
import TabulaModel.Lemmas.WorkbookBudget
import TabulaModel.Props.C17
/-!
# C17, workbook level — every output of the xlsx reader shows each cell at its address

The model is `Model/Workbook.lean` (shared strings, the whole worksheet loader, accessors,
options, `TextWithOptions`, `findContentBounds`, `markdown` and wrappers, `Document`, `Tables`,
the XLSX branches of `tabula.Extractor`).  The specification side is declarative:

* `Wb.addressed rows r c` — the `<c>` elements of the file addressed to position `(r,c)`;
* `Wb.fileCell`, `Wb.isCovered`, `Wb.isRoot`, `Wb.displayed` — what the file stores for a
  position, whether an applied merged region covers it / starts at it, and the value it displays
  (blank under a merged region except at its top-left).  The applied regions
  (`Wb.appliedRegions`, from the file only) are the longest prefix of the declared regions whose
  rectangles clipped to the grid add up to at most one grid — since the fix "merged regions of a
  worksheet are applied within a budget of one grid" the loader stops at the first region that
  does not fit.  For every sheet whose regions fit the grid, in particular pairwise disjoint
  regions (every valid sheet), they are all declared regions and the statements read as before
  the fix: `Props/C17Budget.lean` (`all_regions_applied_of_disjoint`, `grid_cell_declared`);
* `Wb.shownGrid`, `Wb.boxTable` — the displayed values by position, whole grid / content box;
* readers written from the formats, not from the writers: `Sheet.splitOn` (tab-separated text),
  `Wb.mdReadTable` (GFM pipe table, `\|` = literal pipe).

Helper lemmas: `Lemmas/Workbook*.lean`.
-/
namespace Tabula.C17A
open Tabula.A1 Tabula.Sheet Tabula.Wb

/-! ## shared strings -/

/-- entry `i` of the shared-string table comes from the `i`-th `<si>` -/
theorem shared_table (sis : List SI) (i : Nat) :
    (parseSharedStrings sis)[i]? = (sis[i]?).map sharedString := by
  simp [parseSharedStrings]

/-- a plain `<si><t>` is its text -/
theorem shared_plain (si : SI) (h : si.t ≠ []) : sharedString si = si.t := by
  simp [sharedString, h]

/-- a rich-text `<si>` is the concatenation of its runs, in order -/
theorem shared_rich (runs : List Str) : sharedString ⟨[], runs⟩ = runs.flatten := by
  simp [sharedString]

/-! ## what each stored kind displays (the type switch of `parseWorksheet`) -/

/-- `t="s"`: the shared string the index names — plain or rich text alike -/
theorem kind_shared (sis : List SI) (x : CellXML) (old : Cell) (i : Nat) (si : SI)
    (ht : x.t = tS) (hv : atoi x.v = some (i : Int)) (hsi : sis[i]? = some si) :
    (cellContent (parseSharedStrings sis) x old).value = sharedString si ∧
      (cellContent (parseSharedStrings sis) x old).type = .str := by
  have h := shared_table sis i
  rw [hsi] at h
  unfold cellContent
  simp only [ht, if_true, hv]
  have h0 : (0 : Int) ≤ (i : Int) := by omega
  simp only [h0, if_true, Int.toNat_natCast, h, Option.map_some]
  exact ⟨trivial, trivial⟩

/-- `t="b"`: TRUE for 1, FALSE otherwise -/
theorem kind_bool (shared : List Str) (x : CellXML) (old : Cell) (ht : x.t = tB) :
    (cellContent shared x old).value = (if x.v = [49] then sTRUE else sFALSE) ∧
      (cellContent shared x old).type = .bool := by
  unfold cellContent
  have : ¬ tB = tS := by decide
  simp only [ht, this, if_false, if_true]
  exact ⟨trivial, trivial⟩

/-- `t="e"`: the error text of `<v>` -/
theorem kind_error (shared : List Str) (x : CellXML) (old : Cell) (ht : x.t = tE) :
    (cellContent shared x old).value = x.v ∧ (cellContent shared x old).type = .err := by
  unfold cellContent
  have h1 : ¬ tE = tS := by decide
  have h2 : ¬ tE = tB := by decide
  simp only [ht, h1, h2, if_false, if_true]
  exact ⟨trivial, trivial⟩

/-- `t="str"` (string result of a formula): the text of `<v>` -/
theorem kind_str (shared : List Str) (x : CellXML) (old : Cell) (ht : x.t = tStr) :
    (cellContent shared x old).value = x.v ∧ (cellContent shared x old).type = .str := by
  unfold cellContent
  have h1 : ¬ tStr = tS := by decide
  have h2 : ¬ tStr = tB := by decide
  have h3 : ¬ tStr = tE := by decide
  simp only [ht, h1, h2, h3, if_false, if_true]
  exact ⟨trivial, trivial⟩

/-- `t="inlineStr"`: the text of `<is><t>` -/
theorem kind_inline (shared : List Str) (x : CellXML) (old : Cell) (s : Str)
    (ht : x.t = tInline) (his : x.is = some s) :
    (cellContent shared x old).value = s ∧ (cellContent shared x old).type = .str := by
  unfold cellContent
  have h1 : ¬ tInline = tS := by decide
  have h2 : ¬ tInline = tB := by decide
  have h3 : ¬ tInline = tE := by decide
  have h4 : ¬ tInline = tStr := by decide
  simp only [ht, h1, h2, h3, h4, if_false, if_true, his]
  exact ⟨trivial, trivial⟩

/-- no string/boolean/error type and a `<v>`: a number, shown as stored -/
theorem kind_number (shared : List Str) (x : CellXML) (old : Cell)
    (ht : x.t ≠ tS ∧ x.t ≠ tB ∧ x.t ≠ tE ∧ x.t ≠ tStr ∧ x.t ≠ tInline) (hv : x.v ≠ []) :
    (cellContent shared x old).value = x.v ∧ (cellContent shared x old).type = .num := by
  unfold cellContent
  simp only [ht.1, ht.2.1, ht.2.2.1, ht.2.2.2.1, ht.2.2.2.2, if_false, hv, ne_eq, not_false_eq_true, if_true]
  exact ⟨trivial, trivial⟩

/-- a formula with nothing cached shows nothing -/
theorem kind_formula_uncached (shared : List Str) (x : CellXML) (old : Cell)
    (ht : x.t ≠ tS ∧ x.t ≠ tB ∧ x.t ≠ tE ∧ x.t ≠ tStr ∧ x.t ≠ tInline) (hv : x.v = []) (hf : x.f ≠ []) :
    (cellContent shared x old).value = [] ∧ (cellContent shared x old).type = .formula := by
  unfold cellContent
  simp only [ht.1, ht.2.1, ht.2.2.1, ht.2.2.2.1, ht.2.2.2.2, if_false, hv, ne_eq, not_true_eq_false, hf,
    not_false_eq_true, if_true]
  exact ⟨trivial, trivial⟩

/-- **formula-cached cells**: whenever the cell has a type attribute or a cached `<v>`, the `<f>`
element beside it changes nothing — the cell shows its cached result like a typed-in cell -/
theorem formula_cached_same (shared : List Str) (x : CellXML) (old : Cell) (f : Str)
    (h : x.t = tS ∨ x.t = tB ∨ x.t = tE ∨ x.t = tStr ∨ x.t = tInline ∨ x.v ≠ []) :
    cellContent shared { x with f := f } old = cellContent shared x old := by
  unfold cellContent
  simp only
  iterate 5 (split; · rfl)
  rename_i h1 h2 h3 h4 h5
  have hv : x.v ≠ [] := by
    rcases h with h | h | h | h | h | h
    · exact absurd h h1
    · exact absurd h h2
    · exact absurd h h3
    · exact absurd h h4
    · exact absurd h h5
    · exact h
  simp [hv]

/-! ## the loader: dimensions, every position of the grid, nothing lost -/

/-- `(*Sheet).Cell` with non-negative arguments is the grid lookup -/
theorem cell_eq_get (s : Wb.Sheet) (r c : Nat) : s.cell (r : Int) (c : Int) = s.rows.get r c := by
  unfold Wb.Sheet.cell Grid.get
  by_cases hr : r < s.rows.length
  · have h1 : ¬ ((r : Int) < 0 ∨ (r : Int) ≥ (s.rows.length : Int)) := by omega
    simp only [h1, if_false, Int.toNat_natCast, List.getElem?_eq_getElem hr, Option.bind_some]
    by_cases hc : c < (s.rows[r]).length
    · have h2 : ¬ ((c : Int) < 0 ∨ (c : Int) ≥ ((s.rows[r]).length : Int)) := by omega
      simp only [h2, if_false, Int.toNat_natCast]
    · have h2 : ((c : Int) < 0 ∨ (c : Int) ≥ ((s.rows[r]).length : Int)) := by omega
      simp only [h2, if_true]
      rw [List.getElem?_eq_none (by omega)]
  · have h1 : ((r : Int) < 0 ∨ (r : Int) ≥ (s.rows.length : Int)) := by omega
    simp only [h1, if_true]
    rw [List.getElem?_eq_none (by omega)]; rfl

/-- negative coordinates name no cell -/
theorem cell_negative (s : Wb.Sheet) (r c : Int) (h : r < 0 ∨ c < 0) : s.cell r c = none := by
  unfold Wb.Sheet.cell
  rcases h with h | h
  · simp [h]
  · split
    · rfl
    · split
      · rfl
      · simp [h]

/-- the loader refuses a sheet exactly when its grid exceeds what is left of the workbook's budget
of `maxGridCells` cells plus the allowance of its part: `gridCellsPerElement` = 16 cells for
every `<c>` element, if no earlier `<sheet>` entry was handed the same member (`fresh`), else
nothing.  `used` = what the earlier sheets needed beyond their allowances.  Restated after the fix
"a worksheet grid may grow with the cells its part brings; only the excess counts against the
workbook's limit" (before: `gridSize x + used > maxGridCells`, whatever the part brings). -/
theorem load_fails_iff (shared : List Str) (i used : Nat) (fresh : Bool) (x : SheetXML) :
    loadSheet shared i used fresh x = none ↔
      gridSize x > maxGridCells - used + allowance fresh x := by
  rw [loadSheet_none_iff]; unfold fits; omega

/-- with nothing charged yet (the first sheet; a workbook of one sheet): the loader refuses the
sheet exactly when its grid has more than `maxGridCells` cells plus 16 per `<c>` element -/
theorem load_fails_iff_first (shared : List Str) (i : Nat) (x : SheetXML) :
    loadSheet shared i 0 true x = none ↔ gridSize x > maxGridCells + gridCellsPerElement * elements x := by
  rw [load_fails_iff]; simp [allowance]

/-- **a dense sheet always loads**: a fresh part whose grid has at most 16 cells per `<c>` element
loads whatever was loaded before, and takes nothing out of the workbook's budget -/
theorem dense_sheet_loads (shared : List Str) (i used : Nat) (x : SheetXML)
    (h : gridSize x ≤ gridCellsPerElement * elements x) :
    (∃ s, loadSheet shared i used true x = some s) ∧ charge true x = 0 := by
  obtain ⟨h1, h2⟩ := dense_fits used x h
  exact ⟨(loadSheet_isSome_iff shared i used true x).mpr h1, h2⟩

/-- non-vacuity: a 2x2 sheet with one `<c>` element is dense (4 cells, allowance 16) -/
example :
    let x : SheetXML := ⟨[83], [⟨2, [⟨[66, 50], tStr, [120], [], none⟩]⟩], [], [109]⟩
    gridSize x ≤ gridCellsPerElement * elements x := by decide

/-- **dimensions**: the grid of a loaded sheet has as many rows as the largest `<row r>` and as
many columns as the largest parsable column reference, plus one; it is rectangular; name, index
and `MaxCol` are those of the part -/
theorem grid_dims {shared : List Str} {i used : Nat} {fresh : Bool} {x : SheetXML} {s : Wb.Sheet}
    (h : loadSheet shared i used fresh x = some s) :
    s.rowCount = maxRowOf x.rows ∧ s.colCount = maxColOf x.rows + 1 ∧
      (∀ row ∈ s.rows, row.length = maxColOf x.rows + 1) ∧ s.name = x.name ∧ s.index = i := by
  obtain ⟨h1, h2, h3, _, _⟩ := loadSheet_some h
  obtain ⟨h4, h5⟩ := loadSheet_shape h
  refine ⟨h4, by simp [Wb.Sheet.colCount, h3], ?_, h1, h2⟩
  rw [← h3]; exact h5

/-- **nothing is lost**: every position some `<c>` element of the file addresses (row element
numbered `r+1`, reference parsing to column `c`) lies inside the grid -/
theorem no_cell_lost {shared : List Str} {i used : Nat} {fresh : Bool} {x : SheetXML} {s : Wb.Sheet}
    (h : loadSheet shared i used fresh x = some s) (r c : Nat) (ha : addressed x.rows r c ≠ []) :
    (s.cell r c).isSome = true := by
  obtain ⟨h1, h2⟩ := addressed_in_grid x.rows r c ha
  obtain ⟨h4, h5⟩ := loadSheet_shape h
  rw [cell_eq_get, get_isSome_of_rect h5, h4, (loadSheet_some h).2.2.1]
  have : c < maxColOf x.rows + 1 := by omega
  simp [h1, this]

/-- **the grid, position by position** (dimension pass + placement + merge pass composed): cell
`(r,c)` of a loaded sheet holds the value and type the file stores for `(r,c)` — the addressed
elements applied in source order, nothing else — is marked merged iff an applied region covers it
and root iff it is an applied region's top-left, and so displays `displayed shared x r c`.
Restated after the fix "merged regions … within a budget of one grid": the regions are
`Wb.appliedRegions x` (before: all declared regions); for sheets whose regions fit the grid —
every valid sheet — these are all declared regions (`C17B.grid_cell_declared`). -/
theorem grid_cell {shared : List Str} {i used : Nat} {fresh : Bool} {x : SheetXML} {s : Wb.Sheet}
    (h : loadSheet shared i used fresh x = some s) (r c : Nat) (hr : r < maxRowOf x.rows) (hc : c ≤ maxColOf x.rows) :
    ∃ cell, s.cell r c = some cell ∧
      cell.value = (fileCell shared x r c).value ∧ cell.type = (fileCell shared x r c).type ∧
      cell.merged = isCovered x r c ∧ cell.root = isRoot x r c ∧
      cellText cell = displayed shared x r c := by
  have hg := loadSheet_get h r c hr hc
  rw [cell_eq_get]
  cases hcell : s.rows.get r c with
  | none => rw [hcell] at hg; cases hg
  | some cell =>
    rw [hcell] at hg
    simp only [Option.map_some, Option.some.injEq, marksOf, CellMarks.mk.injEq] at hg
    obtain ⟨e1, e2, e3, e4⟩ := hg
    refine ⟨cell, rfl, e1, e2, e3, e4, ?_⟩
    unfold cellText displayed
    rw [e1, e3, e4]

/-- outside the grid there is no cell (and by `no_cell_lost` nothing was addressed there) -/
theorem cell_outside {shared : List Str} {i used : Nat} {fresh : Bool} {x : SheetXML} {s : Wb.Sheet}
    (h : loadSheet shared i used fresh x = some s) (r c : Nat) (ho : maxRowOf x.rows ≤ r ∨ maxColOf x.rows < c) :
    s.cell r c = none := by
  obtain ⟨h4, h5⟩ := loadSheet_shape h
  have := get_isSome_of_rect h5 r c
  rw [h4, (loadSheet_some h).2.2.1] at this
  rw [cell_eq_get]
  cases hc : s.rows.get r c with
  | none => rfl
  | some cell =>
    rw [hc] at this
    simp only [Option.isSome_some] at this
    have h2 : (decide (r < maxRowOf x.rows) && decide (c < maxColOf x.rows + 1)) = true := this.symm
    simp only [Bool.and_eq_true, decide_eq_true_eq] at h2
    omega

/-- **merged regions in the grid**: a position covered by an applied region (`Wb.appliedRegions`;
all declared regions for every valid sheet, `C17B.all_regions_applied_of_disjoint`) and not the
top-left of one displays nothing, whatever the file stores there; a top-left displays its stored
value -/
theorem merge_display (shared : List Str) (x : SheetXML) (r c : Nat) :
    (isCovered x r c = true → isRoot x r c = false → displayed shared x r c = []) ∧
    (isRoot x r c = true → displayed shared x r c = (fileCell shared x r c).value) ∧
    (isCovered x r c = false → displayed shared x r c = (fileCell shared x r c).value) := by
  unfold displayed
  refine ⟨?_, ?_, ?_⟩
  · intro h1 h2; simp [h1, h2]
  · intro h1; simp [h1]
  · intro h1; simp [h1]

/-- one `<c>` element addressed to the position (as every producer writes): the cell shows that
element's content, by the kind theorems above -/
theorem fileCell_single (shared : List Str) (x : SheetXML) (r c : Nat) (cx : CellXML)
    (h : addressed x.rows r c = [cx]) : fileCell shared x r c = cellContent shared cx {} := by
  unfold fileCell; rw [h]; rfl

/-- no element addressed to the position: the empty cell -/
theorem fileCell_none (shared : List Str) (x : SheetXML) (r c : Nat)
    (h : addressed x.rows r c = []) : fileCell shared x r c = {} := by
  unfold fileCell; rw [h]; rfl

/-- `parseWorksheets`: every sheet of the reader was loaded from the part at its `Index`, in the
state the earlier entries left (`stateAfter`, from the file only: the members recorded and the
cells charged), and the sheets keep the workbook order (parts that are missing or fail to load
leave a gap) -/
theorem open_sheet_origin (shared : List Str) (parts : List (Option SheetXML)) (k : Nat) (seen : List Str)
    (used : Nat) (s : Wb.Sheet) (h : s ∈ loadParts shared parts k seen used) :
    k ≤ s.index ∧ ∃ x, parts[s.index - k]? = some (some x) ∧
      loadSheet shared s.index (stateAfter (parts.take (s.index - k)) seen used).2
        (!(stateAfter (parts.take (s.index - k)) seen used).1.contains x.member) x = some s := by
  induction parts generalizing k seen used with
  | nil => cases h
  | cons p ps ih =>
    cases p with
    | none =>
      simp only [loadParts] at h
      obtain ⟨h1, x, h2, h3⟩ := ih (k + 1) seen used h
      have e : s.index - k = (s.index - (k + 1)) + 1 := by omega
      refine ⟨by omega, x, ?_, ?_⟩
      · rw [e]; simpa using h2
      · rw [e, List.take_succ_cons]; exact h3
    | some x0 =>
      simp only [loadParts] at h
      cases hl : loadSheet shared k used (!seen.contains x0.member) x0 with
      | none =>
        rw [hl] at h
        obtain ⟨h1, x, h2, h3⟩ := ih (k + 1) _ used h
        have hn := (loadSheet_none_iff shared k used _ x0).mp hl
        have e : s.index - k = (s.index - (k + 1)) + 1 := by omega
        refine ⟨by omega, x, ?_, ?_⟩
        · rw [e]; simpa using h2
        · rw [e, List.take_succ_cons]
          simp only [stateAfter, hn, if_false]; exact h3
      | some s0 =>
        rw [hl] at h
        have hf : fits used (!seen.contains x0.member) x0 := (loadSheet_isSome_iff shared k used _ x0).mp ⟨s0, hl⟩
        rcases List.mem_cons.mp h with h | h
        · subst h
          have hi := (loadSheet_some hl).2.1
          refine ⟨by omega, x0, ?_, ?_⟩
          · rw [hi]; simp
          · rw [hi]; simpa [stateAfter] using hl
        · obtain ⟨h1, x, h2, h3⟩ := ih (k + 1) _ _ h
          have e : s.index - k = (s.index - (k + 1)) + 1 := by omega
          refine ⟨by omega, x, ?_, ?_⟩
          · rw [e]; simpa using h2
          · rw [e, List.take_succ_cons]
            simp only [stateAfter, hf, if_true]; exact h3

/-! ## the content box -/

/-- a cell produced by the loader has a value only if it has a type -/
theorem cellContent_typed (shared : List Str) (cx : CellXML) (old : Cell)
    (h : old.type = .empty → old.value = []) :
    (cellContent shared cx old).type = .empty → (cellContent shared cx old).value = [] := by
  unfold cellContent
  iterate 7 (split; · intro h'; first | cases h' | exact h h')
  exact h

theorem fileCell_typed (shared : List Str) (x : SheetXML) (r c : Nat) :
    (fileCell shared x r c).type = .empty → (fileCell shared x r c).value = [] := by
  unfold fileCell
  generalize addressed x.rows r c = xs
  have : ∀ (old : Cell), (old.type = .empty → old.value = []) →
      ((xs.foldl (fun cell cx => cellContent shared cx cell) old).type = .empty →
        (xs.foldl (fun cell cx => cellContent shared cx cell) old).value = []) := by
    induction xs with
    | nil => intro old h; exact h
    | cons a as ih => intro old h; exact ih _ (cellContent_typed shared a old h)
  exact this {} (fun _ => rfl)

/-- **content = displays something**: in a loaded sheet the cells `findContentBounds` counts are
exactly the positions whose displayed value is not empty -/
theorem content_iff_displayed {shared : List Str} {i used : Nat} {fresh : Bool} {x : SheetXML} {s : Wb.Sheet}
    (h : loadSheet shared i used fresh x = some s) (r c : Nat) :
    HasContent s.rows r c ↔
      (r < maxRowOf x.rows ∧ c ≤ maxColOf x.rows ∧ displayed shared x r c ≠ []) := by
  constructor
  · rintro ⟨cell, hcell, hcont⟩
    have hin : r < maxRowOf x.rows ∧ c ≤ maxColOf x.rows := by
      have := cell_outside h r c
      rw [cell_eq_get, hcell] at this
      constructor
      · apply Classical.byContradiction; intro hn; exact absurd (this (Or.inl (by omega))) (by simp)
      · apply Classical.byContradiction; intro hn; exact absurd (this (Or.inr (by omega))) (by simp)
    obtain ⟨cell', h1, _, _, _, _, h6⟩ := grid_cell h r c hin.1 hin.2
    rw [cell_eq_get, hcell] at h1
    cases h1
    refine ⟨hin.1, hin.2, ?_⟩
    rw [← h6]
    unfold isContent isEmptyCell at hcont
    unfold cellText
    cases hm : cell.merged <;> cases hr : cell.root <;> simp_all
  · rintro ⟨hr, hc, hd⟩
    obtain ⟨cell, h1, h2, h3, _, _, h6⟩ := grid_cell h r c hr hc
    rw [cell_eq_get] at h1
    refine ⟨cell, h1, ?_⟩
    rw [← h6] at hd
    have htyped := fileCell_typed shared x r c
    rw [← h2, ← h3] at htyped
    unfold isContent isEmptyCell
    unfold cellText at hd
    cases hm : cell.merged <;> cases hroot : cell.root <;> simp_all
    all_goals (intro ht; exact hd (htyped ht))

/-- **`findContentBounds` is the tight bounding box of the content cells** of any rectangular
sheet: every content cell is inside; if there is one, each side of the box touches one and the box
is not empty; if there is none, the results are the initial values and the box is empty -/
theorem bounds_tight (s : Wb.Sheet) (hrect : Rect (s.maxCol + 1) s.rows) :
    (∀ r c, HasContent s.rows r c →
      (findContentBounds s).minRow ≤ r ∧ (r : Int) ≤ (findContentBounds s).maxRow ∧
      (findContentBounds s).minCol ≤ c ∧ (c : Int) ≤ (findContentBounds s).maxCol) ∧
    ((∃ r c, HasContent s.rows r c) →
      (∃ c, HasContent s.rows (findContentBounds s).minRow.toNat c) ∧
      (∃ c, HasContent s.rows (findContentBounds s).maxRow.toNat c) ∧
      (∃ r, HasContent s.rows r (findContentBounds s).minCol.toNat) ∧
      (∃ r, HasContent s.rows r (findContentBounds s).maxCol.toNat) ∧
      (findContentBounds s).isEmpty = false) ∧
    ((¬ ∃ r c, HasContent s.rows r c) →
      findContentBounds s = initBounds s ∧ (findContentBounds s).isEmpty = true) := by
  refine ⟨bounds_cover s, ?_, bounds_none s⟩
  intro hex
  obtain ⟨a, b, c, d, _, _, _, _⟩ := bounds_attained s hrect hex
  refine ⟨a, b, c, d, ?_⟩
  obtain ⟨r0, c0, h0⟩ := hex
  obtain ⟨k1, k2, k3, k4⟩ := bounds_cover s r0 c0 h0
  simp only [Bounds.isEmpty, Bool.or_eq_false_iff, decide_eq_false_iff_not]
  omega

/-- non-vacuity: the two-row sheet B2 then A1 with a merged region A1:B1 over a stored B1 -/
example :
    let x : SheetXML := ⟨[83], [⟨2, [⟨[66, 50], tStr, [120], [], none⟩]⟩,
      ⟨1, [⟨[65, 49], tStr, [121], [], none⟩, ⟨[66, 49], tStr, [122], [], none⟩]⟩], [[65, 49, 58, 66, 49]], [109]⟩
    (loadSheet [] 0 0 true x).isSome = true ∧ displayed [] x 0 0 = [121] ∧ displayed [] x 0 1 = [] ∧
      (fileCell [] x 0 1).value = [122] ∧ displayed [] x 1 1 = [120] := by decide

/-! ## rows and cells written out of order -/

/-- the dimension pass does not depend on the order of the `<row>` elements -/
theorem dims_order_irrelevant (rows rows' : List RowXML) (hp : rows.Perm rows') :
    maxRowOf rows' = maxRowOf rows ∧ maxColOf rows' = maxColOf rows := by
  constructor
  · apply Nat.le_antisymm
    · rw [maxRowOf_eq rows']
      exact maxRow_foldl_le rows' 0 _ (Nat.zero_le _) (fun row hr => row_le_maxRow rows row (hp.mem_iff.mpr hr))
    · rw [maxRowOf_eq rows]
      exact maxRow_foldl_le rows 0 _ (Nat.zero_le _) (fun row hr => row_le_maxRow rows' row (hp.mem_iff.mp hr))
  · apply Nat.le_antisymm
    · rw [maxColOf_eq rows']
      exact maxCol_foldl_le rows' 0 _ (Nat.zero_le _)
        (fun row hr x hx col hc => col_le_maxCol rows row (hp.mem_iff.mpr hr) x hx col hc)
    · rw [maxColOf_eq rows]
      exact maxCol_foldl_le rows 0 _ (Nat.zero_le _)
        (fun row hr x hx col hc => col_le_maxCol rows' row (hp.mem_iff.mp hr) x hx col hc)

/-- **rows written out of order**: permuting the `<row>` elements changes neither the grid
dimensions nor the displayed value of any position that one `<c>` element addresses (or none) -/
theorem rows_order_irrelevant (shared : List Str) (x x' : SheetXML) (hp : x.rows.Perm x'.rows)
    (hm : x'.merges = x.merges) (r c : Nat) (hone : (addressed x.rows r c).length ≤ 1) :
    maxRowOf x'.rows = maxRowOf x.rows ∧ maxColOf x'.rows = maxColOf x.rows ∧
      displayed shared x' r c = displayed shared x r c := by
  obtain ⟨d1, d2⟩ := dims_order_irrelevant x.rows x'.rows hp
  refine ⟨d1, d2, ?_⟩
  have hperm : (addressed x.rows r c).Perm (addressed x'.rows r c) := List.Perm.flatMap_right _ hp
  have heq : addressed x'.rows r c = addressed x.rows r c := by
    cases ha : addressed x.rows r c with
    | nil => rw [ha] at hperm; exact List.perm_nil.mp hperm.symm
    | cons a as =>
      cases as with
      | nil => rw [ha] at hperm; exact List.perm_singleton.mp hperm.symm
      | cons b bs => rw [ha] at hone; simp at hone
  have ha : appliedRegions x' = appliedRegions x := by
    unfold appliedRegions fileRegions gridSize; rw [d1, d2, hm]
  unfold displayed isCovered isRoot fileCell
  rw [heq, ha]

/-- the dimension pass sees no more in `rows'` than in `rows` if every row element of `rows'` has
a row element of `rows` with the same number that contains its cells -/
theorem dims_le_of_cover (rows rows' : List RowXML)
    (h : ∀ row' ∈ rows', ∃ row ∈ rows, row'.r = row.r ∧ ∀ x ∈ row'.cells, x ∈ row.cells) :
    maxRowOf rows' ≤ maxRowOf rows ∧ maxColOf rows' ≤ maxColOf rows := by
  constructor
  · rw [maxRowOf_eq rows']
    apply maxRow_foldl_le rows' 0 _ (Nat.zero_le _)
    intro row' hr'
    obtain ⟨row, hr, e, _⟩ := h row' hr'
    rw [e]; exact row_le_maxRow rows row hr
  · rw [maxColOf_eq rows']
    apply maxCol_foldl_le rows' 0 _ (Nat.zero_le _)
    intro row' hr' x hx col hc
    obtain ⟨row, hr, _, hcells⟩ := h row' hr'
    exact col_le_maxCol rows row hr x (hcells x hx) col hc

/-- permuting the `<c>` elements of one row changes no dimension -/
theorem dims_cells_perm (pre post : List RowXML) (n : Int) (cells cells' : List CellXML) (hp : cells.Perm cells') :
    maxRowOf (pre ++ ⟨n, cells'⟩ :: post) = maxRowOf (pre ++ ⟨n, cells⟩ :: post) ∧
      maxColOf (pre ++ ⟨n, cells'⟩ :: post) = maxColOf (pre ++ ⟨n, cells⟩ :: post) := by
  have key : ∀ (a b : List CellXML), a.Perm b →
      ∀ row' ∈ pre ++ ⟨n, b⟩ :: post, ∃ row ∈ pre ++ ⟨n, a⟩ :: post, row'.r = row.r ∧ ∀ x ∈ row'.cells, x ∈ row.cells := by
    intro a b hab row' hr'
    simp only [List.mem_append, List.mem_cons] at hr'
    rcases hr' with hr' | hr' | hr'
    · exact ⟨row', by simp [hr'], rfl, fun _ hx => hx⟩
    · subst hr'
      exact ⟨⟨n, a⟩, by simp, rfl, fun x hx => hab.mem_iff.mpr hx⟩
    · exact ⟨row', by simp [hr'], rfl, fun _ hx => hx⟩
  obtain ⟨a1, a2⟩ := dims_le_of_cover _ _ (key cells cells' hp)
  obtain ⟨b1, b2⟩ := dims_le_of_cover _ _ (key cells' cells hp.symm)
  exact ⟨Nat.le_antisymm a1 b1, Nat.le_antisymm a2 b2⟩

/-- **cells written out of order**: the same for a permutation of the `<c>` elements of one row -/
theorem cells_order_irrelevant (shared : List Str) (name : Str) (merges : List Str) (member : Str)
    (pre post : List RowXML) (n : Int) (cells cells' : List CellXML) (hp : cells.Perm cells')
    (r c : Nat) (hone : (addressed (pre ++ ⟨n, cells⟩ :: post) r c).length ≤ 1) :
    displayed shared ⟨name, pre ++ ⟨n, cells'⟩ :: post, merges, member⟩ r c =
      displayed shared ⟨name, pre ++ ⟨n, cells⟩ :: post, merges, member⟩ r c := by
  have hperm : (addressed (pre ++ ⟨n, cells⟩ :: post) r c).Perm (addressed (pre ++ ⟨n, cells'⟩ :: post) r c) := by
    unfold addressed
    simp only [List.flatMap_append, List.flatMap_cons]
    apply List.Perm.append_left
    apply List.Perm.append_right
    split
    · exact hp.filter _
    · exact List.Perm.refl _
  have heq : addressed (pre ++ ⟨n, cells'⟩ :: post) r c = addressed (pre ++ ⟨n, cells⟩ :: post) r c := by
    cases ha : addressed (pre ++ ⟨n, cells⟩ :: post) r c with
    | nil => rw [ha] at hperm; exact List.perm_nil.mp hperm.symm
    | cons a as =>
      cases as with
      | nil => rw [ha] at hperm; exact List.perm_singleton.mp hperm.symm
      | cons b bs => rw [ha] at hone; simp at hone
  obtain ⟨d1, d2⟩ := dims_cells_perm pre post n cells cells' hp
  have ha : appliedRegions ⟨name, pre ++ ⟨n, cells'⟩ :: post, merges, member⟩ =
      appliedRegions ⟨name, pre ++ ⟨n, cells⟩ :: post, merges, member⟩ := by
    unfold appliedRegions fileRegions gridSize; simp only [d1, d2]
  unfold displayed isCovered isRoot fileCell
  simp only [heq, ha]

end Tabula.C17A
