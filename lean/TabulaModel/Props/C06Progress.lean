import TabulaModel.Lemmas.PdfCoreProgress
import TabulaModel.Lemmas.PdfCSProgress
import TabulaModel.Lemmas.PdfLexPos
/-!
# C06 — progress: every call of the lexer and of both parsers consumes input or fails

For EVERY byte string (legal spelling or not; no hypothesis on the input):

* `core.(*Lexer).NextToken` leaves a suffix of what it was given, strictly shorter unless the token
  is the end of input; white space in front and the token's own bytes tile what was consumed;
  `Token.Pos` strictly increases, `Token.SkippedBytes` is exactly the white space in front
  (`Model/LexPos.lean`, op `c06.lexp`).
* `core.(*Parser).ParseObject` (and `parseArray`, `parseDict`) strictly decrease what is left to parse
  (unread bytes + tokens in the two-token window), so a run of `ParseObject` calls ends, with at
  most one object per input byte.
* `contentstream.(*Parser).parseOperand` leaves a strictly shorter suffix (op `c06.operand`), so
  `Parse` ends, with at most one operator or operand per byte.
* The models are written with fuel / loop bounds (Lean needs structural recursion).  None of them is
  ever reached: every result is the same for all larger bounds, the "out of fuel" arms of
  `coreParseAll`, `windowTrace`, `lexTokens` are dead code.  So an `err` of the model is never an
  artefact of the model's bounds, and the theorems of `Props/C06.lean` speak about the un-fuelled
  programs.

Helper lemmas: `Lemmas/PdfLexProgress.lean`, `PdfCoreProgress.lean`, `PdfCSProgress.lean`,
`PdfLexPos.lean`.
-/
namespace Tabula.C06Progress
open Tabula.Pdf

/-! ## the lexer -/

/-- `NextToken`, every input: the unread input afterwards is a suffix of the input; a token other than
the end of input consumed at least one byte; the end of input is reported only when nothing but white
space was left, and then everything is consumed. -/
theorem lexer_progress (inp : Str) (t : Token) (r : Str) (h : nextToken inp = some (t, r)) :
    r <:+ inp ∧ (t ≠ .eof → r.length < inp.length) ∧ (t = .eof → r = [] ∧ skipWs inp = []) :=
  Prog.nextToken_progress inp t r h

example : nextToken [32, 47, 65, 40] = some (.name [65], [40]) := by decide

/-- … and no byte is lost: the input is the white space in front (`SkippedBytes`), the token's own
bytes (non-empty unless it is the end of input), and the unread rest. -/
theorem lexer_tiles_input (inp : Str) (t : Token) (r : Str) (h : nextToken inp = some (t, r)) :
    ∃ lexeme, inp = inp.takeWhile isWs ++ lexeme ++ r ∧ (t ≠ .eof → lexeme ≠ []) :=
  let ⟨lx, h1, h2, _⟩ := Prog.nextToken_tiles inp t r h
  ⟨lx, h1, h2⟩

/-- The loop of `lexTokens` (`NextToken` until `TokenEOF` or an error) never reaches its bound. -/
theorem lexer_run_terminates (inp : Str) : (lexTokens inp).2 = .eof ∨ (lexTokens inp).2 = .err :=
  Pos.lexTokens_eof_or_err inp

/-- `Token.Pos` strictly increases from token to token (the `TokenEOF` token included). -/
theorem token_positions_increase (inp : Str) :
    List.Pairwise (fun a b : PosTok => a.pos < b.pos) (lexTokens inp).1 :=
  Pos.lexTokens_positions_increase inp

/-- Every reported position lies inside the input; `SkippedBytes` is all white space and is exactly
what stands in the input in front of `Pos`; a token other than `TokenEOF` starts on a non-white
byte; `TokenEOF` is reported at the end of the input. -/
theorem token_positions_sound (inp : Str) : ∀ p ∈ (lexTokens inp).1,
    p.pos ≤ inp.length ∧ p.skipped.length ≤ p.pos ∧
    (inp.drop (p.pos - p.skipped.length)).take p.skipped.length = p.skipped ∧
    (∀ c ∈ p.skipped, isWs c = true) ∧
    (p.tok ≠ .eof → ∃ c, inp[p.pos]? = some c ∧ isWs c = false) ∧
    (p.tok = .eof → p.pos = inp.length) :=
  Pos.lexTokens_sound inp

/-- A run ends with `TokenEOF` as its last token, or with an error and no `TokenEOF` at all. -/
theorem token_run_end (inp : Str) :
    ((lexTokens inp).2 = .eof → ∃ l p, (lexTokens inp).1 = l ++ [p] ∧ p.tok = .eof ∧ ∀ q ∈ l, q.tok ≠ .eof) ∧
    ((lexTokens inp).2 = .err → ∀ q ∈ (lexTokens inp).1, q.tok ≠ .eof) :=
  Pos.lexTokens_end inp

/-- The loop bound of the lexer run is irrelevant. -/
theorem token_run_bound_irrelevant (inp : Str) (m : Nat) (h : inp.length + 1 ≤ m) :
    lexAllP m 0 inp [] = lexTokens inp :=
  Pos.lexTokens_stable inp m h

example : ([32, 49] : Str).length + 1 ≤ 7 := by decide

/-- The comment-dropping loop of `(*Parser).nextToken` (`lexSkip`): with any fuel above the length of
the input the result is the same — a comment consumes at least its `%`. -/
theorem comment_skipping_fuel_irrelevant (inp : Str) (f : Nat) (h : inp.length + 1 ≤ f) :
    lexSkip f inp = lexSkip (inp.length + 1) inp :=
  Prog.lexSkip_eq_tok inp f h

/-- What the parser's `nextToken` obtains from the lexer is never a comment, leaves a suffix, and
consumed a byte unless it is the end of input. -/
theorem parser_token_progress (f : Nat) (inp : Str) (t : Token) (r : Str) (h : lexSkip f inp = some (t, r)) :
    r <:+ inp ∧ (t ≠ .eof → r.length < inp.length) ∧ (t = .eof → r = []) ∧ (∀ v, t ≠ .comment v) :=
  Prog.lexSkip_progress f inp t r h

example : lexSkip 5 [37, 65, 10, 91] = some (.arrStart, []) := by decide

/-! ## the document-level parser -/

/-- what is left to parse in a parser state: the unread bytes plus the (at most two) tokens in the
window that are not `TokenEOF` -/
abbrev measure (s : PState) : Nat := Prog.measure s

theorem measure_def (s : PState) :
    measure s = s.inp.length + Prog.weight s.cur + Prog.weight s.peek := rfl

/-- `(*Parser).nextToken` never increases the measure, and pays for the token it drops. -/
theorem next_token_measure (s : PState) : measure s.next + Prog.weight s.cur ≤ measure s :=
  Prog.next_measure s

/-- **Progress of `ParseObject`, `parseArray`, `parseDict`**: from ANY parser state, with any fuel and
any nesting depth, a successful call strictly decreases the measure. -/
theorem parser_progress (f d : Nat) (s : PState) :
    (∀ o s', parseObject f d s = .ok (o, s') → measure s' < measure s) ∧
    (∀ acc o s', parseArray f d s acc = .ok (o, s') → measure s' < measure s) ∧
    (∀ acc o s', parseDict f d s acc = .ok (o, s') → measure s' < measure s) :=
  ⟨fun o s' h => (Prog.parse_progress f).1 d s o s' h,
   fun acc o s' h => (Prog.parse_progress f).2.1 d s acc o s' h,
   fun acc o s' h => (Prog.parse_progress f).2.2 d s acc o s' h⟩

/-- **The fuel of the parser model is never the reason for an error**: any two amounts of fuel above
`2·measure + 1` (objects) / `2·measure + 2` (the container loops) give the same result. -/
theorem parser_fuel_irrelevant (f1 f2 d : Nat) (s : PState) :
    (2 * measure s + 1 ≤ f1 → 2 * measure s + 1 ≤ f2 → parseObject f1 d s = parseObject f2 d s) ∧
    (∀ acc, 2 * measure s + 2 ≤ f1 → 2 * measure s + 2 ≤ f2 → parseArray f1 d s acc = parseArray f2 d s acc) ∧
    (∀ acc, 2 * measure s + 2 ≤ f1 → 2 * measure s + 2 ≤ f2 → parseDict f1 d s acc = parseDict f2 d s acc) :=
  ⟨fun h1 h2 => (Prog.fuel_stable f1).1 f2 d s h1 h2,
   fun acc h1 h2 => (Prog.fuel_stable f1).2.1 f2 d s acc h1 h2,
   fun acc h1 h2 => (Prog.fuel_stable f1).2.2 f2 d s acc h1 h2⟩

example : 2 * measure (newParser [91, 49, 93]) + 1 ≤ 7 := by decide

/-- After `NewParser` the measure is at most the length of the input … -/
theorem new_parser_measure (inp : Str) : measure (newParser inp) ≤ inp.length :=
  Prog.measure_newParser inp

/-- … so `core.NewParser(r).ParseObject()` is computed by the model with ANY fuel above
`2·length + 1`; `coreParse` (fuel `4·length + 8`) is one of them. -/
theorem coreParse_fuel_irrelevant (inp : Str) (f : Nat) (h : 2 * inp.length + 1 ≤ f) :
    parseObject f 0 (newParser inp) = coreParse inp :=
  Prog.coreParse_fuel_irrelevant inp f h

example : 2 * ([60, 60, 62, 62] : Str).length + 1 ≤ 9 := by decide

/-- **A run of `ParseObject` calls terminates**: from any state, with any per-call fuel, the run ends
with an error or the end of input before `measure + 1` calls. -/
theorem parse_sequence_terminates (F n : Nat) (s : PState) (acc : List Obj) (h : measure s < n) :
    ∃ os e, Prog.parseSeq F n s acc = (os, some e) :=
  Prog.parseSeq_terminates F n s acc h

example : measure (newParser [49, 32, 50]) < 4 := by decide

/-- `coreParseAll` (what the op `c06.obj` computes) never takes its "bound reached" arm … -/
theorem coreParseAll_terminates (inp : Str) :
    ∃ os e, coreParseAll.go inp (inp.length + 2) (newParser inp) [] = (os, some e) :=
  Prog.coreParseAll_never_out_of_fuel inp

/-- … it is the un-fuelled run: larger bounds give the same objects and the same end … -/
theorem coreParseAll_bounds_irrelevant (inp : Str) (F n : Nat) (hF : fuelFor inp ≤ F) (hn : inp.length + 2 ≤ n) :
    Prog.parseSeq F n (newParser inp) [] = coreParseAll.go inp (inp.length + 2) (newParser inp) [] :=
  Prog.coreParseAll_stable inp F n hF hn

example : fuelFor [49] ≤ 100 ∧ ([49] : Str).length + 2 ≤ 50 := by decide

/-- … and it returns at most one object per input byte. -/
theorem object_count_bounded (inp : Str) : (coreParseAll inp).1.length ≤ inp.length :=
  Prog.coreParseAll_count inp

/-- The window trace (op `c06.win`) never takes its "bound reached" arm either. -/
theorem windowTrace_terminates (inp : Str) : ∃ e, (windowTrace inp).2 = some e :=
  Prog.windowTrace_never_out_of_fuel inp

/-! ## the content-stream parser -/

/-- **Progress of `parseOperand`, `parseArray`, `parseDict`**: a successful operand read leaves a
strictly shorter suffix of the data; the container loops leave a suffix. -/
theorem cs_progress (f d : Nat) (inp : Str) :
    (∀ o r, CS.parseOperand f d inp = some (o, r) → r <:+ inp ∧ r.length < inp.length) ∧
    (∀ acc o r, CS.parseArray f d inp acc = some (o, r) → r <:+ inp) ∧
    (∀ acc o r, CS.parseDict f d inp acc = some (o, r) → r <:+ inp) :=
  ⟨fun o r h => (Prog.cs_progress f).1 d inp o r h,
   fun acc o r h => (Prog.cs_progress f).2.1 d inp acc o r h,
   fun acc o r h => (Prog.cs_progress f).2.2 d inp acc o r h⟩

example : ∃ p, CS.parseOperand 3 0 [47, 65, 32, 49] = some p := Option.isSome_iff_exists.1 (by decide +kernel)

/-- **The fuel of the content-stream model is never the reason for a failure.** -/
theorem cs_fuel_irrelevant (f1 f2 d : Nat) (inp : Str) :
    (2 * inp.length + 1 ≤ f1 → 2 * inp.length + 1 ≤ f2 → CS.parseOperand f1 d inp = CS.parseOperand f2 d inp) ∧
    (∀ acc, 2 * inp.length + 2 ≤ f1 → 2 * inp.length + 2 ≤ f2 → CS.parseArray f1 d inp acc = CS.parseArray f2 d inp acc) ∧
    (∀ acc, 2 * inp.length + 2 ≤ f1 → 2 * inp.length + 2 ≤ f2 → CS.parseDict f1 d inp acc = CS.parseDict f2 d inp acc) :=
  ⟨fun h1 h2 => (Prog.cs_fuel_stable f1).1 f2 d inp h1 h2,
   fun acc h1 h2 => (Prog.cs_fuel_stable f1).2.1 f2 d inp acc h1 h2,
   fun acc h1 h2 => (Prog.cs_fuel_stable f1).2.2 f2 d inp acc h1 h2⟩

example : 2 * ([91, 93] : Str).length + 1 ≤ 5 := by decide

/-- `contentstream.NewParser(b).Parse()` is computed by the model with ANY loop bound above
`length + 2` and any operand fuel above `4·length + 8`: the loop of `Parse` ends because every
operator and every operand consumes a byte. -/
theorem csParse_bounds_irrelevant (inp : Str) (n F : Nat) (hn : inp.length + 2 ≤ n) (hF : CS.fuelFor inp ≤ F) :
    CS.parseLoop n F inp [] [] = CS.csParse inp :=
  Prog.csParse_stable inp n F hn hF

example : ([113] : Str).length + 2 ≤ 3 ∧ CS.fuelFor [113] ≤ 12 := by decide

/-- One byte at least per operator and per operand: the operations of a parsed stream, counted with
their operands, are at most as many as the bytes of the stream. -/
theorem cs_operation_count_bounded (inp : Str) (res : List CS.Operation) (h : CS.csParse inp = some res) :
    (res.map (fun o => 1 + o.operands.length)).sum ≤ inp.length :=
  Prog.csParse_count inp res h

example : ∃ res, CS.csParse [49, 32, 119] = some res := Option.isSome_iff_exists.1 (by decide +kernel)

/-- `p.pos` after one successful `parseOperand` call (op `c06.operand`) is positive and inside the data. -/
theorem cs_operand_position (inp : Str) (o : Obj) (pos : Nat) (h : csOperandAt inp = some (o, pos)) :
    0 < pos ∧ pos ≤ inp.length :=
  Prog.csOperandAt_pos inp o pos h

example : ∃ p, csOperandAt [40, 65, 41, 84] = some p := Option.isSome_iff_exists.1 (by decide +kernel)

end Tabula.C06Progress
