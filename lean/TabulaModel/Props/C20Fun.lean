import TabulaModel.Props.C20Zip
/-!
# C20, the outcome as a function — `Open(name).<op>()` is a function of (bytes, name), in every history

`Props/C20Api.lean` gives the outcome of an operation on a FRESH `Open(name)` and, for
histories, what an operation that REACHES a reader ran on.  Here the outcome itself — reached
or refused, and how — for every operation on every extractor that holds no reader yet
(fresh, derived, closed and reused), and from it: in every history of closing operations the
outcome of each operation on a named extractor is `outcomeOf (format of the name) (bytes
stored under the name at that call) (kind)` — nothing that was called before has any
influence —, on the API model and on the bytes.
-/
set_option autoImplicit false
namespace Tabula.C20F
open Tabula.Detect Tabula.Drm Tabula.Admit Tabula.EncXml Tabula.DetectB Tabula.C20 Tabula.C20A Tabula.C20B

/-- the outcome of an operation of kind `k` for a name that asks for `f` on the bytes `fs`:
the cross-check, the reader's own gate, then the PDF-only test -/
def outcomeOf (f : Format) (fs : FileState) (k : TKind) : Outcome :=
  match admitFile f fs with
  | .error o => o
  | .ok _ => afterOpen f k

/-- does the frame of the operation test `e.err` (`ToMarkdown` for the six non-PDF formats
does not) -/
def errSeen (f : Format) (k : TKind) : Bool := !(k == .markdown && f != .pdf && f != .unknown)

/-- `run_unopened_out`: every operation on ANY extractor with a file name that holds no
reader — whatever its options, however it came about — ends as `outcomeOf` says, unless its
configuration error is set and the operation looks at it -/
theorem run_unopened_out (e : Ext) (hn : e.name ≠ []) (ho : e.opened = false) (cur : FileState) (k : TKind) :
    (e.run cur k).2.out =
      if e.err = true ∧ errSeen e.format k = true then .errSet else outcomeOf e.format cur k := by
  have hemp : e.name.isEmpty = false := by
    cases hname : e.name with
    | nil => exact absurd hname hn
    | cons _ _ => rfl
  unfold outcomeOf
  cases ha : admitFile e.format cur with
  | error o =>
    have her : e.ensureReader cur = .error o := by
      unfold Ext.ensureReader
      simp only [ho, hemp, Bool.false_eq_true, if_false, ha]
    cases k <;> cases herr : e.err <;>
      simp [Ext.run, frame, framePdf, her, herr, errSeen] <;>
      (try (split <;> simp))
  | ok f =>
    have hf : f = e.format := (admit_file_sound ha).1
    subst hf
    have her : e.ensureReader cur = .ok { e with reader := some ⟨e.format, some cur⟩, owns := true, opened := true } := by
      unfold Ext.ensureReader
      simp only [ho, hemp, Bool.false_eq_true, if_false, ha]
    cases k <;> cases herr : e.err <;>
      simp [Ext.run, frame, framePdf, her, herr, errSeen, bodyOn, afterOpen, Ext.pdfReaderNil] <;>
      (try (split <;> simp))

/-- a derived extractor with an invalid page range: `Text` reports the configuration error,
`ToMarkdown` of a DOCX does not look at it -/
example : errSeen .docx .text = true ∧ errSeen .docx .markdown = false ∧ errSeen .pdf .markdown = true := by decide

/-- `history_outcome_function`: in every history whose operations are the closing ones
(`Text`, `Document` / `Chunks`, `ToMarkdown`, the PDF-only operations; configuration calls,
`Close`s and rewrites of the bytes in between, any length), the outcome of EVERY operation on
an extractor with a file name — refusals included — is the extractor's own configuration
error, or `outcomeOf` of the format its name asks for and the bytes stored under the name AT
THAT CALL: a function of (bytes, name) in which nothing called before appears -/
theorem history_outcome_function (c0 : FileState) (cs : List Call) (hcl : ClosingOnly cs)
    (k i : Nat) (kind : TKind) (r : Res)
    (hc : cs[k]? = some (.op i kind)) (hr : (runCalls (start c0) cs).2[k]? = some (.res r))
    (e : Ext) (he : (runCalls (start c0) cs).1.exts[i]? = some e) (hn : e.name ≠ []) :
    r.out = .errSet ∨ r.out = outcomeOf (detect e.name) (curBefore c0 cs k) kind := by
  let I : St → Prop := fun s => GoodSt s ∧ ∀ x ∈ s.exts, x.name ≠ [] → x.opened = false
  let Q : Call → Prop := fun c => ∀ i k, c = .op i k → k = .text ∨ k = .document ∨ k = .markdown ∨ k = .pdfOnly
  have hstep : ∀ s c, I s → Q c → I (step s c).1 := by
    intro s c ⟨hg, hu⟩ hq
    refine ⟨step_good hg c, ?_⟩
    intro x hx hxn
    rcases step_exts_cases s c x hx with hx | ⟨name, _, rfl⟩ | ⟨hnil, _⟩ | ⟨j, bad, e0, _, hj, rfl⟩ |
        ⟨j, k', e0, hcj, hj, rfl⟩ | ⟨j, e0, _, hj, rfl⟩
    · exact hu x hx hxn
    · rfl
    · exact absurd hnil hxn
    · have hm := List.mem_of_getElem? hj
      exact derive_unopened (hu e0 hm (by rw [← (derive_name e0 bad).1]; exact hxn)) bad
    · have hm := List.mem_of_getElem? hj
      have hn0 : e0.name ≠ [] := by rw [← (run_name e0 s.cur k').1]; exact hxn
      have hcases : ∀ a, (frame e0 s.cur a true).1.opened = false := by
        intro a
        rcases closing_leaves_unopened (hg e0 hm) hn0 s.cur a with h | h
        · exact h
        · rw [h]; exact hu e0 hm hn0
      rcases hq j k' hcj with rfl | rfl | rfl | rfl
      · exact hcases true
      · exact hcases true
      · show (if e0.format = .pdf ∨ e0.format = .unknown then frame e0 s.cur true true
          else frame e0 s.cur false true).1.opened = false
        split
        · exact hcases true
        · exact hcases false
      · show (framePdf e0 s.cur true).1.opened = false
        rcases pdfOnly_leaves_unopened (hg e0 hm) hn0 s.cur with h | h
        · exact h
        · rw [h]; exact hu e0 hm hn0
    · have hm := List.mem_of_getElem? hj
      exact close_unopened (hu e0 hm (by rw [← (close_name e0).1]; exact hxn))
  obtain ⟨s', e0, ⟨hg, hu⟩, hget, hcur, hres, hfin⟩ := runCalls_result_inv I Q hstep
    ⟨start_good _, fun x hx => by cases hx⟩ cs hcl k i kind r hc hr
  have hm := List.mem_of_getElem? hget
  obtain ⟨hname, hformat⟩ := hfin e he
  have hn0 : e0.name ≠ [] := by rw [← hname]; exact hn
  have hfmt : e0.format = detect e.name := by rw [hname]; exact (hg e0 hm).named_format hn0
  rw [hres, run_unopened_out e0 hn0 (hu e0 hm hn0) s'.cur kind, hfmt, hcur]
  split
  · exact Or.inl rfl
  · exact Or.inr rfl

/-- a history that opens a name, reads it, swaps the bytes, derives an extractor, reads again -/
example : ClosingOnly [.open ([97] ++ dotEpub), .op 0 .text, .rewrite .missing, .derive 0 false, .op 1 .markdown] := by
  intro c hc i k h
  simp only [List.mem_cons, List.not_mem_nil, or_false] at hc
  rcases hc with rfl | rfl | rfl | rfl | rfl <;> cases h <;> simp

/-! ## on the bytes -/

/-- `outcomeOf` on the bytes: `validateFormat` (byte-exact sniffer), the reader switch with
`epubdoc.Open` (tree-level DRM gate), the PDF-only test -/
def outcomeOfB (t : Tables) (f : Format) (fs : FileStateB) (k : TKind) : Outcome :=
  match admitFileB t f fs with
  | .error o => o
  | .ok _ => afterOpen f k

theorem outcomeOf_abs (t : Tables) (hlo : LowerOK t.lo) (f : Format) (fs : FileStateB) (k : TKind) :
    outcomeOf f (absFile t fs) k = outcomeOfB t f fs k := by
  unfold outcomeOf outcomeOfB
  rw [admit_bytes_simulation t hlo]

/-- `open_bytes_outcome`: THE COMPOSITION.  `tabula.Open(name).<op>()` for every name of
bytes, every file as bytes and every operation, as ONE function of (bytes, name):
`Detect` on the name, `DetectFromReader` on the bytes, the cross-check, the reader the name
asks for (for an EPUB the mimetype check, the DRM gate on the encryption metadata as XML,
then the structure), the PDF-only test. -/
theorem open_bytes_outcome (t : Tables) (hlo : LowerOK t.lo) (name : Str) (hne : name ≠ []) (fs : FileStateB)
    (k : TKind) : (openAndRunB t name fs k).out = outcomeOfB t (detectB t.lo name) fs k := by
  rw [open_bytes_eq t hlo, open_and_run_out name hne, detectB_eq hlo, ← outcomeOf_abs t hlo]
  rfl

/-- a call of the public API, the rewrites carrying the new file as bytes -/
inductive CallB where
  | open (name : Str)
  | fromHTML (ok : Bool)
  | fromReader
  | derive (i : Nat) (bad : Bool)
  | op (i : Nat) (k : TKind)
  | close (i : Nat)
  | rewrite (fs : FileStateB)

/-- the call as the API model sees it -/
def absCall (t : Tables) : CallB → Call
  | .open n => .open n
  | .fromHTML ok => .fromHTML ok
  | .fromReader => .fromReader
  | .derive i b => .derive i b
  | .op i k => .op i k
  | .close i => .close i
  | .rewrite fs => .rewrite (absFile t fs)

/-- the bytes stored under the names just before call `k` of a byte-level history -/
def curBeforeB : FileStateB → List CallB → Nat → FileStateB
  | c0, [], _ => c0
  | c0, _ :: _, 0 => c0
  | _, .rewrite fs :: cs, k + 1 => curBeforeB fs cs k
  | c0, _ :: cs, k + 1 => curBeforeB c0 cs k

theorem curBefore_abs (t : Tables) (c0 : FileStateB) (cs : List CallB) (k : Nat) :
    curBefore (absFile t c0) (cs.map (absCall t)) k = absFile t (curBeforeB c0 cs k) := by
  induction cs generalizing c0 k with
  | nil => cases k <;> rfl
  | cons c cs ih =>
    cases k with
    | zero => rfl
    | succ k =>
      cases c with
      | rewrite fb => simpa [List.map_cons, absCall, curBefore, curBeforeB, step] using ih fb k
      | «open» n => simpa [List.map_cons, absCall, curBefore, curBeforeB, step] using ih c0 k
      | fromHTML ok => simpa [List.map_cons, absCall, curBefore, curBeforeB, step] using ih c0 k
      | fromReader => simpa [List.map_cons, absCall, curBefore, curBeforeB, step] using ih c0 k
      | derive i b => simpa [List.map_cons, absCall, curBefore, curBeforeB, step] using ih c0 k
      | op i k' => simpa [List.map_cons, absCall, curBefore, curBeforeB, step] using ih c0 k
      | close i => simpa [List.map_cons, absCall, curBefore, curBeforeB, step] using ih c0 k

/-- `history_bytes_outcome_function`: THE PROPERTY OVER CALL SEQUENCES, as a function, on
the bytes.  In every history of closing operations (any configuration calls, `Close`s and
rewrites of the file in between, any length), the outcome of every operation on an
extractor with a file name — of arbitrary bytes — is the extractor's own configuration
error, or `outcomeOfB` of the format the name asks for and of the BYTES stored under the
name at that call. -/
theorem history_bytes_outcome_function (t : Tables) (hlo : LowerOK t.lo) (c0 : FileStateB) (cs : List CallB)
    (hcl : ClosingOnly (cs.map (absCall t))) (k i : Nat) (kind : TKind) (r : Res)
    (hc : (cs.map (absCall t))[k]? = some (.op i kind))
    (hr : (runCalls (start (absFile t c0)) (cs.map (absCall t))).2[k]? = some (.res r))
    (e : Ext) (he : (runCalls (start (absFile t c0)) (cs.map (absCall t))).1.exts[i]? = some e) (hn : e.name ≠ []) :
    r.out = .errSet ∨ r.out = outcomeOfB t (detectB t.lo e.name) (curBeforeB c0 cs k) kind := by
  rw [detectB_eq hlo, ← outcomeOf_abs t hlo, ← curBefore_abs]
  exact history_outcome_function _ _ hcl k i kind r hc hr e he hn

/-- Open a `.epub` name, read it, replace the file by other bytes, read again through a
derived extractor -/
example : curBeforeB .missing [.open ([97] ++ dotEpub), .op 0 .text, .rewrite .unreadable, .derive 0 false, .op 1 .text] 4 =
    .unreadable := rfl

end Tabula.C20F
