import TabulaModel.Props.C19
import TabulaModel.Props.C19Text
import TabulaModel.Lemmas.HtmlApi
/-!
# C19 — the statement over the public entry points

`Props/C19.lean` proves the property on the mechanism (`atoms`, `trav`, `getElements`).
This file chains those theorems into statements about what the PUBLIC calls return
(`Model/HtmlApi.lean`): `htmldoc.OpenReader(…).TextWithOptions / DocumentWithOptions / Text /
Document`, `epubdoc.(*Reader).TextWithOptions`, `tabula.FromHTMLString(…).Text`, starting from
the document node the parser returned, for every raw value of the mode (`NavigationExclusionMode`
is an `int` and epubdoc converts any `int`), and over arbitrary call histories on one reader.

Plain text is compared up to white space (`squeeze`): the property does not fix white space, and
up to white space the text view is a function of the atoms alone (`squeeze_renderText`).

## The depth limit (fix a65974f / 616a480: "HTML nested deeper than 10000 levels is refused")

`OpenReader` now measures the parsed tree (`treeDeeperThan(doc, maxTreeDepth)`, iteratively) before
anything walks it by recursion, and returns an error when the tree is deeper than 10000 edges from
the document node.  So the statements about the PUBLIC calls no longer hold for all trees: beyond
the limit there is no reader and no text.  They are restated here for `openText`, `openMarkdown`,
`openDocument`, `freshE`, `runCallsE`, `extractor…E` (the calls including `OpenReader`) under the
decidable hypothesis `depth doc ≤ maxTreeDepth`; `open_refuses_beyond` says what happens beyond it.
The former universal statements are kept, verbatim, under the names `view_…`: they speak about the
views of a reader (`textWithOptions` …: `(*Reader).TextWithOptions` on a reader that exists), whose
code did not change, and hold for every tree as statements about those functions.
The EPUB chapter loops `continue` on the error of `OpenReader`: a chapter beyond the limit is left
out WITHOUT an error; the EPUB theorems are restated over the admitted chapters (`admitted`).
-/
namespace Tabula.C19Api
open Tabula.Html Tabula.C19

/-! ## option handling and conversions -/

/-- A raw mode value outside 0..3 is not a fifth mode: `shouldExclude` on the raw value decides
exactly as the documented mode `clampMode m` (negative → Explicit, above 3 → Aggressive), so
every theorem about the four modes covers every `int` an EPUB caller can pass. -/
theorem int_mode_is_clamped (m : Int) :
    (∀ pos n, excludedI m pos n = excluded (clampMode m) pos n) ∧
    (∀ doc, extractI m doc = extract (clampMode m) (bodyOf doc)) ∧
    (∀ k : Mode, clampMode k.toInt = k) :=
  ⟨excludedI_clamp m, extractI_clamp m, clampMode_toInt⟩

/-- `Text()`, `Markdown()`, `Document()` are the `…WithOptions` calls with mode Standard; the
`tabula.Extractor` text path asks for mode None, its Document path for Standard.
(Unchanged in content; now stated for the calls including `OpenReader`, where both sides are the
same error beyond the depth limit.) -/
theorem api_defaults (doc : Dom) :
    freshE doc .text = freshE doc (.textOpts Mode.standard.toInt) ∧
    freshE doc .md = freshE doc (.mdOpts Mode.standard.toInt) ∧
    freshE doc .doc = freshE doc (.docOpts Mode.standard.toInt) ∧
    extractorTextE doc = openText Mode.none.toInt doc ∧
    extractorDocumentE doc = openDocument Mode.standard.toInt doc ∧
    freshE doc (.textOpts 0) = (extractorTextE doc).map .str := by
  refine ⟨rfl, rfl, rfl, rfl, rfl, ?_⟩
  unfold freshE openReaderE extractorTextE
  rw [guarded_eq, guarded_eq]
  cases admitted doc
  · rfl
  · show some (fresh doc (.textOpts 0)) = _
    rw [fresh_eq]; rfl

/-- what a reader answers is the view of `extract` for the clamped mode from body (about a reader
that exists: unchanged) -/
theorem view_fresh_is_extract (doc : Dom) (c : Call) :
    fresh doc c = c.render (extract (clampMode c.mode) (bodyOf doc)) := by
  rw [fresh_eq, extractI_clamp]

/-- RESTATED with the depth hypothesis (was: for every tree): `OpenReader` followed by one call
answers the view of `extract` for the clamped mode from body. -/
theorem fresh_is_extract (doc : Dom) (c : Call) (hd : depth doc ≤ maxTreeDepth) :
    freshE doc c = some (c.render (extract (clampMode c.mode) (bodyOf doc))) := by
  unfold freshE openReaderE
  rw [guarded_within doc _ hd]
  show some (fresh doc c) = _
  rw [view_fresh_is_extract]

example : depth (nestedDoc 9996 [120]) ≤ maxTreeDepth := by rw [depth_nestedDoc]; decide

/-! ## call histories -/

/-- Any sequence of public calls on ONE reader — Text, Markdown, Document, with or without
options, any raw mode values, any order, any repetition — returns, call by call, what a reader
opened for that call alone returns: the per-mode cache never leaks a result across modes or
views (invariant `ReaderOk` over the history).  (About a reader that exists: unchanged.) -/
theorem view_api_history (doc : Dom) (cs : List Call) :
    runCalls (openReader doc) cs = cs.map (fresh doc) :=
  runCalls_correct doc cs (openReader doc) (openReader_ok doc)

/-- RESTATED with the depth hypothesis (was: for every tree): within the limit `OpenReader` succeeds,
and any call sequence on the reader it returns answers, call by call, what `OpenReader` followed by
that call alone answers. -/
theorem api_history (doc : Dom) (cs : List Call) (hd : depth doc ≤ maxTreeDepth) :
    (runCallsE doc cs).map (·.map some) = some (cs.map (freshE doc)) := by
  unfold runCallsE freshE openReaderE
  rw [guarded_within doc _ hd]
  simp only [Option.map_some]
  rw [view_api_history]
  simp [fresh, List.map_map, Function.comp_def]

example : ReaderOk (.text []) (openReader (.text [])) := openReader_ok _

/-- … from any reachable reader state, and the state stays reachable (a statement about readers that
exist; unchanged) -/
theorem api_history_invariant (doc : Dom) (r : ReaderI) (c : Call) (h : ReaderOk doc r) :
    (call r c).1 = fresh doc c ∧ ReaderOk doc (call r c).2 := by
  have g := call_correct doc r c h
  exact ⟨by rw [g.1, fresh_eq], g.2⟩

/-! ## the plain-text view -/

/-- stricter or equal, on the documented modes -/
theorem excluded_mono_rank (m1 m2 : Mode) (h : m1.rank ≤ m2.rank) (pos : Pos) (n : Dom) :
    excluded m1 pos n = true → excluded m2 pos n = true := by
  have i := mode_inclusion pos n
  cases m1 <;> cases m2 <;> simp only [Mode.rank] at h <;>
    first
    | exact fun x => x
    | omega
    | (intro x; first
        | exact i.1 x
        | exact i.2.1 x
        | exact i.2.2 x
        | exact i.2.1 (i.1 x)
        | exact i.2.2 (i.2.1 x)
        | exact i.2.2 (i.2.1 (i.1 x)))

/-- up to white space, `TextWithOptions` is the atoms of the specification, one after the other
(a bullet before each list item) -/
theorem view_text_is_atoms (m : Int) (doc : Dom) :
    squeeze (textWithOptions m doc) =
      (atomsOf (excluded (clampMode m)) (bodyOf doc)).flatMap Atom.sq := by
  unfold textWithOptions
  rw [squeeze_renderText, extractI_clamp]
  unfold extract
  rw [traverse_refines_atoms]
  rfl

/-- MONOTONE, END TO END: for raw mode values `a`, `b` with `b` at least as strict as `a`, the text
`TextWithOptions` returns for `b` is (white space aside) a subsequence of the text it returns for
`a`, for every document, from the document node. -/
theorem view_text_monotone (a b : Int) (h : (clampMode a).rank ≤ (clampMode b).rank) (doc : Dom) :
    (squeeze (textWithOptions b doc)).Sublist (squeeze (textWithOptions a doc)) := by
  rw [view_text_is_atoms, view_text_is_atoms]
  apply sublist_flatMap
  unfold atomsOf
  exact filter_monotone _ _ (fun pos n => excluded_mono_rank _ _ h pos n) _ _ _ _

example : (clampMode 1).rank ≤ (clampMode 7).rank := by decide

/-- the four documented modes as a chain, and mode None (also what `Extractor.Text` uses) returns
everything: every mode value returns a subsequence of it -/
theorem view_text_mode_chain (doc : Dom) :
    (squeeze (textWithOptions 3 doc)).Sublist (squeeze (textWithOptions 2 doc)) ∧
    (squeeze (textWithOptions 2 doc)).Sublist (squeeze (textWithOptions 1 doc)) ∧
    (squeeze (textWithOptions 1 doc)).Sublist (squeeze (textWithOptions 0 doc)) ∧
    (∀ m : Int, (squeeze (textWithOptions m doc)).Sublist (squeeze (extractorText doc))) := by
  refine ⟨view_text_monotone 2 3 (by decide) doc, view_text_monotone 1 2 (by decide) doc,
    view_text_monotone 0 1 (by decide) doc, ?_⟩
  intro m
  exact view_text_monotone 0 m (by simp [clampMode, Mode.rank]) doc

/-- CONTENT, END TO END: up to white space and the list bullets, the text `TextWithOptions`
returns is the source text of the document — the text nodes of its non-skipped, non-excluded
content elements, each once, in the order of their content elements. -/
theorem view_text_is_source_text (m : Int) (doc : Dom) :
    (squeeze (textWithOptions m doc)).filter (· != 0x2022) =
      (squeeze (srcOf m doc)).filter (· != 0x2022) := by
  rw [← Tabula.C19Text.content_text_complete_api]
  unfold textWithOptions elementsText
  rw [squeeze_renderText]
  simp only [squeeze_nil, List.nil_append]
  generalize flatten (extractI m doc) = as
  induction as with
  | nil => rfl
  | cons a rest ih =>
    simp only [List.flatMap_cons, List.filter_append, squeeze_append, ih]
    congr 1
    cases a <;> simp [Atom.sq, Atom.text]

/-! ## the Document view -/

/-- the Document view keeps every non-empty text of the elements in order (code and quotes become
paragraphs, the table grid only adds empty cells), and is monotone in the mode like the text view -/
theorem view_document_keeps_content (m : Int) (doc : Dom) :
    nonEmpty (docTexts (documentWithOptions m doc)) =
      nonEmpty ((atomsOf (excluded (clampMode m)) (bodyOf doc)).map Atom.text) := by
  unfold documentWithOptions
  rw [docElements_texts, extractI_clamp]
  unfold extract
  rw [traverse_refines_atoms]

theorem view_document_monotone (a b : Int) (h : (clampMode a).rank ≤ (clampMode b).rank) (doc : Dom) :
    (nonEmpty (docTexts (documentWithOptions b doc))).Sublist
      (nonEmpty (docTexts (documentWithOptions a doc))) := by
  rw [view_document_keeps_content, view_document_keeps_content]
  apply List.Sublist.filter
  apply List.Sublist.map
  unfold atomsOf
  exact filter_monotone _ _ (fun pos n => excluded_mono_rank _ _ h pos n) _ _ _ _

/-! ## the depth limit of OpenReader -/

/-- THE WALK COMPUTES THE HEIGHT: `treeDeeperThan(root, limit)` — the iterative walk with its depth
counter and early exit — answers exactly whether the height of the tree (edges from the root to its
deepest node, text nodes included) exceeds the limit; strictly: height = limit passes. -/
theorem tree_deeper_than_is_height (doc : Dom) (limit : Nat) :
    treeDeeperThan doc limit = decide (limit < depth doc) := treeDeeperThan_eq doc limit

/-- BEYOND THE LIMIT the model answers what the code answers: `OpenReader` returns its error, so
every public call that goes through it — one call, a call sequence, the three views, the three
`tabula.Extractor` calls — returns an error and no text; this is the only case in which it does. -/
theorem open_refuses_beyond (doc : Dom) :
    (openReaderE doc = none ↔ maxTreeDepth < depth doc) ∧
    (maxTreeDepth < depth doc →
      (∀ c, freshE doc c = none) ∧ (∀ cs, runCallsE doc cs = none) ∧
      (∀ m, openText m doc = none ∧ openMarkdown m doc = none ∧ openDocument m doc = none) ∧
      extractorTextE doc = none ∧ extractorMarkdownE doc = none ∧ extractorDocumentE doc = none) := by
  refine ⟨guarded_eq_none_iff doc _, fun h => ?_⟩
  have ho : openReaderE doc = none := guarded_beyond doc _ h
  refine ⟨fun c => by unfold freshE; rw [ho]; rfl, fun cs => by unfold runCallsE; rw [ho]; rfl,
    fun m => ⟨guarded_beyond doc _ h, guarded_beyond doc _ h, guarded_beyond doc _ h⟩,
    guarded_beyond doc _ h, guarded_beyond doc _ h, guarded_beyond doc _ h⟩

/-- WITHIN THE LIMIT nothing changed: `OpenReader` succeeds and every call answers the view of the
reader, for every mode value. -/
theorem open_within (doc : Dom) (hd : depth doc ≤ maxTreeDepth) :
    openReaderE doc = some (openReader doc) ∧
    (∀ c, freshE doc c = some (fresh doc c)) ∧
    (∀ m, openText m doc = some (textWithOptions m doc) ∧ openMarkdown m doc = some (markdownWithOptions m doc) ∧
      openDocument m doc = some (documentWithOptions m doc)) ∧
    extractorTextE doc = some (extractorText doc) ∧ extractorMarkdownE doc = some (extractorMarkdown doc) ∧
    extractorDocumentE doc = some (extractorDocument doc) := by
  have ho : openReaderE doc = some (openReader doc) := guarded_within doc _ hd
  exact ⟨ho, fun c => by unfold freshE; rw [ho]; rfl,
    fun m => ⟨guarded_within doc _ hd, guarded_within doc _ hd, guarded_within doc _ hd⟩,
    guarded_within doc _ hd, guarded_within doc _ hd, guarded_within doc _ hd⟩

/-- at the edge: document → html → body → p → 9996 nested spans → text has height 10000 and is
admitted; one span more and it is refused -/
example : openReaderE (nestedDoc 9996 [120]) = some (openReader (nestedDoc 9996 [120])) ∧
    openReaderE (nestedDoc 9997 [120]) = none ∧ openText 0 (nestedDoc 9997 [120]) = none :=
  ⟨(open_within _ (by rw [depth_nestedDoc]; decide)).1,
   (open_refuses_beyond _).1.mpr (by rw [depth_nestedDoc]; decide),
   ((open_refuses_beyond _).2 (by rw [depth_nestedDoc]; decide)).2.2.1 0 |>.1⟩

example : treeDeeperThan (nestedDoc 9996 [120]) maxTreeDepth = false ∧
    treeDeeperThan (nestedDoc 9997 [120]) maxTreeDepth = true ∧
    treeDeeperThan (nestedDoc 9997 [120]) (maxTreeDepth + 1) = false := by
  simp only [tree_deeper_than_is_height, depth_nestedDoc]; decide

/-- BOUNDED WORK, for every input: the recursive walks of htmldoc (extractHead, extractBody, the
element handlers, the text collectors) only ever run on a tree `OpenReader` admitted, and there
every node — of the document and of the body subtree the extraction starts from — sits at most
`maxTreeDepth` edges below the document node with at most the rest of that budget below it.  A walk
that recurses once per child level therefore has at most `maxTreeDepth + 1` frames open; for a
refused tree none at all. -/
theorem recursion_depth_bounded (doc : Dom) :
    (match openReaderE doc with | none => 0 | some _ => depth doc + 1) ≤ maxTreeDepth + 1 ∧
    (∀ r, openReaderE doc = some r →
      depth doc ≤ maxTreeDepth ∧ depth (bodyOf doc) ≤ maxTreeDepth ∧
      ∀ x ∈ nodesAt 0 doc, x.1 + depth x.2 ≤ maxTreeDepth) := by
  have key : ∀ r, openReaderE doc = some r → depth doc ≤ maxTreeDepth := fun r h => (guarded_eq_some doc _ r h).1
  constructor
  · cases h : openReaderE doc with
    | none => exact Nat.zero_le _
    | some r => have := key r h; show depth doc + 1 ≤ maxTreeDepth + 1; omega
  · intro r h
    have hd := key r h
    refine ⟨hd, Nat.le_trans (bodyOf_depth_le doc) hd, fun x hx => ?_⟩
    have := nodesAt_level doc 0 x hx
    omega

example : openReaderE (nestedDoc 3 [120]) = some (openReader (nestedDoc 3 [120])) :=
  (open_within _ (by rw [depth_nestedDoc]; decide)).1

/-! ## the public calls within the depth limit (restated) -/

/-- RESTATED with the depth hypothesis (was: for every tree): up to white space, `OpenReader` +
`TextWithOptions` returns the atoms of the specification, one after the other. -/
theorem text_is_atoms (m : Int) (doc : Dom) (hd : depth doc ≤ maxTreeDepth) :
    (openText m doc).map squeeze =
      some ((atomsOf (excluded (clampMode m)) (bodyOf doc)).flatMap Atom.sq) := by
  rw [((open_within doc hd).2.2.1 m).1, Option.map_some, view_text_is_atoms]

/-- MONOTONE, END TO END, RESTATED with the depth hypothesis (was: for every tree; beyond the limit
there is no text in any mode, see `open_refuses_beyond`): for raw mode values `a`, `b` with `b` at
least as strict as `a`, both calls succeed and the text for `b` is (white space aside) a
subsequence of the text for `a`. -/
theorem text_monotone (a b : Int) (h : (clampMode a).rank ≤ (clampMode b).rank) (doc : Dom)
    (hd : depth doc ≤ maxTreeDepth) :
    ∃ ta tb, openText a doc = some ta ∧ openText b doc = some tb ∧ (squeeze tb).Sublist (squeeze ta) :=
  ⟨_, _, ((open_within doc hd).2.2.1 a).1, ((open_within doc hd).2.2.1 b).1, view_text_monotone a b h doc⟩

/-- RESTATED with the depth hypothesis: the four documented modes as a chain, and mode None (what
`Extractor.Text` uses) returns everything. -/
theorem text_mode_chain (doc : Dom) (hd : depth doc ≤ maxTreeDepth) :
    ∃ t0 t1 t2 t3, openText 0 doc = some t0 ∧ openText 1 doc = some t1 ∧ openText 2 doc = some t2 ∧
      openText 3 doc = some t3 ∧ extractorTextE doc = some t0 ∧
      (squeeze t3).Sublist (squeeze t2) ∧ (squeeze t2).Sublist (squeeze t1) ∧ (squeeze t1).Sublist (squeeze t0) ∧
      ∀ m : Int, ∃ t, openText m doc = some t ∧ (squeeze t).Sublist (squeeze t0) := by
  have w := open_within doc hd
  have c := view_text_mode_chain doc
  exact ⟨_, _, _, _, (w.2.2.1 0).1, (w.2.2.1 1).1, (w.2.2.1 2).1, (w.2.2.1 3).1, w.2.2.2.1, c.1, c.2.1, c.2.2.1,
    fun m => ⟨_, (w.2.2.1 m).1, c.2.2.2 m⟩⟩

/-- CONTENT, END TO END, RESTATED with the depth hypothesis (was: for every tree; a document nested
deeper than the limit returns an error instead of its text): up to white space and the list
bullets, the text returned is the source text of the document. -/
theorem text_is_source_text (m : Int) (doc : Dom) (hd : depth doc ≤ maxTreeDepth) :
    ∃ t, openText m doc = some t ∧
      (squeeze t).filter (· != 0x2022) = (squeeze (srcOf m doc)).filter (· != 0x2022) :=
  ⟨_, ((open_within doc hd).2.2.1 m).1, view_text_is_source_text m doc⟩

/-- RESTATED with the depth hypothesis: the Document view keeps every non-empty text in order … -/
theorem document_keeps_content (m : Int) (doc : Dom) (hd : depth doc ≤ maxTreeDepth) :
    ∃ d, openDocument m doc = some d ∧
      nonEmpty (docTexts d) = nonEmpty ((atomsOf (excluded (clampMode m)) (bodyOf doc)).map Atom.text) :=
  ⟨_, ((open_within doc hd).2.2.1 m).2.2, view_document_keeps_content m doc⟩

/-- … and is monotone in the mode. -/
theorem document_monotone (a b : Int) (h : (clampMode a).rank ≤ (clampMode b).rank) (doc : Dom)
    (hd : depth doc ≤ maxTreeDepth) :
    ∃ da db, openDocument a doc = some da ∧ openDocument b doc = some db ∧
      (nonEmpty (docTexts db)).Sublist (nonEmpty (docTexts da)) :=
  ⟨_, _, ((open_within doc hd).2.2.1 a).2.2, ((open_within doc hd).2.2.1 b).2.2, view_document_monotone a b h doc⟩

/-! ## EPUB -/

/-- RESTATED (was: all chapters): up to white space the text of a book is the texts of its ADMITTED
chapters one after the other — empty chapters vanish, the separators are white space, and a chapter
nested deeper than `maxTreeDepth` is left out (`OpenReader` fails, the loop continues; the call
itself returns no error) … -/
theorem epub_text_is_chapters (m : Int) (chapters : List Dom) :
    squeeze (epubText m chapters) =
      (chapters.filter admitted).flatMap fun d => squeeze (textWithOptions m d) := by
  unfold epubText
  rw [squeeze_joinWith _ (by decide), epubParts_squeeze]

/-- … hence the monotone half carries over to every EPUB, chapter by chapter (verbatim: which
chapters are admitted does not depend on the mode): monotone in the raw mode value, and `Text()`
(mode 0) returns everything any mode returns. -/
theorem epub_monotone (a b : Int) (h : (clampMode a).rank ≤ (clampMode b).rank) (chapters : List Dom) :
    (squeeze (epubText b chapters)).Sublist (squeeze (epubText a chapters)) := by
  rw [epub_text_is_chapters, epub_text_is_chapters]
  exact flatMap_sublist _ _ (fun d => view_text_monotone a b h d) _

theorem epub_mode_chain (chapters : List Dom) :
    (squeeze (epubText 3 chapters)).Sublist (squeeze (epubText 2 chapters)) ∧
    (squeeze (epubText 2 chapters)).Sublist (squeeze (epubText 1 chapters)) ∧
    (squeeze (epubText 1 chapters)).Sublist (squeeze (epubText 0 chapters)) ∧
    (∀ m : Int, (squeeze (epubText m chapters)).Sublist (squeeze (epubText 0 chapters))) :=
  ⟨epub_monotone 2 3 (by decide) _, epub_monotone 1 2 (by decide) _, epub_monotone 0 1 (by decide) _,
   fun m => epub_monotone 0 m (by simp [clampMode, Mode.rank]) _⟩

/-- when every chapter is within the limit, the former statement holds as it was -/
theorem epub_text_is_chapters_within (m : Int) (chapters : List Dom)
    (hd : ∀ d ∈ chapters, depth d ≤ maxTreeDepth) :
    squeeze (epubText m chapters) = chapters.flatMap fun d => squeeze (textWithOptions m d) := by
  rw [epub_text_is_chapters]
  congr 1
  rw [List.filter_eq_self]
  intro d hm
  simpa [admitted] using hd d hm

example : ∀ d ∈ [nestedDoc 9996 [120], nestedDoc 0 [121]], depth d ≤ maxTreeDepth := by
  intro d hm
  simp only [List.mem_cons, List.mem_nil_iff, or_false] at hm
  rcases hm with rfl | rfl <;> (rw [depth_nestedDoc]; decide)

/-- BEYOND THE LIMIT, EPUB: a chapter nested deeper than `maxTreeDepth` contributes nothing to the
text or the Markdown of the book — the result is that of the book without the chapter — and the
loop never evaluates a view on it (`view` may be replaced by anything on refused chapters). -/
theorem epub_deep_chapter_left_out (m : Int) (a b : List Dom) (d : Dom) (h : maxTreeDepth < depth d) :
    epubText m (a ++ d :: b) = epubText m (a ++ b) ∧ epubMarkdown m (a ++ d :: b) = epubMarkdown m (a ++ b) ∧
    ∀ view view' : Dom → Str, (∀ x, depth x ≤ maxTreeDepth → view x = view' x) →
      ∀ chapters, epubParts view chapters = epubParts view' chapters := by
  have hna : ¬ admitted d = true := by simp [admitted]; omega
  have one : ∀ view : Dom → Str, epubParts view (a ++ d :: b) = epubParts view (a ++ b) := by
    intro view
    rw [epubParts_append, epubParts_append, epubParts_cons]
    simp [hna]
  exact ⟨by unfold epubText; rw [one], by unfold epubMarkdown; rw [one], fun v v' hv cs => epubParts_congr v v' hv cs⟩

example : epubText 0 [nestedDoc 0 [120], nestedDoc 9997 [121], nestedDoc 0 [122]] =
    epubText 0 [nestedDoc 0 [120], nestedDoc 0 [122]] :=
  (epub_deep_chapter_left_out 0 [nestedDoc 0 [120]] [nestedDoc 0 [122]] (nestedDoc 9997 [121])
    (by rw [depth_nestedDoc]; decide)).1

/-- BOUNDED WORK, EPUB, for every book: one call parses and walks each chapter at most once, keeps at
most one part per admitted chapter, and every chapter it walks is at most `maxTreeDepth` deep. -/
theorem epub_work_bounded (view : Dom → Str) (chapters : List Dom) :
    (epubParts view chapters).length ≤ (chapters.filter admitted).length ∧
    (chapters.filter admitted).length ≤ chapters.length ∧
    ∀ d ∈ chapters.filter admitted, depth d ≤ maxTreeDepth := by
  refine ⟨epubParts_length view chapters, List.length_filter_le _ _, fun d hm => ?_⟩
  have := (List.mem_filter.mp hm).2
  simpa [admitted] using this

/-! ## content outside the excluded subtrees -/

/-- OUTSIDE UNCHANGED, end to end: if mode value `m` excludes no node of the document's body that
mode None would keep (the predicates agree on the whole body), `TextWithOptions` and the Document
view return for `m` what they return for None — nothing else ever influences the result. -/
theorem view_text_unchanged_when_nothing_excluded (m : Int) (doc : Dom)
    (h : agree (excluded .none) (excluded (clampMode m)) (hasWrapper (bodyOf doc)) .root (bodyOf doc)) :
    squeeze (textWithOptions m doc) = squeeze (textWithOptions 0 doc) ∧
    nonEmpty (docTexts (documentWithOptions m doc)) = nonEmpty (docTexts (documentWithOptions 0 doc)) := by
  have e : atomsOf (excluded (clampMode m)) (bodyOf doc) = atomsOf (excluded (clampMode 0)) (bodyOf doc) := by
    unfold atomsOf
    exact agree_unchanged _ _ _ _ _ _ h
  constructor
  · rw [view_text_is_atoms, view_text_is_atoms, e]
  · rw [view_document_keeps_content, view_document_keeps_content, e]

/-- RESTATED with the depth hypothesis (was: for every tree): if mode value `m` excludes no node of
the body that mode None would keep, the public calls return for `m` what they return for None. -/
theorem text_unchanged_when_nothing_excluded (m : Int) (doc : Dom) (hd : depth doc ≤ maxTreeDepth)
    (h : agree (excluded .none) (excluded (clampMode m)) (hasWrapper (bodyOf doc)) .root (bodyOf doc)) :
    ∃ tm t0 dm d0, openText m doc = some tm ∧ openText 0 doc = some t0 ∧
      openDocument m doc = some dm ∧ openDocument 0 doc = some d0 ∧
      squeeze tm = squeeze t0 ∧ nonEmpty (docTexts dm) = nonEmpty (docTexts d0) := by
  have w := open_within doc hd
  have v := view_text_unchanged_when_nothing_excluded m doc h
  exact ⟨_, _, _, _, (w.2.2.1 m).1, (w.2.2.1 0).1, (w.2.2.1 m).2.2, (w.2.2.1 0).2.2, v.1, v.2⟩

example : agree (excluded .none) (excluded (clampMode 3)) false .root
    (.elem T.body [] [.elem T.p [] [.text [120]]]) := by
  simp [agree, agreeL, excluded, excludedExplicit, excludedPattern, excludedLinkDensity, getAttr, Mode.rank, clampMode]
  decide

/-- … and piecewise: the text contributed by the siblings around a subtree `k` does not depend on
what a stricter predicate does inside `k` -/
theorem outside_unchanged_text (p q : Pos → Dom → Bool) (w : Bool) (kp : Pos) (lc : LC) (a b : List Dom) (k : Dom)
    (ha : agreeL p q w kp a) (hb : agreeL p q w kp b) :
    (atomsL q w kp lc (a ++ k :: b)).flatMap Atom.sq =
      (atomsL p w kp lc a).flatMap Atom.sq ++ (atoms q w kp lc k).flatMap Atom.sq ++ (atomsL p w kp lc b).flatMap Atom.sq := by
  rw [outside_unchanged p q w kp lc a b k ha hb]
  simp [List.flatMap_append]

end Tabula.C19Api
