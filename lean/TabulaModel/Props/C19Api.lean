import TabulaModel.Props.C19
import TabulaModel.Props.C19Text
import TabulaModel.Lemmas.HtmlApi
/-!
# C19 — the statement over the public entry points

`Props/C19.lean` proves the property on the mechanism (`atoms`, `trav`, `getElements`).
This file chains those theorems into statements about what the PUBLIC calls return
(`Model/HtmlApi.lean`): `htmldoc.OpenReader(…).TextWithOptions / DocumentWithOptions / Text /
Document`, `epubdoc.(*Reader).TextWithOptions`, `tabula.FromHTMLString(…).Text`, starting from
the document node the parser returned, for every raw value of the mode (`NavigationExclusionMode`
is an `int` and epubdoc converts any `int`), and over arbitrary call histories on one reader.

Plain text is compared up to white space (`squeeze`): the property does not fix white space, and
up to white space the text view is a function of the atoms alone (`squeeze_renderText`).
-/
namespace Tabula.C19Api
open Tabula.Html Tabula.C19

/-! ## option handling and conversions -/

/-- A raw mode value outside 0..3 is not a fifth mode: `shouldExclude` on the raw value decides
exactly as the documented mode `clampMode m` (negative → Explicit, above 3 → Aggressive), so
every theorem about the four modes covers every `int` an EPUB caller can pass. -/
theorem int_mode_is_clamped (m : Int) :
    (∀ pos n, excludedI m pos n = excluded (clampMode m) pos n) ∧
    (∀ doc, extractI m doc = extract (clampMode m) (bodyOf doc)) ∧
    (∀ k : Mode, clampMode k.toInt = k) :=
  ⟨excludedI_clamp m, extractI_clamp m, clampMode_toInt⟩

/-- `Text()`, `Markdown()`, `Document()` are the `…WithOptions` calls with mode Standard; the
`tabula.Extractor` text path asks for mode None, its Document path for Standard. -/
theorem api_defaults (doc : Dom) :
    fresh doc .text = fresh doc (.textOpts Mode.standard.toInt) ∧
    fresh doc .md = fresh doc (.mdOpts Mode.standard.toInt) ∧
    fresh doc .doc = fresh doc (.docOpts Mode.standard.toInt) ∧
    extractorText doc = textWithOptions Mode.none.toInt doc ∧
    extractorDocument doc = documentWithOptions Mode.standard.toInt doc ∧
    fresh doc (.textOpts 0) = .str (extractorText doc) := by
  refine ⟨rfl, rfl, rfl, rfl, rfl, ?_⟩
  rw [fresh_eq]; rfl

/-- what a fresh reader answers is the view of `extract` for the clamped mode from body -/
theorem fresh_is_extract (doc : Dom) (c : Call) :
    fresh doc c = c.render (extract (clampMode c.mode) (bodyOf doc)) := by
  rw [fresh_eq, extractI_clamp]

/-! ## call histories -/

/-- Any sequence of public calls on ONE reader — Text, Markdown, Document, with or without
options, any raw mode values, any order, any repetition — returns, call by call, what a reader
opened for that call alone returns: the per-mode cache never leaks a result across modes or
views (invariant `ReaderOk` over the history). -/
theorem api_history (doc : Dom) (cs : List Call) :
    runCalls (openReader doc) cs = cs.map (fresh doc) :=
  runCalls_correct doc cs (openReader doc) (openReader_ok doc)

example : ReaderOk (.text []) (openReader (.text [])) := openReader_ok _

/-- … from any reachable reader state, and the state stays reachable -/
theorem api_history_invariant (doc : Dom) (r : ReaderI) (c : Call) (h : ReaderOk doc r) :
    (call r c).1 = fresh doc c ∧ ReaderOk doc (call r c).2 := by
  have g := call_correct doc r c h
  exact ⟨by rw [g.1, fresh_eq], g.2⟩

/-! ## the plain-text view -/

/-- stricter or equal, on the documented modes -/
theorem excluded_mono_rank (m1 m2 : Mode) (h : m1.rank ≤ m2.rank) (pos : Pos) (n : Dom) :
    excluded m1 pos n = true → excluded m2 pos n = true := by
  have i := mode_inclusion pos n
  cases m1 <;> cases m2 <;> simp only [Mode.rank] at h <;>
    first
    | exact fun x => x
    | omega
    | (intro x; first
        | exact i.1 x
        | exact i.2.1 x
        | exact i.2.2 x
        | exact i.2.1 (i.1 x)
        | exact i.2.2 (i.2.1 x)
        | exact i.2.2 (i.2.1 (i.1 x)))

/-- up to white space, `TextWithOptions` is the atoms of the specification, one after the other
(a bullet before each list item) -/
theorem text_is_atoms (m : Int) (doc : Dom) :
    squeeze (textWithOptions m doc) =
      (atomsOf (excluded (clampMode m)) (bodyOf doc)).flatMap Atom.sq := by
  unfold textWithOptions
  rw [squeeze_renderText, extractI_clamp]
  unfold extract
  rw [traverse_refines_atoms]
  rfl

/-- MONOTONE, END TO END: for raw mode values `a`, `b` with `b` at least as strict as `a`, the text
`TextWithOptions` returns for `b` is (white space aside) a subsequence of the text it returns for
`a`, for every document, from the document node. -/
theorem text_monotone (a b : Int) (h : (clampMode a).rank ≤ (clampMode b).rank) (doc : Dom) :
    (squeeze (textWithOptions b doc)).Sublist (squeeze (textWithOptions a doc)) := by
  rw [text_is_atoms, text_is_atoms]
  apply sublist_flatMap
  unfold atomsOf
  exact filter_monotone _ _ (fun pos n => excluded_mono_rank _ _ h pos n) _ _ _ _

example : (clampMode 1).rank ≤ (clampMode 7).rank := by decide

/-- the four documented modes as a chain, and mode None (also what `Extractor.Text` uses) returns
everything: every mode value returns a subsequence of it -/
theorem text_mode_chain (doc : Dom) :
    (squeeze (textWithOptions 3 doc)).Sublist (squeeze (textWithOptions 2 doc)) ∧
    (squeeze (textWithOptions 2 doc)).Sublist (squeeze (textWithOptions 1 doc)) ∧
    (squeeze (textWithOptions 1 doc)).Sublist (squeeze (textWithOptions 0 doc)) ∧
    (∀ m : Int, (squeeze (textWithOptions m doc)).Sublist (squeeze (extractorText doc))) := by
  refine ⟨text_monotone 2 3 (by decide) doc, text_monotone 1 2 (by decide) doc,
    text_monotone 0 1 (by decide) doc, ?_⟩
  intro m
  exact text_monotone 0 m (by simp [clampMode, Mode.rank]) doc

/-- CONTENT, END TO END: up to white space and the list bullets, the text `TextWithOptions`
returns is the source text of the document — the text nodes of its non-skipped, non-excluded
content elements, each once, in the order of their content elements. -/
theorem text_is_source_text (m : Int) (doc : Dom) :
    (squeeze (textWithOptions m doc)).filter (· != 0x2022) =
      (squeeze (srcOf m doc)).filter (· != 0x2022) := by
  rw [← Tabula.C19Text.content_text_complete_api]
  unfold textWithOptions elementsText
  rw [squeeze_renderText]
  simp only [squeeze_nil, List.nil_append]
  generalize flatten (extractI m doc) = as
  induction as with
  | nil => rfl
  | cons a rest ih =>
    simp only [List.flatMap_cons, List.filter_append, squeeze_append, ih]
    congr 1
    cases a <;> simp [Atom.sq, Atom.text]

/-! ## the Document view -/

/-- the Document view keeps every non-empty text of the elements in order (code and quotes become
paragraphs, the table grid only adds empty cells), and is monotone in the mode like the text view -/
theorem document_keeps_content (m : Int) (doc : Dom) :
    nonEmpty (docTexts (documentWithOptions m doc)) =
      nonEmpty ((atomsOf (excluded (clampMode m)) (bodyOf doc)).map Atom.text) := by
  unfold documentWithOptions
  rw [docElements_texts, extractI_clamp]
  unfold extract
  rw [traverse_refines_atoms]

theorem document_monotone (a b : Int) (h : (clampMode a).rank ≤ (clampMode b).rank) (doc : Dom) :
    (nonEmpty (docTexts (documentWithOptions b doc))).Sublist
      (nonEmpty (docTexts (documentWithOptions a doc))) := by
  rw [document_keeps_content, document_keeps_content]
  apply List.Sublist.filter
  apply List.Sublist.map
  unfold atomsOf
  exact filter_monotone _ _ (fun pos n => excluded_mono_rank _ _ h pos n) _ _ _ _

/-! ## EPUB -/

/-- up to white space the text of a book is the texts of its chapters one after the other (empty
chapters vanish, the separators are white space) … -/
theorem epub_text_is_chapters (m : Int) (chapters : List Dom) :
    squeeze (epubText m chapters) = chapters.flatMap fun d => squeeze (textWithOptions m d) := by
  unfold epubText
  rw [squeeze_joinWith _ (by decide), epubParts_squeeze]

/-- … hence the property carries over to every EPUB, chapter by chapter: monotone in the raw mode
value, and `Text()` (mode 0) returns everything. -/
theorem epub_monotone (a b : Int) (h : (clampMode a).rank ≤ (clampMode b).rank) (chapters : List Dom) :
    (squeeze (epubText b chapters)).Sublist (squeeze (epubText a chapters)) := by
  rw [epub_text_is_chapters, epub_text_is_chapters]
  exact flatMap_sublist _ _ (fun d => text_monotone a b h d) chapters

theorem epub_mode_chain (chapters : List Dom) :
    (squeeze (epubText 3 chapters)).Sublist (squeeze (epubText 2 chapters)) ∧
    (squeeze (epubText 2 chapters)).Sublist (squeeze (epubText 1 chapters)) ∧
    (squeeze (epubText 1 chapters)).Sublist (squeeze (epubText 0 chapters)) ∧
    (∀ m : Int, (squeeze (epubText m chapters)).Sublist (squeeze (epubText 0 chapters))) :=
  ⟨epub_monotone 2 3 (by decide) _, epub_monotone 1 2 (by decide) _, epub_monotone 0 1 (by decide) _,
   fun m => epub_monotone 0 m (by simp [clampMode, Mode.rank]) _⟩

/-! ## content outside the excluded subtrees -/

/-- OUTSIDE UNCHANGED, end to end: if mode value `m` excludes no node of the document's body that
mode None would keep (the predicates agree on the whole body), `TextWithOptions` and the Document
view return for `m` what they return for None — nothing else ever influences the result. -/
theorem text_unchanged_when_nothing_excluded (m : Int) (doc : Dom)
    (h : agree (excluded .none) (excluded (clampMode m)) (hasWrapper (bodyOf doc)) .root (bodyOf doc)) :
    squeeze (textWithOptions m doc) = squeeze (textWithOptions 0 doc) ∧
    nonEmpty (docTexts (documentWithOptions m doc)) = nonEmpty (docTexts (documentWithOptions 0 doc)) := by
  have e : atomsOf (excluded (clampMode m)) (bodyOf doc) = atomsOf (excluded (clampMode 0)) (bodyOf doc) := by
    unfold atomsOf
    exact agree_unchanged _ _ _ _ _ _ h
  constructor
  · rw [text_is_atoms, text_is_atoms, e]
  · rw [document_keeps_content, document_keeps_content, e]

example : agree (excluded .none) (excluded (clampMode 3)) false .root
    (.elem T.body [] [.elem T.p [] [.text [120]]]) := by
  simp [agree, agreeL, excluded, excludedExplicit, excludedPattern, excludedLinkDensity, getAttr, Mode.rank, clampMode]
  decide

/-- … and piecewise: the text contributed by the siblings around a subtree `k` does not depend on
what a stricter predicate does inside `k` -/
theorem outside_unchanged_text (p q : Pos → Dom → Bool) (w : Bool) (kp : Pos) (lc : LC) (a b : List Dom) (k : Dom)
    (ha : agreeL p q w kp a) (hb : agreeL p q w kp b) :
    (atomsL q w kp lc (a ++ k :: b)).flatMap Atom.sq =
      (atomsL p w kp lc a).flatMap Atom.sq ++ (atoms q w kp lc k).flatMap Atom.sq ++ (atomsL p w kp lc b).flatMap Atom.sq := by
  rw [outside_unchanged p q w kp lc a b k ha hb]
  simp [List.flatMap_append]

end Tabula.C19Api
