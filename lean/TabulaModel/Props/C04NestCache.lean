import TabulaModel.Model.XrefNestCache
/-!
# C04 — the reader's caches and the limit on nested loads (repair 129dd3d)

"The answer does not depend on the order of lookups or on what was looked up before."
`GetObject` consults `objCache` before it counts the objects being loaded. On the chain files of
`Model/XrefNestCache.lean`:

* `nested_cache_fresh_reader` — a fresh reader answers every lookup by the length of the chain
  alone: found iff the object exists and its chain fits the limit of 16 (what the cache-free
  byte-level model `getObjectB` says; `C04N.nested_loads_within_limit/_beyond_limit`);
* `nested_cache_order_free_partial` — on every chain file whose longest chain fits the limit
  (in particular on every file that conforms to ISO 32000-1: at most 3 nested loads), every
  sequence of lookups and cache clears, from any sound cache contents, answers every lookup as
  a fresh reader does;
* `nested_cache_order_dependence_counterexample` — beyond the limit it does not: with 17 nested
  loads, `GetObject(A 1)` is an error on a fresh reader and succeeds after `GetObject(A 2)`.
  The full statement (`∀ d`, order-free) is FALSE for the code since 129dd3d; before it, it held
  (no limit). Recorded in known_findings.txt (C04/nested-limit-answer-depends-on-earlier-lookups).
-/
namespace Tabula.C04NC
open Tabula.XrefNest

/-- the caches hold only objects of the file -/
def Sound (d : Nat) (top : Bool) (st : Caches) : Prop :=
  (∀ i ∈ st.objA, 1 ≤ i ∧ i ≤ d) ∧ (∀ i ∈ st.objS, 1 ≤ i ∧ i < d) ∧ (st.objT = true → top = true)

theorem sound_empty (d : Nat) (top : Bool) : Sound d top ({} : Caches) := by
  refine ⟨?_, ?_, ?_⟩
  · intro i h; simp at h
  · intro i h; simp at h
  · intro h; simp at h

theorem getA_sound (d : Nat) (top : Bool) : ∀ (fuel i L : Nat) (st : Caches), Sound d top st →
    Sound d top (getA d fuel i L st).2 := by
  intro fuel
  induction fuel with
  | zero => intro i L st h; exact h
  | succ fuel ih =>
    intro i L st h
    simp only [getA]
    split
    · exact h
    · split
      · exact h
      · rename_i hin
        have hi : 1 ≤ i ∧ i ≤ d := by omega
        have hadd : ∀ st' : Caches, Sound d top st' → ∀ stm', Sound d top { st' with stm := stm', objA := i :: st'.objA } := by
          intro st' h' stm'
          refine ⟨?_, h'.2.1, h'.2.2⟩
          intro j hj
          simp only [List.mem_cons] at hj
          rcases hj with rfl | hj
          · exact hi
          · exact h'.1 j hj
        split
        · exact h
        · split
          · exact hadd st h st.stm
          · split
            · exact hadd st h st.stm
            · have := ih (i + 1) (L + 1) st h
              split
              · rename_i st' heq
                rw [heq] at this
                exact hadd st' this _
              · rename_i st' heq
                rw [heq] at this
                exact this

/-- a chain that fits the limit is answered whatever the caches hold -/
theorem getA_within (d : Nat) : ∀ (fuel i L : Nat) (st : Caches), 1 ≤ i → i ≤ d →
    L + (d - i + 1) ≤ maxNestedLoads → d - i + 1 ≤ fuel → (getA d fuel i L st).1 = true := by
  intro fuel
  induction fuel with
  | zero => intro i L st _ _ _ hf; omega
  | succ fuel ih =>
    intro i L st h1 h2 hl hf
    simp only [getA]
    split
    · rfl
    · have hin : ¬ (i = 0 ∨ d < i) := by omega
      have hlim : ¬ (maxNestedLoads ≤ L) := by omega
      simp only [hin, hlim, if_false]
      split
      · rfl
      · split
        · rfl
        · rename_i hne _
          have := ih (i + 1) (L + 1) st (by omega) (by omega) (by omega) (by omega)
          split
          · rfl
          · rename_i st' heq
            rw [heq] at this
            cases this

/-- from caches that hold nothing of the chain, the answer is decided by the length of the
chain alone, and a failed lookup leaves the caches as they were -/
theorem getA_fresh (d : Nat) : ∀ (fuel i L : Nat) (st : Caches), 1 ≤ i → i ≤ d → d - i + 1 ≤ fuel →
    st.objA = [] → st.stm = [] →
    (getA d fuel i L st).1 = decide (L + (d - i + 1) ≤ maxNestedLoads) ∧
      ((getA d fuel i L st).1 = false → (getA d fuel i L st).2 = st) := by
  intro fuel
  induction fuel with
  | zero => intro i L st _ _ hf; omega
  | succ fuel ih =>
    intro i L st h1 h2 hf hA hS
    simp only [getA, hA, hS, List.contains_nil, Bool.false_eq_true, if_false]
    have hin : ¬ (i = 0 ∨ d < i) := by omega
    simp only [hin, if_false]
    by_cases hlim : maxNestedLoads ≤ L
    · simp only [hlim, if_true]
      constructor
      · symm; simp only [decide_eq_false_iff_not]; omega
      · simp
    · simp only [hlim, if_false]
      by_cases hd : i = d
      · simp only [hd, if_true]
        constructor
        · symm; simp only [decide_eq_true_eq]; omega
        · simp
      · simp only [hd, if_false]
        obtain ⟨ha, hb⟩ := ih (i + 1) (L + 1) st (by omega) (by omega) (by omega) hA hS
        have e : L + 1 + (d - (i + 1) + 1) = L + (d - i + 1) := by omega
        rw [e] at ha
        cases hr : getA d fuel (i + 1) (L + 1) st with
        | mk b st' =>
          rw [hr] at ha hb
          simp only at ha hb
          cases b with
          | true => exact ⟨ha, fun h => by cases h⟩
          | false => exact ⟨ha, fun _ => hb rfl⟩

/-- **nested_cache_fresh_reader** (beyond the bound the model answers what the code answers):
on a freshly opened reader, `GetObject(A i)` is found iff `A i` exists and the `d - i + 1` loads
of its chain fit the limit of 16 — for every chain length `d` -/
theorem nested_cache_fresh_reader (d : Nat) (top : Bool) (i : Nat) :
    run d top {} [.a i] = [cold d top (.a i)] := by
  simp only [run, step, cold]
  by_cases hi : 1 ≤ i ∧ i ≤ d
  · have := (getA_fresh d (d + 1) i 0 {} hi.1 hi.2 (by omega) rfl rfl).1
    rw [this]
    congr 2
    simp only [Nat.zero_add, decide_eq_decide]
    constructor
    · intro h; exact ⟨hi.1, hi.2, h⟩
    · intro h; exact h.2.2
  · have hin : i = 0 ∨ d < i := by omega
    have hc : decide (1 ≤ i ∧ i ≤ d ∧ d - i + 1 ≤ maxNestedLoads) = false := by
      simp only [decide_eq_false_iff_not]; omega
    simp [getA, hin, hc]

theorem step_cold (d : Nat) (top : Bool) (hd1 : 1 ≤ d) (hfit : d + (if top then 1 else 0) ≤ maxNestedLoads) (st : Caches)
    (h : Sound d top st) (op : Op) :
    (step d top st op).1 = cold d top op ∧ Sound d top (step d top st op).2 := by
  have hd : d ≤ maxNestedLoads := by omega
  cases op with
  | clear => exact ⟨rfl, sound_empty d top⟩
  | a i =>
    simp only [step, cold]
    refine ⟨?_, getA_sound d top _ _ _ st h⟩
    by_cases hi : 1 ≤ i ∧ i ≤ d
    · rw [getA_within d (d + 1) i 0 st hi.1 hi.2 (by omega) (by omega)]
      congr 1; symm; simp only [decide_eq_true_eq]; omega
    · have hin : i = 0 ∨ d < i := by omega
      have hnc : i ∉ st.objA := by
        intro hm
        have := h.1 i hm
        omega
      have hc : decide (1 ≤ i ∧ i ≤ d ∧ d - i + 1 ≤ maxNestedLoads) = false := by
        simp only [decide_eq_false_iff_not]; omega
      simp [getA, hnc, hin, hc]
  | s i =>
    simp only [step, cold, getS]
    by_cases hc : st.objS.contains i = true
    · have := h.2.1 i (by simpa using hc)
      simp only [hc, if_true]
      refine ⟨?_, h⟩
      congr 1; symm; simp only [decide_eq_true_eq]; omega
    · simp only [hc, Bool.false_eq_true, if_false]
      by_cases hin : i = 0 ∨ d ≤ i
      · simp only [hin, if_true]
        refine ⟨?_, h⟩
        congr 1; symm; simp only [decide_eq_false_iff_not]; omega
      · simp only [hin, if_false]
        have hw := getA_within d (d + 1) (i + 1) 1 st (by omega) (by omega) (by omega) (by omega)
        have hs := getA_sound d top (d + 1) (i + 1) 1 st h
        cases hr : getA d (d + 1) (i + 1) 1 st with
        | mk b st' =>
          rw [hr] at hw hs
          simp only at hw
          subst hw
          simp only
          refine ⟨?_, hs.1, ?_, hs.2.2⟩
          · congr 1; symm; simp only [decide_eq_true_eq]; omega
          · intro j hj
            simp only [List.mem_cons] at hj
            rcases hj with rfl | hj
            · omega
            · exact hs.2.1 j hj
  | t =>
    simp only [step, cold, getT]
    by_cases hc : st.objT = true
    · have ht := h.2.2 hc
      subst ht
      simp only [hc, if_true, Bool.true_and]
      refine ⟨?_, h⟩
      congr 1; symm; simp only [decide_eq_true_eq]
      simp only [if_true] at hfit
      omega
    · simp only [hc, Bool.false_eq_true, if_false]
      cases top with
      | false => exact ⟨rfl, h⟩
      | true =>
        simp only [Bool.not_true, Bool.false_eq_true, if_false, Bool.true_and]
        simp only [if_true] at hfit
        have hw := getA_within d (d + 1) 1 1 st (by omega) hd1 (by omega) (by omega)
        have hs := getA_sound d true (d + 1) 1 1 st h
        cases hr : getA d (d + 1) 1 1 st with
        | mk b st' =>
          rw [hr] at hw hs
          simp only at hw
          subst hw
          simp only
          refine ⟨?_, hs.1, hs.2.1, fun _ => rfl⟩
          congr 1; symm; simp only [decide_eq_true_eq]; omega

/-- **nested_cache_order_free_partial**: on a chain file whose longest chain of nested loads
fits the limit (`d` integers, one more load for the stream on top), every sequence of
`GetObject` calls and cache clears, from any sound cache contents, answers each lookup exactly
as a freshly opened reader does. (Full statement — for every `d` — false since 129dd3d: see the
counterexample.) -/
theorem nested_cache_order_free_partial (d : Nat) (top : Bool) (hd1 : 1 ≤ d)
    (hfit : d + (if top then 1 else 0) ≤ 16) (st : Caches) (h : Sound d top st) (ops : List Op) :
    run d top st ops = ops.map (cold d top) := by
  induction ops generalizing st with
  | nil => rfl
  | cons op ops ih =>
    obtain ⟨h1, h2⟩ := step_cold d top hd1 hfit st h op
    simp only [run, List.map_cons]
    rw [h1, ih _ h2]

/-- satisfiable: a conforming layout (a stream whose `/Length` is a member of an object stream
whose `/Length` is a plain object: 3 nested loads), looked up in both orders and again -/
example : run 2 true {} [.t, .a 2, .a 1, .s 1, .clear, .a 1, .t] =
    [some true, some true, some true, some true, none, some true, some true] := by decide

/-- at the edge: 16 nested loads are answered from a fresh reader, 17 are not -/
example : run 16 false {} [.a 1] = [some true] ∧ run 17 false {} [.a 1] = [some false] ∧
    run 15 true {} [.t] = [some true] ∧ run 16 true {} [.t] = [some false] := by decide

/-- **nested_cache_order_dependence_counterexample**: with 17 nested loads — one more than the
limit — the answer to `GetObject(A 1)` depends on what was looked up before: an error on a
fresh reader, found after `GetObject(A 2)` (whose chain of 16 fits and is cached, so that
`A 1` needs only two loads). Since 129dd3d the property's second sentence fails on such
files; they violate ISO 32000-1 7.5.7 (the `/Length` of an object stream held in an object
stream). -/
theorem nested_cache_order_dependence_counterexample :
    run 17 false {} [.a 1] = [some false] ∧
      run 17 false {} [.a 2, .a 1] = [some true, some true] ∧
      cold 17 false (.a 1) = some false := by decide

end Tabula.C04NC
