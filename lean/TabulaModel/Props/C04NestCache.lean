import TabulaModel.Model.XrefNestCache
/-!
# C04 — the reader's caches and the limit on nested loads (129dd3d, repaired by 8b4ac6e)

"The answer does not depend on the order of lookups or on what was looked up before."
`GetObject` refuses a load when 16 objects are being loaded inside each other. Since 8b4ac6e a
hit in `objCache` or `objStmCache` is counted as the load it stands for (`objNeed`, `stmNeed`,
`nestCached`). On the chain files of `Model/XrefNestCache.lean`, for EVERY chain length `d`:

* `nested_cache_fresh_reader` — a fresh reader answers every lookup by the length of the chain
  alone: found iff the object exists and its chain fits the limit of 16 (what the cache-free
  byte-level model `getObjectB` says; `C04N.nested_loads_within_limit/_beyond_limit`);
* `nested_cache_order_free` — every sequence of lookups and cache clears, from any sound cache
  contents, answers every lookup as a fresh reader does;
* `nested_cache_answer_independent_of_earlier_lookups` — the same, said of one lookup after two
  arbitrary histories;
* `nested_cache_need_is_chain_length` — what the reader remembers with a cached object is the
  number of nested loads a fresh reader needs for it;
* `nested_cache_order_dependence_pinned_counterexample` — the cache rule before the repair
  (`XrefNest.Old`): with 17 nested loads `GetObject(A 1)` was an error on a fresh reader and
  succeeded after `GetObject(A 2)`; the repaired rule refuses both times. (known_findings.txt:
  `fixed: property=C04 8b4ac6e`, oracle key C04/nested-limit-answer-depends-on-earlier-lookups.)
-/
namespace Tabula.C04NC
open Tabula.XrefNest

/-- the caches hold only objects of the file, each with the number of nested loads its chain
takes (`objNeed`: the object itself included; `stmNeed`: the loads below the member) -/
def Sound (d : Nat) (top : Bool) (st : Caches) : Prop :=
  (∀ i n, st.objA.lookup i = some n → 1 ≤ i ∧ i ≤ d ∧ n = d - i + 1) ∧
  (∀ i n, st.objB.lookup i = some n → 1 ≤ i ∧ i < d ∧ n = d - i + 1) ∧
  (∀ i n, st.objS.lookup i = some n → 1 ≤ i ∧ i < d ∧ n = d - i + 1) ∧
  (∀ i n, st.stm.lookup i = some n → 1 ≤ i ∧ i < d ∧ n = d - i) ∧
  (∀ n, st.objT = some n → top = true ∧ 1 ≤ d ∧ n = d + 1)

theorem sound_empty (d : Nat) (top : Bool) (r : Nat) : Sound d top ({ reach := r } : Caches) := by
  refine ⟨?_, ?_, ?_, ?_, ?_⟩ <;> intros <;> simp_all [List.lookup]

/-- `reach` is no part of soundness -/
theorem sound_reach {d : Nat} {top : Bool} {st : Caches} (h : Sound d top st) (r : Nat) :
    Sound d top { st with reach := r } := h

theorem lookup_cons_some {k v : Nat} {l : List (Nat × Nat)} {i n : Nat}
    (h : ((k, v) :: l).lookup i = some n) : (i = k ∧ n = v) ∨ l.lookup i = some n := by
  simp only [List.lookup] at h
  split at h
  · rename_i heq
    left
    exact ⟨by simpa using heq, by simpa using h.symm⟩
  · right; exact h

theorem nestCached_spec {d : Nat} {top : Bool} {st : Caches} (h : Sound d top st) (need L : Nat) :
    (nestCached need L st).1 = decide (L + need ≤ maxNestedLoads) ∧
      Sound d top (nestCached need L st).2 ∧
      ((nestCached need L st).1 = true → (nestCached need L st).2.reach = max st.reach (L + need)) := by
  unfold nestCached
  by_cases hc : maxNestedLoads < L + need
  · simp only [hc, if_true]
    refine ⟨?_, h, fun hf => by cases hf⟩
    symm; simp only [decide_eq_false_iff_not]; omega
  · simp only [hc, if_false]
    refine ⟨?_, h, ?_⟩
    · symm; simp only [decide_eq_true_eq]; omega
    · intro _; first | rfl | trivial

/-- what a `GetObject` of an object whose chain takes `c` loads must do, called with `L` objects
being loaded: found iff `L + c` fits, caches sound afterwards, and on success `reach` raised to
`L + c` -/
def Answers (d : Nat) (top : Bool) (c L : Nat) (st : Caches) (r : Bool × Caches) : Prop :=
  r.1 = decide (L + c ≤ maxNestedLoads) ∧ Sound d top r.2 ∧
    (r.1 = true → r.2.reach = max st.reach (L + c))

/-- `getObjectStream(S i)`: given that the nested `GetObject(A (i+1))` answers by its chain
(`d - i` loads), opening `S i` does, cached or not -/
theorem openStm_spec {d : Nat} {top : Bool} (i L : Nat) (st : Caches) (nested : Caches → Bool × Caches)
    (h : Sound d top st) (h1 : 1 ≤ i) (h2 : i < d)
    (hn : ∀ st', Sound d top st' → Answers d top (d - i) L st' (nested st')) :
    Answers d top (d - i) L st (openStm i L st nested) := by
  unfold openStm
  cases hl : st.stm.lookup i with
  | some need =>
    simp only
    have := (h.2.2.2.1 i need hl).2.2
    subst this
    exact nestCached_spec h _ _
  | none =>
    simp only
    obtain ⟨ha, hs, hr⟩ := hn { st with reach := L } (sound_reach h L)
    cases hb : (nested { st with reach := L }).1 with
    | false =>
      simp only [Bool.false_eq_true, if_false]
      rw [hb] at ha
      exact ⟨ha, hs, fun hf => by cases hf⟩
    | true =>
      simp only [if_true]
      rw [hb] at ha
      have hreach := hr hb
      simp only at hreach
      refine ⟨ha, ?_, ?_⟩
      · obtain ⟨sA, sB, sS, sM, sT⟩ := hs
        refine ⟨sA, sB, sS, ?_, sT⟩
        intro j n hj
        rcases lookup_cons_some hj with ⟨rfl, rfl⟩ | hj
        · refine ⟨h1, h2, ?_⟩
          rw [hreach]; omega
        · exact sM j n hj
      · intro _
        simp only [restoreReach]
        rw [hreach]; omega

/-- the chain of `A i` / `B i` takes `d - i + 1` loads -/
theorem getM_spec (d : Nat) (top : Bool) : ∀ (fuel : Nat) (b : Bool) (i L : Nat) (st : Caches),
    Sound d top st → d - i + 1 ≤ fuel →
    (memberExists d b i = true → Answers d top (d - i + 1) L st (getM d fuel b i L st)) ∧
    (memberExists d b i = false → getM d fuel b i L st = (false, st)) := by
  intro fuel
  induction fuel with
  | zero => intro b i L st _ hf; omega
  | succ fuel ih =>
    intro b i L st h hf
    have hmem : ∀ n, (st.member b).lookup i = some n → memberExists d b i = true ∧ n = d - i + 1 := by
      intro n hn
      cases b with
      | false =>
        have := h.1 i n hn
        exact ⟨by simp only [memberExists, Bool.false_eq_true, if_false, decide_eq_true_eq]; omega, this.2.2⟩
      | true =>
        have := h.2.1 i n hn
        exact ⟨by simp only [memberExists, if_true, decide_eq_true_eq]; omega, this.2.2⟩
    constructor
    · intro hex
      simp only [getM]
      cases hl : (st.member b).lookup i with
      | some need =>
        simp only
        have := (hmem need hl).2
        subst this
        exact nestCached_spec h _ _
      | none =>
        simp only [hex, Bool.not_true, Bool.false_eq_true, if_false]
        by_cases hlim : maxNestedLoads ≤ L
        · simp only [hlim, if_true]
          refine ⟨?_, h, fun hf => by cases hf⟩
          symm; simp only [decide_eq_false_iff_not]; omega
        · simp only [hlim, if_false]
          -- the load proper: a plain object, or through the object stream
          have hload : Answers d top (d - i) (L + 1) { st with reach := L + 1 }
              (if (!b && decide (i = d)) = true then (true, { st with reach := L + 1 })
               else openStm i (L + 1) { st with reach := L + 1 } (getM d fuel false (i + 1) (L + 1))) := by
            by_cases hp : (!b && decide (i = d)) = true
            · simp only [hp, if_true]
              have hid : i = d := by
                simp only [Bool.and_eq_true, decide_eq_true_eq] at hp; exact hp.2
              refine ⟨?_, sound_reach h _, fun _ => ?_⟩
              · symm; simp only [decide_eq_true_eq]; omega
              · simp only; omega
            · simp only [hp]
              have hid : 1 ≤ i ∧ i < d := by
                cases b with
                | false =>
                  simp only [memberExists, Bool.false_eq_true, if_false, decide_eq_true_eq] at hex
                  simp only [Bool.not_false, Bool.true_and, decide_eq_true_eq] at hp
                  omega
                | true =>
                  simp only [memberExists, if_true, decide_eq_true_eq] at hex
                  exact hex
              apply openStm_spec i (L + 1) _ _ (sound_reach h _) hid.1 hid.2
              intro st' hs'
              have hex' : memberExists d false (i + 1) = true := by
                simp only [memberExists, Bool.false_eq_true, if_false, decide_eq_true_eq]; omega
              have := (ih false (i + 1) (L + 1) st' hs' (by omega)).1 hex'
              have e : d - (i + 1) + 1 = d - i := by omega
              rw [e] at this
              exact this
          generalize (if (!b && decide (i = d)) = true then (true, { st with reach := L + 1 })
               else openStm i (L + 1) { st with reach := L + 1 } (getM d fuel false (i + 1) (L + 1))) = r at hload
          obtain ⟨ha, hs, hr⟩ := hload
          have e : L + 1 + (d - i) = L + (d - i + 1) := by omega
          rw [e] at ha hr
          cases hb : r.1 with
          | false =>
            simp only [Bool.false_eq_true, if_false]
            rw [hb] at ha
            exact ⟨ha, hs, fun hf => by cases hf⟩
          | true =>
            simp only [if_true]
            rw [hb] at ha
            have hreach := hr hb
            simp only at hreach
            have hid : 1 ≤ i ∧ i ≤ d ∧ (b = true → i < d) := by
              cases b with
              | false =>
                simp only [memberExists, Bool.false_eq_true, if_false, decide_eq_true_eq] at hex
                exact ⟨hex.1, hex.2, fun hf => by cases hf⟩
              | true =>
                simp only [memberExists, if_true, decide_eq_true_eq] at hex
                exact ⟨hex.1, by omega, fun _ => hex.2⟩
            refine ⟨ha, ?_, ?_⟩
            · obtain ⟨sA, sB, sS, sM, sT⟩ := hs
              cases b with
              | false =>
                refine ⟨?_, sB, sS, sM, sT⟩
                intro j n hj
                simp only [Caches.cacheMember, restoreReach, Bool.false_eq_true, if_false] at hj
                rcases lookup_cons_some hj with ⟨rfl, rfl⟩ | hj
                · refine ⟨hid.1, hid.2.1, ?_⟩
                  rw [hreach]; omega
                · exact sA j n hj
              | true =>
                refine ⟨sA, ?_, sS, sM, sT⟩
                intro j n hj
                simp only [Caches.cacheMember, restoreReach, if_true] at hj
                rcases lookup_cons_some hj with ⟨rfl, rfl⟩ | hj
                · refine ⟨hid.1, hid.2.2 rfl, ?_⟩
                  rw [hreach]; omega
                · exact sB j n hj
            · intro _
              have : (r.2.cacheMember b i (r.2.reach - (L + 1) + 1)).reach = r.2.reach := by
                cases b <;> rfl
              simp only [restoreReach, this]
              rw [hreach]; omega
    · intro hex
      simp only [getM]
      cases hl : (st.member b).lookup i with
      | some need =>
        have := (hmem need hl).1
        rw [hex] at this; cases this
      | none => simp only [hex, Bool.not_false, if_true]

/-- **nested_cache_need_is_chain_length**: after `GetObject(A i)` from outside, from any sound
caches, what the reader remembers with `A i` is `d - i + 1` — the nested loads a fresh reader
needs for it (so `nestCached` refuses exactly where a load would be refused) -/
theorem nested_cache_need_is_chain_length (d : Nat) (top : Bool) (st : Caches) (h : Sound d top st)
    (i n : Nat) (hn : (step d top st (.a i)).2.objA.lookup i = some n) : n = d - i + 1 := by
  simp only [step] at hn
  by_cases hex : memberExists d false i = true
  · exact (((getM_spec d top (d + 1) false i 0 st h (by omega)).1 hex).2.1.1 i n hn).2.2
  · have hex' : memberExists d false i = false := by simpa using hex
    rw [(getM_spec d top (d + 1) false i 0 st h (by omega)).2 hex'] at hn
    exact (h.1 i n hn).2.2

/-- satisfiable, beyond the limit: on 17 chained integers `A 2` is cached with need 16 -/
example : (step 17 false {} (.a 2)).2.objA.lookup 2 = some 16 := by decide

/-- one operation, from any sound caches, for every chain length: a fresh reader's answer, and
sound caches afterwards -/
theorem step_cold (d : Nat) (top : Bool) (st : Caches) (h : Sound d top st) (op : Op) :
    (step d top st op).1 = cold d top op ∧ Sound d top (step d top st op).2 := by
  cases op with
  | clear => exact ⟨rfl, sound_empty d top _⟩
  | a i =>
    simp only [step, cold]
    have hs := getM_spec d top (d + 1) false i 0 st h (by omega)
    by_cases hex : memberExists d false i = true
    · obtain ⟨ha, hsnd, _⟩ := hs.1 hex
      refine ⟨?_, hsnd⟩
      rw [ha]
      simp only [memberExists, Bool.false_eq_true, if_false, decide_eq_true_eq] at hex
      congr 1
      simp only [decide_eq_decide]
      constructor
      · intro hh; exact ⟨hex.1, hex.2, by omega⟩
      · intro hh; omega
    · have hex' : memberExists d false i = false := by simpa using hex
      rw [hs.2 hex']
      refine ⟨?_, h⟩
      simp only [memberExists, Bool.false_eq_true, if_false, decide_eq_false_iff_not] at hex'
      congr 1; symm; simp only [decide_eq_false_iff_not]; omega
  | b i =>
    simp only [step, cold]
    have hs := getM_spec d top (d + 1) true i 0 st h (by omega)
    by_cases hex : memberExists d true i = true
    · obtain ⟨ha, hsnd, _⟩ := hs.1 hex
      refine ⟨?_, hsnd⟩
      rw [ha]
      simp only [memberExists, if_true, decide_eq_true_eq] at hex
      congr 1
      simp only [decide_eq_decide]
      constructor
      · intro hh; exact ⟨hex.1, hex.2, by omega⟩
      · intro hh; omega
    · have hex' : memberExists d true i = false := by simpa using hex
      rw [hs.2 hex']
      refine ⟨?_, h⟩
      simp only [memberExists, if_true, decide_eq_false_iff_not] at hex'
      congr 1; symm; simp only [decide_eq_false_iff_not]; omega
  | s i =>
    simp only [step, cold, getS]
    cases hl : st.objS.lookup i with
    | some need =>
      simp only
      obtain ⟨h1, h2, h3⟩ := h.2.2.1 i need hl
      obtain ⟨ha, hsnd, _⟩ := nestCached_spec h need 0
      refine ⟨?_, hsnd⟩
      rw [ha]
      congr 1
      simp only [decide_eq_decide]
      constructor
      · intro hh; exact ⟨h1, h2, by omega⟩
      · intro hh; omega
    | none =>
      simp only
      by_cases hin : i = 0 ∨ d ≤ i
      · simp only [hin, if_true]
        refine ⟨?_, h⟩
        congr 1; symm; simp only [decide_eq_false_iff_not]; omega
      · simp only [hin, if_false]
        have hex : memberExists d false (i + 1) = true := by
          simp only [memberExists, Bool.false_eq_true, if_false, decide_eq_true_eq]; omega
        obtain ⟨ha, hsnd, hr⟩ := (getM_spec d top (d + 1) false (i + 1) 1 { st with reach := 1 }
          (sound_reach h 1) (by omega)).1 hex
        generalize getM d (d + 1) false (i + 1) 1 { st with reach := 1 } = r at ha hsnd hr
        cases hb : r.1 with
        | false =>
          simp only [Bool.false_eq_true, if_false]
          rw [hb] at ha
          refine ⟨?_, hsnd⟩
          congr 1
          have := ha
          simp only [Bool.false_eq, decide_eq_false_iff_not] at this
          symm; simp only [decide_eq_false_iff_not]; omega
        | true =>
          simp only [if_true]
          rw [hb] at ha
          have hreach := hr hb
          simp only at hreach
          have hfit := ha
          simp only [Bool.true_eq, decide_eq_true_eq] at hfit
          refine ⟨?_, ?_⟩
          · congr 1; symm; simp only [decide_eq_true_eq]; omega
          · obtain ⟨sA, sB, sS, sM, sT⟩ := hsnd
            refine ⟨sA, sB, ?_, sM, sT⟩
            intro j n hj
            simp only [restoreReach] at hj
            rcases lookup_cons_some hj with ⟨rfl, rfl⟩ | hj
            · refine ⟨by omega, by omega, ?_⟩
              rw [hreach]; omega
            · exact sS j n hj
  | t =>
    simp only [step, cold, getT]
    have hs1 := sound_reach h 1
    have hspec := getM_spec d top (d + 1) false 1 1 { st with reach := 1 } hs1 (by omega)
    have hr1 : ({ st with reach := 1 } : Caches).reach = 1 := rfl
    generalize ({ st with reach := 1 } : Caches) = st1 at hs1 hspec hr1 ⊢
    cases hl : st.objT with
    | some need =>
      simp only
      obtain ⟨h1, h2, h3⟩ := h.2.2.2.2 need hl
      obtain ⟨ha, hsnd, _⟩ := nestCached_spec h need 0
      refine ⟨?_, hsnd⟩
      rw [ha, h1]
      simp only [Bool.true_and]
      congr 1
      simp only [decide_eq_decide]
      constructor
      · intro hh; exact ⟨h2, by omega⟩
      · intro hh; omega
    | none =>
      simp only
      cases top with
      | false => exact ⟨rfl, h⟩
      | true =>
        simp only [Bool.not_true, Bool.false_eq_true, if_false, Bool.true_and]
        by_cases hd : 1 ≤ d
        · have hex : memberExists d false 1 = true := by
            simp only [memberExists, Bool.false_eq_true, if_false, decide_eq_true_eq]; omega
          obtain ⟨ha, hsnd, hr⟩ := hspec.1 hex
          rw [hr1] at hr
          generalize getM d (d + 1) false 1 1 st1 = r at ha hsnd hr
          cases hb : r.1 with
          | false =>
            simp only [Bool.false_eq_true, if_false]
            rw [hb] at ha
            refine ⟨?_, hsnd⟩
            congr 1
            have := ha
            simp only [Bool.false_eq, decide_eq_false_iff_not] at this
            symm; simp only [decide_eq_false_iff_not]; omega
          | true =>
            simp only [if_true]
            rw [hb] at ha
            have hreach := hr hb
            have hfit := ha
            simp only [Bool.true_eq, decide_eq_true_eq] at hfit
            refine ⟨?_, ?_⟩
            · congr 1; symm; simp only [decide_eq_true_eq]; omega
            · obtain ⟨sA, sB, sS, sM, _⟩ := hsnd
              refine ⟨sA, sB, sS, sM, ?_⟩
              intro n hn
              simp only [restoreReach, Option.some.injEq] at hn
              refine ⟨rfl, hd, ?_⟩
              rw [← hn, hreach]; omega
        · have hex : memberExists d false 1 = false := by
            simp only [memberExists, Bool.false_eq_true, if_false, decide_eq_false_iff_not]; omega
          rw [hspec.2 hex]
          simp only [Bool.false_eq_true, if_false]
          refine ⟨?_, sound_reach hs1 _⟩
          congr 1; symm; simp only [decide_eq_false_iff_not]; omega

/-- **nested_cache_order_free**: on every chain file — every chain length `d`, with or without
the stream on top — every sequence of `GetObject` calls and cache clears, from any sound cache
contents, answers each lookup exactly as a freshly opened reader does: by the file and the
limit alone. (Before the repair 8b4ac6e this held only for `d + top ≤ 16`; see the pinned
counterexample.) -/
theorem nested_cache_order_free (d : Nat) (top : Bool) (st : Caches) (h : Sound d top st)
    (ops : List Op) : run d top st ops = ops.map (cold d top) := by
  induction ops generalizing st with
  | nil => rfl
  | cons op ops ih =>
    obtain ⟨h1, h2⟩ := step_cold d top st h op
    simp only [run, List.map_cons]
    rw [h1, ih _ h2]

/-- satisfiable: caches filled by earlier lookups on a file beyond the limit are sound -/
example : Sound 17 false (step 17 false (step 17 false {} (.b 2)).2 (.a 1)).2 :=
  (step_cold 17 false _ (step_cold 17 false {} (sound_empty 17 false 0) (.b 2)).2 (.a 1)).2

/-- **nested_cache_fresh_reader**: on a freshly opened reader, `GetObject(A i)` is found iff
`A i` exists and the `d - i + 1` loads of its chain fit the limit of 16 — for every chain
length `d` -/
theorem nested_cache_fresh_reader (d : Nat) (top : Bool) (i : Nat) :
    run d top {} [.a i] = [cold d top (.a i)] :=
  nested_cache_order_free d top {} (sound_empty d top 0) [.a i]

/-- **nested_cache_answer_independent_of_earlier_lookups**: the answer to a lookup after any
history of lookups and clears equals its answer after any other history, on every chain file -/
theorem nested_cache_answer_independent_of_earlier_lookups (d : Nat) (top : Bool)
    (before before' : List Op) (op : Op) :
    (run d top {} (before ++ [op])).getLast? = (run d top {} (before' ++ [op])).getLast? := by
  rw [nested_cache_order_free d top {} (sound_empty d top 0),
    nested_cache_order_free d top {} (sound_empty d top 0)]
  simp

/-- a conforming layout (a stream whose `/Length` is a member of an object stream whose
`/Length` is a plain object: 3 nested loads), looked up in both orders and again -/
example : run 2 true {} [.t, .a 2, .a 1, .b 1, .s 1, .clear, .b 1, .a 1, .t] =
    [some true, some true, some true, some true, some true, none, some true, some true, some true] := by
  decide

/-- at the edge: 16 nested loads are answered from a fresh reader, 17 are not -/
example : run 16 false {} [.a 1] = [some true] ∧ run 17 false {} [.a 1] = [some false] ∧
    run 15 true {} [.t] = [some true] ∧ run 16 true {} [.t] = [some false] := by decide

/-- beyond the limit, warm: neither the cached far end (`A 2`) nor the cached object stream
(`S 2`, opened through `B 2`) lets `A 1` through -/
example : run 17 false {} [.a 2, .a 1, .clear, .b 2, .a 1, .a 2, .a 1] =
    [some true, some false, none, some true, some false, some true, some false] := by decide

/-- **nested_cache_order_dependence_pinned_counterexample**: the cache rule of 129dd3d before
the repair (`XrefNest.Old`: `objCache` consulted before `len(r.loading)` is counted). With 17
nested loads — one more than the limit — the answer to `GetObject(A 1)` depended on what was
looked up before: an error on a fresh reader, found after `GetObject(A 2)` (whose chain of 16
fits and is cached, so that `A 1` needed only two loads). The repaired rule answers the
fresh reader's error both times. -/
theorem nested_cache_order_dependence_pinned_counterexample :
    Old.run 17 false {} [.a 1] = [some false] ∧
      Old.run 17 false {} [.a 2, .a 1] = [some true, some true] ∧
      run 17 false {} [.a 1] = [some false] ∧
      run 17 false {} [.a 2, .a 1] = [some true, some false] ∧
      cold 17 false (.a 1) = some false := by decide

end Tabula.C04NC
