import TabulaModel.Lemmas.Markdown
/-!
# C15 — Markdown output keeps table, heading and list structure intact

Theorems about `Model/Markdown.lean` (helper lemmas in `Lemmas/Markdown.lean`).  The reading
side (`gfmSplitRow`, `gfmTable`, `parseAtx`, `parseListLine`) is the specification; the writing
side mirrors the Go emitters.  Cells are arbitrary byte strings (any `Nat`s).  The theorems
named `…_any` hold for every cell content, backslashes included (a backslash in front of a pipe,
at the end of a cell, doubled): the reading spec takes `\|` for a literal pipe and every other
backslash for cell text, so the writers' `|` → `\|` is exactly invertible.  The older statements
with the hypothesis `NoBackslash` are kept (they are instances).
-/
namespace Tabula.C15
open Tabula.A1 (Str dec)
open Tabula.Markdown

/-- no cell of the table contains a backslash -/
def NoBackslash (t : List (List Str)) : Prop := ∀ r ∈ t, ∀ c ∈ r, 92 ∉ c

/-- `n` columns in every row -/
def Rect (n : Nat) (t : List (List Str)) : Prop := ∀ r ∈ t, r.length = n

/-! ## tables -/

/-- **table_roundtrip (every writer)**: a table of `n ≥ 1` columns whose cells are any byte
strings without backslash — empty cells, `|`, newlines included — rendered by writer `w`, is
read by a GFM reader as the same rows × columns, each cell being the writer's normalisation
of the source cell (`normCell w`: newline → space, the writer's CR rule, trimmed). -/
theorem table_roundtrip (w : Writer) (n : Nat) (hn : 1 ≤ n) (t : List (List Str)) (hne : t ≠ [])
    (hrect : Rect n t) (hbs : NoBackslash t) :
    gfmTable (render w t) = some (t.map (List.map (normCell w))) := by
  cases t with
  | nil => exact absurd rfl hne
  | cons hdr rows =>
    exact gfmTable_render w n hn hdr rows (hrect hdr (by simp))
      (fun r hr => hrect r (List.mem_cons_of_mem _ hr)) (hbs hdr (by simp))
      (fun r hr => hbs r (List.mem_cons_of_mem _ hr))

/-- the normalisation is "newline → space, trimmed" for every writer on cells without a
carriage return; with CR, pptx turns it into a space and htmldoc drops it (their code) -/
theorem normCell_noCR (w : Writer) (c : Str) (h : 13 ∉ c) : normCell w c = trim (nlToSpace c) := by
  have h13 : 13 ∉ nlToSpace c := by
    intro hc
    rcases mem_replaceByte _ _ _ _ hc with h1 | h1
    · simp at h1
    · exact h h1.1
  cases w with
  | model => rfl
  | docx => exact trim_trim _
  | odt => exact trim_trim _
  | xlsx => rfl
  | pptx => show trim (replaceByte 13 [32] (nlToSpace c)) = _; rw [replaceByte_absent _ _ _ h13]
  | html => show trim (replaceByte 13 [] (nlToSpace c)) = _; rw [replaceByte_absent _ _ _ h13]

theorem table_roundtrip_model (n : Nat) (hn : 1 ≤ n) (t : List (List Str)) (hne : t ≠ [])
    (hrect : Rect n t) (hbs : NoBackslash t) :
    gfmTable (render .model t) = some (t.map (List.map fun c => trim (nlToSpace c))) :=
  table_roundtrip .model n hn t hne hrect hbs

theorem table_roundtrip_xlsx (n : Nat) (hn : 1 ≤ n) (t : List (List Str)) (hne : t ≠ [])
    (hrect : Rect n t) (hbs : NoBackslash t) :
    gfmTable (render .xlsx t) = some (t.map (List.map fun c => trim (nlToSpace c))) :=
  table_roundtrip .xlsx n hn t hne hrect hbs

theorem table_roundtrip_pptx (n : Nat) (hn : 1 ≤ n) (t : List (List Str)) (hne : t ≠ [])
    (hrect : Rect n t) (hbs : NoBackslash t) :
    gfmTable (render .pptx t)
      = some (t.map (List.map fun c => trim (replaceByte 13 [32] (nlToSpace c)))) :=
  table_roundtrip .pptx n hn t hne hrect hbs

/-- htmldoc on a table of plain cells (rows of equal length, no spans).  The statement for tables
whose cells carry `colspan`/`rowspan` — `renderHtmlSpan` reading back as the table's grid — is
`table_roundtrip_html` in Props/C15Html.lean (it was the recorded finding
`C15/table-shape-merged-html` until fix 72cc329; the old writer is kept there as
`renderHtmlSpanOld` with its `_pinned_counterexample`s). -/
theorem table_roundtrip_html_plain (n : Nat) (hn : 1 ≤ n) (t : List (List Str)) (hne : t ≠ [])
    (hrect : Rect n t) (hbs : NoBackslash t) :
    gfmTable (render .html t)
      = some (t.map (List.map fun c => trim (replaceByte 13 [] (nlToSpace c)))) :=
  table_roundtrip .html n hn t hne hrect hbs

/-- docx and odt trim the cell themselves; reading back gives the same thing as for the others -/
theorem table_roundtrip_docx (n : Nat) (hn : 1 ≤ n) (t : List (List Str)) (hne : t ≠ [])
    (hrect : Rect n t) (hbs : NoBackslash t) :
    gfmTable (render .docx t) = some (t.map (List.map fun c => trim (nlToSpace c))) := by
  rw [table_roundtrip .docx n hn t hne hrect hbs]
  congr 1
  apply List.map_congr_left; intro r _
  apply List.map_congr_left; intro c _
  exact trim_trim _

theorem table_roundtrip_odt (n : Nat) (hn : 1 ≤ n) (t : List (List Str)) (hne : t ≠ [])
    (hrect : Rect n t) (hbs : NoBackslash t) :
    gfmTable (render .odt t) = some (t.map (List.map fun c => trim (nlToSpace c))) := by
  rw [table_roundtrip .odt n hn t hne hrect hbs]
  congr 1
  apply List.map_congr_left; intro r _
  apply List.map_congr_left; intro c _
  exact trim_trim _

/-- non-vacuity: a 2×2 table with a pipe, a newline, an empty and a padded cell, all writers -/
example : ∀ w : Writer,
    gfmTable (render w [[[97, 124, 98], [99, 10, 100]], [[], [32, 120, 32]]])
      = some [[[97, 124, 98], [99, 32, 100]], [[], [120]]] := by
  intro w; cases w <;> decide

/-- **rows_rectangular (every writer)**: every emitted line of a rectangular table — header,
separator, each data row — has the header's number of cells for a GFM reader. -/
theorem rows_rectangular (w : Writer) (n : Nat) (hn : 1 ≤ n) (t : List (List Str))
    (hrect : Rect n t) (hbs : NoBackslash t) :
    (∀ r ∈ t, (gfmSplitRow (renderRow w r)).length = n) ∧
      (gfmSplitRow (renderDelim w n)).length = n := by
  constructor
  · intro r hr
    have hne : r ≠ [] := by intro e; have := hrect r hr; rw [e] at this; simp at this; omega
    rw [gfmSplitRow_renderRow w r hne (hbs r hr), List.length_map, hrect r hr]
  · rw [gfmSplitRow_renderDelim w n hn, List.length_replicate]

/-! ### docx / odt: merged cells -/

def NoBackslashS (t : List (List SCell)) : Prop := ∀ r ∈ t, ∀ c ∈ r, 92 ∉ c.text

theorem spans_roundtrip_any (w : Writer) (hw : w ≠ .model) (hd : dashCell w = [32, 45, 45, 45, 32])
    (t : List (List SCell)) (hne : t ≠ []) (hn : 1 ≤ colCount t) :
    gfmTable (renderSpan w t) = some (t.map (gridRow w (colCount t))) := by
  cases t with
  | nil => exact absurd rfl hne
  | cons hdr rows =>
    have hle := rowCols_le_colCount (hdr :: rows)
    have h92 : ∀ r ∈ hdr :: rows, ∀ p ∈ spanPs w (colCount (hdr :: rows)) r, p.getLast? ≠ some 92 :=
      fun r _ => spanPs_end w _ r
    have h10 : ∀ r ∈ hdr :: rows, ∀ p ∈ spanPs w (colCount (hdr :: rows)) r, 10 ∉ p := fun r hr =>
      spanPs_no w _ r 10 (by decide) (fun c _ => preCell_noNl w _)
    have e : renderSpan w (hdr :: rows) =
        (124 :: rowBody (spanPs w (colCount (hdr :: rows)) hdr)) ++ 10 ::
          ((124 :: rowBody (List.replicate (colCount (hdr :: rows)) (dashCell w))) ++ 10 ::
            ((rows.map (spanPs w (colCount (hdr :: rows)))).map fun ps => 124 :: rowBody ps).flatMap
              fun l => l ++ [10]) := by
      have hn0 : colCount (hdr :: rows) ≠ 0 := by omega
      simp only [renderSpan, hn0, if_false, renderSpanRow_eq, delimPipe_eq w hw]
      have : (rows.flatMap fun r => 124 :: rowBody (spanPs w (colCount (hdr :: rows)) r) ++ [10])
          = ((rows.map (spanPs w (colCount (hdr :: rows)))).map fun ps => 124 :: rowBody ps).flatMap
              fun l => l ++ [10] := by
        rw [List.map_map]
        exact flatMap_lines (fun r => 124 :: rowBody (spanPs w (colCount (hdr :: rows)) r)) rows
      rw [this]; simp
    rw [e, gfmTable_psLines_end (colCount (hdr :: rows)) hn _ (dashCell w) _
      (length_spanPs w _ hdr (hle hdr (by simp)))]
    · simp [map_trim_spanPs]
    · intro ps hps
      rcases List.mem_map.mp hps with ⟨r, hr, rfl⟩
      exact length_spanPs w _ r (hle r (List.mem_cons_of_mem _ hr))
    · rw [hd]; decide
    · rw [hd]; decide
    · rw [hd]; decide
    · exact h92 hdr (by simp)
    · exact h10 hdr (by simp)
    · intro ps hps
      rcases List.mem_map.mp hps with ⟨r, hr, rfl⟩
      exact h92 r (List.mem_cons_of_mem _ hr)
    · intro ps hps
      rcases List.mem_map.mp hps with ⟨r, hr, rfl⟩
      exact h10 r (List.mem_cons_of_mem _ hr)

theorem spans_roundtrip (w : Writer) (hw : w ≠ .model) (hd : dashCell w = [32, 45, 45, 45, 32])
    (t : List (List SCell)) (hne : t ≠ []) (hn : 1 ≤ colCount t) (_hbs : NoBackslashS t) :
    gfmTable (renderSpan w t) = some (t.map (gridRow w (colCount t))) :=
  spans_roundtrip_any w hw hd t hne hn

/-- **table_roundtrip with merged cells (docx)**: any rows of cells with any `ColSpan`
(values < 1 count as 1) and any vertical-merge continuations read back as the grid: each
cell's text at its first grid column, empty cells under the columns it spans and under
continuations, every row padded to the table's grid width. -/
theorem table_roundtrip_spans_docx (t : List (List SCell)) (hne : t ≠ []) (hn : 1 ≤ colCount t)
    (hbs : NoBackslashS t) :
    gfmTable (renderSpan .docx t) = some (t.map (gridRow .docx (colCount t))) :=
  spans_roundtrip .docx (by decide) rfl t hne hn hbs

theorem table_roundtrip_spans_odt (t : List (List SCell)) (hne : t ≠ []) (hn : 1 ≤ colCount t)
    (hbs : NoBackslashS t) :
    gfmTable (renderSpan .odt t) = some (t.map (gridRow .odt (colCount t))) :=
  spans_roundtrip .odt (by decide) rfl t hne hn hbs

/-- **rows_rectangular for merged cells** (F5 after the fix): whatever the spans, every row
line has exactly `colCount t` cells — and so has the separator. -/
theorem rows_rectangular_spans (w : Writer) (hw : w ≠ .model) (t : List (List SCell))
    (hbs : NoBackslashS t) :
    (∀ r ∈ t, (gfmSplitRow (renderSpanRow w (colCount t) r)).length = colCount t) ∧
      (gfmSplitRow (delimPipe (delimPiece w) (colCount t))).length = colCount t := by
  constructor
  · intro r hr
    rw [renderSpanRow_eq, gfmSplitRow_rowLine, List.length_map,
      length_spanPs w _ r (rowCols_le_colCount t r hr)]
    exact spanPs_no w _ r 92 (by decide) (fun c hc => preCell_noBs w _ (hbs r hr c hc))
  · rw [delimPipe_eq w hw, gfmSplitRow_rowLine, List.length_map, List.length_replicate]
    intro p hp
    rw [List.eq_of_mem_replicate hp]
    cases w <;> decide

/-- non-vacuity: a gridSpan=2 cell in the header and a vMerge continuation below it -/
example :
    gfmTable (renderSpan .docx [[⟨[65], 2, false⟩, ⟨[66], 1, false⟩], [⟨[], 1, true⟩, ⟨[120, 124], 1, false⟩]])
      = some [[[65], [], [66]], [[], [120, 124], []]] := by decide

/-- B14, the pinned `model.Table.ToMarkdown` (no escaping of `|`): the one-cell row `a|b`
reads back as two cells. -/
theorem model_pinned_pipe_counterexample :
    gfmSplitRow (renderRowModelPinned [[97, 124, 98]]) = [[97], [98]] := by decide

/-- F5, the pinned docx/odt row loop: a gridSpan=2 header cell in a 3-column table gives a
2-cell header line under a 3-cell separator — not a table for a GFM reader. -/
theorem docx_pinned_ragged_counterexample :
    (gfmSplitRow (renderSpanRowPinned .docx 3 [⟨[65], 2, false⟩, ⟨[66], 1, false⟩])).length = 2 ∧
    (gfmSplitRow (delimPipe (delimPiece .docx) 3)).length = 3 := by decide

/-- F5, pinned: a vertical-merge continuation in column 0 shifts the row's text one column left -/
theorem docx_pinned_shift_counterexample :
    gfmSplitRow (renderSpanRowPinned .docx 2 [⟨[], 1, true⟩, ⟨[120], 1, false⟩]) = [[120], []] := by decide

/-! ### cells of ANY bytes: backslashes too -/

/-- **table_roundtrip_any (every writer, every cell content)**: a table of `n ≥ 1` columns whose
cells are ANY byte strings — `|`, newlines, empty cells, and backslashes wherever they stand: in
front of a pipe (`^(yes\|no)$`), at the end of a cell (`C:\`), doubled — rendered by writer `w`,
is read by a GFM reader as the same rows × columns of the writer's normalised cell texts.  No
hypothesis on the cell content is left. -/
theorem table_roundtrip_any (w : Writer) (n : Nat) (hn : 1 ≤ n) (t : List (List Str)) (hne : t ≠ [])
    (hrect : Rect n t) :
    gfmTable (render w t) = some (t.map (List.map (normCell w))) := by
  cases t with
  | nil => exact absurd rfl hne
  | cons hdr rows =>
    exact gfmTable_render_any w n hn hdr rows (hrect hdr (by simp))
      (fun r hr => hrect r (List.mem_cons_of_mem _ hr))

/-- `model.Table.ToMarkdown` (also the table chunks of the PDF / RAG pipeline) -/
theorem table_roundtrip_model_any (n : Nat) (hn : 1 ≤ n) (t : List (List Str)) (hne : t ≠ [])
    (hrect : Rect n t) :
    gfmTable (render .model t) = some (t.map (List.map fun c => trim (nlToSpace c))) :=
  table_roundtrip_any .model n hn t hne hrect

/-- every writer on cells without a carriage return: newline → space, trimmed, nothing else -/
theorem table_roundtrip_noCR_any (w : Writer) (n : Nat) (hn : 1 ≤ n) (t : List (List Str)) (hne : t ≠ [])
    (hrect : Rect n t) (hcr : ∀ r ∈ t, ∀ c ∈ r, 13 ∉ c) :
    gfmTable (render w t) = some (t.map (List.map fun c => trim (nlToSpace c))) := by
  rw [table_roundtrip_any w n hn t hne hrect]
  congr 1
  apply List.map_congr_left; intro r hr
  apply List.map_congr_left; intro c hc
  exact normCell_noCR w c (hcr r hr c hc)

theorem rows_rectangular_any (w : Writer) (n : Nat) (hn : 1 ≤ n) (t : List (List Str))
    (hrect : Rect n t) :
    (∀ r ∈ t, (gfmSplitRow (renderRow w r)).length = n) ∧
      (gfmSplitRow (renderDelim w n)).length = n := by
  constructor
  · intro r hr
    have hne : r ≠ [] := by intro e; have := hrect r hr; rw [e] at this; simp at this; omega
    rw [gfmSplitRow_renderRow_any w r hne, List.length_map, hrect r hr]
  · rw [gfmSplitRow_renderDelim w n hn, List.length_replicate]

theorem table_roundtrip_spans_docx_any (t : List (List SCell)) (hne : t ≠ []) (hn : 1 ≤ colCount t) :
    gfmTable (renderSpan .docx t) = some (t.map (gridRow .docx (colCount t))) :=
  spans_roundtrip_any .docx (by decide) rfl t hne hn

theorem table_roundtrip_spans_odt_any (t : List (List SCell)) (hne : t ≠ []) (hn : 1 ≤ colCount t) :
    gfmTable (renderSpan .odt t) = some (t.map (gridRow .odt (colCount t))) :=
  spans_roundtrip_any .odt (by decide) rfl t hne hn

theorem rows_rectangular_spans_any (w : Writer) (hw : w ≠ .model) (t : List (List SCell)) :
    (∀ r ∈ t, (gfmSplitRow (renderSpanRow w (colCount t) r)).length = colCount t) ∧
      (gfmSplitRow (delimPipe (delimPiece w) (colCount t))).length = colCount t :=
  by
  constructor
  · intro r hr
    rw [renderSpanRow_eq, gfmSplitRow_rowLine_end, List.length_map,
      length_spanPs w _ r (rowCols_le_colCount t r hr)]
    exact spanPs_end w _ r
  · rw [delimPipe_eq w hw, gfmSplitRow_rowLine, List.length_map, List.length_replicate]
    intro p hp
    rw [List.eq_of_mem_replicate hp]
    cases w <;> decide

/-- non-vacuity: `^(a\|b)`-like cells — a backslash in front of a pipe, a cell that is one
backslash, two backslashes in front of a pipe, a backslash at the end of a cell next to a cell that
is one pipe — through every writer -/
example : ∀ w : Writer,
    gfmTable (render w [[[97, 92, 124, 98], [92]], [[92, 92, 124], [124]], [[120, 92], [124, 92]]])
      = some [[[97, 92, 124, 98], [92]], [[92, 92, 124], [124]], [[120, 92], [124, 92]]] := by
  intro w; cases w <;> decide

/-- an escaper that "avoids double escaping": a pipe that already follows a backslash gets no
backslash of its own (`prev` = the byte before) -/
def escPipeSkip (prev : Nat) : Str → Str
  | [] => []
  | c :: s => (if c = 124 ∧ prev ≠ 92 then [92, 124] else [c]) ++ escPipeSkip c s

/-- such an escaper agrees with `escPipe` on every cell without the sequence backslash + pipe — -/
theorem escPipeSkip_eq_of_noBs (prev : Nat) (s : Str) (hp : prev ≠ 92) (h : 92 ∉ s) :
    escPipeSkip prev s = escPipe s := by
  induction s generalizing prev with
  | nil => rfl
  | cons c s ih =>
    have hc : c ≠ 92 := fun e => h (by simp [e])
    have hs : 92 ∉ s := fun e => h (List.mem_cons_of_mem _ e)
    by_cases h1 : c = 124
    · subst h1; rw [escPipe_cons_pipe, escPipeSkip, ih _ hc hs]; simp [hp]
    · rw [escPipe_cons_ne _ _ h1, escPipeSkip, ih _ hc hs]; simp [h1]

/-- — and loses the source backslash where the sequence occurs: the cell `a\|b` is written as it
stands and read back as `a|b`, while `escPipe` writes `a\\|b`, which reads back as `a\|b`. -/
theorem skip_escaped_pipe_counterexample :
    gfmSplitRow (rowModel [escPipeSkip 0 [97, 92, 124, 98]]) = [[97, 124, 98]] ∧
      gfmSplitRow (renderRow .model [[97, 92, 124, 98]]) = [[97, 92, 124, 98]] := by decide

/-! ## headings -/

/-- the level is always a valid ATX level, for all integers (any source level, any offset,
any maximum including "unset" ≤ 0) -/
theorem heading_level_range (level offset max : Int) :
    1 ≤ headingLevel level offset max ∧ headingLevel level offset max ≤ 6 := by
  unfold headingLevel
  simp only
  split <;> split <;> split <;> split <;> omega

/-- **heading_level_clamped**: for a source level ≥ 1 and a configured maximum ≥ 1 the level is
`clamp (level + offset) 1 (min max 6)` -/
theorem heading_level_clamped (level offset max : Int) (hl : 1 ≤ level) (hm : 1 ≤ max) :
    headingLevel level offset max = Max.max 1 (Min.min (level + offset) (Min.min max 6)) := by
  unfold headingLevel
  simp only
  split <;> split <;> split <;> split <;> omega

/-- with the maximum unset (0) only the 1..6 clamp applies -/
theorem heading_level_nomax (level offset : Int) (hl : 1 ≤ level) :
    headingLevel level offset 0 = Max.max 1 (Min.min (level + offset) 6) := by
  unfold headingLevel
  simp only
  split <;> split <;> split <;> split <;> omega

/-- the RAG chunk writer: same clamp when the configured maximum is in 1..6 (the property's
quantifier) and the chunk has an explicit level -/
theorem heading_level_rag_clamped (level offset max : Int) (hl : 1 ≤ level) (hm : 1 ≤ max) (hm6 : max ≤ 6) :
    headingLevelRag level offset max = Max.max 1 (Min.min (level + offset) (Min.min max 6)) := by
  unfold headingLevelRag
  simp only
  split <;> split <;> split <;> split <;> omega

/-- the chunk writer too gives a valid ATX level for all integers (any explicit or missing level,
any offset, any maximum including "unset") — since the fix that added its cap at 6 -/
theorem heading_level_rag_range (level offset max : Int) :
    1 ≤ headingLevelRag level offset max ∧ headingLevelRag level offset max ≤ 6 := by
  unfold headingLevelRag
  simp only
  split <;> split <;> split <;> split <;> omega

/-- the chunk writer's arithmetic is `AdjustHeadingLevel` on the explicit level (a missing level,
0, counts as 2): the same clamp for every maximum, also above 6 and unset -/
theorem heading_level_rag_eq (level offset max : Int) (hl : 0 ≤ level) :
    headingLevelRag level offset max = headingLevel (if level = 0 then 2 else level) offset max := by
  by_cases h0 : level = 0
  · subst h0
    unfold headingLevelRag headingLevel
    simp only [if_true]
    have : ¬ ((2 : Int) < 1) := by omega
    simp only [this, if_false]
  · have h1 : ¬ level < 1 := by omega
    unfold headingLevelRag headingLevel
    simp only [h0, h1, if_false]

theorem heading_level_rag_clamped_all (level offset max : Int) (hl : 1 ≤ level) (hm : 1 ≤ max) :
    headingLevelRag level offset max = Max.max 1 (Min.min (level + offset) (Min.min max 6)) := by
  unfold headingLevelRag
  simp only
  split <;> split <;> split <;> split <;> omega

theorem heading_level_rag_nomax (level offset : Int) (hl : 1 ≤ level) :
    headingLevelRag level offset 0 = Max.max 1 (Min.min (level + offset) 6) := by
  unfold headingLevelRag
  simp only
  split <;> split <;> split <;> split <;> omega

example : headingLevel 3 7 4 = 4 ∧ headingLevel 2 (-2) 6 = 1 ∧ headingLevel 6 7 0 = 6 := by decide

/-- **atx_roundtrip**: an emitted heading line of level 1..6 is an ATX heading of that level
with that text -/
theorem atx_roundtrip (level : Nat) (text : Str) (h1 : 1 ≤ level) (h6 : level ≤ 6) :
    parseAtx (atxLine level text) = some (level, text) := by
  unfold parseAtx atxLine
  have ht : (List.replicate level 35 ++ 32 :: text).takeWhile (· == 35) = List.replicate level 35 := by
    rw [takeWhile_replicate_append _ _ _ _ (by decide)]; simp
  have hd : (List.replicate level 35 ++ 32 :: text).dropWhile (· == 35) = 32 :: text := by
    rw [dropWhile_replicate_append _ _ _ _ (by decide)]; simp
  simp only [ht, hd, List.length_replicate]
  simp [h1, h6]

/-- what the readers' Markdown writes for a heading is an ATX heading of the clamped level -/
theorem heading_emitted_roundtrip (level offset max : Int) (text : Str) :
    parseAtx (atxLine (headingLevel level offset max).toNat text)
      = some ((headingLevel level offset max).toNat, text) := by
  have h := heading_level_range level offset max
  exact atx_roundtrip _ _ (by omega) (by omega)

/-- seven `#` are not a heading (what an unclamped level would produce) -/
theorem atx_level7_counterexample : parseAtx (atxLine 7 [120]) = none := by decide

/-! ## lists -/

/-- **list_roundtrip** (one item): depth, kind and text are recovered from the emitted line,
for any depth, any number, any text -/
theorem list_line_roundtrip (it : Item) :
    parseListLine (listLine it) = some (it.depth, it.ordered, it.text) := by
  have h2 : 2 * it.depth / 2 = it.depth := by omega
  unfold listLine
  cases hO : it.ordered with
  | false =>
    have := parse_unordered (2 * it.depth) it.text
    rw [h2] at this
    simpa using this
  | true =>
    have := parse_ordered (2 * it.depth) it.num it.text
    rw [h2] at this
    simpa using this

/-- **list_roundtrip**: the emitted lines, in order, give back every item's depth,
ordered/unordered kind and text — so order, nesting depth and kind survive for any nesting -/
theorem list_roundtrip (items : List Item) :
    (listLines items).map parseListLine = items.map fun it => some (it.depth, it.ordered, it.text) := by
  unfold listLines
  rw [List.map_map]
  apply List.map_congr_left
  intro it _
  exact list_line_roundtrip it

/-- …and the lines are recovered from the emitted text when no item text contains a newline -/
theorem list_text_lines (items : List Item) (h : ∀ it ∈ items, 10 ∉ it.text) :
    splitLines ((listLines items).flatMap fun l => l ++ [10]) = listLines items ++ [[]] := by
  apply splitLines_rows
  intro l hl
  unfold listLines at hl
  rcases List.mem_map.mp hl with ⟨it, hit, rfl⟩
  unfold listLine
  intro hc
  simp only [List.mem_append] at hc
  rcases hc with (hc | hc) | hc
  · have := List.eq_of_mem_replicate hc; omega
  · split at hc
    · rcases List.mem_append.mp hc with h1 | h1
      · have := dec_digits it.num 10 h1; simp [isDigit] at this
      · simp at h1
    · simp at hc
  · exact h it hit hc

example : parseListLine (listLine ⟨3, true, 12, [104, 105]⟩) = some (3, true, [104, 105]) :=
  list_line_roundtrip _

/-- a mutant that writes ordered items with `-` loses the kind -/
theorem ordered_as_dash_counterexample :
    parseListLine (listLine ⟨0, false, 1, [120]⟩) ≠ some (0, true, [120]) := by decide

end Tabula.C15
