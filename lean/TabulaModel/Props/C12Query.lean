import TabulaModel.Lemmas.ChunkColl
import TabulaModel.Lemmas.ChunkLayoutTitle
/-!
# C12: the chunks of a document through any history of reads of the collection

The clauses of C12 speak about the chunks of a document, and those are what the caller holds for as
long as he holds the `ChunkCollection`. `Model/ChunkColl.lean` models the collection's methods as
functions of the collection (`Filter`, `FilterBy…`, `FilterWith…`, `Search`, a hand-made
sub-collection, `GetByIndex`, `GetByID`, `First`, `Last`, `Count`, `GetPageRange`,
`GetAllSections`, `GetTotalTokens`) and a history of such calls, some applied to the result of an
earlier call (`runHistory`). Proved for all collections, histories, documents and configurations:

* `filter_is_filter`, `query_result_sublist`: a query selects, in order, members of the collection it
  is applied to;
* `history_invariant`: after any history every collection the caller holds is a sub-sequence of the
  collection the chunker returned, that collection is still the first one he holds, no collection he
  held before has changed, and every chunk handed out is a chunk of the document;
* `sublist_keeps_clauses`: a sub-sequence of a chunker's collection has strictly increasing indices
  and pairwise distinct ids, and every member still reports the `n` of the document and *is* chunk
  number `ChunkIndex` of the document — index, id, total, page range, section path and text as the
  chunker made them;
* `element_history_property`, `layout_history_property`: the two chained for both chunkers;
* `get_by_index_true`, `get_by_id_true`, `get_by_id_sub`: `GetByIndex(i)` is the chunk with
  `ChunkIndex == i`, `GetByID` of a chunk's id is that chunk, on the collection and on every result;
* `by_page_exact`: `FilterByPage(p)` on the element-based chunker's collection is exactly the chunks
  made from the pages numbered `p`;
* `layout_title_true`: `SectionTitle` of a chunk of `Chunker.Chunk` is its section's heading.
-/
namespace Tabula.C12Query
open Tabula.Chunk Tabula.ChunkMeta Tabula.ChunkColl

/-- **`Filter` is `List.filter`**: the append loop of `(*ChunkCollection).Filter` keeps exactly the
members that satisfy the predicate, in their order. -/
theorem filter_is_filter (p : QChunk → Bool) (cs : List QChunk) : filterC p cs = cs.filter p := filterC_eq p cs

/-- **Every query yields a sub-sequence** of the collection it is applied to (`FilterBy…`,
`FilterWith…`, `Search`, `Filter(predicate)`, a slice of `ToSlice()`), chosen by the method's
predicate. -/
theorem query_result_sublist (q : Query) (cs : List QChunk) :
    (applyQuery q cs).Sublist cs ∧ ((∀ a b, q ≠ .slice a b) → applyQuery q cs = cs.filter (queryPred q)) :=
  ⟨applyQuery_sublist q cs, applyQuery_filter q cs⟩

/-- page 2 of three chunks on pages 1, 2, 2; then the second of the result -/
example :
    let mk (i : Nat) (p : Int) : QChunk := ⟨⟨i, chunkId i, [120], [], p, p, 3⟩, [], [], false, false, false, 0⟩
    let base := [mk 0 1, mk 1 2, mk 2 2]
    ((runHistory base [⟨0, .query (.byPage 2)⟩, ⟨1, .read (.getByIndex 1)⟩]).1.map fun cs => cs.map (·.c.idx)) =
      [[0, 1, 2], [1, 2]] := by decide +kernel

/-- **History invariant.** Whatever reads are made and in whatever order, on the chunker's
collection or on earlier results: (1) every collection held afterwards is a sub-sequence of the
chunker's collection `base`; (2) `base` is still the first collection held, unchanged; (3) every
result — a collection or a single chunk — consists of chunks of `base`. (`history_prefix`: what was
held after a part of the history is held, unchanged, after all of it.) -/
theorem history_invariant (base : List QChunk) (steps : List Step) :
    (∀ cs ∈ (runHistory base steps).1, cs.Sublist base) ∧
    (runHistory base steps).1.head? = some base ∧
    [base] <+: (runHistory base steps).1 ∧
    ∀ r ∈ (runHistory base steps).2, ResultOK base r := by
  have h0 : ∀ cs ∈ ([base] : Store), cs.Sublist base := by
    intro cs hcs
    simp only [List.mem_singleton] at hcs
    subst hcs
    exact List.Sublist.refl _
  obtain ⟨h1, h2, h3⟩ := runStore_ok base [base] h0 steps
  exact ⟨h1, runStore_head base [] steps, h2, h3⟩

/-- a longer history extends a shorter one: what the caller held after the first `k` reads he
holds, unchanged, after all of them -/
theorem history_prefix (base : List QChunk) (s1 s2 : List Step) :
    (runHistory base s1).1 <+: (runHistory base (s1 ++ s2)).1 := by
  unfold runHistory
  generalize ([base] : Store) = store
  induction s1 generalizing store with
  | nil =>
    have h0 : ∀ cs ∈ store, cs.Sublist cs := fun cs _ => List.Sublist.refl _
    simp only [runStore, List.nil_append]
    -- the store only grows
    clear h0
    induction s2 generalizing store with
    | nil => exact List.prefix_refl _
    | cons s rest ih =>
      simp only [runStore]
      refine List.IsPrefix.trans ?_ (ih _)
      unfold stepStore
      cases s.op with
      | query q => exact List.prefix_append _ _
      | read r => exact List.prefix_refl _
  | cons s rest ih => simp only [runStore, List.cons_append]; exact ih _

/-- **What a sub-sequence of a chunker's collection keeps.** `b` is the collection directly behind
the chunker call (indices `0..n-1`, ids `idOf index` with `idOf` injective, total `n`). Every
sub-sequence `cs` of it has strictly increasing indices, pairwise distinct ids, and every member
reports `n` and is the chunk of the document with its index (so index, id, total, page range,
section path and text are the document's). -/
theorem sublist_keeps_clauses (idOf : Nat → Str) (hinj : ∀ a b, idOf a = idOf b → a = b) (b cs : List QChunk)
    (hb : BaseOK idOf b) (hs : cs.Sublist b) :
    (cs.map (·.c.idx)).Pairwise (· < ·) ∧ (cs.map (·.c.id)).Nodup ∧
    ∀ q ∈ cs, q.c.total = b.length ∧ b[q.c.idx]? = some q :=
  sub_facts hinj hb hs

/-- `BaseOK` is satisfiable -/
example : BaseOK chunkId [⟨⟨0, chunkId 0, [120], [], 1, 1, 2⟩, [], [], false, false, false, 0⟩,
    ⟨⟨1, chunkId 1, [121], [], 1, 1, 2⟩, [], [], false, false, false, 0⟩] :=
  ⟨by decide, by intro q hq; simp only [List.mem_cons, List.not_mem_nil, or_false] at hq; rcases hq with rfl | rfl <;> rfl,
   by intro q hq; simp only [List.mem_cons, List.not_mem_nil, or_false] at hq; rcases hq with rfl | rfl <;> rfl⟩

/-- **Element-based chunker, any history of reads.** For every size configuration, document and
history: every collection the caller holds afterwards consists of chunks of the document in index
order without repetition, with pairwise distinct ids, each still reporting the `n` of the document
and each identical to chunk `ChunkIndex` of `ChunkDocumentWithConfig(doc)`; every single chunk
handed out is such a chunk; and the collection the chunker returned is still held, unchanged. -/
theorem element_history_property (c : Tabula.Split.SizeConfig) (d : Doc) (steps : List Step) :
    let base := elementColl c d
    (runHistory base steps).1.head? = some base ∧
    (∀ cs ∈ (runHistory base steps).1,
      cs.Sublist base ∧ (cs.map (·.c.idx)).Pairwise (· < ·) ∧ (cs.map (·.c.id)).Nodup ∧
      ∀ q ∈ cs, q.c.total = base.length ∧ base[q.c.idx]? = some q) ∧
    ∀ r ∈ (runHistory base steps).2, ResultOK base r := by
  intro base
  obtain ⟨h1, h2, _, h5⟩ := history_invariant base steps
  refine ⟨h2, fun cs hcs => ⟨h1 cs hcs, ?_⟩, h5⟩
  exact sub_facts (fun a b h => chunkId_injective h) (elementColl_base c d) (h1 cs hcs)

open Tabula.ChunkLayout in
/-- **Layout-based chunker, any history of reads** on `NewChunkCollection(chunker.Chunk(doc).Chunks)`:
the same, for every configuration, document and sentence parameter. -/
theorem layout_history_property (low : Str → Bool) (cfg : Cfg) (title : Str) (d : LDoc) (steps : List Step) :
    let base := layoutColl low cfg title d
    (runHistory base steps).1.head? = some base ∧
    (∀ cs ∈ (runHistory base steps).1,
      cs.Sublist base ∧ (cs.map (·.c.idx)).Pairwise (· < ·) ∧ (cs.map (·.c.id)).Nodup ∧
      ∀ q ∈ cs, q.c.total = base.length ∧ base[q.c.idx]? = some q) ∧
    ∀ r ∈ (runHistory base steps).2, ResultOK base r := by
  intro base
  obtain ⟨h1, h2, _, h5⟩ := history_invariant base steps
  refine ⟨h2, fun cs hcs => ⟨h1 cs hcs, ?_⟩, h5⟩
  exact sub_facts (fun a b h => layoutId_injective cfg h) (layoutColl_base low cfg title d) (h1 cs hcs)

/-- **`GetByIndex(i)` is the chunk with `ChunkIndex == i`** on the collection a chunker returned. -/
theorem get_by_index_true (idOf : Nat → Str) (b : List QChunk) (hb : BaseOK idOf b) (i : Int) (q : QChunk)
    (h : getByIndex b i = some q) : (q.c.idx : Int) = i := by
  obtain ⟨h0, hq⟩ := getByIndex_some b i q h
  have := base_get hb i.toNat q hq
  omega

/-- **`GetByID` finds the chunk with that id** — on the chunker's collection and on every
sub-sequence of it (`cs`): the answer is a member with the id, and every member is found by its id. -/
theorem get_by_id_true (idOf : Nat → Str) (hinj : ∀ a b, idOf a = idOf b → a = b) (b cs : List QChunk)
    (hb : BaseOK idOf b) (hs : cs.Sublist b) (id : Str) (q : QChunk) :
    getByID id cs = some q ↔ q ∈ cs ∧ q.c.id = id :=
  ⟨fun h => getByID_some id cs q h,
   fun h => getByID_of_nodup id cs (sub_facts hinj hb hs).2.1 q h.1 h.2⟩

/-- on the element-based chunker's collection: `GetByID("chunk-<i>")` is chunk `i` -/
theorem get_by_id_sub (c : Tabula.Split.SizeConfig) (d : Doc) (i : Nat) (q : QChunk)
    (h : (elementColl c d)[i]? = some q) : getByID (chunkId i) (elementColl c d) = some q := by
  have hb := elementColl_base c d
  have hi := base_get hb i q h
  apply (get_by_id_true chunkId (fun a b h => chunkId_injective h) _ _ hb (List.Sublist.refl _) _ q).mpr
  refine ⟨List.mem_of_getElem? h, ?_⟩
  rw [hb.id q (List.mem_of_getElem? h), hi]

/-- **`FilterByPage(p)` on the element-based chunker's collection is the chunks of the pages
numbered `p`**: the groups of exactly those pages (`pageGroups`, one group per page in page order),
concatenated, each chunk with the total of the whole document. Any splitter, any document. -/
theorem by_page_exact (sp : Splitter) (d : Doc) (p : Int) :
    (chunkDocument sp d).filter (onPage p) =
      ((d.zip (pageGroups stackTracker sp d)).filter fun x => x.1.number == p).flatMap
        fun x => x.2.map (stamp (chunkDocument sp d).length) := by
  have hm := (chunkPages_m stackTracker sp (tableOfContents d) (initSt stackTracker) d).1
  have hcd : chunkDocument sp d =
      (pageGroups stackTracker sp d).flatten.map (stamp (pageGroups stackTracker sp d).flatten.length) := rfl
  have hl : (chunkDocument sp d).length = (pageGroups stackTracker sp d).flatten.length := by
    rw [hcd, List.length_map]
  rw [hl, hcd]
  exact filter_pages _ p d _ hm

/-- … and that is what the collection's `FilterByPage` computes -/
theorem by_page_query (c : Tabula.Split.SizeConfig) (d : Doc) (p : Int) :
    (applyQuery (.byPage p) (elementColl c d)).map (·.c) = (Tabula.ChunkSplit.chunkDocumentC c d).filter (onPage p) := by
  rw [← elementColl_c, applyQuery_filter _ _ (fun a b h => by cases h), List.filter_map]
  rfl

/-- pages 4 and 9: `FilterByPage(9)` gives the two chunks of page 9 -/
example :
    ((chunkDocument (fun _ => none) [⟨4, none, [.para [120]]⟩, ⟨9, none, [.heading 1 [97], .para [121]]⟩]).filter
      (onPage 9)).map (fun c => (c.idx, c.total, c.text)) = [(1, 3, [97]), (2, 3, [121])] := by decide +kernel

open Tabula.ChunkLayout in
/-- **`SectionTitle` of the layout-based chunker's chunks** (`layoutTitle`): every section
`buildSections` makes has the last entry of its `Path` as its `Title`, and every chunk of a
section's group carries that `Path`; so for every section `x` and every chunk `c` with
`c.path = x.1.path`, the last entry of the chunk's path is the section's title. -/
theorem layout_title_true (cfg : Cfg) (d : LDoc) (x : SecInfo × List CE) (hx : x ∈ flatForest (buildSections cfg d))
    (c : Chunk) (hc : c.path = x.1.path) : titleOf c.path = x.1.title := by
  rw [hc]; exact (buildSections_shape cfg d x hx).1.symm

end Tabula.C12Query
