import TabulaModel.Model.Detect
import TabulaModel.Gen.DetectTable
/-!
# C20 — regenerated tie: the extension table

`Gen/DetectTable.lean` is rewritten from the extension switch of package format on every check run.
-/
namespace Tabula.C20
open Tabula.Detect Tabula.Gen.Tables

/-- the format a `return X` of `format.Detect` names -/
def formatOfName (s : String) : Option Format :=
  if s = "PDF" then some .pdf else if s = "DOCX" then some .docx else if s = "ODT" then some .odt
  else if s = "XLSX" then some .xlsx else if s = "PPTX" then some .pptx else if s = "HTML" then some .html
  else if s = "EPUB" then some .epub else if s = "Unknown" then some .unknown else none

/-- every case label of the source's switch is mapped by the model to the format the source
returns for it -/
theorem ext_table_regenerated :
    detectExtCasesB.all (fun c => c.1.all fun lit => formatOfName c.2 == some (extTable lit)) = true := by
  decide

/-- … and the source has exactly the eight extensions the model knows -/
theorem ext_table_labels_regenerated :
    detectExtCasesB.flatMap (·.1) =
      [dotPdf, dotDocx, dotOdt, dotXlsx, dotPptx, dotHtml, dotHtm, dotEpub] := by decide

end Tabula.C20
