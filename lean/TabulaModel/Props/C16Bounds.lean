import TabulaModel.Lemmas.Docx
import TabulaModel.Lemmas.Odt
import TabulaModel.Model.DocxRender
import TabulaModel.Props.C16
/-!
# C16 — the resource bounds of the DOCX and ODT readers

The readers limit four things (repairs made for the property "no input can crash, hang or
exhaust the process"); the models carry them with the same constants and comparisons:

* `maxInlineDepth` = 10000 — inline containers of a paragraph (`w:ins`, `w:sdt`, `w:hyperlink`, …;
  `text:span`, `text:a`): `decodeContent` / `decodeInlineContentAt` are entered with `depth+1`
  and begin with `if depth > maxInlineDepth { error }`. DOCX: `docx.Open` fails. ODT: `odt.Open`
  fails, too (before the repair the element was dropped and the body walk ended, silently, at the
  end of the paragraph the decoder gave up in: the `…_pinned_counterexample` theorems).
* `maxSpaceRun` = 1024 — `<text:s text:c="N"/>`: `if count > maxSpaceRun { count = maxSpaceRun }`.
* `maxTableGridCells` = 2^20 — `limitTableGrid`: spans are believed only if
  `len(rows) <= maxTableGridCells / cols`; otherwise every cell is 1 x 1. The same constant
  bounds the columns an ODT table DECLARES (`ToModelTable`: believed only while rows x declared
  columns ≤ 2^20) - `Props/C16RenderOdt.lean`: `odt_grid_declared_within` / `_beyond`,
  `odt_model_grid_bounded`, `odt_model_grid_bounded_authored`.
* `maxCellSpan` = 1024, `maxListLevel` = 8 — in `Props/C16.lean` (`docx_span_bounded`,
  `odt_span_bounded`, `odt_columns_bounded`, `list_level_bounded`).

For each bound: what the reader answers beyond it, a bound on the work for EVERY input, and the
edge (bound, bound+1). The theorems of the other C16 files that no longer hold for all inputs
carry the bound as a hypothesis there; the characterisations here say what those hypotheses mean.
-/
namespace Tabula.C16Bounds
open Tabula.Xml

/-! ## inline containers: DOCX -/
section DocxDepth
open Tabula.Docx

/-- **docx_decode_within**. A paragraph whose inline containers nest at most 10000 deep is
decoded, and the runs `decodeContent` collects are `runsOfList` - the runs every other theorem
about paragraph text speaks of. -/
theorem docx_decode_within (kids : List Node) (h : nestList kids ≤ maxInlineDepth) :
    decodeList 0 kids = some (runsOfList kids) := by
  rw [decodeList_eq kids 0 (Nat.zero_le _)]
  simp [h]

/-- **docx_decode_beyond**. One level more and the paragraph is refused (the error
"inline containers nested deeper than 10000 levels"). -/
theorem docx_decode_beyond (kids : List Node) (h : nestList kids > maxInlineDepth) : decodeList 0 kids = none := by
  rw [decodeList_eq kids 0 (Nat.zero_le _)]
  have : ¬ (0 + nestList kids ≤ maxInlineDepth) := by omega
  rw [if_neg this]

/-- what the hypothesis of `docx_end_to_end` means for one paragraph -/
theorem docx_decodes_iff_depth (p : Node) : paraDecodes p = true ↔ nestList p.kids ≤ maxInlineDepth := by
  unfold paraDecodes
  rw [decodeList_eq p.kids 0 (Nat.zero_le _)]
  by_cases h : 0 + nestList p.kids ≤ maxInlineDepth
  · simp only [h, if_true, Option.isSome_some, true_iff]; omega
  · simp only [h, if_false, Option.isSome_none, Bool.false_eq_true, false_iff]; omega

/-- **docx_blocks_within / docx_blocks_beyond**. `decodeBlocks` (the body's and the cells'
`UnmarshalXML`): block containers (`w:sdt`, `w:sdtContent`, `w:customXml`) nested at most 10000
deep are looked through and the block level `blocksOfList` is what the callback is offered, in
document order; one level more and the error "block containers nested deeper than 10000
levels" is returned. -/
theorem docx_blocks_within (kids : List Node) (h : blockNestList kids ≤ maxInlineDepth) :
    decodeBlocksList 0 kids = some (blocksOfList kids) := by
  rw [decodeBlocksList_eq kids 0 (Nat.zero_le _)]
  simp [h]

theorem docx_blocks_beyond (kids : List Node) (h : blockNestList kids > maxInlineDepth) :
    decodeBlocksList 0 kids = none := by
  rw [decodeBlocksList_eq kids 0 (Nat.zero_le _)]
  have : ¬ (0 + blockNestList kids ≤ maxInlineDepth) := by omega
  rw [if_neg this]

/-- … and for the document: `Open` succeeds exactly when every paragraph `xml.Unmarshal`
decodes stays within the depth bound, and so do the block containers of the body and of every
cell it decodes -/
theorem docx_open_iff_depth (doc : Node) :
    documentDecodes doc = true ↔
      (∀ ks ∈ decodedScopes doc, blockNestList ks ≤ maxInlineDepth) ∧
      (∀ p ∈ decodedParas doc, nestList p.kids ≤ maxInlineDepth) := by
  unfold documentDecodes
  rw [Bool.and_eq_true, List.all_eq_true, List.all_eq_true]
  constructor
  · intro h
    exact ⟨fun ks hk => (blocksDecode_iff ks).mp (h.1 ks hk), fun p hp => (docx_decodes_iff_depth p).mp (h.2 p hp)⟩
  · intro h
    exact ⟨fun ks hk => (blocksDecode_iff ks).mpr (h.1 ks hk), fun p hp => (docx_decodes_iff_depth p).mpr (h.2 p hp)⟩

/-- **docx_open_within / docx_open_beyond / docx_open_beyond_blocks**: the element list `Open` leaves -/
theorem docx_open_within (doc : Node) (styles : Option Node)
    (hb : ∀ ks ∈ decodedScopes doc, blockNestList ks ≤ maxInlineDepth)
    (h : ∀ p ∈ decodedParas doc, nestList p.kids ≤ maxInlineDepth) :
    openElements doc styles = some (elements doc styles) := by
  unfold openElements
  rw [if_pos ((docx_open_iff_depth doc).mpr ⟨hb, h⟩)]

theorem docx_open_beyond (doc : Node) (styles : Option Node) (p : Node) (hp : p ∈ decodedParas doc)
    (h : nestList p.kids > maxInlineDepth) : openElements doc styles = none := by
  unfold openElements
  have : ¬ (documentDecodes doc = true) := by
    intro hd
    have := ((docx_open_iff_depth doc).mp hd).2 p hp
    omega
  rw [if_neg this]

/-- block containers nested deeper than 10000 in the body or in a decoded cell: `Open` fails -/
theorem docx_open_beyond_blocks (doc : Node) (styles : Option Node) (ks : List Node) (hk : ks ∈ decodedScopes doc)
    (h : blockNestList ks > maxInlineDepth) : openElements doc styles = none := by
  unfold openElements
  have : ¬ (documentDecodes doc = true) := by
    intro hd
    have := ((docx_open_iff_depth doc).mp hd).1 ks hk
    omega
  rw [if_neg this]

/-- the edge: 10000 nested `w:customXml` around a paragraph are looked through (the paragraph
is a block of the body), 10001 are refused -/
def wCustomXml : Str := [119, 58, 99, 117, 115, 116, 111, 109, 88, 109, 108]
def aPara : Node := .elem [119, 58, 112] [] [.elem [119, 58, 114] [] [.elem [119, 58, 116] [] [.text [65]]]]

example : decodeBlocksList 0 (wrapN wCustomXml 10000 [aPara]) = some [aPara]
    ∧ decodeBlocksList 0 (wrapN wCustomXml 10001 [aPara]) = none := by
  have hc : blockContainers.contains (localName wCustomXml) = true := by decide
  have hn : blockNestList [aPara] = 0 := by decide
  constructor
  · rw [docx_blocks_within _ (by rw [blockNest_wrapN wCustomXml hc, hn]; decide), blocks_wrapN wCustomXml hc]
    rfl
  · exact docx_blocks_beyond _ (by rw [blockNest_wrapN wCustomXml hc, hn]; decide)

/-- **docx_decode_depth_bounded** (bounded work, every input). `decodeContent` is never entered
with a depth above `maxInlineDepth + 1` = 10001 - the last one being the call that returns the
error at once -, however deep the containers of the paragraph nest. -/
theorem docx_decode_depth_bounded (kids : List Node) : reachList 0 kids ≤ maxInlineDepth + 1 :=
  reachList_le kids 0 (Nat.zero_le _)

/-- the edge: 10000 nested `w:ins` around a run are decoded (the run comes out), 10001 are refused -/
def wIns : Str := [119, 58, 105, 110, 115]
def aRun : Node := .elem [119, 58, 114] [] [.elem [119, 58, 116] [] [.text [65]]]

example : decodeList 0 (wrapN wIns 10000 [aRun]) = some [aRun] ∧ decodeList 0 (wrapN wIns 10001 [aRun]) = none := by
  have hc : containers.contains (localName wIns) = true := by decide
  have hr : (localName wIns == sR) = false := by decide
  have hn : nestList [aRun] = 0 := by decide
  constructor
  · rw [docx_decode_within _ (by rw [nest_wrapN wIns hc hr, hn]; decide), runs_wrapN wIns hc hr]
    rfl
  · exact docx_decode_beyond _ (by rw [nest_wrapN wIns hc hr, hn]; decide)

/-- a header or footer part with a paragraph beyond the bound is left out (its text is empty);
within the bound its text is that of its paragraphs -/
theorem docx_part_beyond (root : Node) (p : Node) (hp : p ∈ childrenNamed root.kids sP)
    (h : nestList p.kids > maxInlineDepth) : partText root = [] := by
  unfold partText
  have : ¬ ((childrenNamed root.kids sP).all paraDecodes = true) := by
    intro ha
    rw [List.all_eq_true] at ha
    have := (docx_decodes_iff_depth p).mp (ha p hp)
    omega
  rw [if_neg this]

theorem docx_part_within (root : Node) (h : ∀ p ∈ childrenNamed root.kids sP, nestList p.kids ≤ maxInlineDepth) :
    partText root = joinWith [10] (((childrenNamed root.kids sP).map paraText).filter (· ≠ [])) := by
  unfold partText
  have : (childrenNamed root.kids sP).all paraDecodes = true := by
    rw [List.all_eq_true]
    intro p hp; exact (docx_decodes_iff_depth p).mpr (h p hp)
  rw [if_pos this]

end DocxDepth

/-! ## inline containers: ODT -/
section OdtDepth
open Tabula.Odt

/-- what `decodesList` (the hypothesis of `odt_body_interleave`, `odt_end_to_end`) means for a
paragraph or heading: its spans and links nest at most 10000 deep -/
theorem odt_decodes_iff_depth (p : Node) : paraDecodes p = true ↔ spanNestList p.kids ≤ maxInlineDepth := by
  unfold paraDecodes
  have h := residual_inline p.kids 0 (Nat.zero_le _)
  constructor
  · intro hn
    have : residualList (.inline 0) p.kids = none := by
      cases hr : residualList (.inline 0) p.kids with
      | none => rfl
      | some r => rw [hr] at hn; cases hn
    have := h.mp this
    omega
  · intro hle
    rw [h.mpr (by omega)]
    rfl

/-- **odt_inline_recursion_bounded** (bounded work, every input). `decodeInlineContentAt` goes
one level deeper only into a depth of at most `maxInlineDepth`: whatever the paragraph holds,
the recursion is at most 10000 calls deep below the paragraph's own (plus the refused one). -/
theorem odt_inline_recursion_bounded (d : Nat) (loc : Str) (c : Ctx) (h : descend (.inline d) loc = .into c) :
    c = .inline (d + 1) ∧ d + 1 ≤ maxInlineDepth := by
  simp only [descend] at h
  split at h
  · split at h
    · cases h
    · rename_i hle
      cases h
      exact ⟨rfl, by omega⟩
  · cases h

/-- **odt_gives_up**. RESTATED (was: the element is dropped, the walk reads on behind the refused
tag to the end of the paragraph and the loop ends there without an error). A `text:p` / `text:h`
of the body the decoder gives up in (its spans nest deeper than the bound: `decodes` is false)
is not recorded and `parseBodyElements` returns the depth error: nothing is added, the walk has
failed. -/
theorem odt_gives_up (defs : List StyleDef) (tag : Str) (attrs : List (Str × Str)) (kids : List Node) (w : Walk)
    (hb : w.inBody = true) (hd : w.failed = false) (ht : tag ≠ sOfficeText)
    (hp : localName tag = sP ∨ localName tag = sH)
    (hr : decodes (.inline 0) kids = false) :
    walkNode defs (.elem tag attrs kids) w = { w with failed := true } := by
  have hne : (tag == sOfficeText) = false := by
    cases h : tag == sOfficeText
    · rfl
    · exact absurd (by simpa using h) ht
  cases hp with
  | inl h =>
    simp only [walkNode, hne, hb, hd, h, hr, Bool.false_eq_true, if_false, Bool.not_true, BEq.rfl, if_true]
  | inr h =>
    have h1 : (sH == sP) = false := by decide
    simp only [walkNode, hne, hb, hd, h, h1, hr, Bool.false_eq_true, if_false, Bool.not_true, BEq.rfl, if_true]

/-- **odt_gives_up_in_block**. The same for a `text:list` or a `table:table` of the body one of
whose paragraphs (of an item, a nested list's item, a cell) nests its spans too deep: no item
and no table is recorded (not even the items and rows before that paragraph) and
`parseBodyElements` returns the depth error. -/
theorem odt_gives_up_in_block (defs : List StyleDef) (tag : Str) (attrs : List (Str × Str)) (kids : List Node) (w : Walk)
    (hb : w.inBody = true) (hd : w.failed = false) (ht : tag ≠ sOfficeText)
    (hp : (localName tag = sList ∧ decodes .list kids = false) ∨ (localName tag = sTable ∧ decodes .table kids = false)) :
    walkNode defs (.elem tag attrs kids) w = { w with failed := true } := by
  have hne : (tag == sOfficeText) = false := by
    cases h : tag == sOfficeText
    · rfl
    · exact absurd (by simpa using h) ht
  cases hp with
  | inl h =>
    have h1 : (sList == sP) = false := by decide
    have h2 : (sList == sH) = false := by decide
    simp only [walkNode, hne, hb, hd, h.1, h.2, h1, h2, Bool.false_eq_true, if_false, Bool.not_true, BEq.rfl, if_true]
  | inr h =>
    have h1 : (sTable == sP) = false := by decide
    have h2 : (sTable == sH) = false := by decide
    have h3 : (sTable == sList) = false := by decide
    simp only [walkNode, hne, hb, hd, h.1, h.2, h1, h2, h3, Bool.false_eq_true, if_false, Bool.not_true, BEq.rfl, if_true]

/-- a list or a table is not decoded to its end as soon as ONE paragraph below it is not
(`residualNode` answers `some` for the item, row or cell it sits in) -/
theorem odt_block_gives_up (ctx : Ctx) (n : Node) (rest : List Node) (r : List Node)
    (h : residualNode ctx n = some r) : decodes ctx (n :: rest) = false := by
  simp [decodes, residualList, h]

theorem decodesList_append (a b : List Node) : decodesList (a ++ b) = (decodesList a && decodesList b) := by
  induction a with
  | nil => simp [decodesList]
  | cons n rest ih => simp [decodesList, ih, Bool.and_assoc]

/-- **odt_open_within / odt_open_beyond / odt_open_iff**: what `odt.Open` leaves, for every
content.xml whose `office:text` sits in `office:body` (nothing else named `office:text`). Within
the bound - every body element decoded to its end - the reader holds the elements the children
of `office:text` stand for; beyond it `Open` fails ("parsing content: inline content nested
deeper than 10000 levels"), as `docx.Open` does (`docx_open_beyond`). -/
theorem odt_open_within (docTag bodyTag : Str) (da ba ta : List (Str × Str)) (pre kids post : List Node) (styles : Option Node)
    (hdoc : docTag ≠ sOfficeText) (hbody : bodyTag ≠ sOfficeText)
    (hpre : noTextList pre = true) (hpost : noTextList post = true) (hk : noTextList kids = true)
    (hdec : decodesList kids = true) :
    let content : Node := .elem docTag da (pre ++ [.elem bodyTag ba [.elem sOfficeText ta kids]] ++ post)
    openElements content styles = some (elements content styles)
    ∧ elements content styles = elemsOfList (allStyles content styles) kids := by
  intro content
  have hw := C16.odt_body_walk_within docTag bodyTag da ba ta pre kids post styles hdoc hbody hpre hpost hk hdec
  refine ⟨?_, C16.odt_elements_interleave docTag bodyTag da ba ta pre kids post styles hdoc hbody hpre hpost hk hdec⟩
  unfold openElements
  rw [hw]
  rfl

theorem odt_open_beyond (docTag bodyTag : Str) (da ba ta : List (Str × Str)) (pre kids post : List Node) (styles : Option Node)
    (hdoc : docTag ≠ sOfficeText) (hbody : bodyTag ≠ sOfficeText)
    (hpre : noTextList pre = true) (hk : noTextList kids = true)
    (hdec : decodesList kids = false) :
    openElements (.elem docTag da (pre ++ [.elem bodyTag ba [.elem sOfficeText ta kids]] ++ post)) styles = none := by
  unfold openElements
  rw [C16.odt_elements_refused docTag bodyTag da ba ta pre kids post styles hdoc hbody hpre hk hdec]
  rfl

theorem odt_open_iff (docTag bodyTag : Str) (da ba ta : List (Str × Str)) (pre kids post : List Node) (styles : Option Node)
    (hdoc : docTag ≠ sOfficeText) (hbody : bodyTag ≠ sOfficeText)
    (hpre : noTextList pre = true) (hpost : noTextList post = true) (hk : noTextList kids = true) :
    (openElements (.elem docTag da (pre ++ [.elem bodyTag ba [.elem sOfficeText ta kids]] ++ post)) styles).isSome = decodesList kids := by
  cases hdec : decodesList kids with
  | true => rw [(odt_open_within docTag bodyTag da ba ta pre kids post styles hdoc hbody hpre hpost hk hdec).1]; rfl
  | false => rw [odt_open_beyond docTag bodyTag da ba ta pre kids post styles hdoc hbody hpre hk hdec]; rfl

/-- **odt_open_beyond_paragraph** (the counterpart of `docx_open_beyond`). ONE `text:p` / `text:h`
among the children of `office:text` whose spans nest deeper than 10000 makes `Open` fail -
whatever stands before it (`b1`, which may itself hold anything) and behind it (`b2`). -/
theorem odt_open_beyond_paragraph (docTag bodyTag : Str) (da ba ta : List (Str × Str)) (pre post b1 b2 : List Node) (styles : Option Node)
    (tag : Str) (attrs : List (Str × Str)) (kids : List Node)
    (hdoc : docTag ≠ sOfficeText) (hbody : bodyTag ≠ sOfficeText)
    (hpre : noTextList pre = true) (hk : noTextList (b1 ++ [.elem tag attrs kids] ++ b2) = true)
    (hp : localName tag = sP ∨ localName tag = sH)
    (h : spanNestList kids > maxInlineDepth) :
    openElements (.elem docTag da (pre ++ [.elem bodyTag ba [.elem sOfficeText ta (b1 ++ [.elem tag attrs kids] ++ b2)]] ++ post)) styles = none := by
  apply odt_open_beyond docTag bodyTag da ba ta pre _ post styles hdoc hbody hpre hk
  have hpd : paraDecodes (.elem tag attrs kids) = false := by
    cases hx : paraDecodes (.elem tag attrs kids) with
    | false => rfl
    | true =>
      have := (odt_decodes_iff_depth _).mp hx
      simp only [Node.kids] at this
      omega
  have hn : decodesNode (.elem tag attrs kids) = false := by
    have hpd' : decodes (.inline 0) kids = false := hpd
    cases hp with
    | inl hp => simp only [decodesNode, hp, BEq.rfl, if_true, hpd']
    | inr hp =>
      have h1 : (sH == sP) = false := by decide
      simp only [decodesNode, hp, h1, BEq.rfl, if_true, Bool.false_eq_true, if_false, hpd']
  rw [decodesList_append, decodesList_append]
  simp [decodesList, hn]

theorem residual_spanN (stag : Str) (hs : (localName stag == sSpan || localName stag == sA) = true) (inner : List Node) :
    ∀ k d, d ≤ maxInlineDepth → d + k > maxInlineDepth →
      ∃ j, residualList (.inline d) (spanN stag k inner) = some (spanN stag j inner) := by
  intro k
  induction k with
  | zero => intro d h1 h2; omega
  | succ k ih =>
    intro d h1 h2
    simp only [spanN, residualList, residualNode, descend, hs, if_true]
    by_cases h : d + 1 > maxInlineDepth
    · simp only [h, if_true, Ctx.isInline, List.append_nil]
      exact ⟨k, rfl⟩
    · simp only [h, if_false]
      obtain ⟨j, hj⟩ := ih (d + 1) (by omega) (by omega)
      rw [hj]
      simp only [Ctx.isInline, if_true, List.append_nil]
      exact ⟨j, rfl⟩

theorem noText_spanN (stag : Str) (hne : stag ≠ sOfficeText) (inner : List Node) (hi : noTextList inner = true) :
    ∀ k, noTextList (spanN stag k inner) = true := by
  intro k
  induction k with
  | zero => exact hi
  | succ k ih => simp [spanN, noTextList, noTextNode, hne, ih]

/-! ### the witness: a paragraph, a paragraph of `k` nested spans, a paragraph -/

def tP : Str := [116, 101, 120, 116, 58, 112]
def tSpan : Str := [116, 101, 120, 116, 58, 115, 112, 97, 110]

/-- `<d><b><office:text><text:p>A</text:p><text:p><text:span>…B…</text:span></text:p><text:p>C</text:p></office:text></b></d>` -/
def deepDoc (k : Nat) : Node :=
  .elem [100] [] [.elem [98] [] [.elem sOfficeText []
    [.elem tP [] [.text [65]], .elem tP [] (spanN tSpan k [.text [66]]), .elem tP [] [.text [67]]]]]

/-- **odt_deep_paragraph_refused**. A body paragraph that holds more than 10000 nested
`text:span` around some text makes `odt.Open` fail. -/
theorem odt_deep_paragraph_refused (k : Nat) (hk : k > maxInlineDepth) (styles : Option Node) :
    openElements (deepDoc k) styles = none := by
  have hs : (localName tSpan == sSpan || localName tSpan == sA) = true := by decide
  have := odt_open_beyond_paragraph [100] [98] [] [] [] [] [] [.elem tP [] [.text [65]]] [.elem tP [] [.text [67]]] styles
    tP [] (spanN tSpan k [.text [66]]) (by decide) (by decide) rfl
    (by
      have h1 := noText_spanN tSpan (by decide) [.text [66]] rfl k
      have h2 : (tP != sOfficeText) = true := by decide
      simp [noTextList, noTextNode, h1, h2])
    (Or.inl (by decide))
    (by rw [spanNest_spanN _ hs]; simp only [spanNestList, spanNestNode]; omega)
  exact this

/-- … and one level less is read in full: the three paragraphs, the middle one with the text
inside the spans -/
theorem odt_deep_paragraph_within (k : Nat) (hk : k ≤ maxInlineDepth) :
    openElements (deepDoc k) none
      = some [.para ⟨[65], none, none⟩, .para ⟨[66], none, none⟩, .para ⟨[67], none, none⟩] := by
  have hs : (localName tSpan == sSpan || localName tSpan == sA) = true := by decide
  have hn : noTextList [Node.elem tP [] [.text [65]], .elem tP [] (spanN tSpan k [.text [66]]), .elem tP [] [.text [67]]] = true := by
    have h1 := noText_spanN tSpan (by decide) [.text [66]] rfl k
    have h2 : (tP != sOfficeText) = true := by decide
    simp [noTextList, noTextNode, h1, h2]
  have hmid : decodes (.inline 0) (spanN tSpan k [.text [66]]) = true := by
    have := (odt_decodes_iff_depth (.elem tP [] (spanN tSpan k [.text [66]]))).mpr
      (by simp only [Node.kids]; rw [spanNest_spanN _ hs]; simp only [spanNestList, spanNestNode]; omega)
    exact this
  have hd : decodesList [Node.elem tP [] [.text [65]], .elem tP [] (spanN tSpan k [.text [66]]), .elem tP [] [.text [67]]] = true := by
    have hp : (localName tP == sP) = true := by decide
    have h1 : decodes (.inline 0) [.text [65]] = true := by decide
    have h3 : decodes (.inline 0) [.text [67]] = true := by decide
    simp only [decodesList, decodesNode, hp, if_true, h1, hmid, h3, Bool.and_self]
  have h := odt_open_within [100] [98] [] [] [] [] _ [] none (by decide) (by decide) rfl rfl hn hd
  simp only at h
  show openElements (.elem [100] [] ([] ++ [.elem [98] [] [.elem sOfficeText [] _]] ++ [])) none = _
  rw [h.1, h.2]
  have hp : (localName tP == sP) = true := by decide
  simp only [elemsOfList, elemsOfNode, hp, if_true, processParagraph, paraText, Node.kids, List.append_nil, List.cons_append, List.nil_append]
  rw [inline_spanN _ hs]
  rfl

/-! ### before the repair: the document was cut short without an error -/

/-- what `parseBodyElements` did before the repair with a `text:p` / `text:h` the decoder gave up
in (`residualList` answers `some r`): the element was not recorded, the walk read the nodes `r` -
what stands behind the refused start tag inside the paragraph - as ordinary body content, and
then the loop had ended (`done`) -/
theorem odt_gives_up_old (defs : List StyleDef) (tag : Str) (attrs : List (Str × Str)) (kids r : List Node) (w : WalkOld)
    (hb : w.inBody = true) (hd : w.done = false) (ht : tag ≠ sOfficeText)
    (hp : localName tag = sP ∨ localName tag = sH)
    (hr : residualList (.inline 0) kids = some r) :
    walkNodeOld defs (.elem tag attrs kids) w = { walkListOld defs r w with done := true } := by
  have hne : (tag == sOfficeText) = false := by
    cases h : tag == sOfficeText
    · rfl
    · exact absurd (by simpa using h) ht
  have hs : scanListOld defs (.inline 0) kids w = some (walkListOld defs r w) := by
    rw [scanOld_residual, hr]; rfl
  cases hp with
  | inl h =>
    simp only [walkNodeOld, hne, hb, hd, h, Bool.false_eq_true, if_false, Bool.not_true, BEq.rfl, if_true]
    rw [hs]
  | inr h =>
    have h1 : (sH == sP) = false := by decide
    simp only [walkNodeOld, hne, hb, hd, h, h1, Bool.false_eq_true, if_false, Bool.not_true, BEq.rfl, if_true]
    rw [hs]

/-- in a list or a table only the rest of the PARAGRAPH was read: what follows the paragraph in
its item or cell, the later items, rows and cells are not part of the residue -/
theorem odt_block_residual_is_the_paragraphs (ctx : Ctx) (hc : ctx.isInline = false) (n : Node) (rest : List Node) (r : List Node)
    (h : residualNode ctx n = some r) : residualList ctx (n :: rest) = some r := by
  simp only [residualList, h, hc, Bool.false_eq_true, if_false]

/-- a nest of spans that holds character data only added nothing to the body -/
theorem walkOld_spanN_text (defs : List StyleDef) (stag : Str) (hne : stag ≠ sOfficeText)
    (hs : localName stag = sSpan) (t : Str) (w : WalkOld) : ∀ k, walkListOld defs (spanN stag k [.text t]) w = w := by
  have hq : (stag == sOfficeText) = false := by
    cases h : stag == sOfficeText
    · rfl
    · exact absurd (by simpa using h) hne
  intro k
  induction k with
  | zero => simp [spanN, walkListOld, walkNodeOld]
  | succ k ih =>
    have h1 : (sSpan == sP) = false := by decide
    have h2 : (sSpan == sH) = false := by decide
    have h3 : (sSpan == sList) = false := by decide
    have h4 : (sSpan == sTable) = false := by decide
    simp only [spanN, walkListOld, walkNodeOld, hq, hs, h1, h2, h3, h4, Bool.false_eq_true, if_false]
    by_cases hdn : w.done = true
    · simp [hdn]
    · have hdn' : w.done = false := by simpa using hdn
      simp only [hdn', Bool.false_eq_true, if_false]
      by_cases hbd : w.inBody = true
      · simp only [hbd, Bool.not_true, Bool.false_eq_true, if_false]; exact ih
      · have : w.inBody = false := by simpa using hbd
        simp only [this, Bool.not_false, if_true]; exact ih

/-- **odt_deep_paragraph_dropped_pinned_counterexample** (the walk before the repair). A body
paragraph that holds more than 10000 nested `text:span` around some text contributed nothing,
and whatever followed it in the body was not read: the old walk over `[that paragraph] ++ post`
left the element list as it was - and ended, with no error to report. -/
theorem odt_deep_paragraph_dropped_pinned_counterexample (defs : List StyleDef) (k : Nat) (hk : k > maxInlineDepth) (t : Str)
    (post : List Node) (w : WalkOld) (hb : w.inBody = true) (hd : w.done = false) :
    walkListOld defs ([.elem tP [] (spanN tSpan k [.text t])] ++ post) w = { w with done := true } := by
  have hs : (localName tSpan == sSpan || localName tSpan == sA) = true := by decide
  obtain ⟨j, hr⟩ := residual_spanN _ hs [.text t] k 0 (Nat.zero_le _) (by omega)
  simp only [List.cons_append, List.nil_append, walkListOld]
  rw [odt_gives_up_old defs tP [] _ _ w hb hd (by decide) (Or.inl (by decide)) hr]
  rw [walkOld_spanN_text defs _ (by decide) (by decide)]
  exact walkOld_done_list defs post _ rfl

/-- **odt_silent_truncation_pinned_counterexample**. The document `A`, a paragraph of 10001 (or
more) nested spans, `C`: before the repair the reader held the single paragraph `A` and
`odt.Open` reported no error (`elementsOld` is total: there was no way to fail here); the
repaired `Open` refuses the document (`odt_deep_paragraph_refused`), as `docx.Open` refuses its
DOCX counterpart. -/
theorem odt_silent_truncation_pinned_counterexample (k : Nat) (hk : k > maxInlineDepth) :
    elementsOld (deepDoc k) none = [.para ⟨[65], none, none⟩] ∧ openElements (deepDoc k) none = none := by
  refine ⟨?_, odt_deep_paragraph_refused k hk none⟩
  unfold elementsOld deepDoc
  generalize allStyles _ none = defs
  have h1 : ([100] == sOfficeText) = false := by decide
  have h2 : ([98] == sOfficeText) = false := by decide
  have hA : walkNodeOld defs (.elem tP [] [.text [65]]) { inBody := true, acc := [] }
      = { inBody := true, acc := [.para ⟨[65], none, none⟩] } := by
    have h3 : (tP == sOfficeText) = false := by decide
    have h4 : (localName tP == sP) = true := by decide
    have hs : scanListOld defs (.inline 0) [.text [65]] { inBody := true, acc := [] } = none := rfl
    simp only [walkNodeOld, h3, h4, Bool.false_eq_true, if_false, Bool.not_true, if_true, hs, List.nil_append]
    rfl
  have hdrop := odt_deep_paragraph_dropped_pinned_counterexample defs k hk [66] [.elem tP [] [.text [67]]]
    { inBody := true, acc := [.para ⟨[65], none, none⟩] } rfl rfl
  have hbody : ∀ kids : List Node, walkNodeOld defs (.elem [100] [] [.elem [98] [] [.elem sOfficeText [] kids]]) { inBody := false, acc := [] }
      = { walkListOld defs kids { inBody := true, acc := [] } with inBody := false } := by
    intro kids
    simp only [walkNodeOld, walkListOld, h1, h2, Bool.false_eq_true, if_false, Bool.not_false, if_true, BEq.rfl]
  rw [hbody]
  rw [walkListOld, hA]
  simp only [List.cons_append, List.nil_append] at hdrop
  rw [hdrop]

/-- the edge: a paragraph of 10000 nested spans is decoded (and reads as the text inside),
10001 are not -/
example :
    paraDecodes (.elem [116, 101, 120, 116, 58, 112] [] (spanN [116, 101, 120, 116, 58, 115, 112, 97, 110] 10000 [.text [65]])) = true
    ∧ paraText (.elem [116, 101, 120, 116, 58, 112] [] (spanN [116, 101, 120, 116, 58, 115, 112, 97, 110] 10000 [.text [65]])) = [65]
    ∧ paraDecodes (.elem [116, 101, 120, 116, 58, 112] [] (spanN [116, 101, 120, 116, 58, 115, 112, 97, 110] 10001 [.text [65]])) = false := by
  have hs : (localName [116, 101, 120, 116, 58, 115, 112, 97, 110] == sSpan || localName [116, 101, 120, 116, 58, 115, 112, 97, 110] == sA) = true := by decide
  refine ⟨?_, ?_, ?_⟩
  · rw [odt_decodes_iff_depth]
    simp only [Node.kids]
    rw [spanNest_spanN _ hs]; decide
  · simp only [paraText, Node.kids]
    rw [inline_spanN _ hs]; decide
  · cases h : paraDecodes (.elem [116, 101, 120, 116, 58, 112] [] (spanN [116, 101, 120, 116, 58, 115, 112, 97, 110] 10001 [.text [65]]))
    · rfl
    · rw [odt_decodes_iff_depth] at h
      simp only [Node.kids] at h
      rw [spanNest_spanN _ hs] at h
      revert h; decide

end OdtDepth

/-! ## `text:s`: the space run -/
section Space
open Tabula.Odt

/-- `<text:s/>` stands for `spaceRun (text:c)` spaces -/
theorem odt_space_element (attrs : List (Str × Str)) (kids : List Node) :
    inlineNode (.elem [116, 101, 120, 116, 58, 115] attrs kids) = List.replicate (spaceRun (attrOf attrs sC)) 32 := by
  have h1 : (localName [116, 101, 120, 116, 58, 115] == sSpan || localName [116, 101, 120, 116, 58, 115] == sA) = false := by decide
  have h2 : (localName [116, 101, 120, 116, 58, 115] == sS) = true := by decide
  simp only [inlineNode, h1, h2, Bool.false_eq_true, if_false, if_true]

/-- **odt_space_run_bounded** (every input): a run is 1..1024 spaces long -/
theorem odt_space_run_bounded (c : Str) : 1 ≤ spaceRun c ∧ spaceRun c ≤ 1024 := spaceRun_range c

/-- within the bound the run is as long as written -/
theorem odt_space_run_within (c : Str) (v : Int) (h : atoi? c = some v) (h1 : 0 < v) (h2 : v ≤ 1024) :
    (spaceRun c : Int) = v := by
  unfold spaceRun maxSpaceRun
  simp only [h, h1, if_true]
  omega

/-- **odt_space_run_truncated**: beyond it the run is cut to 1024 spaces -/
theorem odt_space_run_truncated (c : Str) (v : Int) (h : atoi? c = some v) (h1 : v > 1024) : spaceRun c = 1024 := by
  unfold spaceRun maxSpaceRun
  have : 0 < v := by omega
  simp only [h, this, if_true]
  omega

/-- the edge: 1023, 1024 as written; 1025, 2^31-1, 2^63-1 cut to 1024; 2^63 (no `int`), 0, -1,
no number, nothing: one space; a sign and leading zeros are read -/
example : spaceRun [49, 48, 50, 51] = 1023 ∧ spaceRun [49, 48, 50, 52] = 1024 ∧ spaceRun [49, 48, 50, 53] = 1024
    ∧ spaceRun [50, 49, 52, 55, 52, 56, 51, 54, 52, 55] = 1024
    ∧ spaceRun [57, 50, 50, 51, 51, 55, 50, 48, 51, 54, 56, 53, 52, 55, 55, 53, 56, 48, 55] = 1024
    ∧ spaceRun [57, 50, 50, 51, 51, 55, 50, 48, 51, 54, 56, 53, 52, 55, 55, 53, 56, 48, 56] = 1
    ∧ spaceRun [48] = 1 ∧ spaceRun [45, 49] = 1 ∧ spaceRun [120] = 1 ∧ spaceRun [] = 1
    ∧ spaceRun [43, 53] = 5 ∧ spaceRun [48, 48, 55] = 7 := by decide +kernel

/-- **odt_text_bytes_bounded** (bounded work, every input). The text of a paragraph is at most
its character data plus 1024 bytes per element below it: no attribute value multiplies it. -/
theorem odt_text_bytes_bounded (p : Node) :
    (paraText p).length ≤ textBytesList p.kids + 1024 * elemCountList p.kids :=
  inline_length_list p.kids

end Space

/-! ## the table grid -/
section Grid

/-- **docx_grid_within / docx_grid_nospans / docx_grid_beyond**: what `limitTableGrid` does -/
theorem docx_grid_within (rows : List (List Docx.Cell)) (h : rows.length * Docx.colCount rows ≤ 1048576) :
    Docx.limitTableGrid rows = rows := Docx.limit_within rows h

theorem docx_grid_nospans (rows : List (List Docx.Cell)) (h : Docx.hasSpans rows = false) :
    Docx.limitTableGrid rows = rows := Docx.limit_nospans rows h

theorem docx_grid_beyond (rows : List (List Docx.Cell)) (hs : Docx.hasSpans rows = true)
    (h : rows.length * Docx.colCount rows > 1048576) :
    Docx.limitTableGrid rows = rows.map fun row => row.map fun c => { c with colSpan := 1, rowSpan := 1 } :=
  Docx.limit_beyond rows hs h

theorem stripRows_length (rows : List (List Docx.Cell)) : (Docx.stripRows rows).length = rows.length := by
  simp [Docx.stripRows]

/-- **docx_grid_bounded** (bounded work, every `w:tbl`). The grid the parsed table is laid out
on - its rows times its width in spanned columns, which is what `processVerticalMerges` sizes
its column table by and, without `w:tblGrid`, what `ToModelTable` allocates cell by cell - holds
at most 2^20 cells, or no more than rows x the widest row counted in `w:tc` elements: no
`gridSpan` multiplies it. (With `w:tblGrid` the columns are the `w:gridCol` elements.) -/
theorem docx_grid_bounded (tbl : Node) :
    (Docx.parseTable tbl).length * Docx.colCount (Docx.parseTable tbl)
      ≤ max 1048576 ((Docx.parseRows tbl).length * Docx.widest (Docx.parseRows tbl)) := by
  have hg := C16.table_grid_any tbl
  have hl : (Docx.parseTable tbl).length = (Docx.parseRows tbl).length := by
    have := congrArg List.length hg
    rw [stripRows_length, stripRows_length, Docx.limit_length] at this
    exact this
  rw [hl, Docx.colCount_strip _ _ hg]
  exact Docx.limit_grid_bound (Docx.parseRows tbl)

/-- the edge (DOCX): one cell 1024 grid columns wide and 1023 empty rows below it - 2^20 - keeps
its span; one row more and every cell is one column wide -/
def wideCell : Docx.Cell := { text := [65], colSpan := 1024, rowSpan := 1, cont := false }

example : (Docx.limitTableGrid ([wideCell] :: List.replicate 1023 [])).map (·.map (·.colSpan)) = [1024] :: List.replicate 1023 []
    ∧ (Docx.limitTableGrid ([wideCell] :: List.replicate 1024 [])).map (·.map (·.colSpan)) = [1] :: List.replicate 1024 [] := by
  decide +kernel

/-- integer division: a cell 1000 columns wide is believed with 1048 rows (2^20 / 1000), not with 1049 -/
example :
    let c : Docx.Cell := { text := [], colSpan := 1000, rowSpan := 1, cont := false }
    (Docx.limitTableGrid ([c] :: List.replicate 1047 [])).map (·.map (·.colSpan)) = [1000] :: List.replicate 1047 []
    ∧ (Docx.limitTableGrid ([c] :: List.replicate 1048 [])).map (·.map (·.colSpan)) = [1] :: List.replicate 1048 [] := by
  decide +kernel

/-- **odt_grid_within / odt_grid_nospans / odt_grid_beyond** -/
theorem odt_grid_within (rows : List (List Odt.Cell)) (h : rows.length * Odt.colCount rows ≤ 1048576) :
    Odt.limitTableGrid rows = rows := Odt.limit_within rows h

theorem odt_grid_nospans (rows : List (List Odt.Cell)) (h : Odt.hasSpans rows = false) :
    Odt.limitTableGrid rows = rows := Odt.limit_nospans rows h

theorem odt_grid_beyond (rows : List (List Odt.Cell)) (hs : Odt.hasSpans rows = true)
    (h : rows.length * Odt.colCount rows > 1048576) :
    Odt.limitTableGrid rows = rows.map fun row => row.map fun c => { c with colSpan := 1, rowSpan := 1 } :=
  Odt.limit_beyond rows hs h

/-- **odt_table_content_kept** (every table): the limit changes no text and drops no cell -/
theorem odt_table_content_kept (rows : List (List Odt.Cell)) :
    (Odt.limitTableGrid rows).map (·.map (·.text)) = rows.map (·.map (·.text)) := by
  have := congrArg (fun t : List (List (Str × Bool)) => t.map (·.map (·.1))) (Odt.limit_content rows)
  simpa [List.map_map, Function.comp_def] using this

theorem parseRows_span_pos (tbl : Node) : ∀ row ∈ Odt.parseRows tbl, ∀ c ∈ row, 1 ≤ c.colSpan := by
  intro row hrow c hc
  simp only [Odt.parseRows, List.mem_map] at hrow
  obtain ⟨tr, _, rfl⟩ := hrow
  simp only [List.mem_map] at hc
  obtain ⟨tc, _, rfl⟩ := hc
  exact (C16.odt_span_bounded tc).1.1

/-- **odt_grid_cells_bounded** (bounded work, every `table:table`). The cells of the parsed
table - the authored ones plus the covered placeholders `processRowSpans` inserts - number at
most 2^20, or no more than the authored cells: a table of eight cells spanning 1024 x 1024
followed by 1023 empty rows makes 8200 cells, not eight million. -/
theorem odt_grid_cells_bounded (tbl : Node) :
    Odt.cellCount (Odt.parseTable tbl) ≤ max 1048576 (Odt.cellCount (Odt.parseRows tbl)) := by
  unfold Odt.parseTable
  have hpos := parseRows_span_pos tbl
  have hflat : Odt.processRowSpans (Odt.resetSpans (Odt.parseRows tbl)) = Odt.resetSpans (Odt.parseRows tbl) := by
    apply Odt.processRowSpans_flat
    intro row hrow c hc
    simp only [Odt.resetSpans, List.mem_map] at hrow
    obtain ⟨r0, _, rfl⟩ := hrow
    simp only [List.mem_map] at hc
    obtain ⟨c0, _, rfl⟩ := hc
    exact ⟨Nat.le_refl 1, Nat.le_refl 1⟩
  by_cases hs : Odt.hasSpans (Odt.parseRows tbl) = true
  · by_cases hw : (Odt.parseRows tbl).length * Odt.colCount (Odt.parseRows tbl) ≤ Odt.maxTableGridCells
    · rw [Odt.limit_within _ hw]
      have := Odt.processRowSpans_cells (Odt.parseRows tbl) hpos
      unfold Odt.maxTableGridCells at hw
      omega
    · rw [Odt.limit_beyond _ hs (by omega), hflat, Odt.cellCount_resetSpans]
      omega
  · have hs' : Odt.hasSpans (Odt.parseRows tbl) = false := by simpa using hs
    rw [Odt.limit_nospans _ hs']
    have : Odt.processRowSpans (Odt.parseRows tbl) = Odt.parseRows tbl := by
      apply Odt.processRowSpans_flat
      intro row hrow c hc
      exact ⟨hpos row hrow c hc, (Odt.hasSpans_false _ hs' row hrow c hc).2⟩
    rw [this]
    omega

/-- the edge (ODT): a cell spanning 1024 columns and 3 rows over 1024 rows - 2^20 - is believed;
with one row more every span is set to 1 (so no placeholder is made below it) -/
example :
    let c : Odt.Cell := { text := [65], colSpan := 1024, rowSpan := 3, covered := false }
    (Odt.limitTableGrid ([c] :: List.replicate 1023 [])).map (·.map fun c => (c.colSpan, c.rowSpan))
        = [(1024, 3)] :: List.replicate 1023 []
    ∧ (Odt.limitTableGrid ([c] :: List.replicate 1024 [])).map (·.map fun c => (c.colSpan, c.rowSpan))
        = [(1, 1)] :: List.replicate 1024 [] := by
  decide +kernel

/-- what being believed means: the two rows below a cell spanning 4 columns and 3 rows get their
placeholders, the row after them does not; with the spans set to 1 no placeholder is made -/
example :
    let c : Odt.Cell := { text := [65], colSpan := 4, rowSpan := 3, covered := false }
    let d : Odt.Cell := { text := [65], colSpan := 1, rowSpan := 1, covered := false }
    (Odt.processRowSpans ([c] :: List.replicate 4 [])).map List.length = [1, 4, 4, 0, 0]
    ∧ (Odt.processRowSpans ([d] :: List.replicate 4 [])).map List.length = [1, 0, 0, 0, 0] := by
  decide +kernel

end Grid

end Tabula.C16Bounds
