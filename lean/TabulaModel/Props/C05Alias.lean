import TabulaModel.Model.StreamHeap
import TabulaModel.Props.C05E
/-!
# C05 over histories with shared buffers — what repeated `Decode()` calls can and cannot change

`C05E.history_independent` treats results as values. Here results are the slices Go hands out
(`Model/StreamHeap.lean`): a result may BE the stream's `Data` (no `Filter`, or only the
pass-through names `/DCTDecode`, `/DCT`, `/JPXDecode`; `Decoded()` always), and the caller may write
into every slice it was given.

* `decode_never_writes` — a `Decode()` call writes to no buffer: every stream's `Data` and every
  buffer handed out earlier has the contents it had before (non-mutation, no earlier result
  clobbered), for every dictionary and all data.
* `decode_result` — what the caller sees is `streamDecodeD` of the current `Data`; it is the
  stream's own `Data` exactly for a pass-through `Filter`, otherwise a buffer allocated by this call.
* `supported_filters_allocate`, `conforming_allocates` — a `Filter` entry naming Flate, ASCIIHex,
  ASCII85 (or CCITT) anywhere — in particular every conforming non-empty pipeline of the property —
  is never pass-through.
* `filtered_stream_isolated` — in ANY history of `decode` / `decoded` / `write` operations, a stream
  with such a filter on which `Decoded()` is not called keeps its `Data`, and no result the caller
  holds is that `Data`: nothing the caller writes can reach it.
* `history_roundtrip_heap` — the end-to-end statement over such histories: every `Decode()` of a
  conforming stream, at any point, returns the original bytes in a buffer of its own.
* `unfiltered_stream_shares_data`, `decoded_is_raw_data` — the two documented exceptions, with
  witnesses: a stream without a filter hands out its `Data` (a write through the result changes
  what the next `Decode()` returns), and the stub `Decoded()` returns the raw `Data`, not the
  decoded bytes.
-/
namespace Tabula.C05Alias
open Tabula.Filters

/-! ## one call -/

/-- **decode_never_writes**: `Decode()` changes no stream and no buffer handed out before; it only
appends (at most one buffer, exactly one result) -/
theorem decode_never_writes (ext : Ext) (h : Heap) (i : Nat) :
    (stepDecodeH ext h i).streams = h.streams ∧
    (∃ extra, (stepDecodeH ext h i).bufs = h.bufs ++ extra) ∧
    (∃ r, (stepDecodeH ext h i).results = h.results ++ [r]) := by
  unfold stepDecodeH
  split
  · exact ⟨rfl, ⟨[], by simp⟩, ⟨none, rfl⟩⟩
  · split
    · exact ⟨rfl, ⟨[], by simp⟩, ⟨none, rfl⟩⟩
    · split
      · exact ⟨rfl, ⟨[], by simp⟩, ⟨_, rfl⟩⟩
      · exact ⟨rfl, ⟨_, rfl⟩, ⟨_, rfl⟩⟩

/-- … so every reference the caller holds reads the same bytes after the call as before -/
theorem decode_preserves_refs (ext : Ext) (h : Heap) (i : Nat) (r : Ref) (b : Str) (hr : h.deref r = some b) :
    (stepDecodeH ext h i).deref r = some b := by
  obtain ⟨hs, ⟨extra, hb⟩, _⟩ := decode_never_writes ext h i
  cases r with
  | data j => simpa [Heap.deref, hs] using hr
  | fresh n =>
    simp only [Heap.deref] at hr ⊢
    rw [hb]
    have hn : n < h.bufs.length := by
      apply Classical.byContradiction
      intro hge
      rw [List.getElem?_eq_none (by omega)] at hr
      exact absurd hr (by simp)
    rw [List.getElem?_append_left hn]
    exact hr

/-- a pass-through `Filter` returns the data itself -/
theorem passThrough_identity (ext : Ext) (f : Filter) (dp : DParms) (data out : Str)
    (hp : passThrough f = true) (h : streamDecode ext f dp data = some out) : out = data := by
  have hname : ∀ n p, isPassName n = true → decodeWithFilter ext data n p = some data := by
    intro n p hn
    simp only [isPassName, Bool.or_eq_true, beq_iff_eq] at hn
    rcases hn with (hn | hn) | hn <;> subst hn <;> rfl
  cases f with
  | absent => simpa [streamDecode] using h.symm
  | one o =>
    cases o with
    | other => simp [passThrough] at hp
    | name n =>
      simp only [passThrough] at hp
      simp only [streamDecode] at h
      rw [hname n _ hp] at h
      exact (Option.some.inj h).symm
  | array fs =>
    simp only [passThrough] at hp
    simp only [streamDecode] at h
    have key : ∀ (fs : List FObj) (i : Nat), (fs.all fun f => match f with
        | .name n => isPassName n
        | .other => false) = true → decodeChain ext dp fs i data = some data := by
      intro fs
      induction fs with
      | nil => intro i _; rfl
      | cons f fs ih =>
        intro i hall
        simp only [List.all_cons, Bool.and_eq_true] at hall
        cases f with
        | other => simp at hall
        | name n =>
          simp only [decodeChain]
          rw [hname n _ hall.1]
          exact ih (i + 1) hall.2
    rw [key fs 0 hp] at h
    exact (Option.some.inj h).symm

/-- **decode_result**: right after `Decode()` on stream `i` the caller sees exactly
`streamDecodeD` of the stream's current dictionary and `Data` (an error for a missing stream); the
slice is the stream's own `Data` iff the `Filter` entry is pass-through, otherwise it is the buffer
this call allocated -/
theorem decode_result (ext : Ext) (h : Heap) (i : Nat) :
    (stepDecodeH ext h i).lastResult =
      match h.streams[i]? with
      | none => none
      | some s => (streamDecodeD ext s.dict s.data).map fun b =>
          (b, passThrough (objToFilter (dictGet s.dict kFilter))) := by
  unfold stepDecodeH
  cases hs : h.streams[i]? with
  | none => simp [Heap.lastResult]
  | some s =>
    simp only
    cases hd : streamDecodeD ext s.dict s.data with
    | none => simp [Heap.lastResult]
    | some out =>
      simp only [Option.map_some]
      by_cases hp : passThrough (objToFilter (dictGet s.dict kFilter)) = true
      · have hout : out = s.data := passThrough_identity ext _ _ s.data out hp hd
        simp [Heap.lastResult, hp, Heap.deref, hs, hout]
      · have hp' : passThrough (objToFilter (dictGet s.dict kFilter)) = false := by simpa using hp
        simp [Heap.lastResult, hp', Heap.deref]

/-- `Decoded()` returns the stream's own `Data`, whatever the dictionary says -/
theorem decoded_result (h : Heap) (i : Nat) :
    (stepDecodedH h i).lastResult = h.streams[i]?.map fun s => (s.data, true) := by
  unfold stepDecodedH
  cases hs : h.streams[i]? with
  | none => simp [Heap.lastResult]
  | some s => simp [Heap.lastResult, Heap.deref, hs]

/-! ## which filters allocate -/

/-- the names of the filters that decode (and so allocate) -/
def decodingNames : List Str :=
  [nFlateDecode, nFl, nASCIIHexDecode, nAHx, nASCII85Decode, nA85, nCCITTFaxDecode, nCCF]

theorem decodingName_not_pass (n : Str) (h : n ∈ decodingNames) : isPassName n = false := by
  simp only [decodingNames, List.mem_cons, List.not_mem_nil, or_false] at h
  rcases h with h | h | h | h | h | h | h | h <;> subst h <;> decide

/-- **supported_filters_allocate**: a `Filter` entry that is, or contains, the name of Flate,
ASCIIHex, ASCII85 or CCITT (full or abbreviated) is not pass-through: a successful `Decode()` hands
out a buffer of its own, never `s.Data` -/
theorem supported_filters_allocate (n : Str) (hn : n ∈ decodingNames) :
    passThrough (.one (.name n)) = false ∧
    (∀ fs : List FObj, FObj.name n ∈ fs → passThrough (.array fs) = false) := by
  refine ⟨decodingName_not_pass n hn, ?_⟩
  intro fs hmem
  simp only [passThrough]
  rw [List.all_eq_false]
  exact ⟨.name n, hmem, by simp [decodingName_not_pass n hn]⟩

theorem wstage_name_decoding (s : WStage) : s.name ∈ decodingNames := by
  cases s with
  | hex a => cases a <;> simp [WStage.name, decodingNames]
  | a85 a => cases a <;> simp [WStage.name, decodingNames]
  | flate a => cases a <;> simp [WStage.name, decodingNames]
  | tiff a c1 c2 => cases a <;> simp [WStage.name, decodingNames]
  | png a p c1 c2 t => cases a <;> simp [WStage.name, decodingNames]

/-- **conforming_allocates**: the dictionary of every conforming non-empty pipeline of the property
(ASCIIHex, ASCII85, Flate with or without predictor, in any combination) is not pass-through -/
theorem conforming_allocates (d : Dict) (stages : List WStage) (hd : C05E.Conforming d stages)
    (hne : stages ≠ []) : passThrough (objToFilter (dictGet d kFilter)) = false := by
  rcases hd with ⟨hf, _⟩ | ⟨s, hs, hf, _⟩ | ⟨hs, _⟩
  · rw [hf]
    simp only [objToFilter, List.map_map]
    cases stages with
    | nil => exact absurd rfl hne
    | cons s ss =>
      apply (supported_filters_allocate s.name (wstage_name_decoding s)).2
      simp [objToFObj]
  · rw [hf]
    exact (supported_filters_allocate s.name (wstage_name_decoding s)).1
  · exact absurd hs hne

/-! ## histories -/

/-- stream `i` is as it was and the caller holds no reference to its `Data` -/
def Isolated (i : Nat) (s : StreamObj) (h : Heap) : Prop :=
  h.streams[i]? = some s ∧ some (Ref.data i) ∉ h.results

theorem isolated_step (ext : Ext) (i : Nat) (s : StreamObj)
    (hnp : passThrough (objToFilter (dictGet s.dict kFilter)) = false) (h : Heap) (op : HOp)
    (hop : op ≠ .decoded i) (hiso : Isolated i s h) : Isolated i s (stepH ext h op) := by
  obtain ⟨hs, hres⟩ := hiso
  cases op with
  | decode j =>
    simp only [stepH, stepDecodeH]
    cases hj : h.streams[j]? with
    | none => exact ⟨hs, by simpa using hres⟩
    | some sj =>
      simp only
      cases hd : streamDecodeD ext sj.dict sj.data with
      | none => exact ⟨hs, by simpa using hres⟩
      | some out =>
        simp only
        split
        · rename_i hp
          refine ⟨hs, ?_⟩
          simp only [List.mem_append, List.mem_singleton, Option.some.injEq, Ref.data.injEq, not_or]
          refine ⟨hres, ?_⟩
          intro hij
          subst hij
          rw [hs] at hj
          simp only [Option.some.injEq] at hj
          subst hj
          rw [hnp] at hp
          exact absurd hp (by simp)
        · refine ⟨hs, ?_⟩
          simp only [List.mem_append, List.mem_singleton, Option.some.injEq, reduceCtorEq, or_false]
          exact hres
  | decoded j =>
    have hji : j ≠ i := by intro h'; subst h'; exact hop rfl
    simp only [stepH, stepDecodedH]
    cases hj : h.streams[j]? with
    | none => exact ⟨hs, by simpa using hres⟩
    | some sj =>
      refine ⟨hs, ?_⟩
      simp only [List.mem_append, List.mem_singleton, Option.some.injEq, Ref.data.injEq, not_or]
      exact ⟨hres, fun h' => hji h'.symm⟩
  | write r k v =>
    simp only [stepH, stepWriteH]
    split
    · rename_i j hr
      have hji : j ≠ i := by
        intro h'
        subst h'
        exact hres (List.mem_of_getElem? hr)
      refine ⟨?_, hres⟩
      simp only
      rw [List.getElem?_modify]
      simp [hji, hs]
    · exact ⟨hs, hres⟩
    · exact ⟨hs, hres⟩

/-- **filtered_stream_isolated**: take any store and any history of `Decode()` calls, `Decoded()`
calls and writes by the caller into ANY result it was given. A stream whose `Filter` is not
pass-through and on which `Decoded()` is not called still has its dictionary and `Data` at the end,
and none of the results is its `Data`. -/
theorem filtered_stream_isolated (ext : Ext) (i : Nat) (s : StreamObj)
    (hnp : passThrough (objToFilter (dictGet s.dict kFilter)) = false) :
    ∀ (ops : List HOp) (h : Heap), (∀ op ∈ ops, op ≠ .decoded i) → Isolated i s h →
      Isolated i s (runHeap ext h ops) := by
  intro ops
  induction ops with
  | nil => intro h _ hiso; exact hiso
  | cons op ops ih =>
    intro h hops hiso
    simp only [runHeap]
    exact ih _ (fun o ho => hops o (by simp [ho]))
      (isolated_step ext i s hnp h op (hops op (by simp)) hiso)

/-- **history_roundtrip_heap** — the property over histories with shared buffers. Stream `i` of the
store holds a conforming dictionary for a non-empty pipeline and a conforming encoding `y` of `x`.
Then in every history — `Decode()` on any stream in any order, `Decoded()` on the other streams, the
caller writing any bytes into any result it holds — every `Decode()` of stream `i` returns exactly
`x`, in a buffer that is not the stream's `Data`. -/
theorem history_roundtrip_heap (ext : Ext) (st : Store) (i : Nat) (d : Dict) (x y : Str) (stages : List WStage)
    (hst : st[i]? = some { dict := d, data := y }) (hd : C05E.Conforming d stages) (hne : stages ≠ [])
    (hw : C05E.ChainWrites ext.inflate stages x y)
    (pre : List HOp) (hpre : ∀ op ∈ pre, op ≠ .decoded i) :
    (stepDecodeH ext (runHeap ext (Heap.init st) pre) i).lastResult = some (x, false) := by
  have hnp := conforming_allocates d stages hd hne
  have hiso := filtered_stream_isolated ext i { dict := d, data := y } hnp pre (Heap.init st) hpre
    ⟨hst, by simp [Heap.init]⟩
  rw [decode_result, hiso.1]
  simp only
  rw [C05E.decode_inverts_encoding ext stages d x y hd hw, hnp]
  rfl

/-- non-vacuity of the hypotheses of `history_roundtrip_heap` (a one-stage pipeline `/AHx` on "41>") -/
example : C05E.Conforming [(kFilter, .name nAHx)] [.hex true] ∧
    C05E.ChainWrites (fun _ => none) [.hex true] [65] [52, 49, 62] := by
  refine ⟨Or.inr (Or.inl ⟨_, rfl, rfl, trivial⟩), [65], rfl, by decide, [52, 49], Or.inl ?_, Or.inr ⟨[], rfl⟩⟩
  exact .byte 52 49 65 [] _ _ (by decide) (by decide) (by decide) .nil

/-- a history on that stream: decode, overwrite the result, decode again — the same bytes, fresh -/
example : traceHeap { inflate := fun _ => none, ccitt := fun _ _ => none }
    (Heap.init [{ dict := [(kFilter, .name nAHx)], data := [52, 49, 62] }])
    [.decode 0, .write 0 0 7, .decode 0] = [some ([65], false), none, some ([65], false)] := by decide

/-! ## the two exceptions -/

/-- **unfiltered_stream_shares_data** (witness): a stream without `Filter` hands out its own
`Data`; after the caller writes through that result the next `Decode()` returns the changed bytes.
Idempotence of `Decode()` therefore holds for filtered streams unconditionally
(`history_roundtrip_heap`) and for unfiltered ones only while the caller leaves the result alone —
which is what `return s.Data, nil` means in Go. -/
theorem unfiltered_stream_shares_data :
    traceHeap { inflate := fun _ => none, ccitt := fun _ _ => none }
      (Heap.init [{ dict := [], data := [1, 2, 3] }]) [.decode 0, .write 0 0 7, .decode 0]
      = [some ([1, 2, 3], true), none, some ([7, 2, 3], true)] ∧
    traceHeap { inflate := fun _ => none, ccitt := fun _ _ => none }
      (Heap.init [{ dict := [(kFilter, .array [.name nDCT])], data := [1, 2, 3] }]) [.decode 0, .write 0 1 9, .decode 0]
      = [some ([1, 2, 3], true), none, some ([1, 9, 3], true)] := by decide

/-- **decoded_is_raw_data** (witness): `Decoded()` — documented as "returns the decoded
(decompressed) stream data", with a TODO in its body — returns the raw `Data`: for `/Filter /AHx` on
"41>" it yields the three characters, `Decode()` yields the byte 0x41. The property is stated (and
observed) at `Decode()`; this is recorded as an observation about the neighbouring stub. -/
theorem decoded_is_raw_data :
    traceHeap { inflate := fun _ => none, ccitt := fun _ _ => none }
      (Heap.init [{ dict := [(kFilter, .name nAHx)], data := [52, 49, 62] }]) [.decoded 0, .decode 0]
      = [some ([52, 49, 62], true), some ([65], false)] := by decide

end Tabula.C05Alias
