import TabulaModel.Props.C07
/-!
# C07, further theorems about the existing models (no new model code)

1. **UTF-16 on EVERY byte string** (not only on encodings of scalar strings): `DecodeUTF16BE/LE`
   is the standard UTF-16 reading (`stdPairs`: pairs combined, plain units kept, unpaired
   surrogates marked) with the unpaired surrogates dropped, where `utf16.Decode` writes U+FFFD;
   an odd last byte is read as if a zero byte followed; a valid UTF-16 prefix decodes to its text
   whatever bytes follow; carried through `Font.DecodeString` behind a byte-order mark.
2. **`LookupString` of EVERY CMap value without fuel**: with an effective width `w > 0` the
   result is given by two laws (fewer than `w` bytes: byte by byte; otherwise the first `w` bytes
   are one code and the rest is decoded in the same way) - the loop counter of the model is
   irrelevant; whole codes followed by anything decode code by code.
3. **The width-less fallback loop** (programs without a code-space section; so far only
   compared): effective width 0 iff no code-space width; a mapped one-byte code wins over the
   two-byte code that starts with it; a two-byte code is used when its first byte alone is
   unmapped; an unmapped byte is the character of that number; closed forms for strings of
   one-byte codes, of two-byte codes and of unmapped bytes.
4. **Raw and named paths on ASCII / concatenations**: a font without ToUnicode and without an
   encoding name, and the font-less `showText` path, return every ASCII string unchanged (before
   NFC); the named path is a homomorphism for concatenation (what `TJ` relies on) and never
   returns more characters than bytes.
-/
namespace Tabula.C07More
open Tabula.UTF16 Tabula.Encoding Tabula.CMap Tabula.FontDecode

/-! ## 1. UTF-16 on every unit list / byte string -/

/-- the standard reading of a list of UTF-16 code units: a high surrogate followed by a low one
is one supplementary character, any other surrogate is unpaired (`none`), every other unit is
itself -/
def stdPairs : List Nat → List (Option Nat)
  | [] => []
  | [u] => if isHigh u then [none] else if isLow u then [none] else [some u]
  | u :: l :: rest =>
    if isHigh u then
      if isLow l then some (combine u l) :: stdPairs rest
      else none :: stdPairs (l :: rest)
    else if isLow u then none :: stdPairs (l :: rest)
    else some u :: stdPairs (l :: rest)

/-- **the loop of `DecodeUTF16BE/LE` on every list of code units**: the standard reading with
the unpaired surrogates dropped -/
theorem utf16_units_total (us : List Nat) : decodeUnits us = (stdPairs us).filterMap id := by
  fun_induction decodeUnits us <;> simp_all [stdPairs]

theorem toRune_plain (u : Nat) (hu : u < 65536) (hh : isHigh u = false) (hl : isLow u = false) : toRune u = u :=
  toRune_scalar u (plain_unit_scalar u hu hh hl)

/-- U+FFFD, the replacement character -/
def replacement : Nat := 0xFFFD

theorem toRune_surrogate (u : Nat) (hs : isHigh u = true ∨ isLow u = true) : toRune u = replacement := by
  unfold replacement
  simp only [isHigh, isLow, Bool.and_eq_true, decide_eq_true_eq] at hs
  unfold toRune
  rw [if_neg (by omega)]

theorem stdPairs_pair (u l : Nat) (rest : List Nat) (h1 : isHigh u = true) (h2 : isLow l = true) :
    stdPairs (u :: l :: rest) = some (combine u l) :: stdPairs rest := by
  rw [stdPairs, if_pos h1, if_pos h2]

theorem std_total_aux (us : List Nat) (h : ∀ u ∈ us, isHigh u = false → isLow u = false → toRune u = u) :
    stdDecodeUnits us = (stdPairs us).map (fun o => o.getD replacement) := by
  fun_induction stdDecodeUnits us with
  | case1 => simp [stdPairs]
  | case2 u =>
    have hu := h u (by simp)
    unfold stdPairs
    by_cases hh : isHigh u = true
    · simp [hh, toRune_surrogate u (Or.inl hh)]
    · by_cases hl : isLow u = true
      · simp [hh, hl, toRune_surrogate u (Or.inr hl)]
      · simp [hh, hl, hu (by simpa using hh) (by simpa using hl)]
  | case3 u l rest hc ih =>
    have hc' := hc
    simp only [Bool.and_eq_true] at hc'
    rw [stdPairs_pair u l rest hc'.1 hc'.2, List.map_cons, Option.getD_some, ih (fun x hx => h x (by simp [hx]))]
  | case4 u l rest hc ih =>
    have hu := h u (by simp)
    rw [ih (fun x hx => h x (List.mem_cons_of_mem _ hx))]
    by_cases hh : isHigh u = true
    · have hl : isLow l = false := by
        cases hl : isLow l with
        | false => rfl
        | true => exact absurd (by simp [hh, hl]) hc
      simp [stdPairs, hh, hl, toRune_surrogate u (Or.inl hh)]
    · by_cases hl : isLow u = true
      · simp [stdPairs, hh, hl, toRune_surrogate u (Or.inr hl)]
      · simp [stdPairs, hh, hl, hu (by simpa using hh) (by simpa using hl)]

/-- `stdPairs` is what Go's `utf16.Decode` reads: the same list with U+FFFD for every unpaired
surrogate (units are 16-bit) -/
theorem utf16_std_total (us : List Nat) (h : ∀ u ∈ us, u < 65536) :
    stdDecodeUnits us = (stdPairs us).map (fun o => o.getD replacement) :=
  std_total_aux us (fun u hu => toRune_plain u (h u hu))

/-- big-endian byte strings: an even-length prefix splits the unit list -/
theorem unitsBE_even_append (d e : List Nat) (hd : d.length % 2 = 0) :
    unitsBE (d ++ e) = unitsBE d ++ unitsBE e := by
  fun_induction unitsBE d with
  | case1 => simp
  | case2 a => simp at hd
  | case3 a b rest ih =>
    simp only [List.cons_append, unitsBE]
    rw [ih (by simp at hd; omega)]

theorem unitsLE_even_append (d e : List Nat) (hd : d.length % 2 = 0) :
    unitsLE (d ++ e) = unitsLE d ++ unitsLE e := by
  fun_induction unitsLE d with
  | case1 => simp
  | case2 a => simp at hd
  | case3 a b rest ih =>
    simp only [List.cons_append, unitsLE]
    rw [ih (by simp at hd; omega)]

/-- **odd length**: a last byte without a partner is read as if a zero byte followed
(`data = append(data, 0)`), big-endian as the high byte, little-endian as the low byte -/
theorem utf16_odd_tail (d : List Nat) (a : Nat) (hd : d.length % 2 = 0) :
    decodeUTF16BE (d ++ [a]) = decodeUTF16BE (d ++ [a, 0]) ∧
    decodeUTF16LE (d ++ [a]) = decodeUTF16LE (d ++ [a, 0]) := by
  unfold decodeUTF16BE decodeUTF16LE
  rw [unitsBE_even_append d _ hd, unitsBE_even_append d _ hd,
    unitsLE_even_append d _ hd, unitsLE_even_append d _ hd]
  simp [unitsBE, unitsLE]

/-- **`DecodeUTF16BE/LE` on every byte string** -/
theorem utf16_bytes_total (data : List Nat) :
    decodeUTF16BE data = (stdPairs (unitsBE data)).filterMap id ∧
    decodeUTF16LE data = (stdPairs (unitsLE data)).filterMap id :=
  ⟨utf16_units_total _, utf16_units_total _⟩

theorem bytesBE_length_even (us : List Nat) : (bytesBE us).length % 2 = 0 := by
  induction us with
  | nil => simp [bytesBE]
  | cons u us ih =>
    simp only [bytesBE, List.flatMap_cons, List.length_append, List.length_cons, List.length_nil] at ih ⊢
    omega

theorem bytesLE_length_even (us : List Nat) : (bytesLE us).length % 2 = 0 := by
  induction us with
  | nil => simp [bytesLE]
  | cons u us ih =>
    simp only [bytesLE, List.flatMap_cons, List.length_append, List.length_cons, List.length_nil] at ih ⊢
    omega

theorem decodeUnits_valid_prefix (s : List Nat) (hs : ∀ c ∈ s, IsScalar c) (rest : List Nat) :
    decodeUnits (encodeUnits s ++ rest) = s ++ decodeUnits rest := by
  induction s with
  | nil => simp [encodeUnits]
  | cons c s ih =>
    have : encodeUnits (c :: s) ++ rest = encodeScalar c ++ (encodeUnits s ++ rest) := by
      simp [encodeUnits]
    rw [this, decodeUnits_encodeScalar c (hs c (by simp)), ih (fun x hx => hs x (by simp [hx]))]
    rfl

/-- **a valid UTF-16 prefix decodes to its text whatever follows** (any bytes, also an odd
number of them, also unpaired surrogates) -/
theorem utf16_valid_prefix (s : List Nat) (hs : ∀ c ∈ s, IsScalar c) (rest : List Nat) :
    decodeUTF16BE (bytesBE (encodeUnits s) ++ rest) = s ++ decodeUTF16BE rest ∧
    decodeUTF16LE (bytesLE (encodeUnits s) ++ rest) = s ++ decodeUTF16LE rest := by
  unfold decodeUTF16BE decodeUTF16LE
  rw [unitsBE_even_append _ _ (bytesBE_length_even _), unitsLE_even_append _ _ (bytesLE_length_even _),
    unitsBE_bytesBE, unitsLE_bytesLE]
  exact ⟨decodeUnits_valid_prefix s hs _, decodeUnits_valid_prefix s hs _⟩

example : decodeUTF16BE (bytesBE (encodeUnits [0x41, 0x1D400]) ++ [0xD8, 0x00, 0x42]) = [0x41, 0x1D400, 0x4200] := by
  decide

/-- **a byte-order mark through `Font.DecodeString`, every byte string**: a font without
ToUnicode - whatever its encoding name and `/Differences` - reads ANY bytes after `FE FF`
(`FF FE`) as UTF-16BE (LE) in the standard way, unpaired surrogates dropped, NFC last -/
theorem font_utf16_total (nfc : List Nat → List Nat) (enc : List Nat) (ds : Diffs) (rest : List Nat) :
    FontDecode.decodeString nfc ⟨none, enc, ds⟩ (0xFE :: 0xFF :: rest)
      = some (nfc ((stdPairs (unitsBE rest)).filterMap id)) ∧
    FontDecode.decodeString nfc ⟨none, enc, ds⟩ (0xFF :: 0xFE :: rest)
      = some (nfc ((stdPairs (unitsLE rest)).filterMap id)) := by
  simp [FontDecode.decodeString, preNFC, decodeUTF16BE, decodeUTF16LE, utf16_units_total]

/-! ## 2. `LookupString` of every CMap value, without the loop counter -/

theorem effectiveWidth_zero_iff (cm : CMap) : effectiveWidth cm = 0 ↔ cm.byteWidth = 0 := by
  unfold effectiveWidth
  split <;> omega

/-- the loop counter of `lookupWidth` is irrelevant once it exceeds the length -/
theorem lookupWidth_fuel (cm : CMap) (w : Nat) (hw : 0 < w) (f1 f2 : Nat) (data : List Nat)
    (h1 : data.length < f1) (h2 : data.length < f2) :
    lookupWidth cm w f1 data = lookupWidth cm w f2 data := by
  induction f1 generalizing f2 data with
  | zero => omega
  | succ f1 ih =>
    cases f2 with
    | zero => omega
    | succ f2 =>
      cases data with
      | nil => simp [lookupWidth]
      | cons b rest =>
        simp only [lookupWidth]
        split
        · rfl
        · rw [ih f2 _ (by simp at h1 ⊢; omega) (by simp at h2 ⊢; omega)]

/-- **fewer bytes than a code**: byte by byte -/
theorem lookupString_short (cm : CMap) (data : List Nat) (h : data.length < effectiveWidth cm) :
    lookupString cm data = data.flatMap (emit cm) := by
  unfold lookupString
  rw [if_pos (by omega)]
  cases data with
  | nil => simp [lookupWidth]
  | cons b rest => simp only [lookupWidth]; rw [if_pos h]

/-- **at least one whole code**: the first `w` bytes are one code, the rest is decoded in the
same way - for every CMap value with a positive effective width -/
theorem lookupString_step (cm : CMap) (data : List Nat) (hw : 0 < effectiveWidth cm)
    (h : effectiveWidth cm ≤ data.length) :
    lookupString cm data
      = emit cm (codeOf (data.take (effectiveWidth cm))) ++ lookupString cm (data.drop (effectiveWidth cm)) := by
  unfold lookupString
  rw [if_pos hw, if_pos hw]
  cases data with
  | nil => simp at h; omega
  | cons b rest =>
    simp only [lookupWidth]
    rw [if_neg (by omega)]
    congr 1
    apply lookupWidth_fuel cm _ hw
    · simp only [List.length_drop, List.length_cons]; omega
    · omega

/-- **whole codes, then anything**: a list of codes of the effective width followed by any
bytes decodes code by code, then the rest -/
theorem lookupString_whole_codes (cm : CMap) (hw : 0 < effectiveWidth cm) (codes : List (List Nat))
    (hc : ∀ c ∈ codes, c.length = effectiveWidth cm) (rest : List Nat) :
    lookupString cm (codes.flatten ++ rest)
      = codes.flatMap (fun c => emit cm (codeOf c)) ++ lookupString cm rest := by
  induction codes with
  | nil => simp
  | cons c cs ih =>
    have hlen := hc c (by simp)
    have hshape : (c :: cs).flatten ++ rest = c ++ (cs.flatten ++ rest) := by simp
    rw [hshape, lookupString_step cm _ hw (by rw [List.length_append]; omega)]
    rw [← hlen, List.take_left, List.drop_left, ih (fun x hx => hc x (by simp [hx]))]
    simp

example : effectiveWidth { byteWidth := 2 } = 2 := by decide

/-! ## 3. the width-less fallback loop -/

/-- a mapped one-byte code wins, whatever the two-byte code starting with it says -/
theorem fallback_one_byte_first (cm : CMap) (hw : cm.byteWidth = 0) (b : Nat) (rest : List Nat)
    (h : lookup cm b ≠ []) :
    lookupString cm (b :: rest) = lookup cm b ++ lookupString cm rest := by
  have he := (effectiveWidth_zero_iff cm).2 hw
  unfold lookupString
  rw [he]
  simp only [Nat.lt_irrefl, if_false]
  cases rest with
  | nil => simp [lookupFallback, h]
  | cons b2 rest => simp [lookupFallback, h]

/-- the first byte alone is unmapped, the two-byte code is mapped: that code is used -/
theorem fallback_two_byte_next (cm : CMap) (hw : cm.byteWidth = 0) (b b2 : Nat) (rest : List Nat)
    (h1 : lookup cm b = []) (h2 : lookup cm ((b <<< 8) ||| b2) ≠ []) :
    lookupString cm (b :: b2 :: rest) = lookup cm ((b <<< 8) ||| b2) ++ lookupString cm rest := by
  have he := (effectiveWidth_zero_iff cm).2 hw
  unfold lookupString
  rw [he]
  simp only [Nat.lt_irrefl, if_false]
  simp [lookupFallback, h1, h2]

/-- neither is mapped: the byte is the character of that number, decoding goes on after it -/
theorem fallback_unmapped_byte (cm : CMap) (hw : cm.byteWidth = 0) (b b2 : Nat) (rest : List Nat)
    (h1 : lookup cm b = []) (h2 : lookup cm ((b <<< 8) ||| b2) = []) :
    lookupString cm (b :: b2 :: rest) = toRune b :: lookupString cm (b2 :: rest) := by
  have he := (effectiveWidth_zero_iff cm).2 hw
  unfold lookupString
  rw [he]
  simp only [Nat.lt_irrefl, if_false]
  simp [lookupFallback, h1, h2]

theorem fallback_nil (cm : CMap) (hw : cm.byteWidth = 0) : lookupString cm [] = [] := by
  have he := (effectiveWidth_zero_iff cm).2 hw
  unfold lookupString
  rw [he]
  simp [lookupFallback]

/-- **a width-less CMap on a string of mapped one-byte codes**: code by code -/
theorem fallback_one_byte_codes (cm : CMap) (hw : cm.byteWidth = 0) (data : List Nat)
    (h : ∀ b ∈ data, lookup cm b ≠ []) :
    lookupString cm data = data.flatMap (lookup cm) := by
  induction data with
  | nil => simpa using fallback_nil cm hw
  | cons b rest ih =>
    rw [fallback_one_byte_first cm hw b rest (h b (by simp)), ih (fun x hx => h x (by simp [hx]))]
    simp

/-- **a width-less CMap on a string of two-byte codes** whose first bytes are not codes of
their own: code by code -/
theorem fallback_two_byte_codes (cm : CMap) (hw : cm.byteWidth = 0) (codes : List (Nat × Nat))
    (h1 : ∀ p ∈ codes, lookup cm p.1 = [])
    (h2 : ∀ p ∈ codes, lookup cm ((p.1 <<< 8) ||| p.2) ≠ []) :
    lookupString cm (codes.flatMap fun p => [p.1, p.2])
      = codes.flatMap fun p => lookup cm ((p.1 <<< 8) ||| p.2) := by
  induction codes with
  | nil => simpa using fallback_nil cm hw
  | cons p ps ih =>
    simp only [List.flatMap_cons, List.cons_append, List.nil_append]
    rw [fallback_two_byte_next cm hw p.1 p.2 _ (h1 p (by simp)) (h2 p (by simp)),
      ih (fun x hx => h1 x (by simp [hx])) (fun x hx => h2 x (by simp [hx]))]

/-- **a width-less CMap that maps nothing below 65536**: every byte string is returned as the
characters of its byte values (Latin-1 reading) -/
theorem fallback_unmapped (cm : CMap) (hw : cm.byteWidth = 0) (hno : ∀ c, c < 65536 → lookup cm c = [])
    (data : List Nat) (hb : AllBytes data) :
    lookupString cm data = data := by
  have he := (effectiveWidth_zero_iff cm).2 hw
  have hfb : ∀ d, lookupString cm d = lookupFallback cm d := by
    intro d
    unfold lookupString
    rw [he]
    simp
  rw [hfb]
  have hr : ∀ b, b < 256 → toRune b = b := fun b hb' => toRune_scalar b (Or.inl (by omega))
  fun_induction lookupFallback cm data with
  | case1 => rfl
  | case2 b u hu =>
    have := hno b (by have := hb b (by simp); omega)
    exact absurd this hu
  | case3 b hu =>
    rw [hr b (hb b (by simp))]
  | case4 b b2 rest u1 hu ih =>
    exact absurd (hno b (by have := hb b (by simp); omega)) hu
  | case5 b b2 rest u1 hu1 u2 hu2 ih =>
    have := hno ((b <<< 8) ||| b2) (be16_lt b b2 (hb b (by simp)) (hb b2 (by simp)))
    exact absurd this hu2
  | case6 b b2 rest u1 hu1 u2 hu2 ih =>
    rw [ih (allBytes_tail hb), hr b (hb b (by simp))]

example : lookupString { chars := [(0x41, [0x3B1])] } [0x41, 0x41] = [0x3B1, 0x3B1] := by decide
example : lookupString { chars := [(0x4142, [0x3B2])] } [0x41, 0x42] = [0x3B2] := by decide

/-! ## 4. raw and named paths -/

theorem toValidAux_ascii (fuel : Nat) (inv : Bool) (data : List Nat) (h : ∀ b ∈ data, b < 128)
    (hf : data.length ≤ fuel) : toValidAux fuel inv data = data := by
  induction data generalizing fuel inv with
  | nil => cases fuel <;> simp [toValidAux]
  | cons b rest ih =>
    cases fuel with
    | zero => simp at hf
    | succ f =>
      simp only [toValidAux]
      rw [if_pos (h b (by simp)), ih f false (fun x hx => h x (by simp [hx])) (by simp at hf; omega)]

/-- `strings.ToValidUTF8` keeps every ASCII string -/
theorem toValidUTF8_ascii (data : List Nat) (h : ∀ b ∈ data, b < 128) : toValidUTF8 data = data :=
  toValidAux_ascii _ _ data h (Nat.le_refl _)

/-- **ASCII without a font table entry, or with a font that has neither ToUnicode nor an
encoding name**: every ASCII string is returned as it is (NFC last) -/
theorem raw_ascii (nfc : List Nat → List Nat) (ds : Diffs) (data : List Nat) (h : ∀ b ∈ data, b < 128) :
    showTextNoFont nfc data = nfc data ∧
    FontDecode.decodeString nfc ⟨none, [], ds⟩ data = some (nfc data) := by
  refine ⟨by simp [showTextNoFont, showTextNoFontPre, toValidUTF8_ascii data h], ?_⟩
  unfold FontDecode.decodeString preNFC
  simp only
  split
  · exact absurd (h 0xFE (by simp)) (by decide)
  · exact absurd (h 0xFF (by simp)) (by decide)
  · simp [toValidUTF8_ascii data h]

/-- the named path is a homomorphism for concatenation -/
theorem decodeWith_append (ds : Diffs) (t : Array Nat) (a b : List Nat) :
    decodeWith ds t (a ++ b) = decodeWith ds t a ++ decodeWith ds t b := by
  simp [decodeWith, List.filterMap_append]

/-- the named path never returns more characters than bytes -/
theorem decodeWith_length_le (ds : Diffs) (t : Array Nat) (data : List Nat) :
    (decodeWith ds t data).length ≤ data.length := by
  unfold decodeWith
  exact List.length_filterMap_le _ _

/-- **concatenation through `Font.DecodeString` (named path)**: for a font without ToUnicode
with an encoding name, a string `a ++ b` in which neither `a ++ b` nor `a` nor `b` starts with a
byte-order mark decodes, before NFC, to the concatenation of the two parts' texts -/
theorem font_named_append (f : Font) (a b : List Nat)
    (hab : path f (a ++ b) = .named) (ha : path f a = .named) (hb : path f b = .named) :
    ∃ ta tb, preNFC f a = some ta ∧ preNFC f b = some tb ∧ preNFC f (a ++ b) = some (ta ++ tb) := by
  have key : ∀ d, path f d = .named →
      preNFC f d = (getEncoding f.encoding).map fun e => decodeWith f.differences e.table d := by
    intro d hd
    unfold path at hd
    unfold preNFC
    cases htu : f.toUnicode with
    | some cm => rw [htu] at hd; cases hd
    | none =>
      rw [htu] at hd
      simp only at hd ⊢
      split
      · simp at hd
      · simp at hd
      · split at hd
        · cases hd
        · cases hd
        · split at hd
          · rename_i henc; rw [if_pos henc]
          · cases hd
  obtain ⟨e, he⟩ := Option.isSome_iff_exists.1 (C07.getencoding_total f.encoding)
  refine ⟨decodeWith f.differences e.table a, decodeWith f.differences e.table b, ?_, ?_, ?_⟩
  · rw [key a ha, he]; rfl
  · rw [key b hb, he]; rfl
  · rw [key _ hab, he]; simp [decodeWith_append]

example : path ⟨none, [65], []⟩ ([1] ++ [2]) = .named ∧ path ⟨none, [65], []⟩ [1] = .named := by decide

/-! ## 5. the fallback loop against code spaces; printable ASCII under the Latin encodings -/

theorem codeOf_one (b : Nat) : codeOf [b] = b := by simp [codeOf]

theorem codeOf_two (a b : Nat) (ha : a < 256) : codeOf [a, b] = (a <<< 8) ||| b := by
  have h : (a * 256) % 4294967296 = a <<< 8 := by
    rw [Nat.shiftLeft_eq]; omega
  simp [codeOf, h]

/-- **a width-less CMap whose one-byte codes are all mapped decodes like the same CMap under a
one-byte code space** - the fallback loop gives what the property specifies for a 1-byte code
space, on every string of mapped codes -/
theorem fallback_as_one_byte_space (cm : CMap) (hw : cm.byteWidth = 0) (data : List Nat)
    (h : ∀ b ∈ data, lookup cm b ≠ []) :
    lookupString cm data = lookupString { cm with byteWidth := 1 } data := by
  have hew : effectiveWidth { cm with byteWidth := 1 } = 1 := by
    unfold effectiveWidth; simp only; split <;> omega
  rw [fallback_one_byte_codes cm hw data h]
  induction data with
  | nil => rw [lookupString_short _ [] (by rw [hew]; simp)]; rfl
  | cons b rest ih =>
    rw [lookupString_step _ (b :: rest) (by omega) (by rw [hew]; simp), hew]
    rw [List.flatMap_cons, ih (fun x hx => h x (by simp [hx]))]
    congr 1
    simp only [List.take_succ_cons, List.take_zero, codeOf_one]
    have hl : lookup { cm with byteWidth := 1 } b = lookup cm b := rfl
    unfold emit
    rw [hl, if_pos (h b (by simp))]

/-- **the same for two-byte codes** whose first bytes are not codes of their own: the fallback
loop decodes like a two-byte code space -/
theorem fallback_as_two_byte_space (cm : CMap) (hw : cm.byteWidth = 0) (codes : List (Nat × Nat))
    (hb : ∀ p ∈ codes, p.1 < 256)
    (h1 : ∀ p ∈ codes, lookup cm p.1 = [])
    (h2 : ∀ p ∈ codes, lookup cm ((p.1 <<< 8) ||| p.2) ≠ []) :
    lookupString cm (codes.flatMap fun p => [p.1, p.2])
      = lookupString { cm with byteWidth := 2, actualByteWidth := 2 } (codes.flatMap fun p => [p.1, p.2]) := by
  have hew : effectiveWidth { cm with byteWidth := 2, actualByteWidth := 2 } = 2 := by
    unfold effectiveWidth; simp
  rw [fallback_two_byte_codes cm hw codes h1 h2]
  induction codes with
  | nil => rw [lookupString_short _ _ (by rw [hew]; simp)]; rfl
  | cons p ps ih =>
    simp only [List.flatMap_cons, List.cons_append, List.nil_append]
    rw [lookupString_step _ (p.1 :: p.2 :: _) (by omega) (by rw [hew]; simp), hew]
    rw [ih (fun x hx => hb x (by simp [hx])) (fun x hx => h1 x (by simp [hx])) (fun x hx => h2 x (by simp [hx]))]
    simp only [List.take_succ_cons, List.take_zero, List.drop_succ_cons, List.drop_zero,
      codeOf_two p.1 p.2 (hb p (by simp))]
    congr 1
    have hl : lookup { cm with byteWidth := 2, actualByteWidth := 2 } ((p.1 <<< 8) ||| p.2)
        = lookup cm ((p.1 <<< 8) ||| p.2) := rfl
    unfold emit
    rw [hl, if_pos (h2 p (by simp))]

example : lookupString { chars := [(0x41, [0x3B1])] } [0x41] = lookupString { chars := [(0x41, [0x3B1])], byteWidth := 1 } [0x41] := by
  decide

/-- a table that maps every printable ASCII code (0x20 - 0x7E) to itself -/
def printableOK (t : Array Nat) : Bool := (List.range 127).all fun b => b < 32 || t[b]? == some b

/-- WinAnsi, MacRoman and PDFDoc - and the table `GetEncoding` falls back to for a name it does
not know (`Identity-H`) or an empty name - keep printable ASCII -/
theorem latin_tables_printable :
    printableOK Tabula.Gen.Encodings.winAnsiTable = true ∧ printableOK Tabula.Gen.Encodings.macRomanTable = true ∧
    printableOK Tabula.Gen.Encodings.pdfDocTable = true ∧
    (getEncoding (nameBytes "WinAnsiEncoding")).any (fun e => printableOK e.table) = true ∧
    (getEncoding (nameBytes "MacRomanEncoding")).any (fun e => printableOK e.table) = true ∧
    (getEncoding (nameBytes "PDFDocEncoding")).any (fun e => printableOK e.table) = true ∧
    (getEncoding (nameBytes "Identity-H")).any (fun e => printableOK e.table) = true := by
  decide +kernel

/-- StandardEncoding keeps printable ASCII except the two quotes: 0x27 is U+2019, 0x60 is U+2018 -/
theorem standard_ascii_exact :
    ((List.range 127).all fun b => b < 32 ||
      Tabula.Gen.Encodings.standardEncodingTableData[b]? == some (if b = 0x27 then 0x2019 else if b = 0x60 then 0x2018 else b)) = true := by
  decide +kernel

theorem filterMap_self (f : Nat → Option Nat) (l : List Nat) (h : ∀ b ∈ l, f b = some b) :
    l.filterMap f = l := by
  induction l with
  | nil => rfl
  | cons b rest ih =>
    rw [List.filterMap_cons, h b (by simp)]
    simp only
    rw [ih (fun x hx => h x (by simp [hx]))]

theorem decodeWith_printable (t : Array Nat) (hok : printableOK t = true) (data : List Nat)
    (hd : ∀ b ∈ data, 32 ≤ b ∧ b ≤ 126) : decodeWith [] t data = data := by
  unfold decodeWith
  apply filterMap_self
  intro b hbm
  have hb := hd b hbm
  have ht : t[b]? = some b := by
    unfold printableOK at hok
    rw [List.all_eq_true] at hok
    have := hok b (by simp; omega)
    simp only [Bool.or_eq_true, decide_eq_true_eq, beq_iff_eq] at this
    rcases this with h | h
    · omega
    · exact h
  have hr : toRune b = b := toRune_scalar b (Or.inl (by omega))
  have hne : b ≠ 0 := by omega
  simp only [customDecodeByte, diffLookup, List.find?_nil, ht, hne, ne_eq, not_false_eq_true, if_true, hr]

/-- **printable ASCII through `Font.DecodeString`**: a font without ToUnicode and without
`/Differences` whose encoding name selects a table that keeps printable ASCII (WinAnsi, MacRoman,
PDFDoc, any unknown name: `latin_tables_printable`) returns every string of printable ASCII
codes unchanged, NFC last -/
theorem font_ascii_identity (nfc : List Nat → List Nat) (enc : List Nat) (henc : enc ≠ []) (e : Enc)
    (he : getEncoding enc = some e) (hok : printableOK e.table = true) (data : List Nat)
    (hd : ∀ b ∈ data, 32 ≤ b ∧ b ≤ 126) :
    FontDecode.decodeString nfc ⟨none, enc, []⟩ data = some (nfc data) := by
  unfold FontDecode.decodeString preNFC
  simp only
  split
  · have := hd 0xFE (by simp); omega
  · have := hd 0xFF (by simp); omega
  · rw [if_pos henc, he]
    simp [decodeWith_printable e.table hok data hd]

example : ∃ e, getEncoding (nameBytes "WinAnsiEncoding") = some e ∧ printableOK e.table = true := by
  have h := latin_tables_printable.2.2.2.1
  cases hg : getEncoding (nameBytes "WinAnsiEncoding") with
  | none => rw [hg] at h; simp at h
  | some e => rw [hg] at h; exact ⟨e, rfl, by simpa using h⟩

end Tabula.C07More
