import TabulaModel.Lemmas.Filters
import TabulaModel.Lemmas.StreamDict
import TabulaModel.Lemmas.FiltersSound
import TabulaModel.Model.StreamConform
/-!
# C05, end to end — the statement of the property over the public entry point

`Props/C05.lean` proves the round trip mechanism by mechanism. This file chains those theorems
into the sentence of the property, over `streamDecodeD` (`Model/StreamDict.lean`): the model of
`(&core.Stream{Dict, Data}).Decode()` that starts from the stream *dictionary* (key lookups,
the type switches on `Filter` / `DecodeParms`, `dictToParams`, `getIntParam`).

* the pipeline is any list of stages `WStage` (any length): ASCIIHex, ASCII85, Flate without
  predictor, Flate + TIFF predictor, Flate + PNG predictor with any per-row filter types;
* the encoded data is anything a conforming encoder of each stage may write (`WStage.Writes`):
  for the ASCII filters every white-space interleaving, either case, with the EOD marker
  (followed by anything) or simply ending; for Flate any zlib stream that inflates to the
  (predicted) data — no assumption about zlib beyond that;
* the dictionary is anything a conforming writer may write for that pipeline (`Conforming`):
  `Filter` a name (one stage) or an array of full or abbreviated names; `DecodeParms` a
  dictionary, an array with an entry per filter (dictionary or null, a shorter array allowed
  where the missing stages need none), null or absent; numbers as Int or as Real with an
  integral value; default-valued keys present or not; any other keys anywhere.

`decode_inverts_encoding` then says `Decode()` returns the original bytes.
`decode_error_propagates` / `undecodable_dict_*` say the error of a stage is the result.
-/
namespace Tabula.C05E
open Tabula.Filters

/-- the byte strings -/
abbrev Bytes (x : Str) : Prop := ∀ b ∈ x, b < 256

/-! ## what a conforming writer puts into a dictionary -/

/-- the integer `v` written as an Int or as a Real with the integral value `v` -/
def Num (d : Dict) (k : Str) (v : Int) : Prop :=
  dictGet d k = some (.int v) ∨ ∃ e, dictGet d k = some (.real (v * (2 : Int) ^ e) e)

/-- … or left out when `v` is the default of the key -/
def NumD (d : Dict) (k : Str) (v dflt : Int) : Prop :=
  Num d k v ∨ (dictGet d k = none ∧ v = dflt)

/-- `getIntParam` reads what the writer meant -/
theorem num_reads (d : Dict) (k : Str) (v : Int) (h : Num d k v) :
    intOpt (dictToParams d) k = some v := by
  rcases h with h | ⟨e, h⟩
  · exact intOpt_int d k v h
  · rw [intOpt_real d k _ e h, truncReal_integral]

theorem numD_reads (d : Dict) (k : Str) (v dflt : Int) (h : NumD d k v dflt) :
    (intOpt (dictToParams d) k).getD dflt = v := by
  rcases h with h | ⟨h, hv⟩
  · rw [num_reads d k v h]; rfl
  · rw [intOpt_absent d k h, hv]; rfl

/-- **getIntParam**: the value of `filters.getIntParam(dictToParams(d), key, dflt)` for every kind
of object under the key: an Int is itself, a Real is cut toward zero (an integral one is itself,
`v + f/2^e` and `-(v + f/2^e)` read as `v` and `-v`), a missing key and every other kind of object
(null, boolean, string, name, array, dictionary, reference) give the default. -/
theorem getIntParam_cases (d : Dict) (k : Str) (dflt : Int) :
    (∀ n, dictGet d k = some (.int n) → getIntParam (some (dictToParams d)) k dflt = n) ∧
    (∀ m e, dictGet d k = some (.real m e) → getIntParam (some (dictToParams d)) k dflt = Int.tdiv m ((2 : Int) ^ e)) ∧
    (∀ v e, dictGet d k = some (.real (v * (2 : Int) ^ e) e) → getIntParam (some (dictToParams d)) k dflt = v) ∧
    (∀ (v e f : Nat), f < 2 ^ e → dictGet d k = some (.real ((v : Int) * (2 : Int) ^ e + f) e) →
      getIntParam (some (dictToParams d)) k dflt = v) ∧
    (∀ (v e f : Nat), f < 2 ^ e → dictGet d k = some (.real (-((v : Int) * (2 : Int) ^ e + f)) e) →
      getIntParam (some (dictToParams d)) k dflt = -(v : Int)) ∧
    (dictGet d k = none → getIntParam (some (dictToParams d)) k dflt = dflt) ∧
    (∀ o, dictGet d k = some o → (∀ n, o ≠ .int n) → (∀ m e, o ≠ .real m e) →
      getIntParam (some (dictToParams d)) k dflt = dflt) ∧
    getIntParam none k dflt = dflt := by
  refine ⟨?_, ?_, ?_, ?_, ?_, ?_, ?_, rfl⟩
  · intro n h; rw [getIntParam_eq, intOpt_int d k n h]; rfl
  · intro m e h; rw [getIntParam_eq, intOpt_real d k m e h]; rfl
  · intro v e h; rw [getIntParam_eq, intOpt_real d k _ e h, truncReal_integral]; rfl
  · intro v e f hf h; rw [getIntParam_eq, intOpt_real d k _ e h, truncReal_fraction_nonneg v e f hf]; rfl
  · intro v e f hf h; rw [getIntParam_eq, intOpt_real d k _ e h, truncReal_fraction_neg v e f hf]; rfl
  · intro h; rw [getIntParam_eq, intOpt_absent d k h]; rfl
  · intro o h h1 h2; rw [getIntParam_eq, intOpt_nonnumber d k o h h1 h2]; rfl

/-- non-vacuity: `/Columns 12.0` as the Real 96/2^3 next to another key -/
example : Num [(kPredictor, .int 12), (kColumns, .real 96 3)] kColumns 12 := Or.inr ⟨3, rfl⟩

/-! ## stages, their names, parameters and encodings -/

/- `WStage` (the stages of a pipeline: hex, a85, flate, tiff, png) and `WStage.name` are in
`Model/StreamConform.lean`, next to the executable checker `conformingB`. -/

/-- `s.ParmsOK o`: the object `o` (`none` = no entry) is a conforming `DecodeParms` entry for the
stage. The ASCII filters take no parameters (anything goes); plain Flate takes nothing, null, or a
dictionary whose Predictor is 1 or missing; a predictor stage needs its dictionary: Predictor,
and Colors / Columns / BitsPerComponent unless they have their default value (1, 1, 8). Other
keys of the dictionary are free. -/
def _root_.Tabula.Filters.WStage.ParmsOK : WStage → Option Obj → Prop
  | .hex _, _ => True
  | .a85 _, _ => True
  | .flate _, o => ∀ kvs, o = some (.dict kvs) → (dictGet kvs kPredictor = none ∨ Num kvs kPredictor 1)
  | .tiff _ colors columns, o => ∃ kvs, o = some (.dict kvs) ∧ Num kvs kPredictor 2 ∧
      NumD kvs kColors colors 1 ∧ NumD kvs kColumns columns 1 ∧ NumD kvs kBitsPerComponent 8 8
  | .png _ pred colors columns _, o => ∃ kvs, o = some (.dict kvs) ∧ Num kvs kPredictor pred ∧
      NumD kvs kColors colors 1 ∧ NumD kvs kColumns columns 1 ∧ NumD kvs kBitsPerComponent 8 8

/-- `s.Writes inflate x y`: `y` is an encoding of `x` that a conforming encoder of the stage may
produce. ASCIIHex: a writing of `x` (two digits per byte, either case, white space anywhere; the
low digit 0 of the last byte may be left out: `HexWriting`), ending there or followed by `>` and
anything. ASCII85: the encoder's groups with white space
anywhere, ending there or followed by `~>` and anything. Flate: any zlib stream that inflates to
`x`, to the TIFF-differenced `x` (whole rows), or to the PNG-filtered `x` (one filter type 0..4
per row, chosen freely), the geometry within the bound `predictorRowBytes` enforces. -/
def _root_.Tabula.Filters.WStage.Writes (inflate : Str → Option Str) : WStage → Str → Str → Prop
  | .hex _, x, y => ∃ s, HexWriting s x ∧ (y = s ∨ ∃ t, y = s ++ 62 :: t)
  | .a85 _, x, y => ∃ s, A85Writing s x ∧ (y = s ∨ ∃ t, y = s ++ 126 :: 62 :: t)
  | .flate _, x, y => inflate y = some x
  | .tiff _ colors columns, x, y =>
    1 ≤ columns ∧ 1 ≤ colors ∧ columns * colors ≤ 2147483646 ∧ x.length % (columns * colors) = 0 ∧
      inflate y = some (tiffPredict colors columns x)
  | .png _ pred colors columns tags, x, y =>
    10 ≤ pred ∧ pred ≤ 15 ∧ 1 ≤ columns ∧ 1 ≤ colors ∧ columns * colors ≤ 2147483646 ∧
      x.length = tags.length * (columns * colors) ∧ (∀ t ∈ tags, t ≤ 4) ∧
      inflate y = some (pngPredict colors columns tags x)

/-- encoding for the filter array `stages`: the last filter is applied to the data first; the
original data and every intermediate result are byte strings (values < 256) -/
def ChainWrites (inflate : Str → Option Str) : List WStage → Str → Str → Prop
  | [], x, y => y = x
  | s :: ss, x, y => ∃ m, ChainWrites inflate ss x m ∧ Bytes m ∧ s.Writes inflate m y

theorem dwf_flate (ext : Ext) (d : Str) (a : Bool) (p : Option Params) :
    decodeWithFilter ext d (if a then nFl else nFlateDecode) p = flateDecode ext.inflate d p := by
  cases a <;> rfl

theorem dwf_hex (ext : Ext) (d : Str) (a : Bool) (p : Option Params) :
    decodeWithFilter ext d (if a then nAHx else nASCIIHexDecode) p = hexDecode d := by
  cases a <;> rfl

theorem dwf_a85 (ext : Ext) (d : Str) (a : Bool) (p : Option Params) :
    decodeWithFilter ext d (if a then nA85 else nASCII85Decode) p = a85Decode d := by
  cases a <;> rfl

/-- the parameters a predictor stage's dictionary is read as -/
theorem predictor_parms (kvs : Dict) (pred colors columns : Nat)
    (hp : Num kvs kPredictor pred) (hc : NumD kvs kColors colors 1) (hcol : NumD kvs kColumns columns 1)
    (hb : NumD kvs kBitsPerComponent 8 8) :
    (toParams (dictToParams kvs)).predictor = some (pred : Int) ∧
    (toParams (dictToParams kvs)).norm.colors = some (colors : Int) ∧
    (toParams (dictToParams kvs)).norm.columns = some (columns : Int) ∧
    (toParams (dictToParams kvs)).norm.bpc = some 8 := by
  refine ⟨num_reads kvs _ _ hp, ?_, ?_, ?_⟩
  · simp only [Params.norm, toParams]; rw [numD_reads kvs _ _ _ hc]
  · simp only [Params.norm, toParams]; rw [numD_reads kvs _ _ _ hcol]
  · simp only [Params.norm, toParams]; rw [numD_reads kvs _ _ _ hb]

/-- **one stage through the dictionary**: decoding with the stage's name and whatever conforming
parameter object the dictionary holds for it inverts every conforming encoding of the stage -/
theorem stage_decode (ext : Ext) (s : WStage) (o : Option Obj) (m y : Str) (hm : Bytes m)
    (hp : s.ParmsOK o) (hw : s.Writes ext.inflate m y) :
    decodeWithFilter ext y s.name (paramsObjToDict (objToPObj o)) = some m := by
  cases s with
  | hex a =>
    obtain ⟨s, hs, hy⟩ := hw
    simp only [WStage.name, dwf_hex]
    rcases hs with hs | ⟨s', x', c, v, w, h1, h2, h3, h4, h5⟩
    · rcases hy with hy | ⟨t, hy⟩
      · rw [hy]; exact hexDecode_enc_end s m hs
      · rw [hy]; exact hexDecode_enc_eod s m t hs
    · rcases hy with hy | ⟨t, hy⟩
      · rw [hy, h5, h4]; exact hexDecode_odd_end s' x' w c v h1 h2 h3
      · rw [hy, h5, h4, List.append_assoc, List.cons_append]; exact hexDecode_odd_eod s' x' w t c v h1 h2 h3
  | a85 a =>
    obtain ⟨s, hs, hy⟩ := hw
    simp only [WStage.name, dwf_a85]
    rcases hy with hy | ⟨t, hy⟩
    · have := a85Decode_writing s m [] hm hs a85Go_end
      rw [hy]; simpa using this
    · rw [hy]; exact a85Decode_writing s m _ hm hs (a85Go_eod t)
  | flate a =>
    simp only [WStage.Writes] at hw
    simp only [WStage.name, dwf_flate, flateDecode, hw]
    cases o with
    | none => rfl
    | some ob =>
      cases ob with
      | dict kvs =>
        simp only [objToPObj, paramsObjToDict, flatePost]
        rcases hp kvs rfl with h | h
        · have : (toParams (dictToParams kvs)).predictor = none := intOpt_absent kvs _ h
          rw [this]
        · have : (toParams (dictToParams kvs)).predictor = some 1 := num_reads kvs _ _ h
          rw [this]; simp
      | _ => rfl
  | tiff a colors columns =>
    obtain ⟨h1, h2, hcap, hlen, hinf⟩ := hw
    obtain ⟨kvs, ho, hpr, hc, hcol, hb⟩ := hp
    obtain ⟨e1, e2, e3, e4⟩ := predictor_parms kvs 2 colors columns hpr hc hcol hb
    subst ho
    simp only [WStage.name, dwf_flate, flateDecode, hinf, objToPObj, paramsObjToDict, flatePost, e1]
    have : ¬ (((2 : Nat) : Int) = 1) := by omega
    simp only [ne_eq, this, not_false_eq_true, if_true]
    rw [applyPredictor_norm]
    simp only [applyPredictor]
    have t2 : (((2 : Nat) : Int) = 2) := by omega
    simp only [t2, if_true]
    exact applyTIFFPredictor2_tiffPredict colors columns m _ e2 e3 (Or.inr e4) h1 h2 hcap hlen hm
  | png a pred colors columns tags =>
    obtain ⟨hp1, hp2, h1, h2, hcap, hlen, ht, hinf⟩ := hw
    obtain ⟨kvs, ho, hpr, hc, hcol, hb⟩ := hp
    obtain ⟨e1, e2, e3, e4⟩ := predictor_parms kvs pred colors columns hpr hc hcol hb
    subst ho
    simp only [WStage.name, dwf_flate, flateDecode, hinf, objToPObj, paramsObjToDict, flatePost, e1]
    have a1 : ¬ ((pred : Int) = 1) := by omega
    have a2 : ¬ ((pred : Int) = 2) := by omega
    have a3 : (pred : Int) ≥ 10 ∧ (pred : Int) ≤ 15 := by omega
    simp only [ne_eq, a1, not_false_eq_true, if_true]
    rw [applyPredictor_norm]
    simp only [applyPredictor, a1, a2, a3, and_self, if_true, if_false]
    exact applyPNGPredictor_pngPredict colors columns tags m _ e2 e3 (Or.inr e4) h1 h2 hcap hlen ht hm

/-- the filter loop of `Decode`: if the parameters stage `j` is handed are those of some conforming
object for that stage, the loop undoes the chain -/
theorem chain_decode (ext : Ext) (dp : DParms) (x : Str) :
    ∀ (ss : List WStage) (i : Nat) (y : Str),
      (∀ j s, ss[j]? = some s → ∃ o, s.ParmsOK o ∧ chainParams dp (i + j) = paramsObjToDict (objToPObj o)) →
      ChainWrites ext.inflate ss x y →
      decodeChain ext dp (ss.map fun s => FObj.name s.name) i y = some x := by
  intro ss
  induction ss with
  | nil =>
    intro i y _ hw
    simp only [ChainWrites] at hw
    simp [decodeChain, hw]
  | cons s ss ih =>
    intro i y hp hw
    obtain ⟨m, hrest, hm, hs⟩ := hw
    obtain ⟨o, ho, hcp⟩ := hp 0 s rfl
    simp only [List.map_cons, decodeChain]
    rw [Nat.add_zero] at hcp
    rw [hcp, stage_decode ext s o m y hm ho hs]
    apply ih (i + 1) m _ hrest
    intro j s' hj
    obtain ⟨o', ho', hcp'⟩ := hp (j + 1) s' (by simpa using hj)
    refine ⟨o', ho', ?_⟩
    rw [← hcp']
    congr 1
    omega

/-! ## the dictionary of a conforming writer -/

/-- `Conforming d stages`: the stream dictionary `d` describes the pipeline `stages` the way
PDF 32000-1 §7.3.8.2 / §7.4 allow. Only `Filter` and `DecodeParms` are looked at: any other key
(Length, Type, DL, …) may be present.
1. `Filter` is the array of the stage names (full or abbreviated), and `DecodeParms` is either an
   array whose i-th entry is a conforming parameter object of stage i (null / any non-dictionary
   / missing at the end for stages that need none), or a non-array (absent, null, one
   dictionary) that is conforming for every stage;
2. one stage: `Filter` is its name, `DecodeParms` its parameter object (absent, null, dictionary);
3. no stage: no `Filter` entry. -/
def Conforming (d : Dict) (stages : List WStage) : Prop :=
  (dictGet d kFilter = some (.array (stages.map fun s => Obj.name s.name)) ∧
    ((∃ os : List Obj, dictGet d kDecodeParms = some (.array os) ∧
        ∀ (i : Nat) (s : WStage), stages[i]? = some s → s.ParmsOK os[i]?) ∨
     ((∀ os, dictGet d kDecodeParms ≠ some (.array os)) ∧ ∀ s ∈ stages, s.ParmsOK (dictGet d kDecodeParms)))) ∨
  (∃ s, stages = [s] ∧ dictGet d kFilter = some (.name s.name) ∧ s.ParmsOK (dictGet d kDecodeParms)) ∨
  (stages = [] ∧ dictGet d kFilter = none)

theorem objToDParms_nonarray (o : Option Obj) (h : ∀ os, o ≠ some (.array os)) :
    objToDParms o = .one (objToPObj o) := by
  cases o with
  | none => rfl
  | some ob =>
    cases ob with
    | array os => exact absurd rfl (h os)
    | _ => rfl

theorem paramsObjToDict_array (os : List Obj) : paramsObjToDict (objToPObj (some (.array os))) = none := rfl

/-- **decode_inverts_encoding** — the property's first sentence over the public entry point.
For every byte string `x` (`ChainWrites` says `Bytes x` for a non-empty pipeline), every pipeline `stages` (any length, any mix of ASCIIHex, ASCII85,
Flate, Flate+TIFF, Flate+PNG with any geometry and per-row filter types), every encoding `y` the
conforming encoders may produce for it (white space, case, EOD markers, any zlib stream) and every
dictionary `d` a conforming writer may write for it (names abbreviated or not; DecodeParms as
dictionary, array, null or absent; numbers as Int or integral Real; defaults left out or not;
other keys anywhere): `Decode()` on `(d, y)` returns exactly `x`. -/
theorem decode_inverts_encoding (ext : Ext) (stages : List WStage) (d : Dict) (x y : Str)
    (hd : Conforming d stages) (hw : ChainWrites ext.inflate stages x y) :
    streamDecodeD ext d y = some x := by
  unfold streamDecodeD
  rcases hd with ⟨hf, hp⟩ | ⟨s, hs, hf, hp⟩ | ⟨hs, hf⟩
  · rw [hf]
    simp only [objToFilter, streamDecode, List.map_map]
    have hmap : (objToFObj ∘ fun s : WStage => Obj.name s.name) = fun s : WStage => FObj.name s.name := by
      funext s; rfl
    rw [hmap]
    apply chain_decode ext _ x stages 0 y _ hw
    intro j s hj
    rw [Nat.zero_add]
    rcases hp with ⟨os, hdp, hall⟩ | ⟨hna, hall⟩
    · rw [hdp]
      simp only [objToDParms, chainParams, List.getElem?_map]
      cases hoj : os[j]? with
      | none =>
        refine ⟨none, ?_, rfl⟩
        have := hall j s hj
        rwa [hoj] at this
      | some ob =>
        refine ⟨some ob, ?_, rfl⟩
        have := hall j s hj
        rwa [hoj] at this
    · refine ⟨dictGet d kDecodeParms, hall s (List.mem_of_getElem? hj), ?_⟩
      rw [objToDParms_nonarray _ hna]
      rfl
  · subst hs
    obtain ⟨m, hbase, hm, hsw⟩ := hw
    simp only [ChainWrites] at hbase
    subst hbase
    rw [hf]
    simp only [objToFilter, streamDecode]
    have key := stage_decode ext s (dictGet d kDecodeParms) m y hm hp hsw
    cases hdp : dictGet d kDecodeParms with
    | none => rw [hdp] at key; exact key
    | some ob =>
      rw [hdp] at key
      cases ob with
      | array os => exact key
      | _ => exact key
  · subst hs
    simp only [ChainWrites] at hw
    rw [hf, hw]
    rfl

/-- non-vacuity of `Conforming`: `<< /Length 5 /DecodeParms [null << /Columns 3.0 /Predictor 12 >>]
/Filter [/AHx /Fl] >>` for ASCIIHex then Flate + PNG (Up), Columns written as a Real, Colors and
BitsPerComponent left out -/
example : Conforming
    [([76, 101, 110, 103, 116, 104], .int 5),
     (kDecodeParms, .array [.null, .dict [(kColumns, .real 6 1), (kPredictor, .int 12)]]),
     (kFilter, .array [.name nAHx, .name nFl])]
    [.hex true, .png true 12 1 3 [2, 2]] := by
  refine Or.inl ⟨rfl, Or.inl ⟨_, rfl, ?_⟩⟩
  intro i s hi
  match i, hi with
  | 0, hi => cases hi; trivial
  | 1, hi =>
    cases hi
    exact ⟨_, rfl, Or.inl rfl, Or.inr ⟨rfl, rfl⟩, Or.inl (Or.inr ⟨1, rfl⟩), Or.inr ⟨rfl, rfl⟩⟩
  | n + 2, hi => simp at hi

/-- non-vacuity of `ChainWrites`: `inflate` the inverse of a "stored" compressor (identity);
`[1,2,3,4,5,6]` PNG-filtered with Up on both rows, then written in hexadecimal with white space,
mixed case and trailing bytes after `>` -/
example : ChainWrites some [.hex true, .png true 12 1 3 [2, 2]] [1, 2, 3, 4, 5, 6]
    [48, 50, 32, 48, 49, 48, 50, 10, 48, 51, 48, 50, 48, 51, 48, 51, 48, 51, 62, 120] := by
  refine ⟨[2, 1, 2, 3, 2, 3, 3, 3], ⟨_, rfl, by decide, ?_⟩, by decide, ?_⟩
  · refine ⟨by omega, by omega, by omega, by omega, by omega, by decide, by decide, by decide⟩
  · refine ⟨[48, 50, 32, 48, 49, 48, 50, 10, 48, 51, 48, 50, 48, 51, 48, 51, 48, 51], Or.inl ?_, Or.inr ⟨[120], rfl⟩⟩
    exact .byte 48 50 2 [] _ _ (by decide) (by decide) (by decide)
      (.ws 32 _ _ (by decide) (.byte 48 49 1 [] _ _ (by decide) (by decide) (by decide)
      (.byte 48 50 2 [] _ _ (by decide) (by decide) (by decide)
      (.ws 10 _ _ (by decide) (.byte 48 51 3 [] _ _ (by decide) (by decide) (by decide)
      (.byte 48 50 2 [] _ _ (by decide) (by decide) (by decide)
      (.byte 48 51 3 [] _ _ (by decide) (by decide) (by decide)
      (.byte 48 51 3 [] _ _ (by decide) (by decide) (by decide)
      (.byte 48 51 3 [] _ _ (by decide) (by decide) (by decide) .nil)))))))))

/-- with a concrete compressor: if `inflate` inverts `deflate`, the canonical encoders of
`Props/C05.lean` (`hexEncode`, `a85Encode`, `deflate ∘ pngPredict`, …) are conforming writers -/
theorem canonical_writes (inflate : Str → Option Str) (deflate : Str → Str)
    (hz : ∀ z, inflate (deflate z) = some z) (x : Str) (hx : Bytes x) :
    (∀ a u, (WStage.hex a).Writes inflate x (hexEncode u x)) ∧
    (∀ a, (WStage.a85 a).Writes inflate x (a85Encode x)) ∧
    (∀ a, (WStage.flate a).Writes inflate x (deflate x)) := by
  refine ⟨?_, ?_, ?_⟩
  · intro a u
    exact ⟨hexBody u x, Or.inl (hexBody_HexEnc u x hx), Or.inr ⟨[], rfl⟩⟩
  · intro a
    refine ⟨a85Body x, ?_, Or.inr ⟨[], rfl⟩⟩
    unfold A85Writing
    rw [List.filter_eq_self]
    intro c hc
    simp [(a85Body_no_tilde x hx c hc).2.1]
  · intro a
    exact hz x

/-! ## the executable checker of `Conforming` -/

theorem numB_sound (d : Dict) (k : Str) (v : Int) (h : numB d k v = true) : Num d k v := by
  unfold numB at h
  split at h
  · rename_i n hg
    have : n = v := by simpa using h
    subst this
    exact Or.inl hg
  · rename_i m e hg
    have : m = v * (2 : Int) ^ e := by simpa using h
    subst this
    exact Or.inr ⟨e, hg⟩
  · exact absurd h (by simp)

theorem numDB_sound (d : Dict) (k : Str) (v dflt : Int) (h : numDB d k v dflt = true) : NumD d k v dflt := by
  unfold numDB at h
  rcases Bool.or_eq_true _ _ |>.mp h with h | h
  · exact Or.inl (numB_sound d k v h)
  · have h' := Bool.and_eq_true _ _ |>.mp h
    refine Or.inr ⟨?_, by simpa using h'.2⟩
    cases hg : dictGet d k with
    | none => rfl
    | some o => rw [hg] at h'; simp at h'

theorem parmsOKB_sound (s : WStage) (o : Option Obj) (h : parmsOKB s o = true) : s.ParmsOK o := by
  cases s with
  | hex a => trivial
  | a85 a => trivial
  | flate a =>
    intro kvs ho
    subst ho
    simp only [parmsOKB, Bool.or_eq_true] at h
    rcases h with h | h
    · left
      cases hg : dictGet kvs kPredictor with
      | none => rfl
      | some o => rw [hg] at h; simp at h
    · exact Or.inr (numB_sound _ _ _ h)
  | tiff a colors columns =>
    cases o with
    | none => simp [parmsOKB] at h
    | some ob =>
      cases ob with
      | dict kvs =>
        simp only [parmsOKB, Bool.and_eq_true] at h
        obtain ⟨⟨⟨h1, h2⟩, h3⟩, h4⟩ := h
        exact ⟨kvs, rfl, numB_sound _ _ _ h1, numDB_sound _ _ _ _ h2, numDB_sound _ _ _ _ h3, numDB_sound _ _ _ _ h4⟩
      | _ => simp [parmsOKB] at h
  | png a pred colors columns tags =>
    cases o with
    | none => simp [parmsOKB] at h
    | some ob =>
      cases ob with
      | dict kvs =>
        simp only [parmsOKB, Bool.and_eq_true] at h
        obtain ⟨⟨⟨h1, h2⟩, h3⟩, h4⟩ := h
        exact ⟨kvs, rfl, numB_sound _ _ _ h1, numDB_sound _ _ _ _ h2, numDB_sound _ _ _ _ h3, numDB_sound _ _ _ _ h4⟩
      | _ => simp [parmsOKB] at h

theorem namesMatch_sound : ∀ (xs : List Obj) (ss : List WStage), namesMatch xs ss = true →
    xs = ss.map fun s => Obj.name s.name := by
  intro xs
  induction xs with
  | nil =>
    intro ss h
    cases ss with
    | nil => rfl
    | cons s ss => simp [namesMatch] at h
  | cons x xs ih =>
    intro ss h
    cases ss with
    | nil => cases x <;> simp [namesMatch] at h
    | cons s ss =>
      cases x with
      | name n =>
        simp only [namesMatch, Bool.and_eq_true, beq_iff_eq] at h
        rw [List.map_cons, ← ih ss h.2, h.1]
      | _ => simp [namesMatch] at h

theorem parmsAll_sound : ∀ (ss : List WStage) (os : List Obj), parmsAll ss os = true →
    ∀ (i : Nat) (s : WStage), ss[i]? = some s → s.ParmsOK os[i]? := by
  intro ss
  induction ss with
  | nil => intro os _ i s hi; simp at hi
  | cons s0 ss ih =>
    intro os h i s hi
    cases os with
    | nil =>
      simp only [parmsAll, Bool.and_eq_true] at h
      cases i with
      | zero =>
        simp only [List.getElem?_cons_zero, Option.some.injEq] at hi
        subst hi
        simpa using parmsOKB_sound s0 none h.1
      | succ j =>
        have := ih [] h.2 j s (by simpa using hi)
        simpa using this
    | cons o os =>
      simp only [parmsAll, Bool.and_eq_true] at h
      cases i with
      | zero =>
        simp only [List.getElem?_cons_zero, Option.some.injEq] at hi
        subst hi
        simpa using parmsOKB_sound s0 (some o) h.1
      | succ j =>
        have := ih os h.2 j s (by simpa using hi)
        simpa using this

/-- **conformingB_sound**: the executable checker the harness applies to every dictionary its
writer produced (`c05.conf`) implies the hypothesis `Conforming` of `decode_inverts_encoding`. -/
theorem conformingB_sound (d : Dict) (stages : List WStage) (h : conformingB d stages = true) :
    Conforming d stages := by
  unfold conformingB at h
  split at h
  · rename_i xs hf
    simp only [Bool.and_eq_true] at h
    obtain ⟨hn, hp⟩ := h
    have hxs := namesMatch_sound xs stages hn
    subst hxs
    refine Or.inl ⟨hf, ?_⟩
    split at hp
    · rename_i os hdp
      exact Or.inl ⟨os, hdp, parmsAll_sound stages os hp⟩
    · rename_i o hna
      refine Or.inr ⟨fun os hos => hna os hos, ?_⟩
      intro s hs
      exact parmsOKB_sound s _ (List.all_eq_true.mp hp s hs)
  · rename_i n hf
    split at h
    · rename_i s
      simp only [Bool.and_eq_true, beq_iff_eq] at h
      refine Or.inr (Or.inl ⟨s, rfl, ?_, parmsOKB_sound s _ h.2⟩)
      rw [hf, h.1]
    · exact absurd h (by simp)
  · rename_i hf
    refine Or.inr (Or.inr ⟨?_, hf⟩)
    simpa using h
  · exact absurd h (by simp)

/-- non-vacuity: the checker accepts the dictionary of the example above -/
example : conformingB
    [([76, 101, 110, 103, 116, 104], .int 5),
     (kDecodeParms, .array [.null, .dict [(kColumns, .real 6 1), (kPredictor, .int 12)]]),
     (kFilter, .array [.name nAHx, .name nFl])]
    [.hex true, .png true 12 1 3 [2, 2]] = true := by decide

/-! ## the executable checker of `ChainWrites` -/

theorem stageWritesB_sound (inflate : Str → Option Str) (s : WStage) (m y : Str)
    (h : stageWritesB inflate s m y = true) : s.Writes inflate m y := by
  cases s with
  | hex a =>
    simp only [stageWritesB] at h
    exact ⟨_, hexWritingB_sound _ m h, takeWhile_eod y⟩
  | a85 a =>
    simp only [stageWritesB] at h
    exact ⟨_, a85WritingB_sound _ m h, cutEOD_split y⟩
  | flate a =>
    simp only [stageWritesB, beq_iff_eq] at h
    exact h
  | tiff a colors columns =>
    simp only [stageWritesB, Bool.and_eq_true, decide_eq_true_eq, beq_iff_eq] at h
    obtain ⟨⟨⟨⟨h1, h2⟩, h3⟩, h4⟩, h5⟩ := h
    exact ⟨h1, h2, h3, h4, h5⟩
  | png a pred colors columns tags =>
    simp only [stageWritesB, Bool.and_eq_true, decide_eq_true_eq, beq_iff_eq, List.all_eq_true] at h
    obtain ⟨⟨⟨⟨⟨⟨⟨h1, h2⟩, h3⟩, h4⟩, h5⟩, h6⟩, h7⟩, h8⟩ := h
    exact ⟨h1, h2, h3, h4, h5, h6, h7, h8⟩

/-- **chainWritesL_sound**: the executable checker the harness applies to the intermediates
`[y, m₁, …, x]` of every pipeline it encoded (`c05.writes`) implies the hypothesis `ChainWrites`
of `decode_inverts_encoding`. -/
theorem chainWritesL_sound (inflate : Str → Option Str) : ∀ (stages : List WStage) (ms : List Str),
    chainWritesL inflate stages ms = true →
    ∃ y x, ms.head? = some y ∧ ms.getLast? = some x ∧ ChainWrites inflate stages x y := by
  intro stages
  induction stages with
  | nil =>
    intro ms h
    match ms, h with
    | [y], _ => exact ⟨y, y, rfl, rfl, rfl⟩
  | cons s ss ih =>
    intro ms h
    match ms, h with
    | y :: m :: rest, h =>
      simp only [chainWritesL, Bool.and_eq_true] at h
      obtain ⟨⟨hb, hs⟩, hrest⟩ := h
      obtain ⟨y', x, hy', hx, hcw⟩ := ih (m :: rest) hrest
      simp only [List.head?_cons, Option.some.injEq] at hy'
      subst hy'
      refine ⟨y, x, rfl, ?_, m, hcw, ?_, stageWritesB_sound inflate s m y hs⟩
      · rw [List.getLast?_cons_cons]; exact hx
      · intro b hbm
        simp only [bytesB, List.all_eq_true, decide_eq_true_eq] at hb
        exact hb b hbm

/-- non-vacuity: the checker accepts "02 0102\n030203030 >x" for PNG-filtered [1..6] (the last
hexadecimal digit, a 0, left out) -/
example : chainWritesL some [.hex true, .png true 12 1 3 [2, 2]]
    [[48, 50, 32, 48, 49, 48, 50, 10, 48, 51, 48, 50, 48, 51, 48, 51, 51, 32, 62, 120],
     [2, 1, 2, 3, 2, 3, 3, 48], [1, 2, 3, 4, 5, 51]] = true := by decide

/-! ## undecodable data, through the dictionary -/

/-- **decode_error_propagates**: whatever the dictionary, `Decode()` returns an error — never
bytes — as soon as one stage of the chain fails: with `Filter` an array, an error of the filter
at position `k` after `k` successful stages is the result of the whole call. -/
theorem decode_error_propagates (ext : Ext) (d : Dict) (fs : List Obj) (hf : dictGet d kFilter = some (.array fs))
    (pre : List Str) (n : Str) (post : List Obj)
    (hfs : fs = pre.map Obj.name ++ Obj.name n :: post) (y : Str) (mid : Str)
    (hpre : decodeChain ext (objToDParms (dictGet d kDecodeParms)) (pre.map FObj.name) 0 y = some mid)
    (hbad : decodeWithFilter ext mid n (chainParams (objToDParms (dictGet d kDecodeParms)) pre.length) = none) :
    streamDecodeD ext d y = none := by
  unfold streamDecodeD
  rw [hf, hfs]
  simp only [objToFilter, streamDecode, List.map_append, List.map_map, List.map_cons]
  have hmap : (objToFObj ∘ Obj.name) = FObj.name := by funext s; rfl
  rw [hmap]
  generalize objToDParms (dictGet d kDecodeParms) = dp at hpre hbad ⊢
  have happ : ∀ (fs gs : List FObj) (i : Nat) (d0 : Str),
      decodeChain ext dp (fs ++ gs) i d0 = (decodeChain ext dp fs i d0).bind (decodeChain ext dp gs (i + fs.length)) := by
    intro fs
    induction fs with
    | nil => intro gs i d0; simp [decodeChain]
    | cons f fs ih =>
      intro gs i d0
      cases f with
      | other => simp [decodeChain]
      | name n =>
        simp only [List.cons_append, decodeChain, List.length_cons]
        cases decodeWithFilter ext d0 n (chainParams dp i) with
        | none => rfl
        | some d' =>
          simp only [ih gs (i + 1) d']
          have : i + 1 + fs.length = i + (fs.length + 1) := by omega
          rw [this]
  rw [happ, hpre]
  simp only [Option.bind, List.length_map, Nat.zero_add, objToFObj, decodeChain, hbad]

/-- **undecodable_dict**: the dictionary-level failures, for every dictionary and all data: a
`Filter` entry that is neither a name nor an array (a number, a string, a dictionary, null, an
unresolved reference), an element of the `Filter` array that is not a name, and — for a single
Flate filter whose `DecodeParms` dictionary asks for a predictor — a Predictor outside
{1, 2, 10..15} (also when written as a Real such as 12.5 → 12 is accepted, 9.9 → 9 is refused),
BitsPerComponent ≠ 8, Columns or Colors < 1 after `getIntParam`: an error, never bytes. -/
theorem undecodable_dict (ext : Ext) (d : Dict) (y : Str) :
    (∀ o, dictGet d kFilter = some o → o ≠ .nil → (∀ s, o ≠ .name s) → (∀ xs, o ≠ .array xs) →
      streamDecodeD ext d y = none) ∧
    (∀ (pre : List Str) o post, dictGet d kFilter = some (.array (pre.map Obj.name ++ o :: post)) → (∀ s, o ≠ .name s) →
      (decodeChain ext (objToDParms (dictGet d kDecodeParms)) (pre.map FObj.name) 0 y).isSome →
      streamDecodeD ext d y = none) ∧
    (∀ kvs dec pr (a : Bool), dictGet d kFilter = some (.name (if a then nFl else nFlateDecode)) →
      dictGet d kDecodeParms = some (.dict kvs) → ext.inflate y = some dec →
      intOpt (dictToParams kvs) kPredictor = some pr → pr ≠ 1 →
      ((pr ≠ 2 ∧ (pr < 10 ∨ pr > 15)) ∨
       ((pr = 2 ∨ (10 ≤ pr ∧ pr ≤ 15)) ∧
        (getIntParam (some (dictToParams kvs)) kBitsPerComponent 8 ≠ 8 ∨
         getIntParam (some (dictToParams kvs)) kColumns 1 < 1 ∨
         getIntParam (some (dictToParams kvs)) kColors 1 < 1))) →
      streamDecodeD ext d y = none) := by
  refine ⟨?_, ?_, ?_⟩
  · intro o ho h0 h1 h2
    unfold streamDecodeD
    rw [ho]
    cases o with
    | nil => exact absurd rfl h0
    | name s => exact absurd rfl (h1 s)
    | array xs => exact absurd rfl (h2 xs)
    | _ => rfl
  · intro pre o post hf ho hsome
    unfold streamDecodeD
    rw [hf]
    simp only [objToFilter, streamDecode, List.map_append, List.map_map, List.map_cons]
    have hmap : (objToFObj ∘ Obj.name) = FObj.name := by funext s; rfl
    rw [hmap]
    have hoo : objToFObj o = .other := by
      cases o with
      | name s => exact absurd rfl (ho s)
      | _ => rfl
    rw [hoo]
    generalize objToDParms (dictGet d kDecodeParms) = dp at hsome ⊢
    have : ∀ (fs : List Str) (i : Nat) (d0 : Str), (decodeChain ext dp (fs.map FObj.name) i d0).isSome →
        decodeChain ext dp (fs.map FObj.name ++ FObj.other :: post.map objToFObj) i d0 = none := by
      intro fs
      induction fs with
      | nil => intro i d0 _; rfl
      | cons f fs ih =>
        intro i d0 h
        simp only [List.map_cons, List.cons_append, decodeChain] at h ⊢
        cases hdw : decodeWithFilter ext d0 f (chainParams dp i) with
        | none => rfl
        | some d' =>
          rw [hdw] at h
          exact ih (i + 1) d' h
    exact this pre 0 y hsome
  · intro kvs dec pr a hf hdp hinf hpr hne hbad
    unfold streamDecodeD
    rw [hf, hdp]
    simp only [objToFilter, objToDParms, objToPObj, streamDecode, paramsObjToDict, dwf_flate, flateDecode, hinf, flatePost]
    have hpred : (toParams (dictToParams kvs)).predictor = some pr := hpr
    rw [hpred]
    simp only [ne_eq, hne, not_false_eq_true, if_true]
    rcases hbad with ⟨h2, h3⟩ | ⟨hsel, hgeo⟩
    · have : ¬ (pr ≥ 10 ∧ pr ≤ 15) := by omega
      simp [applyPredictor, hne, h2, this]
    · have hcols : (toParams (dictToParams kvs)).columns.getD 1 = getIntParam (some (dictToParams kvs)) kColumns 1 := rfl
      have hcolr : (toParams (dictToParams kvs)).colors.getD 1 = getIntParam (some (dictToParams kvs)) kColors 1 := rfl
      have hbpc : (toParams (dictToParams kvs)).bpc.getD 8 = getIntParam (some (dictToParams kvs)) kBitsPerComponent 8 := rfl
      rcases hgeo with hb | hg | hg
      · rcases hsel with h | h
        · simp [applyPredictor, h, applyTIFFPredictor2, hbpc, hb]
        · have h2 : ¬ (pr = 2) := by omega
          simp [applyPredictor, hne, h2, h, applyPNGPredictor, hbpc, hb]
      · have hrb := predictorRowBytes_bad ((toParams (dictToParams kvs)).columns.getD 1)
          ((toParams (dictToParams kvs)).colors.getD 1) (Or.inl (by rw [hcols]; exact hg))
        rcases hsel with h | h
        · subst h
          simp only [applyPredictor, applyTIFFPredictor2, hrb]
          have e21 : ¬ ((2 : Int) = 1) := by omega
          simp only [e21, if_true, if_false]
          split <;> rfl
        · have h2 : ¬ (pr = 2) := by omega
          simp only [applyPredictor, hne, h2, h, applyPNGPredictor, hrb, and_self, if_true, if_false]
          split <;> rfl
      · have hrb := predictorRowBytes_bad ((toParams (dictToParams kvs)).columns.getD 1)
          ((toParams (dictToParams kvs)).colors.getD 1) (Or.inr (by rw [hcolr]; exact hg))
        rcases hsel with h | h
        · subst h
          simp only [applyPredictor, applyTIFFPredictor2, hrb]
          have e21 : ¬ ((2 : Int) = 1) := by omega
          simp only [e21, if_true, if_false]
          split <;> rfl
        · have h2 : ¬ (pr = 2) := by omega
          simp only [applyPredictor, hne, h2, h, applyPNGPredictor, hrb, and_self, if_true, if_false]
          split <;> rfl

/-- non-vacuity: `/Filter 7` and `/Predictor 9.9` (the Real 99/10 is not dyadic; 317/2^5 = 9.90625) -/
example : intOpt (dictToParams [(kPredictor, .real 317 5)]) kPredictor = some 9 := by decide

/-! ## CCITTFaxDecode: tabula's wrapper around x/image/ccitt -/

/-- `Decode()` with `/Filter /CCITTFaxDecode` (or `/CCF`) and a `DecodeParms` dictionary is the wrapper
`filters.CCITTFaxDecode` on `dictToParams` of that dictionary -/
theorem ccitt_decode_is_wrapper (ext : Ext) (d : Dict) (kvs : Dict) (y : Str) (a : Bool)
    (hf : dictGet d kFilter = some (.name (if a then nCCF else nCCITTFaxDecode)))
    (hp : dictGet d kDecodeParms = some (.dict kvs)) :
    streamDecodeD ext d y = ccittFaxDecode ext.ccitt y (some (toParams (dictToParams kvs))) := by
  have hname : ∀ p, decodeWithFilter ext y (if a then nCCF else nCCITTFaxDecode) p = ccittFaxDecode ext.ccitt y p := by
    intro p; cases a <;> rfl
  unfold streamDecodeD
  rw [hf, hp]
  simp only [objToFilter, objToDParms, objToPObj, streamDecode, paramsObjToDict, hname]

/-- the constant of `internal/filters/ccittfax.go`: `64 << 20` -/
theorem maxCCITTOutput_value : maxCCITTOutput = 64 * 2 ^ 20 := by decide

/-- **ccitt_wrapper** (restated after fix 6dc2783, which limits the decoded image to
`maxCCITTOutput` = 64 MiB): what `Decode()` does with `/Filter /CCITTFaxDecode` (or `/CCF`) and a
`DecodeParms` dictionary, for every dictionary and all data. Columns (default 1728) below 1 or
Rows (default 0) below 0 — after `getIntParam`, so also for Reals — is an error (fix 0d4fd26; the
tests come first, the library is not called). Otherwise x/image/ccitt is asked with Group 4 if
K < 0 and Group 3 otherwise, Invert = BlackIs1 (only a boolean counts, default false), that width,
and the height Rows or "detect" (-1) for Rows = 0, and its answer `lib` goes through `ccittLimit`.
BEFORE the fix the third clause read `streamDecodeD ext d y = lib` for every input; that is no
longer what the code does when the library yields more than 64 MiB, so it now carries the
explicit hypothesis `out.length ≤ maxCCITTOutput` (fourth clause; beyond it see
`ccitt_beyond_bound`). (The CCITT codes themselves are x/image/ccitt's business: a parameter.) -/
theorem ccitt_wrapper (ext : Ext) (d : Dict) (kvs : Dict) (y : Str) (a : Bool)
    (hf : dictGet d kFilter = some (.name (if a then nCCF else nCCITTFaxDecode)))
    (hp : dictGet d kDecodeParms = some (.dict kvs)) :
    let ps := some (dictToParams kvs)
    let columns := getIntParam ps kColumns 1728
    let rows := getIntParam ps kRows 0
    let lib := ext.ccitt { group4 := decide (getIntParam ps kK 0 < 0), invert := getBoolParam ps kBlackIs1 false,
                           columns := columns, rows := if rows = 0 then -1 else rows } y
    (columns < 1 → streamDecodeD ext d y = none) ∧
    (rows < 0 → streamDecodeD ext d y = none) ∧
    (1 ≤ columns → 0 ≤ rows → streamDecodeD ext d y = ccittLimit lib) ∧
    (1 ≤ columns → 0 ≤ rows → (∀ out, lib = some out → out.length ≤ maxCCITTOutput) →
      streamDecodeD ext d y = lib) := by
  have hdec := ccitt_decode_is_wrapper ext d kvs y a hf hp
  have hcols : (toParams (dictToParams kvs)).columns.getD 1728 = getIntParam (some (dictToParams kvs)) kColumns 1728 := rfl
  have hrows : (toParams (dictToParams kvs)).rows.getD 0 = getIntParam (some (dictToParams kvs)) kRows 0 := rfl
  have hk : (toParams (dictToParams kvs)).k.getD 0 = getIntParam (some (dictToParams kvs)) kK 0 := rfl
  have hb : (toParams (dictToParams kvs)).blackIs1.getD false = getBoolParam (some (dictToParams kvs)) kBlackIs1 false := rfl
  have h3 : 1 ≤ getIntParam (some (dictToParams kvs)) kColumns 1728 → 0 ≤ getIntParam (some (dictToParams kvs)) kRows 0 →
      streamDecodeD ext d y = ccittLimit (ext.ccitt
        { group4 := decide (getIntParam (some (dictToParams kvs)) kK 0 < 0),
          invert := getBoolParam (some (dictToParams kvs)) kBlackIs1 false,
          columns := getIntParam (some (dictToParams kvs)) kColumns 1728,
          rows := if getIntParam (some (dictToParams kvs)) kRows 0 = 0 then -1
                  else getIntParam (some (dictToParams kvs)) kRows 0 } y) := by
    intro h1 h2
    rw [hdec]
    have n1 : ¬ (getIntParam (some (dictToParams kvs)) kColumns 1728 < 1) := by omega
    have n2 : ¬ (getIntParam (some (dictToParams kvs)) kRows 0 < 0) := by omega
    simp only [ccittFaxDecode, Option.getD_some, hcols, hrows, hk, hb, n1, n2, if_false]
  refine ⟨?_, ?_, h3, ?_⟩
  · intro h
    rw [hdec]
    simp only [ccittFaxDecode, Option.getD_some, hcols, h, if_true]
  · intro h
    rw [hdec]
    simp only [ccittFaxDecode, Option.getD_some, hcols, hrows, h, if_true]
    split <;> rfl
  · intro h1 h2 hle
    rw [h3 h1 h2]
    cases hl : ext.ccitt
        { group4 := decide (getIntParam (some (dictToParams kvs)) kK 0 < 0),
          invert := getBoolParam (some (dictToParams kvs)) kBlackIs1 false,
          columns := getIntParam (some (dictToParams kvs)) kColumns 1728,
          rows := if getIntParam (some (dictToParams kvs)) kRows 0 = 0 then -1
                  else getIntParam (some (dictToParams kvs)) kRows 0 } y with
    | none => rfl
    | some out => exact ccittLimit_within out (hle out hl)

/-- non-vacuity: `<< /K -1 /Columns 8.5 /BlackIs1 true >>` is read as Group 4, width 8, inverted,
height to be detected; an answer within the limit is handed on -/
example : ccittFaxDecode (fun a _ => if a = { group4 := true, invert := true, columns := 8, rows := -1 } then some [7] else none)
    [1, 2] (some (toParams (dictToParams [(kK, .int (-1)), (kColumns, .real 17 1), (kBlackIs1, .bool true)]))) = some [7] := by
  decide

/-- **ccitt_beyond_bound** (fix 6dc2783, the answer beyond the bound): when the image x/image/ccitt
would yield for the arguments of `ccitt_wrapper` has more than `maxCCITTOutput` bytes — one byte
more suffices, the comparison is `>` — `Decode()` returns an error: nothing is truncated, no bytes
are handed on. -/
theorem ccitt_beyond_bound (ext : Ext) (d : Dict) (kvs : Dict) (y : Str) (a : Bool)
    (hf : dictGet d kFilter = some (.name (if a then nCCF else nCCITTFaxDecode)))
    (hp : dictGet d kDecodeParms = some (.dict kvs)) (out : Str)
    (hcol : 1 ≤ getIntParam (some (dictToParams kvs)) kColumns 1728)
    (hrow : 0 ≤ getIntParam (some (dictToParams kvs)) kRows 0)
    (hlib : ext.ccitt { group4 := decide (getIntParam (some (dictToParams kvs)) kK 0 < 0),
                        invert := getBoolParam (some (dictToParams kvs)) kBlackIs1 false,
                        columns := getIntParam (some (dictToParams kvs)) kColumns 1728,
                        rows := if getIntParam (some (dictToParams kvs)) kRows 0 = 0 then -1
                                else getIntParam (some (dictToParams kvs)) kRows 0 } y = some out)
    (hbig : out.length > maxCCITTOutput) :
    streamDecodeD ext d y = none := by
  have h := (ccitt_wrapper ext d kvs y a hf hp).2.2.1 hcol hrow
  rw [h, hlib]
  exact ccittLimit_beyond out hbig

/-- the edge of the bound where it is computable: an image of exactly `maxCCITTOutput` = 67108864
bytes is handed on, one of 67108865 bytes is an error (the lists are not evaluated: the proofs go
through `List.length_replicate`) -/
example : ccittLimit (some (List.replicate 67108864 0)) = some (List.replicate 67108864 0) :=
  ccittLimit_within _ (by rw [List.length_replicate]; decide)
example : ccittLimit (some (List.replicate 67108865 0)) = none :=
  ccittLimit_beyond _ (by rw [List.length_replicate]; decide)
example : ccittLimit (some (List.replicate 67108863 255)) = some (List.replicate 67108863 255) :=
  ccittLimit_within _ (by rw [List.length_replicate]; decide)
/-- the same edge through `Decode()`: `<< /Filter /CCF /DecodeParms << /K -1 /Columns 8 >> >>` with a
library that answers `n` zero bytes -/
example : streamDecodeD { inflate := fun _ => none, ccitt := fun _ _ => some (List.replicate 67108864 0) }
    [(kFilter, .name nCCF), (kDecodeParms, .dict [(kK, .int (-1)), (kColumns, .int 8)])] [255]
    = some (List.replicate 67108864 0) := by
  rw [(ccitt_wrapper _ _ [(kK, .int (-1)), (kColumns, .int 8)] [255] true rfl rfl).2.2.1 (by decide) (by decide)]
  exact ccittLimit_within _ (by rw [List.length_replicate]; decide)
example : streamDecodeD { inflate := fun _ => none, ccitt := fun _ _ => some (List.replicate 67108865 0) }
    [(kFilter, .name nCCF), (kDecodeParms, .dict [(kK, .int (-1)), (kColumns, .int 8)])] [255] = none :=
  ccitt_beyond_bound _ _ [(kK, .int (-1)), (kColumns, .int 8)] [255] true rfl rfl
    (List.replicate 67108865 0) (by decide) (by decide) rfl (by rw [List.length_replicate]; decide)

/-- **ccitt_stage_bounded** (bounded work, both fixes): whenever a CCITT stage of `Decode()` — under
either name, with ANY parameters, at any place of a filter chain — yields bytes, (1) they are at most
`maxCCITTOutput`; (2) they are the library's answer for some arguments with width ≥ 1 and
height = "detect" (-1) or ≥ 1: the library is never asked for a row of zero pixels (which consumes
no input: the endless loop 0d4fd26 removed) nor for a negative height. -/
theorem ccitt_stage_bounded (ext : Ext) (name : Str) (params : Option Params) (inp out : Str)
    (hn : name = nCCITTFaxDecode ∨ name = nCCF)
    (h : decodeWithFilter ext inp name params = some out) :
    out.length ≤ maxCCITTOutput ∧
    ∃ args : CcittArgs, ext.ccitt args inp = some out ∧ 1 ≤ args.columns ∧ (args.rows = -1 ∨ 1 ≤ args.rows) := by
  have hd : decodeWithFilter ext inp name params = ccittFaxDecode ext.ccitt inp params := by
    rcases hn with hn | hn <;> subst hn <;> rfl
  rw [hd] at h
  unfold ccittFaxDecode at h
  simp only at h
  split at h
  · exact absurd h (by simp)
  · split at h
    · exact absurd h (by simp)
    · rename_i hc hr
      rw [ccittLimit_some_iff] at h
      refine ⟨h.2, _, h.1, ?_, ?_⟩
      · show 1 ≤ (params.getD {}).columns.getD 1728
        omega
      show ((if (params.getD {}).rows.getD 0 = 0 then (-1 : Int) else (params.getD {}).rows.getD 0) = -1 ∨
        1 ≤ (if (params.getD {}).rows.getD 0 = 0 then (-1 : Int) else (params.getD {}).rows.getD 0))
      split
      · exact Or.inl rfl
      · exact Or.inr (by omega)

/-- **ccitt_library_guarded** (fix 0d4fd26 as a fact about every input): the result of `CCITTFaxDecode`
does not depend on what the library would do for a width below 1, a height of 0 or a height below
-1 — for no parameters and no data is it asked such a thing (a row of zero pixels consumes no
input: that was the endless loop). -/
theorem ccitt_library_guarded (rd : CcittArgs → Str → Option Str) (data : Str) (params : Option Params) :
    ccittFaxDecode (fun a x => if 1 ≤ a.columns ∧ (a.rows = -1 ∨ 1 ≤ a.rows) then rd a x else none) data params
      = ccittFaxDecode rd data params := by
  unfold ccittFaxDecode
  simp only
  split
  · rfl
  · split
    · rfl
    · rename_i hc hr
      rw [if_pos]
      refine ⟨by omega, ?_⟩
      split
      · exact Or.inl rfl
      · exact Or.inr (by omega)

/-- a chain of filters whose last one is CCITT (e.g. `[/ASCII85Decode /CCITTFaxDecode]`, the usual way
a fax image is embedded): the decoded stream has at most `maxCCITTOutput` bytes -/
theorem ccitt_chain_bounded (ext : Ext) (dp : DParms) (name : Str) (hn : name = nCCITTFaxDecode ∨ name = nCCF) :
    ∀ (fs : List FObj) (i : Nat) (data out : Str),
      decodeChain ext dp (fs ++ [.name name]) i data = some out → out.length ≤ maxCCITTOutput := by
  intro fs
  induction fs with
  | nil =>
    intro i data out h
    simp only [List.nil_append, decodeChain] at h
    cases hs : decodeWithFilter ext data name (chainParams dp i) with
    | none => rw [hs] at h; exact absurd h (by simp)
    | some o =>
      rw [hs] at h
      simp only [Option.some.injEq] at h
      subst h
      exact (ccitt_stage_bounded ext name _ data o hn hs).1
  | cons f fs ih =>
    intro i data out h
    cases f with
    | other => simp [decodeChain] at h
    | name n =>
      simp only [List.cons_append, decodeChain] at h
      cases hs : decodeWithFilter ext data n (chainParams dp i) with
      | none => rw [hs] at h; exact absurd h (by simp)
      | some o => rw [hs] at h; exact ih (i + 1) o out h

/-- **ccitt_decode_bounded** (bounded work at the entry point): for EVERY stream dictionary whose
`Filter` is `/CCITTFaxDecode` or `/CCF` (whatever `DecodeParms` holds — dictionary, array, null,
absent, anything) or an array ending in one of them, and for all data: if `Decode()` returns
bytes, they are at most `maxCCITTOutput` = 64 MiB — however large `/Columns` and however long the
image the data stands for. -/
theorem ccitt_decode_bounded (ext : Ext) (d : Dict) (y out : Str) (name : Str)
    (hn : name = nCCITTFaxDecode ∨ name = nCCF)
    (hf : dictGet d kFilter = some (.name name) ∨
          ∃ fs : List Obj, dictGet d kFilter = some (.array (fs ++ [.name name])))
    (h : streamDecodeD ext d y = some out) : out.length ≤ maxCCITTOutput := by
  unfold streamDecodeD at h
  rcases hf with hf | ⟨fs, hf⟩
  · rw [hf] at h
    simp only [objToFilter, streamDecode] at h
    exact (ccitt_stage_bounded ext name _ y out hn h).1
  · rw [hf] at h
    simp only [objToFilter, streamDecode, List.map_append, List.map_cons, List.map_nil, objToFObj] at h
    exact ccitt_chain_bounded ext _ name hn _ 0 y out h

/-- **ccitt_bytes_kept_bounded** (bounded work for every input): of whatever the library's reader
would yield — `out`, of any length — `CCITTFaxDecode` keeps (`io.LimitReader`) a prefix of at most
`maxCCITTOutput + 1` bytes and never more than there are. -/
theorem ccitt_bytes_kept_bounded (out : Str) :
    (ccittKept out).length ≤ maxCCITTOutput + 1 ∧ (ccittKept out).length ≤ out.length ∧
    ccittKept out <+: out := by
  refine ⟨?_, ?_, List.take_prefix _ _⟩
  · rw [ccittKept_length]; omega
  · rw [ccittKept_length]; omega

/-- the library cut to the bytes `io.LimitReader` lets through -/
def cutExt (ext : Ext) : Ext := { inflate := ext.inflate, ccitt := fun a x => (ext.ccitt a x).map ccittKept }

theorem decodeWithFilter_cut (ext : Ext) (data name : Str) (p : Option Params) :
    decodeWithFilter (cutExt ext) data name p = decodeWithFilter ext data name p := by
  unfold decodeWithFilter
  split
  · rfl
  · split
    · rfl
    · split
      · rfl
      · split
        · rfl
        · split
          · rfl
          · split
            · simp only [cutExt, ccittFaxDecode]
              split
              · rfl
              · split
                · rfl
                · exact ccittLimit_prefix _
            · rfl

/-- **ccitt_reads_prefix_only**: for every dictionary and all data, `Decode()` depends on the library's
answers only through their first `maxCCITTOutput + 1` bytes — the rest of an oversized image is
never read. (This is also what lets the harness supply, for images far beyond the bound, the first
64 MiB + 1 bytes of the library's answer instead of all of it.) -/
theorem ccitt_reads_prefix_only (ext : Ext) (d : Dict) (y : Str) :
    streamDecodeD (cutExt ext) d y = streamDecodeD ext d y := by
  have hchain : ∀ (dp : DParms) (fs : List FObj) (i : Nat) (data : Str),
      decodeChain (cutExt ext) dp fs i data = decodeChain ext dp fs i data := by
    intro dp fs
    induction fs with
    | nil => intro i data; rfl
    | cons f fs ih =>
      intro i data
      cases f with
      | other => rfl
      | name n =>
        simp only [decodeChain, decodeWithFilter_cut]
        cases decodeWithFilter ext data n (chainParams dp i) with
        | none => rfl
        | some o => exact ih (i + 1) o
  unfold streamDecodeD streamDecode
  split
  · rfl
  · exact decodeWithFilter_cut ext _ _ _
  · rfl
  · exact hchain _ _ 0 y

/-! ## histories of `Decode()` calls -/

/-- **history_independent**: in any history of `Decode()` calls on any set of streams, every call
returns what a single fresh call on that stream returns — the result of a call does not depend on
the calls made before it, and no call changes a stream (`stepDecode` returns the store it got). -/
theorem history_independent (ext : Ext) (st : Store) (calls : List Nat) :
    runSession ext st calls = calls.map (fun i => (st[i]?).bind fun s => streamDecodeD ext s.dict s.data) ∧
    (∀ i, (stepDecode ext st i).1 = st) := by
  refine ⟨?_, ?_⟩
  · induction calls with
    | nil => rfl
    | cons i is ih =>
      simp only [runSession, List.map_cons]
      have h1 : (stepDecode ext st i).1 = st := by
        unfold stepDecode; cases st[i]? <;> rfl
      have h2 : (stepDecode ext st i).2 = (st[i]?).bind fun s => streamDecodeD ext s.dict s.data := by
        unfold stepDecode; cases st[i]? <;> rfl
      rw [h1, h2, ih]
  · intro i
    unfold stepDecode; cases st[i]? <;> rfl

/-- a conforming stream decodes to its original bytes at every point of every history -/
theorem history_roundtrip (ext : Ext) (st : Store) (calls : List Nat) (i : Nat) (s : StreamObj)
    (stages : List WStage) (x : Str) (hi : st[i]? = some s) (hd : Conforming s.dict stages)
    (hw : ChainWrites ext.inflate stages x s.data) (k : Nat) (hk : calls[k]? = some i) :
    (runSession ext st calls)[k]? = some (some x) := by
  rw [(history_independent ext st calls).1]
  simp only [List.getElem?_map, hk, Option.map_some, hi, Option.bind]
  rw [decode_inverts_encoding ext stages s.dict x s.data hd hw]

end Tabula.C05E
