import TabulaModel.Lemmas.BuilderMem
/-!
# C10 — families grown from `FromHTMLReader` / `FromHTMLString`

The third and fourth public constructors of an `Extractor` (tabula.go) give a base without file
name that owns an in-memory `htmldoc.Reader`; `clone` hands reader and ownership flag to every
copy.  Model: `Model/BuilderMem.lean` (compared with the implementation by the op `c10.mem` on
`FromHTMLString`, `FromHTMLReader`, a reader that fails and an HTML tree `htmldoc` refuses).
No descriptor exists in such a family (observed: oracle `C10/fd-leak-html-reader`); the
statements of the property that remain are about the records:

* **mem_derive_preserves_parent** — deriving, and everything done to the derived extractors and
  to every other extractor, changes neither the record of an extractor nor any later answer of it;
* **mem_consumed**, **mem_spent_forever** — a terminal operation that reaches its deferred
  `Close`, or a `Close`, uses its receiver up: with no file name nothing can be opened again, so
  every later terminal and non-terminal operation on it fails (and `Close` stays harmless), for
  ever, and so does everything derived from it afterwards — while extractors derived BEFORE keep
  working (`mem_sibling_survives`);
* **mem_run_answers** — the answers of a whole history are those computed from the chains of
  calls and one liveness flag per extractor;
* **mem_failed_base** — when `htmldoc.OpenReader` failed, every operation of every extractor of
  the family fails, in every history, and `Close` returns nil.
-/
namespace Tabula.C10Mem
open Tabula.PageSel Tabula.Builder Tabula.BuilderMem

theorem mexec_length_le (w : World) (ops : List Op) : ∀ (X : List Ext), X.length ≤ (mexec w X ops).length := by
  induction ops with
  | nil => intro X; exact Nat.le_refl _
  | cons op ops ih => intro X; exact Nat.le_trans (mstep_length_le w X op) (ih _)

/-- **mem_derive_preserves_parent**: for every sequence of operations in which extractor `i` is
used only as the receiver of configuration methods, the record of `i` is unchanged and every
later operation on `i` answers what it would have answered before the sequence. -/
theorem mem_derive_preserves_parent (w : World) (ops : List Op) : ∀ (X : List Ext) (i : Nat),
    i < X.length → (∀ op ∈ ops, op.mutates = true → op.target ≠ i) →
    (mexec w X ops)[i]? = X[i]? ∧
    ∀ op : Op, op.target = i → (mstep w (mexec w X ops) op).2 = (mstep w X op).2 := by
  induction ops with
  | nil => intro X i _ _; exact ⟨rfl, fun _ _ => rfl⟩
  | cons o ops ih =>
    intro X i hi hops
    have hother : o.mutates = false ∨ o.target ≠ i := by
      cases hm : o.mutates with
      | false => left; rfl
      | true => right; exact hops o List.mem_cons_self hm
    have h1 := mstep_other w X o i hi hother
    obtain ⟨h2, h3⟩ := ih (mstep w X o).1 i (Nat.lt_of_lt_of_le hi (mstep_length_le w X o))
      (fun op hop => hops op (List.mem_cons_of_mem _ hop))
    refine ⟨by simp only [mexec]; rw [h2, h1], ?_⟩
    intro op hop
    simp only [mexec]
    rw [h3 op hop]
    exact mstep_res_local w _ _ op (by rw [hop, h1])

example : let w : World := ⟨false, some 1⟩
    let ops := [Op.derive 0 .excludeHeaders, .term 1 .text, .close 1, .derive 0 (.pages [3]), .term 2 .toMarkdown]
    (∀ op ∈ ops, op.mutates = true → op.target ≠ 0) ∧
    (mstep w (mexec w [htmlBase] ops) (.term 0 .text)).2 = .whole := by decide

/-- an extractor that has nothing to read from -/
def Spent (e : Ext) : Prop := e.opened = false

/-- **mem_consumed**: in a reachable family, a terminal operation that gets past its first tests
(no builder error that it looks at, an operation the format supports) leaves its receiver spent,
whether its body then succeeds or fails; so does `Close`. -/
theorem mem_consumed (w : World) (X : List Ext) (h : MemInv X) (i : Nat) (e : Ext) (he : X[i]? = some e) :
    (∀ k : Term, consumes k e = true →
      ∃ e', (mTerminal w k X i).1[i]? = some e' ∧ Spent e' ∧ e'.static = e.static) ∧
    (∃ e', (mCloseOp X i).1[i]? = some e' ∧ Spent e' ∧ e'.static = e.static) := by
  have hi := lt_of_getElem? he
  obtain ⟨_, hrest⟩ := h i e he
  have hsp := (mClose_spent e hrest).1
  constructor
  · intro k hk
    unfold consumes at hk
    simp only [Bool.and_eq_true, Bool.not_eq_true'] at hk
    simp only [mTerminal, he, hk.1, hk.2, Bool.false_eq_true, if_false]
    cases ho : e.opened with
    | false => exact ⟨e, by simpa using he, ho, rfl⟩
    | true =>
      simp only [Bool.not_true, Bool.false_eq_true, if_false]
      exact ⟨mClose e, List.getElem?_set_self hi, hsp, mClose_static e⟩
  · simp only [mCloseOp, he]
    exact ⟨mClose e, List.getElem?_set_self hi, hsp, mClose_static e⟩

/-- a spent extractor answers every terminal and non-terminal operation with an error and
`Close` with nil; nothing changes -/
theorem spent_answers (w : World) (X : List Ext) (i : Nat) (e : Ext) (he : X[i]? = some e) (hs : Spent e) :
    (∀ k : Term, mTerminal w k X i = (X, .err)) ∧
    (∀ k : NonTerm, mNonTerminal w k X i = (X, .err)) ∧
    (mCloseOp X i).2 = .closed := by
  unfold Spent at hs
  refine ⟨?_, ?_, by simp [mCloseOp, he]⟩
  · intro k
    simp only [mTerminal, he, hs, Bool.not_false, if_true]
    split
    · rfl
    · split <;> rfl
  · intro k
    simp only [mNonTerminal, he, hs, Bool.not_false, if_true]
    split
    · rfl
    · split <;> rfl

theorem spent_step (w : World) (X : List Ext) (h : MemInv X) (op : Op) (i : Nat) (e : Ext)
    (he : X[i]? = some e) (hs : Spent e) :
    ∃ e', (mstep w X op).1[i]? = some e' ∧ Spent e' ∧ e'.static = e.static := by
  have hi := lt_of_getElem? he
  by_cases hoth : op.mutates = false ∨ op.target ≠ i
  · exact ⟨e, by rw [mstep_other w X op i hi hoth]; exact he, hs, rfl⟩
  · have hm : op.mutates = true := by
      cases h : op.mutates with
      | true => rfl
      | false => exact absurd (Or.inl h) hoth
    have ht : op.target = i := by
      by_cases h : op.target = i
      · exact h
      · exact absurd (Or.inr h) hoth
    cases op with
    | derive j c => cases hm
    | term j k =>
      simp only [Op.target] at ht; subst ht
      simp only [mstep, (spent_answers w X j e he hs).1 k]
      exact ⟨e, he, hs, rfl⟩
    | nonTerm j k =>
      simp only [Op.target] at ht; subst ht
      simp only [mstep, (spent_answers w X j e he hs).2.1 k]
      exact ⟨e, he, hs, rfl⟩
    | close j =>
      simp only [Op.target] at ht; subst ht
      simp only [mstep, mCloseOp, he]
      exact ⟨mClose e, List.getElem?_set_self hi, (mClose_spent e (h j e he).2).1, mClose_static e⟩

/-- **mem_spent_forever**: once spent, always spent — no later history (on this extractor or any
other) gives it a reader again; every later terminal and non-terminal operation on it fails. -/
theorem mem_spent_forever (w : World) (ops : List Op) : ∀ (X : List Ext), MemInv X → ∀ (i : Nat) (e : Ext),
    X[i]? = some e → Spent e →
    ∃ e', (mexec w X ops)[i]? = some e' ∧ Spent e' ∧ e'.static = e.static ∧
      (∀ k : Term, (mTerminal w k (mexec w X ops) i).2 = .err) ∧
      (∀ k : NonTerm, (mNonTerminal w k (mexec w X ops) i).2 = .err) := by
  induction ops with
  | nil =>
    intro X _ i e he hs
    refine ⟨e, he, hs, rfl, ?_, ?_⟩
    · intro k; show (mTerminal w k X i).2 = .err; rw [(spent_answers w X i e he hs).1 k]
    · intro k; show (mNonTerminal w k X i).2 = .err; rw [(spent_answers w X i e he hs).2.1 k]
  | cons op ops ih =>
    intro X h i e he hs
    obtain ⟨e1, he1, hs1, hst1⟩ := spent_step w X h op i e he hs
    obtain ⟨e2, he2, hs2, hst2, ha, hb⟩ := ih _ (memInv_step w h op) i e1 he1 hs1
    exact ⟨e2, he2, hs2, by rw [hst2, hst1], ha, hb⟩

/-- whatever is derived from a spent extractor is spent -/
theorem derived_from_spent (e : Ext) (c : BCall) (h : e.hasFile = false ∧ e.owns = e.opened ∧ e.reader.isSome = e.opened)
    (hs : Spent e) : Spent (e.derive c) := by
  unfold Spent at *
  rw [(derive_mem e c h).2.2.2]; exact hs

/-- **mem_one_shot**: after ANY history that is followed by a consuming terminal operation (or a
`Close`) on extractor `i`, and then by ANY further history, every terminal and non-terminal
operation on `i` fails: an in-memory HTML extractor serves one terminal operation. -/
theorem mem_one_shot (w : World) (e0 : Ext) (h0 : MemInv [e0]) (pre post : List Op) (i : Nat) (e : Ext)
    (he : (mexec w [e0] pre)[i]? = some e) (k : Term) (hk : consumes k e = true) :
    (∀ k' : Term, (mTerminal w k' (mexec w (mTerminal w k (mexec w [e0] pre) i).1 post) i).2 = .err) ∧
    (∀ k' : NonTerm, (mNonTerminal w k' (mexec w (mTerminal w k (mexec w [e0] pre) i).1 post) i).2 = .err) := by
  have hinv := memInv_exec w pre h0
  obtain ⟨e', he', hs', _⟩ := (mem_consumed w _ hinv i e he).1 k hk
  have hinv' : MemInv (mTerminal w k (mexec w [e0] pre) i).1 := memInv_step w hinv (.term i k)
  obtain ⟨_, _, _, _, ha, hb⟩ := mem_spent_forever w post _ hinv' i e' he' hs'
  exact ⟨ha, hb⟩

example : let w : World := ⟨false, some 1⟩
    (mrun w [htmlBase] [.term 0 .text, .term 0 .text, .nonTerm 0 .pageCount, .close 0, .derive 0 .byColumn, .term 1 .toMarkdown]).2
      = [.whole, .err, .err, .closed, .none, .err] := by decide

/-- **mem_sibling_survives**: an extractor derived while its parent was alive keeps the reader
whatever is then done to the parent and to every other extractor: its record is unchanged and
its answers are those of the moment it was derived. -/
theorem mem_sibling_survives (w : World) (X : List Ext) (i : Nat) (e : Ext) (c : BCall) (he : X[i]? = some e)
    (ops : List Op) (hops : ∀ op ∈ ops, op.mutates = true → op.target ≠ X.length) :
    (mexec w (mDeriveOp X i c).1 ops)[X.length]? = some (e.derive c) := by
  have hX : (mDeriveOp X i c).1 = X ++ [e.derive c] := by simp [mDeriveOp, he]
  rw [hX]
  have := (mem_derive_preserves_parent w ops (X ++ [e.derive c]) X.length (by simp) hops).1
  rw [this, List.getElem?_append_right (Nat.le_refl _)]
  simp

example : let w : World := ⟨false, some 1⟩
    (mrun w [htmlBase] [.derive 0 .excludeHeaders, .term 0 .text, .close 0, .term 0 .document, .term 1 .text]).2
      = [.none, .whole, .closed, .err, .whole] := by decide

/-! ## answers from the calls alone -/

theorem mrun_answers_gen (w : World) (e0 : Ext) (ops : List Op) :
    ∀ (L : List (List BCall)) (V : List Bool) (X : List Ext), MemInv X → MRel e0 L V X →
      (mrun w X ops).2 = mStaticRun w e0 L V ops := by
  induction ops with
  | nil => intro L V X _ _; rfl
  | cons op ops ih =>
    intro L V X hinv hrel
    obtain ⟨hres, hrel'⟩ := mstep_mlStep w e0 hinv hrel op
    have := ih _ _ _ (memInv_step w hinv op) hrel'
    simp only [mrun, mStaticRun]
    rw [this, hres]

/-- **mem_run_answers**: the answers of every history on the family of `FromHTMLString(s)` /
`FromHTMLReader(r)` — good base or failed base — are those computed from each receiver's chain
of calls and its liveness flag, which a consuming terminal operation or a `Close` on that very
extractor clears and a configuration method copies. -/
theorem mem_run_answers (w : World) (ops : List Op) :
    (mrun w [htmlBase] ops).2 = mStaticRun w htmlBase [[]] [true] ops ∧
    (mrun w [htmlBaseErr] ops).2 = mStaticRun w htmlBaseErr [[]] [false] ops :=
  ⟨mrun_answers_gen w htmlBase ops _ _ _ memInv_base.1 (mrel_base htmlBase),
   mrun_answers_gen w htmlBaseErr ops _ _ _ memInv_base.2 (mrel_base htmlBaseErr)⟩

/-! ## a base whose HTML could not be read -/

theorem allSpent_step (w : World) (X : List Ext) (h : MemInv X) (hall : ∀ (i : Nat) (e : Ext), X[i]? = some e → Spent e)
    (op : Op) : (∀ (i : Nat) (e : Ext), (mstep w X op).1[i]? = some e → Spent e) ∧
      ((mstep w X op).2 = .err ∨ (mstep w X op).2 = .bad ∨ (mstep w X op).2 = .none ∨ (mstep w X op).2 = .closed) := by
  cases op with
  | derive j c =>
    simp only [mstep, mDeriveOp]
    cases he : X[j]? with
    | none => exact ⟨hall, Or.inr (Or.inl rfl)⟩
    | some e =>
      refine ⟨?_, Or.inr (Or.inr (Or.inl rfl))⟩
      intro i ei hi
      rcases getElem?_concat _ _ _ _ hi with hi | ⟨_, rfl⟩
      · exact hall i ei hi
      · exact derived_from_spent e c (h j e he) (hall j e he)
  | term j k =>
    simp only [mstep]
    cases he : X[j]? with
    | none => simp only [mTerminal, he]; exact ⟨hall, by simp⟩
    | some e =>
      rw [(spent_answers w X j e he (hall j e he)).1 k]
      exact ⟨hall, Or.inl rfl⟩
  | nonTerm j k =>
    simp only [mstep]
    cases he : X[j]? with
    | none => simp only [mNonTerminal, he]; exact ⟨hall, by simp⟩
    | some e =>
      rw [(spent_answers w X j e he (hall j e he)).2.1 k]
      exact ⟨hall, Or.inl rfl⟩
  | close j =>
    simp only [mstep, mCloseOp]
    cases he : X[j]? with
    | none => exact ⟨hall, Or.inr (Or.inl rfl)⟩
    | some e =>
      refine ⟨?_, Or.inr (Or.inr (Or.inr rfl))⟩
      intro i ei hi
      rw [getElem?_set'] at hi
      split at hi
      · cases hi; exact (mClose_spent e (h j e he).2).1
      · exact hall i ei hi

/-- **mem_failed_base**: on the family of a `FromHTMLReader` whose input could not be parsed,
no terminal or non-terminal operation of any extractor ever succeeds, in any history: every
answer is an error (`Close`: nil; a configuration method: a new extractor, as useless). -/
theorem mem_failed_base (w : World) (ops : List Op) :
    ∀ r ∈ (mrun w [htmlBaseErr] ops).2, r = .err ∨ r = .bad ∨ r = .none ∨ r = .closed := by
  have gen : ∀ (ops : List Op) (X : List Ext), MemInv X → (∀ (i : Nat) (e : Ext), X[i]? = some e → Spent e) →
      ∀ r ∈ (mrun w X ops).2, r = .err ∨ r = .bad ∨ r = .none ∨ r = .closed := by
    intro ops
    induction ops with
    | nil => intro X _ _ r hr; simp [mrun] at hr
    | cons op ops ih =>
      intro X h hall r hr
      obtain ⟨hall', hres⟩ := allSpent_step w X h hall op
      simp only [mrun, List.mem_cons] at hr
      rcases hr with rfl | hr
      · exact hres
      · exact ih _ (memInv_step w h op) hall' r hr
  apply gen ops _ memInv_base.2
  intro i e he
  cases i with
  | zero => simp only [List.getElem?_cons_zero, Option.some.injEq] at he; subst he; rfl
  | succ k => simp at he

example : (mrun ⟨false, none⟩ [htmlBaseErr] [.term 0 .text, .derive 0 .byColumn, .term 1 .toMarkdown, .nonTerm 1 .pageCount, .close 0]).2
    = [.err, .none, .err, .err, .closed] := by decide

end Tabula.C10Mem
