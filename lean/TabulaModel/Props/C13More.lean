import TabulaModel.Props.C13Units
/-!
# C13, round 9 — when a text is returned whole, sizes against the byte length, boundary shifts

New theorems about the existing model `Model/Split.lean` (`rag/size_config.go`):

* every size metric of `GetSize` is at most the byte length (tokens: at most one token per
  byte), hence a text of at most `Max.Value` bytes is never split, in any of the five units;
* `SplitToSize` returns the text whole (one piece, untouched) EXACTLY when the text is not
  empty and is within the maximum or the split point search returns 0 or the end of the text;
  in every other case it returns something else (strict progress of the loop seen from outside);
* the shifts `adjustBoundaryPositions` applies in successive iterations compose to one shift by
  the total number of bytes consumed, and no shifted boundary sits at position 0;
* `findBestBoundaryNear` returns no boundary exactly when no boundary in the window has a score
  above -1 (the converse of `findBestBoundaryNear_none`).
-/
set_option linter.unusedVariables false
namespace Tabula.C13More
open Tabula.Split

/-! ## every size is at most the byte length -/

theorem countWordsAux_le (fuel : Nat) :
    ∀ (s : Str) (inW : Bool) (w : Nat), countWordsAux fuel s inW w ≤ w + fuel := by
  induction fuel with
  | zero => intro s inW w; simp [countWordsAux]
  | succ n ih =>
    intro s inW w
    simp only [countWordsAux]
    split
    · omega
    · split
      · have := ih (s.drop (spaceLen s)) false w; omega
      · split
        · have := ih (s.drop (runeLen s)) true w; omega
        · have := ih (s.drop (runeLen s)) true (w + 1); omega

/-- `countWords` counts at most one word per byte -/
theorem count_words_le_bytes (s : Str) : countWords s ≤ s.length := by
  have := countWordsAux_le s.length s false 0
  unfold countWords
  omega

theorem countSentencesAux_le (s : Str) :
    ∀ (first inS : Bool) (count : Nat),
      countSentencesAux s first inS count ≤ count + s.length + (if inS then 1 else 0) := by
  induction s with
  | nil => intro first inS count; cases inS <;> simp [countSentencesAux]
  | cons c rest ih =>
    intro first inS count
    have key : ∀ (X : Bool) (cnt : Nat), countSentencesAux rest false X cnt ≤ cnt + rest.length + 1 := by
      intro X cnt
      have := ih false X cnt
      cases X <;> simp at this <;> omega
    have prec : countSentencesAux rest false false (count + 1) ≤ count + 1 + rest.length := by
      have := ih false false (count + 1)
      simpa using this
    cases inS <;> simp only [countSentencesAux] <;> repeat' split
    all_goals
      first
        | exact Nat.le_trans prec (by simp <;> omega)
        | exact Nat.le_trans (key _ _) (by simp <;> omega)

/-- `countSentences` counts at most one sentence per byte -/
theorem count_sentences_le_bytes (s : Str) : countSentences s ≤ s.length := by
  have := countSentencesAux_le s true false 0
  unfold countSentences
  simpa using this

theorem splitParagraphs_length (s acc : Str) : 2 * (splitParagraphs s acc).length ≤ s.length + 2 := by
  induction s, acc using splitParagraphs.induct with
  | case1 acc => simp [splitParagraphs]
  | case2 c acc => simp [splitParagraphs]
  | case3 c d rest acc h ih =>
    rw [splitParagraphs, if_pos h]; simp only [List.length_cons]; omega
  | case4 c d rest acc h ih =>
    rw [splitParagraphs, if_neg h]; simp only [List.length_cons] at ih ⊢; omega

/-- `countParagraphs` counts at most one paragraph per byte -/
theorem count_paragraphs_le_bytes (s : Str) : countParagraphs s ≤ s.length := by
  unfold countParagraphs
  by_cases h : s = []
  · simp [h]
  · rw [if_neg h]
    simp only
    have hs : 0 < s.length := List.length_pos_iff.mpr h
    by_cases ht : trimSpace s = []
    · rw [if_pos ht]; omega
    · rw [if_neg ht]
      have h2 := splitParagraphs_length (trimSpace s) []
      have h3 := trimSpace_length_le s
      have h4 : 0 < (trimSpace s).length := List.length_pos_iff.mpr ht
      have h1 : ∀ p : Str → Bool, ((splitParagraphs (trimSpace s) []).filter p).length
          ≤ (splitParagraphs (trimSpace s) []).length := fun p => List.length_filter_le _ _
      split
      · omega
      · exact Nat.le_trans (h1 _) (by omega)

/-- **size_le_bytes.** For every text (any bytes) and every unit, `GetSize(text, unit)` is at
most `len(text)`: characters are bytes, and there is at most one word, one sentence, one
paragraph per byte; for tokens this holds whenever the estimate is at most one token per byte
(every preset: 0.25). -/
theorem size_le_bytes (c : SizeConfig) (s : Str) (u : SizeUnit)
    (hr : u = .tokens → c.ratio.1 ≤ c.ratio.2) : getSize c s u ≤ s.length := by
  cases u with
  | characters => exact Nat.le_refl _
  | tokens =>
    simp only [getSize, estimateTokens]
    exact Nat.div_le_of_le_mul (by rw [Nat.mul_comm]; exact Nat.mul_le_mul_right _ (hr rfl))
  | words => exact count_words_le_bytes s
  | sentences => exact count_sentences_le_bytes s
  | paragraphs => exact count_paragraphs_le_bytes s

/-- **short_text_whole.** A non-empty text of at most `Max.Value` bytes is returned as the only
piece, untouched, for EVERY unit of the maximum (words, sentences and paragraphs included), every
boundary list and every bytes — the limit in any unit is never stricter than the same number of
bytes. -/
theorem short_text_whole (c : SizeConfig) (text : Str) (bs : List Boundary) (hne : text ≠ [])
    (hlen : text.length ≤ c.maxValue) (hr : c.maxUnit = .tokens → c.ratio.1 ≤ c.ratio.2) :
    splitToSize c text bs = [text] := by
  apply Tabula.C13Api.split_within_max c text bs hne
  have := size_le_bytes c text c.maxUnit hr
  simp only [isAboveMax, decide_eq_false_iff_not]
  omega

/-- non-vacuity: two sentences of 11 bytes at a maximum of 11 sentences / 11 words / 11 paragraphs -/
example :
    let text : Str := [72, 105, 46, 32, 72, 111, 46, 32, 79, 107, 46]
    (∀ u ∈ [SizeUnit.characters, .tokens, .words, .sentences, .paragraphs],
      splitToSize { maxValue := 11, maxUnit := u, tpcNum := 1, tpcDen := 4, sem := true } text [⟨4, 70⟩] = [text])
    ∧ countSentences text = 3 ∧ countWords text = 3 := by decide +kernel

/-- every preset estimates at most one token per byte, so `short_text_whole` applies to each -/
theorem short_text_whole_presets (name : String) (c : SizeConfig) (hc : presetByName name = some c)
    (text : Str) (bs : List Boundary) (hne : text ≠ []) (hlen : text.length ≤ c.maxValue) :
    splitToSize c text bs = [text] := by
  apply short_text_whole c text bs hne hlen
  intro _
  unfold presetByName at hc
  split at hc <;> first | (cases hc; decide) | exact absurd hc (by simp)

example : (presetByName "cohere").map (·.maxValue) = some 512 := by
  first | rfl | decide | simp [presetByName, cohereEmbeddingConfig, tokenBasedSizeConfig]

/-! ## exactly when the text is returned whole -/

/-- **split_whole_iff.** `SplitToSize(text, boundaries)` is the one-piece list `[text]` EXACTLY
when the text is not empty and (it is within the maximum, or the split point search returns 0,
or it returns the end of the text or beyond).  In particular, whenever the loop takes a split
point strictly inside the text the result differs from `[text]`: a text above the maximum with a
usable split point is really split (or shortened by trimming), for any bytes, units, boundaries. -/
theorem split_whole_iff (c : SizeConfig) (text : Str) (bs : List Boundary) :
    splitToSize c text bs = [text] ↔
      text ≠ [] ∧ (isAboveMax c text = false
        ∨ findSplitPointAt c text bs c.maxValue c.maxUnit = 0
        ∨ findSplitPointAt c text bs c.maxValue c.maxUnit ≥ text.length) := by
  constructor
  · intro h
    have hne : text ≠ [] := by
      intro e; subst e; rw [Tabula.C13Api.split_empty] at h; exact absurd h (by simp)
    refine ⟨hne, ?_⟩
    by_cases hmax : isAboveMax c text = false
    · exact Or.inl hmax
    · right
      by_cases hsp : findSplitPointAt c text bs c.maxValue c.maxUnit = 0
          ∨ findSplitPointAt c text bs c.maxValue c.maxUnit ≥ text.length
      · exact hsp
      · exfalso
        have hlen : ¬ text.length = 0 := fun e => hne (List.length_eq_zero_iff.mp e)
        have hmax' : isAboveMax c text = true := by simpa using hmax
        rw [splitToSize, if_neg hlen] at h
        simp only [hmax', Bool.not_true, Bool.false_eq_true, if_false] at h
        rw [dif_neg hsp] at h
        generalize findSplitPointAt c text bs c.maxValue c.maxUnit = sp at h hsp
        have hR := (Tabula.C13.split_conserves c (trimSpace (text.drop sp))
          (adjustBoundaryPositions bs (sp + leadingSpace (text.drop sp)))).length_le
        have h1 := trimSpace_length_le (text.drop sp)
        have h2 := trimSpace_length_le (text.take sp)
        simp only [List.length_drop, List.length_take] at h1 h2
        split at h
        · rw [h] at hR
          simp only [List.map_cons, List.map_nil, List.sum_cons, List.sum_nil] at hR
          omega
        · have e1 := (List.cons.inj h).1
          rw [e1] at h2
          omega
  · rintro ⟨hne, h⟩
    have hlen : ¬ text.length = 0 := fun e => hne (List.length_eq_zero_iff.mp e)
    rcases h with h | h
    · exact Tabula.C13Api.split_within_max c text bs hne h
    · rw [splitToSize, if_neg hlen]
      split
      · rfl
      · simp [h]

/-- non-vacuity, both sides: "aaa bbb ccc" at 5 characters is split, at 11 it is whole, and a
text without any break at 5 ("aaaaaaaaaaa" has none within reach … the raw offset is inside the
text, so it is split as well); a limit beyond the text returns it whole -/
example :
    let c5 : SizeConfig := { maxValue := 5, maxUnit := .characters, tpcNum := 1, tpcDen := 4, sem := true }
    let c11 : SizeConfig := { maxValue := 11, maxUnit := .characters, tpcNum := 1, tpcDen := 4, sem := true }
    let text : Str := [97, 97, 97, 32, 98, 98, 98, 32, 99, 99, 99]
    splitToSize c5 text [] = [[97, 97, 97], [98, 98, 98], [99, 99, 99]]
      ∧ splitToSize c11 text [] = [text]
      ∧ findSplitPointAt c5 text [] 5 .characters = 4 := by decide +kernel

/-- **split_really_splits.** A consequence in the direction the property needs: under the
hypotheses of the size bound a text above the maximum is never returned whole. -/
theorem split_really_splits (c : SizeConfig) (text : Str)
    (hunit : c.maxUnit = .characters ∨ c.maxUnit = .tokens)
    (hM : 200 ≤ c.maxValue) (hratio : c.ratio.1 ≤ 4 * c.ratio.2) (hs : Spaced text)
    (habove : isAboveMax c text = true) : splitToSize c text [] ≠ [text] := by
  intro h
  have hb := Tabula.C13.split_bound c text hunit hM hratio hs text (by rw [h]; simp)
  simp only [isAboveMax, decide_eq_true_eq] at habove
  omega

/-! ## the boundary shifts of the loop -/

theorem adjust_cons (x : Boundary) (xs : List Boundary) (o : Nat) :
    adjustBoundaryPositions (x :: xs) o =
      if x.pos > o then { x with pos := x.pos - o } :: adjustBoundaryPositions xs o
      else adjustBoundaryPositions xs o := by
  unfold adjustBoundaryPositions
  by_cases h : x.pos > o <;> simp [h]

/-- **adjust_boundaries_compose.** Shifting the boundaries by `a` and then by `b` is shifting
them by `a + b`: after any number of iterations of `SplitToSize` the boundary list is the
caller's list shifted ONCE by the total number of bytes consumed so far (split positions plus
trimmed white space) — positions never drift, whatever the sequence of split points. -/
theorem adjust_boundaries_compose (bs : List Boundary) (a b : Nat) :
    adjustBoundaryPositions (adjustBoundaryPositions bs a) b = adjustBoundaryPositions bs (a + b) := by
  induction bs with
  | nil => rfl
  | cons x xs ih =>
    rw [adjust_cons x xs a, adjust_cons x xs (a + b)]
    by_cases h1 : x.pos > a
    · rw [if_pos h1, adjust_cons]
      by_cases h2 : x.pos - a > b
      · have h3 : x.pos > a + b := by omega
        rw [if_pos h2, if_pos h3, ih]
        simp [Nat.sub_sub]
      · have h3 : ¬ x.pos > a + b := by omega
        rw [if_neg h2, if_neg h3, ih]
    · have h3 : ¬ x.pos > a + b := by omega
      rw [if_neg h1, if_neg h3, ih]

/-- **adjust_boundaries_spec.** What one shift keeps: exactly the boundaries strictly behind the
offset, moved back by it, scores untouched; so a shifted boundary is never at position 0, and
order and scores of the survivors are those of the caller's list. -/
theorem adjust_boundaries_spec (bs : List Boundary) (o : Nat) (b' : Boundary) :
    b' ∈ adjustBoundaryPositions bs o ↔ ∃ b ∈ bs, o < b.pos ∧ b' = ⟨b.pos - o, b.score⟩ := by
  unfold adjustBoundaryPositions
  simp only [List.mem_map, List.mem_filter, decide_eq_true_eq]
  constructor
  · rintro ⟨b, ⟨hb, hpos⟩, rfl⟩; exact ⟨b, hb, hpos, rfl⟩
  · rintro ⟨b, hb, hpos, rfl⟩; exact ⟨b, ⟨hb, hpos⟩, rfl⟩

theorem adjust_boundaries_positive (bs : List Boundary) (o : Nat) :
    ∀ b' ∈ adjustBoundaryPositions bs o, 0 < b'.pos := by
  intro b' hb'
  obtain ⟨b, _, hpos, rfl⟩ := (adjust_boundaries_spec bs o b').mp hb'
  show 0 < b.pos - o
  omega

example : (adjustBoundaryPositions (adjustBoundaryPositions [⟨3, 100⟩, ⟨9, 70⟩, ⟨20, 50⟩] 4) 5).map (fun b => (b.pos, b.score))
    = [(11, 50)] ∧ (adjustBoundaryPositions [⟨3, 100⟩, ⟨9, 70⟩, ⟨20, 50⟩] 9).map (fun b => (b.pos, b.score)) = [(11, 50)] := by decide

/-! ## when no boundary is chosen -/

/-- **best_boundary_none_iff.** `findBestBoundaryNear` returns no boundary EXACTLY when every
boundary within `position ± tolerance` has a score of at most -1 (no `BoundaryType` has one: the
scores of boundary.go are 10…100): with the lists `DetectBoundaries` returns the sentence/word
search is reached only when the window holds no boundary at all. -/
theorem best_boundary_none_iff (bs : List Boundary) (position tolerance : Nat) :
    findBestBoundaryNear bs position tolerance = none ↔
      ∀ x ∈ bs, position - tolerance ≤ x.pos → x.pos ≤ position + tolerance → x.score ≤ -1 := by
  constructor
  · intro h x hx hlo hhi
    exact findBestBoundaryNear_none h x hx ⟨hlo, hhi⟩
  · intro h
    cases hb : findBestBoundaryNear bs position tolerance with
    | none => rfl
    | some b =>
      obtain ⟨hm, hw, hs, _⟩ := findBestBoundaryNear_some hb
      have := h b hm hw.1 hw.2
      omega

example : findBestBoundaryNear [⟨3, 100⟩, ⟨40, 70⟩] 20 5 = none
    ∧ (findBestBoundaryNear [⟨3, 100⟩, ⟨22, 70⟩] 20 5).map (·.pos) = some 22 := by decide

/-! ## boundaries that can never be chosen -/

theorem findSplitPointAt_negative_scores (c : SizeConfig) (text : Str) (bs : List Boundary)
    (hneg : ∀ b ∈ bs, b.score ≤ -1) (limit : Nat) (u : SizeUnit) :
    findSplitPointAt c text bs limit u = findSplitPointAt c text [] limit u := by
  have hb : findBestBoundaryNear bs (targetPosOf c limit u) (targetPosOf c limit u / 4) = none :=
    (best_boundary_none_iff _ _ _).mpr (fun x hx _ _ => hneg x hx)
  unfold findSplitPointAt
  simp [hb]

theorem adjust_keeps_negative (bs : List Boundary) (o : Nat) (hneg : ∀ b ∈ bs, b.score ≤ -1) :
    ∀ b ∈ adjustBoundaryPositions bs o, b.score ≤ -1 := by
  intro b' hb'
  obtain ⟨b, hb, _, rfl⟩ := (adjust_boundaries_spec bs o b').mp hb'
  exact hneg b hb

/-- **split_ignores_negative_scores.** Boundaries whose score is at most -1 are never used:
`SplitToSize(text, boundaries)` is then `SplitToSize(text, nil)` through the whole loop, for any
positions (inside characters included), any bytes, units and limits — so UTF-8 integrity
(`split_utf8`) and the hard maximum (`split_bound`) hold for such lists as for `nil`.  Together
with `split_without_sem` these are the two ways a boundary list is inert. -/
theorem split_ignores_negative_scores (c : SizeConfig) (text : Str) (bs : List Boundary)
    (hneg : ∀ b ∈ bs, b.score ≤ -1) : splitToSize c text bs = splitToSize c text [] := by
  generalize hn : text.length = n
  induction n using Nat.strongRecOn generalizing text bs with
  | _ n ih =>
    rw [splitToSize.eq_1 c text bs, splitToSize.eq_1 c text []]
    rw [findSplitPointAt_negative_scores c text bs hneg]
    by_cases h0 : text.length = 0
    · simp [h0]
    · simp only [h0, if_false]
      by_cases hmax : (!isAboveMax c text) = true
      · simp [hmax]
      · simp only [hmax, if_false]
        by_cases hsp : findSplitPointAt c text [] c.maxValue c.maxUnit = 0 ∨
            findSplitPointAt c text [] c.maxValue c.maxUnit ≥ text.length
        · simp [hsp]
        · simp only [hsp, dite_false]
          have hl := trimSpace_length_le (text.drop (findSplitPointAt c text [] c.maxValue c.maxUnit))
          simp only [List.length_drop] at hl
          have hlt : (trimSpace (text.drop (findSplitPointAt c text [] c.maxValue c.maxUnit))).length < n := by
            omega
          rw [ih _ hlt _ (adjustBoundaryPositions bs _) (adjust_keeps_negative bs _ hneg) rfl,
            ih _ hlt _ (adjustBoundaryPositions [] _) (by intro b hb; simp [adjustBoundaryPositions] at hb) rfl]

/-- non-vacuity: a boundary of score -1 inside the window (position 4 of "aaa bbb ccc" at 5) is
not used, the same boundary with score 0 is -/
example :
    let c5 : SizeConfig := { maxValue := 5, maxUnit := .characters, tpcNum := 1, tpcDen := 4, sem := true }
    let text : Str := [97, 97, 97, 32, 98, 98, 98, 32, 99, 99, 99]
    splitToSize c5 text [⟨5, -1⟩] = splitToSize c5 text []
      ∧ splitToSize c5 text [⟨5, 0⟩] ≠ splitToSize c5 text [] := by decide +kernel

end Tabula.C13More
