import TabulaModel.Props.C15Doc
import TabulaModel.Props.C15Html
/-!
# C15 — HTML documents whose tables carry `colspan` / `rowspan`, end to end

`html_markdown_lossless`, `html_rag_lossless`, `html_extractor_lossless` (Props/C15Doc.lean) are
stated on the element list as the writer loop sees it (`HElem`: a table is the grid `ToMarkdown`
writes) and ask for rectangular tables.  Here the same three entry points on the elements the
reader holds (`HSrc`: a table is `ParsedTable.Rows`, cells with any `ColSpan`/`RowSpan`): the
grid of EVERY table is rectangular (`htmlCells_view`), so the hypothesis on tables that is left
is that a table has a cell at all — and what is read back is every table as its grid: each cell's
normalised text at the position where the cell stands, every other position empty, one row per
source row (rows all of whose cells are covered included).  Until fix 72cc329 this was the
recorded finding `C15/table-shape-merged-html`.
-/
namespace Tabula.C15Doc
open Tabula.A1 (Str)
open Tabula.Markdown Tabula.MarkdownDoc Tabula.C15

/-- the view of a source element is a table exactly for a source table, with the grid's texts -/
theorem view_table (e : HSrc) (g : List (List Str)) (h : e.view = .table (some g)) :
    ∃ rows, e = .table (some rows) ∧ g = htmlGridTexts rows := by
  cases e with
  | table rows =>
    cases rows with
    | none => simp [HSrc.view] at h
    | some rows =>
      simp only [HSrc.view, HElem.table.injEq, Option.some.injEq] at h
      exact ⟨rows, rfl, h.symm⟩
  | heading l t => simp [HSrc.view] at h
  | para t => simp [HSrc.view] at h
  | list items => simp [HSrc.view] at h
  | code t => simp [HSrc.view] at h
  | quote t => simp [HSrc.view] at h

/-- **every table of a reader is rectangular for the writer**, whatever its spans -/
theorem htmlCells_view (els : List HSrc) : HtmlCells (els.map HSrc.view) := by
  intro hdr rest hm
  rcases List.mem_map.mp hm with ⟨e, _, he⟩
  obtain ⟨rows, _, hg⟩ := view_table e _ he
  have hrect := html_grid_texts_rect rows
  rw [← hg] at hrect
  have := hrect hdr (by simp)
  rw [this]
  exact hrect

/-- well-formed contents of an HTML reader for the read-back theorems: `HtmlWF` said of the
elements the reader holds.  `cells`: a table with rows has a cell (a table none of whose rows has
a cell is written as `|` lines, which is no table). -/
structure HSrcWF (hl : Int → Int) (els : List HSrc) : Prop where
  basic : ∀ e ∈ els, (match e with | .code _ => false | .quote _ => false | _ => true) = true
  hlRange : ∀ l t, HSrc.heading l t ∈ els → 1 ≤ (hl l).toNat ∧ (hl l).toNat ≤ 6
  headNl : ∀ l t, HSrc.heading l t ∈ els → 10 ∉ t
  paraNl : ∀ t, HSrc.para t ∈ els → 10 ∉ t
  plain : ∀ t, HSrc.para t ∈ els → t.isEmpty = false → classify t = .para
  itemNl : ∀ items, HSrc.list items ∈ els → ∀ it ∈ items, 10 ∉ it.text
  cells : ∀ rows, HSrc.table (some rows) ∈ els → rows ≠ [] → ∃ r ∈ rows, r ≠ []

theorem view_heading (e : HSrc) (l : Int) (t : Str) (h : e.view = .heading l t) : e = .heading l t := by
  cases e with
  | heading l' t' => simp only [HSrc.view, HElem.heading.injEq] at h; rw [h.1, h.2]
  | table rows => cases rows <;> simp [HSrc.view] at h
  | para t => simp [HSrc.view] at h
  | list items => simp [HSrc.view] at h
  | code t => simp [HSrc.view] at h
  | quote t => simp [HSrc.view] at h

theorem view_para (e : HSrc) (t : Str) (h : e.view = .para t) : e = .para t := by
  cases e with
  | para t' => simp only [HSrc.view, HElem.para.injEq] at h; rw [h]
  | table rows => cases rows <;> simp [HSrc.view] at h
  | heading l t => simp [HSrc.view] at h
  | list items => simp [HSrc.view] at h
  | code t => simp [HSrc.view] at h
  | quote t => simp [HSrc.view] at h

theorem view_list (e : HSrc) (items : List HItem) (h : e.view = .list items) : e = .list items := by
  cases e with
  | list i' => simp only [HSrc.view, HElem.list.injEq] at h; rw [h]
  | table rows => cases rows <;> simp [HSrc.view] at h
  | heading l t => simp [HSrc.view] at h
  | para t => simp [HSrc.view] at h
  | code t => simp [HSrc.view] at h
  | quote t => simp [HSrc.view] at h

/-- the writer's well-formedness follows from the reader's -/
theorem htmlWF_view (hl : Int → Int) (els : List HSrc) (h : HSrcWF hl els) :
    HtmlWF hl (els.map HSrc.view) := by
  refine ⟨?_, ?_, ?_, ?_, ?_, ?_, ?_⟩
  · intro x hx
    rcases List.mem_map.mp hx with ⟨e, he, rfl⟩
    have := h.basic e he
    cases e with
    | table rows => cases rows <;> rfl
    | code t => simp at this
    | quote t => simp at this
    | heading l t => rfl
    | para t => rfl
    | list items => rfl
  · intro l t hx
    rcases List.mem_map.mp hx with ⟨e, he, hv⟩
    rw [view_heading e l t hv] at he
    exact h.hlRange l t he
  · intro l t hx
    rcases List.mem_map.mp hx with ⟨e, he, hv⟩
    rw [view_heading e l t hv] at he
    exact h.headNl l t he
  · intro t hx
    rcases List.mem_map.mp hx with ⟨e, he, hv⟩
    rw [view_para e t hv] at he
    exact h.paraNl t he
  · intro t hx
    rcases List.mem_map.mp hx with ⟨e, he, hv⟩
    rw [view_para e t hv] at he
    exact h.plain t he
  · intro items hx
    rcases List.mem_map.mp hx with ⟨e, he, hv⟩
    rw [view_list e items hv] at he
    exact h.itemNl items he
  · intro hdr rest hx r hr
    rcases List.mem_map.mp hx with ⟨e, he, hv⟩
    obtain ⟨rows, rfl, hg⟩ := view_table e _ hv
    have hne : rows ≠ [] := by
      intro e0; subst e0
      have : htmlGridTexts [] = [] := rfl
      rw [this] at hg; cases hg
    have hw := html_width_pos rows (h.cells rows he hne)
    have hlen := html_grid_texts_rect rows r (by rw [← hg]; exact hr)
    intro e0
    rw [e0] at hlen
    simp at hlen
    omega

/-- what a reader of the Markdown should get for the elements an HTML reader holds: headings,
items, paragraphs as for `htmlExpected`; every table as the normalised texts of its grid -/
def htmlExpectedSrc (hl : Int → Int) (els : List HSrc) : MdDoc := htmlExpected hl (els.map HSrc.view)

/-- the tables of `htmlExpectedSrc` are the grids of the reader's tables -/
theorem htmlExpectedSrc_tables (hl : Int → Int) (els : List HSrc) :
    (htmlExpectedSrc hl els).tables
      = (els.filterMap fun
          | .table (some rows) => if rows.isEmpty then none else some rows
          | _ => none).map fun rows => some ((htmlGridTexts rows).map (List.map (normCell .html))) := by
  unfold htmlExpectedSrc htmlExpected hTables
  simp only [List.map_filterMap, List.filterMap_map]
  congr 1
  funext e
  cases e with
  | table rows =>
    cases rows with
    | none => rfl
    | some rows =>
      simp only [Function.comp, HSrc.view]
      cases rows with
      | nil => rfl
      | cons r rs =>
        have hl' : (htmlGridTexts (r :: rs)).length = (r :: rs).length := by
          simp [htmlGridTexts, html_grid_rows]
        cases hg : htmlGridTexts (r :: rs) with
        | nil => rw [hg] at hl'; simp at hl'
        | cons a b => simp [hg]
  | heading l t => rfl
  | para t => rfl
  | list items => rfl
  | code t => rfl
  | quote t => rfl

/-- **HTML with merged cells, `Reader.MarkdownWithOptions` / `Reader.Markdown()`**: for every
element list a reader can hold — tables with any `colspan`/`rowspan`, short rows, rows all of
whose cells are covered, any cell contents — the Markdown reads back as the source structure,
every table as its grid. -/
theorem html_markdown_lossless_spans (els : List HSrc) (hwf : HSrcWF id els)
    (htoc : (2, tocText) ∉ hHeadings id (els.map HSrc.view)) :
    readMd (htmlMarkdownWithOptionsSrc els) = htmlExpectedSrc id els :=
  html_markdown_lossless (els.map HSrc.view) (htmlWF_view id els hwf) (htmlCells_view els) htoc

/-- **HTML with merged cells, `Reader.MarkdownWithRAGOptions`** under every option -/
theorem html_rag_lossless_spans (ext : Ext) (hext : ExtOK ext) (o : MdOpts) (m : HMeta) (els : List HSrc)
    (hwf : HSrcWF (fun l => headingLevel l o.offset o.max) els)
    (htoc : (2, tocText) ∉ hHeadings (fun l => headingLevel l o.offset o.max) (els.map HSrc.view)) :
    readMd (htmlMarkdownRagSrc ext o m els)
      = htmlExpectedSrc (fun l => headingLevel l o.offset o.max) els :=
  html_rag_lossless ext hext o m (els.map HSrc.view) (htmlWF_view _ els hwf) (htmlCells_view els) htoc

/-- **HTML with merged cells, `tabula.Open(f).ToMarkdownWithOptions`** -/
theorem html_extractor_lossless_spans (ext : Ext) (hext : ExtOK ext) (exH exF : Bool) (o : MdOpts)
    (m : HMeta) (els : List HSrc) (hwf : HSrcWF (fun l => headingLevel l o.offset o.max) els)
    (htoc : (2, tocText) ∉ hHeadings (fun l => headingLevel l o.offset o.max) (els.map HSrc.view)) :
    readMd (extractorMarkdown ext exH exF o (.html m (els.map HSrc.view)))
      = htmlExpectedSrc (fun l => headingLevel l o.offset o.max) els :=
  html_extractor_lossless ext hext exH exF o m (els.map HSrc.view) (htmlWF_view _ els hwf)
    (htmlCells_view els) htoc

/-! ## the hypotheses are satisfiable -/

/-- a heading, and the table `Wide (colspan 2) / Tall (rowspan 3) | a\|b / (covered) | B / (row all covered)` -/
def exHtml : List HSrc :=
  [ .heading 2 [72, 105],
    .table (some [[⟨[87], 2, 1⟩], [⟨[84], 1, 3⟩, ⟨[97, 92, 124, 98], 1, 1⟩], [⟨[66], 0, 1⟩], []]),
    .para [98, 111, 100, 121] ]

example : HSrcWF id exHtml := by
  refine ⟨?_, ?_, ?_, ?_, ?_, ?_, ?_⟩
  · intro e he
    simp only [exHtml, List.mem_cons, List.not_mem_nil, or_false] at he
    rcases he with rfl | rfl | rfl <;> rfl
  · intro l t h
    simp only [exHtml, List.mem_cons, HSrc.heading.injEq, List.not_mem_nil, or_false] at h
    rcases h with ⟨rfl, rfl⟩ | h | h
    · decide
    · cases h
    · cases h
  · intro l t h
    simp only [exHtml, List.mem_cons, HSrc.heading.injEq, List.not_mem_nil, or_false] at h
    rcases h with ⟨rfl, rfl⟩ | h | h
    · decide
    · cases h
    · cases h
  · intro t h
    simp only [exHtml, List.mem_cons, List.not_mem_nil, or_false] at h
    rcases h with h | h | h
    · cases h
    · cases h
    · cases h; decide
  · intro t h _
    simp only [exHtml, List.mem_cons, List.not_mem_nil, or_false] at h
    rcases h with h | h | h
    · cases h
    · cases h
    · cases h; decide
  · intro items h
    simp only [exHtml, List.mem_cons, List.not_mem_nil, or_false] at h
    rcases h with h | h | h <;> cases h
  · intro rows h _
    simp only [exHtml, List.mem_cons, List.not_mem_nil, or_false] at h
    rcases h with h | h | h
    · cases h
    · cases h; exact ⟨_, List.mem_cons_self, by simp⟩
    · cases h

/-- … and the conclusion on the example, computed: the table comes back as its 4 × 2 grid, the
cell beside the rowspan in the second column, the covered row as a row of empty cells, the
backslash and the pipe intact -/
example : htmlExpectedSrc id exHtml
    = { headings := [(2, [72, 105])], items := [],
        tables := [some [[[87], []], [[84], [97, 92, 124, 98]], [[], [66]], [[], []]]],
        paras := [[98, 111, 100, 121]] } := by decide

example : readMd (htmlMarkdownWithOptionsSrc exHtml) = htmlExpectedSrc id exHtml := by decide

end Tabula.C15Doc
