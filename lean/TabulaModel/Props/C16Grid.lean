import TabulaModel.Lemmas.VMerge
import TabulaModel.Lemmas.Docx
import TabulaModel.Props.C16
/-!
# C16 — DOCX vertical merges: the row spans, for every table

`processVerticalMerges` keeps two pieces of mutable state (the merge-start row of every
grid column, and the table whose row spans it increments while reading it). The theorems
here replace the loop by a specification that only searches the ORIGINAL table
(`Lemmas/VMerge.lean`): every continuation cell adds one row to exactly one cell - the cell
that covers the continuation's start column in the row of the nearest non-continuation cell
above that starts at that very column - and the row span of every cell is what it was plus
the number of continuation cells that point to it.
-/
namespace Tabula.C16Grid
open Tabula.Xml Tabula.Docx

/-- **vmerge_spec**. For every table (any spans, any continuation flags, aligned or not) the
pass is: add one row to each target, in reading order of the continuation cells. -/
theorem vmerge_spec (rows : List (List Cell)) : processVerticalMerges rows = bumpAll rows (targets rows) :=
  processVerticalMerges_spec rows

/-- **vmerge_row_spans**. After the pass the row span of cell `i` of row `r` is its row span
before plus the number of continuation cells whose target it is. -/
theorem vmerge_row_spans (rows : List (List Cell)) (r i : Nat) :
    (cellAt (processVerticalMerges rows) r i).map (·.rowSpan)
      = (cellAt rows r i).map fun c => c.rowSpan + (targets rows).count (r, i) := by
  rw [vmerge_spec, rowSpan_bumpAll]

theorem parseRows_rowSpan (tbl : Node) (r i : Nat) (c : Cell) (h : cellAt (parseRows tbl) r i = some c) : c.rowSpan = 1 := by
  unfold cellAt parseRows at h
  rw [List.getElem?_map] at h
  cases hr : (childrenNamed tbl.kids sTr)[r]? with
  | none => simp [hr] at h
  | some tr =>
    simp only [hr, Option.map_some, Option.bind_some, List.getElem?_map] at h
    cases hc : (childrenNamed tr.kids sTc)[i]? with
    | none => simp [hc] at h
    | some tc =>
      simp only [hc, Option.map_some, Option.some.injEq] at h
      rw [← h]; rfl

/-- before the vertical-merge pass every cell is one row high, whether `limitTableGrid` has
reset the spans or not -/
theorem limited_rowSpan (tbl : Node) (r i : Nat) (c : Cell)
    (h : cellAt (limitTableGrid (parseRows tbl)) r i = some c) : c.rowSpan = 1 := by
  cases limit_cases (parseRows tbl) with
  | inl he => rw [he] at h; exact parseRows_rowSpan tbl r i c h
  | inr he =>
    rw [he] at h
    unfold cellAt resetSpans at h
    rw [List.getElem?_map] at h
    cases hr : (parseRows tbl)[r]? with
    | none => simp [hr] at h
    | some row =>
      simp only [hr, Option.map_some, Option.bind_some, List.getElem?_map] at h
      cases hc : row[i]? with
      | none => simp [hc] at h
      | some c0 =>
        simp only [hc, Option.map_some, Option.some.injEq] at h
        rw [← h]

/-- **docx_row_spans_any**. In a parsed DOCX table the row span of cell `i` of row `r` is one
plus the number of continuation cells that point to it - for every `w:tbl`; the columns the
continuation cells are matched on are those of the table after `limitTableGrid` (every cell
one column wide when the table is over the grid limit). -/
theorem docx_row_spans_any (tbl : Node) (r i : Nat) :
    (cellAt (parseTable tbl) r i).map (·.rowSpan)
      = (cellAt (limitTableGrid (parseRows tbl)) r i).map fun _ =>
          1 + (targets (limitTableGrid (parseRows tbl))).count (r, i) := by
  unfold parseTable
  rw [vmerge_row_spans]
  cases h : cellAt (limitTableGrid (parseRows tbl)) r i with
  | none => rfl
  | some c =>
    simp only [Option.map_some, Option.some.injEq]
    rw [limited_rowSpan tbl r i c h]

/-- **docx_row_spans**. In a parsed DOCX table the row span of cell `i` of row `r` is one plus
the number of continuation cells that point to it, matched on the authored grid spans (the rows
a merge runs through may be partitioned differently).
RESTATED (was: for every `w:tbl`): holds for every table within the grid limit of
`limitTableGrid` (rows x spanned columns ≤ 2^20, hypothesis `h`); for the others
`docx_row_spans_any` says on which columns the merges are matched. -/
theorem docx_row_spans (tbl : Node) (r i : Nat)
    (h : (parseRows tbl).length * colCount (parseRows tbl) ≤ maxTableGridCells) :
    (cellAt (parseTable tbl) r i).map (·.rowSpan)
      = (cellAt (parseRows tbl) r i).map fun _ => 1 + (targets (parseRows tbl)).count (r, i) := by
  have := docx_row_spans_any tbl r i
  rw [limit_within _ h] at this
  exact this

/-- a cell that no continuation cell points to keeps its row span -/
theorem vmerge_untouched (rows : List (List Cell)) (r i : Nat) (h : (r, i) ∉ targets rows) :
    (cellAt (processVerticalMerges rows) r i).map (·.rowSpan) = (cellAt rows r i).map (·.rowSpan) := by
  rw [vmerge_row_spans, List.count_eq_zero_of_not_mem h]
  simp

/-- **vmerge_target**. What a target is: the cell is a continuation; among the cells met before
it (latest first) the nearest one that is no continuation and starts at the same grid column
(inside the table's width) is in row `sr`; and `i` is the index `findCellAtColumn` gives for
that column in row `sr` of the table as authored. -/
theorem vmerge_target (cc : Nat) (rows : List (List Cell)) (rev : List Ev) (e : Ev) (sr i : Nat)
    (h : targetOf cc rows rev e = some (sr, i)) :
    e.cell.cont = true ∧ lastStart cc rev e.col = some sr ∧ findCellAtColumn (rows.getD sr []) e.col 0 0 = some i := by
  unfold targetOf at h
  by_cases hc : e.cell.cont = true
  · simp only [hc, if_true] at h
    cases hl : lastStart cc rev e.col with
    | none => simp [hl] at h
    | some s =>
      simp only [hl] at h
      cases hf : findCellAtColumn (rows.getD s []) e.col 0 0 with
      | none => rw [hf] at h; simp at h
      | some j =>
        simp only [hf, Option.map_some, Option.some.injEq, Prod.mk.injEq] at h
        obtain ⟨h1, h2⟩ := h
        subst h1; subst h2
        exact ⟨hc, rfl, hf⟩
  · simp [hc] at h

/-- every continuation cell points to at most one cell: the row spans added up grow by at
most the number of continuation cells -/
theorem targets_le_continuations (cc : Nat) (rows : List (List Cell)) : ∀ (evs rev : List Ev),
    (targetsFrom cc rows evs rev).length ≤ (evs.filter fun e => e.cell.cont).length := by
  intro evs
  induction evs with
  | nil => intro rev; simp [targetsFrom]
  | cons e rest ih =>
    intro rev
    simp only [targetsFrom, List.length_append, List.filter_cons]
    have := ih (e :: rev)
    by_cases hc : e.cell.cont = true
    · simp only [hc, if_true, List.length_cons]
      have : (targetOf cc rows rev e).toList.length ≤ 1 := by cases targetOf cc rows rev e <;> simp
      omega
    · have hn : targetOf cc rows rev e = none := by simp [targetOf, hc]
      simp only [hn, hc, Option.toList, List.length_nil, Bool.false_eq_true, if_false]
      omega

/-! Instances, checked by the kernel. `c cs cont` = a cell `cs` columns wide, continuation or not. -/
def c (cs : Nat) (cont : Bool) : Cell := { text := [], colSpan := cs, rowSpan := 1, cont := cont }

/-- the regular case: restart / continue / continue beside plain cells -/
example : targets [[c 1 false, c 1 false], [c 1 true, c 1 false], [c 1 true, c 1 false]] = [(0, 0), (0, 0)] := by decide

/-- a column span in the start row only: `[A 1x2][B] / [c][d][^]`: the continuation is the third
cell of its row, its target the second cell of the start row -/
example : targets [[c 2 false, c 1 false], [c 1 false, c 1 false, c 1 true]] = [(0, 1)] := by decide

/-- a column span in the continuation row only: `[P][Q][R] / [s 1x2][^]` -/
example : targets [[c 1 false, c 1 false, c 1 false], [c 2 false, c 1 true]] = [(0, 2)] := by decide

/-- a merge two columns wide over three rows, a second merge that starts below the first ends -/
example :
    (processVerticalMerges [[c 2 false, c 1 false], [c 2 true, c 1 false], [c 2 true, c 1 true], [c 1 false, c 1 false, c 1 true]]).map
      (·.map (·.rowSpan)) = [[3, 1], [1, 3], [1, 1], [1, 1, 1]] := by decide

/-- a continuation with nothing above it points nowhere -/
example : targets [[c 1 true, c 1 false], [c 1 true, c 1 true]] = [(0, 1)] := by decide

end Tabula.C16Grid
