import TabulaModel.Props.C14Api
import TabulaModel.Lemmas.Collection
/-!
# C14 (part 6) — the accessors of a (filtered) collection

`Count`, `First`, `Last`, `GetByIndex`, `GetByID`, `ToSlice`, `GetAllSections`, `GetPageRange`,
`GetTotalTokens`, `GetTotalWords`, `Statistics` of rag/metadata.go: what a caller observes of the
collection a filter returned.
-/
set_option linter.unusedSimpArgs false
namespace Tabula.C14Coll
open Tabula.Export Tabula.Csv Tabula.C14 Tabula.C14Api

/-- `Count`, `First`, `Last`, `ToSlice`, `GetByIndex`: the length, the head, the last element, the
list itself, the element at an in-range index (nil outside `0 ≤ i < Count`) -/
theorem positional_accessors (cs : List Chunk) (i : Int) :
    collCount cs = cs.length ∧ collFirst cs = cs.head? ∧ collLast cs = cs.getLast? ∧ collToSlice cs = cs ∧
    (0 ≤ i → i < cs.length → collGetByIndex cs i = cs[i.toNat]?) ∧
    ((i < 0 ∨ (cs.length : Int) ≤ i) → collGetByIndex cs i = none) := by
  refine ⟨rfl, by cases cs <;> rfl, ?_, rfl, ?_, ?_⟩
  · unfold collLast
    cases cs with
    | nil => rfl
    | cons c rest => simp [List.getLast?_eq_getElem?]
  · intro h0 h1
    have : ¬ (i < 0 ∨ i ≥ cs.length) := by omega
    simp [collGetByIndex, this]
  · intro h
    have : i < 0 ∨ i ≥ cs.length := by omega
    simp [collGetByIndex, this]

/-- the size of a filtered collection is the number of chunks satisfying the predicate -/
theorem count_of_filter (env : StrEnv) (op : FilterOp) (cs : List Chunk) :
    collCount (applyOp env op cs) = cs.countP (opPred env op) := by
  simp [collCount, applyOp, filterC_eq, List.countP_eq_length_filter]

/-- `GetByID` returns the FIRST chunk with that id, nil iff there is none -/
theorem get_by_id_spec (id : Str) (cs : List Chunk) :
    collGetByID id cs = cs.find? (fun c => decide (c.id = id)) ∧
    (∀ c, collGetByID id cs = some c → c ∈ cs ∧ c.id = id) ∧
    (collGetByID id cs = none ↔ ∀ c ∈ cs, c.id ≠ id) := by
  have h1 : collGetByID id cs = cs.find? (fun c => decide (c.id = id)) := by
    induction cs with
    | nil => rfl
    | cons c rest ih =>
      simp only [collGetByID, List.find?_cons]
      by_cases h : c.id = id <;> simp [h, ih]
  refine ⟨h1, ?_, ?_⟩
  · intro c hc
    rw [h1] at hc
    exact ⟨List.mem_of_find?_eq_some hc, by simpa using List.find?_some hc⟩
  · rw [h1, List.find?_eq_none]
    simp

/-- on a filtered collection `GetByID` can only return a chunk that satisfies the predicates -/
theorem get_by_id_of_filtered (env : StrEnv) (ops : List FilterOp) (cs : List Chunk) (id : Str) (c : Chunk)
    (h : collGetByID id (applyChain env ops cs) = some c) :
    c ∈ cs ∧ c.id = id ∧ ∀ op ∈ ops, opPred env op c = true := by
  obtain ⟨hm, hid⟩ := (get_by_id_spec id _).2.1 c h
  obtain ⟨h1, h2⟩ := (filter_chain_mem env ops cs c).mp hm
  exact ⟨h1, hid, h2⟩

/-- `GetAllSections`: every non-empty section title of the collection, each once, in the order
of first occurrence -/
theorem sections_spec (cs : List Chunk) :
    (collSections cs).Nodup ∧
    (∀ t, t ∈ collSections cs ↔ (t ≠ [] ∧ ∃ c ∈ cs, c.md.sectionTitle = t)) ∧
    (collSections cs).Sublist (cs.map (·.md.sectionTitle)) := by
  obtain ⟨h1, h2, sub, h3, h4⟩ := sectionsLoop_spec cs [] [] (by simp) List.nodup_nil
  unfold collSections
  refine ⟨h1, fun t => by simpa using h2 t, ?_⟩
  rw [h3]
  simpa using h4

/-- `GetPageRange`: the smallest PageStart and the largest PageEnd of the collection (both attained);
`(0, 0)` for the empty collection -/
theorem page_range_spec (cs : List Chunk) :
    (cs = [] → collPageRange cs = (0, 0)) ∧
    (cs ≠ [] →
      (∀ c ∈ cs, (collPageRange cs).1 ≤ c.md.pageStart) ∧ (∃ c ∈ cs, (collPageRange cs).1 = c.md.pageStart) ∧
      (∀ c ∈ cs, c.md.pageEnd ≤ (collPageRange cs).2) ∧ (∃ c ∈ cs, (collPageRange cs).2 = c.md.pageEnd)) := by
  constructor
  · intro h; subst h; rfl
  · intro hne
    cases cs with
    | nil => exact absurd rfl hne
    | cons c rest =>
      simp only [collPageRange]
      obtain ⟨a1, a2, a3, a4, a5, a6⟩ := pageRangeLoop_spec rest c.md.pageStart c.md.pageEnd
      refine ⟨?_, ?_, ?_, ?_⟩
      · intro c' hc'
        rcases List.mem_cons.mp hc' with e | e
        · subst e; exact a1
        · exact a2 c' e
      · rcases a3 with e | ⟨c', hc', e⟩
        · exact ⟨c, by simp, e⟩
        · exact ⟨c', List.mem_cons_of_mem _ hc', e⟩
      · intro c' hc'
        rcases List.mem_cons.mp hc' with e | e
        · subst e; exact a4
        · exact a5 c' e
      · rcases a6 with e | ⟨c', hc', e⟩
        · exact ⟨c, by simp, e⟩
        · exact ⟨c', List.mem_cons_of_mem _ hc', e⟩

/-- `GetTotalTokens` / `GetTotalWords` are the sums over the collection -/
theorem totals_spec (cs : List Chunk) :
    collTotalTokens cs 0 = (cs.map (·.md.estimatedTokens)).sum ∧
    collTotalWords cs 0 = (cs.map (·.md.wordCount)).sum := by
  have h1 : ∀ (l : List Chunk) (t : Int), collTotalTokens l t = t + (l.map (·.md.estimatedTokens)).sum := by
    intro l
    induction l with
    | nil => intro t; simp [collTotalTokens]
    | cons c rest ih => intro t; simp only [collTotalTokens, ih, List.map_cons, List.sum_cons]; omega
  have h2 : ∀ (l : List Chunk) (t : Int), collTotalWords l t = t + (l.map (·.md.wordCount)).sum := by
    intro l
    induction l with
    | nil => intro t; simp [collTotalWords]
    | cons c rest ih => intro t; simp only [collTotalWords, ih, List.map_cons, List.sum_cons]; omega
  exact ⟨by simpa using h1 cs 0, by simpa using h2 cs 0⟩

/-- `Statistics` of a non-empty collection: the counts and sums over all chunks, bounds on the
token counts, the truncated average, and the section / page figures of the other accessors -/
theorem statistics_spec (cs : List Chunk) (hne : cs ≠ []) :
    (collStatistics cs).totalChunks = cs.length ∧
    (collStatistics cs).totalTokens = (cs.map (·.md.estimatedTokens)).sum ∧
    (collStatistics cs).totalWords = (cs.map (·.md.wordCount)).sum ∧
    (collStatistics cs).totalChars = (cs.map (·.md.charCount)).sum ∧
    (collStatistics cs).withTables = cs.countP (·.md.hasTable) ∧
    (collStatistics cs).withLists = cs.countP (·.md.hasList) ∧
    (collStatistics cs).withImages = cs.countP (·.md.hasImage) ∧
    (∀ c ∈ cs, (collStatistics cs).minTokens ≤ c.md.estimatedTokens ∧ c.md.estimatedTokens ≤ (collStatistics cs).maxTokens) ∧
    (collStatistics cs).avgTokens = Int.tdiv (cs.map (·.md.estimatedTokens)).sum cs.length ∧
    (collStatistics cs).uniqueSections = (collSections cs).length ∧
    ((collStatistics cs).pageStart, (collStatistics cs).pageEnd) = collPageRange cs := by
  cases cs with
  | nil => exact absurd rfl hne
  | cons c rest =>
    obtain ⟨a0, a1, a2, a3, a4, a5, a6, a7, a8, a9, a10⟩ := statsLoop_spec (c :: rest)
      { totalChunks := (c :: rest).length, minTokens := c.md.estimatedTokens, maxTokens := c.md.estimatedTokens }
    simp only [collStatistics]
    refine ⟨a0, by simpa using a1, by simpa using a2, by simpa using a3, by simpa using a4, by simpa using a5,
      by simpa using a6, fun c' hc' => ⟨a8 c' hc', a10 c' hc'⟩, ?_, by first | rfl | trivial, by first | rfl | trivial⟩
    rw [a1]; simp

/-- and of the empty collection: all zero -/
theorem statistics_empty : (collStatistics []).totalChunks = 0 ∧ (collStatistics []).totalTokens = 0 ∧
    (collStatistics []).uniqueSections = 0 ∧ (collStatistics []).pageEnd = 0 := by
  simp [collStatistics]

end Tabula.C14Coll
