import TabulaModel.Lemmas.HtmlGrid
import TabulaModel.Lemmas.HtmlApi
import TabulaModel.Lemmas.HtmlText
/-!
# C19 — tables after fix 72cc329 (colspan / rowspan)

Fix 72cc329 (finding C15/table-shape-merged-html, repaired for C15) changed three things the C19
model covers:

* `parseTable` keeps a row without cells when a rowspan from above reaches it
  (`dropEmptyRows`; before: every row without cells was dropped, `dropEmptyRowsOld`);
* `(*ParsedTable).ToMarkdown` writes the table's grid (`tableGrid`; before: the rows as they
  are, `tableToMarkdownOld`);
* `DocumentWithOptions` copies the model table from the same grid (before: cells by their
  index in the row, `padRow`).

This file says what that means for content: nothing but rows without cells is ever dropped, every
cell is still returned, exactly once and in order, in all three views; for tables without spans
nothing changed.  (The grid itself — rectangular, cells at the first column not covered from
above — is Lemmas/HtmlGrid.lean and Props/C15Html.lean.)
-/
namespace Tabula.C19Table
open Tabula.Html

/-! ## `parseTable`: rows -/

/-- the rows `parseTable` returns are rows of the table, in order; the ones left out have no cell -/
theorem kept_rows_sublist (rows : List (List Cell)) :
    (dropEmptyRows rows).Sublist rows ∧ (dropEmptyRows rows).flatten = rows.flatten :=
  ⟨HtmlGrid.dropEmptyRowsFrom_sublist _ rows 0, HtmlGrid.dropEmptyRowsFrom_flatten _ rows 0⟩

/-- a table all of whose rows have a cell keeps its rows as they are -/
theorem rows_with_cells_kept (rows : List (List Cell)) (h : ∀ r ∈ rows, r ≠ []) :
    dropEmptyRows rows = rows :=
  HtmlGrid.dropEmptyRowsFrom_nonEmpty _ rows 0 h

example : dropEmptyRows [[⟨[97], false, 1, 1⟩], [⟨[98], true, 7, 0⟩]]
    = [[⟨[97], false, 1, 1⟩], [⟨[98], true, 7, 0⟩]] := by decide

/-- **without rowspans** (every `RowSpan` counts as 1: absent, 1, below 1, above 1024) the rows are
what they were before the fix: all rows without cells dropped -/
theorem rows_unchanged_without_rowspan (rows : List (List Cell))
    (h : ∀ r ∈ rows, ∀ c ∈ r, HtmlGrid.cellSpan c.rowSpan = 1) :
    dropEmptyRows rows = dropEmptyRowsOld rows :=
  HtmlGrid.dropEmptyRows_noRowSpan _ rows h

example : dropEmptyRows [[⟨[97], false, 1, 2⟩], [], [⟨[98], false, 2000, 1⟩], []]
    = [[⟨[97], false, 1, 2⟩], [⟨[98], false, 2000, 1⟩]] := by decide

/-- **a row all of whose cells are covered is a row**: `<tr><td rowspan=3>T</td><td rowspan=3>U</td></tr>
<tr></tr><tr></tr><tr><td>a</td><td>b</td></tr><tr></tr>` keeps its two covered rows and loses the
last, which nothing reaches -/
theorem covered_rows_kept :
    dropEmptyRows [[⟨[84], false, 3, 1⟩, ⟨[85], false, 3, 1⟩], [], [], [⟨[97], false, 1, 1⟩, ⟨[98], false, 1, 1⟩], []]
      = [[⟨[84], false, 3, 1⟩, ⟨[85], false, 3, 1⟩], [], [], [⟨[97], false, 1, 1⟩, ⟨[98], false, 1, 1⟩]] := by
  decide

/-- before the fix the covered rows were dropped: the rows below moved up beside the wrong cells -/
theorem covered_rows_pinned_counterexample :
    dropEmptyRowsOld [[⟨[84], false, 3, 1⟩, ⟨[85], false, 3, 1⟩], [], [], [⟨[97], false, 1, 1⟩, ⟨[98], false, 1, 1⟩], []]
      = [[⟨[84], false, 3, 1⟩, ⟨[85], false, 3, 1⟩], [⟨[97], false, 1, 1⟩, ⟨[98], false, 1, 1⟩]] := by
  decide

/-- every td/th of every row is still returned as one cell, in document order, whatever rows are
kept (the statement of `C19.table_cells_complete`, from the rows before `dropEmptyRows`) -/
theorem parseTable_cells (kids : List Dom) :
    (parseTable kids).1.flatten = (tableSections kids).1.flatten := by
  have : (parseTable kids).1 = dropEmptyRows (tableSections kids).1 := by
    unfold parseTable
    cases tableSections kids with
    | mk rows hd => rfl
  rw [this]
  exact (kept_rows_sublist _).2

/-! ## the grid in the Markdown and Document views -/

/-- the grid has one line per row and the same number of cells in every line -/
theorem tableGrid_rectangular (rows : List (List Cell)) :
    (tableGrid rows).length = rows.length ∧
      ∀ l ∈ tableGrid rows, l.length = HtmlGrid.gridWidth Cell.colSpan Cell.rowSpan rows := by
  unfold tableGrid
  refine ⟨by rw [List.length_map]; exact HtmlGrid.layoutGrid_rows _ rows, ?_⟩
  intro l hl
  rcases List.mem_map.mp hl with ⟨l0, h0, rfl⟩
  rw [List.length_map]
  exact HtmlGrid.layoutGrid_rect _ rows l0 h0

/-- **no cell is lost in the grid**: the non-empty texts of the grid, line by line, are the
non-empty texts of the table's cells, in order (the grid only adds empty cells) -/
theorem tableGrid_keeps_texts (rows : List (List Cell)) :
    nonEmpty ((tableGrid rows).flatten.map (·.text)) = nonEmpty (rows.flatten.map (·.text)) :=
  nonEmpty_tableGrid rows

/-- **without spans nothing changed**: for a table whose cells do not span and whose rows have the
same length the grid is the table, so `ToMarkdown` writes what it wrote before the fix and the
model table of `DocumentWithOptions` is the one built before -/
theorem grid_unchanged_without_spans (n : Nat) (rows : List (List Cell))
    (hrect : ∀ r ∈ rows, r.length = n)
    (hplain : ∀ r ∈ rows, ∀ c ∈ r, HtmlGrid.cellSpan c.colSpan = 1 ∧ HtmlGrid.cellSpan c.rowSpan = 1) :
    tableGrid rows = rows ∧ tableToMarkdown rows = tableToMarkdownOld rows ∧
      tableGrid rows = rows.map (padRow (numCols rows)) := by
  have hg : tableGrid rows = rows := by
    let sp' : Cell → Nat × Nat := fun _ => (0, 1)
    have hag : ∀ r ∈ rows, ∀ c ∈ r, sp' c = HtmlGrid.gridSpan Cell.colSpan Cell.rowSpan rows c := by
      intro r hr c hc
      obtain ⟨h1, h2⟩ := hplain r hr c hc
      unfold HtmlGrid.gridSpan HtmlGrid.spanOf
      split
      · show (0, 1) = (HtmlGrid.cellSpan c.colSpan - 1, HtmlGrid.cellSpan c.rowSpan); rw [h1, h2]
      · rfl
    have hrows : HtmlGrid.layoutRows (HtmlGrid.gridSpan Cell.colSpan Cell.rowSpan rows) [] rows
        = HtmlGrid.layoutRows sp' [] rows := (layoutRows_congr sp' _ rows hag []).symm
    have hgrid : HtmlGrid.grid Cell.colSpan Cell.rowSpan rows = HtmlGrid.layoutGrid sp' rows := by
      unfold HtmlGrid.grid HtmlGrid.layoutGrid HtmlGrid.widthOf
      rw [hrows]
    unfold tableGrid
    rw [hgrid, HtmlGrid.layoutGrid_plain sp' (fun _ => rfl) n rows hrect, List.map_map]
    have : ∀ r : List Cell, ((fun l : List (Option Cell) => l.map gridCell) ∘ fun r => r.map some) r = r := by
      intro r
      simp only [Function.comp, List.map_map]
      induction r with
      | nil => rfl
      | cons c cs ih => simp only [List.map_cons, ih]; rfl
    rw [List.map_congr_left (fun r _ => this r)]
    simp
  refine ⟨hg, by unfold tableToMarkdown tableToMarkdownOld; rw [hg], ?_⟩
  rw [hg]
  -- the old padding adds nothing to rows of equal length
  by_cases hne : rows = []
  · subst hne; rfl
  have hw : numCols rows = n := by
    unfold numCols
    exact HtmlGrid.foldl_max_rect n rows 0 (Nat.zero_le _) hrect hne
  rw [hw]
  symm
  have : ∀ r ∈ rows, padRow n r = r := by
    intro r hr
    unfold padRow
    rw [hrect r hr, Nat.sub_self]; simp
  rw [List.map_congr_left this]; simp
where
  layoutRows_congr (sp sp2 : Cell → Nat × Nat) : ∀ (t : List (List Cell)),
      (∀ r ∈ t, ∀ c ∈ r, sp c = sp2 c) → ∀ cov, HtmlGrid.layoutRows sp cov t = HtmlGrid.layoutRows sp2 cov t
    | [], _, _ => rfl
    | r :: rs, h, cov => by
        have hp : ∀ (r : List Cell), (∀ c ∈ r, sp c = sp2 c) → ∀ cov, HtmlGrid.placeRow sp cov r = HtmlGrid.placeRow sp2 cov r := by
          intro r
          induction r with
          | nil => intro _ _; rfl
          | cons c cs ih =>
            intro hc cov
            simp only [HtmlGrid.placeRow]
            rw [hc c (by simp), ih (fun x hx => hc x (List.mem_cons_of_mem _ hx))]
        simp only [HtmlGrid.layoutRows]
        rw [hp r (h r (by simp)) cov,
          layoutRows_congr sp sp2 rs (fun x hx => h x (List.mem_cons_of_mem _ hx))]

example : tableGrid [[⟨[97], true, 1, 1⟩, ⟨[98], true, 0, -4⟩], [⟨[99], false, 1, 1⟩, ⟨[], false, 5000, 1⟩]]
    = [[⟨[97], true, 1, 1⟩, ⟨[98], true, 0, -4⟩], [⟨[99], false, 1, 1⟩, ⟨[], false, 5000, 1⟩]] := by decide

/-- the witness of the finding in the Markdown view: `<th colspan=2>A</th>` over `x`, `y` -/
theorem markdown_grid_witness :
    tableToMarkdown [[⟨[65], true, 1, 2⟩], [⟨[120], false, 1, 1⟩, ⟨[121], false, 1, 1⟩]]
      = [124, 32, 65, 32, 124, 32, 32, 124, 10,
         124, 32, 45, 45, 45, 32, 124, 32, 45, 45, 45, 32, 124, 10,
         124, 32, 120, 32, 124, 32, 121, 32, 124, 10] := by decide

/-- … and before the fix: a one-cell header line over a two-cell row -/
theorem markdown_grid_pinned_counterexample :
    tableToMarkdownOld [[⟨[65], true, 1, 2⟩], [⟨[120], false, 1, 1⟩, ⟨[121], false, 1, 1⟩]]
      = [124, 32, 65, 32, 124, 10,
         124, 32, 45, 45, 45, 32, 124, 10,
         124, 32, 120, 32, 124, 32, 121, 32, 124, 10] := by decide

/-- the Document view of `Tall` (two rows high) beside `A`, with `B` below `A`: `B` stands in the
second column; before the fix it was copied to the first (`padRow`) -/
theorem document_grid_witness :
    tableGrid [[⟨[84], false, 2, 1⟩, ⟨[65], false, 1, 1⟩], [⟨[66], false, 1, 1⟩]]
        = [[⟨[84], false, 2, 1⟩, ⟨[65], false, 1, 1⟩], [⟨[], false, 1, 1⟩, ⟨[66], false, 1, 1⟩]] ∧
      [[⟨[84], false, 2, 1⟩, ⟨[65], false, 1, 1⟩], [⟨[66], false, 1, 1⟩]].map (padRow 2)
        = [[⟨[84], false, 2, 1⟩, ⟨[65], false, 1, 1⟩], [(⟨[66], false, 1, 1⟩ : Cell), ⟨[], false, 1, 1⟩]] := by
  decide

end Tabula.C19Table
