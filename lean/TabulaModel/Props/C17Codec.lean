import TabulaModel.Lemmas.A1Range
import TabulaModel.Props.C17
/-!
# C17, the reference codec — the other direction and ranges

`Props/C17.lean` has `ColumnToIndex ∘ IndexToColumn = id`, `IndexToColumn ∘ ColumnToIndex = id` on
upper-case letter strings and `ParseCellRef ∘ CellRef = id`.  Here: `CellRef ∘ ParseCellRef = id`
on canonical references, injectivity, and `ParseRangeRef`.
-/
namespace Tabula.C17C
open Tabula.A1 Tabula.C17

/-- a canonical reference — upper-case column letters, then a row number printed without sign or
leading zero — parses to its column index and row, if the column number is within the bound
`ColumnToIndex` enforces (`colNumber ls ≤ 2^40`; `colNumber_short`: up to eight letters) -/
theorem parse_canonical (ls : Str) (n : Nat) (hls : IsUpperCol ls) (hne : ls ≠ [])
    (hb : colNumber ls ≤ maxColumnNumber) (h1 : 1 ≤ n) (hmax : n ≤ maxInt64) :
    parseCellRef (ls ++ dec n) = .ok (columnToIndex ls, (n : Int) - 1) := by
  obtain ⟨d, ds, hd, hd1, hd2⟩ := dec_head n
  obtain ⟨_, hpos, _⟩ := colAcc_upper ls hls
  have hr1 := hpos hne
  have htw := takeWhile_letters_append ls d ds hls ⟨hd1, hd2⟩
  unfold parseCellRef
  rw [hd, htw.1, htw.2, ← hd]
  have e1 : (ls ++ dec n).isEmpty = false := by
    cases ls with
    | nil => exact absurd rfl hne
    | cons a b => rfl
  have e2 : ls.isEmpty = false := by
    cases ls with
    | nil => exact absurd rfl hne
    | cons a b => rfl
  have e3 : (dec n).isEmpty = false := by rw [hd]; rfl
  simp only [e1, e2, e3, Bool.false_eq_true, if_false]
  have hcol : columnToIndex ls = (colNumber ls : Int) - 1 := by
    rw [col_to_index_spec ls hls]; simp [hb]
  rw [hcol, atoi_dec n hmax]
  have : ¬ ((colNumber ls : Int) - 1 < 0) := by omega
  simp only [this, if_false]
  have : ¬ ((n : Int) < 1) := by omega
  simp only [this, if_false]

/-- beyond the column bound a canonical reference is an invalid reference -/
theorem parse_canonical_beyond_bound (ls : Str) (n : Nat) (hls : IsUpperCol ls) (hne : ls ≠ [])
    (hb : maxColumnNumber < colNumber ls) :
    parseCellRef (ls ++ dec n) = .error .badCol := by
  obtain ⟨d, ds, hd, hd1, hd2⟩ := dec_head n
  have htw := takeWhile_letters_append ls d ds hls ⟨hd1, hd2⟩
  unfold parseCellRef
  rw [hd, htw.1, htw.2, ← hd]
  have e1 : (ls ++ dec n).isEmpty = false := by
    cases ls with
    | nil => exact absurd rfl hne
    | cons a b => rfl
  have e2 : ls.isEmpty = false := by
    cases ls with
    | nil => exact absurd rfl hne
    | cons a b => rfl
  have e3 : (dec n).isEmpty = false := by rw [hd]; rfl
  simp only [e1, e2, e3, Bool.false_eq_true, if_false]
  rw [col_string_beyond_bound ls hls hb]
  simp

/-- **`CellRef ∘ ParseCellRef = id` on canonical references** whose column is within the bound:
with `cellref_roundtrip` the conversion is a bijection between non-negative (column,row) pairs
with column number up to 2^40 and such canonical A1 strings -/
theorem cellref_roundtrip_string (ls : Str) (n : Nat) (hls : IsUpperCol ls) (hne : ls ≠ [])
    (hb : colNumber ls ≤ maxColumnNumber) (h1 : 1 ≤ n) (hmax : n ≤ maxInt64) :
    ∃ c r, parseCellRef (ls ++ dec n) = .ok (c, r) ∧ cellRef c r = ls ++ dec n := by
  refine ⟨columnToIndex ls, (n : Int) - 1, parse_canonical ls n hls hne hb h1 hmax, ?_⟩
  unfold cellRef
  rw [col_bijection_string ls hls hne hb]
  congr 1
  unfold decInt
  have e : (n : Int) - 1 + 1 = n := by omega
  rw [e]
  have : ¬ ((n : Int) < 0) := by omega
  simp [this]

/-- every reference `CellRef` prints is canonical: letters `A`–`Z`, then digits -/
theorem cellref_canonical (col row : Nat) :
    ∃ ls, IsUpperCol ls ∧ ls ≠ [] ∧ cellRef (col : Int) (row : Int) = ls ++ dec (row + 1) := by
  refine ⟨toColAux (col + 1) [], toColAux_letters _, toColAux_ne_nil _ (by omega), ?_⟩
  unfold cellRef indexToColumn decInt
  have h0 : ¬ ((col : Int) < 0) := by omega
  have h1 : ¬ (((row : Int) + 1) < 0) := by omega
  simp only [h0, h1, if_false, Int.toNat_natCast]
  have : ((row : Int) + 1).natAbs = row + 1 := by omega
  rw [this]

/-- distinct positions have distinct references — for all non-negative pairs, whatever their size
(proved from the printed strings, so the bound of the parser plays no part) -/
theorem cellref_injective (c1 r1 c2 r2 : Nat)
    (h : cellRef (c1 : Int) (r1 : Int) = cellRef (c2 : Int) (r2 : Int)) : c1 = c2 ∧ r1 = r2 := by
  have key : ∀ c r : Nat, cellRef (c : Int) (r : Int) = toColAux (c + 1) [] ++ dec (r + 1) := by
    intro c r
    unfold cellRef indexToColumn decInt
    have h0 : ¬ ((c : Int) < 0) := by omega
    have h1 : ¬ (((r : Int) + 1) < 0) := by omega
    simp only [h0, h1, if_false, Int.toNat_natCast]
    have : ((r : Int) + 1).natAbs = r + 1 := by omega
    rw [this]
  rw [key, key] at h
  obtain ⟨d1, ds1, hd1, a1, b1⟩ := dec_head (r1 + 1)
  obtain ⟨d2, ds2, hd2, a2, b2⟩ := dec_head (r2 + 1)
  have t1 := takeWhile_letters_append (toColAux (c1 + 1) []) d1 ds1 (toColAux_letters _) ⟨a1, b1⟩
  have t2 := takeWhile_letters_append (toColAux (c2 + 1) []) d2 ds2 (toColAux_letters _) ⟨a2, b2⟩
  rw [hd1, hd2] at h
  have hcols : toColAux (c1 + 1) [] = toColAux (c2 + 1) [] := by rw [← t1.1, h, t2.1]
  have hrows : dec (r1 + 1) = dec (r2 + 1) := by rw [hd1, hd2, ← t1.2, h, t2.2]
  have e1 := colVal_toColAux (c1 + 1)
  rw [hcols, colVal_toColAux] at e1
  have e2 := digitsAcc_dec (r1 + 1)
  rw [hrows, digitsAcc_dec] at e2
  simp only [Option.some.injEq] at e1 e2
  omega

/-- **`ParseRangeRef`** of two printed references joined by a colon gives the four coordinates
back (start column, start row, end column, end row) — columns within the bound of
`ColumnToIndex`, rows in int64 range -/
theorem range_roundtrip (c1 r1 c2 r2 : Nat) (hc1 : c1 + 1 ≤ maxColumnNumber) (hc2 : c2 + 1 ≤ maxColumnNumber)
    (h1 : r1 + 1 ≤ maxInt64) (h2 : r2 + 1 ≤ maxInt64) :
    parseRangeRef (cellRef (c1 : Int) (r1 : Int) ++ 58 :: cellRef (c2 : Int) (r2 : Int)) =
      .ok ((c1 : Int), (r1 : Int), (c2 : Int), (r2 : Int)) := by
  unfold parseRangeRef
  rw [splitOnColon_pair _ _ (cellRef_no_colon c1 r1) (cellRef_no_colon c2 r2)]
  simp only [cellref_roundtrip c1 r1 hc1 h1, cellref_roundtrip c2 r2 hc2 h2]

/-- a range with an end beyond the column bound is no range (the `<mergeCell>` is dropped) -/
theorem range_beyond_bound (c1 r1 c2 r2 : Nat) (hc1 : c1 + 1 ≤ maxColumnNumber) (hc2 : maxColumnNumber < c2 + 1)
    (h1 : r1 + 1 ≤ maxInt64) (h2 : r2 + 1 ≤ maxInt64) :
    parseRangeRef (cellRef (c1 : Int) (r1 : Int) ++ 58 :: cellRef (c2 : Int) (r2 : Int)) = .error .badCol := by
  unfold parseRangeRef
  rw [splitOnColon_pair _ _ (cellRef_no_colon c1 r1) (cellRef_no_colon c2 r2)]
  simp only [cellref_roundtrip c1 r1 hc1 h1, cellref_beyond_bound c2 r2 hc2 h2]

/-- a reference without a colon, or with more than one, is not a range -/
theorem range_needs_one_colon (a : Str) (ha : 58 ∉ a) : parseRangeRef a = .error .badRange := by
  unfold parseRangeRef
  have := splitOnColon_clean a [] [] ha
  simp only [List.append_nil] at this
  rw [this]; simp [splitOnColon]

/-- non-vacuity: the hypotheses hold for "AB" and row 12, and for the pairs (0,0), (2,2) -/
example : ∃ c r, parseCellRef ([65, 66] ++ dec 12) = .ok (c, r) ∧ cellRef c r = [65, 66] ++ dec 12 :=
  cellref_roundtrip_string [65, 66] 12 (by intro c hc; simp at hc; omega) (by simp) (by decide) (by omega) (by decide)

example : parseRangeRef (cellRef (0 : Nat) (0 : Nat) ++ 58 :: cellRef (2 : Nat) (2 : Nat)) = .ok (0, 0, 2, 2) :=
  range_roundtrip 0 0 2 2 (by decide) (by decide) (by decide) (by decide)

/-- non-vacuity of the beyond-bound theorems: fourteen letters, and the index 2^40 -/
example : parseCellRef ([67, 82, 80, 88, 78, 76, 83, 75, 86, 76, 74, 70, 72, 72] ++ dec 1) = .error .badCol :=
  parse_canonical_beyond_bound _ 1 (by intro c hc; simp at hc; omega) (by simp) (by decide)

example : (0 : Nat) + 1 ≤ maxColumnNumber ∧ maxColumnNumber < (1099511627776 : Nat) + 1 := by decide

end Tabula.C17C
