import TabulaModel.Props.C17Whole
/-
C17, fifth wave (Lean only, no new model code): laws of the public accessors and of the sheet
selection that the "cell at its address" claim goes through, for every reader / every option
value.

* ACCESSORS: `Reader.Sheet(i)` answers exactly for 0 <= i < SheetCount and is the i-th loaded
  sheet (`sheet_some_iff`, `sheet_none_iff`, `sheet_nat`); `SheetByName` answers the FIRST sheet
  of that name, fails iff the name is not in `SheetNames` (`sheet_by_name_some`,
  `sheet_by_name_first`, `sheet_by_name_none_iff`); `Cell(row, col)` for arbitrary Go ints is the
  grid position or nil (`cell_some_iff`).
* SELECTION (`ExtractOptions.Sheets`): a non-empty selection is `Reader.Sheet` mapped over the
  list, invalid entries dropped, order and repetitions kept (`select_spec`, `select_nat`,
  `select_mem`, `select_length_le`, `select_append`), and text / Markdown of a selection are the
  blocks of exactly those sheets (`outputs_of_selection`).
* SHEET ORDER: `Sheet.Index` is strictly increasing along the loaded sheets of an opened workbook,
  below the number of `<sheet>` entries, at least the position in the reader; so page numbers of
  `Document()` are strictly increasing and two different positions of the reader never show the
  same workbook sheet (`sheet_indices_increasing`, `open_indices_increasing`,
  `sheet_index_lt_parts`, `sheet_position_le_index`, `open_count`, `page_numbers_increasing`).
* HEADING LEVEL: `AdjustHeadingLevel` is monotone in the level and in the offset, never above a
  positive `MaxHeadingLevel`, and is `level + offset` whenever that is within 1..6 and the cap
  (`heading_level_mono`, `heading_level_offset_mono`, `heading_level_cap`, `heading_level_plain`).
* `ParsedTable.ToText` is one tab-joined line per row, header row first when there is one, and
  for a loaded sheet with content these are the rows of the content box (`to_text_lines`,
  `tables_to_text`).
-/
namespace Tabula.C17M
open Tabula.A1 Tabula.Sheet Tabula.Wb

/-! ## accessors -/

/-- `Reader.Sheet(i)` answers a sheet exactly when `i` is a position of the reader, and then it is
the sheet at that position -/
theorem sheet_some_iff (r : Reader) (i : Int) (s : Wb.Sheet) :
    r.sheet i = some s ↔ 0 ≤ i ∧ r.sheets[i.toNat]? = some s := by
  unfold Reader.sheet
  constructor
  · intro h
    split at h
    · cases h
    · rename_i hn
      exact ⟨by omega, h⟩
  · rintro ⟨h0, h⟩
    have hlt : i.toNat < r.sheets.length := by
      rcases Nat.lt_or_ge i.toNat r.sheets.length with h' | h'
      · exact h'
      · rw [List.getElem?_eq_none h'] at h; cases h
    have hn : ¬ (i < 0 ∨ i ≥ (r.sheets.length : Int)) := by omega
    rw [if_neg hn]; exact h

example : (Reader.mk [⟨[65], 0, [], 0, []⟩]).sheet 0 = some ⟨[65], 0, [], 0, []⟩ :=
  (sheet_some_iff _ _ _).2 ⟨by decide, rfl⟩

/-- `Reader.Sheet(i)` is nil exactly for negative `i` and `i >= SheetCount` -/
theorem sheet_none_iff (r : Reader) (i : Int) :
    r.sheet i = none ↔ i < 0 ∨ i ≥ (r.sheets.length : Int) := by
  unfold Reader.sheet
  constructor
  · intro h
    split at h
    · assumption
    · rename_i hn
      have hlt : i.toNat < r.sheets.length := by omega
      rw [List.getElem?_eq_getElem hlt] at h; cases h
  · intro h; rw [if_pos h]

/-- for a natural number the accessor is the list lookup -/
theorem sheet_nat (r : Reader) (k : Nat) : r.sheet (k : Int) = r.sheets[k]? := by
  unfold Reader.sheet
  by_cases h : k < r.sheets.length
  · have hn : ¬ ((k : Int) < 0 ∨ (k : Int) ≥ (r.sheets.length : Int)) := by omega
    rw [if_neg hn, Int.toNat_natCast]
  · have hp : ((k : Int) < 0 ∨ (k : Int) ≥ (r.sheets.length : Int)) := by omega
    rw [if_pos hp, List.getElem?_eq_none (by omega)]

/-- `SheetNames` has one name per sheet, in order -/
theorem sheet_names_get (r : Reader) (k : Nat) :
    r.sheetNames.length = r.sheetCount ∧ r.sheetNames[k]? = (r.sheets[k]?).map (·.name) := by
  unfold Reader.sheetNames Reader.sheetCount
  exact ⟨List.length_map _, List.getElem?_map⟩

/-- what `SheetByName` answers is a sheet of the reader with that name -/
theorem sheet_by_name_some (r : Reader) (name : Str) (s : Wb.Sheet) (h : r.sheetByName name = some s) :
    s ∈ r.sheets ∧ s.name = name := by
  unfold Reader.sheetByName at h
  exact ⟨List.mem_of_find?_eq_some h, by simpa using List.find?_some h⟩

/-- `SheetByName` fails exactly for the names that `SheetNames` does not list -/
theorem sheet_by_name_none_iff (r : Reader) (name : Str) :
    r.sheetByName name = none ↔ name ∉ r.sheetNames := by
  unfold Reader.sheetByName Reader.sheetNames
  simp [List.find?_eq_none]

/-- `SheetByName` answers the first sheet of that name: the sheet at position `k` when no earlier
sheet has the name -/
theorem sheet_by_name_first (r : Reader) (name : Str) (k : Nat) (s : Wb.Sheet)
    (hk : r.sheets[k]? = some s) (hn : s.name = name)
    (hfirst : ∀ j < k, ∀ t, r.sheets[j]? = some t → t.name ≠ name) :
    r.sheetByName name = some s := by
  unfold Reader.sheetByName
  generalize r.sheets = l at hk hfirst
  induction l generalizing k with
  | nil => simp at hk
  | cons a as ih =>
    cases k with
    | zero =>
      simp only [List.getElem?_cons_zero, Option.some.injEq] at hk
      subst hk
      simp [hn]
    | succ k =>
      have ha : a.name ≠ name := hfirst 0 (by omega) a (by simp)
      rw [List.find?_cons_of_neg (by simpa using ha)]
      exact ih k (by simpa using hk) (fun j hj t ht => hfirst (j + 1) (by omega) t (by simpa using ht))

example : (Reader.mk [⟨[65], 0, [], 0, []⟩, ⟨[66], 1, [], 0, []⟩, ⟨[66], 2, [], 0, []⟩]).sheetByName [66]
    = some ⟨[66], 1, [], 0, []⟩ :=
  sheet_by_name_first _ _ 1 _ rfl rfl (by
    intro j hj t ht
    have : j = 0 := by omega
    subst this
    simp only [List.getElem?_cons_zero, Option.some.injEq] at ht
    subst ht
    decide)

/-- `Cell(row, col)` for arbitrary Go ints: a cell exactly for non-negative arguments inside the
grid, and then the grid position -/
theorem cell_some_iff (s : Wb.Sheet) (row col : Int) (c : Cell) :
    s.cell row col = some c ↔ 0 ≤ row ∧ 0 ≤ col ∧ s.rows.get row.toNat col.toNat = some c := by
  constructor
  · intro h
    have h0 : 0 ≤ row ∧ 0 ≤ col := by
      by_cases hh : row < 0 ∨ col < 0
      · rw [C17A.cell_negative s row col hh] at h; cases h
      · omega
    obtain ⟨rn, rfl⟩ : ∃ rn : Nat, row = rn := ⟨row.toNat, by omega⟩
    obtain ⟨cn, rfl⟩ : ∃ cn : Nat, col = cn := ⟨col.toNat, by omega⟩
    rw [C17A.cell_eq_get] at h
    refine ⟨h0.1, h0.2, ?_⟩
    rw [Int.toNat_natCast, Int.toNat_natCast]; exact h
  · rintro ⟨hr, hc, h⟩
    obtain ⟨rn, rfl⟩ : ∃ rn : Nat, row = rn := ⟨row.toNat, by omega⟩
    obtain ⟨cn, rfl⟩ : ∃ cn : Nat, col = cn := ⟨col.toNat, by omega⟩
    rw [Int.toNat_natCast, Int.toNat_natCast] at h
    rw [C17A.cell_eq_get]; exact h

/-! ## sheet selection -/

/-- a non-empty `ExtractOptions.Sheets` is `Reader.Sheet` mapped over the list: entries that name
no sheet are dropped, order and repetitions are kept -/
theorem select_spec (r : Reader) (sel : List Int) (hne : sel ≠ []) :
    selectSheets r sel = sel.filterMap r.sheet := by
  unfold selectSheets
  have he : sel.isEmpty = false := by cases sel <;> simp_all
  rw [he]
  simp only [Bool.false_eq_true, if_false]
  congr 1
  funext idx
  unfold Reader.sheet
  by_cases h : 0 ≤ idx ∧ idx < (r.sheets.length : Int)
  · have h2 : ¬ (idx < 0 ∨ idx ≥ (r.sheets.length : Int)) := by omega
    rw [if_pos h, if_neg h2]
  · have h2 : (idx < 0 ∨ idx ≥ (r.sheets.length : Int)) := by omega
    rw [if_neg h, if_pos h2]

example : selectSheets (Reader.mk [⟨[65], 0, [], 0, []⟩]) [5, 0, -1, 0] =
    [⟨[65], 0, [], 0, []⟩, ⟨[65], 0, [], 0, []⟩] := by
  rw [select_spec _ _ (by decide)]; rfl

/-- a non-empty selection of natural numbers is the list of the sheets at those positions -/
theorem select_nat (r : Reader) (ks : List Nat) (hne : ks ≠ []) :
    selectSheets r (ks.map fun (k : Nat) => (k : Int)) = ks.filterMap fun k => r.sheets[k]? := by
  have hm : (ks.map fun (k : Nat) => (k : Int)) ≠ [] := by cases ks <;> simp_all
  rw [select_spec r _ hm, List.filterMap_map]
  have hf : (r.sheet ∘ fun (k : Nat) => (k : Int)) = fun k => r.sheets[k]? := by
    funext k
    exact sheet_nat r k
  rw [hf]

example : selectSheets (Reader.mk [⟨[65], 0, [], 0, []⟩, ⟨[66], 1, [], 0, []⟩]) ([1, 0].map fun (k : Nat) => (k : Int)) =
    [⟨[66], 1, [], 0, []⟩, ⟨[65], 0, [], 0, []⟩] := by
  rw [select_nat _ _ (by decide)]; rfl

/-- whatever is selected, every sheet of the output is a sheet of the reader -/
theorem select_mem (r : Reader) (sel : List Int) (s : Wb.Sheet) (h : s ∈ selectSheets r sel) :
    s ∈ r.sheets := by
  by_cases hne : sel = []
  · subst hne; exact h
  · rw [select_spec r sel hne, List.mem_filterMap] at h
    obtain ⟨i, _, hi⟩ := h
    exact List.mem_of_getElem? ((sheet_some_iff r i s).1 hi).2

/-- a non-empty selection never yields more sheets than it has entries -/
theorem select_length_le (r : Reader) (sel : List Int) (hne : sel ≠ []) :
    (selectSheets r sel).length ≤ sel.length := by
  rw [select_spec r sel hne]; exact List.length_filterMap_le _ _

/-- selecting two non-empty lists one after the other is the two selections one after the other -/
theorem select_append (r : Reader) (a b : List Int) (ha : a ≠ []) (hb : b ≠ []) :
    selectSheets r (a ++ b) = selectSheets r a ++ selectSheets r b := by
  rw [select_spec r a ha, select_spec r b hb, select_spec r (a ++ b) (by simp [ha]), List.filterMap_append]

example : selectSheets (Reader.mk [⟨[65], 0, [], 0, []⟩]) ([0] ++ [7]) =
    selectSheets (Reader.mk [⟨[65], 0, [], 0, []⟩]) [0] ++ selectSheets (Reader.mk [⟨[65], 0, [], 0, []⟩]) [7] :=
  select_append _ _ _ (by decide) (by decide)

/-- text and Markdown of a non-empty selection are the blocks of exactly the sheets `Reader.Sheet`
answers for its entries, in the order of the entries -/
theorem outputs_of_selection (r : Reader) (o : ExtractOptions) (lvl : Nat) (hne : o.sheets ≠ []) :
    textWithOptions r o = intercalate [10, 10] ((o.sheets.filterMap r.sheet).map (sheetBlock o)) ∧
    markdown r o lvl = HF.trimSpace (intercalate [10, 10] ((o.sheets.filterMap r.sheet).map (sheetMd lvl))) := by
  unfold textWithOptions markdown
  rw [select_spec r o.sheets hne]
  exact ⟨rfl, rfl⟩

/-! ## order of the loaded sheets -/

/-- `Sheet.Index` is strictly increasing along the sheets `parseWorksheets` keeps -/
theorem sheet_indices_increasing (shared : List Str) (parts : List (Option SheetXML)) (k : Nat)
    (seen : List Str) (used : Nat) :
    (loadParts shared parts k seen used).Pairwise (fun a b => a.index < b.index) := by
  induction parts generalizing k seen used with
  | nil => exact List.Pairwise.nil
  | cons p ps ih =>
    cases p with
    | none =>
      simp only [loadParts]
      exact ih (k + 1) seen used
    | some x =>
      simp only [loadParts]
      cases hl : loadSheet shared k used (!seen.contains x.member) x with
      | none => exact ih _ _ _
      | some s =>
        refine List.Pairwise.cons ?_ (ih _ _ _)
        intro t ht
        have h1 := (C17A.open_sheet_origin shared ps (k + 1) _ _ t ht).1
        have h2 := (loadSheet_some hl).2.1
        omega

/-- the reader keeps at most one sheet per `<sheet>` entry -/
theorem loadParts_length_le (shared : List Str) (parts : List (Option SheetXML)) (k : Nat)
    (seen : List Str) (used : Nat) :
    (loadParts shared parts k seen used).length ≤ parts.length := by
  induction parts generalizing k seen used with
  | nil => exact Nat.le_refl _
  | cons p ps ih =>
    cases p with
    | none =>
      simp only [loadParts, List.length_cons]
      exact Nat.le_succ_of_le (ih (k + 1) seen used)
    | some x =>
      simp only [loadParts, List.length_cons]
      cases hl : loadSheet shared k used (!seen.contains x.member) x with
      | none => exact Nat.le_succ_of_le (ih _ _ _)
      | some s =>
        simp only [List.length_cons]
        exact Nat.succ_le_succ (ih _ _ _)

/-- an opened workbook: the sheets are in workbook order without repetition of an Index -/
theorem open_indices_increasing (sis : List SI) (parts : List (Option SheetXML)) (r : Reader)
    (h : openWorkbook sis parts = some r) : r.sheets.Pairwise (fun a b => a.index < b.index) := by
  unfold openWorkbook at h
  simp only at h
  split at h
  · cases h
  · simp only [Option.some.injEq] at h
    subst h
    exact sheet_indices_increasing _ _ _ _ _

/-- an opened workbook has at least one sheet and at most one per `<sheet>` entry -/
theorem open_count (sis : List SI) (parts : List (Option SheetXML)) (r : Reader)
    (h : openWorkbook sis parts = some r) : 0 < r.sheetCount ∧ r.sheetCount ≤ parts.length := by
  unfold openWorkbook at h
  simp only at h
  split at h
  · cases h
  · rename_i hne
    simp only [Option.some.injEq] at h
    subst h
    unfold Reader.sheetCount
    refine ⟨?_, loadParts_length_le _ _ _ _ _⟩
    cases hl : loadParts (parseSharedStrings sis) parts 0 [] 0 with
    | nil => rw [hl] at hne; simp at hne
    | cons a as => simp

/-- `Sheet.Index` of every sheet of an opened workbook is the number of a `<sheet>` entry -/
theorem sheet_index_lt_parts (sis : List SI) (parts : List (Option SheetXML)) (r : Reader)
    (h : openWorkbook sis parts = some r) (s : Wb.Sheet) (hs : s ∈ r.sheets) :
    s.index < parts.length := by
  unfold openWorkbook at h
  simp only at h
  split at h
  · cases h
  · simp only [Option.some.injEq] at h
    subst h
    obtain ⟨_, x, hx, _⟩ := C17A.open_sheet_origin _ parts 0 [] 0 s hs
    rcases Nat.lt_or_ge s.index parts.length with hlt | hge
    · exact hlt
    · rw [List.getElem?_eq_none (by omega)] at hx; cases hx

/-- in a list with strictly increasing indices all at least `k`, the entry at position `j` has
index at least `k + j` -/
theorem position_le_index (l : List Wb.Sheet) (k : Nat) (hge : ∀ s ∈ l, k ≤ s.index)
    (hp : l.Pairwise (fun a b => a.index < b.index)) (j : Nat) (s : Wb.Sheet) (h : l[j]? = some s) :
    k + j ≤ s.index := by
  induction l generalizing k j with
  | nil => simp at h
  | cons a as ih =>
    cases j with
    | zero =>
      simp only [List.getElem?_cons_zero, Option.some.injEq] at h
      subst h
      exact hge _ (List.mem_cons_self ..)
    | succ j =>
      rw [List.pairwise_cons] at hp
      have ha := hge a (List.mem_cons_self ..)
      have := ih (k + 1) (fun t ht => by have := hp.1 t ht; omega) hp.2 j (by simpa using h)
      omega

/-- sheets that did not load only move later sheets forward: the sheet at position `j` of an opened
reader has `Index >= j`, so `Reader.Sheet(j)` never shows a workbook sheet before the j-th -/
theorem sheet_position_le_index (sis : List SI) (parts : List (Option SheetXML)) (r : Reader)
    (h : openWorkbook sis parts = some r) (j : Nat) (s : Wb.Sheet) (hs : r.sheets[j]? = some s) :
    j ≤ s.index := by
  have := position_le_index r.sheets 0 (fun _ _ => Nat.zero_le _) (open_indices_increasing sis parts r h) j s hs
  omega

/-- the page numbers of `Document()` are strictly increasing: no two pages share a number -/
theorem page_numbers_increasing (sis : List SI) (parts : List (Option SheetXML)) (r : Reader)
    (h : openWorkbook sis parts = some r) :
    (document r).Pairwise (fun p q => p.number < q.number) := by
  unfold document
  rw [List.pairwise_map]
  refine (open_indices_increasing sis parts r h).imp ?_
  intro a b hab
  unfold sheetPage
  simp only
  omega

/-- the hypothesis `openWorkbook sis parts = some r` of the theorems above is satisfiable (a missing
part followed by an empty sheet: the sheet that loads has Index 1 at position 0) -/
example : ∃ r, openWorkbook [] [none, some ⟨[65], [], [], [120]⟩] = some r ∧
    (r.sheets.map (·.index)) = [1] := ⟨_, rfl, rfl⟩

/-! ## heading level -/

/-- a deeper heading never comes out shallower -/
theorem heading_level_mono (mo : MdOptions) (l l2 : Int) (h : l ≤ l2) :
    adjustHeadingLevel mo l ≤ adjustHeadingLevel mo l2 := by
  unfold adjustHeadingLevel
  simp only
  omega

/-- a larger offset never gives a shallower heading -/
theorem heading_level_offset_mono (mo mo2 : MdOptions) (l : Int)
    (hmax : mo.maxHeadingLevel = mo2.maxHeadingLevel) (h : mo.headingLevelOffset ≤ mo2.headingLevelOffset) :
    adjustHeadingLevel mo l ≤ adjustHeadingLevel mo2 l := by
  unfold adjustHeadingLevel
  simp only
  omega

example : adjustHeadingLevel { headingLevelOffset := 1 } 2 ≤ adjustHeadingLevel { headingLevelOffset := 3 } 2 :=
  heading_level_offset_mono _ _ _ rfl (by decide)

/-- a positive `MaxHeadingLevel` is never exceeded -/
theorem heading_level_cap (mo : MdOptions) (l : Int) (h : 0 < mo.maxHeadingLevel) :
    adjustHeadingLevel mo l ≤ mo.maxHeadingLevel := by
  unfold adjustHeadingLevel
  simp only
  omega

example : adjustHeadingLevel { maxHeadingLevel := 3 } 5 ≤ 3 := heading_level_cap _ _ (by decide)

/-- inside the window nothing is clamped: the level is `level + offset` -/
theorem heading_level_plain (mo : MdOptions) (l : Int) (h1 : 1 ≤ l) (h2 : 1 ≤ l + mo.headingLevelOffset)
    (h3 : l + mo.headingLevelOffset ≤ 6)
    (h4 : mo.maxHeadingLevel ≤ 0 ∨ l + mo.headingLevelOffset ≤ mo.maxHeadingLevel) :
    adjustHeadingLevel mo l = l + mo.headingLevelOffset := by
  unfold adjustHeadingLevel
  simp only
  omega

example : adjustHeadingLevel { headingLevelOffset := 2 } 2 = 4 :=
  heading_level_plain _ _ (by decide) (by decide) (by decide) (Or.inr (by decide))

/-! ## `ParsedTable.ToText` -/

/-- `ToText` writes one tab-joined, newline-terminated line per row, the header row first when
there is one -/
theorem to_text_lines (t : PTable) :
    t.toText = ((if t.headers.isEmpty then [] else [t.headers]) ++ t.rows).flatMap
      (fun row => intercalate [9] row ++ [10]) := by
  unfold PTable.toText
  split <;> simp

/-- for a loaded sheet with content, `Tables()[i].ToText()` is the content box of displayed
values, one line per row of the box -/
theorem tables_to_text (s : Wb.Sheet) (hrect : Rect (s.maxCol + 1) s.rows)
    (hne : (findContentBounds s).isEmpty = false) :
    (sheetToTable s).toText = (boxTable s).flatMap (fun row => intercalate [9] row ++ [10]) := by
  have hh := headers_isEmpty_iff s hrect
  rw [hne] at hh
  rw [to_text_lines, hh, ← (C17O.tables_table s hrect hne).2]
  simp

/-! ## no two positions show the same sheet; names -/

/-- two positions of an opened reader that hold sheets of the same `Index` are the same position -/
theorem sheet_index_injective (sis : List SI) (parts : List (Option SheetXML)) (r : Reader)
    (h : openWorkbook sis parts = some r) (i j : Nat) (s t : Wb.Sheet)
    (hs : r.sheets[i]? = some s) (ht : r.sheets[j]? = some t) (he : s.index = t.index) : i = j := by
  have hp := open_indices_increasing sis parts r h
  rw [List.pairwise_iff_getElem] at hp
  obtain ⟨hi, rfl⟩ := List.getElem?_eq_some_iff.mp hs
  obtain ⟨hj, rfl⟩ := List.getElem?_eq_some_iff.mp ht
  rcases Nat.lt_trichotomy i j with hlt | heq | hgt
  · have := hp i j hi hj hlt; omega
  · exact heq
  · have := hp j i hj hi hgt; omega

/-- when the sheet names are pairwise different, `SheetByName` of a sheet's name answers that
sheet -/
theorem sheet_by_name_unique (r : Reader) (hu : r.sheets.Pairwise (fun a b => a.name ≠ b.name))
    (k : Nat) (s : Wb.Sheet) (hk : r.sheets[k]? = some s) : r.sheetByName s.name = some s := by
  refine sheet_by_name_first r s.name k s hk rfl ?_
  intro j hj t ht
  rw [List.pairwise_iff_getElem] at hu
  obtain ⟨hk', rfl⟩ := List.getElem?_eq_some_iff.mp hk
  obtain ⟨hj', rfl⟩ := List.getElem?_eq_some_iff.mp ht
  exact hu j k hj' hk' hj

example : (Reader.mk [⟨[65], 0, [], 0, []⟩, ⟨[66], 1, [], 0, []⟩]).sheetByName [66] = some ⟨[66], 1, [], 0, []⟩ :=
  sheet_by_name_unique (Reader.mk [⟨[65], 0, [], 0, []⟩, ⟨[66], 1, [], 0, []⟩]) (by decide) 1 _ rfl

/-! ## `escapeMarkdown` -/

/-- escaping works byte by byte: the escape of a concatenation is the concatenation of the escapes -/
theorem escape_append (a b : Str) : escapeMarkdown (a ++ b) = escapeMarkdown a ++ escapeMarkdown b := by
  rw [escapeMarkdown_eq, escapeMarkdown_eq, escapeMarkdown_eq, List.flatMap_append]

/-- a value without pipe and line break is written as it is -/
theorem escape_plain (s : Str) (h : ∀ c ∈ s, c ≠ 124 ∧ c ≠ 10) : escapeMarkdown s = s := by
  induction s with
  | nil => exact escapeMarkdown_nil
  | cons c cs ih =>
    have hc := h c (List.mem_cons_self ..)
    rw [escapeMarkdown_cons, ih (fun d hd => h d (List.mem_cons_of_mem _ hd))]
    unfold escChar
    rw [if_neg hc.1, if_neg hc.2]
    rfl

example : escapeMarkdown [65, 92, 66] = [65, 92, 66] := escape_plain _ (by decide)

/-- escaping never shortens a value, and adds exactly one byte per pipe -/
theorem escape_length (s : Str) : (escapeMarkdown s).length = s.length + s.count 124 := by
  induction s with
  | nil => rw [escapeMarkdown_nil]; rfl
  | cons c cs ih =>
    rw [escapeMarkdown_cons, List.length_append, ih, List.count_cons]
    unfold escChar
    by_cases h1 : c = 124
    · subst h1; simp; omega
    · by_cases h2 : c = 10
      · subst h2; simp; omega
      · have : (c == 124) = false := by simpa using h1
        simp [h1, h2]; omega

end Tabula.C17M
