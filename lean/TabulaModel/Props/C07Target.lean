import TabulaModel.Lemmas.CMapTarget
/-! # C07 — how the target of a bfchar entry / array element is read (`font.hexToUnicode`, `decodeUTF16BE` of cmap.go)

For all inputs of each class (the tie to tabula: ops `c07.h2u`, `c07.cu16` on generated and
malformed tokens):

* `target_hex_total` — what `hexToUnicode` returns on the hex text (upper or lower case) of ANY
  byte string: a leading FE FF is stripped, two bytes or more are UTF-16BE (odd length = error,
  the entry is skipped), one byte is the character of that number, nothing is an error.
* `target_with_bom` — a target written with an explicit byte-order mark decodes to ANY scalar
  string (the empty one and one that starts with U+FEFF included — the assumption "targets do
  not start with U+FEFF" of `C07CMap.cmap_roundtrip` is only about targets written without one).
* `target_one_byte`, `target_ws` (white space anywhere inside a hex token is ignored).
* `target_decoder_vs_std` / `target_decoder_unpaired` — the target decoder of cmap.go and Go's
  `utf16.Decode` (used for the multi-unit targets of offset ranges) agree on every code-unit
  string in which every high surrogate is followed by a low one (every well-formed string; stray
  low surrogates allowed), and differ exactly in that cmap.go drops the unit after an unpaired
  high surrogate. (Such targets are not UTF-16; the property does not speak about them.)
-/
namespace Tabula.C07Target
open Tabula.UTF16 Tabula.CMap
open Tabula.CMapTarget (HighsPaired)

theorem target_hex_total (upper : Bool) (bs : List Nat) : AllBytes bs →
    hexToUnicode (hexOfBytesP upper bs) =
      match bs with
      | 0xFE :: 0xFF :: rest => cmapDecodeUTF16BE rest
      | _ :: _ :: _ => cmapDecodeUTF16BE bs
      | [b] => some [toRune b]
      | [] => none :=
  CMapTarget.hexToUnicode_hexOfBytesP upper bs

theorem target_with_bom (upper : Bool) (t : List Nat) (ht : ∀ c ∈ t, IsScalar c) :
    hexToUnicode (hexOfBytesP upper (0xFE :: 0xFF :: bytesBE (encodeUnits t))) = some t :=
  CMapTarget.hexToUnicode_bom_target upper t ht

theorem target_one_byte (upper : Bool) (b : Nat) (hb : b < 256) :
    hexToUnicode (hexOfBytesP upper [b]) = some [b] :=
  CMapTarget.hexToUnicode_one_byte upper b hb

theorem target_ws (h h' : Str)
    (he : h.filter (fun c => !(c = 32 || c = 9 || c = 10 || c = 13)) = h'.filter (fun c => !(c = 32 || c = 9 || c = 10 || c = 13))) :
    hexToUnicode h = hexToUnicode h' :=
  CMapTarget.hexToUnicode_ws h h' he

theorem target_decoder_vs_std (us : List Nat) (h : HighsPaired us) : cmapDecodeUnits us = stdDecodeUnits us :=
  CMapTarget.cmapDecodeUnits_eq_std us h

theorem target_decoder_unpaired (u l : Nat) (rest : List Nat) (hu : isHigh u = true) (hl : isLow l = false) :
    cmapDecodeUnits (u :: l :: rest) = 0xFFFD :: cmapDecodeUnits rest ∧
    stdDecodeUnits (u :: l :: rest) = 0xFFFD :: stdDecodeUnits (l :: rest) :=
  CMapTarget.cmapDecodeUnits_unpaired u l rest hu hl

/-- satisfiable: a pair, a stray low surrogate, a high surrogate at the very end; `<FEFF FEFF 0041>` -/
example : HighsPaired [0xD835, 0xDC00, 0xDC00, 0x41, 0xD800] ∧ ¬ HighsPaired [0xD800, 0x41] ∧
    hexToUnicode (hexOfBytesP false (0xFE :: 0xFF :: bytesBE (encodeUnits [0xFEFF, 0x41]))) = some [0xFEFF, 0x41] := by
  refine ⟨?_, ?_, by decide⟩
  · simp [HighsPaired, isHigh, isLow]
  · simp [HighsPaired, isHigh, isLow]

end Tabula.C07Target
