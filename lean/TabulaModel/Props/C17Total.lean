import TabulaModel.Lemmas.A1Total
import TabulaModel.Props.C17Codec
/-!
# C17, the reference codec on ALL strings and ALL integer pairs

`Props/C17.lean` and `Props/C17Codec.lean` state the bijection on its two domains (non-negative
pairs, canonical strings).  Here the codec is characterised as a pair of total functions: what
`ParseCellRef` answers for every string (lower case, signs, leading zeros, rubbish), what
`ParseCellRef (CellRef col row)` is for every pair of integers (negative ones included), and that
`CellRef` is a section of `ParseCellRef` on everything that parses; the same for `ParseRangeRef`
and `CellByRef`.
-/
namespace Tabula.C17T
open Tabula.A1 Tabula.C17 Tabula.C17C

/-- **`ParseCellRef` does not see the case of any byte of its argument** — valid or not: the
same pair for `aa10` as for `AA10`, the same error for `a1b` as for `A1B` -/
theorem parse_case_insensitive (s : Str) : parseCellRef (s.map upper) = parseCellRef s := by
  unfold parseCellRef
  simp only [takeWhile_map_upper, dropWhile_map_upper, List.isEmpty_map, col_case_insensitive,
    atoi_map_upper]

/-- the letters `ParseCellRef` cuts off, folded to upper case, are an upper-case column -/
theorem letters_upper (s : Str) : IsUpperCol ((s.takeWhile isLetter).map upper) := by
  intro c hc
  obtain ⟨x, hx, rfl⟩ := List.mem_map.mp hc
  have hl : isLetter x = true := takeWhile_letters s x hx
  unfold isLetter at hl
  by_cases h : 97 ≤ x ∧ x ≤ 122
  · rw [upper_of_lower x h]; omega
  · rw [upper_of_not_lower x h]
    simp at hl; omega

/-- **`ParseCellRef` as a total function, from the string only**: the decision list of the Go
function with `ColumnToIndex` replaced by what it computes — the bijective base-26 number of the
letters (case folded) minus one, refused beyond `maxColumnNumber` — for EVERY string.  The row part
is whatever `strconv.Atoi` accepts: a sign and leading zeros are accepted (`a+05` is A5), a value
below 1 or outside int64 is the invalid-row error. -/
theorem parse_spec (s : Str) :
    parseCellRef s =
      if s = [] then .error .empty
      else if s.takeWhile isLetter = [] then .error .noCol
      else if s.dropWhile isLetter = [] then .error .noRow
      else if maxColumnNumber < colNumber ((s.takeWhile isLetter).map upper) then .error .badCol
      else match atoi (s.dropWhile isLetter) with
        | none => .error .badRow
        | some n => if n < 1 then .error .badRow
                    else .ok ((colNumber ((s.takeWhile isLetter).map upper) : Int) - 1, n - 1) := by
  unfold parseCellRef
  by_cases h1 : s = []
  · simp [h1]
  by_cases h2 : s.takeWhile isLetter = []
  · have : s.isEmpty = false := by cases s with | nil => exact absurd rfl h1 | cons a b => rfl
    simp [h1, h2, this]
  by_cases h3 : s.dropWhile isLetter = []
  · have e1 : s.isEmpty = false := by cases s with | nil => exact absurd rfl h1 | cons a b => rfl
    have e2 : (s.takeWhile isLetter).isEmpty = false := by
      cases h : s.takeWhile isLetter with | nil => exact absurd h h2 | cons a b => rfl
    simp only [e1, e2, h1, h2, h3, if_false, if_true, Bool.false_eq_true, List.isEmpty_nil]
  have e1 : s.isEmpty = false := by cases s with | nil => exact absurd rfl h1 | cons a b => rfl
  have e2 : (s.takeWhile isLetter).isEmpty = false := by
    cases h : s.takeWhile isLetter with | nil => exact absurd h h2 | cons a b => rfl
  have e3 : (s.dropWhile isLetter).isEmpty = false := by
    cases h : s.dropWhile isLetter with | nil => exact absurd h h3 | cons a b => rfl
  simp only [e1, e2, e3, h1, h2, h3, if_false, Bool.false_eq_true]
  have hu := letters_upper s
  have hne : (s.takeWhile isLetter).map upper ≠ [] := by
    intro h; exact h2 (List.map_eq_nil_iff.mp h)
  have hpos := (colAcc_upper _ hu).2.1 hne
  rw [← col_case_insensitive (s.takeWhile isLetter), col_to_index_spec _ hu]
  by_cases hb : colNumber ((s.takeWhile isLetter).map upper) ≤ maxColumnNumber
  · have hb' : ¬ maxColumnNumber < colNumber ((s.takeWhile isLetter).map upper) := by omega
    have hc : ¬ ((colNumber ((s.takeWhile isLetter).map upper) : Int) - 1 < 0) := by omega
    simp only [hb, hb', hc, if_true, if_false]
    rfl
  · have hb' : maxColumnNumber < colNumber ((s.takeWhile isLetter).map upper) := by omega
    simp [hb, hb']

/-- what parses lies within the bounds of the code: column index in `0 .. 2^40 - 1`, row in
`0 .. MaxInt64 - 1` -/
theorem parse_ok_bounds (s : Str) (c r : Int) (h : parseCellRef s = .ok (c, r)) :
    0 ≤ c ∧ c + 1 ≤ (maxColumnNumber : Int) ∧ 0 ≤ r ∧ r + 1 ≤ (maxInt64 : Int) := by
  rw [parse_spec] at h
  split at h
  · cases h
  split at h
  · cases h
  rename_i hne2
  split at h
  · cases h
  split at h
  · cases h
  rename_i hcol
  split at h
  · cases h
  · rename_i n hn
    split at h
    · cases h
    · rename_i hn1
      simp only [Except.ok.injEq, Prod.mk.injEq] at h
      obtain ⟨hc, hr⟩ := h
      have hrange := atoi_range _ n hn
      have hu := letters_upper s
      have hne : (s.takeWhile isLetter).map upper ≠ [] := fun h => hne2 (List.map_eq_nil_iff.mp h)
      have hpos := (colAcc_upper _ hu).2.1 hne
      omega

/-- **`CellRef` is a section of `ParseCellRef` on everything that parses**: whatever string `s`
(lower case, signed or zero-padded row) parses to `(c, r)`, the printed reference `CellRef(c, r)`
parses to `(c, r)` again.  With `cellref_roundtrip` (`ParseCellRef ∘ CellRef = id` on the pairs)
the two functions are mutually inverse between the pairs `ParseCellRef` can answer and the
references `CellRef` prints; every other accepted spelling is folded onto its printed reference. -/
theorem parse_then_print_then_parse (s : Str) (c r : Int) (h : parseCellRef s = .ok (c, r)) :
    parseCellRef (cellRef c r) = .ok (c, r) := by
  obtain ⟨h1, h2, h3, h4⟩ := parse_ok_bounds s c r h
  have hc : c = ((c.toNat : Nat) : Int) := by omega
  have hr : r = ((r.toNat : Nat) : Int) := by omega
  rw [hc, hr]
  exact cellref_roundtrip c.toNat r.toNat (by omega) (by omega)

/-- the printed reference of what a string parses to is that string with its letters in upper
case whenever the row part is a printed number: `ParseCellRef` followed by `CellRef` normalises
the case and nothing else on such strings (`ab12` gives `AB12`) -/
theorem print_parse_normalises (ls : Str) (n : Nat) (hls : ∀ x ∈ ls, isLetter x = true) (hne : ls ≠ [])
    (hb : colNumber (ls.map upper) ≤ maxColumnNumber) (h1 : 1 ≤ n) (hmax : n ≤ maxInt64) :
    ∃ c r, parseCellRef (ls ++ dec n) = .ok (c, r) ∧ cellRef c r = ls.map upper ++ dec n := by
  have hu : IsUpperCol (ls.map upper) := by
    intro c hc
    obtain ⟨x, hx, rfl⟩ := List.mem_map.mp hc
    have hl := hls x hx
    unfold isLetter at hl
    by_cases h : 97 ≤ x ∧ x ≤ 122
    · rw [upper_of_lower x h]; omega
    · rw [upper_of_not_lower x h]; simp at hl; omega
  have hne' : ls.map upper ≠ [] := fun h => hne (List.map_eq_nil_iff.mp h)
  obtain ⟨c, r, hp, hc⟩ := cellref_roundtrip_string (ls.map upper) n hu hne' hb h1 hmax
  refine ⟨c, r, ?_, hc⟩
  rw [← parse_case_insensitive]
  have hd : (dec n).map upper = dec n := by
    have hdig := dec_digits n
    have : ∀ l : Str, (∀ c ∈ l, 48 ≤ c ∧ c ≤ 57) → l.map upper = l := by
      intro l hl
      induction l with
      | nil => rfl
      | cons a as ih =>
        have ha := hl a (by simp)
        rw [List.map_cons, upper_of_not_lower a (by omega), ih (fun c hc => hl c (by simp [hc]))]
    exact this _ hdig
  rw [List.map_append, hd]
  exact hp

/-- **`ParseCellRef (CellRef col row)` for EVERY pair of integers** (the row such that `row+1`
does not leave int64): a negative column prints no letters and the reference has no column
("A1" side: `CellRef(-1, 0) = "1"`); a column beyond the bound is the invalid-column error; a
negative row prints `0` or a negative number and is the invalid-row error; every other pair comes
back.  So the round trip holds exactly on the non-negative pairs within the column bound and
fails with an error - never with another pair - everywhere else. -/
theorem cellref_parse_total (col row : Int) (hlo : -((maxInt64 : Int) + 1) ≤ row + 1)
    (hhi : row + 1 ≤ (maxInt64 : Int)) :
    parseCellRef (cellRef col row) =
      if col < 0 then .error .noCol
      else if (maxColumnNumber : Int) < col + 1 then .error .badCol
      else if row < 0 then .error .badRow
      else .ok (col, row) := by
  by_cases hc : col < 0
  · simp only [hc, if_true]
    unfold cellRef indexToColumn
    simp only [hc, if_true, List.nil_append]
    -- the printed number starts with a digit or a minus sign
    have hhead : ∃ d ds, decInt (row + 1) = d :: ds ∧ isLetter d = false := by
      unfold decInt
      split
      · exact ⟨45, _, rfl, by decide⟩
      · obtain ⟨d, ds, hd, h1, h2⟩ := dec_head (row + 1).natAbs
        refine ⟨d, ds, hd, ?_⟩
        unfold isLetter
        have a1 : ¬ (65 ≤ d ∧ d ≤ 90) := by omega
        have a2 : ¬ (97 ≤ d ∧ d ≤ 122) := by omega
        simp [a1, a2]
        omega
    obtain ⟨d, ds, hd, hl⟩ := hhead
    rw [hd]
    unfold parseCellRef
    simp [List.takeWhile_cons, hl]
  · have hcn : col = ((col.toNat : Nat) : Int) := by omega
    by_cases hr : row < 0
    · -- letters, then "0" or a negative number
      simp only [hc, hr, if_false, if_true]
      have hl := toColAux_letters (col.toNat + 1)
      have hne := toColAux_ne_nil (col.toNat + 1) (by omega)
      have hrow : ∃ d ds, decInt (row + 1) = d :: ds ∧ isLetter d = false ∧
          (atoi (d :: ds) = none ∨ ∃ v, atoi (d :: ds) = some v ∧ v < 1) := by
        unfold decInt
        by_cases h0 : row + 1 < 0
        · simp only [h0, if_true]
          refine ⟨45, _, rfl, by decide, Or.inr ⟨-((row + 1).natAbs : Int), ?_, by omega⟩⟩
          exact atoi_neg_dec _ (by omega)
        · have e : row + 1 = 0 := by omega
          simp only [h0, if_false, e]
          rw [show Int.natAbs 0 = 0 from rfl, dec_zero]
          exact ⟨48, [], rfl, by decide, Or.inr ⟨0, by decide, by decide⟩⟩
      obtain ⟨d, ds, hd, hld, hat⟩ := hrow
      have htw : (toColAux (col.toNat + 1) [] ++ d :: ds).takeWhile isLetter = toColAux (col.toNat + 1) [] ∧
          (toColAux (col.toNat + 1) [] ++ d :: ds).dropWhile isLetter = d :: ds := by
        generalize toColAux (col.toNat + 1) [] = l at hl
        induction l with
        | nil => simp [List.takeWhile_cons, List.dropWhile_cons, hld]
        | cons a as ih =>
          have ha := hl a (by simp)
          have hla : isLetter a = true := by unfold isLetter; simp; omega
          have := ih (fun c hc => hl c (by simp [hc]))
          simp [List.takeWhile_cons, List.dropWhile_cons, hla, this.1, this.2]
      unfold cellRef indexToColumn
      simp only [hc, if_false]
      rw [hd]
      unfold parseCellRef
      rw [htw.1, htw.2]
      have e1 : (toColAux (col.toNat + 1) [] ++ d :: ds).isEmpty = false := by
        cases h : toColAux (col.toNat + 1) [] with
        | nil => exact absurd h hne
        | cons a b => rfl
      have e2 : (toColAux (col.toNat + 1) []).isEmpty = false := by
        cases h : toColAux (col.toNat + 1) [] with
        | nil => exact absurd h hne
        | cons a b => rfl
      simp only [e1, e2, List.isEmpty_cons, Bool.false_eq_true, if_false]
      unfold columnToIndex
      rw [colAcc_toColAux]
      by_cases hb : col.toNat + 1 ≤ maxColumnNumber
      · have hb' : ¬ ((maxColumnNumber : Int) < col + 1) := by omega
        simp only [hb, hb', if_true, if_false]
        have : ¬ (((col.toNat + 1 : Nat) : Int) - 1 < 0) := by omega
        simp only [this, if_false]
        rcases hat with hat | ⟨v, hat, hv⟩
        · rw [hat]
        · rw [hat]; simp [hv]
      · have hb' : (maxColumnNumber : Int) < col + 1 := by omega
        simp [hb, hb']
    · simp only [hc, hr, if_false]
      obtain ⟨cn, rfl⟩ : ∃ cn : Nat, col = (cn : Int) := ⟨col.toNat, by omega⟩
      obtain ⟨rn, rfl⟩ : ∃ rn : Nat, row = (rn : Int) := ⟨row.toNat, by omega⟩
      rw [parse_cellref cn rn (by omega)]
      by_cases hb : cn + 1 ≤ maxColumnNumber
      · have hb' : ¬ ((maxColumnNumber : Int) < (cn : Int) + 1) := by omega
        simp only [hb, hb', if_true, if_false]
      · have hb' : (maxColumnNumber : Int) < (cn : Int) + 1 := by omega
        simp only [hb, hb', if_true, if_false]

/-- **every string falls in exactly one of six classes, and the class decides the answer**: the
four structural errors, the invalid-row error, or the pair.  (The classes are pairwise exclusive by
their side conditions; together with `parse_spec` this is the complete decision table of
`ParseCellRef`.) -/
theorem parse_classification (s : Str) :
    (s = [] ∧ parseCellRef s = .error .empty) ∨
    (s ≠ [] ∧ (∃ d ds, s = d :: ds ∧ isLetter d = false) ∧ parseCellRef s = .error .noCol) ∨
    (s ≠ [] ∧ (∀ x ∈ s, isLetter x = true) ∧ parseCellRef s = .error .noRow) ∨
    (s.takeWhile isLetter ≠ [] ∧ s.dropWhile isLetter ≠ [] ∧
      maxColumnNumber < colNumber ((s.takeWhile isLetter).map upper) ∧ parseCellRef s = .error .badCol) ∨
    (s.takeWhile isLetter ≠ [] ∧ s.dropWhile isLetter ≠ [] ∧
      colNumber ((s.takeWhile isLetter).map upper) ≤ maxColumnNumber ∧
      (atoi (s.dropWhile isLetter) = none ∨ ∃ n, atoi (s.dropWhile isLetter) = some n ∧ n < 1) ∧
      parseCellRef s = .error .badRow) ∨
    (s.takeWhile isLetter ≠ [] ∧ s.dropWhile isLetter ≠ [] ∧
      colNumber ((s.takeWhile isLetter).map upper) ≤ maxColumnNumber ∧
      ∃ n, atoi (s.dropWhile isLetter) = some n ∧ 1 ≤ n ∧
        parseCellRef s = .ok ((colNumber ((s.takeWhile isLetter).map upper) : Int) - 1, n - 1)) := by
  rw [parse_spec]
  by_cases h1 : s = []
  · exact Or.inl ⟨h1, by simp [h1]⟩
  refine Or.inr ?_
  by_cases h2 : s.takeWhile isLetter = []
  · refine Or.inl ⟨h1, ?_, by simp [h1, h2]⟩
    cases s with
    | nil => exact absurd rfl h1
    | cons d ds =>
      refine ⟨d, ds, rfl, ?_⟩
      cases hl : isLetter d with
      | false => rfl
      | true => simp [List.takeWhile_cons, hl] at h2
  refine Or.inr ?_
  by_cases h3 : s.dropWhile isLetter = []
  · exact Or.inl ⟨h1, dropWhile_nil_letters s h3, by simp [h1, h2, h3]⟩
  refine Or.inr ?_
  by_cases h4 : maxColumnNumber < colNumber ((s.takeWhile isLetter).map upper)
  · exact Or.inl ⟨h2, h3, h4, by simp [h1, h2, h3, h4]⟩
  refine Or.inr ?_
  cases hat : atoi (s.dropWhile isLetter) with
  | none => exact Or.inl ⟨h2, h3, by omega, Or.inl rfl, by simp [h1, h2, h3, h4, hat]⟩
  | some n =>
    by_cases h5 : n < 1
    · exact Or.inl ⟨h2, h3, by omega, Or.inr ⟨n, rfl, h5⟩, by simp [h1, h2, h3, h4, hat, h5]⟩
    · exact Or.inr ⟨h2, h3, by omega, n, rfl, by omega, by simp [h1, h2, h3, h4, hat, h5]⟩

/-! ## ranges -/

/-- **`ParseRangeRef` as a total function**: it answers four coordinates exactly for the strings
with exactly one colon both sides of which parse, and then the coordinates are those of the two
sides (start column, start row, end column, end row) -/
theorem range_ok_iff (s : Str) (sc sr ec er : Int) :
    parseRangeRef s = .ok (sc, sr, ec, er) ↔
      ∃ a b, s = a ++ 58 :: b ∧ 58 ∉ a ∧ 58 ∉ b ∧
        parseCellRef a = .ok (sc, sr) ∧ parseCellRef b = .ok (ec, er) := by
  constructor
  · intro h
    unfold parseRangeRef at h
    split at h
    · rename_i a b hsplit
      obtain ⟨rfl, ha, hb⟩ := (splitOnColon_two_iff s a b).mp hsplit
      refine ⟨a, b, rfl, ha, hb, ?_⟩
      split at h
      · cases h
      · rename_i c1 r1 h1
        split at h
        · cases h
        · rename_i c2 r2 h2
          simp only [Except.ok.injEq, Prod.mk.injEq] at h
          obtain ⟨rfl, rfl, rfl, rfl⟩ := h
          exact ⟨h1, h2⟩
    · cases h
  · rintro ⟨a, b, rfl, ha, hb, h1, h2⟩
    unfold parseRangeRef
    rw [splitOnColon_pair a b ha hb]
    simp only [h1, h2]

/-- the number of pieces decides first: no colon, or two and more, is the invalid-range error
whatever the pieces are -/
theorem range_two_colons (a b c : Str) (ha : 58 ∉ a) :
    parseRangeRef (a ++ 58 :: b ++ 58 :: c) = .error .badRange := by
  unfold parseRangeRef
  have e : a ++ 58 :: b ++ 58 :: c = a ++ 58 :: (b ++ 58 :: c) := by simp
  rw [e, splitOnColon_cons_colon a _ [] ha]
  rcases split_first_colon b with hb | ⟨x, rest, hx, hxa⟩
  · rw [splitOnColon_cons_colon b c [] hb]
    have hne := splitOnColon_ne_nil c []
    cases hc : splitOnColon c [] with
    | nil => exact absurd hc hne
    | cons q qs => rfl
  · subst hx
    have e2 : x ++ 58 :: rest ++ 58 :: c = x ++ 58 :: (rest ++ 58 :: c) := by simp
    rw [e2, splitOnColon_cons_colon x _ [] hxa]
    have hne := splitOnColon_ne_nil (rest ++ 58 :: c) []
    cases hc : splitOnColon (rest ++ 58 :: c) [] with
    | nil => exact absurd hc hne
    | cons q qs => rfl

/-- printing what a range parses to and parsing again gives the same four coordinates: the
printed range `CellRef(sc,sr):CellRef(ec,er)` is the normal form of every accepted spelling -/
theorem range_parse_print_parse (s : Str) (sc sr ec er : Int) (h : parseRangeRef s = .ok (sc, sr, ec, er)) :
    parseRangeRef (cellRef sc sr ++ 58 :: cellRef ec er) = .ok (sc, sr, ec, er) := by
  obtain ⟨a, b, _, _, _, h1, h2⟩ := (range_ok_iff s sc sr ec er).mp h
  obtain ⟨a1, a2, a3, a4⟩ := parse_ok_bounds a sc sr h1
  obtain ⟨b1, b2, b3, b4⟩ := parse_ok_bounds b ec er h2
  have e1 : sc = ((sc.toNat : Nat) : Int) := by omega
  have e2 : sr = ((sr.toNat : Nat) : Int) := by omega
  have e3 : ec = ((ec.toNat : Nat) : Int) := by omega
  have e4 : er = ((er.toNat : Nat) : Int) := by omega
  rw [e1, e2, e3, e4]
  exact range_roundtrip sc.toNat sr.toNat ec.toNat er.toNat (by omega) (by omega) (by omega) (by omega)

/-! ## non-vacuity -/

/-- `ab+012` parses (lower case, sign, leading zero) to column 27, row 11 — and prints as `AB12` -/
example : parseCellRef [97, 98, 43, 48, 49, 50] = .ok (27, 11) := by rfl
example : parseCellRef (cellRef 27 11) = .ok (27, 11) :=
  parse_then_print_then_parse [97, 98, 43, 48, 49, 50] 27 11 (by rfl)
example : parseCellRef (cellRef (-1) 0) = .error .noCol := by
  rw [cellref_parse_total (-1) 0 (by decide) (by decide)]; rfl
example : parseCellRef (cellRef 0 (-3)) = .error .badRow := by
  rw [cellref_parse_total 0 (-3) (by decide) (by decide)]; rfl
example : parseRangeRef [97, 49, 58, 98, 50] = .ok (0, 0, 1, 1) := by rfl

end Tabula.C17T
