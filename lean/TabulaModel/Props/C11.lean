import TabulaModel.Lemmas.HeaderFooter
/-!
# C11 — Header/footer exclusion removes only repeated marginal text

Theorems about `Model/HeaderFooter.lean` (the model of `layout/header_footer.go` after the
three C11 fixes). Helper lemmas are in `Lemmas/HeaderFooter.lean`.

Vocabulary: `bands cfg frags pageHeight` are the margin bands of a page (72 pt from the page
edges; content extent and scaled heights for "inverted" pages), `inRegion .header/.footer`
says that a fragment lies in the top/bottom band, `excludePage cfg all p` is what the
extractor returns for page `p` when exclusion is on (regions detected on `all` pages).
-/
namespace Tabula.C11
open Tabula.HF

/-- a small three-page document used to show that hypotheses are satisfiable:
"ACME Report" at y = 760 on every 792 pt page, a body line, a running page number at y = 30 -/
def exPage (i : Int) (body : Str) (num : Nat) : Page :=
  { index := i, height := 792,
    frags := [ { text := [65, 67, 77, 69, 32, 82, 101, 112, 111, 114, 116], x := 72, y := 760, w := 74, h := 12, fs := 12 },
               { text := body, x := 72, y := 400, w := 120, h := 12, fs := 12 },
               { text := [48 + num], x := 300, y := 30, w := 7, h := 12, fs := 12 } ] }

def exDoc : List Page :=
  [exPage 0 [66, 111, 100, 121, 32, 111, 110, 101] 1, exPage 1 [66, 111, 100, 121, 32, 116, 119, 111] 2,
   exPage 2 [66, 111, 100, 121, 32, 116, 104, 114, 101, 101] 3]

/-! ## Exclusion can only delete, in order -/

/-- **filter_sublist.** The filtered fragments are a sublist of the page's fragments (same order,
nothing invented, nothing duplicated) — for every detection result, page and fragment list. -/
theorem filter_sublist (res : Result) (idx : Int) (fs : List Frag) (ph : Rat) :
    (filterFragments res idx fs ph).Sublist fs := by
  rw [filterFragments_eq]; exact List.filter_sublist

/-- the same for the extractor-level composition -/
theorem exclude_sublist (cfg : Config) (all : List Page) (p : Page) :
    (excludePage cfg all p).Sublist p.frags :=
  filter_sublist _ _ _ _

/-! ## Body text is untouched -/

/-- **body_untouched.** A fragment of a word-level page outside both margin bands of its page is
always kept, whatever was detected (character-level pages: `body_untouched_charlevel`). -/
theorem body_untouched (res : Result) (idx : Int) (fs : List Frag) (ph : Rat) (f : Frag) (hf : f ∈ fs)
    (hword : isCharacterLevel fs = false)
    (htop : inTop (bands res.cfg fs ph) f = false) (hbot : inBottom (bands res.cfg fs ph) f = false) :
    f ∈ filterFragments res idx fs ph :=
  (mem_filterFragments_wordLevel hword).mpr ⟨hf, isInHeaderFooter_false_of_outside htop hbot⟩

/-- **body_untouched_charlevel.** On a character-level page the unit the filter measures is the
assembled line (position of its first glyph, height of the line; bands measured on the assembled
lines, as in detection): a glyph is always kept when every line it belongs to lies outside both
margin bands, whatever was detected. -/
theorem body_untouched_charlevel (res : Result) (idx : Int) (fs : List Frag) (ph : Rat) (f : Frag) (hf : f ∈ fs)
    (hcl : isCharacterLevel fs = true)
    (hout : ∀ g ∈ charLines fs, f ∈ g → ∀ l, assembleLine g = some l →
      inTop (bands res.cfg (assembleFragmentsIntoLines fs) ph) l = false ∧
      inBottom (bands res.cfg (assembleFragmentsIntoLines fs) ph) l = false) :
    f ∈ filterFragments res idx fs ph := by
  refine mem_filterFragments.mpr ⟨hf, ?_⟩
  cases h : isRemoved res idx fs ph f with
  | false => rfl
  | true =>
    obtain ⟨g, hg, hfg, l, hl, hit⟩ := (isRemoved_charLevel_eq_true hcl).mp h
    obtain ⟨ht, hb⟩ := hout g hg hfg l hl
    rw [isInHeaderFooter_false_of_outside ht hb] at hit
    cases hit

/-- the body fragment of page 2 of the example is outside both bands -/
example : let p := exPage 1 [66, 111, 100, 121] 2
    ∃ f ∈ p.frags, inTop (bands defaultConfig p.frags p.height) f = false ∧
      inBottom (bands defaultConfig p.frags p.height) f = false := by
  refine ⟨{ text := [66, 111, 100, 121], x := 72, y := 400, w := 120, h := 12, fs := 12 }, ?_, ?_, ?_⟩ <;> decide +kernel

/-- the body band as a whole survives: filtering commutes with restriction to the body band -/
theorem body_band_preserved (res : Result) (idx : Int) (fs : List Frag) (ph : Rat)
    (hword : isCharacterLevel fs = false) :
    (filterFragments res idx fs ph).filter
        (fun f => !inTop (bands res.cfg fs ph) f && !inBottom (bands res.cfg fs ph) f) =
      fs.filter (fun f => !inTop (bands res.cfg fs ph) f && !inBottom (bands res.cfg fs ph) f) := by
  rw [filterFragments_eq, List.filter_filter]
  apply List.filter_congr
  intro f _
  rw [isRemoved_wordLevel hword]
  cases ht : inTop (bands res.cfg fs ph) f <;> cases hb : inBottom (bands res.cfg fs ph) f <;> simp
  exact isInHeaderFooter_false_of_outside ht hb

/-! ## What may be removed -/

/-- `r` was detected for kind `k` on `pages`: its pattern is the digit-normalised text of a group of
marginal candidates (band test in page coordinates, on the preprocessed pages) that occurs on at
least `minOccurrences` distinct pages at a consistent position; `r.pages` are exactly the pages
of that group; and a page-number region is one whose pattern is a page-number pattern or whose
group carries a running number. -/
def DetectedAt (cfg : Config) (pages : List Page) (k : Kind) (r : Region) : Prop :=
  let group := groupOf (extractCandidates cfg k (preprocessPages pages)) r.pattern
  minOccurrences cfg pages.length ≤ (distinctPages group).length ∧
  2 ≤ minOccurrences cfg pages.length ∧
  hasConsistentPosition cfg group = true ∧
  (∀ i, i ∈ r.pages ↔ ∃ c ∈ group, c.page = i) ∧
  (r.isPageNumber = true → isPageNumberPattern r.pattern = true ∨ containsPageNumberPattern group = true)

theorem two_le_minOccurrences (cfg : Config) (n : Nat) : 2 ≤ minOccurrences cfg n := by
  unfold minOccurrences; omega

/-- every region of a detection result was detected in the sense of `DetectedAt` -/
theorem detected_of_mem (cfg : Config) (pages : List Page) (k : Kind) (r : Region)
    (hr : r ∈ (detect cfg pages).regions k) : DetectedAt cfg pages k r := by
  unfold detect at hr
  split at hr
  · cases k <;> simp [Result.regions] at hr
  · have hlen : (preprocessPages pages).length = pages.length := by simp [preprocessPages]
    have hr' : r ∈ findRepeatingPatterns cfg k pages.length (extractCandidates cfg k (preprocessPages pages)) := by
      cases k <;> simpa [Result.regions, hlen] using hr
    obtain ⟨key, _, hreg⟩ := mem_findRepeatingPatterns.mp hr'
    obtain ⟨_, hocc, hcons, _, hpat, hpages, hpn, _, _⟩ := regionOf_eq_some hreg
    subst hpat
    refine ⟨hocc, two_le_minOccurrences _ _, hcons, ?_, ?_⟩
    · intro i; rw [hpages, mem_sortInts, mem_distinctPages]
    · intro h; rw [hpn] at h; simpa using h

/-- a fragment that a non-page-number region matches has the region's normalised text -/
theorem pattern_of_match (cfg : Config) (pages : List Page) (k : Kind) (r : Region)
    (hr : r ∈ (detect cfg pages).regions k) (hpn : r.isPageNumber = false) (t : Str)
    (hm : regionMatches r t = true) : normalize (trimSpace t) = r.pattern := by
  unfold detect at hr
  split at hr
  · cases k <;> simp [Result.regions] at hr
  · have hlen : (preprocessPages pages).length = pages.length := by simp [preprocessPages]
    have hr' : r ∈ findRepeatingPatterns cfg k pages.length (extractCandidates cfg k (preprocessPages pages)) := by
      cases k <;> simpa [Result.regions, hlen] using hr
    obtain ⟨key, _, hreg⟩ := mem_findRepeatingPatterns.mp hr'
    obtain ⟨_, _, _, _, hpat, _, _, htxt, _⟩ := regionOf_eq_some hreg
    obtain ⟨c, rest, hg, hct⟩ := htxt hpn
    have hc : c ∈ groupOf (extractCandidates cfg k (preprocessPages pages)) key := by rw [hg]; simp
    have hc' := List.mem_filter.mp hc
    have hkey : normalize c.text = key := by simpa using hc'.2
    have htrim : trimSpace r.text = r.text := by rw [hct]; exact cand_text_trimmed hc'.1
    simp only [regionMatches, hpn, Bool.false_and, Bool.or_false, textsMatch, Bool.false_eq_true,
      if_false, Bool.or_eq_true, beq_iff_eq] at hm
    rw [htrim, hct, hkey] at hm
    rw [hpat]
    rcases hm with h | h
    · rw [h, hkey]
    · exact h

/-- what a hit of `isInHeaderFooter` on the result of `detect` means for the judged fragment `l` (a
fragment of a word-level page, an assembled line of a character-level page) measured against `b` -/
theorem hit_only_if (cfg : Config) (pages : List Page) (idx : Int) (b : Bands) (l : Frag)
    (h : isInHeaderFooter (detect cfg pages) idx b l = true) :
    ∃ k r, r ∈ (detect cfg pages).regions k ∧ DetectedAt cfg pages k r ∧ idx ∈ r.pages ∧
      inRegion k b l = true ∧
      (normalize (trimSpace l.text) = r.pattern ∨
        (r.isPageNumber = true ∧ isPageNumberPattern (normalize (trimSpace l.text)) = true)) := by
  obtain ⟨k, r, hr, hpage, hin, hm⟩ := isInHeaderFooter_eq_true.mp h
  refine ⟨k, r, hr, detected_of_mem cfg pages k r hr, hpage, hin, ?_⟩
  cases hpn : r.isPageNumber with
  | false => exact Or.inl (pattern_of_match cfg pages k r hr hpn l.text hm)
  | true =>
    simp only [regionMatches, hpn, textsMatch, if_true, Bool.true_and, Bool.or_eq_true,
      Bool.and_eq_true, beq_iff_eq] at hm
    rcases hm with h | ⟨_, h⟩
    · exact Or.inr ⟨rfl, h⟩
    · exact Or.inl h

/-- **removed_only_if** (word-level pages). If exclusion removes a fragment of a word-level page, then
the fragment lies in the top or bottom band of its page (`inRegion k`), and there is a region `r` of
that kind, detected on at least `minOccurrences ≥ 2` pages at a consistent position and covering this
page, such that either the fragment's digit-normalised text is the region's text pattern, or `r` is a
page-number region and the fragment is a page-number pattern. -/
theorem removed_only_if (cfg : Config) (pages : List Page) (p : Page) (f : Frag)
    (hword : isCharacterLevel p.frags = false) (hf : f ∈ p.frags)
    (hrem : f ∉ excludePage cfg pages p) :
    ∃ k r, r ∈ (detect cfg pages).regions k ∧ DetectedAt cfg pages k r ∧ p.index ∈ r.pages ∧
      inRegion k (bands cfg p.frags p.height) f = true ∧
      (normalize (trimSpace f.text) = r.pattern ∨
        (r.isPageNumber = true ∧ isPageNumberPattern (normalize (trimSpace f.text)) = true)) := by
  have h : isInHeaderFooter (detect cfg pages) p.index (bands cfg p.frags p.height) f = true := by
    cases hh : isInHeaderFooter (detect cfg pages) p.index (bands cfg p.frags p.height) f with
    | true => rfl
    | false =>
      exact absurd ((mem_filterFragments_wordLevel hword).mpr ⟨hf, by rw [detect_cfg]; exact hh⟩) hrem
  exact hit_only_if cfg pages p.index _ f h

/-- the hypotheses are satisfiable: the running header of page 2 of `exDoc` is removed from a word-level page -/
example : let p := exPage 1 [66, 111, 100, 121, 32, 116, 119, 111] 2
    let f : Frag := { text := [65, 67, 77, 69, 32, 82, 101, 112, 111, 114, 116], x := 72, y := 760, w := 74, h := 12, fs := 12 }
    isCharacterLevel p.frags = false ∧ f ∈ p.frags ∧ f ∉ excludePage defaultConfig exDoc p := by
  decide +kernel

/-- **removed_only_if_charlevel** (character-level pages; the full statement since the repair of F8).
If exclusion removes a glyph fragment of a character-level page, then the glyph belongs to a line
group `g` of the page (`charLines`, the groups detection assembles) whose assembled line `l` lies in
the top or bottom band (measured, as in detection, on the assembled lines of the page), and there is
a region of that kind, detected on at least `minOccurrences ≥ 2` pages at a consistent position and
covering this page, such that the LINE's digit-normalised text is the region's pattern, or the region
is a page-number region and the line is a page-number pattern. -/
theorem removed_only_if_charlevel (cfg : Config) (pages : List Page) (p : Page) (f : Frag)
    (hcl : isCharacterLevel p.frags = true) (hf : f ∈ p.frags) (hrem : f ∉ excludePage cfg pages p) :
    ∃ g ∈ charLines p.frags, f ∈ g ∧ ∃ l, assembleLine g = some l ∧
      ∃ k r, r ∈ (detect cfg pages).regions k ∧ DetectedAt cfg pages k r ∧ p.index ∈ r.pages ∧
        inRegion k (bands cfg (assembleFragmentsIntoLines p.frags) p.height) l = true ∧
        (normalize (trimSpace l.text) = r.pattern ∨
          (r.isPageNumber = true ∧ isPageNumberPattern (normalize (trimSpace l.text)) = true)) := by
  have h : isRemoved (detect cfg pages) p.index p.frags p.height f = true := by
    cases hh : isRemoved (detect cfg pages) p.index p.frags p.height f with
    | true => rfl
    | false => exact absurd (mem_filterFragments.mpr ⟨hf, hh⟩) hrem
  obtain ⟨g, hg, hfg, l, hl, hit⟩ := (isRemoved_charLevel_eq_true hcl).mp h
  rw [detect_cfg] at hit
  exact ⟨g, hg, hfg, l, hl, hit_only_if cfg pages p.index _ l hit⟩

/-- a character-level page (one fragment per character): "Abc" at y = 760, optionally the unique
line "Xy" at y = 740 (20 pt lower, still inside the 72 pt top band), body characters at y = 400 -/
def clPage (i : Int) (extra : Bool) : Page :=
  let ch (c : Nat) (x y : Rat) : Frag := { text := [c], x := x, y := y, w := 6, h := 12, fs := 12 }
  { index := i, height := 792,
    frags := [ch 65 72 760, ch 98 78 760, ch 99 84 760] ++
             (if extra then [ch 88 72 740, ch 121 78 740] else []) ++ [ch 66 72 400, ch 111 78 400] }

def clDoc : List Page := [clPage 0 false, clPage 1 true, clPage 2 false]

/-- the hypotheses of `removed_only_if_charlevel` are satisfiable: the glyph `A` of the running line
"Abc" goes from the character-level page 2 of `clDoc` -/
example : let p := clPage 1 true
    let f : Frag := { text := [65], x := 72, y := 760, w := 6, h := 12, fs := 12 }
    isCharacterLevel p.frags = true ∧ f ∈ p.frags ∧ f ∉ excludePage defaultConfig clDoc p := by
  decide +kernel

/-- what exclusion returns on `clDoc` since the repair: the running line "Abc" goes from every page,
the unique line "Xy" of page 2 and the body glyphs stay, in their order -/
theorem charlevel_unique_line_kept :
    clDoc.map (fun p => (excludePage defaultConfig clDoc p).map (·.text)) =
      [[[66], [111]], [[88], [121], [66], [111]], [[66], [111]]] := by
  decide +kernel

/-- exclusion as it was before the repair of F8 (`filterFragmentsOld`: position alone on
character-level pages) -/
def excludePageOld (cfg : Config) (all : List Page) (p : Page) : List Frag :=
  filterFragmentsOld (detect cfg all) p.index p.frags p.height

/-- **charlevel_position_only_pinned_counterexample** (F8, was finding `C11/charlevel-position-only`;
about the filter BEFORE the repair, `filterFragmentsOld`). On the character-level document `clDoc`
the character `X` of the unique marginal line "Xy" of page 2 was removed although it is no
page-number pattern and no detected region has its text — or the text "Xy" of its line — as pattern:
the text clause failed on character-level pages. The repaired filter keeps it. -/
theorem charlevel_position_only_pinned_counterexample :
    let p := clPage 1 true
    let f : Frag := { text := [88], x := 72, y := 740, w := 6, h := 12, fs := 12 }
    isCharacterLevel p.frags = true ∧ f ∈ p.frags ∧ f ∉ excludePageOld defaultConfig clDoc p ∧
      isPageNumberPattern (normalize (trimSpace f.text)) = false ∧
      ((detect defaultConfig clDoc).headers ++ (detect defaultConfig clDoc).footers).all
        (fun r => r.pattern != normalize (trimSpace f.text) && r.pattern != [88, 121]) = true ∧
      f ∈ excludePage defaultConfig clDoc p := by
  decide +kernel

/-- on word-level pages the old and the repaired filter are the same function -/
theorem filterFragmentsOld_wordLevel (res : Result) (idx : Int) (fs : List Frag) (ph : Rat)
    (hword : isCharacterLevel fs = false) : filterFragmentsOld res idx fs ph = filterFragments res idx fs ph := by
  rw [filterFragments_eq]
  unfold filterFragmentsOld
  apply List.filter_congr
  intro f _
  rw [isRemoved_wordLevel hword, hword]
  have e : ∀ inBand, regionHitsOld idx inBand false f = regionHits idx inBand f := by
    intro inBand; funext r; simp [regionHitsOld, regionHits]
  simp only [isInHeaderFooterOld, isInHeaderFooter, e]

example : isCharacterLevel (exPage 0 [66] 1).frags = false := by decide +kernel

/-- **charlevel_removed_only_where_a_line_repeats.** Whatever kind of page: if exclusion removes a
fragment, then THIS page carries, in one of its margin bands, a marginal line (an assembled line on a
character-level page) whose digit-normalised text also occurs on another page — a group of
candidates on at least two distinct pages, one of them this page. Where no line of a band repeats
on another page, nothing is removed from that band. -/
theorem charlevel_removed_only_where_a_line_repeats (cfg : Config) (pages : List Page) (p : Page) (f : Frag)
    (hf : f ∈ p.frags) (hrem : f ∉ excludePage cfg pages p) :
    ∃ k key,
      2 ≤ (distinctPages (groupOf (extractCandidates cfg k (preprocessPages pages)) key)).length ∧
      ∃ c ∈ groupOf (extractCandidates cfg k (preprocessPages pages)) key, c.page = p.index := by
  cases hcl : isCharacterLevel p.frags with
  | false =>
    obtain ⟨k, r, _, hdet, hpage, _⟩ := removed_only_if cfg pages p f hcl hf hrem
    obtain ⟨h1, h2, _, h4, _⟩ := hdet
    exact ⟨k, r.pattern, by omega, (h4 p.index).mp hpage⟩
  | true =>
    obtain ⟨_, _, _, _, _, k, r, _, hdet, hpage, _⟩ := removed_only_if_charlevel cfg pages p f hcl hf hrem
    obtain ⟨h1, h2, _, h4, _⟩ := hdet
    exact ⟨k, r.pattern, by omega, (h4 p.index).mp hpage⟩

/-! ## Documents without repetition are returned unchanged -/

/-- **no_repetition_identity.** If no digit-normalised marginal text occurs on two different pages
(for each kind of band, every group of marginal candidates lies on fewer than two pages), exclusion
returns every page unchanged. -/
theorem no_repetition_identity (cfg : Config) (pages : List Page)
    (h : ∀ k key, (distinctPages (groupOf (extractCandidates cfg k (preprocessPages pages)) key)).length < 2)
    (p : Page) : excludePage cfg pages p = p.frags := by
  have hnone : ∀ k, (detect cfg pages).regions k = [] := by
    intro k
    apply List.eq_nil_iff_forall_not_mem.mpr
    intro r hr
    obtain ⟨h1, h2, _⟩ := detected_of_mem cfg pages k r hr
    have := h k r.pattern
    omega
  exact filterFragments_no_regions (hnone .header) (hnone .footer) _ _ _

/-- the hypothesis holds e.g. for a two-page document whose margins carry different texts -/
example : ∀ key, (distinctPages (groupOf (extractCandidates defaultConfig .header (preprocessPages
    [exPage 0 [66] 1, { (exPage 1 [67] 2) with frags := [{ text := [90, 90, 90], x := 72, y := 760, w := 20, h := 12, fs := 12 }] }])) key)).length < 2 := by
  intro key
  simp only [groupOf]
  by_cases h1 : key = [65, 67, 77, 69, 32, 82, 101, 112, 111, 114, 116]
  · subst h1; decide +kernel
  · by_cases h2 : key = [90, 90, 90]
    · subst h2; decide +kernel
    · have : (List.filter (fun c => normalize c.text == key) (extractCandidates defaultConfig .header (preprocessPages
        [exPage 0 [66] 1, { (exPage 1 [67] 2) with frags := [{ text := [90, 90, 90], x := 72, y := 760, w := 20, h := 12, fs := 12 }] }]))) = [] := by
        have e : extractCandidates defaultConfig .header (preprocessPages
          [exPage 0 [66] 1, { (exPage 1 [67] 2) with frags := [{ text := [90, 90, 90], x := 72, y := 760, w := 20, h := 12, fs := 12 }] }]) =
          [⟨[65, 67, 77, 69, 32, 82, 101, 112, 111, 114, 116], 72, 20, 74, 12, 0⟩, ⟨[90, 90, 90], 72, 20, 20, 12, 1⟩] := by decide +kernel
        rw [e]
        have n1 : normalize [65, 67, 77, 69, 32, 82, 101, 112, 111, 114, 116] = [65, 67, 77, 69, 32, 82, 101, 112, 111, 114, 116] := by decide
        have n2 : normalize [90, 90, 90] = [90, 90, 90] := by decide
        simp [n1, n2, Ne.symm h1, Ne.symm h2]
      rw [this]; decide

/-- **single_page_identity.** A document of at most one page is returned unchanged, whatever its margins
contain (there is nothing a text could repeat across). -/
theorem single_page_identity (cfg : Config) (pages : List Page) (hn : pages.length ≤ 1) (p : Page) :
    excludePage cfg pages p = p.frags := by
  apply no_repetition_identity
  intro k key
  have := distinctPages_length_le (cfg := cfg) (k := k) (pages := pages) key
  omega

example : ([exPage 0 [66] 1] : List Page).length ≤ 1 := by decide

/-! ## Page subsets -/

/-- `Extractor.Text/Lines/…` with exclusion switched on (`collectAllPages`, `detectHeaderFooter`, then
`FilterFragments` per requested page): `requested` are positions into the document as `resolvePages`
returns them; the regions are detected on ALL pages. -/
def extractorExclude (cfg : Config) (all : List Page) (requested : List Nat) : List (List Frag) :=
  let res := detect cfg all
  requested.filterMap fun i => all[i]?.map fun p => filterFragments res p.index p.frags p.height

theorem filterMap_range_getElem {α β : Type} (g : α → β) :
    ∀ l : List α, (List.range l.length).filterMap (fun i => l[i]?.map g) = l.map g
  | [] => rfl
  | a :: t => by
    rw [List.length_cons, List.range_succ_eq_map, List.filterMap_cons]
    simp [List.filterMap_map, Function.comp_def, filterMap_range_getElem g t]

/-- requesting every page gives the page-wise exclusion of the whole document -/
theorem extractor_all_pages (cfg : Config) (all : List Page) :
    extractorExclude cfg all (List.range all.length) = all.map (excludePage cfg all) :=
  filterMap_range_getElem (excludePage cfg all) all

/-- **detection_uses_all_pages.** Whatever subset of pages is requested together with exclusion, each
requested page comes out exactly as it does when the whole document is requested (the regions are
computed from all pages, not from the requested ones). -/
theorem detection_uses_all_pages (cfg : Config) (all : List Page) (requested : List Nat) :
    extractorExclude cfg all requested =
      requested.filterMap fun i => (extractorExclude cfg all (List.range all.length))[i]? := by
  rw [extractor_all_pages]
  simp only [List.getElem?_map]
  rfl

/-- the claim is not vacuous: detecting on the requested page alone would keep the running header of
`exDoc` on page 2, detecting on all pages removes it -/
theorem detection_on_subset_would_differ :
    let p := exPage 1 [66, 111, 100, 121, 32, 116, 119, 111] 2
    excludePage defaultConfig [p] p = p.frags ∧
      excludePage defaultConfig exDoc p = [{ text := [66, 111, 100, 121, 32, 116, 119, 111], x := 72, y := 400, w := 120, h := 12, fs := 12 }] := by
  decide +kernel

/-! ## Liveness: what is repeated on every page is removed from every page -/

/-- **repeated_removed_everywhere** (any configuration with non-negative tolerances). Let a word-level
document have `n ≥ 2` pages with distinct indices. Suppose every page carries, in its top (resp.
bottom) band, a fragment whose digit-normalised text is `key` — the same line on every page, or a
running page number such as "Page 3" — and that in this band fragments with that normalised text
occur only at one position `(x0, d0)` (distance `d0` from the band's edge). If `key` is longer than
two bytes or a page-number pattern, then on EVERY page every such fragment is removed. -/
theorem repeated_removed_everywhere (cfg : Config) (pages : List Page) (k : Kind) (key : Str) (x0 d0 : Rat)
    (htol1 : 0 ≤ cfg.positionTolerance) (htol2 : 0 ≤ cfg.xPositionTolerance)
    (hmin : cfg.minPages ≤ pages.length) (hocc : minOccurrences cfg pages.length ≤ pages.length)
    (hn : 2 ≤ pages.length) (hnd : (pages.map (·.index)).Nodup)
    (hword : ∀ p ∈ pages, isCharacterLevel p.frags = false)
    (hkey : 2 < key.length ∨ isPageNumberPattern key = true)
    (hpresent : ∀ p ∈ pages, ∃ f ∈ p.frags, inRegion k (bands cfg p.frags p.height) f = true ∧
      normalize (trimSpace f.text) = key)
    (hpos : ∀ p ∈ pages, ∀ f ∈ p.frags, inRegion k (bands cfg p.frags p.height) f = true →
      normalize (trimSpace f.text) = key → f.x = x0 ∧ regionDist k (bands cfg p.frags p.height) f = d0) :
    ∀ p ∈ pages, ∀ f ∈ p.frags, inRegion k (bands cfg p.frags p.height) f = true →
      normalize (trimSpace f.text) = key → f ∉ excludePage cfg pages p := by
  have hpre := preprocessPages_wordLevel hword
  -- the group of candidates with normalised text `key`
  have hgroup_pos : ∀ c ∈ groupOf (extractCandidates cfg k pages) key, c.x = x0 ∧ c.y = d0 := by
    intro c hc
    obtain ⟨hc1, hc2⟩ := List.mem_filter.mp hc
    obtain ⟨p, hp, hcp⟩ := mem_extractCandidates.mp hc1
    obtain ⟨f, hf, hin, rfl⟩ := mem_pageCandidates.mp hcp
    exact hpos p hp f hf hin (by simpa using hc2)
  have hgroup_page : ∀ p ∈ pages, ∃ c ∈ groupOf (extractCandidates cfg k pages) key, c.page = p.index := by
    intro p hp
    obtain ⟨f, hf, hin, hk⟩ := hpresent p hp
    refine ⟨{ text := trimSpace f.text, x := f.x, y := regionDist k (bands cfg p.frags p.height) f,
              w := f.w, h := f.h, page := p.index }, ?_, rfl⟩
    apply List.mem_filter.mpr
    refine ⟨mem_extractCandidates.mpr ⟨p, hp, mem_pageCandidates.mpr ⟨f, hf, hin, rfl⟩⟩, ?_⟩
    simpa using hk
  -- it lies on all pages …
  have hsub : pages.map (·.index) ⊆ distinctPages (groupOf (extractCandidates cfg k pages) key) := by
    intro i hi
    obtain ⟨p, hp, rfl⟩ := List.mem_map.mp hi
    obtain ⟨c, hc, e⟩ := hgroup_page p hp
    exact mem_distinctPages.mpr ⟨c, hc, e⟩
  have hcount : pages.length ≤ (distinctPages (groupOf (extractCandidates cfg k pages) key)).length := by
    have := List.Nodup.length_le_of_subset hnd hsub
    simpa using this
  -- … has at least two members …
  have hlen2 : 2 ≤ (groupOf (extractCandidates cfg k pages) key).length := by
    have h1 : (distinctPages (groupOf (extractCandidates cfg k pages) key)).length ≤
        (groupOf (extractCandidates cfg k pages) key).length := distinctPages_length_le_group _
    omega
  -- … at a consistent position, so a region with pattern `key` is detected
  have hcons := hasConsistentPosition_of_same htol1 htol2 _ hgroup_pos hlen2
  obtain ⟨p0, hp0⟩ : ∃ p0, p0 ∈ pages := by
    cases pages with
    | nil => simp at hn
    | cons a _ => exact ⟨a, by simp⟩
  have hkeymem : ∃ c ∈ extractCandidates cfg k pages, normalize c.text = key := by
    obtain ⟨c, hc, _⟩ := hgroup_page p0 hp0
    obtain ⟨hc1, hc2⟩ := List.mem_filter.mp hc
    exact ⟨c, hc1, by simpa using hc2⟩
  have hshort : (decide (key.length ≤ 2) && !isPageNumberPattern key) = false := by
    rcases hkey with h | h
    · have : ¬ key.length ≤ 2 := by omega
      simp [this]
    · simp [h]
  obtain ⟨r, hreg⟩ : ∃ r, regionOf cfg k pages.length (extractCandidates cfg k pages) key = some r := by
    unfold regionOf
    simp only [hshort, Bool.false_eq_true, if_false, hcons, Bool.not_true]
    have : ¬ (distinctPages (groupOf (extractCandidates cfg k pages) key)).length < minOccurrences cfg pages.length := by
      omega
    simp [this]
  have hrmem : r ∈ (detect cfg pages).regions k := by
    have hnot : ¬ pages.length < cfg.minPages := by omega
    unfold detect
    rw [if_neg hnot, hpre]
    have := mem_findRepeatingPatterns.mpr ⟨key, hkeymem, hreg⟩
    cases k <;> simpa [Result.regions] using this
  obtain ⟨_, _, _, _, hpat, hpages, _, htxt, _⟩ := regionOf_eq_some hreg
  -- every fragment with that text in that band matches the region
  intro p hp f hf hin hk hkept
  have hfalse := ((mem_filterFragments_wordLevel (hword p hp)).mp hkept).2
  rw [detect_cfg] at hfalse
  have htrue : isInHeaderFooter (detect cfg pages) p.index (bands cfg p.frags p.height) f = true := by
    apply isInHeaderFooter_eq_true.mpr
    refine ⟨k, r, hrmem, ?_, hin, ?_⟩
    · rw [hpages, mem_sortInts]
      obtain ⟨c, hc, e⟩ := hgroup_page p hp
      exact mem_distinctPages.mpr ⟨c, hc, e⟩
    · cases hpn : r.isPageNumber with
      | true =>
        have hne : key ≠ [] := by
          intro e
          subst e
          rcases hkey with h | h
          · simp at h
          · rw [isPageNumberPattern_nil] at h; cases h
        have hne' : key.isEmpty = false := by cases key with | nil => exact absurd rfl hne | cons _ _ => rfl
        simp [regionMatches, hpn, hpat, hk, hne']
      | false =>
        obtain ⟨c, rest, hg, hct⟩ := htxt hpn
        have hc : c ∈ groupOf (extractCandidates cfg k pages) key := by rw [hg]; simp
        obtain ⟨hc1, hc2⟩ := List.mem_filter.mp hc
        have hckey : normalize c.text = key := by simpa using hc2
        have hctrim : trimSpace c.text = c.text := by
          have := cand_text_trimmed (cfg := cfg) (k := k) (pages := pages) (c := c) hc1
          exact this
        simp [regionMatches, hpn, textsMatch, hct, hctrim, hckey, hk]
  rw [htrue] at hfalse
  cases hfalse

/-- **repeated_on_enough_pages_removed** (liveness for headers that do not run on every page: odd/even
alternation, all pages but the cover, a chapter's pages). Let the pages `S` of a word-level document —
with distinct indices, at least `minOccurrences` of them — each carry, in the top (resp. bottom) band,
a fragment with digit-normalised text `key`, and let fragments with that normalised text occur in this
band, on ANY page, only at the one position `(x0, d0)`. If `key` is longer than two bytes or a
page-number pattern, every such fragment is removed from every page of `S`. -/
theorem repeated_on_enough_pages_removed (cfg : Config) (pages S : List Page) (k : Kind) (key : Str) (x0 d0 : Rat)
    (htol1 : 0 ≤ cfg.positionTolerance) (htol2 : 0 ≤ cfg.xPositionTolerance)
    (hmin : cfg.minPages ≤ pages.length)
    (hS : ∀ p ∈ S, p ∈ pages) (hSnd : (S.map (·.index)).Nodup)
    (hSocc : minOccurrences cfg pages.length ≤ S.length)
    (hword : ∀ p ∈ pages, isCharacterLevel p.frags = false)
    (hkey : 2 < key.length ∨ isPageNumberPattern key = true)
    (hpresent : ∀ p ∈ S, ∃ f ∈ p.frags, inRegion k (bands cfg p.frags p.height) f = true ∧
      normalize (trimSpace f.text) = key)
    (hpos : ∀ p ∈ pages, ∀ f ∈ p.frags, inRegion k (bands cfg p.frags p.height) f = true →
      normalize (trimSpace f.text) = key → f.x = x0 ∧ regionDist k (bands cfg p.frags p.height) f = d0) :
    ∀ p ∈ S, ∀ f ∈ p.frags, inRegion k (bands cfg p.frags p.height) f = true →
      normalize (trimSpace f.text) = key → f ∉ excludePage cfg pages p := by
  have hpre := preprocessPages_wordLevel hword
  have hgroup_pos : ∀ c ∈ groupOf (extractCandidates cfg k pages) key, c.x = x0 ∧ c.y = d0 := by
    intro c hc
    obtain ⟨hc1, hc2⟩ := List.mem_filter.mp hc
    obtain ⟨p, hp, hcp⟩ := mem_extractCandidates.mp hc1
    obtain ⟨f, hf, hin, rfl⟩ := mem_pageCandidates.mp hcp
    exact hpos p hp f hf hin (by simpa using hc2)
  have hgroup_page : ∀ p ∈ S, ∃ c ∈ groupOf (extractCandidates cfg k pages) key, c.page = p.index := by
    intro p hp
    obtain ⟨f, hf, hin, hk⟩ := hpresent p hp
    refine ⟨{ text := trimSpace f.text, x := f.x, y := regionDist k (bands cfg p.frags p.height) f,
              w := f.w, h := f.h, page := p.index }, ?_, rfl⟩
    apply List.mem_filter.mpr
    refine ⟨mem_extractCandidates.mpr ⟨p, hS p hp, mem_pageCandidates.mpr ⟨f, hf, hin, rfl⟩⟩, ?_⟩
    simpa using hk
  have hsub : S.map (·.index) ⊆ distinctPages (groupOf (extractCandidates cfg k pages) key) := by
    intro i hi
    obtain ⟨p, hp, rfl⟩ := List.mem_map.mp hi
    obtain ⟨c, hc, e⟩ := hgroup_page p hp
    exact mem_distinctPages.mpr ⟨c, hc, e⟩
  have hcount : S.length ≤ (distinctPages (groupOf (extractCandidates cfg k pages) key)).length := by
    have := List.Nodup.length_le_of_subset hSnd hsub
    simpa using this
  have h2 := two_le_minOccurrences cfg pages.length
  have hlen2 : 2 ≤ (groupOf (extractCandidates cfg k pages) key).length := by
    have h1 : (distinctPages (groupOf (extractCandidates cfg k pages) key)).length ≤
        (groupOf (extractCandidates cfg k pages) key).length := distinctPages_length_le_group _
    omega
  have hcons := hasConsistentPosition_of_same htol1 htol2 _ hgroup_pos hlen2
  obtain ⟨p0, hp0⟩ : ∃ p0, p0 ∈ S := by
    cases S with
    | nil => simp at hSocc; omega
    | cons a _ => exact ⟨a, by simp⟩
  have hkeymem : ∃ c ∈ extractCandidates cfg k pages, normalize c.text = key := by
    obtain ⟨c, hc, _⟩ := hgroup_page p0 hp0
    obtain ⟨hc1, hc2⟩ := List.mem_filter.mp hc
    exact ⟨c, hc1, by simpa using hc2⟩
  have hshort : (decide (key.length ≤ 2) && !isPageNumberPattern key) = false := by
    rcases hkey with h | h
    · have : ¬ key.length ≤ 2 := by omega
      simp [this]
    · simp [h]
  obtain ⟨r, hreg⟩ : ∃ r, regionOf cfg k pages.length (extractCandidates cfg k pages) key = some r := by
    unfold regionOf
    simp only [hshort, Bool.false_eq_true, if_false, hcons, Bool.not_true]
    have : ¬ (distinctPages (groupOf (extractCandidates cfg k pages) key)).length < minOccurrences cfg pages.length := by
      omega
    simp [this]
  have hrmem : r ∈ (detect cfg pages).regions k := by
    have hnot : ¬ pages.length < cfg.minPages := by omega
    unfold detect
    rw [if_neg hnot, hpre]
    have := mem_findRepeatingPatterns.mpr ⟨key, hkeymem, hreg⟩
    cases k <;> simpa [Result.regions] using this
  obtain ⟨_, _, _, _, hpat, hpages, _, htxt, _⟩ := regionOf_eq_some hreg
  intro p hp f hf hin hk hkept
  have hfalse := ((mem_filterFragments_wordLevel (hword p (hS p hp))).mp hkept).2
  rw [detect_cfg] at hfalse
  have htrue : isInHeaderFooter (detect cfg pages) p.index (bands cfg p.frags p.height) f = true := by
    apply isInHeaderFooter_eq_true.mpr
    refine ⟨k, r, hrmem, ?_, hin, ?_⟩
    · rw [hpages, mem_sortInts]
      obtain ⟨c, hc, e⟩ := hgroup_page p hp
      exact mem_distinctPages.mpr ⟨c, hc, e⟩
    · cases hpn : r.isPageNumber with
      | true =>
        have hne : key ≠ [] := by
          intro e
          subst e
          rcases hkey with h | h
          · simp at h
          · rw [isPageNumberPattern_nil] at h; cases h
        have hne' : key.isEmpty = false := by cases key with | nil => exact absurd rfl hne | cons _ _ => rfl
        simp [regionMatches, hpn, hpat, hk, hne']
      | false =>
        obtain ⟨c, rest, hg, hct⟩ := htxt hpn
        have hc : c ∈ groupOf (extractCandidates cfg k pages) key := by rw [hg]; simp
        obtain ⟨hc1, hc2⟩ := List.mem_filter.mp hc
        have hckey : normalize c.text = key := by simpa using hc2
        have hctrim : trimSpace c.text = c.text := by
          have := cand_text_trimmed (cfg := cfg) (k := k) (pages := pages) (c := c) hc1
          exact this
        simp [regionMatches, hpn, textsMatch, hct, hctrim, hckey, hk]
  rw [htrue] at hfalse
  cases hfalse

/-- a four-page document whose header alternates: "Odd Title" on pages 1 and 3, "Even Title" on pages
2 and 4, same position -/
def oddEvenDoc : List Page :=
  let hdr (t : Str) : Frag := { text := t, x := 72, y := 760, w := 60, h := 12, fs := 12 }
  let body (c : Nat) : Frag := { text := [66, c], x := 72, y := 400, w := 20, h := 12, fs := 12 }
  let odd : Str := [79, 100, 100, 32, 84, 105, 116, 108, 101]
  let even : Str := [69, 118, 101, 110, 32, 84, 105, 116, 108, 101]
  [ { index := 0, height := 792, frags := [hdr odd, body 49] }, { index := 1, height := 792, frags := [hdr even, body 50] },
    { index := 2, height := 792, frags := [hdr odd, body 51] }, { index := 3, height := 792, frags := [hdr even, body 52] } ]

/-- the hypotheses are satisfiable with `S` = the odd pages (2 = `minOccurrences` of 4 pages), … -/
example : let S := oddEvenDoc.filter fun p => p.index % 2 == 0
    (∀ p ∈ S, p ∈ oddEvenDoc) ∧ (S.map (·.index)).Nodup ∧ minOccurrences defaultConfig oddEvenDoc.length ≤ S.length ∧
    (∀ p ∈ S, ∃ f ∈ p.frags, inRegion .header (bands defaultConfig p.frags p.height) f = true ∧
      normalize (trimSpace f.text) = [79, 100, 100, 32, 84, 105, 116, 108, 101]) ∧
    (∀ p ∈ oddEvenDoc, ∀ f ∈ p.frags, inRegion .header (bands defaultConfig p.frags p.height) f = true →
      normalize (trimSpace f.text) = [79, 100, 100, 32, 84, 105, 116, 108, 101] →
      f.x = 72 ∧ regionDist .header (bands defaultConfig p.frags p.height) f = 20) := by
  decide +kernel

/-- … and both alternating headers go from their pages -/
example : oddEvenDoc.map (fun p => (excludePage defaultConfig oddEvenDoc p).map (·.text)) =
    [[[66, 49]], [[66, 50]], [[66, 51]], [[66, 52]]] := by decide +kernel

/-- `repeated_removed_everywhere` for the default configuration of `NewHeaderFooterDetector()`
(tolerances 5/10 pt, ratio 0.5 so that `minOccurrences n = max 2 ⌊n/2⌋ ≤ n`, `MinPages = 2`). -/
theorem repeated_removed_everywhere_default (pages : List Page) (k : Kind) (key : Str) (x0 d0 : Rat)
    (hn : 2 ≤ pages.length) (hnd : (pages.map (·.index)).Nodup)
    (hword : ∀ p ∈ pages, isCharacterLevel p.frags = false)
    (hkey : 2 < key.length ∨ isPageNumberPattern key = true)
    (hpresent : ∀ p ∈ pages, ∃ f ∈ p.frags, inRegion k (bands defaultConfig p.frags p.height) f = true ∧
      normalize (trimSpace f.text) = key)
    (hpos : ∀ p ∈ pages, ∀ f ∈ p.frags, inRegion k (bands defaultConfig p.frags p.height) f = true →
      normalize (trimSpace f.text) = key → f.x = x0 ∧ regionDist k (bands defaultConfig p.frags p.height) f = d0) :
    ∀ p ∈ pages, ∀ f ∈ p.frags, inRegion k (bands defaultConfig p.frags p.height) f = true →
      normalize (trimSpace f.text) = key → f ∉ excludePage defaultConfig pages p :=
  repeated_removed_everywhere defaultConfig pages k key x0 d0 (by decide +kernel) (by decide +kernel)
    hn (minOccurrences_default_le _ hn) hn hnd hword hkey hpresent hpos

/-- the hypotheses are satisfiable: the running header "ACME Report" of `exDoc` (top band, x = 72,
20 pt below the top edge) … -/
example : (exDoc.map (·.index)).Nodup ∧ (∀ p ∈ exDoc, isCharacterLevel p.frags = false) ∧
    (∀ p ∈ exDoc, ∃ f ∈ p.frags, inRegion .header (bands defaultConfig p.frags p.height) f = true ∧
      normalize (trimSpace f.text) = [65, 67, 77, 69, 32, 82, 101, 112, 111, 114, 116]) ∧
    (∀ p ∈ exDoc, ∀ f ∈ p.frags, inRegion .header (bands defaultConfig p.frags p.height) f = true →
      normalize (trimSpace f.text) = [65, 67, 77, 69, 32, 82, 101, 112, 111, 114, 116] →
      f.x = 72 ∧ regionDist .header (bands defaultConfig p.frags p.height) f = 20) := by
  decide +kernel

/-- … and its running page numbers "1", "2", "3" (bottom band, normalised text "#", x = 300, 30 pt
above the bottom edge) -/
example : isPageNumberPattern [35] = true ∧
    (∀ p ∈ exDoc, ∃ f ∈ p.frags, inRegion .footer (bands defaultConfig p.frags p.height) f = true ∧
      normalize (trimSpace f.text) = [35]) ∧
    (∀ p ∈ exDoc, ∀ f ∈ p.frags, inRegion .footer (bands defaultConfig p.frags p.height) f = true →
      normalize (trimSpace f.text) = [35] →
      f.x = 300 ∧ regionDist .footer (bands defaultConfig p.frags p.height) f = 30) := by
  decide +kernel

/-- what exclusion returns on `exDoc`: only the body line of each page -/
example : exDoc.map (fun p => (excludePage defaultConfig exDoc p).map (·.text)) =
    [[[66, 111, 100, 121, 32, 111, 110, 101]], [[66, 111, 100, 121, 32, 116, 119, 111]],
     [[66, 111, 100, 121, 32, 116, 104, 114, 101, 101]]] := by
  decide +kernel

/-! ## The two repaired defects, at their witnesses -/

/-- B20 witness: three 792 pt pages with "ACME Report" at y = 760; on page 2 the body line with the
same text at y = 700 (80 pt below the page top). -/
def b20Doc : List Page :=
  let acme : Str := [65, 67, 77, 69, 32, 82, 101, 112, 111, 114, 116]
  let hdr : Frag := { text := acme, x := 72, y := 760, w := 74, h := 12, fs := 12 }
  let body : Frag := { text := [66, 111, 100, 121], x := 72, y := 400, w := 120, h := 12, fs := 12 }
  [ { index := 0, height := 792, frags := [hdr, body] },
    { index := 1, height := 792, frags := [hdr, { hdr with y := 700 }, body] },
    { index := 2, height := 792, frags := [hdr, body] } ]

/-- after the fix the body line survives and the header is removed on every page (before the fix the
filter measured the band from the top-most fragment and deleted the line at y = 700) -/
theorem b20_body_line_kept :
    b20Doc.map (fun p => (excludePage defaultConfig b20Doc p).map (·.y)) = [[400], [700, 400], [400]] := by
  decide +kernel

/-- second fix: "ACME Report - 1/2/3" at the same top-margin position of three pages is a page-number
region whose own fragments are now removed (pattern "ACME Report - #") -/
theorem embedded_number_removed :
    let mk (i : Int) (d : Nat) : Page := { index := i, height := 792, frags :=
      [ { text := [65, 67, 77, 69, 32, 82, 101, 112, 111, 114, 116, 32, 45, 32, 48 + d], x := 72, y := 760, w := 100, h := 12, fs := 12 },
        { text := [66, 111, 100, 121], x := 72, y := 400, w := 120, h := 12, fs := 12 } ] }
    let doc := [mk 0 1, mk 1 2, mk 2 3]
    doc.map (fun p => (excludePage defaultConfig doc p).map (·.y)) = [[400], [400], [400]] ∧
      (detect defaultConfig doc).headers.map (fun r => (r.isPageNumber, r.text == pageNumberLabel)) = [(true, true)] := by
  decide +kernel

end Tabula.C11
