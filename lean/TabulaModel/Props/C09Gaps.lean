import TabulaModel.Lemmas.LayoutGaps
import TabulaModel.Props.C09
/-
C09, the histogram of `layout.(*ColumnDetector).findVerticalGaps` after the two C02 repairs
(988a551: guard on the page width; 541d4a6: difference array instead of one `++` per bucket).

For the theorems of `Props/C09*.lean` the gap list is a universally quantified parameter, so
neither repair touches a statement there: they hold for the empty gap list a refused width
yields as for any other. This file closes the parameter (`Model/LayoutGaps.lean`) to state what
the repairs themselves claim:

* the output of `findVerticalGaps` is the same with either histogram loop, for every input;
* a refused page width yields no gaps; behind the guard there are at most 2^20 buckets,
  2^20 + 1 cells, and `2 * fragments + buckets` array writes (not `fragments * buckets`).
-/
namespace Tabula.C09Gaps
open Tabula.Layout

/-- 541d4a6 does not change the histogram: for runs inside the array the difference array summed once is the per-bucket count -/
theorem hist_unchanged (nb : Nat) (runs : List (Nat × Nat)) (h : ∀ r ∈ runs, r.1 ≤ r.2 ∧ r.2 < nb) :
    histDiff nb runs = histNaive nb runs :=
  histDiff_eq_histNaive nb runs h

example : ∀ r ∈ [((0 : Nat), (2 : Nat)), (1, 5), (3, 3)], r.1 ≤ r.2 ∧ r.2 < 6 := by decide

/-- the clamps of the fragment loop put every recorded run inside the array -/
theorem runOf_valid (nb : Nat) (f : Frag) (r : Nat × Nat) (h : runOf nb f = some r) : r.1 ≤ r.2 ∧ r.2 < nb :=
  runOf_some nb f r h

/-- 541d4a6 does not change the OUTPUT of findVerticalGaps, for every input -/
theorem find_gaps_unchanged (minGap : Rat) (maxCols : Nat) (pw : Rat) (fs : List Frag) :
    findVerticalGaps minGap maxCols pw fs = findVerticalGapsOld minGap maxCols pw fs := by
  unfold findVerticalGaps findVerticalGapsOld
  cases fs with
  | nil => rfl
  | cons f0 fs =>
    simp only
    rw [hist_unchanged _ _ (runs_valid _ _)]

/-- the guard of 988a551 in plain terms: refused iff the width is negative or at least 5 * 2^20 = 5242880 -/
theorem gapsRefused_iff (pw : Rat) : gapsRefused pw = true ↔ (pw < 0 ∨ pw ≥ 5242880) :=
  gapsRefused_iff' pw

/-- (a) beyond the bound the answer is what the code answers: no gaps -/
theorem find_gaps_refused (minGap : Rat) (maxCols : Nat) (pw : Rat) (fs : List Frag)
    (h : pw < 0 ∨ pw ≥ 5242880) : findVerticalGaps minGap maxCols pw fs = [] := by
  have hr : gapsRefused pw = true := (gapsRefused_iff pw).mpr h
  unfold findVerticalGaps
  cases fs with
  | nil => rfl
  | cons f0 fs => simp only [hr, if_true]

/-- (b) behind the guard there are at most 2^20 buckets -/
theorem num_buckets_bounded (pw : Rat) (h : gapsRefused pw = false) : numBuckets pw ≤ maxBuckets :=
  numBuckets_le pw h

theorem diff_array_cells (nb : Nat) (runs : List (Nat × Nat)) : (diffArray nb runs).length = nb + 1 :=
  diffArray_length nb runs

theorem hist_length (nb : Nat) (runs : List (Nat × Nat)) : (histDiff nb runs).length = nb := by
  unfold histDiff
  rw [List.length_take, scan_length, diffArray_length]
  omega

/-- (b) cells allocated: at most 2^20 + 1 for every page width that is not refused, whatever the fragments -/
theorem hist_cells_bounded (pw : Rat) (fs : List Frag) (h : gapsRefused pw = false) :
    (diffArray (numBuckets pw) (fs.filterMap (runOf (numBuckets pw)))).length ≤ maxBuckets + 1 := by
  rw [diff_array_cells]
  exact Nat.succ_le_succ (num_buckets_bounded pw h)

/-- (b) array writes: fragments + buckets (2 per fragment, 1 per bucket), not fragments x buckets -/
theorem hist_work_bounded (pw : Rat) (fs : List Frag) (h : gapsRefused pw = false) :
    diffWrites (numBuckets pw) (fs.filterMap (runOf (numBuckets pw))) ≤ 2 * fs.length + maxBuckets := by
  unfold diffWrites
  have h1 := num_buckets_bounded pw h
  have h2 := List.length_filterMap_le (runOf (numBuckets pw)) fs
  omega

/-- the loop before 541d4a6 on n page-wide fragments: fragments x buckets writes -/
theorem naive_writes_full (nb n : Nat) (h : 0 < nb) : naiveWrites (List.replicate n (0, nb - 1)) = n * nb :=
  naiveWrites_replicate nb n h

/-- at most MaxColumns - 1 gaps are reported -/
theorem gaps_count_bounded (minGap : Rat) (maxCols : Nat) (pw : Rat) (fs : List Frag) (h : 1 ≤ maxCols) :
    (findVerticalGaps minGap maxCols pw fs).length < maxCols := by
  unfold findVerticalGaps
  cases fs with
  | nil => exact h
  | cons f0 fs =>
    simp only
    split
    · exact h
    · exact gapsOfHist_length _ _ _ _ _ _ h

/-- (c) the edge of the bound -/
example : gapsRefused (5242880 - 1/4) = false ∧ numBuckets (5242880 - 1/4) = 1048576 := by decide +kernel
example : gapsRefused 5242880 = true := by decide +kernel
example : gapsRefused (5242880 + 1/4) = true := by decide +kernel
example : gapsRefused 0 = false ∧ gapsRefused (-1/4) = true := by decide +kernel
/-- a small histogram both ways -/
example : histDiff 6 [(0, 2), (1, 5), (3, 3)] = [1, 2, 2, 2, 1, 1] ∧ histNaive 6 [(0, 2), (1, 5), (3, 3)] = [1, 2, 2, 2, 1, 1] := by decide

/-! ## what the bound means for C09 -/

/-- a page width beyond the bound (or negative) is laid out as ONE column holding every fragment
in the order given: nothing is refused, lost or repeated - only the column split is not tried -/
theorem columns_beyond_width_bound (minGap : Rat) (maxCols : Nat) (pw minCW : Rat)
    (isSpan keep : List Frag → List Frag → Bool) (fs : List Frag) (hfs : fs ≠ [])
    (h : pw < 0 ∨ pw ≥ 5242880) :
    detectColumns (findVerticalGaps minGap maxCols pw fs) minCW isSpan keep fs = ⟨[fs], []⟩ := by
  rw [find_gaps_refused minGap maxCols pw fs h]
  unfold detectColumns
  cases fs with
  | nil => exact absurd rfl hfs
  | cons f r => rfl

/-- `ColumnDetector.Detect` with the gap list as the code computes it, on either side of the
bound: still a partition of the input (instance of `C09.columns_partition`) -/
theorem columns_partition_closed (minGap : Rat) (maxCols : Nat) (pw minCW : Rat)
    (isSpan keep : List Frag → List Frag → Bool) (fs : List Frag) :
    ((detectColumns (findVerticalGaps minGap maxCols pw fs) minCW isSpan keep fs).columns.flatten ++
      (detectColumns (findVerticalGaps minGap maxCols pw fs) minCW isSpan keep fs).spanning).Perm fs :=
  C09.columns_partition _ minCW isSpan keep fs

example : (⟨0, 72, 700, 30, 10, 10, [97]⟩ :: ([] : List Frag)) ≠ [] ∧ ((5242880 : Rat) < 0 ∨ (5242880 : Rat) ≥ 5242880) := by
  decide +kernel

end Tabula.C09Gaps
