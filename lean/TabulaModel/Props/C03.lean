import TabulaModel.Model.Session
/-!
# C03 — Extraction is deterministic and free of cross-call interference

The real content of C03 is a *structural* fact about the code, regenerated from the source
on every run (`extract/`: no package-level variable of a library package is written outside
`init`, and there is no `go` statement), plus exploration under the race detector. The
theorems say what that fact buys: with the operand list owned by the parser a parse is
independent of every earlier parse, and map-iteration order cannot influence the registered
fonts unless two names alias.
-/
namespace Tabula.C03
open Tabula.Session

/-- **parse_history_independent**: whatever was parsed before — operand-only input, input that
ends in the middle of an operand list, anything — a parse yields what it yields alone. -/
theorem parse_history_independent (history : List (List Tok)) (x : List Tok) :
    (sessionOwn (history ++ [x])).getLast? = some (parseOwn x) := by
  simp [sessionOwn]

/-- every call of a session is answered as if it ran alone -/
theorem session_pointwise (calls : List (List Tok)) (i : Nat) (h : i < calls.length) :
    (sessionOwn calls)[i]? = some (parseOwn calls[i]) := by
  simp [sessionOwn, h]

/-- with the operand list shared at package level the property fails: after `1 2 3` the parse
of `q` reports three operands (the pinned tree's behaviour, B2) -/
theorem shared_stack_counterexample :
    (sessionShared [] [[.num 1, .num 2, .num 3], [.op 113]]).getLast? ≠ some (parseOwn [.op 113]) := by
  decide

/-- the shared model agrees with the owned one exactly when nothing is left over -/
theorem shared_eq_own_of_clean (t : List Tok) (rest : List (List Tok)) (h : (group [] t).2 = []) :
    sessionShared [] (t :: rest) = parseOwn t :: sessionShared [] rest := by
  simp only [sessionShared, parseOwn]
  cases hg : group [] t with
  | mk ops left =>
    rw [hg] at h
    simp only at h
    subst h
    rfl

/-! ### fonts registered while ranging over a map -/

theorem set_comm (m : FontMap) (k1 k2 : Name) (v1 v2 : Nat) (h : k1 ≠ k2) :
    (m.set k1 v1).set k2 v2 = (m.set k2 v2).set k1 v1 := by
  funext x
  simp only [FontMap.set]
  by_cases h1 : x = k1
  · subst h1
    simp [h]
  · by_cases h2 : x = k2
    · subst h2; simp [h1]
    · simp [h1, h2]

theorem foldl_set_comm_one (ks : List Name) (m : FontMap) (k : Name) (v w : Nat)
    (h : ∀ x ∈ ks, x ≠ k) :
    (ks.foldl (fun m x => m.set x v) m).set k w = ks.foldl (fun m x => m.set x v) (m.set k w) := by
  induction ks generalizing m with
  | nil => rfl
  | cons a as ih =>
    simp only [List.foldl_cons]
    rw [ih _ (fun x hx => h x (by simp [hx]))]
    rw [set_comm m a k v w (h a (by simp))]

theorem register_comm (ex : Name → Bool) (m : FontMap) (e1 e2 : Name × Nat)
    (hd : ∀ a ∈ keysOf ex e1.1, ∀ b ∈ keysOf ex e2.1, a ≠ b) :
    register ex (register ex m e1) e2 = register ex (register ex m e2) e1 := by
  unfold register
  generalize keysOf ex e1.1 = ks1 at hd
  generalize keysOf ex e2.1 = ks2 at hd
  induction ks2 generalizing m with
  | nil => rfl
  | cons b bs ih =>
    simp only [List.foldl_cons]
    rw [foldl_set_comm_one ks1 m b e1.2 e2.2 (fun x hx => hd x hx b (by simp))]
    exact ih _ (fun a ha b' hb' => hd a ha b' (by simp [hb']))

theorem mem_keysOf (ex : Name → Bool) (n a : Name) (h : a ∈ keysOf ex n) :
    a = n ∨ (a = 47 :: n ∧ ex (47 :: n) = false) := by
  unfold keysOf at h
  split at h
  · simp at h; exact Or.inl h
  · split at h
    · simp at h; exact Or.inl h
    · rename_i hex
      simp at h
      rcases h with h | h
      · exact Or.inl h
      · exact Or.inr ⟨h, by simpa using hex⟩

/-- with the explicit-name test, entries with different names never share a key -/
theorem keys_disjoint (ex : Name → Bool) (n1 n2 : Name) (hne : n1 ≠ n2)
    (h1 : ex n1 = true) (h2 : ex n2 = true) :
    ∀ a ∈ keysOf ex n1, ∀ b ∈ keysOf ex n2, a ≠ b := by
  intro a ha b hb hab
  subst hab
  rcases mem_keysOf ex n1 a ha with rfl | ⟨rfl, hx1⟩
  · rcases mem_keysOf ex n2 a hb with rfl | ⟨rfl, hx2⟩
    · exact hne rfl
    · rw [h1] at hx2; cases hx2
  · rcases mem_keysOf ex n2 _ hb with h | ⟨h, hx2⟩
    · rw [h, h2] at hx1; cases hx1
    · exact hne (List.cons.inj h).2

theorem eq_of_nodup_map_fst (l : List (Name × Nat)) (hnd : (l.map Prod.fst).Nodup)
    (x y : Name × Nat) (hx : x ∈ l) (hy : y ∈ l) (h : x.1 = y.1) : x = y := by
  induction l with
  | nil => cases hx
  | cons a as ih =>
    simp only [List.map_cons, List.nodup_cons] at hnd
    rcases List.mem_cons.mp hx with rfl | hx' <;> rcases List.mem_cons.mp hy with rfl | hy'
    · rfl
    · exact absurd (h ▸ List.mem_map_of_mem (f := Prod.fst) hy') hnd.1
    · exact absurd (h ▸ List.mem_map_of_mem (f := Prod.fst) hx') hnd.1
    · exact ih hnd.2 hx' hy'

/-- **font_registration_order_free**: for every two iteration orders of the same font
dictionary (any permutation of its entries; names distinct, as in any dictionary) the
registered fonts are the same — including dictionaries in which one name is another with a
leading slash. -/
theorem font_registration_order_free (l₁ l₂ : List (Name × Nat)) (p : l₁.Perm l₂)
    (hnd : (l₁.map Prod.fst).Nodup) : registerAll l₁ = registerAll l₂ := by
  unfold registerAll
  have hex : (fun k => (l₂.map Prod.fst).contains k) = (fun k => (l₁.map Prod.fst).contains k) := by
    funext k
    have : k ∈ l₂.map Prod.fst ↔ k ∈ l₁.map Prod.fst := (p.map Prod.fst).mem_iff.symm
    simp only [List.contains_eq_mem]
    exact decide_eq_decide.mpr this
  rw [hex]
  apply List.Perm.foldl_eq' p
  intro x hx y hy z
  by_cases hxy : x = y
  · subst hxy; rfl
  · apply register_comm
    have hn : x.1 ≠ y.1 := by
      intro hn
      apply hxy
      exact eq_of_nodup_map_fst l₁ hnd x y hx hy hn
    apply keys_disjoint _ _ _ hn
    · simpa using List.mem_map_of_mem (f := Prod.fst) hx
    · simpa using List.mem_map_of_mem (f := Prod.fst) hy

/-- the pinned tree (alias always added) depends on the iteration order for names `F`, `/F` -/
theorem font_alias_pinned_counterexample :
    registerAllPinned [([70], 1), ([47, 70], 2)] [47, 70]
      ≠ registerAllPinned [([47, 70], 2), ([70], 1)] [47, 70] := by
  decide

/-- … and the repaired registration does not -/
example : registerAll [([70], 1), ([47, 70], 2)] [47, 70] = registerAll [([47, 70], 2), ([70], 1)] [47, 70] := by
  decide

end Tabula.C03
