import TabulaModel.Lemmas.Export
import TabulaModel.Lemmas.Csv
/-!
# C14 — Chunk exports parse back to the same chunks

Theorems about `Model/Export.lean` (tabula's logic around `encoding/json` and
`encoding/csv`: column set, rows, batching, streaming, filters) and about
`Model/Csv.lean` (the ASSUMED contract of `encoding/csv`'s writer, shown to be
inverted by a strict RFC 4180 reader).  Well-formedness of the JSON text itself is
`encoding/json`'s and is not claimed here; the harness re-parses every export.
-/
namespace Tabula.C14
open Tabula.Export Tabula.Csv

/-! ## CSV / TSV layout -/

/-- The column list is the fixed prefix, then `meta_`+key for the strictly ascending
(bytewise; hence duplicate-free) list of exactly those non-standard metadata keys that some
chunk of the collection exports (none when metadata is switched off), then `embeddings` if
requested.  It is computed once per export, so it is the same for the header and every row
(see `rows_one_per_chunk_in_order`). -/
theorem columns_fixed_sorted (cfg : Config) (chunks : List Chunk) :
    ∃ keys : List Str,
      collectCSVColumns cfg chunks =
        fixedColumns cfg ++ keys.map (kMeta ++ ·) ++ (if cfg.includeEmbeddings then [kEmbeddings] else []) ∧
      keys.Pairwise strLt ∧
      ∀ k, k ∈ keys ↔
        (cfg.includeMetadata = true ∧ ∃ c ∈ chunks, k ∈ chunkKeys cfg c ∧ isStandardColumn k = false) := by
  refine ⟨sortedMetaKeys cfg chunks, rfl, ?_, ?_⟩
  · unfold sortedMetaKeys
    split
    · exact strict_of_sorted_nodup (pairwise_sortStrings _) (nodup_sortStrings (nodup_collectKeys List.nodup_nil))
    · exact List.Pairwise.nil
  · intro k
    unfold sortedMetaKeys
    by_cases h : cfg.includeMetadata = true
    · simp only [h, if_true, mem_sortStrings, mem_collectKeys, List.not_mem_nil, false_or, true_and]
    · simp [h]

/-- the fixed prefix: id column, text column iff text is included, then the eight positional columns -/
theorem fixed_prefix (cfg : Config) :
    fixedColumns cfg =
      cfg.chunkIDColumnName :: ((if cfg.includeText then [cfg.textColumnName] else []) ++
        [kChunkIndex, kDocumentTitle, kPageStart, kPageEnd, kSectionTitle, kHasTable, kHasList, kHasImage]) := by
  simp [fixedColumns]

/-- Cell `j` of a row is the value of column `j` for that chunk; a row has exactly one cell per column. -/
theorem row_matches_columns (marshal : MapSV → Str) (cfg : Config) (ec : Exported) (cols : List Str) :
    (chunkToCSVRow marshal cfg ec cols).length = cols.length ∧
    ∀ j (h : j < cols.length),
      (chunkToCSVRow marshal cfg ec cols)[j]? = some (getColumnValue marshal cfg ec cols[j]) := by
  rw [chunkToCSVRow_eq_map]
  refine ⟨List.length_map _, ?_⟩
  intro j h
  simp [List.getElem?_map, List.getElem?_eq_getElem h]

/-- The records handed to the CSV writer are: the header (iff requested), then exactly one row per
chunk, in collection order, every row built from the SAME column list as the header.  The records
handed to the JSON encoder (JSON / JSON Lines) are one per chunk in order as well. -/
theorem rows_one_per_chunk_in_order (marshal : MapSV → Str) (cfg : Config) (chunks : List Chunk) :
    exportCSVRecords marshal cfg chunks =
      (if cfg.includeHeader then [collectCSVColumns cfg chunks] else []) ++
        chunks.map (fun c => (collectCSVColumns cfg chunks).map
          (getColumnValue marshal cfg (prepareChunkForExport cfg c))) ∧
    exportRecords cfg chunks = chunks.map (prepareChunkForExport cfg) := by
  refine ⟨?_, exportRecords_eq_map cfg chunks⟩
  unfold exportCSVRecords
  simp only [csvDataRows_eq_map, chunkToCSVRow_eq_map]

/-- data row `i` belongs to chunk `i` (index form of the previous theorem) -/
theorem data_row_index (marshal : MapSV → Str) (cfg : Config) (chunks : List Chunk) (cols : List Str)
    (i : Nat) (h : i < chunks.length) :
    (csvDataRows marshal cfg cols chunks).length = chunks.length ∧
    (csvDataRows marshal cfg cols chunks)[i]? =
      some (cols.map (getColumnValue marshal cfg (prepareChunkForExport cfg chunks[i]))) := by
  rw [csvDataRows_eq_map]
  refine ⟨List.length_map _, ?_⟩
  simp [List.getElem?_map, List.getElem?_eq_getElem h, chunkToCSVRow_eq_map]

/-- id and text of the exported record are the chunk's (text only when `IncludeText`), the
positional fields are the chunk's, and the metadata map is the filtered `chunkMetadataToMap`. -/
theorem record_fields (cfg : Config) (c : Chunk) :
    (prepareChunkForExport cfg c).id = c.id ∧
    (cfg.includeText = true → (prepareChunkForExport cfg c).text = c.text) ∧
    (prepareChunkForExport cfg c).documentTitle = c.md.documentTitle ∧
    (prepareChunkForExport cfg c).sectionTitle = c.md.sectionTitle ∧
    (prepareChunkForExport cfg c).sectionPath = c.md.sectionPath ∧
    (prepareChunkForExport cfg c).chunkIndex = c.md.chunkIndex ∧
    (prepareChunkForExport cfg c).pageStart = c.md.pageStart ∧
    (prepareChunkForExport cfg c).pageEnd = c.md.pageEnd ∧
    (cfg.includeMetadata = true →
      (prepareChunkForExport cfg c).metadata = some (filterMetadata cfg (chunkMetadataToMap c.md))) := by
  refine ⟨rfl, ?_, rfl, rfl, rfl, rfl, rfl, rfl, ?_⟩
  · intro h; simp [prepareChunkForExport, h]
  · intro h; simp [prepareChunkForExport, h]

/-- the id cell and the text cell of a row carry the chunk's id and text verbatim
(for column names that do not collide) -/
theorem id_text_cells (marshal : MapSV → Str) (cfg : Config) (c : Chunk)
    (hne : cfg.textColumnName ≠ cfg.chunkIDColumnName) (ht : cfg.includeText = true) :
    getColumnValue marshal cfg (prepareChunkForExport cfg c) cfg.chunkIDColumnName = c.id ∧
    getColumnValue marshal cfg (prepareChunkForExport cfg c) cfg.textColumnName = c.text := by
  simp [getColumnValue, prepareChunkForExport, hne, ht]

example : ({} : Config).textColumnName ≠ ({} : Config).chunkIDColumnName ∧ ({} : Config).includeText = true := by
  decide

/-- a `meta_<key>` cell is the formatted metadata value of `<key>`, or empty when the chunk has
no such key (hypothesis: the configured id/text column names are not themselves `meta_<key>`) -/
theorem meta_cell_value (marshal : MapSV → Str) (cfg : Config) (ec : Exported) (key : Str)
    (h1 : kMeta ++ key ≠ cfg.chunkIDColumnName) (h2 : kMeta ++ key ≠ cfg.textColumnName) :
    getColumnValue marshal cfg ec (kMeta ++ key) =
      match ec.metadata with
      | some md => (match mapLookup md key with
                    | some v => formatValue marshal v
                    | none => [])
      | none => [] := by
  have hs : stripMeta (kMeta ++ key) = some key := by
    simp [stripMeta, kMeta]
  have hk : ∀ s : Str, s.take 5 ≠ kMeta → kMeta ++ key ≠ s := by
    intro s h e
    subst e
    simp [kMeta] at h
  unfold getColumnValue
  simp only [h1, h2, if_false, hs]
  have e3 := hk kChunkIndex (by decide)
  have e4 := hk kDocumentTitle (by decide)
  have e5 := hk kPageStart (by decide)
  have e6 := hk kPageEnd (by decide)
  have e7 := hk kSectionTitle (by decide)
  have e8 := hk kHasTable (by decide)
  have e9 := hk kHasList (by decide)
  have e10 := hk kHasImage (by decide)
  have e11 := hk kEmbeddings (by decide)
  simp only [e3, e4, e5, e6, e7, e8, e9, e10, e11, if_false]
  rfl

example : kMeta ++ kLevel ≠ ({} : Config).chunkIDColumnName ∧ kMeta ++ kLevel ≠ ({} : Config).textColumnName := by
  decide

/-! ## batching and streaming -/

/-- For every batch size ≥ 1 and every collection: the batches concatenate to the collection
(nothing lost, duplicated or reordered), none is empty, none exceeds the size, all but possibly
the last have exactly `size` chunks, and the bookkeeping fields are right
(`StartIndex = BatchNumber·size`, `EndIndex = StartIndex + ChunkCount`, `items = chunks[Start:End]`). -/
theorem batches_partition {α : Type} (size : Nat) (hs : 1 ≤ size) (chunks : List α) :
    ∃ bs, batchExport size chunks = some bs ∧
      bs.flatMap (·.items) = chunks ∧
      ∀ b ∈ bs, 1 ≤ b.items.length ∧ b.items.length ≤ size ∧ b.chunkCount = b.items.length ∧
        b.startIndex = b.batchNumber * size ∧ b.endIndex = b.startIndex + b.chunkCount ∧
        b.items = (chunks.drop b.startIndex).take b.chunkCount ∧
        (b.endIndex < chunks.length → b.chunkCount = size) := by
  have hs' : 0 < size := hs
  refine ⟨batchLoop size hs' chunks 0, by simp [batchExport, hs'], ?_, ?_⟩
  · simpa using batchLoop_items size hs' chunks 0
  · intro b hb
    obtain ⟨h1, h2, h3, h4, h5, h6, _, h8⟩ := batchLoop_sizes size hs' chunks 0 b hb
    exact ⟨h1, h2, h3, by simpa using h5, h4, h6, h8⟩

example : (batchExport 2 [1, 2, 3, 4, 5]).map (·.map (·.items)) = some [[1, 2], [3, 4], [5]] := by
  simp only [batchExport, Nat.zero_lt_two, dite_true, Option.map_some]
  rw [batchLoop.eq_1]; rw [batchLoop.eq_1]; rw [batchLoop.eq_1]; rw [batchLoop.eq_1]; simp

/-- batch size 0 is refused (since fix e7cdf1b with an error; before it the call panicked — `C14IO.batch_all_sizes`
covers every `int` size); the model says so -/
theorem batch_size_zero {α : Type} (chunks : List α) : batchExport 0 chunks = none := by
  simp [batchExport]

/-- Streaming: writing the chunks one by one to a JSON Lines / JSON stream yields exactly one
record per chunk, in order, each the same record the batch exporter would produce; for CSV/TSV
the first write fails (nothing is silently dropped). -/
theorem stream_once (cfg : Config) (chunks : List Chunk) :
    (cfg.format = .jsonl ∨ cfg.format = .json →
      streamAll cfg chunks [] = some (exportRecords cfg chunks)) ∧
    (cfg.format ≠ .jsonl → cfg.format ≠ .json → chunks ≠ [] → streamAll cfg chunks [] = none) := by
  constructor
  · intro hf
    have key : ∀ (cs : List Chunk) (acc : List Exported),
        streamAll cfg cs acc = some (acc ++ cs.map (prepareChunkForExport cfg)) := by
      intro cs
      induction cs with
      | nil => intro acc; simp [streamAll]
      | cons c rest ih =>
        intro acc
        have hw : writeChunk cfg acc c = some (acc ++ [prepareChunkForExport cfg c]) := by
          unfold writeChunk
          rcases hf with h | h <;> simp [h]
        simp [streamAll, hw, ih]
    rw [key, exportRecords_eq_map]; simp
  · intro h1 h2 hne
    cases chunks with
    | nil => exact absurd rfl hne
    | cons c rest =>
      have hw : writeChunk cfg [] c = none := by
        unfold writeChunk
        cases hfm : cfg.format <;> simp_all
      simp [streamAll, hw]

/-! ## filters -/

/-- Every filter method returns exactly `List.filter` of its predicate: the chunks satisfying it,
all of them, in collection order. -/
theorem filter_is_filter (env : StrEnv) (p : Chunk → Bool) (op : FilterOp) (cs : List Chunk) :
    filterC p cs = cs.filter p ∧ applyOp env op cs = cs.filter (opPred env op) :=
  ⟨filterC_eq p cs, filterC_eq _ cs⟩

/-- A chain of filters is the filter of the conjunction of their predicates. -/
theorem filter_chain_is_conjunction (env : StrEnv) (ops : List FilterOp) (cs : List Chunk) :
    applyChain env ops cs = cs.filter (fun c => ops.all (fun op => opPred env op c)) := by
  induction ops generalizing cs with
  | nil => simp only [applyChain, List.all_nil]; exact (List.filter_eq_self.mpr (by simp)).symm
  | cons op rest ih =>
    simp only [applyChain, ih, applyOp, filterC_eq, List.filter_filter, List.all_cons]
    congr 1
    funext c
    exact Bool.and_comm _ _

/-- a filtered collection is a subsequence of the original (order preserved, no chunk invented) -/
theorem filter_order_preserved (env : StrEnv) (ops : List FilterOp) (cs : List Chunk) :
    (applyChain env ops cs).Sublist cs := by
  rw [filter_chain_is_conjunction]
  exact List.filter_sublist

/-- what each predicate means, in terms of the chunk's metadata -/
theorem filter_predicates_spec (env : StrEnv) (c : Chunk) :
    (∀ t, opPred env (.section t) c = true ↔ (c.md.sectionTitle = t ∨ t ∈ c.md.sectionPath)) ∧
    (∀ p, opPred env (.page p) c = true ↔ (c.md.pageStart ≤ p ∧ p ≤ c.md.pageEnd)) ∧
    (∀ s e, opPred env (.pageRange s e) c = true ↔ (s ≤ c.md.pageEnd ∧ c.md.pageStart ≤ e)) ∧
    (∀ t, opPred env (.elementType t) c = true ↔ ∃ et ∈ c.md.elementTypes, env.eqFold et t = true) ∧
    (opPred env .tables c = c.md.hasTable) ∧ (opPred env .lists c = c.md.hasList) ∧
    (opPred env .images c = c.md.hasImage) ∧
    (∀ n, opPred env (.minTokens n) c = true ↔ n ≤ c.md.estimatedTokens) ∧
    (∀ n, opPred env (.maxTokens n) c = true ↔ c.md.estimatedTokens ≤ n) ∧
    (∀ kw, opPred env (.search kw) c = true ↔ ∃ u v, env.toLower c.text = u ++ env.toLower kw ++ v) := by
  refine ⟨?_, ?_, ?_, ?_, rfl, rfl, rfl, ?_, ?_, ?_⟩
  · intro t
    simp only [opPred, isInSection]
    by_cases h : c.md.sectionTitle = t
    · simp [h]
    · simp [h, pathHas_iff]
  · intro p; simp [opPred, isOnPage]
  · intro s e; simp [opPred]
  · intro t; simp [opPred, containsElementType_iff]
  · intro n; simp [opPred]
  · intro n; simp [opPred]
  · intro kw; simp [opPred, containsB_iff]

/-! ## the assumed `encoding/csv` contract -/

/-- ASSUMED STDLIB CONTRACT (not tabula code): what `csv.Writer` (LF line ends, Go's quoting rule
plus ANY extra set of fields it may choose to quote) writes for a list of non-empty records is read
back to exactly those records by a strict RFC 4180 reader that keeps CR, LF, quotes and delimiters
inside quoted fields verbatim — for all field contents (any bytes) and every valid one-byte
delimiter, in particular `,` and TAB. -/
theorem csv_roundtrip (extra : Str → Bool) (d : Nat) (hd : validDelim d) (rows : List (List Str))
    (hrows : ∀ r ∈ rows, r ≠ []) :
    csvRead d (csvWrite extra d rows) = some rows := by
  unfold csvRead
  rw [steps_rows extra d hd rows hrows []]
  simp [finish]

theorem csv_roundtrip_comma (rows : List (List Str)) (hrows : ∀ r ∈ rows, r ≠ []) :
    csvRead 44 (csvWrite goExtra 44 rows) = some rows :=
  csv_roundtrip goExtra 44 (by decide) rows hrows

theorem csv_roundtrip_tab (rows : List (List Str)) (hrows : ∀ r ∈ rows, r ≠ []) :
    csvRead 9 (csvWrite goExtra 9 rows) = some rows :=
  csv_roundtrip goExtra 9 (by decide) rows hrows

example : csvRead 9 (csvWrite goExtra 9 [[[97, 9, 98], [34, 13, 10, 0], []], [[32]]]) =
    some [[[97, 9, 98], [34, 13, 10, 0], []], [[32]]] := by decide

/-- the record `[]` (no field at all) is the one thing the format cannot carry: it is written as an
empty line, which reads back as one empty field — hence the hypothesis of `csv_roundtrip`.
Export rows never are empty (`collectCSVColumns_ne_nil`). -/
theorem csv_empty_record_counterexample : csvRead 44 (csvWrite goExtra 44 [[]]) ≠ some [[]] := by decide

/-- End to end for CSV and TSV under the assumed writer: with a valid delimiter the export text
parses back to header (iff requested) + one row per chunk in order, every cell being the value of
its column for its chunk — whatever bytes ids, texts, titles and section names contain. -/
theorem export_csv_parses_back (marshal : MapSV → Str) (cfg : Config) (chunks : List Chunk)
    (hd : validDelim (delimiter cfg)) :
    ∃ text, exportCSV marshal cfg chunks = some text ∧
      csvRead (delimiter cfg) text = some
        ((if cfg.includeHeader then [collectCSVColumns cfg chunks] else []) ++
          chunks.map (fun c => (collectCSVColumns cfg chunks).map
            (getColumnValue marshal cfg (prepareChunkForExport cfg c)))) := by
  have hrec := (rows_one_per_chunk_in_order marshal cfg chunks).1
  have hne : ∀ r ∈ exportCSVRecords marshal cfg chunks, r ≠ [] := by
    intro r hr
    rw [hrec] at hr
    rcases List.mem_append.mp hr with h | h
    · split at h
      · simp only [List.mem_singleton] at h
        rw [h]; exact collectCSVColumns_ne_nil cfg chunks
      · simp at h
    · obtain ⟨c, _, hc⟩ := List.mem_map.mp h
      rw [← hc]
      intro e
      exact collectCSVColumns_ne_nil cfg chunks (List.map_eq_nil_iff.mp e)
  unfold exportCSV
  by_cases h0 : exportCSVRecords marshal cfg chunks = []
  · refine ⟨[], by simp [h0], ?_⟩
    rw [← hrec, h0]
    simp [csvRead, steps, finish]
  · refine ⟨csvWrite goExtra (delimiter cfg) (exportCSVRecords marshal cfg chunks), by simp [h0, hd], ?_⟩
    rw [csv_roundtrip goExtra _ hd _ hne, hrec]

/-- the TSV format is tab-separated whatever `CSVDelimiter` says, and an unset delimiter means comma -/
theorem delimiter_of_format (cfg : Config) :
    (cfg.format = .tsv → delimiter cfg = 9) ∧
    (cfg.format ≠ .tsv → cfg.csvDelimiter = 0 → delimiter cfg = 44) ∧
    (cfg.format ≠ .tsv → cfg.csvDelimiter ≠ 0 → delimiter cfg = cfg.csvDelimiter) := by
  refine ⟨?_, ?_, ?_⟩ <;> intros <;> simp_all [delimiter]

example : validDelim (delimiter { format := .tsv }) ∧ validDelim (delimiter { format := .csv }) := by decide

/-! ## cell formats read back -/

/-- integer cells (`%d`) read back to the same integer, for every Go int -/
theorem int_cell_roundtrip (marshal : MapSV → Str) (i : Int) :
    readIntCell (formatValue marshal (.int i)) = i ∧ readIntCell (decInt i) = i :=
  ⟨readIntCell_decInt i, readIntCell_decInt i⟩

/-- boolean cells read back -/
theorem bool_cell_roundtrip (marshal : MapSV → Str) (b : Bool) :
    readBoolCell (formatValue marshal (.bool b)) = some b ∧ readBoolCell (boolStr b) = some b := by
  cases b <;> exact ⟨by simp [formatValue, readBoolCell, kTrue, kFalse], by decide⟩

/-- string cells are the string itself -/
theorem string_cell_verbatim (marshal : MapSV → Str) (s : Str) : formatValue marshal (.str s) = s := rfl

/-
FULL STATEMENT (what the property needs for list-valued metadata — section_path, child_ids,
element_types — in CSV/TSV):
    ∀ l ≠ [], readListCell (formatValue marshal (.strs l)) = some l
It is FALSE for the code as it exists (`"[" + strings.Join(v, ",") + "]"` does not escape commas):
see `list_cell_counterexample`.  Recorded as finding C14/csv-field-meta-list, C14/tsv-field-meta-list.
-/

/-- PARTIAL: a list cell reads back when no element contains a comma. -/
theorem list_cell_roundtrip_partial (marshal : MapSV → Str) (l : List Str) (hne : l ≠ [])
    (h : ∀ s ∈ l, 44 ∉ s) :
    readListCell (formatValue marshal (.strs l)) = some l := by
  simp only [formatValue, readListCell, List.getLast?_append, List.getLast?_singleton,
    Option.some_or, if_true, List.dropLast_concat]
  rw [splitAcc_joinComma l hne h]

example : ([[97, 32, 98], [99]] : List Str) ≠ [] ∧ ∀ s ∈ ([[97, 32, 98], [99]] : List Str), 44 ∉ s := by decide

/-- COUNTEREXAMPLE (pinned code): section path `["a,b","c"]` and `["a","b,c"]` are written as the
same cell `[a,b,c]`, so the cell cannot be read back to the chunk's value. -/
theorem list_cell_counterexample (marshal : MapSV → Str) :
    formatValue marshal (.strs [[97, 44, 98], [99]]) = formatValue marshal (.strs [[97], [98, 44, 99]]) ∧
    readListCell (formatValue marshal (.strs [[97, 44, 98], [99]])) ≠ some [[97, 44, 98], [99]] := by
  constructor
  · rfl
  · simp [formatValue, readListCell, joinComma, splitAcc]

/-! ## flattening -/

/-- `chunkMetadataToMap` never produces nested maps and its keys are distinct, so
`flattenMetadata` returns it unchanged: the FlattenMetadata switch cannot change, drop or
rename any exported metadata value (with the default "all fields" setting the exported record
and the CSV key set are literally the same with and without it). -/
theorem flatten_is_noop (cfg : Config) (c : Chunk) (hf : cfg.metadataFields = none) :
    flattenMetadata (chunkMetadataToMap c.md) [] = chunkMetadataToMap c.md ∧
    filterMetadata cfg (chunkMetadataToMap c.md) = chunkMetadataToMap c.md ∧
    chunkKeys cfg c = mapKeys (chunkMetadataToMap c.md) := by
  have h := flatten_chunk_metadata c.md
  refine ⟨h, ?_, ?_⟩
  · unfold filterMetadata
    rw [hf]
    by_cases hfl : cfg.flattenMetadata = true <;> simp [hfl, h]
  · unfold chunkKeys filterMetadata
    rw [hf]
    by_cases hfl : cfg.flattenMetadata = true <;> simp [hfl, h]

example : ({} : Config).metadataFields = none := rfl

end Tabula.C14
