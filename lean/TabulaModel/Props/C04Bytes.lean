import TabulaModel.Lemmas.XrefFile
import TabulaModel.Lemmas.XrefClassic
import TabulaModel.Lemmas.PdfParse
import TabulaModel.Lemmas.XrefFind
import TabulaModel.Lemmas.XrefChain
import TabulaModel.Lemmas.XrefStreamSec
import TabulaModel.Lemmas.XrefHeader
import TabulaModel.Lemmas.XrefNest
/-!
# C04, byte level — the cross-reference sections are read back exactly as written

Theorems about `Model/XrefFile.lean` (the byte-level model of core/xref.go, reader/reader.go,
`ParseIndirectObject`): whatever a conforming writer lays out — a classic table, the binary
records of a cross-reference stream under any `/W` and `/Index`, `startxref` — is reconstructed
exactly; chained by `/Prev`, the sections merge to the newest entry per object number.
-/
namespace Tabula.C04B
open Tabula.XrefFile Tabula.XrefBytes Tabula.Pdf Tabula.Reader

/-- **stream_entry_roundtrip** (the int64-faithful form of `C04.xref_stream_entry_roundtrip`):
a binary entry written with widths `/W [w0 w1 w2]`, each at most 8 bytes, fields fitting the
widths and below 2^63, `w0 = 0` only for in-use entries, is read back as written whatever
follows it. -/
theorem stream_entry_roundtrip (k : Kind) (f1 f2 w0 w1 w2 : Nat) (rest : List Nat)
    (h0 : w0 ≤ 8) (h1 : w1 ≤ 8) (h2 : w2 ≤ 8) (hf1 : f1 < 256 ^ w1) (hf2 : f2 < 256 ^ w2)
    (hb1 : f1 < 9223372036854775808) (hb2 : f2 < 9223372036854775808)
    (hk : 0 < w0 ∨ k = .inUse) :
    streamEntry (encodeStreamEntry k f1 f2 w0 w1 w2 ++ rest) w0 w1 w2 =
      some { kind := k, f1 := (f1 : Int), f2 := (f2 : Int) } :=
  streamEntry_encode k f1 f2 w0 w1 w2 rest h0 h1 h2 hf1 hf2 hb1 hb2 hk

example : (256 : Nat) ^ 3 > 70000 ∧ (0 < 1 ∨ Kind.compressed = Kind.inUse) := by decide

/-- what `readBigEndianInt` does with an 8-byte field whose top bit is set: the int64 wraps
(an offset of 2^63 reads as -2^63) — why the round trip is stated below 2^63 -/
theorem stream_entry_wraps_at_2_63 :
    streamEntry [1, 128, 0, 0, 0, 0, 0, 0, 0, 0] 1 8 1 =
      some { kind := .inUse, f1 := -9223372036854775808, f2 := 0 } := by decide

/-- **xref_stream_body_roundtrip**: the decoded data of a cross-reference stream whose
dictionary carries `/W [w0 w1 w2]` (any widths up to 8, not all zero), `/Index` listing any
number of subsections (first number, count) and any `/Size`, the records written one after the
other in subsection order — possibly followed by spare bytes — yields exactly the entries
authored, numbered `first, first+1, …` within each subsection, in that order. -/
theorem xref_stream_body_roundtrip (kv : Dict) (w0 w1 w2 : Nat) (subs : List Sub) (size : Int)
    (extra : List Nat)
    (hW : dget kv kW = some (.arr [.int w0, .int w1, .int w2]))
    (hS : dget kv kSize = some (.int size))
    (hI : dget kv kIndex = some (.arr (indexObjs subs)))
    (h0 : w0 ≤ 8) (h1 : w1 ≤ 8) (h2 : w2 ≤ 8) (hpos : 0 < w0 + w1 + w2)
    (hok : ∀ s ∈ subs, ∀ e ∈ s.2, e.Ok w0 w1 w2)
    (hb : ∀ s ∈ subs, s.1 + s.2.length < 9223372036854775808) :
    xrefStreamBody kv (encodeSubs w0 w1 w2 subs ++ extra) = some (sectionOf subs) := by
  unfold xrefStreamBody
  rw [hS, hI, hW]
  simp only [indexObjs, intsOf_map_int]
  have hw : ¬ ((w0 : Int) < 0 ∨ (w0 : Int) > 8 ∨ (w1 : Int) < 0 ∨ (w1 : Int) > 8 ∨ (w2 : Int) < 0 ∨ (w2 : Int) > 8) := by
    omega
  have hz : ¬ (w0 + w1 + w2 = 0) := by omega
  have hev : ¬ ((indexInts subs).length % 2 ≠ 0) := by rw [indexInts_length]; omega
  simp only [hw, if_false, Int.toNat_natCast, hz, hev]
  have havail : 0 + totalOf subs ≤ (encodeSubs w0 w1 w2 subs ++ extra).length / (w0 + w1 + w2) := by
    rw [Nat.le_div_iff_mul_le hpos, List.length_append, encodeSubs_length, Nat.zero_add, Nat.mul_comm]
    omega
  rw [indexPairs_of _ subs 0 havail]
  simp only
  have := streamRuns_encode w0 w1 w2 h0 h1 h2 subs hok hb extra []
  simpa using this

/-- the hypotheses are satisfiable: two subsections, a compressed and a free entry -/
example : xrefStreamBody
    [(kSize, .int 9), (kW, .arr [.int 1, .int 2, .int 1]), (kIndex, .arr [.int 3, .int 1, .int 7, .int 2])]
    [2, 0, 9, 4, 1, 1, 44, 0, 0, 0, 0, 1, 255]
      = some [(3, ⟨.compressed, 9, 4⟩), (7, ⟨.inUse, 300, 0⟩), (8, ⟨.free, 0, 1⟩)] := by decide

/-- … and without `/Index` the one subsection is `[0 Size]` -/
theorem xref_stream_body_default_index (kv : Dict) (w0 w1 w2 : Nat) (es : List SEnt)
    (extra : List Nat)
    (hW : dget kv kW = some (.arr [.int w0, .int w1, .int w2]))
    (hS : dget kv kSize = some (.int es.length))
    (hI : dget kv kIndex = none)
    (h0 : w0 ≤ 8) (h1 : w1 ≤ 8) (h2 : w2 ≤ 8) (hpos : 0 < w0 + w1 + w2)
    (hok : ∀ e ∈ es, e.Ok w0 w1 w2) (hb : es.length < 9223372036854775808) :
    xrefStreamBody kv (encodeRun w0 w1 w2 es ++ extra) = some (numberFrom 0 (es.map SEnt.raw)) := by
  unfold xrefStreamBody
  rw [hS, hI, hW]
  have hw : ¬ ((w0 : Int) < 0 ∨ (w0 : Int) > 8 ∨ (w1 : Int) < 0 ∨ (w1 : Int) > 8 ∨ (w2 : Int) < 0 ∨ (w2 : Int) > 8) := by
    omega
  have hz : ¬ (w0 + w1 + w2 = 0) := by omega
  simp only [hw, if_false, Int.toNat_natCast, hz]
  have hsub := indexPairs_of ((encodeRun w0 w1 w2 es ++ extra).length / (w0 + w1 + w2)) [(0, es)] 0 (by
    simp only [totalOf, Nat.zero_add, Nat.add_zero]
    rw [Nat.le_div_iff_mul_le hpos, List.length_append, encodeRun_length, Nat.mul_comm]
    omega)
  simp only [indexInts, pairsOf, List.map_cons, List.map_nil] at hsub
  simp only [List.length_cons, List.length_nil]
  have h2' : ¬ ((0 + 1 + 1) % 2 ≠ 0) := by decide
  simp only [h2', if_false]
  have e0 : ((0 : Nat) : Int) = 0 := rfl
  rw [e0] at hsub
  rw [hsub]
  simp only
  have := streamRuns_encode w0 w1 w2 h0 h1 h2 [(0, es)] (by
      intro s hs e he; simp at hs; subst hs; exact hok e he) (by
      intro s hs; simp at hs; subst hs; simp; omega) extra []
  simpa [encodeSubs, sectionOf, pairsOf] using this

/-! ### classic tables -/

theorem notLf_of_noEol (t k : List Nat) (hne : t ≠ []) (h : NoEol t) : NotLf (t ++ k) := by
  cases t with
  | nil => exact absurd rfl hne
  | cons c t => exact notLf_cons c _ (h c (by simp)).1

theorem dict_render_ne_nil (pre : Sep) (kvs : List SObj) (close : Sep) :
    (SObj.dict pre kvs close).render ≠ [] := by
  simp [SObj.render]

theorem dict_render_gtgt (pre : Sep) (kvs : List SObj) (close : Sep) :
    containsGtGt (SObj.dict pre kvs close).render = true := by
  have e : (SObj.dict pre kvs close).render =
      (renderSep pre ++ 60 :: 60 :: (renderList kvs ++ renderSep close)) ++ [62, 62] := by
    simp [SObj.render]
  rw [e]
  exact containsGtGt_append _ _ rfl

/-- **classic_section_roundtrip**: a classic cross-reference table laid out as ISO 32000-1
7.5.4 prescribes — the keyword `xref`, any number of subsections (header `first count`, then
`count` 20-byte entries with any of the three entry terminators SP LF, SP CR, CR LF), the
keyword `trailer`, the trailer dictionary in ANY legal spelling that stays on one line, with
any of the three end-of-line markers between the lines and anything behind it — is read back
by `parseTraditionalXRef` as exactly the entries authored, numbered `first, first+1, …` in
each subsection, in order, together with exactly the trailer dictionary authored. -/
theorem classic_section_roundtrip (eol : Eol) (ee : EntEol) (subs : List CSub)
    (pre : Sep) (kvs : List SObj) (close : Sep) (rest : List Nat)
    (hss : ∀ s ∈ subs, s.Ok)
    (hv : (SObj.dict pre kvs close).Valid false)
    (hd : (SObj.dict pre kvs close).value.depth ≤ maxNestingDepth)
    (hline : NoEol (SObj.dict pre kvs close).render)
    (hlen : (SObj.dict pre kvs close).render.length ≤ 65534)
    (hrest : eol.FollowOk rest) :
    parseClassic (linesOf (renderClassic eol ee subs (SObj.dict pre kvs close).render rest)).1
        (linesOf (renderClassic eol ee subs (SObj.dict pre kvs close).render rest)).2 =
      .ok (classicSection subs, valueKVs kvs) := by
  rw [linesOf_classic eol ee subs hss _ rest hline hlen
    (notLf_of_noEol _ _ (dict_render_ne_nil pre kvs close) hline) hrest]
  simp only [parseClassic, trimSpaceU_kwXref, if_true]
  rw [classicLoop_subs _ ee subs hss]
  have hp := core_roundtrip_spelled (SObj.dict pre kvs close) [.ws 10] hv
    (by intro u hu; simp at hu; subst hu; simp [SepUnit.Ok, isWs]) hd
  have e10 : renderSep [.ws 10] = [10] := by simp [renderSep, SepUnit.render]
  rw [e10] at hp
  rw [classicLoop_trailer _ _ (valueKVs kvs) _ _ _ _ (dict_render_gtgt pre kvs close) (by
    simpa [SObj.value] using hp)]
  simp

/-- … and so `ParseXRef(offset)` at the offset where such a table starts, whatever precedes it -/
theorem parseXRef_classic (ext : Reader.Ext) (before : List Nat) (eol : Eol) (ee : EntEol) (subs : List CSub)
    (pre : Sep) (kvs : List SObj) (close : Sep) (rest : List Nat)
    (hss : ∀ s ∈ subs, s.Ok)
    (hv : (SObj.dict pre kvs close).Valid false)
    (hd : (SObj.dict pre kvs close).value.depth ≤ maxNestingDepth)
    (hline : NoEol (SObj.dict pre kvs close).render)
    (hlen : (SObj.dict pre kvs close).render.length ≤ 65534)
    (hrest : eol.FollowOk rest) :
    parseXRef ext (before ++ renderClassic eol ee subs (SObj.dict pre kvs close).render rest) before.length =
      .ok (classicSection subs, valueKVs kvs) := by
  unfold parseXRef
  have hneg : ¬ ((before.length : Int) < 0) := by omega
  simp only [hneg, if_false, Int.toNat_natCast, List.drop_left]
  have hl := linesOf_classic eol ee subs hss _ rest hline hlen
    (notLf_of_noEol _ _ (dict_render_ne_nil pre kvs close) hline) hrest
  have hmain := classic_section_roundtrip eol ee subs pre kvs close rest hss hv hd hline hlen hrest
  rw [hl] at hmain ⊢
  simp only [trimSpaceU_kwXref, if_true]
  exact hmain

/-- the hypotheses are satisfiable: a two-entry table with the trailer `<</Prev 7>>` -/
example : (SObj.dict [] [SObj.name [] [.raw 80, .raw 114, .raw 101, .raw 118], SObj.int [.ws 32] false 0 7] []).Valid false ∧
    NoEol (SObj.dict [] [SObj.name [] [.raw 80, .raw 114, .raw 101, .raw 118], SObj.int [.ws 32] false 0 7] []).render ∧
    CSub.Ok (0, [⟨0, 65535, false⟩, ⟨17, 0, true⟩]) := by
  refine ⟨?_, ?_, ?_⟩
  · simp [SObj.Valid, ValidKVs, SepOk, SepUnit.Ok, SObj.isName, keysOf, SObj.keyBytes, NPiece.Ok, isWs, isDelim]
  · intro c hc
    simp [SObj.render, renderList, renderSep, SepUnit.render, renderName, printInt, NPiece.render, Tabula.A1.dec,
      Tabula.A1.decAux] at hc
    omega
  · refine ⟨by decide, ?_⟩
    intro e he
    simp at he
    rcases he with rfl | rfl <;> simp [CEnt.Ok]

/-! ### `startxref` -/
open Tabula.A1 in
/-- **find_xref_roundtrip**: a file that ends `startxref` EOL *offset* EOL *tail* — any of the
three end-of-line markers each time, any offset up to 2^63-1, a tail without the letter `s`
(`%%EOF` and its end of line), the keyword within the last 1024 bytes — whatever the bytes
before it (older `startxref` keywords included): `FindXRef` returns exactly the offset. -/
theorem find_xref_roundtrip (body tail : List Nat) (e1 e2 : Eol) (off : Nat) (hoff : off ≤ maxInt64)
    (hs : 115 ∉ tail)
    (hwin : (kwStartxref ++ (e1.bytes ++ (dec off ++ (e2.bytes ++ tail)))).length ≤ 1024) :
    findXRef (body ++ (kwStartxref ++ (e1.bytes ++ (dec off ++ (e2.bytes ++ tail))))) = .ok (off : Int) := by
  unfold findXRef
  obtain ⟨body', hb⟩ := drop_window body _ hwin
  simp only [hb]
  have hdig := dec_digits off
  obtain ⟨d, ds, hd, _, _⟩ := dec_head off
  have hne : dec off ≠ [] := by rw [hd]; simp
  have hno : 115 ∉ e1.bytes ++ (dec off ++ (e2.bytes ++ tail)) := by
    intro hm
    simp only [List.mem_append] at hm
    rcases hm with h | h | h | h
    · cases e1 <;> simp [Eol.bytes] at h
    · have := hdig 115 h; omega
    · cases e2 <;> simp [Eol.bytes] at h
    · exact hs h
  rw [afterLast_append _ _ _ _ (afterLast_keyword _ hno)]
  simp only [normEol]
  rw [normEolAux_eol, normEolAux_digits _ hdig hne, normEolAux_eol]
  simp only [List.dropWhile_cons, ne_eq, not_true_eq_false, decide_false, Bool.false_eq_true, if_false]
  rw [takeWhile_digits _ hdig, trimSpaceU_ascii _ (isDigits_ascii _ hdig), trimSpace_digits _ hdig,
    atoi_dec off hoff]

/-- the hypotheses are satisfiable: `startxref LF 416 CR LF %%EOF LF` -/
example : (115 : Nat) ∉ [37, 37, 69, 79, 70, 10] ∧
    (kwStartxref ++ (Eol.lf.bytes ++ (Tabula.A1.dec 416 ++ (Eol.crlf.bytes ++ [37, 37, 69, 79, 70, 10])))).length ≤ 1024 := by
  refine ⟨by decide, ?_⟩
  have := dec_length_le 416 2 (by decide)
  simp [kwStartxref, Eol.bytes]
  omega

/-! ### indirect objects and cross-reference stream objects -/

/-- **indirect_object_roundtrip**: `N G obj` value `endobj`, or `N G obj` dictionary `stream`
EOL data `endstream endobj` — any object numbers up to 2^63-1, any legal separators (white
space and comments), any legal spelling of any value nested at most 500 deep, LF or CR LF after
`stream`, any data bytes whose number is the dictionary's `/Length` (direct, or indirect and
answered by the resolver), white space before `endstream` — is read by `ParseIndirectObject`
as exactly (number, generation, value / dictionary and data). -/
theorem indirect_object_roundtrip (lenOf : Int → Option Int) (num gen : Nat) (s1 s2 : Sep) (b : Body)
    (rest : List Nat) (hn : num ≤ Tabula.A1.maxInt64) (hg : gen ≤ Tabula.A1.maxInt64)
    (h1 : SepOk s1) (h1n : s1 ≠ []) (h2 : SepOk s2) (h2n : s2 ≠ [])
    (hb : b.Ok lenOf) (hT : Terminated rest) :
    parseIndirect (renderIndirect num gen s1 s2 b rest) lenOf = some ((num : Int), (gen : Int), b.value) :=
  parseIndirect_render lenOf num gen s1 s2 b rest hn hg h1 h1n h2 h2n hb hT

/-- satisfiable: `7 0 obj <</Length 3>> stream LF abc LF endstream LF endobj` -/
example : (Body.stream [.ws 32] [SObj.name [] [.raw 76, .raw 101, .raw 110, .raw 103, .raw 116, .raw 104],
      SObj.int [.ws 32] false 0 3] [] [.ws 32] .lf [97, 98, 99] [10] [.ws 10]).Ok (fun _ => none) := by
  refine ⟨?_, ?_, ?_, ?_, ?_, ?_, ?_⟩
  · simp [SObj.Valid, ValidKVs, SepOk, SepUnit.Ok, SObj.isName, keysOf, SObj.keyBytes, NPiece.Ok, isWs, isDelim]
  · simp [SObj.value, Obj.depth, valueKVs, Obj.depthKV, maxNestingDepth]
  · intro u hu; simp at hu; subst hu; simp [SepUnit.Ok, isWs]
  · intro c hc; simp at hc; subst hc; decide
  · intro u hu; simp at hu; subst hu; simp [SepUnit.Ok, isWs]
  · simp
  · left; simp [valueKVs, SObj.keyBytes, SObj.value, dget, kLength, NPiece.byte]

/-- the text of a cross-reference stream object: `N G obj` EOL dictionary `stream` … -/
def xrefStreamObject (num gen : Nat) (eol : Eol) (pre : Sep) (kvs : List SObj) (close s3 : Sep)
    (seol : StreamEol) (raw w4 : List Nat) (s5 : Sep) (rest : List Nat) : List Nat :=
  renderIndirect num gen [.ws 32] [.ws 32] (.stream (eolUnits eol ++ pre) kvs close s3 seol raw w4 s5) rest

/-- **parseXRef_stream**: `ParseXRef(offset)` at the offset of a cross-reference stream object
laid out `N G obj` EOL `<< … >> stream` EOL data `endstream endobj`, whose dictionary (any legal
spelling) says `/Type /XRef`, a direct `/Length`, `/W`, `/Index`, `/Size`, and whose data
decodes (through whatever filters the dictionary names) to the records of the authored
subsections: the result is exactly the authored entries and the stream dictionary as trailer. -/
theorem parseXRef_stream (ext : Reader.Ext) (before : List Nat) (num gen : Nat) (eol : Eol) (pre : Sep)
    (kvs : List SObj) (close s3 : Sep) (seol : StreamEol) (raw w4 : List Nat) (s5 : Sep) (rest : List Nat)
    (w0 w1 w2 : Nat) (subs : List Sub) (size : Int) (extra : List Nat)
    (hn : num ≤ Tabula.A1.maxInt64) (hg : gen ≤ Tabula.A1.maxInt64)
    (hv : (SObj.dict (eolUnits eol ++ pre) kvs close).Valid true)
    (hd : (SObj.dict (eolUnits eol ++ pre) kvs close).value.depth ≤ maxNestingDepth)
    (h3 : SepOk s3) (h4 : AllWs w4) (h5 : SepOk s5) (h5n : s5 ≠ []) (hT : Terminated rest)
    (hcr : eol = .cr → pre = [])
    (hLen : dget (valueKVs kvs) kLength = some (.int raw.length))
    (hType : dget (valueKVs kvs) XrefFile.kType = some (.name kXRef))
    (hDec : Reader.decodeStream ext (valueKVs kvs) raw = some (encodeSubs w0 w1 w2 subs ++ extra))
    (hW : dget (valueKVs kvs) kW = some (.arr [.int w0, .int w1, .int w2]))
    (hS : dget (valueKVs kvs) kSize = some (.int size))
    (hI : dget (valueKVs kvs) kIndex = some (.arr (indexObjs subs)))
    (h0 : w0 ≤ 8) (h1 : w1 ≤ 8) (h2 : w2 ≤ 8) (hpos : 0 < w0 + w1 + w2)
    (hok : ∀ s ∈ subs, ∀ e ∈ s.2, e.Ok w0 w1 w2)
    (hb : ∀ s ∈ subs, s.1 + s.2.length < 9223372036854775808) :
    parseXRef ext (before ++ xrefStreamObject num gen eol pre kvs close s3 seol raw w4 s5 rest) before.length =
      .ok (sectionOf subs, valueKVs kvs) := by
  have hind := parseIndirect_render (fun _ => none) num gen [.ws 32] [.ws 32]
    (.stream (eolUnits eol ++ pre) kvs close s3 seol raw w4 s5) rest hn hg
    (by intro u hu; simp at hu; subst hu; simp [SepUnit.Ok, isWs]) (by simp)
    (by intro u hu; simp at hu; subst hu; simp [SepUnit.Ok, isWs]) (by simp)
    ⟨hv, hd, h3, h4, h5, h5n, Or.inl hLen⟩ hT
  -- the first line
  obtain ⟨X, hX, hfollow⟩ : ∃ X, xrefStreamObject num gen eol pre kvs close s3 seol raw w4 s5 rest =
      objLine num gen ++ (eol.bytes ++ X) ∧ eol.FollowOk X := by
    refine ⟨renderSep pre ++ 60 :: 60 :: (renderList kvs ++ (renderSep close ++ [62, 62])) ++
      (renderSep s3 ++ (kwStream ++ (seol.bytes ++ (raw ++ (w4 ++ (kwEndstream ++ (renderSep s5 ++ (kwEndobj ++ rest)))))))), ?_, ?_⟩
    · have e := renderSep_eolUnits eol
      have e2 : renderSep (eolUnits eol ++ pre) = eol.bytes ++ renderSep pre := by
        rw [← e]; simp only [renderSep, List.flatMap_append]
      have e32 : renderSep [SepUnit.ws 32] = [32] := rfl
      simp [xrefStreamObject, renderIndirect, Body.render, SObj.render, objLine, e2, e32]
    · intro hc t
      rw [hcr hc]
      simp [renderSep]
  unfold parseXRef
  have hneg : ¬ ((before.length : Int) < 0) := by omega
  simp only [hneg, if_false, Int.toNat_natCast, List.drop_left]
  have hl := linesOf_line (objLine num gen)
    (fun c hc => (objLine_word_or_space num gen c hc).2) (objLine_length num gen hn hg) eol X hfollow
  rw [hX, hl]
  simp only [trimSpaceU_objLine, objLine_ne_xref, if_false, objLine_fields]
  simp only [true_or, if_true]
  rw [← hX]
  unfold parseXRefStream
  unfold xrefStreamObject
  rw [hind]
  simp only [Body.value, hType, hDec]
  rw [xref_stream_body_roundtrip (valueKVs kvs) w0 w1 w2 subs size extra hW hS hI h0 h1 h2 hpos hok hb]
  simp

/-! ### the `/Prev` chain and the merge, on the bytes -/

theorem prevOf_absent_iff (kv : Dict) : prevOf kv = .absent ↔ dget kv kPrev = none := by
  unfold prevOf
  cases h : dget kv kPrev with
  | none => simp
  | some o => cases o <;> simp

/-- **load_chain_oldest_first**: when `startxref` names offset `start` and following `/Prev`
from there leads through sections at distinct offsets to one without `/Prev` — sections of
either kind, whatever else the file contains — `ParseAllXRefs` yields exactly those sections,
oldest first, each once, and `loadXRef` (what `reader.Open` keeps) is their merge in that
order. -/
theorem load_chain_oldest_first (ext : Reader.Ext) (file : List Nat) (start : Int)
    (path : List (Int × RawSection))
    (hfind : findXRef file = .ok start) (hc : ChainB ext file start path)
    (hnd : (path.map Prod.fst).Nodup) :
    allXRefs ext file = .ok (path.map Prod.snd).reverse ∧
      loadXRef ext file = .ok (path.map Prod.snd).reverse.flatten := by
  have hlen : path.length ≤ file.length := by
    have := length_le_of_range (path.map Prod.fst) file.length hnd hc.range
    simpa using this
  cases hc with
  | last off sec tr hp habs =>
    have hd := (prevOf_absent_iff tr).mp habs
    have hall : allXRefs ext file = .ok [sec] := by
      unfold allXRefs
      simp only [hfind, hp]
      rw [allXRefsLoop]
      simp only [habs]
    refine ⟨by simpa using hall, ?_⟩
    unfold loadXRef
    simp only [hfind, hp, hd]
    simp
  | step off sec tr p rest hp hprev hrest =>
    simp only [List.map_cons, List.nodup_cons] at hnd
    have hloop := allXRefsLoop_chain ext file p rest hrest (file.length + 1) [start] tr [sec] hprev
      (by simp at hlen; omega) hnd.2 (by
        intro x hx
        simp only [List.mem_singleton]
        intro e; subst e; exact hnd.1 hx)
    have hall : allXRefs ext file = .ok ((rest.map Prod.snd).reverse ++ [sec]) := by
      unfold allXRefs
      simp only [hfind, hp]
      exact hloop
    have hsome : ∃ o, dget tr kPrev = some o := by
      unfold prevOf at hprev
      cases h : dget tr kPrev with
      | none => rw [h] at hprev; simp at hprev
      | some o => exact ⟨o, rfl⟩
    obtain ⟨o, ho⟩ := hsome
    refine ⟨by simpa using hall, ?_⟩
    unfold loadXRef
    simp only [hfind, hp, ho, hall]
    simp

/-- **prev_chain_terminates_by_itself**: the bound in the model's loop for `ParseAllXRefs`
(file length + 1 rounds) is never what stops it — on every file, cyclic and self-referencing
`/Prev` included, a larger bound gives the same result: the walk ends because an offset is not
read twice and every readable offset lies inside the file. -/
theorem prev_chain_terminates_by_itself (ext : Reader.Ext) (file : List Nat) (start : Int)
    (sec : RawSection) (tr : Dict) (hp : parseXRef ext file start = .ok (sec, tr)) (k : Nat) :
    allXRefsLoop ext file (file.length + 1 + k) [start] tr [sec] =
      allXRefsLoop ext file (file.length + 1) [start] tr [sec] := by
  have hin := parseXRef_ok_range ext file start _ hp
  apply allXRefsLoop_fuel ext file _ _ [start] tr [sec] (by simp)
  · intro x hx; simp at hx; subst hx; exact hin
  · simp; omega
  · simp; omega

/-- **lookup_newest_bytes**: in the table `reader.Open` keeps for such a file, every object
number has the entry of the newest section (the one nearest to `startxref` along `/Prev`)
that mentions it; no entry iff no section mentions it. -/
theorem lookup_newest_bytes (ext : Reader.Ext) (file : List Nat) (start : Int)
    (path : List (Int × RawSection))
    (hfind : findXRef file = .ok start) (hc : ChainB ext file start path)
    (hnd : (path.map Prod.fst).Nodup) (n : Int) :
    ∃ x, loadXRef ext file = .ok x ∧ getLastI x n = newestI (path.map Prod.snd).reverse n :=
  ⟨_, (load_chain_oldest_first ext file start path hfind hc hnd).2, getLastI_flatten _ n⟩

/-- the newest section wins: an entry of the section `startxref` points at is the merged entry -/
theorem newest_section_wins (older : List RawSection) (newest : RawSection) (n : Int) (e : RawEntry)
    (h : getLastI newest n = some e) : newestI (older ++ [newest]) n = some e := by
  induction older with
  | nil => simp [newestI, h]
  | cons t ts ih => simp [newestI, ih]

/-- a chain of classic tables in a file: at `off` stands a table as in
`classic_section_roundtrip` whose trailer's `/Prev` is the offset of the next older one -/
inductive ClassicChain (file : List Nat) : Int → List (Int × List CSub) → Prop
  | last (before : List Nat) (eol : Eol) (ee : EntEol) (subs : List CSub)
      (pre : Sep) (kvs : List SObj) (close : Sep) (rest : List Nat) :
      file = before ++ renderClassic eol ee subs (SObj.dict pre kvs close).render rest →
      (∀ s ∈ subs, s.Ok) → (SObj.dict pre kvs close).Valid false →
      (SObj.dict pre kvs close).value.depth ≤ maxNestingDepth →
      NoEol (SObj.dict pre kvs close).render → (SObj.dict pre kvs close).render.length ≤ 65534 →
      eol.FollowOk rest → dget (valueKVs kvs) kPrev = none →
      ClassicChain file before.length [((before.length : Int), subs)]
  | step (before : List Nat) (eol : Eol) (ee : EntEol) (subs : List CSub)
      (pre : Sep) (kvs : List SObj) (close : Sep) (rest : List Nat) (p : Int)
      (older : List (Int × List CSub)) :
      file = before ++ renderClassic eol ee subs (SObj.dict pre kvs close).render rest →
      (∀ s ∈ subs, s.Ok) → (SObj.dict pre kvs close).Valid false →
      (SObj.dict pre kvs close).value.depth ≤ maxNestingDepth →
      NoEol (SObj.dict pre kvs close).render → (SObj.dict pre kvs close).render.length ≤ 65534 →
      eol.FollowOk rest → dget (valueKVs kvs) kPrev = some (.int p) →
      ClassicChain file p older →
      ClassicChain file before.length (((before.length : Int), subs) :: older)

theorem ClassicChain.toChainB {file : List Nat} {off : Int} {revs : List (Int × List CSub)}
    (ext : Reader.Ext) (h : ClassicChain file off revs) :
    ChainB ext file off (revs.map fun r => (r.1, classicSection r.2)) := by
  induction h with
  | last before eol ee subs pre kvs close rest hfile hss hv hd hl hlen hr hprev =>
    refine .last _ _ (valueKVs kvs) ?_ (by simp [prevOf, hprev])
    rw [hfile]
    exact parseXRef_classic ext before eol ee subs pre kvs close rest hss hv hd hl hlen hr
  | step before eol ee subs pre kvs close rest p older hfile hss hv hd hl hlen hr hprev _ ih =>
    refine .step _ _ (valueKVs kvs) p _ ?_ (by simp [prevOf, hprev]) ih
    rw [hfile]
    exact parseXRef_classic ext before eol ee subs pre kvs close rest hss hv hd hl hlen hr

/-- **classic_history_reconstructed** (end to end on the bytes, classic tables): a file that
ends with `startxref` *start* and in which, from offset *start*, classic tables stand chained
by `/Prev` at distinct offsets — any subsections, any of the legal end-of-line choices, any
legal one-line spelling of each trailer, anything between and around them — is opened with
exactly the table a reader of ISO 32000-1 expects: for every object number the entry authored
in the newest revision that mentions it. -/
theorem classic_history_reconstructed (ext : Reader.Ext) (file : List Nat) (start : Int)
    (revs : List (Int × List CSub))
    (hfind : findXRef file = .ok start) (hc : ClassicChain file start revs)
    (hnd : (revs.map Prod.fst).Nodup) (n : Int) :
    ∃ x, loadXRef ext file = .ok x ∧
      getLastI x n = newestI (revs.map fun r => classicSection r.2).reverse n := by
  have hb := hc.toChainB ext
  have hnd' : ((revs.map fun r => (r.1, classicSection r.2)).map Prod.fst).Nodup := by
    simpa [List.map_map, Function.comp_def] using hnd
  obtain ⟨x, hx, hl⟩ := lookup_newest_bytes ext file start _ hfind hb hnd' n
  refine ⟨x, hx, ?_⟩
  rw [hl]
  simp [List.map_map, Function.comp_def]

/-! ### revisions of either kind -/

/-- at offset `off` of `file` stands a cross-reference section, a classic table or a
cross-reference stream object, authored with the entries `sec` and the trailer dictionary `tr` -/
inductive SectionAt (ext : Reader.Ext) (file : List Nat) : Int → RawSection → Dict → Prop
  | classic (before : List Nat) (eol : Eol) (ee : EntEol) (subs : List CSub)
      (pre : Sep) (kvs : List SObj) (close : Sep) (rest : List Nat) :
      file = before ++ renderClassic eol ee subs (SObj.dict pre kvs close).render rest →
      (∀ s ∈ subs, s.Ok) → (SObj.dict pre kvs close).Valid false →
      (SObj.dict pre kvs close).value.depth ≤ maxNestingDepth →
      NoEol (SObj.dict pre kvs close).render → (SObj.dict pre kvs close).render.length ≤ 65534 →
      eol.FollowOk rest →
      SectionAt ext file before.length (classicSection subs) (valueKVs kvs)
  | stream (before : List Nat) (num gen : Nat) (eol : Eol) (pre : Sep)
      (kvs : List SObj) (close s3 : Sep) (seol : StreamEol) (raw w4 : List Nat) (s5 : Sep) (rest : List Nat)
      (w0 w1 w2 : Nat) (subs : List Sub) (size : Int) (extra : List Nat) :
      file = before ++ xrefStreamObject num gen eol pre kvs close s3 seol raw w4 s5 rest →
      num ≤ Tabula.A1.maxInt64 → gen ≤ Tabula.A1.maxInt64 →
      (SObj.dict (eolUnits eol ++ pre) kvs close).Valid true →
      (SObj.dict (eolUnits eol ++ pre) kvs close).value.depth ≤ maxNestingDepth →
      SepOk s3 → AllWs w4 → SepOk s5 → s5 ≠ [] → Terminated rest → (eol = .cr → pre = []) →
      dget (valueKVs kvs) kLength = some (.int raw.length) →
      dget (valueKVs kvs) XrefFile.kType = some (.name kXRef) →
      Reader.decodeStream ext (valueKVs kvs) raw = some (encodeSubs w0 w1 w2 subs ++ extra) →
      dget (valueKVs kvs) kW = some (.arr [.int w0, .int w1, .int w2]) →
      dget (valueKVs kvs) kSize = some (.int size) →
      dget (valueKVs kvs) kIndex = some (.arr (indexObjs subs)) →
      w0 ≤ 8 → w1 ≤ 8 → w2 ≤ 8 → 0 < w0 + w1 + w2 →
      (∀ s ∈ subs, ∀ e ∈ s.2, e.Ok w0 w1 w2) →
      (∀ s ∈ subs, s.1 + s.2.length < 9223372036854775808) →
      SectionAt ext file before.length (sectionOf subs) (valueKVs kvs)

/-- `ParseXRef` reads such a section exactly -/
theorem SectionAt.parse {ext : Reader.Ext} {file : List Nat} {off : Int} {sec : RawSection} {tr : Dict}
    (h : SectionAt ext file off sec tr) : parseXRef ext file off = .ok (sec, tr) := by
  cases h with
  | classic before eol ee subs pre kvs close rest hfile hss hv hd hl hlen hr =>
    rw [hfile]
    exact parseXRef_classic ext before eol ee subs pre kvs close rest hss hv hd hl hlen hr
  | stream before num gen eol pre kvs close s3 seol raw w4 s5 rest w0 w1 w2 subs size extra hfile hn hg hv hd
      h3 h4 h5 h5n hT hcr hLen hType hDec hW hS hI h0 h1 h2 hpos hok hb =>
    rw [hfile]
    exact parseXRef_stream ext before num gen eol pre kvs close s3 seol raw w4 s5 rest w0 w1 w2 subs size extra
      hn hg hv hd h3 h4 h5 h5n hT hcr hLen hType hDec hW hS hI h0 h1 h2 hpos hok hb

/-- the revisions of a file, newest first: sections of either kind chained by `/Prev` -/
inductive RevChain (ext : Reader.Ext) (file : List Nat) : Int → List (Int × RawSection) → Prop
  | last (off : Int) (sec : RawSection) (tr : Dict) :
      SectionAt ext file off sec tr → dget tr kPrev = none → RevChain ext file off [(off, sec)]
  | step (off : Int) (sec : RawSection) (tr : Dict) (p : Int) (older : List (Int × RawSection)) :
      SectionAt ext file off sec tr → dget tr kPrev = some (.int p) → RevChain ext file p older →
      RevChain ext file off ((off, sec) :: older)

theorem RevChain.toChainB {ext : Reader.Ext} {file : List Nat} {off : Int} {revs : List (Int × RawSection)}
    (h : RevChain ext file off revs) : ChainB ext file off revs := by
  induction h with
  | last off sec tr hs hp => exact .last off sec tr hs.parse (by simp [prevOf, hp])
  | step off sec tr p older hs hp _ ih => exact .step off sec tr p older hs.parse (by simp [prevOf, hp]) ih

/-- **history_reconstructed** (the property's first sentence, on the bytes, up to the merged
table): a file ending in `startxref` *start*, in which from offset *start* cross-reference
sections OF EITHER KIND stand chained by `/Prev` at distinct offsets — classic tables with any
subsections and end-of-line choices, cross-reference streams with any `/W`, `/Index` and filter
chain that decodes — whatever else the file contains, is opened by `reader.Open` with a table
in which every object number has exactly the entry authored in the newest revision that
mentions it, and none if no revision does. -/
theorem history_reconstructed (ext : Reader.Ext) (file : List Nat) (start : Int)
    (revs : List (Int × RawSection))
    (hfind : findXRef file = .ok start) (hc : RevChain ext file start revs)
    (hnd : (revs.map Prod.fst).Nodup) (n : Int) :
    ∃ x, loadXRef ext file = .ok x ∧ getLastI x n = newestI (revs.map Prod.snd).reverse n :=
  lookup_newest_bytes ext file start revs hfind hc.toChainB hnd n

theorem newestI_none_iff (ts : List RawSection) (n : Int) :
    newestI ts n = none ↔ ∀ t ∈ ts, getLastI t n = none := by
  induction ts with
  | nil => simp [newestI]
  | cons t ts ih =>
    simp only [newestI, List.mem_cons, forall_eq_or_imp]
    cases h1 : newestI ts n with
    | some e =>
      constructor
      · intro h; simp at h
      · intro h
        have := ih.mpr h.2
        rw [h1] at this; cases this
    | none =>
      have hall := ih.mp h1
      constructor
      · intro h; exact ⟨by simpa using h, hall⟩
      · intro h; simpa using h.1

/-! ### lookups on the bytes -/

/-- a layout that does not need the resolver: a plain value, or a stream with a direct `/Length` -/
def DirectBody (b : Body) : Prop := b.Ok (fun _ => none)

theorem DirectBody.ok {b : Body} (h : DirectBody b) (lenOf : Int → Option Int) : b.Ok lenOf := by
  cases b with
  | plain val s3 => exact h
  | stream pre kvs close s3 seol data w4 s5 =>
    obtain ⟨a1, a2, a3, a4, a5, a6, a7⟩ := h
    refine ⟨a1, a2, a3, a4, a5, a6, ?_⟩
    rcases a7 with h | ⟨n, g, _, hl⟩
    · exact Or.inl h
    · cases hl

/-- at offset `off` of `file` stands the indirect object `num` with body `b` -/
def ObjectAt (file : List Nat) (off : Int) (num : Nat) (b : Body) : Prop :=
  ∃ (before : List Nat) (gen : Nat) (s1 s2 : Sep) (rest : List Nat),
    file = before ++ renderIndirect num gen s1 s2 b rest ∧ (before.length : Int) = off ∧
    num ≤ Tabula.A1.maxInt64 ∧ gen ≤ Tabula.A1.maxInt64 ∧ SepOk s1 ∧ s1 ≠ [] ∧ SepOk s2 ∧ s2 ≠ [] ∧
    DirectBody b ∧ Terminated rest

theorem uncompressedAt_object (file : List Nat) (off : Int) (num : Nat) (b : Body) (lenOf : Int → Option Int)
    (h : ObjectAt file off num b) : uncompressedAt file (num : Int) off lenOf = some b.value := by
  obtain ⟨before, gen, s1, s2, rest, hfile, hoff, hn, hg, h1, h1n, h2, h2n, hb, hT⟩ := h
  unfold uncompressedAt
  have hneg : ¬ (off < 0) := by omega
  have hto : off.toNat = before.length := by omega
  simp only [hneg, if_false, hto, hfile, List.drop_left]
  rw [parseIndirect_render lenOf num gen s1 s2 b rest hn hg h1 h1n h2 h2n (hb.ok lenOf) hT]
  simp

/-- **lookup_missing_or_free_is_error**: whatever the file contains, an object number without
entry in the table, or whose entry is free, is an error (at any nesting of lookups) -/
theorem lookup_missing_or_free_is_error (ext : Reader.Ext) (file : List Nat) (x : RawSection) (fuel : Nat)
    (loading : List Int) (n : Int)
    (h : getLastI x n = none ∨ ∃ e, getLastI x n = some e ∧ e.kind = .free) :
    getObjectB ext file x fuel loading n = none := by
  cases fuel with
  | zero => rfl
  | succ fuel =>
    rcases h with h | ⟨e, h, he⟩
    · simp [getObjectB, h]
    · simp [getObjectB, h, he]

/-- an in-use entry leads to the object standing at its offset — at any nesting of lookups the
limit allows: fewer than `maxNestedLoads` = 16 objects already being loaded, the object not among
them (since 129dd3d; before, any nesting) -/
theorem lookup_in_use_at (ext : Reader.Ext) (file : List Nat) (x : RawSection) (fuel : Nat) (loading : List Int)
    (num : Nat) (e : RawEntry) (b : Body)
    (h : getLastI x (num : Int) = some e) (he : e.kind = .inUse) (hobj : ObjectAt file e.f1 num b)
    (hnot : (num : Int) ∉ loading) (hlim : loading.length < maxNestedLoads) :
    getObjectB ext file x (fuel + 1) loading (num : Int) = some b.value := by
  have hc : loading.contains (num : Int) = false := by simpa using hnot
  have hl : ¬ (loading.length ≥ maxNestedLoads) := by omega
  simp only [getObjectB, h, he, hc, hl]
  simp [uncompressedAt_object file e.f1 num b _ hobj]

/-- an in-use entry leads to the object standing at its offset (verbatim as before 129dd3d: a
lookup made from outside starts with nothing being loaded) -/
theorem lookup_in_use (ext : Reader.Ext) (file : List Nat) (x : RawSection) (fuel : Nat) (num : Nat)
    (e : RawEntry) (b : Body)
    (h : getLastI x (num : Int) = some e) (he : e.kind = .inUse) (hobj : ObjectAt file e.f1 num b) :
    getObjectB ext file x (fuel + 1) [] (num : Int) = some b.value :=
  lookup_in_use_at ext file x fuel [] num e b h he hobj (by simp) (by simp [maxNestedLoads])

/-- a compressed entry leads through the object stream it names: the stream object is read at
its own entry's offset, decoded (`Reader.mkObjStm`: `/N`, `/First`, header pairs), the member
is cut out by index and must carry the number asked for — at any nesting of lookups the limit
allows (fewer than 16 objects being loaded, `n` not among them) -/
theorem lookup_compressed_at (ext : Reader.Ext) (file : List Nat) (x : RawSection) (fuel : Nat)
    (loading : List Int) (n : Int)
    (e se : RawEntry) (stm : Nat) (pre : Sep) (kvs : List SObj) (close s3 : Sep) (seol : StreamEol)
    (data w4 : List Nat) (s5 : Sep) (os : Reader.ObjStm) (o : Obj)
    (h : getLastI x n = some e) (he : e.kind = .compressed) (hstm : e.f1 = (stm : Int))
    (hs : getLastI x (stm : Int) = some se) (hse : se.kind ≠ .compressed)
    (hobj : ObjectAt file se.f1 stm (.stream pre kvs close s3 seol data w4 s5))
    (hdec : Reader.mkObjStm ext (valueKVs kvs) data = .ok os)
    (hmem : osSpec (.ok os) e.f2 = some (n, o))
    (hnot : n ∉ loading) (hlim : loading.length < maxNestedLoads) :
    getObjectB ext file x (fuel + 1) loading n = some (.obj o) := by
  have hk1 : ¬ (e.kind = .free) := by rw [he]; decide
  have hk2 : ¬ (e.kind = .inUse) := by rw [he]; decide
  have hk3 : ¬ (se.kind = .compressed) := hse
  have hc : loading.contains n = false := by simpa using hnot
  have hl : ¬ (loading.length ≥ maxNestedLoads) := by omega
  simp only [getObjectB, h, hk1, hk2, if_false, hstm, hs, hk3, hc, hl]
  simp only [Bool.false_eq_true, if_false]
  rw [uncompressedAt_object file se.f1 stm _ _ hobj]
  simp only [Body.value, hdec]
  unfold osSpec at hmem
  unfold memberAtI
  by_cases hneg : e.f2 < 0
  · simp [hneg] at hmem
  · simp only [hneg, if_false] at hmem ⊢
    cases hsl : Reader.memberSlice os e.f2.toNat with
    | none => rw [hsl] at hmem; simp at hmem
    | some p =>
      obtain ⟨num, bytes⟩ := p
      rw [hsl] at hmem
      simp only at hmem ⊢
      cases hp : coreParse bytes with
      | error err => rw [hp] at hmem; simp at hmem
      | ok r =>
        obtain ⟨o', st⟩ := r
        rw [hp] at hmem
        simp only [Option.some.injEq, Prod.mk.injEq] at hmem
        obtain ⟨rfl, rfl⟩ := hmem
        simp

/-- a compressed entry leads through the object stream it names (verbatim as before 129dd3d:
a lookup made from outside) -/
theorem lookup_compressed (ext : Reader.Ext) (file : List Nat) (x : RawSection) (fuel : Nat) (n : Int)
    (e se : RawEntry) (stm : Nat) (pre : Sep) (kvs : List SObj) (close s3 : Sep) (seol : StreamEol)
    (data w4 : List Nat) (s5 : Sep) (os : Reader.ObjStm) (o : Obj)
    (h : getLastI x n = some e) (he : e.kind = .compressed) (hstm : e.f1 = (stm : Int))
    (hs : getLastI x (stm : Int) = some se) (hse : se.kind ≠ .compressed)
    (hobj : ObjectAt file se.f1 stm (.stream pre kvs close s3 seol data w4 s5))
    (hdec : Reader.mkObjStm ext (valueKVs kvs) data = .ok os)
    (hmem : osSpec (.ok os) e.f2 = some (n, o)) :
    getObjectB ext file x (fuel + 1) [] n = some (.obj o) :=
  lookup_compressed_at ext file x fuel [] n e se stm pre kvs close s3 seol data w4 s5 os o h he hstm hs hse hobj
    hdec hmem (by simp) (by simp [maxNestedLoads])

/-- **objstm_member_roundtrip**: an object stream whose dictionary says `/Type /ObjStm`, `/N` =
number of members, `/First` = length of the header, and whose data decodes (through whatever
filters) to the header `n1 o1 n2 o2 … ` — member numbers with the running offsets — followed
by the members, each in ANY legal spelling of any object nested at most 500 deep and followed
by a space: index `i` of that stream is exactly (number of member `i`, value of member `i`). -/
theorem objstm_member_roundtrip (ext : Reader.Ext) (kv : Dict) (raw : List Nat)
    (a b : List (Nat × SObj)) (m : Nat × SObj)
    (hT : dget kv Reader.kType = some (.name kObjStm))
    (hN : dget kv kN = some (.int (pairsFrom 0 (a ++ m :: b)).length))
    (hF : dget kv kFirst = some (.int (headerText (pairsFrom 0 (a ++ m :: b))).length))
    (hE : dget kv kExtends = none)
    (hdec : Reader.decodeStream ext kv raw =
      some (headerText (pairsFrom 0 (a ++ m :: b)) ++ bodiesOf (a ++ m :: b)))
    (hnum : ∀ x ∈ a ++ m :: b, x.1 < 9223372036854775808)
    (hsize : (bodiesOf (a ++ m :: b)).length < 9223372036854775808)
    (hv : m.2.Valid false) (hd : m.2.value.depth ≤ maxNestingDepth) :
    osSpec (Reader.mkObjStm ext kv raw) (a.length : Int) = some ((m.1 : Int), m.2.value) := by
  have hb := pairsFrom_bounds 0 (a ++ m :: b)
  rw [mkObjStm_header ext kv raw _ _ hT hN hF hE hdec
    (by
      intro p hp
      obtain ⟨⟨x, hx, e⟩, h2⟩ := hb p hp
      exact ⟨by rw [← e]; exact hnum x hx, by omega⟩)
    (by
      intro p hp
      have := (hb p hp).2
      simp only [List.length_append]; omega)]
  unfold osSpec
  have hneg : ¬ ((a.length : Int) < 0) := by omega
  simp only [hneg, if_false, Int.toNat_natCast, memberSlice_writer a b m]
  have hp := core_roundtrip_spelled m.2 [.ws 32] hv sepOk_ws32 hd
  have e32 : renderSep [SepUnit.ws 32] = [32] := rfl
  rw [e32] at hp
  simp only [memberText, hp]

/-- satisfiable: two members, `5` and `<</V 7>>` -/
example : (pairsFrom 0 ([] ++ ((11 : Nat), SObj.int [] false 0 5) ::
    [((12 : Nat), SObj.dict [] [SObj.name [] [.raw 86], SObj.int [.ws 32] false 0 7] [])])).length = 2 := by
  simp [pairsFrom]

/-- **lookup_newest_revision** (end to end on the bytes, for objects stored plainly): the file
starts `%PDF-d.d`, ends in `startxref`, its revisions — cross-reference sections of either kind
chained by `/Prev` — are as in `history_reconstructed`; if the newest revision that mentions
object `num` says "in use at offset `off`" and at that offset stands `num G obj … endobj`
(any legal spelling; a stream with its data), then `reader.Open(file).GetObject(num)` is exactly
that value — whatever older revisions say about `num`, whatever else the file contains. -/
theorem lookup_newest_revision (ext : Reader.Ext) (file : List Nat) (start : Int)
    (revs : List (Int × RawSection)) (hhdr : headerOk file = true)
    (hfind : findXRef file = .ok start) (hc : RevChain ext file start revs)
    (hnd : (revs.map Prod.fst).Nodup) (num : Nat) (e : RawEntry) (b : Body)
    (hnew : newestI (revs.map Prod.snd).reverse (num : Int) = some e) (he : e.kind = .inUse)
    (hobj : ObjectAt file e.f1 num b) :
    lookup ext file (num : Int) = .ok (some b.value) := by
  obtain ⟨x, hx, hl⟩ := history_reconstructed ext file start revs hfind hc hnd (num : Int)
  unfold lookup openFile
  simp only [hhdr, if_true, hx]
  rw [lookup_in_use ext file x maxNestedLoads num e b (by rw [hl]; exact hnew) he hobj]

/-- **lookup_newest_revision_compressed** (end to end on the bytes, for objects stored inside
object streams): the file and its revisions as in `lookup_newest_revision`; if the newest
revision that mentions object `m.1` says "member `a.length` of object stream `stm`", the newest
entry of `stm` is not itself compressed, at its offset stands `stm G obj << … >> stream …`
whose dictionary and data are those of `objstm_member_roundtrip` with `m` as member number
`a.length`, then `GetObject(m.1)` is exactly the value of `m` — whatever older revisions say,
in whichever kind of section, whatever else the file contains. -/
theorem lookup_newest_revision_compressed (ext : Reader.Ext) (file : List Nat) (start : Int)
    (revs : List (Int × RawSection)) (hhdr : headerOk file = true)
    (hfind : findXRef file = .ok start) (hc : RevChain ext file start revs)
    (hnd : (revs.map Prod.fst).Nodup)
    (e se : RawEntry) (stm : Nat) (pre : Sep) (kvs : List SObj) (close s3 : Sep) (seol : StreamEol)
    (raw w4 : List Nat) (s5 : Sep) (a b : List (Nat × SObj)) (m : Nat × SObj)
    (hnew : newestI (revs.map Prod.snd).reverse (m.1 : Int) = some e) (he : e.kind = .compressed)
    (hstm : e.f1 = (stm : Int)) (hidx : e.f2 = (a.length : Int))
    (hsnew : newestI (revs.map Prod.snd).reverse (stm : Int) = some se) (hse : se.kind ≠ .compressed)
    (hobj : ObjectAt file se.f1 stm (.stream pre kvs close s3 seol raw w4 s5))
    (hT : dget (valueKVs kvs) Reader.kType = some (.name kObjStm))
    (hN : dget (valueKVs kvs) kN = some (.int (pairsFrom 0 (a ++ m :: b)).length))
    (hF : dget (valueKVs kvs) kFirst = some (.int (headerText (pairsFrom 0 (a ++ m :: b))).length))
    (hE : dget (valueKVs kvs) kExtends = none)
    (hdec : Reader.decodeStream ext (valueKVs kvs) raw =
      some (headerText (pairsFrom 0 (a ++ m :: b)) ++ bodiesOf (a ++ m :: b)))
    (hnum : ∀ x ∈ a ++ m :: b, x.1 < 9223372036854775808)
    (hsize : (bodiesOf (a ++ m :: b)).length < 9223372036854775808)
    (hv : m.2.Valid false) (hd : m.2.value.depth ≤ maxNestingDepth) :
    lookup ext file (m.1 : Int) = .ok (some (.obj m.2.value)) := by
  obtain ⟨x, hx, hl⟩ := history_reconstructed ext file start revs hfind hc hnd (m.1 : Int)
  obtain ⟨x', hx', hl'⟩ := history_reconstructed ext file start revs hfind hc hnd (stm : Int)
  rw [hx] at hx'
  cases hx'
  have hmem := objstm_member_roundtrip ext (valueKVs kvs) raw a b m hT hN hF hE hdec hnum hsize hv hd
  cases hmk : Reader.mkObjStm ext (valueKVs kvs) raw with
  | error err =>
    rw [hmk] at hmem
    simp [osSpec] at hmem
  | ok os =>
    rw [hmk] at hmem
    unfold lookup openFile
    simp only [hhdr, if_true, hx]
    rw [lookup_compressed ext file x maxNestedLoads (m.1 : Int) e se stm pre kvs close s3 seol raw w4 s5 os
      m.2.value (by rw [hl]; exact hnew) he hstm (by rw [hl']; exact hsnew) hse hobj hmk (by rw [hidx]; exact hmem)]

/-- **lookup_deleted_or_unknown_is_error** (end to end on the bytes): if the newest revision
that mentions `n` marks it free, or no revision mentions it, `GetObject(n)` is an error —
even when older revisions define it and its bytes are still in the file. -/
theorem lookup_deleted_or_unknown_is_error (ext : Reader.Ext) (file : List Nat) (start : Int)
    (revs : List (Int × RawSection)) (hhdr : headerOk file = true)
    (hfind : findXRef file = .ok start) (hc : RevChain ext file start revs)
    (hnd : (revs.map Prod.fst).Nodup) (n : Int)
    (hnew : newestI (revs.map Prod.snd).reverse n = none ∨
      ∃ e, newestI (revs.map Prod.snd).reverse n = some e ∧ e.kind = .free) :
    lookup ext file n = .ok none := by
  obtain ⟨x, hx, hl⟩ := history_reconstructed ext file start revs hfind hc hnd n
  unfold lookup openFile
  simp only [hhdr, if_true, hx]
  rw [lookup_missing_or_free_is_error ext file x _ [] n (by rw [hl]; exact hnew)]

theorem renderEntries_append (ee : EntEol) (es : List CEnt) (k r : List Nat) :
    renderEntries ee es (k ++ r) = renderEntries ee es k ++ r := by
  induction es with
  | nil => rfl
  | cons e es ih => simp [renderEntries, ih]

theorem renderSubs_append (eol : Eol) (ee : EntEol) (ss : List CSub) (k r : List Nat) :
    renderSubs eol ee ss (k ++ r) = renderSubs eol ee ss k ++ r := by
  induction ss with
  | nil => rfl
  | cons s ss ih => simp [renderSubs, ih, renderEntries_append]

/-- the table is a block of bytes followed by `rest` -/
theorem renderClassic_append (eol : Eol) (ee : EntEol) (subs : List CSub) (tr rest : List Nat) :
    renderClassic eol ee subs tr rest = renderClassic eol ee subs tr [] ++ rest := by
  unfold renderClassic
  have : kwTrailer ++ (eol.bytes ++ (tr ++ (eol.bytes ++ rest))) =
      (kwTrailer ++ (eol.bytes ++ (tr ++ (eol.bytes ++ [])))) ++ rest := by simp
  rw [this, renderSubs_append]
  simp

/-- `ClassicChain` is satisfiable: a file with nine bytes of header, an older table (objects 0
and 1), two bytes in between, and a newer table (object 1 again) whose trailer says `/Prev 9` -/
example : ∃ (file : List Nat) (start : Int) (revs : List (Int × List CSub)),
    ClassicChain file start revs ∧ revs.length = 2 ∧ (revs.map Prod.fst).Nodup := by
  let trOld : SObj := .dict [] [SObj.name [] [.raw 83], SObj.int [.ws 32] false 0 2] []
  let trNew : SObj := .dict [] [SObj.name [] [.raw 80, .raw 114, .raw 101, .raw 118], SObj.int [.ws 32] false 0 9] []
  let b0 : List Nat := List.replicate 9 37
  let subsOld : List CSub := [(0, [⟨0, 65535, false⟩, ⟨17, 0, true⟩])]
  let subsNew : List CSub := [(1, [⟨40, 0, true⟩])]
  let oldBlock := renderClassic .lf .spLf subsOld trOld.render []
  let before := b0 ++ oldBlock ++ [37, 10]
  let file := before ++ renderClassic .crlf .crLf subsNew trNew.render []
  have hvOld : trOld.Valid false := by
    simp [trOld, SObj.Valid, ValidKVs, SepOk, SepUnit.Ok, SObj.isName, keysOf, SObj.keyBytes, NPiece.Ok, isWs, isDelim]
  have hvNew : trNew.Valid false := by
    simp [trNew, SObj.Valid, ValidKVs, SepOk, SepUnit.Ok, SObj.isName, keysOf, SObj.keyBytes, NPiece.Ok, isWs, isDelim]
  have hrOld : trOld.render = [60, 60, 47, 83, 32, 50, 62, 62] := by
    simp [trOld, SObj.render, renderList, renderSep, SepUnit.render, renderName, printInt, NPiece.render,
      Tabula.A1.dec, Tabula.A1.decAux]
  have hrNew : trNew.render = [60, 60, 47, 80, 114, 101, 118, 32, 57, 62, 62] := by
    simp [trNew, SObj.render, renderList, renderSep, SepUnit.render, renderName, printInt, NPiece.render,
      Tabula.A1.dec, Tabula.A1.decAux]
  have hokOld : ∀ s ∈ subsOld, s.Ok := by
    intro s hs; simp [subsOld] at hs; subst hs
    refine ⟨by decide, ?_⟩
    intro e he; simp at he
    rcases he with rfl | rfl <;> simp [CEnt.Ok]
  have hokNew : ∀ s ∈ subsNew, s.Ok := by
    intro s hs; simp [subsNew] at hs; subst hs
    refine ⟨by decide, ?_⟩
    intro e he; simp at he; subst he; simp [CEnt.Ok]
  have hfileOld : file = b0 ++ renderClassic .lf .spLf subsOld trOld.render
      ([37, 10] ++ renderClassic .crlf .crLf subsNew trNew.render []) := by
    show before ++ _ = _
    rw [renderClassic_append .lf .spLf subsOld trOld.render ([37, 10] ++ _)]
    simp [before, oldBlock]
  have hOld : ClassicChain file b0.length [((b0.length : Int), subsOld)] :=
    .last b0 .lf .spLf subsOld [] _ [] _ hfileOld hokOld hvOld (by simp [SObj.value, Obj.depth, valueKVs, Obj.depthKV, maxNestingDepth])
      (by rw [hrOld]; intro c hc; simp at hc; omega) (by rw [hrOld]; decide) (by intro h; cases h)
      (by simp [valueKVs, SObj.keyBytes, SObj.value, dget, kPrev, NPiece.byte])
  have hNew : ClassicChain file before.length [((before.length : Int), subsNew), ((b0.length : Int), subsOld)] :=
    .step before .crlf .crLf subsNew [] _ [] [] 9 _ rfl hokNew hvNew
      (by simp [SObj.value, Obj.depth, valueKVs, Obj.depthKV, maxNestingDepth])
      (by rw [hrNew]; intro c hc; simp at hc; omega) (by rw [hrNew]; decide) (by intro h; cases h)
      (by simp [valueKVs, SObj.keyBytes, SObj.value, dget, kPrev, NPiece.byte])
      (by simpa [b0] using hOld)
  refine ⟨file, before.length, _, hNew, rfl, ?_⟩
  simp [before, b0]
  omega

/-! ### a whole file satisfying every hypothesis of the end-to-end theorems -/

theorem body_render_append (b : Body) (rest : List Nat) : b.render rest = b.render [] ++ rest := by
  cases b <;> simp [Body.render]

theorem renderIndirect_append (num gen : Nat) (s1 s2 : Sep) (b : Body) (rest : List Nat) :
    renderIndirect num gen s1 s2 b rest = renderIndirect num gen s1 s2 b [] ++ rest := by
  unfold renderIndirect
  rw [body_render_append b rest]
  simp

/-- **end_to_end_witness**: the hypotheses of `lookup_newest_revision` and
`lookup_deleted_or_unknown_is_error` are satisfiable together — `%PDF-1.7`, the object
`1 0 obj 42 endobj` at offset 9, a classic table (object 0 free, object 1 in use at 9), the
trailer `<</Size 2>>`, `startxref` and the table's offset: through the theorems, object 1 is
looked up as 42 and object 2 is an error, for every inflate function. -/
theorem end_to_end_witness (ext : Reader.Ext) :
    ∃ file : List Nat, lookup ext file 1 = .ok (some (.obj (.int 42))) ∧ lookup ext file 2 = .ok none := by
  let hdr : List Nat := [37, 80, 68, 70, 45, 49, 46, 55, 10]
  let body : Body := .plain (SObj.int [.ws 10] false 0 42) [.ws 10]
  let objHead := renderIndirect 1 0 [.ws 32] [.ws 32] body []
  let before := hdr ++ objHead ++ [10]
  let tr : SObj := .dict [] [SObj.name [] [.raw 83, .raw 105, .raw 122, .raw 101], SObj.int [.ws 32] false 0 2] []
  let subs : List CSub := [(0, [⟨0, 65535, false⟩, ⟨9, 0, true⟩])]
  let tail : List Nat := kwStartxref ++ (Eol.lf.bytes ++ (Tabula.A1.dec before.length ++ (Eol.lf.bytes ++ [37, 37, 69, 79, 70, 10])))
  let file := before ++ renderClassic .lf .spLf subs tr.render tail
  have hobjHead : objHead = [49, 32, 48, 32, 111, 98, 106, 10, 52, 50, 10, 101, 110, 100, 111, 98, 106] := by
    simp [objHead, body, renderIndirect, Body.render, SObj.render, renderSep, SepUnit.render, printInt, kwObj,
      kwEndobj, Tabula.A1.dec, Tabula.A1.decAux]
  have hblen : before.length = 27 := by simp [before, hdr, hobjHead]
  have hrtr : tr.render = [60, 60, 47, 83, 105, 122, 101, 32, 50, 62, 62] := by
    simp [tr, SObj.render, renderList, renderSep, SepUnit.render, renderName, printInt, NPiece.render,
      Tabula.A1.dec, Tabula.A1.decAux]
  have hvtr : tr.Valid false := by
    simp [tr, SObj.Valid, ValidKVs, SepOk, SepUnit.Ok, SObj.isName, keysOf, SObj.keyBytes, NPiece.Ok, isWs, isDelim]
  have hsubs : ∀ s ∈ subs, s.Ok := by
    intro s hs; simp [subs] at hs; subst hs
    refine ⟨by decide, ?_⟩
    intro e he; simp at he
    rcases he with rfl | rfl <;> simp [CEnt.Ok]
  -- the section
  have hsec : SectionAt ext file before.length (classicSection subs) (valueKVs [SObj.name [] [.raw 83, .raw 105, .raw 122, .raw 101], SObj.int [.ws 32] false 0 2]) :=
    .classic before .lf .spLf subs [] _ [] tail rfl hsubs hvtr
      (by simp [tr, SObj.value, Obj.depth, valueKVs, Obj.depthKV, maxNestingDepth])
      (by rw [hrtr]; intro c hc; simp at hc; omega) (by rw [hrtr]; decide) (by intro h; cases h)
  have hchain : RevChain ext file before.length [((before.length : Int), classicSection subs)] :=
    .last _ _ _ hsec (by simp [valueKVs, SObj.keyBytes, SObj.value, dget, kPrev, NPiece.byte])
  -- startxref
  have hfind : findXRef file = .ok (before.length : Int) := by
    have e : file = (before ++ renderClassic .lf .spLf subs tr.render []) ++ tail := by
      show before ++ renderClassic .lf .spLf subs tr.render tail = _
      rw [renderClassic_append .lf .spLf subs tr.render tail]; simp
    rw [e]
    apply find_xref_roundtrip _ [37, 37, 69, 79, 70, 10] .lf .lf before.length
    · rw [hblen]; decide
    · decide
    · have := dec_length_le before.length 2 (by rw [hblen]; decide)
      simp [kwStartxref, Eol.bytes]; omega
  have hhdr : headerOk file = true := by
    simp [file, before, hdr, headerOk, isDigit]
  -- the object
  have hobj : ObjectAt file 9 1 body := by
    refine ⟨hdr, 0, [.ws 32], [.ws 32], [10] ++ renderClassic .lf .spLf subs tr.render tail, ?_, rfl,
      by decide, by decide, ?_, by simp, ?_, by simp, ?_, Prs.term_cons 10 _ (by decide)⟩
    · show before ++ _ = _
      rw [renderIndirect_append 1 0 [.ws 32] [.ws 32] body ([10] ++ _)]
      simp [before, objHead]
    · intro u hu; simp at hu; subst hu; simp [SepUnit.Ok, isWs]
    · intro u hu; simp at hu; subst hu; simp [SepUnit.Ok, isWs]
    · refine ⟨?_, ?_, ?_, ?_⟩
      · simp [SObj.Valid, SepOk, SepUnit.Ok, isWs]
      · simp [SObj.value, Obj.depth]
      · intro u hu; simp at hu; subst hu; simp [SepUnit.Ok, isWs]
      · intro _; simp
  have hnd : ([((before.length : Int), classicSection subs)].map Prod.fst).Nodup := by simp
  have hnew1 : newestI ([((before.length : Int), classicSection subs)].map Prod.snd).reverse ((1 : Nat) : Int) =
      some ⟨.inUse, 9, 0⟩ := by
    simp [newestI, subs, classicSection, numberFrom, CEnt.raw, entryOf, getLastI]
  have hnew2 : newestI ([((before.length : Int), classicSection subs)].map Prod.snd).reverse 2 = none := by
    simp [newestI, subs, classicSection, numberFrom, CEnt.raw, entryOf, getLastI]
  refine ⟨file, ?_, ?_⟩
  · have := lookup_newest_revision ext file before.length _ hhdr hfind hchain hnd 1 ⟨.inUse, 9, 0⟩ body hnew1 rfl hobj
    simpa [body, Body.value, SObj.value] using this
  · exact lookup_deleted_or_unknown_is_error ext file before.length _ hhdr hfind hchain hnd 2 (Or.inl hnew2)

end Tabula.C04B
