import TabulaModel.Lemmas.HtmlLost
import TabulaModel.Props.C19Text
/-!
# C19 — the content half, EXACTLY: what is returned, what is lost, and nothing else

`content_complete_unless_wrapped_paragraph` (Props/C19Text.lean) states the content half of the
property under the hypothesis `noWrapped`; the finding C19/content-missing-para-in-wrapper says the
hypothesis cannot be dropped.  This file removes the hypothesis: for EVERY document, every
exclusion predicate and every raw mode value the wanted text `want` (written from the property
text) is an order-preserving interleaving of the text the elements return and of the text `lost`
(Model/HtmlLost.lean, written from the DOM alone: the inline children of wrapper elements reached
inside a paragraph that has block-level children).  So

* nothing is returned that is not wanted, nothing is returned twice, the order is the wanted order
  (`returned_subsequence_of_wanted`);
* character for character, wanted = returned + lost (`wanted_is_returned_plus_lost`);
* the content half of the property holds for a document and a mode IF AND ONLY IF the lost text of
  that document under that mode is blank (`content_complete_iff`), and `lost` says which text that
  is; `noWrapped` (which does not look at the mode) is sufficient under every mode
  (`no_wrapped_loses_nothing`), and a document may fail `noWrapped` and still lose nothing in a mode
  that excludes the wrapper (`excluded_wrapper_loses_nothing`).

All statements are about the walk (`extractBodyWithMode` on a tree) and hold for every tree; a
public call runs it on a tree `OpenReader` admitted (Props/C19Api.lean).  Text is compared up to
white space (`squeeze`), as in Props/C19Text.lean.
-/
namespace Tabula.C19Lost
open Tabula.Html

/-- INTERLEAVING (every document, every predicate): the wanted text is the returned text with the
lost text inserted in place — each character of the wanted text comes from exactly one of the
two, and both keep their order. -/
theorem wanted_interleaves_returned_and_lost (p : Pos → Dom → Bool) (body : Dom) :
    Shuffle (squeeze (elementsText (extractWith p body)))
      (squeeze (lost p (hasWrapper body) .root false body))
      (squeeze (want p (hasWrapper body) .root false body)) := by
  rw [Tabula.C19Text.content_text_complete]
  exact want_shuffle p (hasWrapper body) body .root false

/-- RETURNED ONCE, IN ORDER, NOTHING EXTRA (every document, every predicate, no hypothesis): the
text the returned elements carry is a subsequence of the wanted text. -/
theorem returned_subsequence_of_wanted (p : Pos → Dom → Bool) (body : Dom) :
    (squeeze (elementsText (extractWith p body))).Sublist
      (squeeze (want p (hasWrapper body) .root false body)) :=
  (wanted_interleaves_returned_and_lost p body).sublist_left

/-- the lost text sits in the wanted text too, in document order -/
theorem lost_subsequence_of_wanted (p : Pos → Dom → Bool) (body : Dom) :
    (squeeze (lost p (hasWrapper body) .root false body)).Sublist
      (squeeze (want p (hasWrapper body) .root false body)) :=
  (wanted_interleaves_returned_and_lost p body).sublist_right

/-- ACCOUNTING: the wanted text is, as a multiset of characters, the returned text plus the lost
text; in particular the lengths add up. -/
theorem wanted_is_returned_plus_lost (p : Pos → Dom → Bool) (body : Dom) :
    (squeeze (want p (hasWrapper body) .root false body)).Perm
      (squeeze (elementsText (extractWith p body)) ++ squeeze (lost p (hasWrapper body) .root false body)) ∧
    (squeeze (want p (hasWrapper body) .root false body)).length =
      (squeeze (elementsText (extractWith p body))).length +
      (squeeze (lost p (hasWrapper body) .root false body)).length :=
  ⟨(wanted_interleaves_returned_and_lost p body).perm, (wanted_interleaves_returned_and_lost p body).length⟩

/-- THE CONTENT HALF, EXACTLY (every document, every predicate): the returned text is the wanted
text if and only if the lost text is blank. -/
theorem content_complete_iff (p : Pos → Dom → Bool) (body : Dom) :
    squeeze (elementsText (extractWith p body)) = squeeze (want p (hasWrapper body) .root false body) ↔
    squeeze (lost p (hasWrapper body) .root false body) = [] := by
  have h := (wanted_interleaves_returned_and_lost p body).eq_left_iff
  constructor
  · intro e; exact h.mp e.symm
  · intro e; exact (h.mpr e).symm

/-- … for the element list of a reader, any raw mode value, from the document node -/
theorem content_complete_iff_api (m : Int) (doc : Dom) :
    squeeze (elementsText (extractI m doc)) = squeeze (wantOf m doc) ↔ squeeze (lostOf m doc) = [] := by
  unfold extractI wantOf lostOf
  exact content_complete_iff _ _

/-- … and the subsequence statement there -/
theorem returned_subsequence_of_wanted_api (m : Int) (doc : Dom) :
    (squeeze (elementsText (extractI m doc))).Sublist (squeeze (wantOf m doc)) := by
  unfold extractI wantOf
  exact returned_subsequence_of_wanted _ _

/-- `noWrapped` (the hypothesis of `content_complete_unless_wrapped_paragraph`, which does not
look at the predicate) is sufficient under every predicate: such a document loses nothing. -/
theorem no_wrapped_loses_nothing (p : Pos → Dom → Bool) (body : Dom) (h : noWrapped body = true) :
    squeeze (lost p (hasWrapper body) .root false body) = [] :=
  lost_of_ok p (hasWrapper body) body .root false h

example : noWrapped (.elem T.body [] [.elem T.p [] [.text [120]]]) = true := by decide

/-- a document without any `p` that has a block-level child and without … in short: where the
walk never enters a paragraph with block-level children nothing is lost; the simplest instance:
the lost text of a subtree read outside such a paragraph whose root is a content leaf is empty -/
theorem content_leaf_loses_nothing (p : Pos → Dom → Bool) (w : Bool) (pos : Pos) (inP : Bool)
    (tag : Str) (attrs : List (Str × Str)) (kids : List Dom)
    (hc : (∃ l, classify tag = .heading l) ∨ classify tag = .table ∨ classify tag = .code ∨
          classify tag = .quote ∨ classify tag = .void) :
    lost p w pos inP (.elem tag attrs kids) = [] := by
  unfold lost
  rcases hc with ⟨l, hc⟩ | hc | hc | hc | hc <;> simp [hc]

example : (∃ l, classify T.h2 = .heading l) := ⟨2, by decide⟩

/-- WHICH text is lost, one level: a wrapper (an element that is neither skipped, excluded, a
content element nor a `div`) met inside a paragraph with block-level children loses exactly the
text nodes of its inline children, in place, plus what its other children lose. -/
theorem wrapper_loses_own_text (p : Pos → Dom → Bool) (w : Bool) (pos : Pos)
    (tag : Str) (attrs : List (Str × Str)) (kids : List Dom)
    (hs : isSkip tag = false) (hp : p pos (.elem tag attrs kids) = false) (hc : classify tag = .other) :
    lost p w pos true (.elem tag attrs kids) = lostW p w (pos.kid w tag) kids ∧
    (∀ (k : Dom) (rest : List Dom) (kp : Pos), isInline k = true →
      lostW p w kp (k :: rest) = tnFlat k ++ lostW p w kp rest) ∧
    (∀ (k : Dom) (rest : List Dom) (kp : Pos), isInline k = false →
      lostW p w kp (k :: rest) = lost p w kp true k ++ lostW p w kp rest) := by
  refine ⟨?_, ?_, ?_⟩
  · unfold lost; simp [hs, hp, hc]
  · intro k rest kp hk; simp [lostW, hk]
  · intro k rest kp hk; simp [lostW, hk]

example : isSkip Tabula.C19.tagSpan = false ∧ classify Tabula.C19.tagSpan = .other := by decide

/-- the same wrapper outside such a paragraph loses nothing of its own (its direct text is in no
content element, so it is not wanted either): only what its children lose -/
theorem wrapper_outside_paragraph (p : Pos → Dom → Bool) (w : Bool) (pos : Pos)
    (tag : Str) (attrs : List (Str × Str)) (kids : List Dom)
    (hs : isSkip tag = false) (hp : p pos (.elem tag attrs kids) = false) (hc : classify tag = .other) :
    lost p w pos false (.elem tag attrs kids) = lostL p w (pos.kid w tag) kids := by
  unfold lost; simp [hs, hp, hc]

/-- an excluded or skipped subtree loses nothing (it is not wanted) -/
theorem excluded_loses_nothing (p : Pos → Dom → Bool) (w : Bool) (pos : Pos) (inP : Bool)
    (tag : Str) (attrs : List (Str × Str)) (kids : List Dom)
    (h : isSkip tag = true ∨ p pos (.elem tag attrs kids) = true) :
    lost p w pos inP (.elem tag attrs kids) = [] := by
  unfold lost
  rcases h with h | h
  · simp [h]
  · by_cases hs : isSkip tag = true <;> simp [hs, h]

/-- the witness of the finding: wanted "xcyd", returned "xcd", lost exactly "y" -/
theorem lost_witness :
    squeeze (lost (excluded .none) false .root false Tabula.C19.witnessPWrapper) = [121] ∧
    squeeze (want (excluded .none) false .root false Tabula.C19.witnessPWrapper) = [120, 99, 121, 100] ∧
    squeeze (elementsText (extract .none Tabula.C19.witnessPWrapper)) = [120, 99, 100] := by
  decide +kernel

/-- … and the sectioning-element witness: wanted "xyzc", returned "xzc", lost exactly "y" -/
theorem lost_witness_section :
    squeeze (lost (excluded .none) false .root false Tabula.C19.witnessPSection) = [121] := by
  decide +kernel

/-- `<p>x<table>…c…</table><span class="menu">y<table>…d…</table></span></p>`: the wrapper of the
witness with a class from the exclusion vocabulary -/
def witnessExcludedWrapper : Dom :=
  .elem T.body [] [.elem T.p [] [.text [120],
    .elem T.table [] [.elem T.tr [] [.elem T.td [] [.text [99]]]],
    .elem Tabula.C19.tagSpan [(A.class, [109, 101, 110, 117])] [.text [121],
      .elem T.table [] [.elem T.tr [] [.elem T.td [] [.text [100]]]]]]]

/-- `noWrapped` is sufficient, not necessary: this document fails it, loses "y" in modes None and
Explicit, and loses NOTHING in modes Standard and Aggressive (the wrapper is excluded there, so
its text is not wanted) — the content half holds in those modes, by `content_complete_iff`. -/
theorem excluded_wrapper_loses_nothing :
    noWrapped witnessExcludedWrapper = false ∧
    squeeze (lost (excluded .none) false .root false witnessExcludedWrapper) = [121] ∧
    squeeze (lost (excluded .explicit) false .root false witnessExcludedWrapper) = [121] ∧
    squeeze (lost (excluded .standard) false .root false witnessExcludedWrapper) = [] ∧
    squeeze (lost (excluded .aggressive) false .root false witnessExcludedWrapper) = [] ∧
    squeeze (elementsText (extract .standard witnessExcludedWrapper)) =
      squeeze (want (excluded .standard) false .root false witnessExcludedWrapper) := by
  decide +kernel

/-! ### list items whose nested lists sit inside wrappers -/

/-- an element child that is not itself a ul/ol, or a text node -/
def plainItemChild : Dom → Bool
  | .text _ => true
  | .elem tag _ _ => !(tag == T.ul || tag == T.ol)
  | .other _ => false

theorem item_children_once (p : Pos → Dom → Bool) (w : Bool) (kp : Pos) : ∀ (kids : List Dom),
    kids.all plainItemChild = true →
      kids.flatMap directSrc = tnFlatL kids ∧ srcLi p w kp kids = [] ∧ wantLi p w kp kids = [] ∧
      lostLi p w kp kids = []
  | [], _ => by simp [tnFlatL, srcLi, wantLi, lostLi]
  | k :: ks, h => by
      simp only [List.all_cons, Bool.and_eq_true] at h
      obtain ⟨ih1, ih2, ih3, ih4⟩ := item_children_once p w kp ks h.2
      cases k with
      | text s => simp [directSrc, tnFlatL, tnFlat, srcLi, wantLi, lostLi, isListElem, ih1, ih2, ih3, ih4]
      | other o => simp [plainItemChild] at h
      | elem tag attrs kk =>
        have hl : (tag == T.ul || tag == T.ol) = false := by simpa [plainItemChild] using h.1
        have hl' : ¬ (tag = T.ul ∨ tag = T.ol) := by simpa using hl
        simp [directSrc, tnFlatL, srcLi, wantLi, lostLi, isListElem, hl, hl', ih1, ih2, ih3, ih4]

/-- LIST ITEMS WHOSE NESTED LISTS SIT INSIDE WRAPPERS (`<li>a<span><ul><li>b</li></ul></span></li>`,
`<li>a<div><ul>…</ul></div></li>`): when no ul/ol is a DIRECT child of the item, the item's source
text and wanted text are exactly all text nodes below it, each once, in document order — the
nested list's text is part of the item's own text and is not visited a second time. -/
theorem item_with_wrapped_lists_once (p : Pos → Dom → Bool) (w : Bool) (pos : Pos) (inP : Bool)
    (tag : Str) (attrs : List (Str × Str)) (kids : List Dom)
    (hs : isSkip tag = false) (hp : p pos (.elem tag attrs kids) = false) (hc : classify tag = .li)
    (h : kids.all plainItemChild = true) :
    src p w pos (.elem tag attrs kids) = tnFlatL kids ∧
    want p w pos inP (.elem tag attrs kids) = tnFlatL kids ∧
    lost p w pos inP (.elem tag attrs kids) = [] := by
  obtain ⟨h1, h2, h3, h4⟩ := item_children_once p w (pos.kid w tag) kids h
  refine ⟨?_, ?_, ?_⟩
  · unfold src; simp [hs, hp, hc, h1, h2]
  · unfold want; simp [hs, hp, hc, h1, h3]
  · unfold lost; simp [hs, hp, hc, h4]

/-- `<li>a<span><ul><li>b</li></ul></span></li>`: one item "ab" (up to white space), b once -/
example : squeeze (elementsText (extract .none (.elem T.body [] [.elem T.ul [] [.elem T.li [] [.text [97],
    .elem Tabula.C19.tagSpan [] [.elem T.ul [] [.elem T.li [] [.text [98]]]]]]])) ) = [97, 98] := by
  decide +kernel

end Tabula.C19Lost
