import TabulaModel.Model.Layout
import TabulaModel.Lemmas.Layout
import TabulaModel.Lemmas.C09MoreLemmas
import TabulaModel.Props.C09
/-!
# C09 — further all-input theorems about the mechanisms of `Model/Layout.lean`

The theorems of `Props/C09.lean` say that nothing is lost or repeated (permutations, counts).
The ones below say WHICH fragment goes WHERE, and close three claims that were so far only
comments of the model or compared by the differential run:

* deduplication, exactly: the kept fragments have pairwise different keys, every key of the
  input is kept, each removed fragment has exactly ONE kept twin, the function is idempotent, and
  it is the identity iff no two fragments share a key (`dedupe_fixed_iff`);
* `createColumnsFromGaps`, exactly: there are `gaps + 1` columns and column `i` is the input
  filtered by `assignCol = i`, in stream order (`createColumns_exact`), so "each fragment is
  assigned to exactly one column" is now an identification of that column;
* `groupFragmentsIntoLines`: the band Ys are pairwise different (`bands_ys_distinct`) and hence
  EVERY sorting algorithm gives the order the model writes down with `mergeSort`
  (`bands_order_unique`) — the comment in `Model/Layout.lean` on the unstable `sort.Slice`;
* `mergeOverlappingBlocks` never makes more blocks and is the identity when no two overlap;
* the model of `strings.TrimSpace` is characterised completely on every byte string
  (`trimSpace_spec`) and is idempotent;
* the shared sweep `segment` at its two extremes (never / always break).
-/
namespace Tabula.C09More
open Tabula.Layout Tabula.C09 List

/-! ## Deduplication, exactly -/

/-- the kept fragments have pairwise different keys (text + rounded position) -/
theorem dedupe_keys_nodup (fs : List Frag) : ((dedupe fs).map keyOf).Nodup :=
  (dedupeAux_keys [] fs).1

/-- no key disappears and none is invented -/
theorem dedupe_keys_same (fs : List Frag) (k : Key) :
    k ∈ (dedupe fs).map keyOf ↔ k ∈ fs.map keyOf := by
  constructor
  · intro h
    rcases List.mem_map.mp h with ⟨g, hg, rfl⟩
    exact List.mem_map.mpr ⟨g, (dedupe_sublist fs).subset hg, rfl⟩
  · intro h
    rcases List.mem_map.mp h with ⟨f, hf, rfl⟩
    rcases dedupe_keeps_a_twin fs f hf with ⟨g, hg, hk⟩
    exact List.mem_map.mpr ⟨g, hg, hk⟩

/-- every input fragment has exactly ONE kept twin -/
theorem dedupe_unique_twin (fs : List Frag) (f : Frag) (hf : f ∈ fs) :
    ∃ g ∈ dedupe fs, keyOf g = keyOf f ∧ ∀ g2 ∈ dedupe fs, keyOf g2 = keyOf f → g2 = g := by
  rcases dedupe_keeps_a_twin fs f hf with ⟨g, hg, hk⟩
  refine ⟨g, hg, hk, ?_⟩
  intro g2 hg2 hk2
  exact nodup_map_inj keyOf (dedupe fs) (dedupe_keys_nodup fs) g2 hg2 g hg (hk2.trans hk.symm)

example : ∃ f, f ∈ ([⟨0, 10, 20, 5, 10, 10, [97]⟩] : List Frag) := ⟨_, List.mem_cons_self⟩

/-- deduplicating twice removes nothing more -/
theorem dedupe_idempotent (fs : List Frag) : dedupe (dedupe fs) = dedupe fs :=
  dedupeAux_fixed [] (dedupe fs) (dedupe_keys_nodup fs) (fun _ _ h => by simp at h)

/-- deduplication changes nothing exactly when no two fragments share text and rounded position -/
theorem dedupe_fixed_iff (fs : List Frag) : dedupe fs = fs ↔ (fs.map keyOf).Nodup := by
  constructor
  · intro h
    have := dedupe_keys_nodup fs
    rwa [h] at this
  · intro h
    exact dedupeAux_fixed [] fs h (fun _ _ h => by simp at h)

/-- the same with lengths: nothing is removed iff the keys are pairwise different -/
theorem dedupe_length_eq_iff (fs : List Frag) :
    (dedupe fs).length = fs.length ↔ (fs.map keyOf).Nodup := by
  rw [← dedupe_fixed_iff]
  exact ⟨fun h => (dedupe_sublist fs).eq_of_length h, fun h => by rw [h]⟩

/-! ## `createColumnsFromGaps`, exactly -/

/-- the intervals `createColumnsFromGaps` builds for a page -/
def colBounds (gaps : List Gap) (fs : List Frag) : List (Rat × Rat) :=
  boundaries (gaps.mergeSort (fun a b => a.left ≤ b.left))
    (minOf 0 (fs.map (·.x))) (maxOf 0 (fs.map right))

/-- one column more than gaps, whatever the gaps are (duplicates, overlaps, any order) -/
theorem createColumns_length (gaps : List Gap) (fs : List Frag) (h : fs ≠ []) :
    (createColumns gaps fs).length = gaps.length + 1 := by
  have he : fs.isEmpty = false := by cases fs <;> simp_all
  simp only [createColumns, he, Bool.false_eq_true, if_false]
  rw [foldl_appendAt_length]
  simp [boundaries_length]

/-- column `i` holds exactly the fragments `assignCol` sends to `i`, in stream order -/
theorem createColumns_exact (gaps : List Gap) (fs : List Frag) (h : fs ≠ []) (i : Nat)
    (hi : i ≤ gaps.length) :
    (createColumns gaps fs)[i]? =
      some (fs.filter (fun f => assignCol (colBounds gaps fs) f == i)) := by
  have he : fs.isEmpty = false := by cases fs <;> simp_all
  simp only [createColumns, he, Bool.false_eq_true, if_false]
  rw [foldl_appendAt_getElem?]
  have hl : i < (boundaries (gaps.mergeSort (fun a b => a.left ≤ b.left))
      (minOf 0 (fs.map (·.x))) (maxOf 0 (fs.map right))).length := by
    rw [boundaries_length]; simp; omega
  simp [List.getElem?_map, List.getElem?_eq_getElem hl, colBounds]

example : (createColumns [⟨100, 120⟩] [⟨0, 10, 20, 30, 10, 10, [97]⟩, ⟨1, 150, 20, 30, 10, 10, [98]⟩])[1]?
    = some [⟨1, 150, 20, 30, 10, 10, [98]⟩] := by decide +kernel

/-- a fragment of the page is in column `i` iff `i` is the column `assignCol` names -/
theorem createColumns_mem_iff (gaps : List Gap) (fs : List Frag) (f : Frag) (i : Nat)
    (hi : i ≤ gaps.length) (col : List Frag) (hc : (createColumns gaps fs)[i]? = some col) :
    f ∈ col ↔ f ∈ fs ∧ assignCol (colBounds gaps fs) f = i := by
  by_cases h : fs = []
  · subst h; simp [createColumns] at hc
  · rw [createColumns_exact gaps fs h i hi] at hc
    simp only [Option.some.injEq] at hc
    subst hc
    simp [List.mem_filter]

/-- every column lists its fragments in the order of the input (nothing is reordered) -/
theorem createColumns_stream_order (gaps : List Gap) (fs : List Frag) (col : List Frag)
    (hc : col ∈ createColumns gaps fs) : col.Sublist fs := by
  by_cases h : fs = []
  · subst h; simp [createColumns] at hc
  · rcases List.mem_iff_getElem?.mp hc with ⟨i, hi⟩
    have hlt : i < (createColumns gaps fs).length := by
      rcases List.getElem?_eq_some_iff.mp hi with ⟨hl, _⟩; exact hl
    rw [createColumns_length gaps fs h] at hlt
    rw [createColumns_exact gaps fs h i (by omega)] at hi
    simp only [Option.some.injEq] at hi
    subst hi
    exact List.filter_sublist

/-! ## `validateColumns` -/

/-- no column of the validated layout is empty -/
theorem validateColumns_nonempty (m : Rat) (cols : List (List Frag)) :
    ∀ c ∈ validateColumns m cols, c ≠ [] := by
  intro c hc
  unfold validateColumns at hc
  simp only [List.mem_append, List.mem_reverse] at hc
  rcases hc with hc | hc
  · exact foldl_validateStep_nonempty m cols ([], []) (by simp) c hc
  · by_cases he : (cols.foldl (validateStep m) ([], [])).2.isEmpty = true
    · simp [he] at hc
    · simp only [he, Bool.false_eq_true, if_false, List.mem_singleton] at hc
      subst hc
      intro e; rw [e] at he; simp at he

/-- when no column is empty or narrower than `MinColumnWidth`, validation returns the columns
as they are: merging happens only where a narrow column exists -/
theorem validateColumns_all_wide (m : Rat) (cols : List (List Frag))
    (h : ∀ c ∈ cols, c ≠ [] ∧ ¬ bboxW c < m) : validateColumns m cols = cols := by
  unfold validateColumns
  rw [foldl_validateStep_wide m cols [] h]
  simp

/-- on such a page the repair 395abf8 changes nothing: old and new validation agree -/
theorem validateColumns_fix_agrees (m : Rat) (cols : List (List Frag))
    (h : ∀ c ∈ cols, c ≠ [] ∧ ¬ bboxW c < m) :
    validateColumns m cols = validateColumnsOld m cols := by
  rw [validateColumns_all_wide m cols h]
  unfold validateColumnsOld
  symm
  apply List.filter_eq_self.mpr
  intro c hc
  have := h c hc
  have he : c.isEmpty = false := by cases c <;> simp_all
  simp [he, this.2]

example : ∀ c ∈ ([[⟨0, 10, 20, 60, 10, 10, [97]⟩]] : List (List Frag)), c ≠ [] ∧ ¬ bboxW c < 50 := by
  decide +kernel

/-! ## `groupFragmentsIntoLines`: the sort has one possible outcome -/

/-- the Ys of the bands are pairwise different: a band is opened only for a fragment farther
than its tolerance (at least 2) from every existing band -/
theorem bands_ys_distinct (fs : List Frag) : ((bandsUnsorted fs).map (·.y)).Nodup :=
  foldl_addToBands_nodup fs [] (by simp)

/-- EVERY arrangement of the bands that is sorted by Y, highest first, is the one the model
computes with `mergeSort`: the unstable `sort.Slice` of the code has no freedom -/
theorem bands_order_unique (fs : List Frag) (l : List Band)
    (hp : l.Perm (bandsUnsorted fs))
    (hs : l.Pairwise (fun a b => decide (a.y ≥ b.y) = true)) :
    l.map (·.frs) = bands fs := by
  unfold bands
  congr 1
  have hn := bands_ys_distinct fs
  have hm := List.mergeSort_perm (bandsUnsorted fs) (fun a b => decide (a.y ≥ b.y))
  have hsorted : ((bandsUnsorted fs).mergeSort (fun a b => decide (a.y ≥ b.y))).Pairwise
      (fun a b => decide (a.y ≥ b.y) = true) :=
    List.pairwise_mergeSort (le := fun a b : Band => decide (a.y ≥ b.y))
      (fun a b c h1 h2 => by
        simp only [ge_iff_le, decide_eq_true_eq] at *; exact Rat.le_trans h2 h1)
      (fun a b => by
        simp only [ge_iff_le, Bool.or_eq_true, decide_eq_true_eq]; exact Rat.le_total) _
  refine List.Perm.eq_of_pairwise (le := fun a b : Band => decide (a.y ≥ b.y) = true)
    ?_ hs hsorted (hp.trans hm.symm)
  intro a b ha hb h1 h2
  simp only [ge_iff_le, decide_eq_true_eq] at h1 h2
  exact nodup_map_inj (·.y) (bandsUnsorted fs) hn a (hp.subset ha) b (hm.subset hb)
    (Rat.le_antisymm h2 h1)

example : ([⟨20, [⟨0, 10, 20, 5, 10, 10, [97]⟩]⟩] : List Band).Perm
    (bandsUnsorted [⟨0, 10, 20, 5, 10, 10, [97]⟩]) := by
  simp [bandsUnsorted, addToBands]

/-! ## `mergeOverlappingBlocks` -/

/-- merging never makes more blocks -/
theorem mergeAll_length_le (ov : Block → Block → Bool) (bs : List Block) :
    (mergeAll ov bs).length ≤ bs.length := by
  suffices h : ∀ n, ∀ bs : List Block, bs.length ≤ n → (mergeAll ov bs).length ≤ bs.length from
    h _ bs (Nat.le_refl _)
  intro n
  induction n with
  | zero =>
    intro bs hb
    cases bs with
    | nil => simp [mergeAll]
    | cons b bs => simp at hb
  | succ n ih =>
    intro bs hb
    cases bs with
    | nil => simp [mergeAll]
    | cons b bs =>
      rw [mergeAll]
      have h1 := mergeInto_length ov b bs
      simp only [List.length_cons] at hb ⊢
      have h2 := ih (mergeInto ov b bs).2 (by omega)
      omega

/-- when no two blocks overlap, `mergeOverlappingBlocks` returns the blocks as they are -/
theorem mergeAll_no_overlap (ov : Block → Block → Bool) (bs : List Block)
    (h : ∀ a ∈ bs, ∀ b ∈ bs, ov a b = false) : mergeAll ov bs = bs := by
  induction bs with
  | nil => simp [mergeAll]
  | cons b bs ih =>
    rw [mergeAll]
    rw [mergeInto_none ov b bs (fun c hc => h b (by simp) c (List.mem_cons_of_mem _ hc))]
    simp only
    rw [ih (fun a ha c hc => h a (List.mem_cons_of_mem _ ha) c (List.mem_cons_of_mem _ hc))]

example : ∀ a ∈ ([mkBlock [], mkBlock []] : List Block), ∀ b ∈ ([mkBlock [], mkBlock []] : List Block),
    (fun _ _ => false) a b = false := fun _ _ _ _ => rfl

/-! ## The model of `strings.TrimSpace`, on every byte string -/

/-- `trimSpace s` is `s` without a prefix and a suffix of white space, and it neither starts nor
ends with white space: this determines it -/
theorem trimSpace_spec (s : Str) :
    ∃ a b, s = a ++ trimSpace s ++ b ∧ (∀ c ∈ a, isSpaceByte c = true) ∧
      (∀ c ∈ b, isSpaceByte c = true) ∧
      (∀ c, (trimSpace s).head? = some c → isSpaceByte c = false) ∧
      (∀ c, (trimSpace s).getLast? = some c → isSpaceByte c = false) := by
  rcases trimLeft_spec s with ⟨a, h1, h2, h3⟩
  rcases trimLeft_spec (trimLeft s).reverse with ⟨b, g1, g2, g3⟩
  have ht : trimLeft s = trimSpace s ++ b.reverse := by
    have := congrArg List.reverse g1
    simpa [trimSpace] using this
  refine ⟨a, b.reverse, ?_, h2, ?_, ?_, ?_⟩
  · rw [List.append_assoc, ← ht]; exact h1
  · intro c hc; exact g2 c (List.mem_reverse.mp hc)
  · intro c hc
    apply h3 c
    rw [ht]
    cases hts : trimSpace s with
    | nil => rw [hts] at hc; simp at hc
    | cons d t => rw [hts] at hc; simpa using hc
  · intro c hc
    apply g3 c
    simpa [trimSpace, List.getLast?_reverse] using hc

/-- trimming twice trims nothing more -/
theorem trimSpace_idempotent (s : Str) : trimSpace (trimSpace s) = trimSpace s := by
  rcases trimSpace_spec s with ⟨_, _, _, _, _, hh, hl⟩
  have e1 : trimLeft (trimSpace s) = trimSpace s := trimLeft_fixed _ hh
  have e2 : trimLeft (trimSpace s).reverse = (trimSpace s).reverse :=
    trimLeft_fixed _ (by simpa [List.head?_reverse] using hl)
  show (trimLeft (trimLeft (trimSpace s)).reverse).reverse = trimSpace s
  rw [e1, e2, List.reverse_reverse]

/-- a text of white space only trims to nothing, and only such a text does -/
theorem trimSpace_nil_iff (s : Str) : trimSpace s = [] ↔ visible s = false := by
  rw [visible_false_iff]
  constructor
  · intro h
    have := nonspace_trimSpace s
    rw [h] at this
    exact this.symm
  · intro h
    rcases trimSpace_spec s with ⟨_, _, _, _, _, hh, _⟩
    have hn : nonspace (trimSpace s) = [] := by rw [nonspace_trimSpace]; exact h
    cases hts : trimSpace s with
    | nil => rfl
    | cons d t =>
      rw [hts] at hh hn
      have hd := hh d (by simp)
      simp [nonspace, hd] at hn

/-! ## The sweep shared by line, paragraph and block grouping at its extremes -/

/-- a sweep that never breaks returns ONE group: the input as it is -/
theorem segment_never_break {α : Type} (brk : List α → α → List α → Bool)
    (hb : ∀ cur a rest, brk cur a rest = false) (l cur : List α) (hne : cur ++ l ≠ []) :
    segment brk l cur = [cur ++ l] := by
  induction l generalizing cur with
  | nil =>
    have : cur ≠ [] := by simpa using hne
    have he : cur.isEmpty = false := by cases cur <;> simp_all
    simp [segment, he]
  | cons a l ih =>
    simp only [segment, hb]
    cases cur with
    | nil => simpa using ih [a] (by simp)
    | cons c cur =>
      simp only [List.isEmpty_cons, Bool.false_eq_true, if_false]
      simpa using ih (c :: cur ++ [a]) (by simp)

/-- a sweep that always breaks returns every element as its own group -/
theorem segment_always_break {α : Type} (brk : List α → α → List α → Bool)
    (hb : ∀ cur a rest, brk cur a rest = true) (l : List α) (c : α) :
    segment brk l [c] = [c] :: l.map (fun a => [a]) := by
  induction l generalizing c with
  | nil => simp [segment]
  | cons a l ih => simp [segment, hb, ih]

example : ∀ (cur : List Nat) (a : Nat) (rest : List Nat), (fun _ _ _ => false) cur a rest = false :=
  fun _ _ _ => rfl

end Tabula.C09More
