import TabulaModel.Props.C17Budget
import TabulaModel.Props.C17Out
import TabulaModel.Props.C17Total
/-!
# C17, loose ends closed for all inputs

* `CellByRef` for every reference string (case, printed references),
* the remaining type attributes (`t="n"`, `t="d"`, anything unknown) and a dangling shared index,
* shared strings: no state carried from one `<si>` to the next,
* merged regions do not leak between sheets (changing the `<mergeCells>` of other sheets changes
  nothing of a sheet),
* line r+1 / field c of the text with `IncludeHeaders`,
* why the line/field claim stops at one-byte delimiters (two grids, one text).
-/
namespace Tabula.C17W
open Tabula.A1 Tabula.Sheet Tabula.Wb Tabula.C17 Tabula.C17A Tabula.C17B Tabula.C17O Tabula.C17T

/-! ## CellByRef -/

/-- `CellByRef` does not see the case of the reference -/
theorem cell_by_ref_case (s : Wb.Sheet) (ref : Str) : s.cellByRef (ref.map upper) = s.cellByRef ref := by
  unfold Sheet.cellByRef; rw [parse_case_insensitive]

/-- **`CellByRef(CellRef(c, r))` is the grid position `(r, c)`** for every pair with the column
within the bound of `ColumnToIndex` (and `none` = nil outside the grid, by `Grid.get`) -/
theorem cell_by_ref_printed (s : Wb.Sheet) (c r : Nat) (hc : c + 1 ≤ maxColumnNumber) (hr : r + 1 ≤ maxInt64) :
    s.cellByRef (cellRef (c : Int) (r : Int)) = s.rows.get r c := by
  unfold Sheet.cellByRef
  rw [cellref_roundtrip c r hc hr]
  exact cell_eq_get s r c

/-- a reference that does not parse names no cell -/
theorem cell_by_ref_invalid (s : Wb.Sheet) (ref : Str) (e : RefErr) (h : parseCellRef ref = .error e) :
    s.cellByRef ref = none := by
  unfold Sheet.cellByRef; rw [h]

/-! ## the remaining kinds -/

/-- `t="n"` (explicit number) and `t="d"` (ISO date) have no case of their own in the type
switch: with a `<v>` they are numbers shown as stored -/
theorem kind_n_d (shared : List Str) (x : CellXML) (old : Cell) (ht : x.t = [110] ∨ x.t = [100])
    (hv : x.v ≠ []) :
    (cellContent shared x old).value = x.v ∧ (cellContent shared x old).type = .num := by
  apply kind_number shared x old _ hv
  rcases ht with ht | ht <;> rw [ht] <;> decide

/-- a `t="s"` cell whose index is no number, negative or beyond the table: the cell is a string
cell and keeps the value it had (empty for a position addressed once) -/
theorem kind_shared_dangling (shared : List Str) (x : CellXML) (old : Cell) (ht : x.t = tS)
    (h : atoi x.v = none ∨ ∃ i, atoi x.v = some i ∧ (i < 0 ∨ (shared.length : Int) ≤ i)) :
    (cellContent shared x old).value = old.value ∧ (cellContent shared x old).type = .str := by
  unfold cellContent
  simp only [ht, if_true]
  rcases h with h | ⟨i, h, hi⟩
  · rw [h]; (constructor <;> first | rfl | trivial)
  · rw [h]
    rcases hi with hi | hi
    · have : ¬ (0 ≤ i) := by omega
      simp only [this, if_false]; (constructor <;> first | rfl | trivial)
    · by_cases h0 : 0 ≤ i
      · have : shared[i.toNat]? = none := by
          apply List.getElem?_eq_none; omega
        simp only [h0, if_true, this]; (constructor <;> first | rfl | trivial)
      · simp only [h0, if_false]; (constructor <;> first | rfl | trivial)

/-- the type switch is complete: whatever the attributes, the cell gets one of the six types, and
it stays untyped only for an element without type, `<v>` and `<f>` -/
theorem kind_untouched_iff (shared : List Str) (x : CellXML)
    (ht : x.t ≠ tS ∧ x.t ≠ tB ∧ x.t ≠ tE ∧ x.t ≠ tStr ∧ x.t ≠ tInline) :
    cellContent shared x {} = {} ↔ x.v = [] ∧ x.f = [] := by
  unfold cellContent
  simp only [ht.1, ht.2.1, ht.2.2.1, ht.2.2.2.1, ht.2.2.2.2, if_false]
  by_cases hv : x.v = []
  · by_cases hf : x.f = []
    · simp [hv, hf]
    · simp [hv, hf]
  · simp [hv]

/-! ## shared strings: nothing carried from one item to the next -/

/-- entry `i` of the table depends on `<si>` number `i` alone: whatever items come before (rich
text with many runs, empty items) or after -/
theorem shared_no_leak (before after : List SI) (si : SI) :
    (parseSharedStrings (before ++ si :: after))[before.length]? = some (sharedString si) := by
  rw [shared_table]; simp

/-- an `<si>` with neither text nor runs is the empty string (not the previous item's text) -/
theorem shared_empty_item : sharedString ⟨[], []⟩ = [] := by simp [sharedString]

/-! ## merged regions stay in their sheet -/

/-- two part lists that differ at most in the `<mergeCells>` of their parts -/
inductive SameButMerges : List (Option SheetXML) → List (Option SheetXML) → Prop
  | nil : SameButMerges [] []
  | none (ps qs) : SameButMerges ps qs → SameButMerges (none :: ps) (none :: qs)
  | some (x y ps qs) : x.name = y.name → x.rows = y.rows → x.member = y.member →
      SameButMerges ps qs → SameButMerges (some x :: ps) (some y :: qs)

/-- the state `parseWorksheets` threads through (members recorded, cells charged) does not read
any merge list -/
theorem stateAfter_merge_free (ps qs : List (Option SheetXML)) (h : SameButMerges ps qs) (j : Nat)
    (seen : List Str) (used : Nat) :
    stateAfter (ps.take j) seen used = stateAfter (qs.take j) seen used := by
  induction h generalizing j seen used with
  | nil => rfl
  | none ps qs _ ih =>
    cases j with
    | zero => rfl
    | succ j => simp only [List.take_succ_cons, stateAfter]; exact ih j seen used
  | some x y ps qs hn hr hm _ ih =>
    cases j with
    | zero => rfl
    | succ j =>
      simp only [List.take_succ_cons, stateAfter]
      have e1 : ∀ u f, fits u f x ↔ fits u f y := by
        intro u f; unfold fits gridSize allowance elements; rw [hr]
      have e2 : ∀ f, charge f x = charge f y := by
        intro f; unfold charge gridSize allowance elements; rw [hr]
      rw [hm, e2]
      simp only [e1]
      exact ih j _ _

/-- **no leak between sheets**: let two workbooks differ at most in the merge lists of their
parts, and agree on the part in position `s.index`.  Then the sheet `s` the first workbook loads
from that part is a sheet of the second workbook too — cell for cell, merge flags and spans
included: the merged regions declared in other sheets (any number, any shape) change nothing. -/
theorem merges_do_not_leak (shared : List Str) (ps qs : List (Option SheetXML)) (h : SameButMerges ps qs)
    (s : Wb.Sheet) (hs : s ∈ loadParts shared ps 0 [] 0) (x : SheetXML)
    (hq : qs[s.index]? = some (some x)) (hp : ps[s.index]? = some (some x)) :
    s ∈ loadParts shared qs 0 [] 0 := by
  obtain ⟨_, x', hx', hload⟩ := open_sheet_origin shared ps 0 [] 0 s hs
  simp only [Nat.sub_zero] at hx' hload
  rw [hp] at hx'
  simp only [Option.some.injEq] at hx'
  subst hx'
  rw [stateAfter_merge_free ps qs h s.index [] 0] at hload
  have hfit := (loadSheet_isSome_iff shared s.index _ _ x).mp ⟨s, hload⟩
  obtain ⟨t, ht, hti⟩ := (loadParts_at shared qs 0 [] 0 s.index x hq).mpr hfit
  simp only [Nat.zero_add] at hti
  obtain ⟨_, y, hy, hload'⟩ := open_sheet_origin shared qs 0 [] 0 t ht
  simp only [Nat.sub_zero] at hy hload'
  rw [hti, hq] at hy
  simp only [Option.some.injEq] at hy
  subst hy
  rw [hti, hload] at hload'
  simp only [Option.some.injEq] at hload'
  rw [hload']; exact ht

/-- non-vacuity: a second sheet gets a merged region A1:B2, the first sheet is loaded as before -/
example : SameButMerges
    [some ⟨[97], [⟨1, [⟨[65, 49], [], [49], [], none⟩]⟩], [], [109]⟩, some ⟨[98], [], [], [110]⟩]
    [some ⟨[97], [⟨1, [⟨[65, 49], [], [49], [], none⟩]⟩], [], [109]⟩, some ⟨[98], [], [[65, 49, 58, 66, 50]], [110]⟩] :=
  .some _ _ _ _ rfl rfl rfl (.some _ _ _ _ rfl rfl rfl .nil)

/-! ## text with sheet headers -/

/-- **line r+1 / field c with `IncludeHeaders`**: for a sheet whose name has no line break, the
first line of its block is `=== name ===`, and line `r+1` split at the (one-byte) delimiter has
the displayed value of `(r,c)` as field `c` -/
theorem text_header_line_field (o : ExtractOptions) (s : Wb.Sheet) (d : Nat) (hd : d ≠ 10)
    (hh : o.includeHeaders = true) (hdel : effDelimiter o = [d]) (hname : 10 ∉ s.name)
    (hg : s.rows ≠ []) (hrows : ∀ row ∈ s.rows, row ≠ [])
    (hclean : ∀ row ∈ s.rows, ∀ cell ∈ row, d ∉ cellText cell ∧ 10 ∉ cellText cell) (r c : Nat) :
    (splitOn 10 (sheetBlock o s))[0]? = some ([61, 61, 61, 32] ++ s.name ++ [32, 61, 61, 61]) ∧
    ((splitOn 10 (sheetBlock o s))[r + 1]?).bind (fun line => (splitOn d line)[c]?) =
      (s.rows.get r c).map cellText := by
  have hblock : sheetBlock o s =
      ([61, 61, 61, 32] ++ s.name ++ [32, 61, 61, 61]) ++ 10 :: sheetTextD [d] s.rows := by
    rw [text_header o s hh, hdel]; simp
  have hclean1 : (10 : Nat) ∉ ([61, 61, 61, 32] ++ s.name ++ [32, 61, 61, 61] : Str) := by
    intro hm
    simp only [List.mem_append, List.mem_cons, List.not_mem_nil, or_false] at hm
    rcases hm with (hm | hm) | hm
    · omega
    · exact hname hm
    · omega
  have hfirst : splitOn 10 ([61, 61, 61, 32] ++ s.name ++ [32, 61, 61, 61]) =
      [[61, 61, 61, 32] ++ s.name ++ [32, 61, 61, 61]] := by
    have := splitOn_intercalate 10 [[61, 61, 61, 32] ++ s.name ++ [32, 61, 61, 61]] (by simp)
      (by intro x hx; simp only [List.mem_singleton] at hx; rw [hx]; exact hclean1)
    simpa [intercalate] using this
  rw [hblock, splitOn_append_sep, hfirst]
  refine ⟨by simp, ?_⟩
  have := text_line_field_delim d hd s.rows hg hrows hclean r c
  simpa using this

/-! ## why the line/field claim stops at one-byte delimiters -/

/-- **counterexample for multi-byte delimiters**: with `Delimiter: "aa"` the rows `["a", "x"]` and
`["", "ax"]` - no value contains the delimiter - are written as the same line `aaax`, so no reader
of the text can tell field 0 = "a" from field 0 = "".  The line/field statement is therefore
claimed (and proved) for one-byte delimiters; for longer ones the structure theorem `text_render`
is all that holds in general. -/
theorem text_line_field_multibyte_counterexample :
    rowText [97, 97] [{ value := [97], type := .str }, { value := [120], type := .str }] =
      rowText [97, 97] [{ value := [], type := .str }, { value := [97, 120], type := .str }] ∧
    (cellText { value := [97], type := .str } ≠ cellText { value := [], type := .str }) := by
  decide

end Tabula.C17W
