import TabulaModel.Model.HFOffice
import TabulaModel.Lemmas.HeaderFooter
/-!
# C11 for DOCX, ODT and PPTX

Mechanism 4 of the property ("DOCX/ODT: paragraph removed only if equal to a header/footer part
line; PPTX: placeholder type") as theorems about the decision functions of `Model/HeaderFooter.lean`
and about the loops of `Model/HFOffice.lean` (`TextWithOptions`, `MarkdownWithOptions`).
-/
namespace Tabula.C11Office
open Tabula.HF Tabula.HFOffice

/-- the paragraph equals (after trimming) a non-blank line of one of the parts -/
def EqualsPartLine (t : Str) (parts : List Str) : Prop :=
  ∃ part ∈ parts, ∃ line ∈ splitLines part, trimSpace line ≠ [] ∧ trimSpace t = trimSpace line

theorem isEmpty_false_iff {s : Str} : s.isEmpty = false ↔ s ≠ [] := by
  cases s <;> simp

theorem matchesPartLine_iff (t : Str) (parts : List Str) :
    matchesPartLine (trimSpace t) parts = true ↔ EqualsPartLine t parts := by
  unfold matchesPartLine EqualsPartLine
  simp only [List.any_eq_true, Bool.and_eq_true, Bool.not_eq_true', beq_iff_eq]
  constructor
  · rintro ⟨part, hp, line, hl, hne, heq⟩
    exact ⟨part, hp, line, hl, isEmpty_false_iff.mp hne, heq⟩
  · rintro ⟨part, hp, line, hl, hne, heq⟩
    exact ⟨part, hp, line, hl, isEmpty_false_iff.mpr hne, heq⟩

/-- **paragraph_excluded_iff.** `shouldExcludeParagraph` (DOCX and ODT, same code) says yes exactly
when the paragraph is not blank and, with `ExcludeHeaders`, equals a non-blank line of a header part
or, with `ExcludeFooters`, of a footer part (comparison after `strings.TrimSpace`, case-sensitive,
whole line). -/
theorem paragraph_excluded_iff (t : Str) (hs fs : List Str) (exH exF : Bool) :
    shouldExcludeParagraph t hs fs exH exF = true ↔
      trimSpace t ≠ [] ∧ ((exH = true ∧ EqualsPartLine t hs) ∨ (exF = true ∧ EqualsPartLine t fs)) := by
  unfold shouldExcludeParagraph
  have hnil : trimSpace ([] : Str) = [] := by decide
  cases t with
  | nil => simp [hnil]
  | cons c cs =>
    simp only [List.isEmpty_cons, Bool.false_eq_true, if_false]
    cases hte : (trimSpace (c :: cs)).isEmpty with
    | true =>
      have : trimSpace (c :: cs) = [] := by
        cases h : trimSpace (c :: cs) with
        | nil => rfl
        | cons _ _ => rw [h] at hte; cases hte
      simp [this]
    | false =>
      have hne := isEmpty_false_iff.mp hte
      simp only [Bool.false_eq_true, if_false, Bool.or_eq_true, Bool.and_eq_true, matchesPartLine_iff]
      constructor
      · intro h; exact ⟨hne, h⟩
      · intro h; exact h.2

/-- **paragraph_removed_only_if.** A removed paragraph equals a header/footer part line of a kind that
was asked to be excluded. -/
theorem paragraph_removed_only_if (t : Str) (hs fs : List Str) (exH exF : Bool)
    (h : shouldExcludeParagraph t hs fs exH exF = true) :
    (exH = true ∧ EqualsPartLine t hs) ∨ (exF = true ∧ EqualsPartLine t fs) :=
  ((paragraph_excluded_iff t hs fs exH exF).mp h).2

example : shouldExcludeParagraph [32, 65, 67, 77, 69] [[65, 67, 77, 69, 10, 80, 49]] [] true false = true := by
  decide +kernel

/-- the two flags are independent here (unlike the PDF path): `ExcludeHeaders` consults the header
parts only, `ExcludeFooters` the footer parts only -/
theorem flags_independent (t : Str) (hs fs : List Str) :
    shouldExcludeParagraph t hs fs true false = shouldExcludeParagraph t hs [] true true ∧
    shouldExcludeParagraph t hs fs false true = shouldExcludeParagraph t [] fs true true := by
  unfold shouldExcludeParagraph matchesPartLine
  cases t.isEmpty <;> cases (trimSpace t).isEmpty <;> simp

/-- without a flag, or without header and footer parts, nothing is excluded -/
theorem no_flag_nothing_excluded (t : Str) (hs fs : List Str) : shouldExcludeParagraph t hs fs false false = false := by
  unfold shouldExcludeParagraph
  cases t.isEmpty <;> cases (trimSpace t).isEmpty <;> simp

theorem no_parts_nothing_excluded (t : Str) (exH exF : Bool) : shouldExcludeParagraph t [] [] exH exF = false := by
  unfold shouldExcludeParagraph matchesPartLine
  cases t.isEmpty <;> cases (trimSpace t).isEmpty <;> simp

/-! ## the element loops -/

/-- **office_only_deletes.** The elements written are a sublist of the document's elements (same order);
every table is among them, and so is every paragraph that differs from all part lines. -/
theorem office_only_deletes (ps : Parts) (es : List Elem) :
    (keptElems ps es).Sublist es ∧
    (∀ t, Elem.table t ∈ es → Elem.table t ∈ keptElems ps es) ∧
    (∀ t, Elem.para t ∈ es → ¬ EqualsPartLine t ps.headers → ¬ EqualsPartLine t ps.footers →
      Elem.para t ∈ keptElems ps es) := by
  refine ⟨List.filter_sublist, ?_, ?_⟩
  · intro t ht
    exact List.mem_filter.mpr ⟨ht, rfl⟩
  · intro t ht h1 h2
    apply List.mem_filter.mpr
    refine ⟨ht, ?_⟩
    simp only [excluded, Bool.not_eq_true']
    cases h : shouldExcludeParagraph t ps.headers ps.footers ps.exH ps.exF with
    | false => rfl
    | true =>
      rcases paragraph_removed_only_if _ _ _ _ _ h with ⟨_, h'⟩ | ⟨_, h'⟩
      · exact absurd h' h1
      · exact absurd h' h2

/-- **office_removed_only_if.** An element that is not written is a paragraph equal to a part line of a
kind that was asked to be excluded. -/
theorem office_removed_only_if (ps : Parts) (es : List Elem) (e : Elem) (he : e ∈ es) (hr : e ∉ keptElems ps es) :
    ∃ t, e = .para t ∧ ((ps.exH = true ∧ EqualsPartLine t ps.headers) ∨ (ps.exF = true ∧ EqualsPartLine t ps.footers)) := by
  cases e with
  | table t => exact absurd (List.mem_filter.mpr ⟨he, rfl⟩) hr
  | para t =>
    refine ⟨t, rfl, ?_⟩
    cases h : shouldExcludeParagraph t ps.headers ps.footers ps.exH ps.exF with
    | true => exact paragraph_removed_only_if _ _ _ _ _ h
    | false => exact absurd (List.mem_filter.mpr ⟨he, by simp [excluded, h]⟩) hr

/-- **office_identity.** Without a flag, or for a document without header and footer parts, every writer
sees all elements. -/
theorem office_identity (ps : Parts) (es : List Elem)
    (h : (ps.exH = false ∧ ps.exF = false) ∨ (ps.headers = [] ∧ ps.footers = [])) : keptElems ps es = es := by
  unfold keptElems
  apply List.filter_eq_self.mpr
  intro e _
  cases e with
  | table t => rfl
  | para t =>
    simp only [excluded, Bool.not_eq_true']
    rcases h with ⟨h1, h2⟩ | ⟨h1, h2⟩
    · rw [h1, h2]; exact no_flag_nothing_excluded _ _ _
    · rw [h1, h2]; exact no_parts_nothing_excluded _ _ _

/-- **office_text_only_blanks_lines.** `TextWithOptions` writes one piece per element, joined by line
feeds; under exclusion each piece is the piece written without exclusion or — for a removed
paragraph — empty: the removed paragraph's line stays, blank. -/
theorem office_text_only_blanks_lines (ps : Parts) (es : List Elem) :
    officeText ps es = joinNL (es.map fun e => if excluded ps e then [] else elemText { ps with exH := false, exF := false } e) := by
  unfold officeText
  congr 1
  apply List.map_congr_left
  intro e _
  cases e with
  | table t => rfl
  | para t =>
    simp only [elemText, excluded, no_flag_nothing_excluded, Bool.false_eq_true, if_false]

example : officeText ⟨[[72]], [], true, false⟩ [.para [65], .para [72], .table [84], .para [66]] =
    [65, 10, 10, 84, 10, 66] := by decide +kernel

/-- `MarkdownWithOptions` under exclusion is `MarkdownWithOptions` without exclusion of the kept
elements -/
theorem office_markdown_of_kept (ps : Parts) (es : List Elem) :
    officeMarkdown ps es = officeMarkdown { ps with exH := false, exF := false } (keptElems ps es) := by
  unfold officeMarkdown
  rw [office_identity { ps with exH := false, exF := false } (keptElems ps es) (Or.inl ⟨rfl, rfl⟩)]

/-! ## PPTX -/

/-- **pptx_block_dropped_iff.** A non-title block is left out exactly when it sits in a footer
placeholder (`ftr`, `dt`, `sldNum`) and `ExcludeFooters` is on, or in the header placeholder (`hdr`)
and `ExcludeHeaders` is on — by placeholder type alone, whatever its text. -/
theorem pptx_block_dropped_iff (exH exF : Bool) (b : Block) (hb : b.isTitle = false) :
    blockKept exH exF b = false ↔
      (exF = true ∧ b.placeholder ∈ [[102, 116, 114], [100, 116], [115, 108, 100, 78, 117, 109]]) ∨
      (exH = true ∧ b.placeholder = [104, 100, 114]) := by
  unfold blockKept isFooterPlaceholder isHeaderPlaceholder
  rw [hb]
  cases exH <;> cases exF <;> simp <;>
    (by_cases h1 : b.placeholder = [102, 116, 114] <;> by_cases h2 : b.placeholder = [100, 116] <;>
      by_cases h3 : b.placeholder = [115, 108, 100, 78, 117, 109] <;> simp [h1, h2, h3])

theorem pptx_only_deletes (exH exF : Bool) (s : Slide) :
    (s.content.filter (blockKept exH exF)).Sublist (s.content.filter (blockKept false false)) := by
  have : s.content.filter (blockKept exH exF) =
      (s.content.filter (blockKept false false)).filter (blockKept exH exF) := by
    rw [List.filter_filter]
    apply List.filter_congr
    intro b _
    unfold blockKept
    cases b.isTitle <;> simp
  rw [this]
  exact List.filter_sublist

/-- a slide without header/footer placeholders is written as without exclusion -/
theorem pptx_identity (exH exF : Bool) (s : Slide)
    (h : ∀ b ∈ s.content, isFooterPlaceholder b.placeholder = false ∧ isHeaderPlaceholder b.placeholder = false) :
    slideText exH exF s = slideText false false s := by
  unfold slideText
  have : s.content.filter (blockKept exH exF) = s.content.filter (blockKept false false) := by
    apply List.filter_congr
    intro b hb
    unfold blockKept
    rw [(h b hb).1, (h b hb).2]
    simp
  rw [this]

example : pptxText false true [⟨[84], [⟨true, [116, 105, 116, 108, 101], [[84]]⟩, ⟨false, [98, 111, 100, 121], [[66]]⟩,
      ⟨false, [115, 108, 100, 78, 117, 109], [[51]]⟩], [78]⟩] =
    [84, 10, 10, 66, 10, 10, 91, 78, 111, 116, 101, 115, 58, 32, 78, 93, 10] := by decide +kernel

end Tabula.C11Office
