import TabulaModel.Model.StyleCache
import TabulaModel.Props.C16
/-!
# C16 — the style resolvers' cache never changes a heading level (call histories)

The readers resolve styles through a cache that fills while the package is read, in
document order. The theorems: for EVERY history of `Resolve` calls on one resolver each call
answers what the cache-free `resolveHeading` answers (cache invariant), hence the element
list the reader computes with its cache is the element list of `Model/Docx.lean`
(`Docx.elements`, the function the other C16 theorems are about): the level of a heading is
a function of its own paragraph and the style definitions, whichever styles were resolved
before it - in body paragraphs, runs or table cells.
-/
namespace Tabula.C16Cache
open Tabula.Xml Tabula.Docx

/-- the cache invariant: every stored answer is the computed one -/
def CacheInv (st : Styles) (c : Cache) : Prop := ∀ id h, cacheGet c id = some h → h = resolveHeading st id

theorem cacheInv_nil (st : Styles) : CacheInv st [] := by
  intro id h hg; simp [cacheGet] at hg

theorem cacheGet_cons (c : Cache) (k : Str) (v : Option Nat) (id : Str) :
    cacheGet ((k, v) :: c) id = if k == id then some v else cacheGet c id := by
  unfold cacheGet
  simp only [List.find?_cons]
  cases h : k == id <;> simp

theorem resolveHeading_empty (st : Styles) : resolveHeading st [] = none := by simp [resolveHeading]

/-- one call answers the computed value and keeps the invariant -/
theorem resolveCached_sound (st : Styles) (c : Cache) (id : Str) (hinv : CacheInv st c) :
    (resolveCached st c id).1 = resolveHeading st id ∧ CacheInv st (resolveCached st c id).2 := by
  unfold resolveCached
  by_cases he : id = []
  · simp only [he, if_true]; exact ⟨(resolveHeading_empty st).symm, hinv⟩
  · simp only [he, if_false]
    cases hg : cacheGet c id with
    | some h => exact ⟨hinv id h hg, hinv⟩
    | none =>
      refine ⟨rfl, ?_⟩
      intro id' h' hg'
      rw [cacheGet_cons] at hg'
      by_cases hk : (id == id') = true
      · simp only [hk, if_true, Option.some.injEq] at hg'
        have : id = id' := by simpa using hk
        rw [← hg', this]
      · simp only [hk, Bool.false_eq_true, if_false] at hg'
        exact hinv id' h' hg'

/-- **resolve_history_independent**. For every history of `Resolve` calls on one resolver -
any ids, any order, any repetition, starting from any cache that holds computed answers -
the k-th call answers what `resolveHeading` computes for its id. -/
theorem resolve_history_independent (st : Styles) : ∀ (ids : List Str) (c : Cache), CacheInv st c →
    (resolveSeq st c ids).1 = ids.map (resolveHeading st) ∧ CacheInv st (resolveSeq st c ids).2 := by
  intro ids
  induction ids with
  | nil => intro c h; exact ⟨rfl, h⟩
  | cons id rest ih =>
    intro c hinv
    obtain ⟨h1, h2⟩ := resolveCached_sound st c id hinv
    obtain ⟨h3, h4⟩ := ih _ h2
    simp only [resolveSeq, List.map_cons]
    exact ⟨by rw [h1, h3], h4⟩

/-- from a fresh resolver -/
theorem resolve_fresh (st : Styles) (ids : List Str) : (resolveSeq st [] ids).1 = ids.map (resolveHeading st) :=
  (resolve_history_independent st ids [] (cacheInv_nil st)).1

/-- non-vacuity: the cyclic pair of `Props/C16.lean`; B is asked for before A, A twice -/
example : (resolveSeq { defs := [C16.cycA, C16.cycB], defaultSz := 22 } [] [[66], [65], [65], [], [67]]).1
    = [some 3, some 3, some 3, none, none] := by decide +kernel

/-- `processParagraph` reads the resolver once, for the paragraph's own style id -/
theorem processParagraph_factors (st : Styles) (p : Node) :
    processParagraph st p = processParagraphH (resolveHeading st (styleIdOf p)) p := rfl

/-- one body element: same element, invariant kept -/
theorem processElementC_sound (st : Styles) (n : Node) (c : Cache) (hinv : CacheInv st c) :
    (processElementC st n c).1 = processElement st n ∧ CacheInv st (processElementC st n c).2 := by
  unfold processElementC processElement
  split
  · exact ⟨rfl, (resolve_history_independent st _ c hinv).2⟩
  · obtain ⟨h1, h2⟩ := resolveCached_sound st c (styleIdOf n) hinv
    refine ⟨?_, (resolve_history_independent st _ _ h2).2⟩
    simp only [h1, processParagraph_factors]

theorem processAllC_sound (st : Styles) : ∀ (nodes : List Node) (c : Cache), CacheInv st c →
    processAllC st nodes c = nodes.map (processElement st) := by
  intro nodes
  induction nodes with
  | nil => intro c _; rfl
  | cons n rest ih =>
    intro c hinv
    obtain ⟨h1, h2⟩ := processElementC_sound st n c hinv
    simp only [processAllC, List.map_cons, h1, ih _ h2]

/-- **elements_cache_transparent**. The element list the reader computes with its style cache
is `Docx.elements`: for every document and styles part, whatever the order in which styles
are met (a derived style before or after its ancestors, in the body or in table cells, once
or repeatedly). -/
theorem elements_cache_transparent (doc : Node) (styles : Option Node) : elementsC doc styles = elements doc styles := by
  unfold elementsC elements
  exact processAllC_sound _ _ [] (cacheInv_nil _)

/-- **heading_level_local**. The k-th element depends on the k-th body element and the style
definitions only: not on the elements before it, not on the cache they left behind. -/
theorem heading_level_local (st : Styles) (before : List Node) (n : Node) (after : List Node) :
    (processAllC st (before ++ n :: after) [])[before.length]? = some (processElement st n) := by
  rw [processAllC_sound st _ [] (cacheInv_nil st)]
  simp

/-- **direct_outline_level**. A paragraph whose style resolves to no heading and whose own
`w:outlineLvl` spells k ≤ 8 is a heading of level k+1; with a style that resolves to a heading
the style's level stands. The level is this paragraph's: `processParagraph` of another node
never sees it. -/
theorem direct_outline_level (st : Styles) (p : Node) :
    (∀ l, resolveHeading st (styleIdOf p) = some l → (processParagraph st p).heading = some l)
    ∧ (resolveHeading st (styleIdOf p) = none →
        (processParagraph st p).heading =
          (let o := childVal ((childNamed p.kids sPPr).map (·.kids) |>.getD []) sOutlineLvl
           if o ≠ [] then (parseOutlineLevel o).map (· + 1) else none)) := by
  rw [processParagraph_factors]
  constructor
  · intro l h; simp [processParagraphH, h]
  · intro h; simp [processParagraphH, h]

/-- the outline levels: "0".."8" give 1..9, "9" (body text) gives no heading -/
example : (List.range 10).map (fun k => parseOutlineLevel [48 + k]) =
    [some 0, some 1, some 2, some 3, some 4, some 5, some 6, some 7, some 8, none] := by decide +kernel

/-! ### ODT -/

def OdtCacheInv (defs : List Odt.StyleDef) (c : Odt.Cache) : Prop :=
  ∀ n h, Odt.cacheGet c n = some h → h = Odt.resolveHeading defs n

theorem odt_cacheGet_cons (c : Odt.Cache) (k : Str) (v : Option Nat) (n : Str) :
    Odt.cacheGet ((k, v) :: c) n = if k == n then some v else Odt.cacheGet c n := by
  unfold Odt.cacheGet
  simp only [List.find?_cons]
  cases h : k == n <;> simp

theorem odt_resolveCached_sound (defs : List Odt.StyleDef) (c : Odt.Cache) (n : Str) (hinv : OdtCacheInv defs c) :
    (Odt.resolveCached defs c n).1 = Odt.resolveHeading defs n ∧ OdtCacheInv defs (Odt.resolveCached defs c n).2 := by
  unfold Odt.resolveCached
  by_cases he : n = []
  · simp only [he, if_true]; exact ⟨by simp [Odt.resolveHeading], hinv⟩
  · simp only [he, if_false]
    cases hg : Odt.cacheGet c n with
    | some h => exact ⟨hinv n h hg, hinv⟩
    | none =>
      refine ⟨rfl, ?_⟩
      intro n' h' hg'
      rw [odt_cacheGet_cons] at hg'
      by_cases hk : (n == n') = true
      · simp only [hk, if_true, Option.some.injEq] at hg'
        have : n = n' := by simpa using hk
        rw [← hg', this]
      · simp only [hk, Bool.false_eq_true, if_false] at hg'
        exact hinv n' h' hg'

/-- **odt_resolve_history_independent** -/
theorem odt_resolve_history_independent (defs : List Odt.StyleDef) : ∀ (names : List Str) (c : Odt.Cache), OdtCacheInv defs c →
    (Odt.resolveSeq defs c names).1 = names.map (Odt.resolveHeading defs) ∧ OdtCacheInv defs (Odt.resolveSeq defs c names).2 := by
  intro names
  induction names with
  | nil => intro c h; exact ⟨rfl, h⟩
  | cons n rest ih =>
    intro c hinv
    obtain ⟨h1, h2⟩ := odt_resolveCached_sound defs c n hinv
    obtain ⟨h3, h4⟩ := ih _ h2
    simp only [Odt.resolveSeq, List.map_cons]
    exact ⟨by rw [h1, h3], h4⟩

/-- `processHeading` given what `Resolve(h.StyleName)` answered (proof-side factoring of `Odt.processHeading`) -/
def processHeadingH (h0 : Option Nat) (h : Node) : Odt.Para :=
  let lvl := match Odt.level19 (h.attr Odt.sOutlineLevel) with
    | some l => l
    | none =>
      match h0 with
      | some l => if l > 0 then l else 1
      | none => 1
  { text := Odt.paraText h, heading := some lvl, list := none }

/-- `processHeading` reads the resolver once, for the heading's own style name -/
theorem odt_processHeading_factors (defs : List Odt.StyleDef) (h : Node) :
    Odt.processHeading defs h = processHeadingH (Odt.resolveHeading defs (h.attr Odt.sStyleName)) h := rfl

/-- an accepted outline level is one of 1..10 -/
theorem level19_range (s : Str) (l : Nat) (hl : Odt.level19 s = some l) : 1 ≤ l ∧ l ≤ 10 := by
  unfold Odt.level19 at hl
  cases hp : parseNat? s with
  | none => simp [hp] at hl
  | some v =>
    simp only [hp] at hl
    by_cases hv : 1 ≤ v ∧ v ≤ 10
    · simp only [hv, and_self, if_true, Option.some.injEq] at hl; omega
    · simp [hv] at hl

/-- **odt_heading_level** (the precedence of the repaired `processHeading`, d316e04). The level
of a `text:h`: its own `text:outline-level` when that is one of 1..10, whatever the style says;
else the level its style resolves to (a `default-outline-level` in 1..10 of the style's own
definition, else what the style name says) when there is one; else 1. -/
theorem odt_heading_level (defs : List Odt.StyleDef) (h : Node) :
    (∀ l, Odt.level19 (h.attr Odt.sOutlineLevel) = some l → (Odt.processHeading defs h).heading = some l)
    ∧ (Odt.level19 (h.attr Odt.sOutlineLevel) = none →
        ∀ l, Odt.resolveHeading defs (h.attr Odt.sStyleName) = some l → 0 < l → (Odt.processHeading defs h).heading = some l)
    ∧ (Odt.level19 (h.attr Odt.sOutlineLevel) = none → Odt.resolveHeading defs (h.attr Odt.sStyleName) = none →
        (Odt.processHeading defs h).heading = some 1)
    ∧ (∀ l, Odt.level19 (h.attr Odt.sOutlineLevel) = some l → 1 ≤ l ∧ l ≤ 10) := by
  rw [odt_processHeading_factors]
  refine ⟨?_, ?_, ?_, ?_⟩
  · intro l hl; simp [processHeadingH, hl]
  · intro hn l hr hl; simp [processHeadingH, hn, hr, hl]
  · intro hn hr; simp [processHeadingH, hn, hr]
  · intro l hl; exact level19_range _ l hl

/-- **odt_heading_outline_level** (was `_partial` before d316e04). The statement of the
property at full strength: the level of a `text:h` is the outline level the heading says itself
(`text:outline-level` in 1..10; ODF 1.2 part 1, 5.1.2 and 19.844) - for EVERY style sheet and
every style name the heading carries: no definition chain, no `style:default-outline-level`
and no built-in name `Heading_20_N` changes it. -/
theorem odt_heading_outline_level (defs : List Odt.StyleDef) (h : Node) (l : Nat)
    (hl : Odt.level19 (h.attr Odt.sOutlineLevel) = some l) :
    (Odt.processHeading defs h).heading = some l := by
  simp [Odt.processHeading, hl]

example : Odt.level19 (Node.attr (.elem [116, 101, 120, 116, 58, 104] [([116, 101, 120, 116, 58] ++ Odt.sOutlineLevel, [51])] []) Odt.sOutlineLevel) = some 3 := by decide

/-- the level does not depend on the style sheet nor on the style the heading names, as long
as the heading says a valid level itself: two documents that differ in their styles only
report the same level for it -/
theorem odt_heading_level_style_independent (defs defs' : List Odt.StyleDef) (tag : Str) (attrs attrs' : List (Str × Str))
    (kids : List Node) (l : Nat)
    (hl : Odt.level19 (Node.attr (.elem tag attrs kids) Odt.sOutlineLevel) = some l)
    (hl' : Odt.level19 (Node.attr (.elem tag attrs' kids) Odt.sOutlineLevel) = some l) :
    (Odt.processHeading defs (.elem tag attrs kids)).heading = (Odt.processHeading defs' (.elem tag attrs' kids)).heading := by
  rw [odt_heading_outline_level defs _ l hl, odt_heading_outline_level defs' _ l hl']

/-- every level `detectBuiltInHeading` reads off a style name is one of 1..10 -/
theorem detectBuiltInHeading_range (name : Str) (l : Nat) (hd : Odt.detectBuiltInHeading name = some l) : 1 ≤ l ∧ l ≤ 10 := by
  unfold Odt.detectBuiltInHeading at hd
  simp only at hd
  split at hd
  · rename_i e he
    have hm := List.mem_of_find?_eq_some he
    have hall : ∀ e ∈ Odt.headingMap, 1 ≤ e.2 ∧ e.2 ≤ 10 := by decide
    simp only [Option.some.injEq] at hd
    rw [← hd]; exact hall e hm
  · split at hd
    · simp only [Option.some.injEq] at hd
      rw [← hd]
      unfold Odt.nameLevel
      split
      · omega
      · split
        · rename_i i hi
          have := List.mem_of_find?_eq_some hi
          simp only [List.mem_range] at this
          omega
        · omega
    · simp at hd

/-- every level a style resolves to is one of 1..10 -/
theorem odt_resolveHeading_range (defs : List Odt.StyleDef) (name : Str) (l : Nat)
    (hr : Odt.resolveHeading defs name = some l) : 1 ≤ l ∧ l ≤ 10 := by
  unfold Odt.resolveHeading at hr
  split at hr
  · simp at hr
  · split at hr
    · exact detectBuiltInHeading_range _ l hr
    · split at hr
      · rename_i d _ l' hl'
        simp only [Option.some.injEq] at hr
        rw [← hr]; exact level19_range _ l' hl'
      · exact detectBuiltInHeading_range _ l hr

/-- **odt_heading_level_range**. Every `text:h` is reported as a heading of a level in 1..10,
whatever its attributes and the style sheet say. -/
theorem odt_heading_level_range (defs : List Odt.StyleDef) (h : Node) :
    ∃ l, (Odt.processHeading defs h).heading = some l ∧ 1 ≤ l ∧ l ≤ 10 := by
  rw [odt_processHeading_factors]
  cases hl : Odt.level19 (h.attr Odt.sOutlineLevel) with
  | some l => exact ⟨l, by simp [processHeadingH, hl], level19_range _ l hl⟩
  | none =>
    cases hr : Odt.resolveHeading defs (h.attr Odt.sStyleName) with
    | none => exact ⟨1, by simp [processHeadingH, hl], by omega, by omega⟩
    | some l =>
      have := odt_resolveHeading_range defs _ l hr
      exact ⟨l, by simp [processHeadingH, hl]; omega, this⟩

/-! #### history: `processHeading` before d316e04 (`Odt.processHeadingOld`) -/

/-- **odt_heading_own_style_level_pinned_counterexample** (was finding
C16/odt-outline-level-vs-own-style-level; repaired in d316e04).
`<text:h text:style-name="Heading_20_1" text:outline-level="3">` in a document whose style
`Heading_20_1` carries `style:default-outline-level="1"`: the heading says level 3, the OLD
reader reported level 1 ("if style has heading level, prefer that"), and so it did with no
definition of the style at all (the level was then read off the built-in name). The repaired
`processHeading` reports level 3 on both. -/
theorem odt_heading_own_style_level_pinned_counterexample :
    let name : Str := [72, 101, 97, 100, 105, 110, 103, 95, 50, 48, 95, 49]
    let h : Node := .elem [116, 101, 120, 116, 58, 104]
      [([116, 101, 120, 116, 58] ++ Odt.sStyleName, name), ([116, 101, 120, 116, 58] ++ Odt.sOutlineLevel, [51])] [.text [88]]
    Odt.level19 (h.attr Odt.sOutlineLevel) = some 3
    ∧ (Odt.processHeadingOld [{ name := name, defaultOutline := [49] }] h).heading = some 1
    ∧ (Odt.processHeadingOld [] h).heading = some 1
    ∧ (Odt.processHeading [{ name := name, defaultOutline := [49] }] h).heading = some 3
    ∧ (Odt.processHeading [] h).heading = some 3 := by decide

/-- **odt_heading_old_precedence** (history). What the old `processHeading` reported: the level
the style resolves to when there is one, else the heading's own `text:outline-level` in 1..10,
else 1 (the former `odt_heading_level`). -/
theorem odt_heading_old_precedence (defs : List Odt.StyleDef) (h : Node) :
    (∀ l, Odt.resolveHeading defs (h.attr Odt.sStyleName) = some l → 0 < l → (Odt.processHeadingOld defs h).heading = some l)
    ∧ (Odt.resolveHeading defs (h.attr Odt.sStyleName) = none →
        (Odt.processHeadingOld defs h).heading = some ((Odt.level19 (h.attr Odt.sOutlineLevel)).getD 1)) := by
  refine ⟨?_, ?_⟩
  · intro l hr hl; simp [Odt.processHeadingOld, hr, hl]
  · intro hr; simp [Odt.processHeadingOld, hr]

/-- **odt_heading_repair_scope**. The repair changes the level of exactly the headings the
finding was about: old and repaired `processHeading` give the same paragraph unless the heading
says a valid level AND its style resolves to another one. -/
theorem odt_heading_repair_scope (defs : List Odt.StyleDef) (h : Node)
    (hs : Odt.level19 (h.attr Odt.sOutlineLevel) = none
      ∨ Odt.resolveHeading defs (h.attr Odt.sStyleName) = none
      ∨ Odt.resolveHeading defs (h.attr Odt.sStyleName) = Odt.level19 (h.attr Odt.sOutlineLevel)) :
    Odt.processHeadingOld defs h = Odt.processHeading defs h := by
  unfold Odt.processHeadingOld Odt.processHeading
  cases hl : Odt.level19 (h.attr Odt.sOutlineLevel) with
  | none =>
    cases hr : Odt.resolveHeading defs (h.attr Odt.sStyleName) <;> simp
  | some l =>
    have hl0 := (level19_range _ l hl).1
    cases hr : Odt.resolveHeading defs (h.attr Odt.sStyleName) with
    | none => simp
    | some l' =>
      rw [hl, hr] at hs
      have : l' = l := by simpa using hs
      subst this
      have : 0 < l' := by omega
      simp [this]

/-- and conversely: where the heading says a valid level and its style resolves to another
one, the old reader reported the style's level, the repaired one the heading's -/
theorem odt_heading_repair_effect (defs : List Odt.StyleDef) (h : Node) (l l' : Nat)
    (hl : Odt.level19 (h.attr Odt.sOutlineLevel) = some l)
    (hr : Odt.resolveHeading defs (h.attr Odt.sStyleName) = some l') :
    (Odt.processHeadingOld defs h).heading = some l' ∧ (Odt.processHeading defs h).heading = some l := by
  have h0 : 0 < l' := (odt_resolveHeading_range defs _ l' hr).1
  refine ⟨by simp [Odt.processHeadingOld, hr, h0], by simp [Odt.processHeading, hl]⟩

/-- a style whose own definition carries a default outline level in 1..10 gives that level -/
theorem odt_style_level (defs : List Odt.StyleDef) (name : Str) (d : Odt.StyleDef) (l : Nat)
    (hn : name ≠ []) (hd : Odt.lookup defs name = some d) (hl : Odt.level19 d.defaultOutline = some l) :
    Odt.resolveHeading defs name = some l := by
  simp [Odt.resolveHeading, hn, hd, hl]

example : Odt.level19 [49, 48] = some 10 ∧ Odt.level19 [49, 49] = none ∧ Odt.level19 [48] = none ∧ Odt.level19 [] = none := by decide

/-- **odt_list_nesting**. An item of a `text:list` nested d lists deep is a list item of level
d: its own paragraphs give one entry at the item's level (when they have text), the items of
the lists inside it follow one level deeper, in order. -/
theorem odt_list_nesting (level : Nat) (tag : Str) (attrs : List (Str × Str)) (kids : List Node) :
    Odt.listItemOf level (.elem tag attrs kids) =
      (let t := joinWith [32] (((childrenNamed kids Odt.sP).map Odt.paraText).filter (· ≠ []))
       if t ≠ [] then [(t, level)] else []) ++ Odt.subLists level kids := by
  simp [Odt.listItemOf]

/-- a nested list's items are one level deeper than the item that holds the list -/
theorem odt_sublist_level (level : Nat) (tag : Str) (attrs : List (Str × Str)) (kids rest : List Node)
    (hl : localName tag = Odt.sList) :
    Odt.subLists level (.elem tag attrs kids :: rest) = Odt.listItems (level + 1) kids ++ Odt.subLists level rest := by
  simp [Odt.subLists, hl]

end Tabula.C16Cache
