import TabulaModel.Props.C11Extract
import TabulaModel.Props.C10E2E
import TabulaModel.Props.C10Hist
/-!
# C11 at the level of the extractor: chains of calls, call histories, Text()

The statement of the property over the model of the public API:

  `tabula.Open(f).c₁…cₙ.<terminal>()`  /  `tabula.FromReader(r).c₁…cₙ.<terminal>()`

where the `cᵢ` are `Pages`, `PageRange`, `ExcludeHeaders`, `ExcludeFooters`,
`ExcludeHeadersAndFooters`, `JoinParagraphs`, `ByColumn`, `PreserveLayout` in any order and
multiplicity (C10's `Builder` model, imported read-only), possibly after an arbitrary history of
other requests on the same source.  `dropExcl cs` is the same request without its Exclude calls —
"the unfiltered result" of the property text.
-/
namespace Tabula.C11Chain
open Tabula.HF Tabula.HFX Tabula.PageSel Tabula.Builder Tabula.TextPipe Tabula.C11 Tabula.C11X

/-- one of the three Exclude calls -/
def isExcl (c : BCall) : Bool := C10E2E.setsHeaders c || C10E2E.setsFooters c

/-- the same chain of calls without the Exclude calls -/
def dropExcl (cs : List BCall) : List BCall := cs.filter fun c => !isExcl c

/-! ## what a chain configures -/

theorem dropExcl_cons (c : BCall) (cs : List BCall) :
    dropExcl (c :: cs) = if isExcl c then dropExcl cs else c :: dropExcl cs := by
  unfold dropExcl
  cases h : isExcl c <;> simp [h]

theorem selOf_dropExcl (cs : List BCall) : selOf (dropExcl cs) = selOf cs := by
  induction cs with
  | nil => rfl
  | cons c cs ih =>
    rw [dropExcl_cons]
    cases c <;> simp [isExcl, C10E2E.setsHeaders, C10E2E.setsFooters, selOf, ih]

theorem badRange_dropExcl (cs : List BCall) : badRange (dropExcl cs) = badRange cs := by
  induction cs with
  | nil => rfl
  | cons c cs ih =>
    rw [dropExcl_cons]
    cases c <;> simp [isExcl, C10E2E.setsHeaders, C10E2E.setsFooters, badRange, ih]

theorem any_isExcl (cs : List BCall) :
    cs.any isExcl = (cs.any C10E2E.setsHeaders || cs.any C10E2E.setsFooters) := by
  induction cs with
  | nil => rfl
  | cons c cs ih =>
    simp only [List.any_cons, ih, isExcl]
    cases C10E2E.setsHeaders c <;> cases C10E2E.setsFooters c <;> simp

theorem any_dropExcl (p : BCall → Bool) (hp : ∀ c, isExcl c = true → p c = false) (cs : List BCall) :
    (dropExcl cs).any p = cs.any p := by
  induction cs with
  | nil => rfl
  | cons c cs ih =>
    rw [dropExcl_cons]
    cases hc : isExcl c
    · simp [ih]
    · simp [ih, hp c hc]

theorem any_excl_dropExcl (p : BCall → Bool) (hp : ∀ c, p c = true → isExcl c = true) (cs : List BCall) :
    (dropExcl cs).any p = false := by
  unfold dropExcl
  rw [List.any_eq_false]
  intro c hc
  obtain ⟨_, h2⟩ := List.mem_filter.mp hc
  cases hpc : p c with
  | false => simp
  | true => have := hp c hpc; simp [this] at h2

/-- **chain_needHF.** A chain asks for detection iff its base did or one of its calls is an Exclude
call — wherever in the chain, however often, before or after the page calls. -/
theorem chain_needHF (e0 : Ext) (cs : List BCall) :
    needHF (chainFrom e0 cs).opts = (needHF e0.opts || cs.any isExcl) := by
  obtain ⟨h1, h2, _⟩ := C10E2E.options_commute cs e0
  unfold needHF
  rw [h1, h2]
  rw [any_isExcl]
  cases e0.opts.excludeHeaders <;> cases e0.opts.excludeFooters <;>
    cases cs.any C10E2E.setsHeaders <;> cases cs.any C10E2E.setsFooters <;> rfl

/-- **chain_plain.** Dropping the Exclude calls from a chain clears the two flags and changes no
other option (the base carrying no flag). -/
theorem chain_plain (e0 : Ext) (h0 : needHF e0.opts = false) (cs : List BCall) :
    (chainFrom e0 (dropExcl cs)).opts = plain (chainFrom e0 cs).opts := by
  obtain ⟨a1, a2, a3, a4, a5⟩ := C10E2E.options_commute (dropExcl cs) e0
  obtain ⟨b1, b2, b3, b4, b5⟩ := C10E2E.options_commute cs e0
  have p1 := (C10E2E.chain_cfg (dropExcl cs) e0).1
  have p2 := (C10E2E.chain_cfg cs e0).1
  have hH : e0.opts.excludeHeaders = false := by
    unfold needHF at h0; cases h : e0.opts.excludeHeaders <;> simp [h] at h0 ⊢
  have hF : e0.opts.excludeFooters = false := by
    unfold needHF at h0; cases h : e0.opts.excludeFooters <;> simp [h] at h0 ⊢
  have e1 : (dropExcl cs).any C10E2E.setsHeaders = false :=
    any_excl_dropExcl _ (fun c hc => by simp [isExcl, hc]) cs
  have e2 : (dropExcl cs).any C10E2E.setsFooters = false :=
    any_excl_dropExcl _ (fun c hc => by simp [isExcl, hc]) cs
  have e3 : (dropExcl cs).any C10E2E.setsByColumn = cs.any C10E2E.setsByColumn :=
    any_dropExcl _ (fun c hc => by cases c <;> simp_all [isExcl, C10E2E.setsHeaders, C10E2E.setsFooters, C10E2E.setsByColumn]) cs
  have e4 : (dropExcl cs).any C10E2E.setsLayout = cs.any C10E2E.setsLayout :=
    any_dropExcl _ (fun c hc => by cases c <;> simp_all [isExcl, C10E2E.setsHeaders, C10E2E.setsFooters, C10E2E.setsLayout]) cs
  have e5 : (dropExcl cs).any C10E2E.setsJoin = cs.any C10E2E.setsJoin :=
    any_dropExcl _ (fun c hc => by cases c <;> simp_all [isExcl, C10E2E.setsHeaders, C10E2E.setsFooters, C10E2E.setsJoin]) cs
  have hsplit : ∀ (a b : Options), a.pages = b.pages → a.excludeHeaders = b.excludeHeaders →
      a.excludeFooters = b.excludeFooters → a.byColumn = b.byColumn → a.preserveLayout = b.preserveLayout →
      a.joinParagraphs = b.joinParagraphs → a = b := by
    intro a b; cases a; cases b; simp_all
  apply hsplit
  · rw [p1, selOf_dropExcl]; simp only [plain]; rw [p2]
  · rw [a1, hH, e1]; rfl
  · rw [a2, hF, e2]; rfl
  · rw [a3, e3]; simp only [plain]; rw [b3]
  · rw [a4, e4]; simp only [plain]; rw [b4]
  · rw [a5, e5]; simp only [plain]; rw [b5]

theorem termStatic_of_cfg (w : World) (k : Term) (e e' : Ext) (hp : e.opts.pages = e'.opts.pages)
    (herr : e.err = e'.err) (hfmt : e.format = e'.format) (hfile : e.hasFile = e'.hasFile) :
    termStatic w k e = termStatic w k e' := by
  have hb : termBodyF w k e = termBodyF w k e' := by
    unfold termBodyF termBody
    rw [hfmt, hp]
  unfold termStatic
  rw [herr, hfmt, hfile, hb]

/-- the frame of a terminal operation (open, builder error, page resolution) does not see the Exclude
calls -/
theorem frame_ignores_excl (w : World) (k : Term) (e0 : Ext) (cs : List BCall) :
    termStatic w k (chainFrom e0 (dropExcl cs)) = termStatic w k (chainFrom e0 cs) := by
  obtain ⟨a1, a2, a3, a4⟩ := C10E2E.chain_cfg (dropExcl cs) e0
  obtain ⟨b1, b2, b3, b4⟩ := C10E2E.chain_cfg cs e0
  apply termStatic_of_cfg
  · rw [a1, b1, selOf_dropExcl]
  · rw [a2, b2, badRange_dropExcl]
  · rw [a3, b3]
  · rw [a4, b4]

/-! ## the statement over the public API: one request -/

/-- **exclusion_only_deletes_end_to_end.** For every page-level operation `t` and every chain `cs` on
`Open(f)` or `FromReader(r)`: if the request succeeds then the same request without its Exclude calls
succeeds on the same pages, and page by page the fragments handed on with exclusion are a sublist of
those handed on without, which are the pages' own fragments.  ("Excluding headers and footers can
only delete text: the result is the unfiltered result minus some fragments, in the same order.") -/
theorem exclusion_only_deletes_end_to_end (t : Term) (src : Source) (e0 : Ext) (h0 : needHF e0.opts = false)
    (cs : List BCall) (rs : List (List Frag)) (h : inputsCall t src e0 cs = .ok rs) :
    ∃ us, inputsCall t src e0 (dropExcl cs) = .ok us ∧ Pointwise (fun r u => r.Sublist u) rs us := by
  unfold inputsCall at h ⊢
  rw [frame_ignores_excl, chain_plain e0 h0]
  cases hr : termStatic (worldOf src) t (chainFrom e0 cs) with
  | pages idx =>
    rw [hr] at h
    simp only [viaFrame] at h ⊢
    obtain ⟨us, hus, hsub, _⟩ := request_pages_only_delete _ src idx rs h
    exact ⟨us, hus, hsub⟩
  | _ => rw [hr] at h; simp [viaFrame] at h

/-- **exclusion_fails_alike_end_to_end.** The Exclude calls never decide whether a request fails. -/
theorem exclusion_fails_alike_end_to_end (t : Term) (src : Source) (e0 : Ext) (h0 : needHF e0.opts = false)
    (cs : List BCall) (e : E) :
    inputsCall t src e0 cs = .error e ↔ inputsCall t src e0 (dropExcl cs) = .error e := by
  unfold inputsCall
  rw [frame_ignores_excl, chain_plain e0 h0]
  cases hr : termStatic (worldOf src) t (chainFrom e0 cs) with
  | pages idx => simp only [viaFrame]; exact request_fails_with_or_without_flags _ _ src idx e
  | _ => simp [viaFrame]

theorem inputsOf_congr {o o' : Options} (h : needHF o = needHF o') (src : Source) (idx : List Nat) :
    inputsOf o src idx = inputsOf o' src idx := by
  unfold inputsOf
  exact collect_congr fun k _ => flags_one_switch o o' h src k

/-- **public_request_end_to_end.** A chain on `Open(pdf)` whose page calls are well-formed and denote
a non-empty set of pages inside the document answers every page-level operation, with an Exclude call
anywhere in it, by the per-page results of THE pages denoted (ascending, each once) under "a flag is
set"; without one, under "no flag is set".  All per-page theorems of `Props/C11Extract.lean`
(`body_untouched_request`, `removed_only_if_request`, `no_repetition_request`,
`repeated_removed_from_every_request`, …) speak about exactly these results. -/
theorem public_request_end_to_end (t : Term) (src : Source) (cs : List BCall)
    (hgood : badRange cs = false) (hne : selOf cs ≠ []) (hr : InRange (selOf cs) src.length) :
    inputsCall t src baseOpen cs =
      inputsOf (if cs.any isExcl then exclOn else {}) src (specPages (selOf cs) src.length) := by
  unfold inputsCall baseOpen
  have hp : (chainFrom {} cs).opts.pages = selOf cs := by
    have := (C10E2E.chain_cfg cs {}).1
    simpa using this
  rw [C10E2E.pdf_chain_static (worldOf src) t cs rfl, hgood]
  simp only [Bool.false_eq_true, if_false]
  rw [C10Life.every_terminal_selects (worldOf src) t _ src.length rfl (by rw [hp]; exact hne) (by rw [hp]; exact hr), hp]
  simp only [viaFrame]
  apply inputsOf_congr
  rw [chain_needHF]
  cases cs.any isExcl <;> rfl

/-- the same for a chain without page calls: every page of the document -/
theorem public_request_whole_document (t : Term) (src : Source) (cs : List BCall)
    (hgood : badRange cs = false) (hsel : selOf cs = []) (hn : t.needsPages = false ∨ src.length ≠ 0) :
    inputsCall t src baseOpen cs =
      inputsOf (if cs.any isExcl then exclOn else {}) src (List.range src.length) := by
  unfold inputsCall baseOpen
  have hp : (chainFrom {} cs).opts.pages = [] := by
    have := (C10E2E.chain_cfg cs {}).1
    simpa [hsel] using this
  rw [C10E2E.pdf_chain_static (worldOf src) t cs rfl, hgood]
  simp only [Bool.false_eq_true, if_false]
  rw [C10Life.every_terminal_no_selection (worldOf src) t _ src.length rfl hp]
  have : (t.needsPages && src.length == 0) = false := by
    rcases hn with h | h
    · simp [h]
    · have : (src.length == 0) = false := by simpa using h
      simp [this]
  simp only [this, Bool.false_eq_true, if_false, viaFrame]
  apply inputsOf_congr
  rw [chain_needHF]
  cases cs.any isExcl <;> rfl

/-- non-vacuity: `Open(f).ExcludeFooters().PageRange(1, 2).Pages(4, 1).Lines()` on `exSrc` -/
example : let cs := [BCall.excludeFooters, .pageRange 1 2, .pages [4, 1]]
    badRange cs = false ∧ selOf cs = [1, 2, 4, 1] ∧ InRange (selOf cs) exSrc.length ∧
    specPages (selOf cs) exSrc.length = [0, 1, 3] ∧
    inputsCall .lines exSrc baseOpen cs = .ok
      [[{ text := [66, 49], x := 72, y := 400, w := 120, h := 12, fs := 12 }],
       [{ text := [66, 50], x := 72, y := 400, w := 120, h := 12, fs := 12 }],
       [{ text := [66, 52], x := 72, y := 400, w := 120, h := 12, fs := 12 }]] := by
  refine ⟨by decide, by decide, ?_, by decide, by decide +kernel⟩
  intro p hp
  simp only [selOf, rangeList] at hp
  have : p = 1 ∨ p = 2 ∨ p = 4 := by
    simp at hp
    rcases hp with h | h | h | h <;> omega
  rcases this with h | h | h <;> subst h <;> decide

/-- what the property says about the fragments `fs` handed on for readable page `k` of `src` under
exclusion: only deletions, in order; the body band untouched (on a character-level page: the glyphs of
lines outside both bands); on a word-level page a deletion only in a margin band of that page and only
of a text that a region detected on ≥ 2 of the readable pages (and covering this page) has as its
pattern, or of a page-number pattern under a page-number region; on a character-level page the same
with the assembled LINE the glyph belongs to in place of the fragment (F8 repaired); and nothing at all
deleted when no marginal text repeats across the readable pages. -/
def PageStatement (src : Source) (k : Nat) (fs : List Frag) : Prop :=
  ∃ rp, src[k]? = some (some rp) ∧ fs.Sublist rp.frags ∧
    (isCharacterLevel rp.frags = false →
      ∀ f ∈ rp.frags, inTop (bands defaultConfig rp.frags rp.height) f = false →
        inBottom (bands defaultConfig rp.frags rp.height) f = false → f ∈ fs) ∧
    (isCharacterLevel rp.frags = true →
      ∀ f ∈ rp.frags, (∀ g ∈ charLines rp.frags, f ∈ g → ∀ l, assembleLine g = some l →
        inTop (bands defaultConfig (assembleFragmentsIntoLines rp.frags) rp.height) l = false ∧
        inBottom (bands defaultConfig (assembleFragmentsIntoLines rp.frags) rp.height) l = false) → f ∈ fs) ∧
    (isCharacterLevel rp.frags = false → ∀ f ∈ rp.frags, f ∉ fs →
      ∃ kind r, r ∈ (detect defaultConfig (collectAllPages src)).regions kind ∧
        DetectedAt defaultConfig (collectAllPages src) kind r ∧ (k : Int) ∈ r.pages ∧
        inRegion kind (bands defaultConfig rp.frags rp.height) f = true ∧
        (normalize (trimSpace f.text) = r.pattern ∨
          (r.isPageNumber = true ∧ isPageNumberPattern (normalize (trimSpace f.text)) = true))) ∧
    (isCharacterLevel rp.frags = true → ∀ f ∈ rp.frags, f ∉ fs →
      ∃ g ∈ charLines rp.frags, f ∈ g ∧ ∃ l, assembleLine g = some l ∧
        ∃ kind r, r ∈ (detect defaultConfig (collectAllPages src)).regions kind ∧
          DetectedAt defaultConfig (collectAllPages src) kind r ∧ (k : Int) ∈ r.pages ∧
          inRegion kind (bands defaultConfig (assembleFragmentsIntoLines rp.frags) rp.height) l = true ∧
          (normalize (trimSpace l.text) = r.pattern ∨
            (r.isPageNumber = true ∧ isPageNumberPattern (normalize (trimSpace l.text)) = true))) ∧
    ((∀ kind key, (distinctPages (groupOf (extractCandidates defaultConfig kind
        (preprocessPages (collectAllPages src))) key)).length < 2) → fs = rp.frags)

theorem pageStatement_of_input (o : Options) (src : Source) (k : Nat) (fs : List Frag)
    (h : pageInput o src k = .ok fs) : PageStatement src k fs := by
  obtain ⟨rp, hrp, _, hsub⟩ := request_only_deletes o src k fs h
  refine ⟨rp, hrp, hsub, ?_, ?_, ?_, ?_, ?_⟩
  · intro hword f hf ht hb
    obtain ⟨fs', h', hm⟩ := body_untouched_request o src k rp hrp f hf hword ht hb
    rw [h] at h'; cases h'; exact hm
  · intro hcl f hf hout
    obtain ⟨fs', h', hm⟩ := body_untouched_request_charlevel o src k rp hrp f hf hcl hout
    rw [h] at h'; cases h'; exact hm
  · intro hword f hf hrem
    exact (removed_only_if_request o src k rp hrp hword fs h f hf hrem).2
  · intro hcl f hf hrem
    exact (removed_only_if_request_charlevel o src k rp hrp hcl fs h f hf hrem).2
  · intro hrep
    have := no_repetition_request o src hrep k rp hrp
    rw [h] at this; cases this; rfl

/-- **statement_public_api.** The property over the model of the public API, in one statement: for
every page-level operation `t`, every chain `cs` on `Open(pdf)` that is well-formed and denotes a
non-empty set of pages inside the document, all of which can be read: the request succeeds and hands
on, for exactly the denoted pages in ascending order, fragment lists each of which satisfies
`PageStatement` — whatever other pages the document has (readable or not), wherever the Exclude and
page calls stand in the chain. (Liveness: `repeated_removed_from_every_request`.) -/
theorem statement_public_api (t : Term) (src : Source) (cs : List BCall)
    (hgood : badRange cs = false) (hne : selOf cs ≠ []) (hr : InRange (selOf cs) src.length)
    (hread : ∀ k ∈ specPages (selOf cs) src.length, ∃ rp, src[k]? = some (some rp)) :
    ∃ rs, inputsCall t src baseOpen cs = .ok rs ∧
      Pointwise (fun k fs => PageStatement src k fs) (specPages (selOf cs) src.length) rs := by
  rw [public_request_end_to_end t src cs hgood hne hr]
  generalize (if cs.any isExcl = true then exclOn else ({} : Options)) = o
  generalize specPages (selOf cs) src.length = idx at hread
  induction idx with
  | nil => exact ⟨[], rfl, .nil⟩
  | cons k ks ih =>
    obtain ⟨rs, hrs, hp⟩ := ih (fun j hj => hread j (by simp [hj]))
    obtain ⟨rp, hrp⟩ := hread k (by simp)
    have hk := pageInput_readable hrp o
    refine ⟨_ :: rs, ?_, .cons (pageStatement_of_input o src k _ hk) hp⟩
    unfold inputsOf at hrs ⊢
    simp only [collect, hk, hrs]

/-- **order_of_calls_irrelevant.** Two chains that denote the same set of pages and agree on "some
Exclude call occurs" hand every detector the same fragments: `Pages(S).ExcludeHeaders()`,
`ExcludeHeaders().Pages(S)`, `ExcludeFooters().Pages(S)`, `ExcludeHeadersAndFooters()` interleaved with
the page calls in any way. -/
theorem order_of_calls_irrelevant (t : Term) (src : Source) (cs₁ cs₂ : List BCall)
    (hg₁ : badRange cs₁ = false) (hg₂ : badRange cs₂ = false) (hne : selOf cs₁ ≠ [])
    (hr : InRange (selOf cs₁) src.length) (hsame : ∀ p, p ∈ selOf cs₁ ↔ p ∈ selOf cs₂)
    (hex : cs₁.any isExcl = cs₂.any isExcl) :
    inputsCall t src baseOpen cs₁ = inputsCall t src baseOpen cs₂ := by
  have hne₂ : selOf cs₂ ≠ [] := by
    intro h
    cases hs : selOf cs₁ with
    | nil => exact hne hs
    | cons a l => have := (hsame a).mp (by rw [hs]; simp); rw [h] at this; cases this
  have hr₂ : InRange (selOf cs₂) src.length := fun p hp => hr p ((hsame p).mpr hp)
  rw [public_request_end_to_end t src cs₁ hg₁ hne hr, public_request_end_to_end t src cs₂ hg₂ hne₂ hr₂, hex]
  have : specPages (selOf cs₁) src.length = specPages (selOf cs₂) src.length := by
    apply strictAsc_ext _ _ (specPages_strictAsc _ _) (specPages_strictAsc _ _)
    intro k
    rw [mem_specPages, mem_specPages]
    constructor
    · rintro ⟨h1, h2⟩; exact ⟨h1, (hsame _).mp h2⟩
    · rintro ⟨h1, h2⟩; exact ⟨h1, (hsame _).mpr h2⟩
  rw [this]

/-! ## call histories on one source -/

/-- the answers of a script predicted from the chains of calls alone -/
def staticScript (src : Source) (e0 : Ext) : List (List BCall) → List Op → List (Option (Except E (List (List Frag))))
  | _, [] => []
  | L, op :: ops =>
    (match op with
      | .term i t => some (match L[i]? with
        | some cs => inputsCall t src e0 cs
        | none => .error .builder)
      | _ => none) :: staticScript src e0 (lineage L [op]) ops

theorem histStep_store (src : Source) (s : Store) (op : Op) :
    (histStep src s op).1 = (step (worldOf src) s op).1 := by
  cases op <;> rfl

theorem histInputs_static (src : Source) (e0 : Ext) {L : List (List BCall)} {s : Store}
    (hs : StoreInv s) (hf : FamInv (worldOf src) s) (hl : LinInv e0 L s) (t : Term) (i : Nat) :
    (histInputs src t s i).2 = match L[i]? with
      | some cs => inputsCall t src e0 cs
      | none => .error .builder := by
  have hsome := C10Hist.lin_some hl i
  unfold histInputs
  simp only
  cases hL : L[i]? with
  | none =>
    rw [hL] at hsome
    cases he : s.exts[i]? with
    | none => rfl
    | some e => rw [he] at hsome; cases hsome
  | some cs =>
    rw [hL] at hsome
    cases he : s.exts[i]? with
    | none => rw [he] at hsome; cases hsome
    | some e =>
      simp only
      have hst := hl.2 i cs e hL he
      rw [terminal_static (worldOf src) t hs hf he, termStatic_congr _ t _ _ hst]
      have ho : e.opts = (chainFrom e0 cs).opts := by
        simp only [Ext.static, Prod.mk.injEq] at hst
        exact hst.1
      rw [ho]
      rfl

theorem script_answers_gen (src : Source) (e0 : Ext) (ops : List Op) :
    ∀ (L : List (List BCall)) (s : Store), StoreInv s → FamInv (worldOf src) s → LinInv e0 L s →
      histRun src s ops = staticScript src e0 L ops := by
  induction ops with
  | nil => intro L s _ _ _; rfl
  | cons op ops ih =>
    intro L s hs hf hl
    have hstore := histStep_store src s op
    have hl' : LinInv e0 (lineage L [op]) (step (worldOf src) s op).1 := lin_exec (worldOf src) e0 [op] hl
    have hrest := ih (lineage L [op]) (step (worldOf src) s op).1 (inv_step _ hs op) (fam_step _ hs hf op) hl'
    simp only [histRun, staticScript]
    rw [hstore, hrest]
    congr 1
    cases op with
    | term i t =>
      simp only [histStep]
      rw [histInputs_static src e0 hs hf hl t i]
    | _ => rfl

/-- **script_answers.** Whatever script of requests runs on ONE source — configuration calls deriving
new extractors from any earlier one, terminal operations, `PageCount` / `IsMultiColumn` /
`IsCharacterLevel`, `Close`, in any interleaving — every page-level operation hands its detectors
exactly what the chain of calls behind its receiver determines (`inputsCall`): no earlier request,
with or without exclusion, on the same or another extractor of the family, shows in a later answer. -/
theorem script_answers (src : Source) (ops : List Op) :
    histRun src openBase ops = staticScript src baseOpen [[]] ops ∧
    histRun src readerBase ops = staticScript src baseReader [[]] ops :=
  ⟨script_answers_gen src baseOpen ops _ _ inv_openBase (fam_openBaseF _ .pdf) (lin_base _ []),
   script_answers_gen src baseReader ops _ _ inv_readerBase (fam_readerBase _) (lin_base _ [true])⟩

/-- **history_request_independent.** After ANY history on the family grown from `Open(pdf)`, the
extractor built by the chain `cs` answers a page-level operation as the fresh chain
`Open(pdf).c₁…cₙ` does. -/
theorem history_request_independent (src : Source) (ops : List Op) (i : Nat) (cs : List BCall)
    (hl : (lineage [[]] ops)[i]? = some cs) (t : Term) :
    (histInputs src t (exec (worldOf src) openBase ops) i).2 = inputsCall t src baseOpen cs ∧
    (histInputs src t (exec (worldOf src) readerBase ops) i).2 = inputsCall t src baseReader cs := by
  constructor
  · have := histInputs_static src baseOpen (inv_exec _ ops inv_openBase)
      (fam_exec _ ops inv_openBase (fam_openBaseF _ .pdf)) (lin_exec (worldOf src) baseOpen ops (lin_base _ [])) t i
    rw [hl] at this
    exact this
  · have := histInputs_static src baseReader (inv_exec _ ops inv_readerBase)
      (fam_exec _ ops inv_readerBase (fam_readerBase _)) (lin_exec (worldOf src) baseReader ops (lin_base _ [true])) t i
    rw [hl] at this
    exact this

/-- non-vacuity: the unfiltered reference first, then exclusion derived from the same source, then a
page of it — the third answer is that of the fresh chain `Open(f).ExcludeHeaders().Pages(2)` -/
example : let ops := [Op.term 0 .lines, .derive 0 .excludeHeaders, .term 1 .paragraphs, .nonTerm 0 .pageCount,
      .derive 1 (.pages [2]), .term 2 .lines, .close 1]
    (lineage [[]] ops)[2]? = some [.excludeHeaders, .pages [2]] ∧
    (histRun exSrc openBase ops)[5]? = some (some (.ok
      [[{ text := [66, 50], x := 72, y := 400, w := 120, h := 12, fs := 12 }]])) ∧
    (histRun exSrc openBase ops)[0]? = some (some (.error .page)) := by
  refine ⟨by decide, by decide +kernel, by decide +kernel⟩

/-- the same after an arbitrary history on the source -/
theorem statement_after_history (t : Term) (src : Source) (ops : List Op) (i : Nat) (cs : List BCall)
    (hl : (lineage [[]] ops)[i]? = some cs)
    (hgood : badRange cs = false) (hne : selOf cs ≠ []) (hr : InRange (selOf cs) src.length)
    (hread : ∀ k ∈ specPages (selOf cs) src.length, ∃ rp, src[k]? = some (some rp)) :
    ∃ rs, (histInputs src t (exec (worldOf src) openBase ops) i).2 = .ok rs ∧
      Pointwise (fun k fs => PageStatement src k fs) (specPages (selOf cs) src.length) rs := by
  rw [(history_request_independent src ops i cs hl t).1]
  exact statement_public_api t src cs hgood hne hr hread

/-- the hypotheses of `statement_public_api` / `statement_after_history` are satisfiable: the chain
`ExcludeFooters().PageRange(1, 2).Pages(4, 1)` on `exSrc` names readable pages only -/
example : ∀ k ∈ specPages (selOf [BCall.excludeFooters, .pageRange 1 2, .pages [4, 1]]) exSrc.length,
    ∃ rp, exSrc[k]? = some (some rp) := by
  have : specPages (selOf [BCall.excludeFooters, .pageRange 1 2, .pages [4, 1]]) exSrc.length = [0, 1, 3] := by decide
  rw [this]
  intro k hk
  simp only [List.mem_cons, List.mem_nil_iff, or_false] at hk
  rcases hk with rfl | rfl | rfl <;> exact ⟨_, rfl⟩

/-- **repeated_removed_after_history** (liveness, composed). Under the hypotheses of
`repeated_removed_from_every_request` (≥ 2 readable pages, all word-level, every one carrying the
line / running page number `key` at the one marginal position): after ANY history on the source, an
extractor whose chain contains an Exclude call and well-formed page calls answers every page-level
operation with fragment lists — one per denoted page — none of which contains such a fragment. -/
theorem repeated_removed_after_history (src : Source) (kind : Kind) (key : HF.Str) (x0 d0 : Rat)
    (hn : 2 ≤ (collectAllPages src).length)
    (hword : ∀ (j : Nat) (rq : RawPage), src[j]? = some (some rq) → isCharacterLevel rq.frags = false)
    (hkey : 2 < key.length ∨ isPageNumberPattern key = true)
    (hpresent : ∀ (j : Nat) (rq : RawPage), src[j]? = some (some rq) → ∃ f ∈ rq.frags,
      inRegion kind (bands defaultConfig rq.frags rq.height) f = true ∧ normalize (trimSpace f.text) = key)
    (hpos : ∀ (j : Nat) (rq : RawPage), src[j]? = some (some rq) → ∀ f ∈ rq.frags,
      inRegion kind (bands defaultConfig rq.frags rq.height) f = true → normalize (trimSpace f.text) = key →
      f.x = x0 ∧ regionDist kind (bands defaultConfig rq.frags rq.height) f = d0)
    (ops : List Op) (i : Nat) (cs : List BCall) (hl : (lineage [[]] ops)[i]? = some cs)
    (hex : cs.any isExcl = true) (hgood : badRange cs = false) (hne : selOf cs ≠ [])
    (hr : InRange (selOf cs) src.length) (t : Term) (rs : List (List Frag))
    (h : (histInputs src t (exec (worldOf src) openBase ops) i).2 = .ok rs) :
    Pointwise (fun k fs => ∀ rp, src[k]? = some (some rp) → ∀ f ∈ rp.frags,
        inRegion kind (bands defaultConfig rp.frags rp.height) f = true →
        normalize (trimSpace f.text) = key → f ∉ fs)
      (specPages (selOf cs) src.length) rs := by
  rw [(history_request_independent src ops i cs hl t).1, public_request_end_to_end t src cs hgood hne hr, hex] at h
  simp only [if_true] at h
  have hp := (inputs_pagewise exclOn src _ rs).mp h
  exact hp.imp fun k fs hk rp hrp =>
    repeated_removed_from_every_request src kind key x0 d0 hn hword hkey hpresent hpos exclOn rfl k rp hrp fs hk

/-- **exclusion_statement_after_history.** The statement composed: after any history, an extractor
whose chain contains an Exclude call hands on, page by page, sublists of what the chain without the
Exclude calls — built afresh — hands on. -/
theorem exclusion_statement_after_history (src : Source) (ops : List Op) (i : Nat) (cs : List BCall)
    (hl : (lineage [[]] ops)[i]? = some cs) (t : Term) (rs : List (List Frag))
    (h : (histInputs src t (exec (worldOf src) openBase ops) i).2 = .ok rs) :
    ∃ us, inputsCall t src baseOpen (dropExcl cs) = .ok us ∧ Pointwise (fun r u => r.Sublist u) rs us := by
  rw [(history_request_independent src ops i cs hl t).1] at h
  exact exclusion_only_deletes_end_to_end t src baseOpen rfl cs rs h

/-! ## Text() -/

theorem heightOf_readable {src : Source} {k : Nat} {rp : RawPage} (h : src[k]? = some (some rp)) :
    heightOf src k = rp.height := by
  unfold heightOf; rw [h]

theorem widthOf_readable {src : Source} {k : Nat} {rp : RawPage} (h : src[k]? = some (some rp)) :
    widthOf src k = rp.width := by
  unfold widthOf; rw [h]

theorem widthOf_filteredSource (src : Source) (k : Nat) : widthOf (filteredSource src) k = widthOf src k := by
  unfold widthOf
  rw [filteredSource_getElem?]
  cases hs : src[k]? with
  | none => rfl
  | some ov => cases ov <;> rfl

theorem pageText_filteredSource (R : Renderers) (o : Options) (hf : needHF o = true) (src : Source) (k : Nat) :
    pageText (textEnv R src) o k = pageText (textEnv R (filteredSource src)) (plain o) k := by
  unfold pageText
  simp only [textEnv, hf, needHF_plain, if_true, Bool.false_eq_true, if_false, widthOf_filteredSource]
  cases hs : src[k]? with
  | none =>
    have h1 : readPage src k = .error .page := by unfold readPage; rw [hs]
    have h2 : readPage (filteredSource src) k = .error .page := by
      unfold readPage; rw [filteredSource_getElem?, hs]; rfl
    rw [h1, h2]; rfl
  | some ov =>
    cases ov with
    | none =>
      have h1 : readPage src k = .error .page := by unfold readPage; rw [hs]
      have h2 : readPage (filteredSource src) k = .error .page := by
        unfold readPage; rw [filteredSource_getElem?, hs]; rfl
      rw [h1, h2]; rfl
    | some rp =>
      have h1 : readPage src k = .ok rp := readPage_ok.mpr hs
      have h2 : readPage (filteredSource src) k =
          .ok { rp with frags := filterWith (hfResult exclOn src) k rp } := by
        apply readPage_ok.mpr; rw [filteredSource_getElem?, hs]; rfl
      rw [h1, h2]
      simp only [Except.map, heightOf_readable hs]
      cases rp
      rfl

/-- **text_exclusion_is_deletion_then_text.** `Text()` with a flag set equals `Text()` without flags on
the document whose pages carry only what exclusion keeps — for every assembler, both layout tests,
every outcome of OCR, every selection and text option: exclusion does nothing to `Text()` but delete
fragments before the page pipeline starts. -/
theorem text_exclusion_is_deletion_then_text (R : Renderers) (o : Options) (hf : needHF o = true)
    (src : Source) : textOp R o src = textOp R (plain o) (filteredSource src) := by
  unfold textOp textFull
  rw [filteredSource_length]
  have : pageText (textEnv R src) o = pageText (textEnv R (filteredSource src)) (plain o) :=
    funext fun k => pageText_filteredSource R o hf src k
  rw [this]
  rfl

/-- the same for the whole call `base.c₁…cₙ.Text()` -/
theorem text_call_is_deletion_then_text (R : Renderers) (src : Source) (e0 : Ext)
    (h0 : needHF e0.opts = false) (cs : List BCall) (hex : cs.any isExcl = true) :
    textCallOf R src e0 cs = textCallOf R (filteredSource src) e0 (dropExcl cs) := by
  unfold textCallOf textCall
  have hw : worldOf (filteredSource src) = worldOf src := by unfold worldOf; rw [filteredSource_length]
  rw [hw, frame_ignores_excl, chain_plain e0 h0]
  have hf : needHF (chainFrom e0 cs).opts = true := by rw [chain_needHF, hex]; simp
  have : pageText (textEnv R src) (chainFrom e0 cs).opts =
      pageText (textEnv R (filteredSource src)) (plain (chainFrom e0 cs).opts) :=
    funext fun k => pageText_filteredSource R _ hf src k
  rw [this]

/-- renderers for the examples: every assembler concatenates the fragments' texts -/
def catRenderers (ocr : Nat → Option HF.Str) : Renderers where
  ocr := ocr
  columnsGt1 _ _ := false
  render _ _ fs := (fs.map (·.text)).flatten

/-- without OCR: the running header and page number are gone from the text of every page -/
example : textOp (catRenderers fun _ => none) { excludeHeaders := true, pages := [1, 2, 4] } exSrc =
      .ok [66, 49, 10, 10, 66, 50, 10, 10, 66, 52] ∧
    textOp (catRenderers fun _ => none) { excludeHeaders := true } exSrc = .error .page := by
  decide +kernel

/-- **text_ocr_fallback_counterexample.** With an OCR engine compiled in (build tag `ocr`) the `Text()`
page loop falls back to OCR when a page has no fragments LEFT — also when exclusion removed them all.
On two pages that carry nothing but the running title, `Text()` with exclusion then returns the OCR
text of the page images, which the unfiltered `Text()` does not contain: at the level of `Text()`
"exclusion can only delete text" holds only in the sense of `text_exclusion_is_deletion_then_text`.
(The default build has no OCR engine: `ocr.New()` fails and the fallback yields nothing.) -/
theorem text_ocr_fallback_counterexample :
    let title : Frag := { text := [84, 105, 116, 108, 101], x := 72, y := 760, w := 30, h := 12, fs := 12 }
    let src : Source := [some { height := 792, frags := [title] }, some { height := 792, frags := [title] }]
    let R := catRenderers fun _ => some [79, 67, 82]
    textOp R {} src = .ok [84, 105, 116, 108, 101, 10, 10, 84, 105, 116, 108, 101] ∧
      textOp R { excludeHeaders := true } src = .ok [79, 67, 82, 10, 10, 79, 67, 82] ∧
      textOp (catRenderers fun _ => none) { excludeHeaders := true } src = .ok [] := by
  decide +kernel

/-- **text_without_ocr_from_kept_fragments_partial.** Without an OCR result for page `k` (the default
build) the text of page `k` under exclusion is the assembler's output on the kept fragments, which
are a sublist of the page's fragments. Missing w.r.t. "can only delete text": the assemblers are
C09's subject (parameters here), and with OCR results the statement fails
(`text_ocr_fallback_counterexample`). -/
theorem text_without_ocr_from_kept_fragments_partial (R : Renderers) (o : Options) (src : Source) (k : Nat)
    (rp : RawPage) (hrp : src[k]? = some (some rp)) (hocr : R.ocr k = none) :
    ∃ fs, pageInput o src k = .ok fs ∧ fs.Sublist rp.frags ∧
      pageText (textEnv R src) o k =
        .ok (R.render (textMode o (charLevelRoot fs) (multiColRoot R rp.width k fs)) k fs) := by
  obtain ⟨rp', hrp', _, hsub⟩ := request_only_deletes o src k _ (pageInput_readable hrp o)
  rw [hrp] at hrp'
  cases hrp'
  refine ⟨_, pageInput_readable hrp o, hsub, ?_⟩
  unfold pageText
  simp only [textEnv, readPage_ok.mpr hrp, Except.map, hocr, Option.filter, widthOf_readable hrp]
  cases hn : needHF o
  · simp
  · simp only [if_true, heightOf_readable hrp]
    rw [hfResult_of_readable hrp, needHF_exclOn]
    simp [filterWith, excludePage, pageOf]

end Tabula.C11Chain
