import TabulaModel.Props.C14Api
import TabulaModel.Lemmas.ExportJson
/-!
# C14 (part 4) — the JSON formats at text level

`Model/Json.lean` states what `encoding/json` is ASSUMED to write (Go 1.23 `appendString` with
HTML escaping, `json.Indent` layout, `Encode`'s trailing newline) — compared byte for byte with
the real library on every export of the correspondence run — and a standard RFC 8259 reader.
Here: the reader inverts the writer (strings, numbers, values, complete texts, JSON Lines), and,
chained with the record-level theorems, every JSON export of tabula (JSON, JSON Lines, stream,
batches, Pinecone, Chroma, Weaviate, `ToJSON`, `ToJSONL`) is well-formed for that reader and reads
back to one record per chunk, in order, with the chunk's id, text and metadata values — for all
chunk contents that are well-formed UTF-8 (the one thing JSON cannot carry otherwise:
`json_invalid_utf8_counterexample`).
-/
namespace Tabula.C14Json
open Tabula.Export Tabula.Csv Tabula.Json Tabula.C14 Tabula.C14Meta Tabula.C14Api
open Tabula.Split (validUtf8)

/-! ## the assumed `encoding/json` contract is invertible -/

/-- ASSUMED STDLIB CONTRACT, strings: the literal `appendString` writes for a well-formed UTF-8
string — whatever quotes, backslashes, control bytes, `<>&`, U+2028/2029, non-ASCII it contains —
is decoded by the reader to exactly that string, and the reader continues after the closing quote. -/
theorem json_string_roundtrip (s : Str) (hv : validUtf8 s = true) (t : Str) :
    parseStr (escBody s ++ 34 :: t) = some (s, t) :=
  parseStr_quote s hv t

example : validUtf8 [34, 92, 10, 0, 60, 0xE2, 0x80, 0xA8, 0xC3, 0xA9] = true := by
  rw [Tabula.Split.validUtf8_step _ (by decide)]; rw [Tabula.Split.validUtf8_step _ (by decide)]
  rw [Tabula.Split.validUtf8_step _ (by decide)]; rw [Tabula.Split.validUtf8_step _ (by decide)]
  rw [Tabula.Split.validUtf8_step _ (by decide)]; rw [Tabula.Split.validUtf8_step _ (by decide)]
  rw [Tabula.Split.validUtf8_step _ (by decide)]
  exact Tabula.Split.validUtf8_nil

/-- why the hypothesis: an ill-formed byte is written as `\ufffd`, which reads back as U+FFFD, not
as the byte — JSON cannot carry it (not a defect of tabula; assumption "valid UTF-8" of the property). -/
theorem json_invalid_utf8_counterexample :
    escBody [255] = uFFFD ∧ parseStr (escBody [255] ++ [34]) = some ([0xEF, 0xBF, 0xBD], []) := by
  have h : escBody [255] = uFFFD := by
    rw [escBody, escBody]
    simp (decide := true)
  refine ⟨h, ?_⟩
  rw [h]
  simp (decide := true) [uFFFD, parseStr, hex4, hexVal, utf8Enc, prepend]

/-- ASSUMED STDLIB CONTRACT, numbers: every Go `int` is printed as a number token of the RFC 8259
grammar made of number characters only -/
theorem int_is_json_number (i : Int) : validNum (decInt i) = true ∧ (decInt i).all isNumChar = true :=
  decInt_numOk i

/-- ASSUMED STDLIB CONTRACT, values: every well-formed value (strings well-formed UTF-8, numbers
tokens of the grammar; arrays and objects nested to any depth), written compactly or with
`SetIndent("", "  ")` and terminated by `Encode`'s newline, is a complete JSON text for the reader and
reads back to exactly that value (members in order). -/
theorem json_encode_roundtrip (pretty : Bool) (v : J) (hw : wf v = true) :
    jsonRead (encode pretty v) = some v := by
  unfold encode
  cases pretty with
  | true => exact jsonRead_write indent2 indent2_ws v hw [10] (by decide)
  | false => exact jsonRead_write compact compact_ws v hw [10] (by decide)

/-- … and in any other layout that only inserts white space, at any place a value may stand -/
theorem json_value_roundtrip (st : Style) (hst : StyleWs st) (v : J) (hw : wf v = true) (d f : Nat) (rest : Str)
    (hf : cost v ≤ f) (ht : termOk rest = true) :
    parseValue f (write st d v ++ rest) = some (v, rest) :=
  parseValue_write st hst v hw d f rest hf ht

/-- ASSUMED STDLIB CONTRACT, JSON Lines: one `Encode` per value gives a text whose lines (split at
LF) are exactly the values' texts — no value spans two lines — each a complete JSON text. -/
theorem jsonl_roundtrip (vs : List J) (h : ∀ v ∈ vs, wf v = true) :
    jsonlRead (vs.flatMap (encode false)) = some vs :=
  jsonlRead_encode vs h

example : wf (.obj [([97], .arr [.num [45, 49], .str [34], .null]), ([98], .bool true)]) = true := by
  simp only [wf, wfMembers, wfList, Bool.and_true, Bool.and_eq_true]
  refine ⟨⟨validUtf8_ascii _ (by decide), by decide, validUtf8_ascii _ (by decide)⟩, validUtf8_ascii _ (by decide)⟩

/-! ## what a record looks like in JSON -/

/-- the JSON object of a chunk under a configuration -/
def recordJ (cfg : Config) (c : Chunk) : J := exportedToJ (prepareChunkForExport cfg c)

/-- Members of a record's JSON object, from the chunk's own fields ("present-or-zero": every
member is `omitempty`, so an absent member means the empty/zero value): id, text (iff IncludeText),
the positional fields, and `metadata` = the object whose member `k` is the JSON form of
`exportedMeta cfg c.md k` (absent when the configuration excludes it or the value is empty). -/
theorem record_json_fields (cfg : Config) (c : Chunk) :
    (recordJ cfg c).get kId = (if c.id.isEmpty then none else some (.str c.id)) ∧
    (recordJ cfg c).get kText = (if cfg.includeText = false ∨ c.text.isEmpty then none else some (.str c.text)) ∧
    (recordJ cfg c).get kDocumentTitle = (if c.md.documentTitle.isEmpty then none else some (.str c.md.documentTitle)) ∧
    (recordJ cfg c).get kSectionTitle = (if c.md.sectionTitle.isEmpty then none else some (.str c.md.sectionTitle)) ∧
    (recordJ cfg c).get kSectionPath = (if c.md.sectionPath.isEmpty then none else some (jStrs c.md.sectionPath)) ∧
    (recordJ cfg c).get kPageStart = (if c.md.pageStart = 0 then none else some (.num (decInt c.md.pageStart))) ∧
    (recordJ cfg c).get kPageEnd = (if c.md.pageEnd = 0 then none else some (.num (decInt c.md.pageEnd))) ∧
    (recordJ cfg c).get kChunkIndex = (if c.md.chunkIndex = 0 then none else some (.num (decInt c.md.chunkIndex))) ∧
    (recordJ cfg c).get kHasTable = (if c.md.hasTable then some (.bool true) else none) ∧
    (recordJ cfg c).get kHasList = (if c.md.hasList then some (.bool true) else none) ∧
    (recordJ cfg c).get kHasImage = (if c.md.hasImage then some (.bool true) else none) ∧
    (∀ mj, (recordJ cfg c).get kMetadata = some mj →
      cfg.includeMetadata = true ∧ ∀ k, mj.get k = (exportedMeta cfg c.md k).map valToJ) ∧
    ((recordJ cfg c).get kMetadata = none → ∀ k, exportedMeta cfg c.md k = none) := by
  have key : ∀ k, (recordJ cfg c).get k =
      ((((((((((((getMember k (omitStr kId c.id)).or (getMember k (omitStr kText (if cfg.includeText then c.text else [])))).or
        (getMember k (match (prepareChunkForExport cfg c).metadata with
          | some m => if m.isEmpty then [] else [(kMetadata, mapToJ m)]
          | none => []))).or
        (getMember k (omitStr kDocumentTitle c.md.documentTitle))).or (getMember k (omitInt kPageStart c.md.pageStart))).or
        (getMember k (omitInt kPageEnd c.md.pageEnd))).or (getMember k (omitInt kChunkIndex c.md.chunkIndex))).or
        (getMember k (omitStr kSectionTitle c.md.sectionTitle))).or
        (getMember k (if c.md.sectionPath.isEmpty then [] else [(kSectionPath, jStrs c.md.sectionPath)]))).or
        (getMember k (omitBool kHasTable c.md.hasTable))).or (getMember k (omitBool kHasList c.md.hasList))).or
        (getMember k (omitBool kHasImage c.md.hasImage))) := by
    intro k
    simp only [recordJ, exportedToJ, J.get, getMember_append, prepareChunkForExport]
    rfl
  have hmd : ∀ k, k ≠ kMetadata → getMember k (match (prepareChunkForExport cfg c).metadata with
          | some m => if m.isEmpty then [] else [(kMetadata, mapToJ m)]
          | none => []) = none := by
    intro k hk
    split
    · split
      · rfl
      · have hne : ¬ kMetadata = k := fun e => hk e.symm
        simp [getMember, hne]
    · rfl
  have hpath : ∀ k, getMember k (if c.md.sectionPath.isEmpty then [] else [(kSectionPath, jStrs c.md.sectionPath)]) =
      if kSectionPath = k ∧ c.md.sectionPath.isEmpty = false then some (jStrs c.md.sectionPath) else none := by
    intro k
    by_cases hp : c.md.sectionPath.isEmpty = true
    · simp [hp, getMember]
    · by_cases hk : kSectionPath = k <;> simp [hp, hk, getMember]
  refine ⟨?_, ?_, ?_, ?_, ?_, ?_, ?_, ?_, ?_, ?_, ?_, ?_, ?_⟩
  · rw [key, hmd _ (by decide), hpath]
    simp (decide := true) only [getMember_omitStr, getMember_omitInt, getMember_omitBool]
    by_cases h : c.id.isEmpty = true <;> simp [h]
  · rw [key, hmd _ (by decide), hpath]
    simp (decide := true) only [getMember_omitStr, getMember_omitInt, getMember_omitBool]
    by_cases hi : cfg.includeText = true <;> by_cases ht : c.text.isEmpty = true <;> simp [hi, ht]
  · rw [key, hmd _ (by decide), hpath]
    simp (decide := true) only [getMember_omitStr, getMember_omitInt, getMember_omitBool]
    by_cases h : c.md.documentTitle.isEmpty = true <;> simp [h]
  · rw [key, hmd _ (by decide), hpath]
    simp (decide := true) only [getMember_omitStr, getMember_omitInt, getMember_omitBool]
    by_cases h : c.md.sectionTitle.isEmpty = true <;> simp [h]
  · rw [key, hmd _ (by decide), hpath]
    simp (decide := true) only [getMember_omitStr, getMember_omitInt, getMember_omitBool]
    by_cases h : c.md.sectionPath.isEmpty = true <;> simp [h]
  · rw [key, hmd _ (by decide), hpath]
    simp (decide := true) only [getMember_omitStr, getMember_omitInt, getMember_omitBool]
    by_cases h : c.md.pageStart = 0 <;> simp [h]
  · rw [key, hmd _ (by decide), hpath]
    simp (decide := true) only [getMember_omitStr, getMember_omitInt, getMember_omitBool]
    by_cases h : c.md.pageEnd = 0 <;> simp [h]
  · rw [key, hmd _ (by decide), hpath]
    simp (decide := true) only [getMember_omitStr, getMember_omitInt, getMember_omitBool]
    by_cases h : c.md.chunkIndex = 0 <;> simp [h]
  · rw [key, hmd _ (by decide), hpath]
    simp (decide := true) only [getMember_omitStr, getMember_omitInt, getMember_omitBool]
    by_cases h : c.md.hasTable = true <;> simp [h]
  · rw [key, hmd _ (by decide), hpath]
    simp (decide := true) only [getMember_omitStr, getMember_omitInt, getMember_omitBool]
    by_cases h : c.md.hasList = true <;> simp [h]
  · rw [key, hmd _ (by decide), hpath]
    simp (decide := true) only [getMember_omitStr, getMember_omitInt, getMember_omitBool]
    by_cases h : c.md.hasImage = true <;> simp [h]
  · intro mj hmj
    rw [key, hpath] at hmj
    simp (decide := true) [getMember_omitStr, getMember_omitInt, getMember_omitBool] at hmj
    obtain ⟨hspec, hoff, hnd⟩ := exported_metadata_spec cfg c
    cases hm : (prepareChunkForExport cfg c).metadata with
    | none => rw [hm] at hmj; simp [getMember] at hmj
    | some m =>
      rw [hm] at hmj
      have hi : cfg.includeMetadata = true := by
        by_cases hi : cfg.includeMetadata = true
        · exact hi
        · have := hoff (by simpa using hi); rw [hm] at this; cases this
      by_cases he : m = []
      · simp [he, getMember] at hmj
      · simp [he, getMember] at hmj
        refine ⟨hi, ?_⟩
        intro k
        rw [← hmj, mapToJ_get m (hnd m hm).1 k]
        have := hspec k
        rw [hm] at this
        simp only [Option.bind_some] at this
        rw [this]
  · intro hnone k
    rw [key, hpath] at hnone
    simp (decide := true) [getMember_omitStr, getMember_omitInt, getMember_omitBool] at hnone
    obtain ⟨hspec, _, _⟩ := exported_metadata_spec cfg c
    have := hspec k
    cases hm : (prepareChunkForExport cfg c).metadata with
    | none => rw [hm] at this; simpa using this.symm
    | some m =>
      rw [hm] at hnone this
      by_cases he : m = []
      · subst he
        simpa [mapLookup] using this.symm
      · simp [he, getMember] at hnone

/-- every record's JSON value is well-formed when the chunk's strings are well-formed UTF-8 -/
theorem record_wf (cfg : Config) (c : Chunk) (h : chunkValid c = true) : wf (recordJ cfg c) = true :=
  wf_exportedToJ cfg c h

/-! ## JSON and JSON Lines exports, end to end -/

/-- END TO END (JSON): for every collection of well-formed-UTF-8 chunks and every configuration
(PrettyPrint on or off, any metadata selection), `ExportToString` succeeds, its text is a complete
JSON text for the reader, and it reads back to an array with exactly one record per chunk, in
collection order, each the `recordJ` of its chunk (see `record_json_fields` for its members). -/
theorem export_json_parses_back (cfg : Config) (hf : cfg.format = .json) (chunks : List Chunk)
    (hv : ∀ c ∈ chunks, chunkValid c = true) :
    ∃ text, exportToString cfg chunks = some text ∧
      jsonRead text = some (.arr (chunks.map (recordJ cfg))) := by
  refine ⟨exportJSONText cfg chunks, by simp [exportToString, hf], ?_⟩
  unfold exportJSONText
  rw [exportRecords_eq_map, List.map_map]
  apply json_encode_roundtrip
  simp only [wf]
  exact wfList_map _ _ (fun c hc => record_wf cfg c (hv c hc))

/-- END TO END (JSON Lines): likewise; the text has exactly one line per chunk, in order, each line
a complete JSON text that reads back to the `recordJ` of its chunk (never indented, whatever
PrettyPrint says). -/
theorem export_jsonl_parses_back (cfg : Config) (hf : cfg.format = .jsonl) (chunks : List Chunk)
    (hv : ∀ c ∈ chunks, chunkValid c = true) :
    ∃ text, exportToString cfg chunks = some text ∧
      jsonlRead text = some (chunks.map (recordJ cfg)) ∧
      splitLines text = chunks.map (fun c => marshal (recordJ cfg c)) := by
  have e0 : encode false = fun a => write compact 0 a ++ [10] := by
    funext a; simp [encode]
  have etext : exportJSONLText cfg chunks = (chunks.map (recordJ cfg)).flatMap (encode false) := by
    unfold exportJSONLText exportJSONL
    rw [exportRecords_eq_map, e0]
    simp [List.flatMap_map, recordJ, marshal]
  refine ⟨exportJSONLText cfg chunks, by simp [exportToString, hf], ?_, ?_⟩
  · rw [etext]
    apply jsonl_roundtrip
    intro v hvm
    obtain ⟨c, hc, e⟩ := List.mem_map.mp hvm
    rw [← e]; exact record_wf cfg c (hv c hc)
  · rw [etext, e0]
    have : (chunks.map (recordJ cfg)).flatMap (fun a => write compact 0 a ++ [10]) =
        (chunks.map (fun c => marshal (recordJ cfg c))).flatMap (fun l => l ++ [10]) := by
      simp [List.flatMap_map, marshal]
    rw [this, splitLines_lines]
    intro l hl
    obtain ⟨c, hc, e⟩ := List.mem_map.mp hl
    rw [← e]
    exact write_compact_no_lf _ (record_wf cfg c (hv c hc)) 0

/-- the format dispatch of `(*Exporter).Export`: JSON formats always succeed, an unknown format
value is an error, CSV/TSV is `exportCSV` (whose result does not depend on how `json.Marshal` is
modelled: `marshal_irrelevant`) and succeeds for every valid delimiter -/
theorem export_dispatch (cfg : Config) (chunks : List Chunk) :
    (cfg.format = .json ∨ cfg.format = .jsonl → (exportToString cfg chunks).isSome = true) ∧
    (cfg.format = .other → exportToString cfg chunks = none) ∧
    (cfg.format = .csv ∨ cfg.format = .tsv →
      (∀ marshal, exportToString cfg chunks = exportCSV marshal cfg chunks) ∧
      (validDelim (delimiter cfg) → (exportToString cfg chunks).isSome = true)) := by
  refine ⟨?_, ?_, ?_⟩
  · rintro (h | h) <;> simp [exportToString, h]
  · intro h; simp [exportToString, h]
  · intro h
    have e : exportToString cfg chunks = exportCSV goMarshal cfg chunks := by
      rcases h with h | h <;> simp [exportToString, h]
    refine ⟨fun m => by rw [e]; exact (marshal_irrelevant goMarshal m cfg chunks).2, ?_⟩
    intro hd
    obtain ⟨t, ht, _⟩ := export_csv_parses_back goMarshal cfg chunks hd
    rw [e, ht]; rfl

/-- PUBLIC API, no hypothesis on the configuration left: `ToJSON` (indented array) and `ToJSONL`
succeed for every collection and read back to one `recordJ` per chunk, in order, under the
library's default selection (all metadata, text included); `ToCSV` / `ToTSV` are the exports of
`to_csv_tsv_end_to_end`. -/
theorem to_json_jsonl_end_to_end (chunks : List Chunk) (hv : ∀ c ∈ chunks, chunkValid c = true) :
    (∃ text, toJSON chunks = some text ∧ jsonRead text = some (.arr (chunks.map (recordJ toJSONConfig)))) ∧
    (∃ text, toJSONL chunks = some text ∧ jsonlRead text = some (chunks.map (recordJ jsonlExportConfig))) ∧
    (∀ marshal, toCSV chunks = exportCSV marshal csvExportConfig chunks ∧
      toTSV chunks = exportCSV marshal tsvExportConfig chunks) := by
  refine ⟨export_json_parses_back toJSONConfig rfl chunks hv, ?_, ?_⟩
  · obtain ⟨t, h1, h2, _⟩ := export_jsonl_parses_back jsonlExportConfig rfl chunks hv
    exact ⟨t, h1, h2⟩
  · intro m
    exact ⟨((export_dispatch csvExportConfig chunks).2.2 (Or.inl rfl)).1 m,
      ((export_dispatch tsvExportConfig chunks).2.2 (Or.inr rfl)).1 m⟩

example : chunkValid { id := [99, 34, 10], text := [0xC3, 0xA9, 44, 9], md := {} } = true := by
  have h1 : validUtf8 [99, 34, 10] = true := validUtf8_ascii _ (by decide)
  have h2 : validUtf8 [0xC3, 0xA9, 44, 9] = true := by
    rw [Tabula.Split.validUtf8_step _ (by decide)]; exact validUtf8_ascii _ (by decide)
  have h0 : validUtf8 [] = true := Tabula.Split.validUtf8_nil
  simp [chunkValid, metaValid, strsValid, h1, h2, h0]

example : toJSONConfig.format = .json ∧ jsonlExportConfig.format = .jsonl ∧
    (jsonlExportConfig.format = .jsonl ∨ jsonlExportConfig.format = .json) := by
  decide

/-! ## streaming and batching at text level -/

/-- HISTORY (text level): after ANY sequence of `WriteChunk` / `Close` calls on a JSON or JSON
Lines stream, the bytes written are exactly the JSON Lines export of the chunks written, in call
order; they read back line by line to one record per successful call. -/
theorem stream_text_parses_back (cfg : Config) (hf : cfg.format = .jsonl ∨ cfg.format = .json)
    (calls : List StreamCall) (hv : ∀ c ∈ writtenChunks calls, chunkValid c = true) :
    streamText (streamRun cfg calls ⟨[], []⟩).written = exportJSONLText cfg (writtenChunks calls) ∧
    jsonlRead (streamText (streamRun cfg calls ⟨[], []⟩).written) =
      some ((writtenChunks calls).map (recordJ cfg)) := by
  have hw := ((stream_history cfg calls).1 hf).1
  have e0 : encode false = fun a => write compact 0 a ++ [10] := by
    funext a; simp [encode]
  have e1 : streamText (streamRun cfg calls ⟨[], []⟩).written = exportJSONLText cfg (writtenChunks calls) := by
    rw [hw]
    unfold streamText exportJSONLText exportJSONL
    rw [e0]
    simp [marshal]
  refine ⟨e1, ?_⟩
  rw [e1]
  have : exportJSONLText cfg (writtenChunks calls) = ((writtenChunks calls).map (recordJ cfg)).flatMap (encode false) := by
    unfold exportJSONLText exportJSONL
    rw [exportRecords_eq_map, e0]
    simp [List.flatMap_map, recordJ, marshal]
  rw [this]
  apply jsonl_roundtrip
  intro v hvm
  obtain ⟨c, hc, e⟩ := List.mem_map.mp hvm
  rw [← e]; exact record_wf cfg c (hv c hc)

/-- batches at text level: for a supported format (JSON, JSON Lines, or CSV/TSV with a valid
delimiter) and a callback that never fails, every batch of the partition is delivered, and the
`Data` of each is the complete export (`exportToString`) of exactly its slice — so the per-format
end-to-end theorems apply to every batch, and the slices concatenate to the collection. -/
theorem batch_text_end_to_end (cfg : Config) (size : Nat) (hs : 1 ≤ size) (chunks : List Chunk)
    (hok : cfg.format = .json ∨ cfg.format = .jsonl ∨
      ((cfg.format = .csv ∨ cfg.format = .tsv) ∧ validDelim (delimiter cfg))) :
    ∃ calls, batchExportRun size (exportToString cfg) (fun _ _ => true) chunks = some (calls, .ok) ∧
      calls.flatMap (·.1.items) = chunks ∧
      ∀ p ∈ calls, exportToString cfg p.1.items = some p.2 := by
  obtain ⟨bs, calls, res, hbs, hrun, hcat, hpre, hdata, _, hokk, _, herr⟩ :=
    batch_history size hs (exportToString cfg) (fun _ _ => true) chunks
  have hsome : ∀ l, (exportToString cfg l).isSome = true := by
    intro l
    rcases hok with h | h | ⟨h, hd⟩
    · exact (export_dispatch cfg l).1 (Or.inl h)
    · exact (export_dispatch cfg l).1 (Or.inr h)
    · exact ((export_dispatch cfg l).2.2 h).2 hd
  have hres : res = .ok := by
    have hr := batch_run_refines size (exportToString cfg) (fun _ _ => true) chunks
    rw [hbs, hrun] at hr
    simp only [Option.map_some, Option.some.injEq] at hr
    have hall := batchRun_all (exportToString cfg) (fun _ _ => true) bs (fun b _ => hsome b.items) (fun _ _ _ => rfl)
    rw [← hr] at hall
    exact hall.1
  subst hres
  exact ⟨calls, hrun, (hokk rfl).2.1, hdata⟩

/-- and with an unknown format value the very first batch fails, nothing is delivered -/
theorem batch_unsupported_format (cfg : Config) (size : Nat) (hs : 1 ≤ size) (chunks : List Chunk)
    (hf : cfg.format = .other) (hne : chunks ≠ []) (cb : Batch Chunk → Str → Bool) :
    batchExportRun size (exportToString cfg) cb chunks = some ([], .exportErr 0) := by
  have h0 : 0 < size := hs
  unfold batchExportRun
  simp only [h0, dite_true, Option.some.injEq]
  rw [batchLoopRun.eq_1]
  have hl : 0 < chunks.length := List.length_pos_iff.mpr hne
  simp only [hl, dite_true]
  rw [(export_dispatch cfg _).2.1 hf]

/-! ## vector-database texts -/

/-- Pinecone: the (indented) text is a complete JSON text reading back to `{"vectors": [...]}`
with the records of `pinecone_records` (one per chunk that has a vector, in order), each an object
with `id`, `values` (the vector) and `metadata` (text, document_title, page_start, section_title). -/
theorem pinecone_text_parses_back (chunks : List Chunk) (embs : List (Emb Str))
    (hc : ∀ c ∈ chunks, chunkValid c = true) (he : embsOk embs = true) :
    jsonRead (pineconeText chunks embs) =
      some (.obj [(kVectors, .arr ((pineconeVectors chunks embs).map pineconeRecordToJ))]) ∧
    ∀ r : PineconeRecord Str,
      (pineconeRecordToJ r).get kId = some (.str r.id) ∧
      (pineconeRecordToJ r).get kValues = some (.arr (r.values.map J.num)) ∧
      (r.metadata.isEmpty = false → (pineconeRecordToJ r).get kMetadata = some (mapToJ r.metadata)) := by
  refine ⟨json_encode_roundtrip true _ (wf_pineconeDoc chunks embs hc he), ?_⟩
  intro r
  refine ⟨by simp (decide := true) [pineconeRecordToJ, J.get, getMember], by simp (decide := true) [pineconeRecordToJ, J.get, getMember], ?_⟩
  intro hm
  simp (decide := true) [pineconeRecordToJ, J.get, getMember, hm]

/-- Chroma: the text reads back to the object with the parallel arrays `ids`, `documents`
(one entry per chunk, in order: `chroma_parallel`), `embeddings` (the caller's, `null` for a nil
vector; omitted when there is none) and `metadatas`. -/
theorem chroma_text_parses_back (chunks : List Chunk) (embs : List (Emb Str))
    (hc : ∀ c ∈ chunks, chunkValid c = true) (he : embsOk embs = true) :
    jsonRead (chromaText chunks embs) = some (chromaRecordToJ (chromaRecord chunks embs)) ∧
    (chromaRecordToJ (chromaRecord chunks embs)).get kIds = some (jStrs (chunks.map (·.id))) ∧
    (chromaRecordToJ (chromaRecord chunks embs)).get kDocuments = some (jStrs (chunks.map (·.text))) ∧
    (chunks ≠ [] → (chromaRecordToJ (chromaRecord chunks embs)).get kMetadatas =
      some (.arr (chunks.map (fun c => mapToJ (chromaMetadata c.md))))) := by
  refine ⟨json_encode_roundtrip true _ (wf_chromaDoc chunks embs hc he), ?_⟩
  obtain ⟨h1, h2, h3, _⟩ := chroma_parallel chunks embs
  refine ⟨?_, ?_, ?_⟩
  · simp (decide := true) [chromaRecordToJ, J.get, getMember, h1]
  · simp (decide := true) [chromaRecordToJ, J.get, getMember, h2]
  · intro hne
    have hme : (chromaRecord chunks embs).metadatas.isEmpty = false := by
      rw [h3]; cases chunks with
      | nil => exact absurd rfl hne
      | cons c cs => rfl
    simp only [chromaRecordToJ, hme, Bool.false_eq_true, if_false, J.get, getMember_append]
    rw [h3]
    cases (chromaRecord chunks embs).embeddings <;> simp (decide := true) [getMember, List.map_map] <;> rfl

/-- Weaviate: one compact line per chunk, in order; line `i` reads back to the object of chunk `i`
(class, id, properties with content / documentTitle / pageStart / sectionTitle / chunkIndex, vector). -/
theorem weaviate_text_parses_back (cls : Str) (chunks : List Chunk) (embs : List (Emb Str))
    (hcls : validUtf8 cls = true) (hc : ∀ c ∈ chunks, chunkValid c = true) (he : embsOk embs = true) :
    jsonlRead (weaviateText cls chunks embs) = some ((weaviateObjects cls chunks embs).map weaviateObjectToJ) ∧
    ((weaviateObjects cls chunks embs).map weaviateObjectToJ).length = chunks.length ∧
    ∀ o : WeaviateObject Str,
      (weaviateObjectToJ o).get kClass = some (.str o.cls) ∧
      (weaviateObjectToJ o).get kProperties = some (mapToJ o.properties) ∧
      (weaviateObjectToJ o).get kId = (if o.id.isEmpty then none else some (.str o.id)) := by
  refine ⟨?_, by simp [(weaviate_one_per_chunk cls chunks embs).2.1], ?_⟩
  · have : weaviateText cls chunks embs = ((weaviateObjects cls chunks embs).map weaviateObjectToJ).flatMap (encode false) := by
      simp [weaviateText, List.flatMap_map]
    rw [this]
    apply jsonl_roundtrip
    intro v hv
    obtain ⟨o, ho, e⟩ := List.mem_map.mp hv
    rw [← e]
    exact wf_weaviateObjects cls chunks embs hcls hc he o ho
  · intro o
    refine ⟨by simp (decide := true) [weaviateObjectToJ, J.get, getMember], ?_, ?_⟩
    · simp only [weaviateObjectToJ, J.get, getMember_append, getMember_omitStr]
      simp (decide := true) [getMember]
    · simp only [weaviateObjectToJ, J.get, getMember_append, getMember_omitStr]
      by_cases hv : o.vector.isEmpty = true <;> by_cases hi : o.id.isEmpty = true <;>
        simp (decide := true) [getMember, hv, hi]

example : embsOk [some [[48, 46, 53], [45, 49, 50]], none, some []] = true ∧ validUtf8 [67, 104, 117, 110, 107] = true :=
  ⟨by decide, validUtf8_ascii _ (by decide)⟩

/-- the metadata objects of the vector-database records, member by member, from the chunk -/
theorem vdb_metadata_members (c : Chunk) :
    (mapToJ (pineconeMetadata c)).get kText = some (.str c.text) ∧
    (mapToJ (pineconeMetadata c)).get kDocumentTitle = some (.str c.md.documentTitle) ∧
    (mapToJ (chromaMetadata c.md)).get kChunkIndex = some (.num (decInt c.md.chunkIndex)) ∧
    (mapToJ (weaviateProps c)).get kContent = some (.str c.text) ∧
    (mapToJ (weaviateProps c)).get kPageStartC = some (.num (decInt c.md.pageStart)) := by
  have n1 : (mapKeys (pineconeMetadata c)).Nodup := by simp (decide := true) [pineconeMetadata, mapKeys]
  have n2 : (mapKeys (chromaMetadata c.md)).Nodup := by simp (decide := true) [chromaMetadata, mapKeys]
  have n3 : (mapKeys (weaviateProps c)).Nodup := by simp (decide := true) [weaviateProps, mapKeys]
  refine ⟨?_, ?_, ?_, ?_, ?_⟩
  · rw [mapToJ_get _ n1, (pinecone_metadata c).1]; rfl
  · rw [mapToJ_get _ n1, (pinecone_metadata c).2.1]; rfl
  · rw [mapToJ_get _ n2, (chroma_metadata c.md).2.2.2]; rfl
  · rw [mapToJ_get _ n3, (weaviate_properties c).1]; rfl
  · rw [mapToJ_get _ n3, (weaviate_properties c).2.2.1]; rfl

end Tabula.C14Json
