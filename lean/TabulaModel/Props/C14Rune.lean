import TabulaModel.Props.C14Decode
import TabulaModel.Model.ExportRune
import TabulaModel.Lemmas.CsvRune
/-!
# C14 (part 8) — every delimiter rune

`ExportConfig.CSVDelimiter` is a Go `rune`.  The earlier parts follow `encoding/csv` for one-byte
delimiters only (`validDelim d` demands `d < 128`; the model reported every other delimiter as an
error, which is not what the code does).  Here the assumed `encoding/csv` contract is stated for
ANY rune (`Model/CsvRune.lean`: `validDelim` of the library, the delimiter written as its UTF-8
encoding, `fieldNeedsQuotes` by byte-substring search), proved invertible for all field bytes —
including ill-formed UTF-8 and fields that hold pieces of the delimiter's own encoding — and the
statement of the property is re-proved for every configuration whatsoever: an export under ANY
delimiter either is refused with an error (exactly when `encoding/csv` calls the delimiter invalid
and there is a record to write) or parses back to one record per chunk.
-/
namespace Tabula.C14Rune
open Tabula.Export Tabula.Csv Tabula.Json Tabula.C14 Tabula.C14Meta Tabula.C14Api Tabula.C14Json Tabula.C14S
open Tabula.C14Decode

/-! ## the assumed `encoding/csv` contract for any rune -/

/-- ASSUMED STDLIB CONTRACT, any delimiter rune `encoding/csv` accepts (1 to 4 bytes of UTF-8):
what `csv.Writer` writes for non-empty records is read back to exactly those records by the strict
RFC 4180 reader for that delimiter — all field bytes, ill-formed UTF-8 included. -/
theorem csv_roundtrip_rune (extra : Str → Bool) (r : Nat) (hr : validDelimR r) (rows : List (List Str))
    (hrows : ∀ x ∈ rows, x ≠ []) :
    csvReadR (runeBytes r) (csvWriteR extra (runeBytes r) rows) = some rows :=
  csvReadR_write extra r hr rows hrows

example : validDelimR 0xA7 ∧ validDelimR 0x2502 ∧ validDelimR 0x1F600 ∧ ¬ validDelimR 0xFFFD ∧ ¬ validDelimR 0xD800 ∧
    ¬ validDelimR 0x110000 ∧ runeBytes 0xA7 = [0xC2, 0xA7] := by decide

/-- the rune model GENERALISES the one-byte model of `Model/Csv.lean`: same writer, same reader on
every input, same validity below 0x80 -/
theorem rune_model_generalises :
    (∀ extra d rows, csvWriteR extra [d] rows = csvWrite extra d rows) ∧
    (∀ d input, csvReadR [d] input = csvRead d input) ∧
    (∀ r, r < 128 → runeBytes r = [r]) ∧
    (∀ r, r < 128 → (validDelimR r ↔ validDelim r)) ∧
    (∀ d, validDelim d → validDelimR d) := by
  refine ⟨csvWriteR_one_byte, csvReadR_eq_csvRead, runeBytes_ascii, ?_, validDelimR_of_validDelim⟩
  intro r hr
  unfold validDelimR validDelim
  omega

/-- a field is quoted for a multi-byte delimiter exactly when it contains the delimiter's encoding
as a byte substring, a quote, CR or LF (or for Go's two extra reasons) — a lone byte of the
encoding does not count -/
theorem rune_quoting_rule (extra : Str → Bool) (D f : Str) (hf : f ≠ []) :
    needsQuotesR extra D f = (containsSub D f || f.any (fun c => c == 34 || c == 10 || c == 13) || extra f) := by
  cases f with
  | nil => exact absurd rfl hf
  | cons c cs => rfl

example : writeFieldR goExtra [0xC2, 0xA7] [0xC2] = [0xC2] ∧ writeFieldR goExtra [0xC2, 0xA7] [0xA7] = [0xA7] ∧
    writeFieldR goExtra [0xC2, 0xA7] [97, 0xC2, 0xA7] = [34, 97, 0xC2, 0xA7, 34] := by decide

/-! ## exports under any delimiter -/

/-- the export of `Model/ExportJson.lean` is the rune export wherever the two can be compared:
for every delimiter below 0x80 and for every delimiter `encoding/csv` rejects -/
theorem export_rune_agrees (cfg : Config) (chunks : List Chunk)
    (h : delimiter cfg < 128 ∨ ¬ validDelimR (delimiter cfg)) :
    exportToStringR cfg chunks = exportToString cfg chunks ∧
    (delimiter cfg < 128 → ∀ text, decodeExportR cfg text = decodeExport cfg text) := by
  constructor
  · have hcsv : exportCSVR goMarshal cfg chunks = exportCSV goMarshal cfg chunks := by
      unfold exportCSVR exportCSV
      by_cases h0 : exportCSVRecords goMarshal cfg chunks = []
      · simp [h0]
      · simp only [h0, if_false]
        rcases h with h | h
        · have hv : validDelimR (delimiter cfg) ↔ validDelim (delimiter cfg) := rune_model_generalises.2.2.2.1 _ h
          by_cases hd : validDelim (delimiter cfg)
          · simp only [hd, hv.mpr hd, if_true, runeBytes_ascii _ h, csvWriteR_one_byte]
          · have : ¬ validDelimR (delimiter cfg) := fun x => hd (hv.mp x)
            simp only [hd, this, if_false]
        · have : ¬ validDelim (delimiter cfg) := fun x => h (validDelimR_of_validDelim _ x)
          simp only [h, this, if_false]
    unfold exportToStringR exportToString
    cases cfg.format <;> simp [hcsv]
  · intro hlt text
    unfold decodeExportR decodeExport
    rw [runeBytes_ascii _ hlt]
    simp only [csvReadR_eq_csvRead]
    cases cfg.format <;> rfl

/-- END TO END (CSV and TSV, any delimiter rune `encoding/csv` accepts): the export text is accepted
by the RFC 4180 reader for that delimiter and reads back as the header (iff requested) followed by
exactly one row per chunk, in order, every cell the `cellSpec` of its column for its chunk. -/
theorem export_csv_parses_back_rune (marshal : MapSV → Str) (cfg : Config) (chunks : List Chunk)
    (hd : validDelimR (delimiter cfg)) :
    ∃ text, exportCSVR marshal cfg chunks = some text ∧
      csvReadR (runeBytes (delimiter cfg)) text = some
        ((if cfg.includeHeader then [collectCSVColumns cfg chunks] else []) ++
          chunks.map (fun c => (collectCSVColumns cfg chunks).map (cellSpec cfg c))) := by
  have hrec := (rows_one_per_chunk_in_order marshal cfg chunks).1
  simp only [getColumnValue_fun] at hrec
  have hne : ∀ r ∈ exportCSVRecords marshal cfg chunks, r ≠ [] := by
    intro r hr
    rw [hrec] at hr
    rcases List.mem_append.mp hr with h | h
    · split at h
      · simp only [List.mem_singleton] at h
        rw [h]; exact collectCSVColumns_ne_nil cfg chunks
      · simp at h
    · obtain ⟨c, _, hc⟩ := List.mem_map.mp h
      rw [← hc]
      intro e
      exact collectCSVColumns_ne_nil cfg chunks (List.map_eq_nil_iff.mp e)
  unfold exportCSVR
  by_cases h0 : exportCSVRecords marshal cfg chunks = []
  · refine ⟨[], by simp [h0], ?_⟩
    rw [← hrec, h0]
    simp [csvReadR, stepsR_nil, finish]
  · refine ⟨csvWriteR goExtra (runeBytes (delimiter cfg)) (exportCSVRecords marshal cfg chunks), by simp [h0, hd], ?_⟩
    rw [csvReadR_write goExtra _ hd _ hne, hrec]

/-- the standard reader of the configured format, for any delimiter rune -/
def parseExportR (cfg : Config) (text : Str) : Option Parsed :=
  match cfg.format with
  | .json => match jsonRead text with
             | some (.arr rs) => some (.records rs)
             | _ => none
  | .jsonl => (jsonlRead text).map Parsed.records
  | .csv | .tsv =>
    match csvReadR (runeBytes (delimiter cfg)) text with
    | none => none
    | some recs =>
      if cfg.includeHeader then
        match recs with
        | [] => none
        | h :: rows => some (.table (some h) rows)
      else some (.table none recs)
  | .other => none

/-- WHEN AN EXPORT FAILS, exactly: the format value is not one of the four, or the format is CSV
(never TSV) with a delimiter `encoding/csv` rejects (`"`, CR, LF, U+FFFD, a surrogate, a value
above U+10FFFF — NUL means "unset" = comma) and there is at least one record to write. -/
theorem export_error_iff (cfg : Config) (chunks : List Chunk) :
    exportToStringR cfg chunks = none ↔
      (cfg.format = .other ∨
        ((cfg.format = .csv ∨ cfg.format = .tsv) ∧ ¬ validDelimR (delimiter cfg) ∧
          (cfg.includeHeader = true ∨ chunks ≠ []))) := by
  have hrecs : exportCSVRecords goMarshal cfg chunks = [] ↔ ¬ (cfg.includeHeader = true ∨ chunks ≠ []) := by
    rw [(rows_one_per_chunk_in_order goMarshal cfg chunks).1]
    by_cases hh : cfg.includeHeader = true <;> cases chunks <;> simp [hh]
  have hcsv : exportCSVR goMarshal cfg chunks = none ↔
      (¬ validDelimR (delimiter cfg) ∧ (cfg.includeHeader = true ∨ chunks ≠ [])) := by
    unfold exportCSVR
    by_cases h0 : exportCSVRecords goMarshal cfg chunks = []
    · have := hrecs.mp h0
      simp [h0, this]
    · have hyes : cfg.includeHeader = true ∨ chunks ≠ [] := by
        by_cases hx : cfg.includeHeader = true ∨ chunks ≠ []
        · exact hx
        · exact absurd (hrecs.mpr hx) h0
      by_cases hd : validDelimR (delimiter cfg) <;> simp [h0, hd, hyes]
  cases hf : cfg.format <;> simp [exportToStringR, hf, hcsv]

/-- TSV never fails: its delimiter is TAB whatever `CSVDelimiter` holds -/
theorem tsv_never_fails (cfg : Config) (chunks : List Chunk) (hf : cfg.format = .tsv) :
    (exportToStringR cfg chunks).isSome = true := by
  cases h : exportToStringR cfg chunks with
  | some t => rfl
  | none =>
    rcases (export_error_iff cfg chunks).mp h with h1 | ⟨_, h2, _⟩
    · rw [hf] at h1; cases h1
    · have : delimiter cfg = 9 := by simp [delimiter, hf]
      rw [this] at h2
      exact absurd (by decide) h2

/-- SENTENCE 1 OF THE PROPERTY FOR EVERY CONFIGURATION: whatever the format value, the delimiter
rune and the switches, `ExportToString` on a collection of well-formed-UTF-8 chunks EITHER returns
an error (`export_error_iff` says exactly when) OR returns a text that the standard reader of the
format accepts and reads back to one record per chunk, in order, with the chunk's own id, text and
metadata values.  No configuration produces a text that does not parse back. -/
theorem export_statement_all_configs (cfg : Config) (chunks : List Chunk)
    (hv : ∀ c ∈ chunks, chunkValid c = true) (text : Str) (ht : exportToStringR cfg chunks = some text) :
    parseExportR cfg text = some (expected cfg chunks) := by
  have hcsv : (cfg.format = .csv ∨ cfg.format = .tsv) → exportCSVR goMarshal cfg chunks = some text →
      csvReadR (runeBytes (delimiter cfg)) text = some
        ((if cfg.includeHeader then [collectCSVColumns cfg chunks] else []) ++
          chunks.map (fun c => (collectCSVColumns cfg chunks).map (cellSpec cfg c))) := by
    intro _ he
    by_cases hd : validDelimR (delimiter cfg)
    · obtain ⟨t, h1, h2⟩ := export_csv_parses_back_rune goMarshal cfg chunks hd
      rw [h1] at he; injection he with he; subst he
      exact h2
    · have hnone : exportToStringR cfg chunks ≠ none := by rw [ht]; simp
      have hrec := (rows_one_per_chunk_in_order goMarshal cfg chunks).1
      simp only [getColumnValue_fun] at hrec
      unfold exportCSVR at he
      by_cases h0 : exportCSVRecords goMarshal cfg chunks = []
      · simp only [h0, if_true, Option.some.injEq] at he
        subst he
        rw [← hrec, h0]
        simp [csvReadR, stepsR_nil, finish]
      · simp [h0, hd] at he
  cases hf : cfg.format with
  | json =>
    obtain ⟨t, h1, h2⟩ := export_json_parses_back cfg hf chunks hv
    simp only [exportToString, hf] at h1
    simp only [exportToStringR, hf] at ht
    rw [h1] at ht; injection ht with ht; subst ht
    simp [parseExportR, expected, hf, h2]
  | jsonl =>
    obtain ⟨t, h1, h2, _⟩ := export_jsonl_parses_back cfg hf chunks hv
    simp only [exportToString, hf] at h1
    simp only [exportToStringR, hf] at ht
    rw [h1] at ht; injection ht with ht; subst ht
    simp [parseExportR, expected, hf, h2]
  | other => simp [exportToStringR, hf] at ht
  | csv =>
    simp only [exportToStringR, hf] at ht
    have h2 := hcsv (Or.inl hf) ht
    simp only [parseExportR, expected, hf, h2]
    by_cases hh : cfg.includeHeader = true <;> simp [hh]
  | tsv =>
    simp only [exportToStringR, hf] at ht
    have h2 := hcsv (Or.inr hf) ht
    simp only [parseExportR, expected, hf, h2]
    by_cases hh : cfg.includeHeader = true <;> simp [hh]

example : ∃ cfg : Config, (cfg.format = .csv ∧ validDelimR (delimiter cfg) ∧ ¬ validDelim (delimiter cfg)) :=
  ⟨{ format := .csv, csvDelimiter := 0xA7 }, by decide⟩

/-- PARTIAL — SAME CHUNKS for every delimiter rune `encoding/csv` accepts (CSV with header): the text,
read by the RFC 4180 reader for that delimiter and decoded row by row, is the collection itself up
to the configuration's projection — provided no list element contains a comma (finding
C14/csv-field-meta-list; `C14Decode.csv_same_chunks_counterexample`). -/
theorem export_csv_same_chunks_rune_partial (cfg : Config) (hf : cfg.format = .csv ∨ cfg.format = .tsv)
    (hh : cfg.includeHeader = true) (hd : validDelimR (delimiter cfg)) (hnames : namesOk cfg = true)
    (chunks : List Chunk) (hn : ∀ c ∈ chunks, chunkNormal c = true) (hl : ∀ c ∈ chunks, listsCommaFree c) :
    ∃ text, exportToStringR cfg chunks = some text ∧
      decodeExportR cfg text = some (chunks.map (projectChunk false cfg)) := by
  obtain ⟨text, h1, h2⟩ := export_csv_parses_back_rune goMarshal cfg chunks hd
  have he : exportToStringR cfg chunks = some text := by
    rcases hf with h | h <;> simp [exportToStringR, h, h1]
  refine ⟨text, he, ?_⟩
  have hdec : decodeTable cfg (collectCSVColumns cfg chunks)
      (chunks.map (fun c => (collectCSVColumns cfg chunks).map (cellSpec cfg c))) =
      some (chunks.map (projectChunk false cfg)) :=
    mapOpt_map' _ _ _ chunks (fun c hc => csv_row_decodes_partial cfg chunks c hc hnames (hn c hc) (hl c hc))
  simp only [hh, if_true, List.singleton_append] at h2
  rcases hf with h | h <;> simp only [decodeExportR, h, hh, if_true, h2] <;> exact hdec

example : namesOk { format := .csv, csvDelimiter := 0x2502 } = true ∧
    validDelimR (delimiter { format := .csv, csvDelimiter := 0x2502 }) := by decide

end Tabula.C14Rune
