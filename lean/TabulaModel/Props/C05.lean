import TabulaModel.Lemmas.Filters
/-!
# C05 — Stream decoding exactly inverts every supported encoding

Theorems about the model `Model/Filters.lean` (mirror of `core/stream.go`,
`internal/filters/{ascii,flate}.go`). The "conforming encoder" is the specification side of
that file (`HexEnc`, `hexEncode`, `A85Writing`, `a85Encode`, `pngPredict`, `tiffPredict`),
written from the PDF / PNG / TIFF texts. zlib is a parameter: `inflate (deflate x) = some x`
is a hypothesis wherever Flate occurs. Bytes are natural numbers < 256 (hypotheses `∀ b ∈ x, b < 256`).
-/
namespace Tabula.C05
open Tabula.Filters

/-! ## ASCIIHex -/

/-- Every writing of `x` that §7.4.2 allows — two digits per byte in either case, white space
anywhere — decodes to `x`, whether it is terminated by `>` (followed by anything) or simply ends. -/
theorem hex_roundtrip (s x t : Str) (h : HexEnc s x) :
    hexDecode (s ++ 62 :: t) = some x ∧ hexDecode s = some x :=
  ⟨hexDecode_enc_eod s x t h, hexDecode_enc_end s x h⟩

/-- the canonical encoder (lower or upper case, `>` at the end) is inverted -/
theorem hex_encode_roundtrip (upper : Bool) (x : Str) (hx : ∀ b ∈ x, b < 256) :
    hexDecode (hexEncode upper x) = some x :=
  hexDecode_enc_eod _ x [] (hexBody_HexEnc upper x hx)

/-- non-vacuity of `HexEnc`: "4 1\n7a" with mixed case and white space writes [0x41, 0x7A] -/
example : HexEnc [32, 52, 32, 49, 10, 55, 65] [65, 122] :=
  .ws 32 _ _ (by decide) (.byte 52 49 65 [32] _ _ (by decide) (by decide) (by decide)
    (.ws 10 _ _ (by decide) (.byte 55 65 122 [] _ _ (by decide) (by decide) (by decide) .nil)))

/-- an odd final digit counts as if followed by `0` (EOD `>` or end of data after the digit,
white space allowed in between) -/
theorem hex_odd_digit (s x w t : Str) (c v : Nat) (h : HexEnc s x) (hc : hexVal c = some v)
    (hw : ∀ c ∈ w, isWs c = true) :
    hexDecode (s ++ c :: (w ++ 62 :: t)) = some (x ++ [v * 16]) ∧
    hexDecode (s ++ c :: w) = some (x ++ [v * 16]) :=
  ⟨hexDecode_odd_eod s x w t c v h hc hw, hexDecode_odd_end s x w c v h hc hw⟩

/-! ## ASCII85 -/

/-- Every white-space interleaving of the encoder's body (groups of five digits, `z` for zero
groups, a final partial group of n+1 digits for n = 1..3 bytes) decodes to `x`, with the EOD
`~>` (followed by anything) or at the end of the data. All lengths. -/
theorem a85_roundtrip (s x t : Str) (hx : ∀ b ∈ x, b < 256) (h : A85Writing s x) :
    a85Decode (s ++ 126 :: 62 :: t) = some x ∧ a85Decode s = some x := by
  refine ⟨a85Decode_writing s x _ hx h (a85Go_eod t), ?_⟩
  have := a85Decode_writing s x [] hx h a85Go_end
  simpa using this

theorem a85_encode_roundtrip (x : Str) (hx : ∀ b ∈ x, b < 256) : a85Decode (a85Encode x) = some x := by
  have h : A85Writing (a85Body x) x := by
    unfold A85Writing
    rw [List.filter_eq_self]
    intro c hc
    simp [(a85Body_no_tilde x hx c hc).2.1]
  exact (a85_roundtrip (a85Body x) x [] hx h).1

/-- non-vacuity: a zero group, a full group and a two-byte tail, with white space -/
example : A85Writing [122, 10, 33, 33, 32, 33, 33, 34, 0, 53, 115, 98] [0, 0, 0, 0, 0, 0, 0, 1, 65, 66] := by
  unfold A85Writing; decide

/-! ## Predictors -/

/-- The predictor the decoder computes (mirrored from `decodePNGRow`: `result[i-bpp]`,
`prevRows[(row-1)*rowLength+i]`, `prevRows[(row-1)*rowLength+i-bpp]`, `paethPredictor`) is the
one of PNG §9.2–9.4: filter type 0..4 applied to a = Raw(x-bpp), b = Prior(x), c = Prior(x-bpp),
zero left of the scanline and above the first scanline. `done` is the scanline up to position x. -/
theorem predict_is_png (tag bpp : Nat) (prev : Option Str) (prior done : Str) (n : Nat)
    (htag : tag ≤ 4) (hb : 1 ≤ bpp) (h : PriorRel prev prior n) (hd : done.length < n) :
    pngPredicted tag bpp prev done = some (specPredAt tag bpp prior done) :=
  pngPredicted_eq_spec tag bpp prev prior done n htag hb h hd

/-- The conforming encoder's scanline filter is PNG §9.2 position by position:
Filt(x) = (Raw(x) − pred_tag(Raw(x−bpp), Prior(x), Prior(x−bpp))) mod 256 for every x, with bytes
left of the scanline equal to zero (`prior` is all zero for the first scanline, see `pngPredict`).
Together with `predict_is_png` this pins the predictor that `png_roundtrip` is about. -/
theorem png_encoder_is_spec (tag bpp : Nat) (hb : 1 ≤ bpp) (prior raw : Str) :
    encRow (specPredAt tag bpp prior) raw [] = (List.range raw.length).map (fun x =>
      (raw.getD x 0 + 256 - specPred tag (byteAt raw ((x : Int) - bpp)) (byteAt prior x)
        (byteAt prior ((x : Int) - bpp)) % 256) % 256) :=
  encRow_is_png_spec tag bpp hb prior raw

/-- the TIFF encoder is horizontal differencing at distance `colors`, position by position -/
theorem tiff_encoder_is_spec (colors : Nat) (hc : 1 ≤ colors) (raw : Str) :
    encRow (specTiffAt colors) raw [] = (List.range raw.length).map (fun x =>
      (raw.getD x 0 + 256 - byteAt raw ((x : Int) - colors) % 256) % 256) :=
  encRow_is_tiff_spec colors hc raw

example : PriorRel (some [1, 2, 3]) [1, 2, 3] 3 := Or.inr ⟨rfl, rfl⟩

/-- Flate's post-processing undoes the conforming PNG encoder: every Predictor value 10..15,
every Colors ≥ 1 and Columns ≥ 1 (up to the cap Columns·Colors ≤ 2^31-2 that
`predictorRowBytes` enforces), any number of rows, every choice of per-row filter types. -/
theorem png_roundtrip (pred : Int) (colors columns : Nat) (tags : List Nat) (x : Str) (p : Params)
    (hpred : p.predictor = some pred) (hp : 10 ≤ pred ∧ pred ≤ 15)
    (hcolors : p.colors = some (colors : Int)) (hcolumns : p.columns = some (columns : Int))
    (hbpc : p.bpc = none ∨ p.bpc = some 8)
    (h1 : 1 ≤ columns) (h2 : 1 ≤ colors) (hcap : columns * colors ≤ 2147483646)
    (hx : x.length = tags.length * (columns * colors)) (ht : ∀ t ∈ tags, t ≤ 4) (hb : ∀ r ∈ x, r < 256) :
    flatePost (some p) (pngPredict colors columns tags x) = some x := by
  have a : pred ≠ 1 := by omega
  have b : ¬ (pred = 2) := by omega
  simp only [flatePost, hpred, applyPredictor, a, b, hp, ne_eq, not_false_eq_true, if_true, if_false, and_self]
  exact applyPNGPredictor_pngPredict colors columns tags x p hcolors hcolumns hbpc h1 h2 hcap hx ht hb

/-- non-vacuity: 2 colours, 2 columns, two rows filtered with Paeth and Average -/
example : flatePost (some { predictor := some 15, colors := some 2, columns := some 2 })
    (pngPredict 2 2 [4, 3] [1, 2, 3, 4, 250, 6, 7, 200]) = some [1, 2, 3, 4, 250, 6, 7, 200] := by decide

/-- the same for TIFF predictor 2, for data that is a whole number of rows -/
theorem tiff_roundtrip (colors columns : Nat) (x : Str) (p : Params)
    (hpred : p.predictor = some 2)
    (hcolors : p.colors = some (colors : Int)) (hcolumns : p.columns = some (columns : Int))
    (hbpc : p.bpc = none ∨ p.bpc = some 8)
    (h1 : 1 ≤ columns) (h2 : 1 ≤ colors) (hcap : columns * colors ≤ 2147483646)
    (hx : x.length % (columns * colors) = 0) (hb : ∀ r ∈ x, r < 256) :
    flatePost (some p) (tiffPredict colors columns x) = some x := by
  simp only [flatePost, hpred, applyPredictor, ne_eq, if_true]
  have : ¬ ((2 : Int) = 1) := by omega
  simp only [this, not_false_eq_true, if_true, if_false]
  exact applyTIFFPredictor2_tiffPredict colors columns x p hcolors hcolumns hbpc h1 h2 hcap hx hb

example : flatePost (some { predictor := some 2, colors := some 3, columns := some 2 })
    (tiffPredict 3 2 [10, 20, 30, 5, 25, 255, 1, 2, 3, 4, 5, 6]) = some [10, 20, 30, 5, 25, 255, 1, 2, 3, 4, 5, 6] := by
  decide

/-! ## Filter names, DecodeParms selection -/

/-- The i-th filter of a Filter array gets the i-th entry of a DecodeParms array if that is a
dictionary, nothing if it is null / another object / beyond the end of the array; a DecodeParms
that is absent or null gives nothing, a single dictionary is given to every filter; the filters
are applied in array order with consecutive indices; abbreviated names select the same decoders. -/
theorem params_selection (ext : Ext) :
    (∀ (ps : List PObj) (i : Nat), chainParams (.array ps) i = (ps[i]?).bind paramsObjToDict) ∧
    (∀ i, chainParams (.one .absent) i = none ∧ chainParams (.one .null) i = none ∧ chainParams (.one .other) i = none) ∧
    (∀ p i, chainParams (.one (.dict p)) i = some p) ∧
    (∀ (dp : DParms) (fs gs : List FObj) (i : Nat) (d : Str),
      decodeChain ext dp (fs ++ gs) i d = (decodeChain ext dp fs i d).bind (decodeChain ext dp gs (i + fs.length))) ∧
    (∀ (dp : DParms) (n : Str) (i : Nat) (d : Str),
      decodeChain ext dp [.name n] i d = decodeWithFilter ext d n (chainParams dp i)) ∧
    (∀ d p, decodeWithFilter ext d nFl p = decodeWithFilter ext d nFlateDecode p ∧
      decodeWithFilter ext d nAHx p = decodeWithFilter ext d nASCIIHexDecode p ∧
      decodeWithFilter ext d nA85 p = decodeWithFilter ext d nASCII85Decode p) := by
  refine ⟨?_, ?_, ?_, ?_, ?_, ?_⟩
  · intro ps i
    simp only [chainParams]
    cases ps[i]? <;> rfl
  · intro i; exact ⟨rfl, rfl, rfl⟩
  · intro p i; rfl
  · intro dp fs
    induction fs with
    | nil => intro gs i d; simp [decodeChain]
    | cons f fs ih =>
      intro gs i d
      cases f with
      | other => simp [decodeChain]
      | name n =>
        simp only [List.cons_append, decodeChain, List.length_cons]
        cases decodeWithFilter ext d n (chainParams dp i) with
        | none => rfl
        | some d' =>
          simp only [ih gs (i + 1) d']
          have : i + 1 + fs.length = i + (fs.length + 1) := by omega
          rw [this]
  · intro dp n i d
    simp only [decodeChain]
    cases decodeWithFilter ext d n (chainParams dp i) <;> rfl
  · intro d p
    refine ⟨?_, ?_, ?_⟩ <;> rfl


/-! ## Chains -/

/-- one stage of a conforming pipeline (what a writer may put into `Filter`/`DecodeParms`) -/
inductive Stage where
  | hex (short upper : Bool)
  | a85 (short : Bool)
  | flate (short : Bool) (explicitPredictor1 : Bool)
  | tiff (short : Bool) (colors columns : Nat)
  | png (short : Bool) (pred : Nat) (colors columns : Nat) (tags : List Nat)

def Stage.name : Stage → Str
  | .hex a _ => if a then nAHx else nASCIIHexDecode
  | .a85 a => if a then nA85 else nASCII85Decode
  | .flate a _ | .tiff a _ _ | .png a _ _ _ _ => if a then nFl else nFlateDecode

/-- the stage's entry in the `DecodeParms` array -/
def Stage.parms : Stage → PObj
  | .hex _ _ | .a85 _ => .null
  | .flate _ e => if e then .dict { predictor := some 1 } else .null
  | .tiff _ colors columns => .dict { predictor := some 2, colors := some colors, columns := some columns }
  | .png _ pred colors columns _ => .dict { predictor := some pred, colors := some colors, columns := some columns }

/-- the conforming encoder of the stage; `deflate` is any zlib compressor -/
def Stage.encode (deflate : Str → Str) : Stage → Str → Str
  | .hex _ u, x => hexEncode u x
  | .a85 _, x => a85Encode x
  | .flate _ _, x => deflate x
  | .tiff _ colors columns, x => deflate (tiffPredict colors columns x)
  | .png _ _ colors columns tags, x => deflate (pngPredict colors columns tags x)

/-- what the stage requires of its input (whole rows, a valid geometry, one filter type per row) -/
def Stage.ok : Stage → Str → Prop
  | .hex _ _, _ | .a85 _, _ | .flate _ _, _ => True
  | .tiff _ colors columns, x =>
    1 ≤ columns ∧ 1 ≤ colors ∧ columns * colors ≤ 2147483646 ∧ x.length % (columns * colors) = 0
  | .png _ pred colors columns tags, x =>
    10 ≤ pred ∧ pred ≤ 15 ∧ 1 ≤ columns ∧ 1 ≤ colors ∧ columns * colors ≤ 2147483646 ∧
      x.length = tags.length * (columns * colors) ∧ ∀ t ∈ tags, t ≤ 4

/-- encode for the filter array `stages`: the last filter is applied to the data first -/
def encodeChain (deflate : Str → Str) : List Stage → Str → Str
  | [], x => x
  | s :: ss, x => s.encode deflate (encodeChain deflate ss x)

def ChainOK (deflate : Str → Str) : List Stage → Str → Prop
  | [], _ => True
  | s :: ss, x => s.ok (encodeChain deflate ss x) ∧ ChainOK deflate ss x

theorem hexDigit_lt (u : Bool) (n : Nat) (h : n < 16) : hexDigit u n < 256 := by
  unfold hexDigit
  split
  · omega
  · split <;> omega

theorem hexEncode_bytes (u : Bool) (x : Str) (hx : ∀ b ∈ x, b < 256) : ∀ c ∈ hexEncode u x, c < 256 := by
  unfold hexEncode
  induction x with
  | nil => simp [hexBody]
  | cons b bs ih =>
    intro c hc
    have hb := hx b (by simp)
    simp only [hexBody, List.cons_append, List.mem_cons] at hc
    rcases hc with h | h | h
    · subst h; exact hexDigit_lt u _ (by omega)
    · subst h; exact hexDigit_lt u _ (by omega)
    · exact ih (fun b' h' => hx b' (by simp [h'])) c h

theorem a85Encode_bytes (x : Str) (hx : ∀ b ∈ x, b < 256) : ∀ c ∈ a85Encode x, c < 256 := by
  intro c hc
  unfold a85Encode at hc
  rcases List.mem_append.mp hc with h | h
  · exact (a85Body_no_tilde x hx c h).2.2
  · simp at h; omega

theorem encode_bytes (deflate : Str → Str) (hdb : ∀ z, ∀ c ∈ deflate z, c < 256) (s : Stage) (x : Str)
    (hx : ∀ b ∈ x, b < 256) : ∀ c ∈ s.encode deflate x, c < 256 := by
  cases s with
  | hex a u => exact hexEncode_bytes u x hx
  | a85 a => exact a85Encode_bytes x hx
  | flate a e => exact hdb _
  | tiff a c1 c2 => exact hdb _
  | png a p c1 c2 t => exact hdb _

theorem encodeChain_bytes (deflate : Str → Str) (hdb : ∀ z, ∀ c ∈ deflate z, c < 256) (ss : List Stage) (x : Str)
    (hx : ∀ b ∈ x, b < 256) : ∀ c ∈ encodeChain deflate ss x, c < 256 := by
  induction ss with
  | nil => exact hx
  | cons s ss ih => exact encode_bytes deflate hdb s _ ih

theorem dwf_flate (ext : Ext) (d : Str) (a : Bool) (p : Option Params) :
    decodeWithFilter ext d (if a then nFl else nFlateDecode) p = flateDecode ext.inflate d p := by
  cases a <;> rfl

theorem dwf_hex (ext : Ext) (d : Str) (a : Bool) (p : Option Params) :
    decodeWithFilter ext d (if a then nAHx else nASCIIHexDecode) p = hexDecode d := by
  cases a <;> rfl

theorem dwf_a85 (ext : Ext) (d : Str) (a : Bool) (p : Option Params) :
    decodeWithFilter ext d (if a then nA85 else nASCII85Decode) p = a85Decode d := by
  cases a <;> rfl

/-- one stage: decoding with the stage's name and parameters inverts the stage's encoder -/
theorem stage_roundtrip (ext : Ext) (deflate : Str → Str) (hz : ∀ z, ext.inflate (deflate z) = some z)
    (s : Stage) (x : Str) (hx : ∀ b ∈ x, b < 256) (hok : s.ok x) :
    decodeWithFilter ext (s.encode deflate x) s.name (paramsObjToDict s.parms) = some x := by
  cases s with
  | hex a u =>
    simp only [Stage.name, Stage.encode, dwf_hex]
    exact hexDecode_enc_eod _ x [] (hexBody_HexEnc u x hx)
  | a85 a =>
    simp only [Stage.name, Stage.encode, dwf_a85]
    have h : A85Writing (a85Body x) x := by
      unfold A85Writing
      rw [List.filter_eq_self]
      intro c hc
      simp [(a85Body_no_tilde x hx c hc).2.1]
    exact a85Decode_writing (a85Body x) x _ hx h (a85Go_eod [])
  | flate a e =>
    simp only [Stage.name, Stage.encode, dwf_flate, flateDecode, hz]
    cases e <;> simp [Stage.parms, paramsObjToDict, flatePost]
  | tiff a colors columns =>
    obtain ⟨h1, h2, hcap, hlen⟩ := hok
    simp only [Stage.name, Stage.encode, dwf_flate, flateDecode, hz, Stage.parms, paramsObjToDict, flatePost,
      applyPredictor]
    have : ¬ ((2 : Int) = 1) := by omega
    simp only [this, ne_eq, not_false_eq_true, if_true, if_false]
    exact applyTIFFPredictor2_tiffPredict colors columns x _ rfl rfl (Or.inl rfl) h1 h2 hcap hlen hx
  | png a pred colors columns tags =>
    obtain ⟨hp1, hp2, h1, h2, hcap, hlen, ht⟩ := hok
    simp only [Stage.name, Stage.encode, dwf_flate, flateDecode, hz, Stage.parms, paramsObjToDict, flatePost,
      applyPredictor]
    have a1 : ¬ ((pred : Int) = 1) := by omega
    have a2 : ¬ ((pred : Int) = 2) := by omega
    have a3 : (pred : Int) ≥ 10 ∧ (pred : Int) ≤ 15 := by omega
    simp only [a1, a2, a3, ne_eq, not_false_eq_true, if_true, if_false, and_self]
    exact applyPNGPredictor_pngPredict colors columns tags x _ rfl rfl (Or.inl rfl) h1 h2 hcap hlen ht hx

theorem chain_aux (ext : Ext) (deflate : Str → Str) (hz : ∀ z, ext.inflate (deflate z) = some z)
    (hdb : ∀ z, ∀ c ∈ deflate z, c < 256) (x : Str) (hx : ∀ b ∈ x, b < 256) :
    ∀ (ss : List Stage) (pre : List PObj), ChainOK deflate ss x →
      decodeChain ext (.array (pre ++ ss.map Stage.parms)) (ss.map fun s => FObj.name s.name) pre.length
        (encodeChain deflate ss x) = some x := by
  intro ss
  induction ss with
  | nil => intro pre _; rfl
  | cons s ss ih =>
    intro pre hok
    obtain ⟨hs, hrest⟩ := hok
    simp only [List.map_cons, decodeChain, encodeChain]
    have hp : chainParams (.array (pre ++ s.parms :: ss.map Stage.parms)) pre.length = paramsObjToDict s.parms := by
      simp [chainParams]
    rw [hp, stage_roundtrip ext deflate hz s _ (encodeChain_bytes deflate hdb ss x hx) hs]
    simp only
    have := ih (pre ++ [s.parms]) hrest
    simpa [List.append_assoc] using this

/-- **chain_roundtrip**: for every list of stages (any length) written as a `Filter` array with
full or abbreviated names and a `DecodeParms` array holding each stage's own parameters (null
for stages without), decoding what the conforming encoders produced returns the original bytes —
provided zlib's inflate inverts the compressor used. A single stage may also be written as a
name with its dictionary (or null / absent when it has none). -/
theorem chain_roundtrip (ext : Ext) (deflate : Str → Str) (hz : ∀ z, ext.inflate (deflate z) = some z)
    (hdb : ∀ z, ∀ c ∈ deflate z, c < 256) (ss : List Stage) (x : Str) (hx : ∀ b ∈ x, b < 256)
    (hok : ChainOK deflate ss x) :
    streamDecode ext (.array (ss.map fun s => FObj.name s.name)) (.array (ss.map Stage.parms))
      (encodeChain deflate ss x) = some x := by
  have := chain_aux ext deflate hz hdb x hx ss [] hok
  simpa [streamDecode] using this

theorem single_roundtrip (ext : Ext) (deflate : Str → Str) (hz : ∀ z, ext.inflate (deflate z) = some z)
    (s : Stage) (x : Str) (hx : ∀ b ∈ x, b < 256) (hok : s.ok x) :
    streamDecode ext (.one (.name s.name)) (.one s.parms) (s.encode deflate x) = some x ∧
    (s.parms = .null → streamDecode ext (.one (.name s.name)) (.one .absent) (s.encode deflate x) = some x) := by
  refine ⟨?_, ?_⟩
  · simp only [streamDecode]
    exact stage_roundtrip ext deflate hz s x hx hok
  · intro hn
    have := stage_roundtrip ext deflate hz s x hx hok
    rw [hn] at this
    simpa [streamDecode, paramsObjToDict] using this

/-- non-vacuity: [/AHx /Fl /A85] with a PNG predictor on the Flate stage; `deflate` = identity
(a "stored" compressor) and `inflate` its inverse -/
example : ChainOK id [.hex true false, .png true 12 1 3 [2, 4], .a85 false] [1, 2, 3] := by
  refine ⟨trivial, ⟨by omega, by omega, by omega, by omega, by omega, ?_, ?_⟩, trivial, trivial⟩
  · decide
  · decide

/-! ## Undecodable data is an error -/

/-- ASCIIHex: a byte that is neither a hexadecimal digit, white space nor `>` anywhere before
the EOD -/
theorem undecodable_hex (pre post : Str) (c : Nat) (hpre : ∀ b ∈ pre, b ≠ 62)
    (h1 : isWs c = false) (h2 : c ≠ 62) (h3 : hexVal c = none) : hexDecode (pre ++ c :: post) = none :=
  hexGo_bad pre post c hpre h1 h2 h3 none []

/-- ASCII85: a byte outside `!`..`u` that is not `z`, white space or the start of `~>`, anywhere
before the EOD -/
theorem undecodable_a85_char (pre post : Str) (c : Nat) (hpre : ∀ b ∈ pre, b ≠ 126)
    (h1 : isWs c = false) (h2 : c ≠ 122) (h3 : c < 33 ∨ c > 117) (h4 : ¬ (c = 126 ∧ post.head? = some 62)) :
    a85Decode (pre ++ c :: post) = none :=
  a85Go_bad post c h1 h2 h3 h4 pre hpre [] []

/-- ASCII85: `z` after 1..4 digits of a group (white space in between or not); `ds`/`acc` is any
decoder state at a group boundary is `ds = []` -/
theorem undecodable_a85_z_in_group (g w post acc : Str) (hg : ∀ c ∈ g, 33 ≤ c ∧ c ≤ 117)
    (hl : 1 ≤ g.length ∧ g.length ≤ 4) (hw : ∀ c ∈ w, isWs c = true) :
    a85Go (g ++ (w ++ 122 :: post)) [] acc = none := by
  rw [a85Go_partial g _ acc hg [] (by simp; omega), a85Go_ws w _ _ _ hw]
  apply a85Go_z_in_group
  cases g with
  | nil => simp at hl
  | cons a b => simp

/-- ASCII85: five digits whose value exceeds 2^32-1 -/
theorem undecodable_a85_overflow (d0 d1 d2 d3 d4 : Nat) (h0 : d0 < 85) (h1 : d1 < 85) (h2 : d2 < 85)
    (h3 : d3 < 85) (h4 : d4 < 85) (t acc : Str)
    (hv : (((d0 * 85 + d1) * 85 + d2) * 85 + d3) * 85 + d4 > 4294967295) :
    a85Go ((d0 + 33) :: (d1 + 33) :: (d2 + 33) :: (d3 + 33) :: (d4 + 33) :: t) [] acc = none :=
  a85Go_overflow d0 d1 d2 d3 d4 h0 h1 h2 h3 h4 t acc hv

/-- the witnesses of the defect fixed in the pinned tree: `uuuuu~>`, `s8W-"~>` (= 2^32) and the
partial group `uu~>` are errors, `s8W-!~>` (= 2^32-1) is FF FF FF FF -/
theorem a85_overflow_witnesses :
    a85Decode [117, 117, 117, 117, 117, 126, 62] = none ∧
    a85Decode [115, 56, 87, 45, 34, 126, 62] = none ∧
    a85Decode [117, 117, 126, 62] = none ∧
    a85Decode [115, 56, 87, 45, 33, 126, 62] = some [255, 255, 255, 255] := by
  decide

/-- Predictor values other than 1, 2, 10..15 -/
theorem undecodable_predictor (data : Str) (pr : Int) (p : Params) (h1 : pr ≠ 1) (h2 : pr ≠ 2)
    (h3 : pr < 10 ∨ pr > 15) : applyPredictor data pr p = none := by
  have : ¬ (pr ≥ 10 ∧ pr ≤ 15) := by omega
  simp [applyPredictor, h1, h2, this]

/-- BitsPerComponent other than 8, Columns or Colors below 1, data that is not a whole number
of rows: refused by both predictors -/
theorem undecodable_geometry (data : Str) (pr : Int) (p : Params) (hpr : pr = 2 ∨ (10 ≤ pr ∧ pr ≤ 15)) :
    (p.bpc.getD 8 ≠ 8 → applyPredictor data pr p = none) ∧
    (p.columns.getD 1 < 1 ∨ p.colors.getD 1 < 1 → applyPredictor data pr p = none) ∧
    (∀ rowBytes, predictorRowBytes (p.columns.getD 1) (p.colors.getD 1) = some rowBytes →
      (pr = 2 → data.length % rowBytes ≠ 0 → applyPredictor data pr p = none) ∧
      (pr ≠ 2 → data.length % (rowBytes + 1) ≠ 0 → applyPredictor data pr p = none)) := by
  have hne1 : ¬ (pr = 1) := by omega
  have e21 : ¬ ((2 : Int) = 1) := by omega
  refine ⟨?_, ?_, ?_⟩
  · intro hb
    rcases hpr with h | h
    · simp [applyPredictor, h, applyTIFFPredictor2, hb]
    · have : ¬ (pr = 2) := by omega
      simp [applyPredictor, hne1, this, h, applyPNGPredictor, hb]
  · intro hg
    have hrb := predictorRowBytes_bad _ _ hg
    rcases hpr with h | h
    · subst h
      simp only [applyPredictor, e21, applyTIFFPredictor2, hrb, if_true, if_false]
      split <;> rfl
    · have : ¬ (pr = 2) := by omega
      simp only [applyPredictor, hne1, this, h, applyPNGPredictor, hrb, and_self, if_true, if_false]
      split <;> rfl
  · intro rowBytes hrb
    refine ⟨?_, ?_⟩
    · intro h hm
      subst h
      simp only [applyPredictor, e21, applyTIFFPredictor2, hrb, if_true, if_false, hm, ne_eq, not_false_eq_true]
      split <;> rfl
    · intro h hm
      have h' : (10 ≤ pr ∧ pr ≤ 15) := by omega
      simp only [applyPredictor, hne1, h, h', applyPNGPredictor, hrb, and_self, if_true, if_false, hm, ne_eq,
        not_false_eq_true]
      split <;> rfl

/-- a PNG filter-type byte above 4 at the start of any row (row `k` of `n`, rows of
`rowLen ≥ 1` data bytes) -/
theorem undecodable_png_tag (rowLen bpp : Nat) (hrow : 1 ≤ rowLen) (tag : Nat) (htag : tag > 4)
    (pre rest : Str) (hrest : rest ≠ []) (k n : Nat) (hk : k < n) (hpre : pre.length = k * (rowLen + 1))
    (prev : Option Str) (acc : List Str) :
    pngRows n rowLen bpp (pre ++ tag :: rest) prev acc = none :=
  pngRows_bad_tag rowLen bpp hrow tag htag rest hrest k n pre prev acc hk hpre

/-- filters tabula does not implement, unknown names, a non-name in the Filter array, a Filter
entry of another type, and a zlib stream that inflate rejects -/
theorem undecodable_filter (ext : Ext) (d : Str) (p : Option Params) (dp : DParms) :
    decodeWithFilter ext d nLZWDecode p = none ∧ decodeWithFilter ext d nLZW p = none ∧
    decodeWithFilter ext d nRunLengthDecode p = none ∧ decodeWithFilter ext d nRL p = none ∧
    decodeWithFilter ext d nJBIG2Decode p = none ∧ decodeWithFilter ext d nCrypt p = none ∧
    (∀ name, name ∉ [nFlateDecode, nFl, nASCIIHexDecode, nAHx, nASCII85Decode, nA85, nCCITTFaxDecode, nCCF,
        nDCTDecode, nDCT, nJPXDecode] → decodeWithFilter ext d name p = none) ∧
    (∀ fs i, decodeChain ext dp (.other :: fs) i d = none) ∧
    streamDecode ext (.one .other) dp d = none ∧
    (ext.inflate d = none → flateDecode ext.inflate d p = none) := by
  refine ⟨rfl, rfl, rfl, rfl, rfl, rfl, ?_, fun _ _ => rfl, rfl, ?_⟩
  · intro name hn
    simp only [List.mem_cons, List.not_mem_nil, or_false, not_or] at hn
    obtain ⟨a1, a2, a3, a4, a5, a6, a7, a8, a9, a10, a11⟩ := hn
    simp [decodeWithFilter, a1, a2, a3, a4, a5, a6, a7, a8, a9, a10, a11]
  · intro h
    simp [flateDecode, h]

/-- **undecodable_is_error** at the level of `Decode()`: the error of any stage is the result of
the whole stream (never bytes), for a single filter and at every position of a filter array; in
particular for the ASCII decoders' bad bytes and for every predictor failure behind Flate. -/
theorem undecodable_is_error (ext : Ext) (dp : DParms) :
    (∀ n d i fs, decodeWithFilter ext d n (chainParams dp i) = none →
      decodeChain ext dp (.name n :: fs) i d = none) ∧
    (∀ n d d' fs i, decodeWithFilter ext d n (chainParams dp i) = some d' → decodeChain ext dp fs (i + 1) d' = none →
      decodeChain ext dp (.name n :: fs) i d = none) ∧
    (∀ pre post c, (∀ b ∈ pre, b ≠ 62) → isWs c = false → c ≠ 62 → hexVal c = none →
      streamDecode ext (.one (.name nASCIIHexDecode)) dp (pre ++ c :: post) = none) ∧
    (∀ pre post c, (∀ b ∈ pre, b ≠ 126) → isWs c = false → c ≠ 122 → (c < 33 ∨ c > 117) →
      ¬ (c = 126 ∧ post.head? = some 62) →
      streamDecode ext (.one (.name nASCII85Decode)) dp (pre ++ c :: post) = none) ∧
    (∀ d dec p pr, ext.inflate d = some dec → p.predictor = some pr → pr ≠ 1 → applyPredictor dec pr p = none →
      streamDecode ext (.one (.name nFlateDecode)) (.one (.dict p)) d = none) := by
  refine ⟨?_, ?_, ?_, ?_, ?_⟩
  · intro n d i fs h
    simp [decodeChain, h]
  · intro n d d' fs i h1 h2
    simp [decodeChain, h1, h2]
  · intro pre post c h0 h1 h2 h3
    have := undecodable_hex pre post c h0 h1 h2 h3
    simpa [streamDecode, decodeWithFilter, nASCIIHexDecode, nFlateDecode, nFl] using this
  · intro pre post c h0 h1 h2 h3 h4
    have := undecodable_a85_char pre post c h0 h1 h2 h3 h4
    simpa [streamDecode, decodeWithFilter, nASCII85Decode, nASCIIHexDecode, nAHx, nFlateDecode, nFl] using this
  · intro d dec p pr h1 h2 h3 h4
    simp [streamDecode, decodeWithFilter, flateDecode, h1, flatePost, paramsObjToDict, h2, h3, h4]

end Tabula.C05
