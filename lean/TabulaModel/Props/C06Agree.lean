import TabulaModel.Lemmas.PdfAgree
import TabulaModel.Lemmas.PdfCSProgress
import TabulaModel.Lemmas.PdfLexPos
/-!
# C06 — the two parsers assign the same value to every operand both accept: EVERY byte string

`Props/C06.lean` proves the agreement of the document-level parser (core/lexer.go + core/parser.go) and
the content-stream parser (contentstream/parser.go) for everything a legal printer can emit
(`agree_on_printed`) and per token class.  Here it is proved for ALL inputs, legal or not, at every
nesting depth, with any fuel: started on the same bytes, whenever BOTH parsers return a value, it is
the same value, and both stand at the same byte afterwards.

The one exception is not a disagreement about a value both accept as written: on `n g R` the
document-level parser reads ONE object, the indirect reference, and the content-stream parser (content
streams have no references) reads the integer `n` and stops in front of `g`.  Inside an array or a
dictionary even that cannot happen: the content-stream parser then fails on `R` (array) or on `g`
(dictionary: not a key), so containers agree without exception.

Where the parsers differ in what they ACCEPT (an integer outside int64: real for the document-level
parser, error for the content-stream parser; an invalid `#` escape in a name, an unterminated hex
string, `[` / `<<` running to the end of the data: error for the document-level parser, accepted by the
content-stream parser; `true.5`: `true` then `.5` for the document-level parser, error for the other) one
of the two fails, so no operand gets two values.

Proof: a simulation between the token-window state machine and the byte-position recursion
(`Lemmas/PdfAgree.lean`), resting on "both lexers see the same first token" (`Prog.tok_of_skipSpace`) and on
the per-class agreements of round 1 (strings: same function; names, hex strings: same value and rest when
the stricter reader accepts; numbers: same lexeme, `Lemmas/PdfNumLex.lean`).
-/
namespace Tabula.C06Agree
open Tabula.Pdf

/-- **The two parsers agree on every byte string.**  `core.NewParser(inp).ParseObject()` returned `a`;
`contentstream`'s `parseOperand` on the same bytes (any fuel) returned `b` and left `r` unread.  Then `a = b`
and the document-level parser stands exactly on `r` — or `a` is the reference `n g R` whose first integer
`b` is. -/
theorem parsers_agree_everywhere (inp : Str) (a : Obj) (s : PState) (f2 : Nat) (b : Obj) (r : Str)
    (h1 : coreParse inp = .ok (a, s)) (h2 : CS.parseOperand f2 0 inp = some (b, r)) :
    (a = b ∧ s = stateAt r) ∨ (∃ n g, a = .ref n g ∧ b = .int n) :=
  (Agree.parsers_agree_all inp a s f2 b r h1 h2).symm

/-- both hypotheses hold together on a dictionary with an odd hex string, a name with an escape, a comment
and a nested array (and on malformed tails: what follows the operand is not looked at) -/
example : (coreParse [60, 60, 47, 65, 35, 52, 49, 60, 52, 32, 49, 55, 62, 37, 99, 13, 47, 66, 91, 116, 114, 117, 101, 93,
      62, 62, 41, 41]).toOption.isSome = true ∧
    (CS.parseOperand 50 0 [60, 60, 47, 65, 35, 52, 49, 60, 52, 32, 49, 55, 62, 37, 99, 13, 47, 66, 91, 116, 114, 117, 101, 93,
      62, 62, 41, 41]).isSome = true := by
  decide +kernel

/-- the statement kept as the target in `Props/C06.lean` ("NOT proved: agreement on arbitrary raw byte
strings"), with the fuel the model runs the content-stream parser with: now a theorem -/
theorem parsers_agree (inp : Str) (a b : Obj) (s : PState) (r : Str)
    (h1 : coreParse inp = .ok (a, s)) (h2 : CS.parseOperand (CS.fuelFor inp) 0 inp = some (b, r))
    (hr : ∀ n g, a ≠ .ref n g) : a = b := by
  rcases parsers_agree_everywhere inp a s _ b r h1 h2 with h | ⟨n, g, ha, _⟩
  · exact h.1
  · exact absurd ha (hr n g)

example : ∀ n g, Obj.name [65] ≠ .ref n g := by intro n g h; cases h

/-- Arrays and dictionaries agree without exception: a reference anywhere inside makes the content-stream
parser fail, so if both accept, there was none. -/
theorem containers_agree_everywhere (inp : Str) (a : Obj) (s : PState) (f2 : Nat) (b : Obj) (r : Str)
    (h1 : coreParse inp = .ok (a, s)) (h2 : CS.parseOperand f2 0 inp = some (b, r))
    (hc : (∃ xs, a = .arr xs) ∨ (∃ kv, a = .dict kv)) : a = b ∧ s = stateAt r :=
  Agree.parsers_agree_containers inp a s f2 b r h1 h2 hc

example : (coreParse [91, 47, 65, 32, 60, 52, 62, 93]).toOption.isSome = true ∧
    (CS.parseOperand 20 0 [91, 47, 65, 32, 60, 52, 62, 93]).isSome = true := by decide +kernel

/-- … at every level of the recursion: with `d` containers already open (the same count in both parsers,
so the nesting limit strikes at the same place), any fuel on either side, any accumulator. -/
theorem agree_at_any_depth (f f2 d : Nat) (inp : Str) :
    (∀ a s' b r, parseObject f d (stateAt inp) = .ok (a, s') → CS.parseOperand f2 d inp = some (b, r) →
        (a = b ∧ s' = stateAt r) ∨ (∃ n g, a = .ref n g ∧ b = .int n)) ∧
    (∀ acc a s' b r, parseArray f d (stateAt inp) acc = .ok (a, s') → CS.parseArray f2 d inp acc = some (b, r) →
        a = b ∧ s' = stateAt r) ∧
    (∀ acc a s' b r, parseDict f d (stateAt inp) acc = .ok (a, s') → CS.parseDict f2 d inp acc = some (b, r) →
        a = b ∧ s' = stateAt r) :=
  ⟨fun a s' b r h1 h2 => ((Agree.agree_sim f).1 d inp a s' f2 b r h1 h2).symm,
   fun acc a s' b r h1 h2 => (Agree.agree_sim f).2.1 d inp acc a s' f2 b r h1 h2,
   fun acc a s' b r h1 h2 => (Agree.agree_sim f).2.2 d inp acc a s' f2 b r h1 h2⟩

/-- The reference case, exactly: the content-stream parser stopped right behind the first integer, and the
next two tokens of the input are an integer and `R`. -/
theorem reference_case (f f2 d : Nat) (inp : Str) (a : Obj) (s' : PState) (b : Obj) (r : Str)
    (h1 : parseObject f d (stateAt inp) = .ok (a, s')) (h2 : CS.parseOperand f2 d inp = some (b, r))
    (hne : a ≠ b) :
    ∃ n g va vb r2 r3, a = .ref n g ∧ b = .int n ∧ Prog.tok inp = some (.integer va, r) ∧
      Prog.tok r = some (.integer vb, r2) ∧ Prog.tok r2 = some (.ref, r3) := by
  rcases (Agree.agree_sim_ref f).1 d inp a s' f2 b r h1 h2 with h | h
  · exact h
  · exact absurd h.1 hne

example : (coreParse [49, 32, 48, 32, 82]).toOption.isSome = true ∧ (CS.parseOperand 9 0 [49, 32, 48, 32, 82]).isSome = true := by
  decide +kernel

/-- The same in the terms of the correspondence op `c06.operand` (`csOperandAt`: operand and `p.pos`): the
operand is the object `ParseObject` returns, and the document-level parser's window afterwards is the window
`NewParser` builds on the bytes from `p.pos` on. -/
theorem operand_op_agrees (inp : Str) (a : Obj) (s : PState) (b : Obj) (pos : Nat)
    (h1 : coreParse inp = .ok (a, s)) (h2 : csOperandAt inp = some (b, pos)) (hr : ∀ n g, a ≠ .ref n g) :
    a = b ∧ s = stateAt (inp.drop pos) ∧ 0 < pos ∧ pos ≤ inp.length := by
  have hpos := Prog.csOperandAt_pos inp b pos h2
  unfold csOperandAt at h2
  cases hp : CS.parseOperand (CS.fuelFor inp) 0 inp with
  | none => rw [hp] at h2; cases h2
  | some p =>
    obtain ⟨b', r⟩ := p
    rw [hp] at h2
    simp only [Option.some.injEq, Prod.mk.injEq] at h2
    obtain ⟨hb, hpos'⟩ := h2
    subst hb
    have hsuf := ((Prog.cs_progress _).1 0 inp b' r hp).1
    have hr' : r = inp.drop pos := by rw [← hpos']; exact Pos.suffix_eq_drop hsuf
    rcases parsers_agree_everywhere inp a s _ b' r h1 hp with h | ⟨n, g, ha, _⟩
    · exact ⟨h.1, by rw [← hr']; exact h.2, hpos.1, hpos.2⟩
    · exact absurd ha (hr n g)

example : (coreParse [40, 65, 41, 32, 84, 106]).toOption.isSome = true ∧
    (csOperandAt [40, 65, 41, 32, 84, 106]).isSome = true := by decide +kernel

end Tabula.C06Agree
