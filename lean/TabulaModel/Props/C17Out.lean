import TabulaModel.Props.C17Api
import TabulaModel.Lemmas.WorkbookText
import TabulaModel.Lemmas.WorkbookMdAll
import TabulaModel.Lemmas.WorkbookMdTail
/-!
# C17, the outputs — text, Markdown, document model and `Tables()` are renderings of one table
of displayed values, and reading them back finds every value at its address

End-to-end statement of the property over the model of the public API: `cell_lands_everywhere`.
-/
namespace Tabula.C17O
open Tabula.A1 Tabula.Sheet Tabula.Wb Tabula.C17A

/-! ## options -/

/-- no selection = all sheets, in workbook order -/
theorem select_all (r : Reader) : selectSheets r [] = r.sheets := rfl

/-- selecting one valid index gives that sheet -/
theorem select_single (r : Reader) (k : Nat) (s : Wb.Sheet) (hk : r.sheets[k]? = some s) :
    selectSheets r [(k : Int)] = [s] := by
  have hlt : k < r.sheets.length := by
    rcases Nat.lt_or_ge k r.sheets.length with h | h
    · exact h
    · rw [List.getElem?_eq_none h] at hk; cases hk
  unfold selectSheets
  have : (0 : Int) ≤ (k : Int) ∧ (k : Int) < (r.sheets.length : Int) := by omega
  simp [this, hk]

/-- indices outside `0 … SheetCount-1` are dropped, the others kept in the order given -/
theorem select_out_of_range (r : Reader) (idx : Int) (rest : List Int)
    (h : idx < 0 ∨ idx ≥ r.sheets.length) :
    selectSheets r (idx :: rest) = if rest.isEmpty then [] else selectSheets r rest := by
  unfold selectSheets
  have : ¬ (0 ≤ idx ∧ idx < (r.sheets.length : Int)) := by omega
  cases rest with
  | nil => simp [this]
  | cons a as => simp [this]

/-- the two compatibility flags change nothing -/
theorem exclude_flags_ignored (r : Reader) (o : ExtractOptions) (xh xf : Bool) (lvl : Nat) :
    textWithOptions r { o with excludeHeaders := xh, excludeFooters := xf } = textWithOptions r o ∧
    markdown r { o with excludeHeaders := xh, excludeFooters := xf } lvl = markdown r o lvl :=
  ⟨rfl, rfl⟩

/-! ## text -/

/-- the text of a sheet is the tab/newline-joined table of displayed values -/
theorem text_render (d : Str) (g : Grid) :
    sheetTextD d g = intercalate [10] ((shownGrid g).map (intercalate d)) := by
  unfold sheetTextD shownGrid rowText
  rw [List.map_map]; rfl

/-- one selected sheet, default delimiter, no headers: exactly the sheet's rows -/
theorem text_single (r : Reader) (o : ExtractOptions) (s : Wb.Sheet)
    (hsel : selectSheets r o.sheets = [s]) (hh : o.includeHeaders = false) (hd : o.delimiter = []) :
    textWithOptions r o = sheetText s.rows := by
  unfold textWithOptions sheetBlock effDelimiter
  rw [hsel]
  simp only [List.map_cons, List.map_nil, hh, hd, if_true, Bool.false_eq_true, if_false, List.nil_append]
  rfl

/-- with `IncludeHeaders` the block of a sheet is its "=== name ===" line, then the rows -/
theorem text_header (o : ExtractOptions) (s : Wb.Sheet) (hh : o.includeHeaders = true) :
    sheetBlock o s = [61, 61, 61, 32] ++ s.name ++ [32, 61, 61, 61, 10] ++ sheetTextD (effDelimiter o) s.rows := by
  unfold sheetBlock headerLine; simp [hh]

/-! ## Markdown -/

/-- the heading level handed to `markdown` is a Markdown heading level -/
theorem heading_level_range (mo : MdOptions) (l : Int) :
    1 ≤ adjustHeadingLevel mo l ∧ adjustHeadingLevel mo l ≤ 6 := by
  unfold adjustHeadingLevel
  simp only
  split <;> split <;> split <;> split <;> omega

/-- default options: sheet names are level-2 headings -/
theorem heading_level_default : adjustHeadingLevel {} 2 = 2 := by decide

/-- `MarkdownWithRAGOptions`: optional front matter and table of contents, then the body of
`markdown` unchanged, at a heading level between 1 and 6 -/
theorem rag_markdown_body (r : Reader) (o : ExtractOptions) (mo : MdOptions) (front toc : Str)
    (h1 : mo.includeMetadata = false) (h2 : mo.includeTOC = false) :
    markdownWithRAG r o mo front toc = markdown r o (adjustHeadingLevel mo 2).toNat ∧
      1 ≤ (adjustHeadingLevel mo 2).toNat := by
  have := heading_level_range mo 2
  refine ⟨?_, by omega⟩
  unfold markdownWithRAG
  simp [h1, h2]

/-- **the Markdown table of a sheet is `Tables()[i].ToMarkdown()`** -/
theorem markdown_table_is_tables_markdown (s : Wb.Sheet) (hrect : Rect (s.maxCol + 1) s.rows) :
    sheetTableMd s = (sheetToTable s).toMarkdown := sheetTableMd_eq s hrect

/-- **`ToMarkdown` read back**: a GFM reader finds header and rows, each cell padded by one
space, newlines as spaces, pipes unescaped -/
theorem tables_markdown_read_back (t : PTable) (h : t.headers.isEmpty = false) :
    mdReadTable t.toMarkdown = (t.headers :: t.rows).map (·.map pad) := mdRead_toMarkdown t h

/-- **Markdown of one selected sheet, read back**: the reader finds the content box -/
theorem markdown_read_back (r : Reader) (o : ExtractOptions) (s : Wb.Sheet) (lvl : Nat) (hl : 1 ≤ lvl)
    (hsel : selectSheets r o.sheets = [s]) (hrect : Rect (s.maxCol + 1) s.rows)
    (hne : (findContentBounds s).isEmpty = false) (hname : 10 ∉ s.name) :
    mdReadTable (markdown r o lvl) = (boxTable s).map (·.map pad) := by
  unfold markdown
  rw [hsel]
  simp only [List.map_cons, List.map_nil, intercalate]
  exact mdRead_sheetMd s lvl hl hrect hne hname

/-! ## document model and Tables -/

/-- one page per sheet, numbered by the sheet's workbook position -/
theorem document_pages (r : Reader) (k : Nat) :
    (document r)[k]? = (r.sheets[k]?).map sheetPage ∧ (tables r)[k]? = (r.sheets[k]?).map sheetToTable := by
  simp [document, tables]

theorem page_number (s : Wb.Sheet) : (sheetPage s).number = s.index + 1 := rfl

/-- a sheet without content gives a page without a table and an empty `ParsedTable` -/
theorem empty_sheet_outputs (s : Wb.Sheet) (h : (findContentBounds s).isEmpty = true) :
    (sheetPage s).table = none ∧ sheetToTable s = ⟨s.name, [], []⟩ ∧ sheetTableMd s = [] := by
  refine ⟨by simp [sheetPage, h], by simp [sheetToTable, h], ?_⟩
  unfold sheetTableMd; simp only [h]; split <;> rfl

/-- **the document table**: it has the dimensions of the content box (so the unguarded indexing
of the Go code stays inside the grid), its texts are the box of displayed values, the first row
is the header row, and the spans are the cell's `MergeRows`/`MergeCols` -/
theorem document_table (s : Wb.Sheet) (hrect : Rect (s.maxCol + 1) s.rows)
    (hne : (findContentBounds s).isEmpty = false) :
    ∃ t, (sheetPage s).table = some t ∧
      t.map (fun row => row.map (·.text)) = boxTable s ∧
      t.length = (findContentBounds s).nR ∧ (∀ row ∈ t, row.length = (findContentBounds s).nC) ∧
      ∀ i j, (t[i]?).bind (·[j]?) =
        if i < (findContentBounds s).nR ∧ j < (findContentBounds s).nC then
          (s.rows.get ((findContentBounds s).r0 + i) ((findContentBounds s).c0 + j)).map (toDCell (i == 0))
        else none := by
  obtain ⟨f1, f2, _, _, _, _⟩ := box_facts s hrect hne
  have htexts := docTable_texts s.rows (findContentBounds s)
  refine ⟨docTable s.rows (findContentBounds s), by simp [sheetPage, hne], htexts, ?_, ?_, docTable_get _ _⟩
  · have := congrArg List.length htexts
    rw [List.length_map] at this
    rw [this]
    exact subTable_length _ _ _ _ _ (by simpa [shownGrid] using f1)
  · intro row hrow
    have hmem : row.map (·.text) ∈ (docTable s.rows (findContentBounds s)).map (fun row => row.map (·.text)) :=
      List.mem_map_of_mem hrow
    rw [htexts] at hmem
    have := subTable_row_length (shownGrid s.rows) _ _ _ _ (s.maxCol + 1) (by
      intro row' hrow'
      simp only [shownGrid, List.mem_map] at hrow'
      obtain ⟨r0, hr0, rfl⟩ := hrow'
      rw [List.length_map]; exact hrect r0 hr0) f2 _ hmem
    simpa using this

/-- **`Tables()`**: header row and data rows are the content box of displayed values -/
theorem tables_table (s : Wb.Sheet) (hrect : Rect (s.maxCol + 1) s.rows)
    (hne : (findContentBounds s).isEmpty = false) :
    (sheetToTable s).name = s.name ∧ (sheetToTable s).headers :: (sheetToTable s).rows = boxTable s := by
  obtain ⟨h1, h2⟩ := sheetToTable_box s hrect hne
  exact ⟨h1, h2.symm⟩

/-! ## end to end -/

/-- the content box of a loaded sheet is the tight bounding box of the positions that display
something -/
theorem box_is_displayed_box {shared : List Str} {i used : Nat} {fresh : Bool} {x : SheetXML} {s : Wb.Sheet}
    (h : loadSheet shared i used fresh x = some s) :
    (∀ r c, r < maxRowOf x.rows → c ≤ maxColOf x.rows → displayed shared x r c ≠ [] →
      (findContentBounds s).minRow ≤ r ∧ (r : Int) ≤ (findContentBounds s).maxRow ∧
      (findContentBounds s).minCol ≤ c ∧ (c : Int) ≤ (findContentBounds s).maxCol) ∧
    ((findContentBounds s).isEmpty = false →
      (∃ c, displayed shared x (findContentBounds s).minRow.toNat c ≠ []) ∧
      (∃ c, displayed shared x (findContentBounds s).maxRow.toNat c ≠ []) ∧
      (∃ r, displayed shared x r (findContentBounds s).minCol.toNat ≠ []) ∧
      (∃ r, displayed shared x r (findContentBounds s).maxCol.toNat ≠ [])) ∧
    ((findContentBounds s).isEmpty = true →
      ∀ r c, r < maxRowOf x.rows → c ≤ maxColOf x.rows → displayed shared x r c = []) := by
  have hrect := (loadSheet_shape h).2
  obtain ⟨t1, t2, t3⟩ := bounds_tight s hrect
  refine ⟨?_, ?_, ?_⟩
  · intro r c hr hc hd
    exact t1 r c ((content_iff_displayed h r c).mpr ⟨hr, hc, hd⟩)
  · intro hne
    have hex : ∃ r c, HasContent s.rows r c := by
      apply Classical.byContradiction
      intro hno
      have := (t3 hno).2
      rw [hne] at this; cases this
    obtain ⟨⟨c1, a1⟩, ⟨c2, a2⟩, ⟨r3, a3⟩, ⟨r4, a4⟩, _⟩ := t2 hex
    exact ⟨⟨c1, ((content_iff_displayed h _ _).mp a1).2.2⟩, ⟨c2, ((content_iff_displayed h _ _).mp a2).2.2⟩,
      ⟨r3, ((content_iff_displayed h _ _).mp a3).2.2⟩, ⟨r4, ((content_iff_displayed h _ _).mp a4).2.2⟩⟩
  · intro he r c hr hc
    apply Classical.byContradiction
    intro hd
    have hcont := (content_iff_displayed h r c).mpr ⟨hr, hc, hd⟩
    obtain ⟨k1, k2, _, _⟩ := t1 r c hcont
    have hne := (t2 ⟨r, c, hcont⟩).2.2.2.2
    rw [he] at hne; cases hne

/-- every cell text of a loaded grid is the displayed value of its position -/
theorem grid_texts {shared : List Str} {i used : Nat} {fresh : Bool} {x : SheetXML} {s : Wb.Sheet}
    (h : loadSheet shared i used fresh x = some s) (row : List Cell) (hrow : row ∈ s.rows) (cell : Cell) (hcell : cell ∈ row) :
    ∃ r c, r < maxRowOf x.rows ∧ c ≤ maxColOf x.rows ∧ cellText cell = displayed shared x r c := by
  obtain ⟨r, hr, er⟩ := List.getElem_of_mem hrow
  obtain ⟨c, hc, ec⟩ := List.getElem_of_mem hcell
  obtain ⟨d1, d2, d3, _, _⟩ := grid_dims h
  have hr' : r < maxRowOf x.rows := by rw [← d1]; exact hr
  have hc' : c ≤ maxColOf x.rows := by have := d3 row hrow; omega
  obtain ⟨cell', g1, _, _, _, _, g6⟩ := grid_cell h r c hr' hc'
  rw [cell_eq_get] at g1
  have : s.rows.get r c = some cell := by
    unfold Grid.get
    rw [List.getElem?_eq_getElem hr, er]
    simp [List.getElem?_eq_getElem hc, ec]
  rw [this] at g1
  cases g1
  exact ⟨r, c, hr', hc', g6⟩

/-- **C17, end to end.**  Let a worksheet part `x` load as sheet `s`, the `k`-th sheet of an
opened workbook whose name has no line break, and let `(rr,cc)` be any position of its grid
(by `no_cell_lost` every addressed position is one).  Write `v` for the value the file displays
there (`displayed`: the stored value — shared, rich, inline, formula-cached, boolean, error or
number by the kind theorems — blank under a merged region except at its top-left).  Then

* the sheet grid has `v` at `Cell(rr,cc)`;
* in the tab-separated text of the sheet, line `rr` / field `cc` is `v`, provided no displayed
  value contains a tab or a newline;
* if `(rr,cc)` lies in the content box (`box_is_displayed_box`: the tight box of the positions
  displaying something), then at row `rr - minRow`, column `cc - minCol`
  - a GFM reader of `markdown` finds `v` (padded by a space each side, newlines as spaces),
  - the table of page `k` of `Document()` has text `v`,
  - `Tables()[k]` (header row first) has `v`. -/
theorem cell_lands_everywhere {shared : List Str} {i used : Nat} {fresh : Bool} {x : SheetXML} {s : Wb.Sheet}
    (h : loadSheet shared i used fresh x = some s) (r : Reader) (k : Nat) (hk : r.sheets[k]? = some s)
    (lvl : Nat) (hl : 1 ≤ lvl) (hname : 10 ∉ s.name)
    (rr cc : Nat) (hr : rr < maxRowOf x.rows) (hc : cc ≤ maxColOf x.rows) :
    (s.cell rr cc).map cellText = some (displayed shared x rr cc) ∧
    ((∀ r' c', 9 ∉ displayed shared x r' c' ∧ 10 ∉ displayed shared x r' c') →
      ((splitOn 10 (textWithOptions r { sheets := [(k : Int)] }))[rr]?).bind (fun line => (splitOn 9 line)[cc]?) =
        some (displayed shared x rr cc)) ∧
    ((findContentBounds s).isEmpty = false →
      (findContentBounds s).minRow ≤ rr → (rr : Int) ≤ (findContentBounds s).maxRow →
      (findContentBounds s).minCol ≤ cc → (cc : Int) ≤ (findContentBounds s).maxCol →
      ((mdReadTable (markdown r { sheets := [(k : Int)] } lvl))[rr - (findContentBounds s).r0]?).bind
          (·[cc - (findContentBounds s).c0]?) = some (pad (displayed shared x rr cc)) ∧
      ((((document r)[k]?).bind (·.table)).bind fun t =>
          ((t[rr - (findContentBounds s).r0]?).bind (·[cc - (findContentBounds s).c0]?)).map (·.text)) =
        some (displayed shared x rr cc) ∧
      (((tables r)[k]?).bind fun t =>
          ((t.headers :: t.rows)[rr - (findContentBounds s).r0]?).bind (·[cc - (findContentBounds s).c0]?)) =
        some (displayed shared x rr cc)) := by
  obtain ⟨cell, g1, _, _, _, _, g6⟩ := grid_cell h rr cc hr hc
  obtain ⟨hlen, hrect⟩ := loadSheet_shape h
  have hsel := select_single r k s hk
  have hget : (s.rows.get rr cc).map cellText = some (displayed shared x rr cc) := by
    rw [← cell_eq_get, g1, Option.map_some, g6]
  refine ⟨by rw [g1, Option.map_some, g6], ?_, ?_⟩
  · intro hclean
    rw [text_single r { sheets := [(k : Int)] } s hsel rfl rfl]
    have hg : s.rows ≠ [] := by
      intro e; rw [e] at hlen; simp at hlen; omega
    have hrows : ∀ row ∈ s.rows, row ≠ [] := by
      intro row hrow e
      have := hrect row hrow
      rw [e] at this; simp at this
    rw [C17.text_line_field s.rows hg hrows ?_ rr cc, hget]
    intro row hrow cell' hcell'
    obtain ⟨r', c', _, _, e⟩ := grid_texts h row hrow cell' hcell'
    rw [e]; exact hclean r' c'
  · intro hne b1 b2 b3 b4
    obtain ⟨f1, f2, _, _, _, _⟩ := box_facts s hrect hne
    obtain ⟨p1, _, _, p4, _, _⟩ := bounds_in_grid s hrect hne
    have ei : (findContentBounds s).r0 + (rr - (findContentBounds s).r0) = rr := by
      unfold Bounds.r0; omega
    have ej : (findContentBounds s).c0 + (cc - (findContentBounds s).c0) = cc := by
      unfold Bounds.c0; omega
    have hi : rr - (findContentBounds s).r0 < (findContentBounds s).nR := by
      unfold Bounds.r0 Bounds.nR; omega
    have hj : cc - (findContentBounds s).c0 < (findContentBounds s).nC := by
      unfold Bounds.c0 Bounds.nC; omega
    have hbox : ((boxTable s)[rr - (findContentBounds s).r0]?).bind (·[cc - (findContentBounds s).c0]?) =
        some (displayed shared x rr cc) := by
      rw [boxTable_get]; simp only [hi, hj, and_self, if_true, ei, ej]; exact hget
    refine ⟨?_, ?_, ?_⟩
    · rw [markdown_read_back r { sheets := [(k : Int)] } s lvl hl hsel hrect hne hname]
      rw [List.getElem?_map]
      cases hrow : (boxTable s)[rr - (findContentBounds s).r0]? with
      | none => rw [hrow] at hbox; cases hbox
      | some row =>
        rw [hrow] at hbox
        simp only [Option.bind_some] at hbox
        simp only [Option.map_some, Option.bind_some, List.getElem?_map, hbox]
    · obtain ⟨t, t1, t2, _, _, _⟩ := document_table s hrect hne
      rw [(document_pages r k).1, hk]
      simp only [Option.map_some, Option.bind_some, t1]
      rw [← t2] at hbox
      rw [List.getElem?_map] at hbox
      cases hrow : t[rr - (findContentBounds s).r0]? with
      | none => rw [hrow] at hbox; cases hbox
      | some row =>
        rw [hrow] at hbox
        simpa [List.getElem?_map] using hbox
    · obtain ⟨_, t2⟩ := tables_table s hrect hne
      rw [(document_pages r k).2, hk]
      simp only [Option.map_some, Option.bind_some, t2]
      exact hbox

/-- non-vacuity of `cell_lands_everywhere`: a workbook of two parts (the second one missing), the
first sheet with a merged header A1:B1 over a stored B1: one sheet loads, its box is not empty, its
name has no line break, and the Markdown shows the stored B1 blank -/
example :
    let x : SheetXML := ⟨[83], [⟨1, [⟨[65, 49], tStr, [104], [], none⟩, ⟨[66, 49], tStr, [122], [], none⟩]⟩,
      ⟨2, [⟨[65, 50], tStr, [120], [], none⟩, ⟨[66, 50], tStr, [121], [], none⟩]⟩], [[65, 49, 58, 66, 49]], [109]⟩
    (openWorkbook [] [some x, none]).map (fun r =>
      (r.sheets.length, r.sheets.map (fun s => ((findContentBounds s).isEmpty, decide (10 ∉ s.name))), markdown r {} 2)) =
    some (1, [(false, true)],
      [35, 35, 32, 83, 10, 10, 124, 32, 104, 32, 124, 32, 32, 124, 10, 124, 45, 45, 45, 124,
       45, 45, 45, 124, 10, 124, 32, 120, 32, 124, 32, 121, 32, 124]) := by decide

/-! ## the XLSX branches of `tabula.Extractor` -/

/-- `Extractor.Text()` of an XLSX file is `Reader.Text()`; `Extractor.Document()` is
`Reader.Document()`; `Extractor.ToMarkdown()` is `Reader.Markdown()` -/
theorem api_is_reader (r : Reader) (xh xf : Bool) (front toc : Str) :
    apiText r xh xf = text r ∧ apiDocument r = document r ∧
      apiMarkdown r xh xf {} front toc = markdownWithOptions r {} := by
  refine ⟨rfl, rfl, ?_⟩
  unfold apiMarkdown markdownWithRAG markdownWithOptions
  simp only [Bool.false_eq_true, if_false, false_and, List.nil_append]
  rw [heading_level_default]
  rfl

/-! ## call histories -/

/-- **call histories**: on one opened reader, whatever was called before — `Close` included —
every call returns what it returns on the freshly opened reader -/
theorem history_independent (r : Reader) (before : List Call) (c : Call) (o : Bool) :
    (runCalls ⟨r, o⟩ (before ++ [c])).getLast? = some (stepCall ⟨r, true⟩ c).2 := by
  induction before generalizing o with
  | nil => cases c <;> rfl
  | cons b bs ih =>
    have hstate : ∀ b : Call, ∃ o', (stepCall ⟨r, o⟩ b).1 = ⟨r, o'⟩ := by
      intro b; cases b <;> exact ⟨_, rfl⟩
    obtain ⟨o', ho'⟩ := hstate b
    simp only [List.cons_append, runCalls, ho']
    have := ih o'
    cases hrc : runCalls ⟨r, o'⟩ (bs ++ [c]) with
    | nil => rw [hrc] at this; cases this
    | cons y ys => rw [hrc] at this; rw [List.getLast?_cons_cons]; exact this

/-- the whole run: the results are those of the calls made one by one on fresh readers -/
theorem history_results (r : Reader) (calls : List Call) (o : Bool) :
    runCalls ⟨r, o⟩ calls = calls.map fun c => (stepCall ⟨r, true⟩ c).2 := by
  induction calls generalizing o with
  | nil => rfl
  | cons b bs ih =>
    have hstate : ∃ o', (stepCall ⟨r, o⟩ b).1 = ⟨r, o'⟩ := by
      cases b <;> exact ⟨_, rfl⟩
    obtain ⟨o', ho'⟩ := hstate
    simp only [runCalls, ho', List.map_cons, ih o']
    congr 1
    cases b <;> rfl

/-! ## the text of all sheets (`Reader.Text()`, `Extractor.Text()`) -/

/-- the lines of `Text()`: the lines of each sheet's rows, one blank line between sheets -/
theorem text_all_lines (r : Reader) :
    splitOn 10 (text r) = joinBlocks (r.sheets.map fun s => splitOn 10 (sheetText s.rows)) := by
  unfold text textWithOptions
  rw [select_all, splitOn_blocks, List.map_map]
  rfl

/-- a sheet whose displayed values have no tab or newline has one text line per grid row -/
theorem text_line_count (g : Grid) (hg : g ≠ [])
    (hclean : ∀ row ∈ g, ∀ cell ∈ row, 9 ∉ cellText cell ∧ 10 ∉ cellText cell) :
    (splitOn 10 (sheetText g)).length = g.length := by
  unfold sheetText
  rw [splitOn_intercalate 10 _ (by simpa using hg)]
  · simp
  · intro line hline
    obtain ⟨row, hrow, rfl⟩ := List.mem_map.mp hline
    apply not_mem_intercalate 9 10 _ (by decide)
    intro t ht
    obtain ⟨cell, hcell, rfl⟩ := List.mem_map.mp ht
    exact (hclean row hrow cell hcell).2

/-- **line r / field c in the text of the whole workbook**: for the sheet that follows the
sheets `pre`, grid position `(rr,cc)` is field `cc` of line `offset + rr`, where the offset
counts the lines of the earlier sheets and one blank line after each -/
theorem text_all_sheets_line_field {shared : List Str} {i used : Nat} {fresh : Bool} {x : SheetXML} {s : Wb.Sheet}
    (h : loadSheet shared i used fresh x = some s) (r : Reader) (pre post : List Wb.Sheet)
    (hsheets : r.sheets = pre ++ s :: post)
    (hclean : ∀ r' c', 9 ∉ displayed shared x r' c' ∧ 10 ∉ displayed shared x r' c')
    (rr cc : Nat) (hr : rr < maxRowOf x.rows) (hc : cc ≤ maxColOf x.rows) :
    ((splitOn 10 (text r))[lineOffset (pre.map fun p => splitOn 10 (sheetText p.rows)) + rr]?).bind
        (fun line => (splitOn 9 line)[cc]?) = some (displayed shared x rr cc) := by
  obtain ⟨hlen, hrect⟩ := loadSheet_shape h
  have hg : s.rows ≠ [] := by
    intro e; rw [e] at hlen; simp at hlen; omega
  have hcl : ∀ row ∈ s.rows, ∀ cell ∈ row, 9 ∉ cellText cell ∧ 10 ∉ cellText cell := by
    intro row hrow cell hcell
    obtain ⟨r', c', _, _, e⟩ := grid_texts h row hrow cell hcell
    rw [e]; exact hclean r' c'
  have hcount := text_line_count s.rows hg hcl
  rw [text_all_lines, hsheets, List.map_append, List.map_cons,
    joinBlocks_get _ _ _ rr (by rw [hcount, hlen]; exact hr)]
  have hrows : ∀ row ∈ s.rows, row ≠ [] := by
    intro row hrow e
    have := hrect row hrow
    rw [e] at this; simp at this
  rw [C17.text_line_field s.rows hg hrows hcl rr cc]
  obtain ⟨cell, g1, _, _, _, _, g6⟩ := grid_cell h rr cc hr hc
  rw [← cell_eq_get, g1, Option.map_some, g6]

/-! ## any one-byte delimiter -/

/-- **line r / field c for any one-byte delimiter** (`ExtractOptions.Delimiter` = "," ";" …) that is
not a newline and occurs in no displayed value: splitting the rows at newlines and each line at
the delimiter gives the displayed value of `(r,c)` -/
theorem text_line_field_delim (d : Nat) (hd : d ≠ 10) (g : Grid) (hg : g ≠ []) (hrows : ∀ row ∈ g, row ≠ [])
    (hclean : ∀ row ∈ g, ∀ cell ∈ row, d ∉ cellText cell ∧ 10 ∉ cellText cell) (r c : Nat) :
    ((splitOn 10 (sheetTextD [d] g))[r]?).bind (fun line => (splitOn d line)[c]?) =
      (g.get r c).map cellText := by
  unfold sheetTextD rowText
  rw [splitOn_intercalate 10 _ (by simpa using hg)]
  · simp only [List.getElem?_map, Grid.get]
    cases hr : g[r]? with
    | none => simp
    | some row =>
      have hrow : row ∈ g := List.mem_of_getElem? hr
      simp only [Option.map_some, Option.bind_some]
      rw [splitOn_intercalate d _ (by simpa using hrows row hrow)]
      · simp [List.getElem?_map]
      · intro x hx
        obtain ⟨cell, hcell, rfl⟩ := List.mem_map.mp hx
        exact (hclean row hrow cell hcell).1
  · intro line hline
    obtain ⟨row, hrow, rfl⟩ := List.mem_map.mp hline
    apply not_mem_intercalate d 10 _ (fun h => hd h.symm)
    intro x hx
    obtain ⟨cell, hcell, rfl⟩ := List.mem_map.mp hx
    exact (hclean row hrow cell hcell).2

/-- a one-byte `Delimiter` option selects that delimiter, the empty option the tab -/
theorem text_single_delim (r : Reader) (o : ExtractOptions) (s : Wb.Sheet) (d : Nat)
    (hsel : selectSheets r o.sheets = [s]) (hh : o.includeHeaders = false) (hd : o.delimiter = [d]) :
    textWithOptions r o = sheetTextD [d] s.rows := by
  unfold textWithOptions sheetBlock effDelimiter
  rw [hsel]
  simp [hh, hd, intercalate]

example : (splitOn 10 (sheetTextD [44] [[{ value := [97], type := .str }, { value := [98], type := .str }]])) = [[97, 44, 98]] := by decide

/-! ## the Markdown of all sheets (`Reader.Markdown()`, `Extractor.ToMarkdown()`) -/

/-- every sheet of an opened workbook is rectangular (so the box theorems apply to it) -/
theorem open_sheets_rect (sis : List SI) (parts : List (Option SheetXML)) (r : Reader)
    (h : openWorkbook sis parts = some r) : ∀ s ∈ r.sheets, Rect (s.maxCol + 1) s.rows := by
  unfold openWorkbook at h
  simp only at h
  split at h
  · cases h
  · simp only [Option.some.injEq] at h
    subst h
    intro s hs
    obtain ⟨_, x, _, hload⟩ := open_sheet_origin _ parts 0 [] 0 s hs
    exact (loadSheet_shape hload).2

/-- **the Markdown of several sheets read back sheet by sheet**: a reader that cuts the text at
its heading lines finds, under the `(k+1)`-th heading, the content box of the `k`-th selected
sheet — nothing for a sheet without content, nothing beyond the last sheet.  For every selection
of rectangular sheets whose names contain no line break; sheets without content may come last
(there `strings.TrimSpace` cuts into the last heading lines, which still are no table lines). -/
theorem markdown_all_sheets_read_back (r : Reader) (o : ExtractOptions) (lvl : Nat) (hl : 1 ≤ lvl)
    (hrect : ∀ s ∈ selectSheets r o.sheets, Rect (s.maxCol + 1) s.rows)
    (hnames : ∀ s ∈ selectSheets r o.sheets, 10 ∉ s.name) (k : Nat) :
    mdReadSheet k (markdown r o lvl) =
      match (selectSheets r o.sheets)[k]? with
      | some s => if (findContentBounds s).isEmpty then [] else (boxTable s).map (·.map pad)
      | none => [] := by
  unfold markdown
  exact mdReadSheet_general lvl hl _ hrect hnames k

/-- the same with the last selected sheet known to have content (first version of the proof:
`strings.TrimSpace` then removes exactly the final newline) -/
theorem markdown_all_sheets_read_back_last (r : Reader) (o : ExtractOptions) (lvl : Nat) (hl : 1 ≤ lvl)
    (init : List Wb.Sheet) (last : Wb.Sheet) (hsel : selectSheets r o.sheets = init ++ [last])
    (hrect : ∀ s ∈ init ++ [last], Rect (s.maxCol + 1) s.rows)
    (hnames : ∀ s ∈ init ++ [last], 10 ∉ s.name)
    (hlast : (findContentBounds last).isEmpty = false)
    (k : Nat) (s : Wb.Sheet) (hk : (init ++ [last])[k]? = some s) :
    mdReadSheet k (markdown r o lvl) =
      if (findContentBounds s).isEmpty then [] else (boxTable s).map (·.map pad) := by
  unfold markdown
  rw [hsel]
  exact mdReadSheet_all lvl hl init last hrect hnames hlast k s hk

/-- **`Extractor.ToMarkdown()` of a workbook, cell by cell**: for the `k`-th sheet `s`, loaded
from part `x`, and a position `(rr,cc)` of its content box, the reader finds the displayed value
(padded) under the `(k+1)`-th heading at row `rr - minRow`, column `cc - minCol` — for every
opened workbook whose sheet names contain no line break -/
theorem api_markdown_cell (sis : List SI) (parts : List (Option SheetXML)) (r : Reader)
    (hopen : openWorkbook sis parts = some r) (xh xf : Bool) (front toc : Str)
    (hnames : ∀ s ∈ r.sheets, 10 ∉ s.name)
    {shared : List Str} {i used : Nat} {fresh : Bool} {x : SheetXML} {s : Wb.Sheet} (h : loadSheet shared i used fresh x = some s)
    (k : Nat) (hk : r.sheets[k]? = some s)
    (rr cc : Nat) (hr : rr < maxRowOf x.rows) (hc : cc ≤ maxColOf x.rows)
    (hne : (findContentBounds s).isEmpty = false)
    (b1 : (findContentBounds s).minRow ≤ rr) (b2 : (rr : Int) ≤ (findContentBounds s).maxRow)
    (b3 : (findContentBounds s).minCol ≤ cc) (b4 : (cc : Int) ≤ (findContentBounds s).maxCol) :
    ((mdReadSheet k (apiMarkdown r xh xf {} front toc))[rr - (findContentBounds s).r0]?).bind
        (·[cc - (findContentBounds s).c0]?) = some (pad (displayed shared x rr cc)) := by
  have hrectAll := open_sheets_rect sis parts r hopen
  rw [(api_is_reader r xh xf front toc).2.2]
  unfold markdownWithOptions
  rw [markdown_all_sheets_read_back r {} 2 (by omega) (by rw [select_all]; exact hrectAll)
    (by rw [select_all]; exact hnames) k]
  rw [select_all, hk]
  simp only [hne, Bool.false_eq_true, if_false]
  have hrect := (loadSheet_shape h).2
  obtain ⟨cell, g1, _, _, _, _, g6⟩ := grid_cell h rr cc hr hc
  have hget : (s.rows.get rr cc).map cellText = some (displayed shared x rr cc) := by
    rw [← cell_eq_get, g1, Option.map_some, g6]
  obtain ⟨p1, _, _, p4, _, _⟩ := bounds_in_grid s hrect hne
  have ei : (findContentBounds s).r0 + (rr - (findContentBounds s).r0) = rr := by unfold Bounds.r0; omega
  have ej : (findContentBounds s).c0 + (cc - (findContentBounds s).c0) = cc := by unfold Bounds.c0; omega
  have hi : rr - (findContentBounds s).r0 < (findContentBounds s).nR := by unfold Bounds.r0 Bounds.nR; omega
  have hj : cc - (findContentBounds s).c0 < (findContentBounds s).nC := by unfold Bounds.c0 Bounds.nC; omega
  have hbox : ((boxTable s)[rr - (findContentBounds s).r0]?).bind (·[cc - (findContentBounds s).c0]?) =
      some (displayed shared x rr cc) := by
    rw [boxTable_get]; simp only [hi, hj, and_self, if_true, ei, ej]; exact hget
  rw [List.getElem?_map]
  cases hrow : (boxTable s)[rr - (findContentBounds s).r0]? with
  | none => rw [hrow] at hbox; cases hbox
  | some row =>
    rw [hrow] at hbox
    simp only [Option.bind_some] at hbox
    simp only [Option.map_some, Option.bind_some, List.getElem?_map, hbox]

end Tabula.C17O
