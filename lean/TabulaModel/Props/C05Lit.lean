import TabulaModel.Model.StreamLit
import TabulaModel.Lemmas.FiltersLit
import TabulaModel.Lemmas.FiltersTotal
import TabulaModel.Lemmas.PredictFlatPng
import TabulaModel.Lemmas.PredictFlatTiff
import TabulaModel.Props.C05E
/-!
# C05 at the level of the Go loops and buffers — the abstractions of the model, proved

The theorems of `Props/C05*.lean` are about `Model/Filters.lean`, which renders the two ASCII
decoders as one-pass state machines over unbounded naturals and the predictors row by row. Those
renderings were only *compared* with the code so far. `Model/FiltersLit.lean` and
`Model/PredictFlat.lean` transcribe the Go functions statement by statement instead (index loops with
the bounds tests of the source, `break` / `continue`, `uint64` and `byte` arithmetic, shifts and
bitwise or; flat buffers written by index, every index and slice expression checked), and this
file proves, for ALL inputs:

* `hex_loops_refine`, `a85_loops_refine` — the loops of `ASCIIHexDecode` / `ASCII85Decode` compute
  `hexDecode` / `a85Decode`;
* `machine_arithmetic` — the machine operations involved do what the model's arithmetic says:
  `b << 4` on a digit value does not overflow a byte, `(b1 << 4) | b2 = 16·b1 + b2`, the `uint64`
  accumulator never wraps on five digits, `byte(value >> (24 - 8j))` are the big-endian bytes;
* `a85_dead_branch` — the one branch of the loop model that exists for its termination proof only
  cannot be taken;
* `png_buffers_refine`, `tiff_buffers_refine`, `flate_post_refines` — the buffer code of
  `applyPNGPredictor` / `decodePNGRow` / `applyTIFFPredictor2` computes the row-wise model; in
  particular (`predictor_indices_in_range`) no index or slice expression of it is ever out of range
  except where the row-wise model reports an unknown filter type;
* `decode_lit_refines` — `Decode()` over the loop-level functions equals `streamDecodeD` for every
  dictionary and all data; `decode_inverts_encoding_lit`, `decode_error_lit` — the two sentences of
  the property, over the loop-level model.

zlib's inflate stays a parameter; the one thing assumed about it here is that it yields byte
strings (values < 256), needed because `applyTIFFPredictor2` copies the first pixel of a row
without reducing it.
-/
namespace Tabula.C05Lit
open Tabula.Filters

abbrev Bytes (x : Str) : Prop := ∀ b ∈ x, b < 256

/-! ## the ASCII decoders -/

/-- **hex_loops_refine**: the index loop of `filters.ASCIIHexDecode` — white-space `continue`, `>`
`break`, the special case `i+1 >= len(data)`, the inner white-space loop, `(b1 << 4) | b2` — is the
state machine `hexDecode`, on every input (also non-bytes) -/
theorem hex_loops_refine (data : Str) : hexDecodeLit data = hexDecode data := hexDecodeLit_eq data

/-- **a85_loops_refine**: the nested loops of `filters.ASCII85Decode` — leading white space, the
outer loop with `z`, the digit loop with its two exits, `numBytes` and its clamp, `u` padding, the
`uint64` value and its range test, the byte extraction — are the state machine `a85Decode`, on
every input -/
theorem a85_loops_refine (data : Str) : a85DecodeLit data = a85Decode data := a85DecodeLit_eq data

/-- … hence everything proved about `hexDecode` / `a85Decode` holds of the loops: they equal the
literal readings of §7.4.2 / §7.4.3 on every input -/
theorem ascii_loops_are_spec (data : Str) :
    hexDecodeLit data = hexSpec data ∧ a85DecodeLit data = a85Spec data :=
  ⟨by rw [hexDecodeLit_eq, hexDecode_eq_spec], by rw [a85DecodeLit_eq, a85Decode_eq_spec]⟩

/-- **machine_arithmetic**: the byte / `uint64` operations of the two decoders, against the
natural-number arithmetic of the model -/
theorem machine_arithmetic :
    (∀ b, b < 16 → toByte (b <<< 4) = b * 16) ∧
    (∀ h l, h < 16 → l < 16 → (toByte (h <<< 4)) ||| l = h * 16 + l) ∧
    (∀ c, 33 ≤ c → c ≤ 117 → toByte (c - 33) = c - 33) ∧
    (∀ d0 d1 d2 d3 d4, d0 < 85 → d1 < 85 → d2 < 85 → d3 < 85 → d4 < 85 →
      a85ValueU64 [d0, d1, d2, d3, d4] = (((d0 * 85 + d1) * 85 + d2) * 85 + d3) * 85 + d4) ∧
    (∀ v k, k ≤ 4 → a85Emit v k = (bytes4 v).take k) := by
  refine ⟨toByte_shl4, ?_, toByte_digit, ?_, a85Emit_eq⟩
  · intro h l hh hl
    rw [toByte_shl4 h hh, nibbles_or h l hh hl]
  · intro d0 d1 d2 d3 d4 h0 h1 h2 h3 h4
    rw [a85ValueU64_five d0 d1 d2 d3 d4 h0 h1 h2 h3 h4, a85Value_5]

/-- non-vacuity: `'F' << 4 | 'f'`, and `s8W-!` = 2^32-1 in the `uint64` accumulator -/
example : (toByte (15 <<< 4)) ||| 15 = 255 ∧ a85ValueU64 [82, 23, 54, 12, 0] = 4294967295 := by decide

/-- **a85_dead_branch**: the `else none` of `a85Outer` behind `if i < i'` is unreachable: when the
digit loop returns a non-empty group it has moved past the byte it started at -/
theorem a85_dead_branch (data : Str) (i i' : Nat) (ds : List Nat) (hlt : i < data.length)
    (h : a85Inner data i [] = some (i', ds)) (hne : ds ≠ []) : i < i' :=
  a85Inner_progress data i i' ds hlt h hne

/-- non-vacuity: on "!" the digit loop stores one digit and stops behind it -/
example : a85Inner [33] 0 [] = some (1, [0]) := by
  rw [a85Inner_digit [33] 0 [] (by simp) (by simp) (by decide) (by decide) (by decide),
    a85Inner_exit [33] 1 _ (by simp)]
  rfl

/-! ## the predictors -/

/-- **png_buffers_refine**: `applyPNGPredictor` on its flat `result` buffer — `data[rowStart]`, the
slice `data[rowStart+1 : rowStart+rowSize]`, `decodePNGRow` reading `result[i-bpp]`,
`prevRows[(rowNum-1)*rowLength+i]`, `prevRows[(rowNum-1)*rowLength+i-bpp]`, the `copy` back — is the
row-wise model, for all data and parameters -/
theorem png_buffers_refine (data : Str) (p : Params) : applyPNGPredictorFlat data p = applyPNGPredictor data p :=
  applyPNGPredictorFlat_eq data p

/-- **tiff_buffers_refine**: `applyTIFFPredictor2` on its one buffer with `idx = rowStart + col` and
`result[idx-colors]` is the row-wise model, for all byte strings and parameters -/
theorem tiff_buffers_refine (data : Str) (p : Params) (hd : Bytes data) :
    applyTIFFPredictor2Flat data p = applyTIFFPredictor2 data p :=
  applyTIFFPredictor2Flat_eq data p hd

/-- the hypothesis of `tiff_buffers_refine` is needed: Go copies the first pixel unreduced -/
example : applyTIFFPredictor2Flat [300] {} = some [300] ∧ applyTIFFPredictor2 [300] {} = some [44] := by decide

/-- **flate_post_refines**: FlateDecode's post-processing over the buffer-level predictors -/
theorem flate_post_refines (params : Option Params) (dec : Str) (hd : Bytes dec) :
    flatePostFlat params dec = flatePost params dec := by
  unfold flatePostFlat flatePost
  cases params with
  | none => rfl
  | some p =>
    simp only
    cases p.predictor with
    | none => rfl
    | some pr =>
      simp only [applyPredictor]
      rw [png_buffers_refine, tiff_buffers_refine dec p hd]

/-- **predictor_indices_in_range** (no panic in the buffer code): with a valid geometry, whole rows
and filter-type bytes ≤ 4 — the cases in which the row-wise model cannot fail
(`C05Err.png_error_iff`) — the buffer-level PNG predictor returns bytes: none of its checked index
and slice expressions is out of range. The TIFF predictor returns bytes for every valid geometry
and whole rows. -/
theorem predictor_indices_in_range (data : Str) (p : Params) (rb : Nat) (hb : p.bpc.getD 8 = 8)
    (hrb : predictorRowBytes (p.columns.getD 1) (p.colors.getD 1) = some rb) :
    (data.length % (rb + 1) = 0 →
      (∀ k, k < data.length / (rb + 1) → ∃ t, data[k * (rb + 1)]? = some t ∧ t ≤ 4) →
      ∃ out, applyPNGPredictorFlat data p = some out) ∧
    (Bytes data → data.length % rb = 0 → ∃ out, applyTIFFPredictor2Flat data p = some out) := by
  refine ⟨?_, ?_⟩
  · intro hmod htags
    rw [png_buffers_refine]
    cases h : applyPNGPredictor data p with
    | some out => exact ⟨out, rfl⟩
    | none =>
      rcases (applyPNGPredictor_none_iff data p).mp h with h1 | h1 | ⟨rb', h1, h2⟩
      · exact absurd hb h1
      · rw [hrb] at h1; exact absurd h1 (by simp)
      · rw [hrb] at h1
        simp only [Option.some.injEq] at h1
        subst h1
        rcases h2 with h2 | ⟨k, t, hk, ht, ht4⟩
        · exact absurd hmod h2
        · obtain ⟨t', ht', ht4'⟩ := htags k hk
          rw [ht] at ht'
          simp only [Option.some.injEq] at ht'
          omega
  · intro hd hmod
    rw [tiff_buffers_refine data p hd]
    cases h : applyTIFFPredictor2 data p with
    | some out => exact ⟨out, rfl⟩
    | none =>
      rcases (applyTIFFPredictor2_none_iff data p).mp h with h1 | h1 | ⟨rb', h1, h2⟩
      · exact absurd hb h1
      · rw [hrb] at h1; exact absurd h1 (by simp)
      · rw [hrb] at h1
        simp only [Option.some.injEq] at h1
        subst h1
        exact absurd hmod h2

example : predictorRowBytes (({ columns := some 3 } : Params).columns.getD 1) (({ columns := some 3 } : Params).colors.getD 1) = some 3 := by
  decide

/-! ## `Decode()` -/

/-- zlib hands on byte strings -/
def InflateBytes (inflate : Str → Option Str) : Prop := ∀ z dec, inflate z = some dec → Bytes dec

theorem stage_lit_refines (ext : Ext) (hinf : InflateBytes ext.inflate) (data name : Str) (params : Option Params) :
    decodeWithFilterLit ext data name params = decodeWithFilter ext data name params := by
  by_cases h1 : name = nFlateDecode ∨ name = nFl
  · rw [decodeWithFilterLit, if_pos h1, decodeWithFilter, if_pos h1]
    unfold flateDecodeLit flateDecode
    cases hi : ext.inflate data with
    | none => rfl
    | some dec => exact flate_post_refines params dec (hinf data dec hi)
  · by_cases h2 : name = nASCIIHexDecode ∨ name = nAHx
    · rw [decodeWithFilterLit, if_neg h1, if_pos h2, decodeWithFilter, if_neg h1, if_pos h2]
      exact hex_loops_refine data
    · by_cases h3 : name = nASCII85Decode ∨ name = nA85
      · rw [decodeWithFilterLit, if_neg h1, if_neg h2, if_pos h3, decodeWithFilter, if_neg h1, if_neg h2, if_pos h3]
        exact a85_loops_refine data
      · rw [decodeWithFilterLit, if_neg h1, if_neg h2, if_neg h3]

theorem chain_lit_refines (ext : Ext) (hinf : InflateBytes ext.inflate) (dp : DParms) :
    ∀ (fs : List FObj) (i : Nat) (data : Str), decodeChainLit ext dp fs i data = decodeChain ext dp fs i data := by
  intro fs
  induction fs with
  | nil => intro i data; rfl
  | cons f fs ih =>
    intro i data
    cases f with
    | other => rfl
    | name n =>
      simp only [decodeChainLit, decodeChain, stage_lit_refines ext hinf]
      cases decodeWithFilter ext data n (chainParams dp i) with
      | none => rfl
      | some d => exact ih (i + 1) d

/-- **decode_lit_refines**: `Decode()` assembled from the loop-level decoders and the buffer-level
predictors returns, for every stream dictionary and all data, what `streamDecodeD` returns -/
theorem decode_lit_refines (ext : Ext) (hinf : InflateBytes ext.inflate) (d : Dict) (data : Str) :
    streamDecodeDLit ext d data = streamDecodeD ext d data := by
  unfold streamDecodeDLit streamDecodeD streamDecodeLit streamDecode
  cases objToFilter (dictGet d kFilter) with
  | absent => rfl
  | one o =>
    cases o with
    | other => rfl
    | name n => exact stage_lit_refines ext hinf data n _
  | array fs => exact chain_lit_refines ext hinf _ fs 0 data

/-- **decode_inverts_encoding_lit** — the first sentence of the property over the loop-level model:
for every pipeline (any length; ASCIIHex, ASCII85, Flate with no / TIFF / PNG predictor at any
geometry and per-row filter types), every conforming encoding `y` of `x` and every conforming
dictionary, the Go-shaped loops and buffers return `x` -/
theorem decode_inverts_encoding_lit (ext : Ext) (hinf : InflateBytes ext.inflate) (stages : List WStage) (d : Dict)
    (x y : Str) (hd : C05E.Conforming d stages) (hw : C05E.ChainWrites ext.inflate stages x y) :
    streamDecodeDLit ext d y = some x := by
  rw [decode_lit_refines ext hinf, C05E.decode_inverts_encoding ext stages d x y hd hw]

/-- **decode_error_lit** — the second sentence: the loop-level `Decode()` returns an error exactly
when `streamDecodeD` does (so `C05Err.decode_error_iff` characterises its errors too), and never
bytes other than `streamDecodeD`'s -/
theorem decode_error_lit (ext : Ext) (hinf : InflateBytes ext.inflate) (d : Dict) (data : Str) :
    (streamDecodeDLit ext d data = none ↔ streamDecodeD ext d data = none) ∧
    (∀ y, streamDecodeDLit ext d data = some y ↔ streamDecodeD ext d data = some y) := by
  rw [decode_lit_refines ext hinf]
  exact ⟨Iff.rfl, fun _ => Iff.rfl⟩

/-- a "stored" compressor's inverse: the identity on byte strings -/
def storedInflate (z : Str) : Option Str := if z.all (· < 256) = true then some z else none

/-- non-vacuity of `InflateBytes` -/
theorem storedInflate_bytes : InflateBytes storedInflate := by
  intro z dec h
  unfold storedInflate at h
  by_cases hall : z.all (· < 256) = true
  · rw [if_pos hall] at h
    simp only [Option.some.injEq] at h
    subst h
    intro b hb
    simpa using List.all_eq_true.mp hall b hb
  · rw [if_neg hall] at h
    exact absurd h (by simp)

/-- `<< /Filter [/AHx /Fl] /DecodeParms [null << /Predictor 12 /Columns 3 >>] >>` through the loops
and buffers: hexadecimal, "inflate" (identity), PNG Up on two rows -/
example : streamDecodeDLit { inflate := storedInflate, ccitt := fun _ _ => none }
    [(kDecodeParms, .array [.null, .dict [(kColumns, .int 3), (kPredictor, .int 12)]]),
     (kFilter, .array [.name nAHx, .name nFl])]
    [48, 50, 32, 48, 49, 48, 50, 10, 48, 51, 48, 50, 48, 51, 48, 51, 48, 51, 62, 120] = some [1, 2, 3, 4, 5, 6] := by
  rw [decode_lit_refines _ storedInflate_bytes]
  decide

end Tabula.C05Lit
