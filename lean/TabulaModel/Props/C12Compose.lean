import TabulaModel.Lemmas.ChunkSplit
import TabulaModel.Lemmas.ChunkToc
import TabulaModel.Props.C12
/-!
# C12, element-based chunker with the text splitter of C13 in place: the property end to end

`Props/C12.lean` states every clause for an arbitrary splitter `sp` that meets the contract
`SplitOK sp`. `Model/ChunkSplit.lean` instantiates `sp` with the model of
`SizeCalculator.IsAboveMax` / `SplitToSize` (property C13, `Model/Split.lean`), so that
`rag.ChunkDocumentWithConfig` is modelled with no parameter left (`chunkDocumentC`), and this
file discharges the contract from C13's conservation theorem (`splitToSize_pieces`) and chains
the clauses into the statement of the property.

The one hypothesis, `DocNoWide d`: the paragraphs of the document contain no White_Space
character of more than one byte. C13's conservation is "white space aside" for Unicode
White_Space (what `strings.TrimSpace` removes), C12's `strip` removes ASCII white space; on
such documents the two agree.
-/
namespace Tabula.C12Compose
open Tabula.Chunk Tabula.ChunkSplit

/-- **C13's splitter meets C12's contract** on every text without wide white space, for every
size configuration (all five units, any limit, any tokens-per-char). -/
theorem splitter_meets_contract (c : Tabula.Split.SizeConfig) (t : Str) (ps : List Str)
    (hn : noWide t = true) (h : splitterOf c t = some ps) : strip ps.flatten = strip t := by
  apply guarded_ok c t ps
  unfold guarded
  rw [if_pos hn]; exact h

/-- `noWide` holds of ASCII text and of text with multi-byte letters; it fails on U+00A0 -/
example : noWide (ofString "a b\n\tc é 日本") = true ∧ noWide [97, 0xC2, 0xA0, 98] = false := by decide

/- Full statement ("white space aside" read as Unicode White_Space, no hypothesis on the document)
   is not proved: C12's `strip` and `trim` are ASCII, so a U+00A0 that `SplitToSize` trims away at
   a cut would count as lost text. `DocNoWide` confines the theorem to the documents on which the
   two readings agree (the generated ones). -/

/-- **Cover with the real splitter**: for every size configuration and every document whose
paragraphs have ASCII white space only, the chunk texts of `ChunkDocumentWithConfig`
concatenate, white space aside, to the rendered elements of the document in document order. -/
theorem element_cover (c : Tabula.Split.SizeConfig) (d : Doc) (hd : DocNoWide d) :
    strip (textsOf (chunkDocumentC c d)) = strip ((d.flatMap (·.elems)).flatMap render) := by
  unfold chunkDocumentC chunkDocument
  rw [← chunkDocumentWith_guard stackTracker (splitterOf c) d hd]
  exact Tabula.C12.doc_chunks_cover (guarded (splitterOf c)) (guarded_ok c) d

/-- `DocNoWide` is satisfiable: a paragraph of 30 characters split at 10 -/
example :
    let c : Tabula.Split.SizeConfig := { maxValue := 10, maxUnit := .characters, tpcNum := 1, tpcDen := 4, sem := true }
    let d : Doc := [⟨1, none, [.heading 1 (ofString "T"), .para (ofString "aaaa bbbb cccc dddd eeee ffff")]⟩]
    DocNoWide d ∧ (chunkDocumentC c d).map (·.text) =
      [ofString "T", ofString "aaaa bbbb", ofString "cccc dddd", ofString "eeee ffff"] := by
  refine ⟨?_, by decide +kernel⟩
  intro pg hpg t ht
  simp only [List.mem_singleton] at hpg
  subst hpg
  simp only [List.mem_cons, reduceCtorEq, Elem.para.injEq, List.not_mem_nil, or_false, false_or] at ht
  subst ht
  decide

/-! ### what the rendering of an element contains -/

/-- a rendered list (ordered or not) is its item texts, in order, each on its own line behind
its indentation and its marker (`- ` or `n. `) -/
theorem list_render_items_any (ordered : Bool) (items : List (Int × Str)) :
    ∃ marks : List Str, marks.length = items.length ∧
      fmtListItems ordered items [] (-1) =
        (marks.zip items).flatMap (fun m => m.1 ++ m.2.2 ++ [10]) := by
  generalize (-1 : Int) = last
  generalize ([] : List (Int × Nat)) = ctrs
  induction items generalizing last ctrs with
  | nil => exact ⟨[], rfl, rfl⟩
  | cons it rest ih =>
    obtain ⟨lvl, txt⟩ := it
    cases ordered with
    | false =>
      obtain ⟨ms, hl, he⟩ := ih lvl (if lvl ≤ last then ctrs.filter (fun e => !(decide (lvl < e.1))) else ctrs)
      refine ⟨(indent lvl ++ [45, 32]) :: ms, by simp [hl], ?_⟩
      simp only [fmtListItems, Bool.false_eq_true, if_false, List.zip_cons_cons, List.flatMap_cons]
      rw [he]
    | true =>
      obtain ⟨ms, hl, he⟩ := ih lvl (ctrSet (if lvl ≤ last then ctrs.filter (fun e => !(decide (lvl < e.1))) else ctrs) lvl
        (ctrGet (if lvl ≤ last then ctrs.filter (fun e => !(decide (lvl < e.1))) else ctrs) lvl + 1))
      refine ⟨(indent lvl ++ Tabula.A1.dec (ctrGet (if lvl ≤ last then ctrs.filter (fun e => !(decide (lvl < e.1))) else ctrs) lvl + 1)
        ++ [46, 32]) :: ms, by simp [hl], ?_⟩
      simp only [fmtListItems, if_true, List.zip_cons_cons, List.flatMap_cons]
      rw [he]

/-- **the text of a list chunk is its item lines** (`createListChunk` after efed37d): what
`render` and `stepElem` put into the chunk is the rendering of `list_render_items_any` with
nothing but trailing white space taken away — nothing is taken from the front, so the first
item stands behind its own indentation like every other one. -/
theorem list_text_lines (ordered : Bool) (items : List (Int × Str)) :
    ∃ ws, (∀ c ∈ ws, isSpace c = true) ∧
      listText ordered items ++ ws = fmtListItems ordered items [] (-1) :=
  trimRight_tail _

/-- …hence, white space aside, a list chunk is the item lines (the form `doc_chunks_cover` and
`element_cover` use for `render (.list o items)`) -/
theorem list_text_strip (ordered : Bool) (items : List (Int × Str)) :
    strip (listText ordered items) = strip (fmtListItems ordered items [] (-1)) :=
  strip_trimRight _

/-- **a nested first item keeps its indentation**: the chunk text of a list starts with two
blanks per level of its FIRST item and that item's marker (`-`, or `1.` in an ordered list) —
for any level, any text, any items after it. -/
theorem list_text_first_item_indent (ordered : Bool) (lvl : Int) (txt : Str) (rest : List (Int × Str)) :
    ∃ tail, listText ordered ((lvl, txt) :: rest)
      = indent lvl ++ (if ordered then [49, 46] else [45]) ++ tail := by
  have h1 : Tabula.A1.dec 1 = [49] := by simp [Tabula.A1.dec, Tabula.A1.decAux]
  have hc : (if lvl ≤ (-1 : Int) then ([] : List (Int × Nat)).filter (fun e => !(decide (lvl < e.1))) else []) = [] := by
    split <;> rfl
  unfold listText
  cases ordered with
  | false =>
    simp only [fmtListItems, Bool.false_eq_true, if_false, List.append_assoc]
    rw [show indent lvl ++ ([45, 32] ++ (txt ++ ([10] ++ fmtListItems false rest
        (if lvl ≤ -1 then ([] : List (Int × Nat)).filter (fun e => !(decide (lvl < e.1))) else []) lvl)))
      = indent lvl ++ 45 :: (32 :: (txt ++ ([10] ++ fmtListItems false rest
        (if lvl ≤ -1 then ([] : List (Int × Nat)).filter (fun e => !(decide (lvl < e.1))) else []) lvl))) from rfl,
      trimRight_keep _ 45 _ (by decide)]
    exact ⟨_, rfl⟩
  | true =>
    simp only [fmtListItems, if_true, hc, ctrGet, List.find?_nil, Nat.zero_add, h1, List.append_assoc]
    rw [show indent lvl ++ ([49] ++ ([46, 32] ++ (txt ++ ([10] ++ fmtListItems true rest (ctrSet [] lvl 1) lvl))))
      = (indent lvl ++ [49]) ++ 46 :: (32 :: (txt ++ ([10] ++ fmtListItems true rest (ctrSet [] lvl 1) lvl))) from by simp,
      trimRight_keep _ 46 _ (by decide)]
    exact ⟨trimRight (32 :: (txt ++ ([10] ++ fmtListItems true rest (ctrSet [] lvl 1) lvl))), by simp⟩

/-- the witness of the repaired defect: a list that starts at level 1 -/
example : listText false [(1, [97]), (0, [98])] = [32, 32, 45, 32, 97, 10, 45, 32, 98] := by decide

/-- the pinned code (`strings.TrimSpace` on the item lines, `listTextOld`; finding
`C15/list-depth-ragdoc-first-item-nested`, repaired by efed37d): the chunk text of the list
`[a at level 1, b at level 0]` was `- a\n- b` — the first item's indentation, its nesting depth,
was gone; white space aside (the reading of C12's cover clause) the two texts agree. -/
theorem list_text_pinned_counterexample :
    listTextOld false [(1, [97]), (0, [98])] = [45, 32, 97, 10, 45, 32, 98] ∧
    listTextOld false [(1, [97]), (0, [98])] ≠ listText false [(1, [97]), (0, [98])] ∧
    strip (listTextOld false [(1, [97]), (0, [98])]) = strip (listText false [(1, [97]), (0, [98])]) := by
  decide

/-- undoing `escapeMarkdownCell`'s pipe escape: `\|` stands for `|` -/
def unescapeCell : Str → Str
  | 92 :: 124 :: rest => 124 :: unescapeCell rest
  | b :: rest => b :: unescapeCell rest
  | [] => []

theorem unescape_cons (b : Nat) (rest : Str) (h : ∀ r, ¬ (b = 92 ∧ rest = 124 :: r)) :
    unescapeCell (b :: rest) = b :: unescapeCell rest := by
  rw [unescapeCell.eq_def]
  split
  · rename_i r heq
    simp only [List.cons.injEq] at heq
    exact absurd ⟨heq.1, heq.2⟩ (h _)
  · rename_i b' rest' _ heq
    simp only [List.cons.injEq] at heq
    rw [heq.1, heq.2]
  · rename_i heq; cases heq

theorem cellText_head (c : Str) : ∀ rest, cellText c ≠ 124 :: rest := by
  intro rest h
  cases c with
  | nil => cases h
  | cons b bs =>
    unfold cellText at h
    simp only [List.flatMap_cons] at h
    split at h
    · cases h
    · split at h
      · cases h
      · rename_i h1 h2
        simp only [List.cons_append, List.nil_append, List.cons.injEq] at h
        exact h2 (by simp [h.1])

/-- **a rendered cell is the cell**: un-escaping the pipes gives the cell text back with every
newline turned into a blank — so, white space aside, exactly the cell text -/
theorem strip_cellText (c : Str) : strip (unescapeCell (cellText c)) = strip c := by
  induction c with
  | nil => rfl
  | cons b bs ih =>
    have hc : cellText (b :: bs) = (if b == 10 then [32] else if b == 124 then [92, 124] else [b]) ++ cellText bs := by
      unfold cellText; simp only [List.flatMap_cons]
    rw [hc]
    by_cases h10 : b = 10
    · subst h10
      simp only [BEq.rfl, if_true, List.cons_append, List.nil_append]
      have : unescapeCell (32 :: cellText bs) = 32 :: unescapeCell (cellText bs) :=
        unescape_cons 32 _ (fun r h => absurd h.1 (by decide))
      rw [this]
      unfold strip at ih ⊢
      simp only [List.filter_cons]
      have h1 : isSpace 32 = true := by decide
      have h2 : isSpace 10 = true := by decide
      simp only [h1, h2, Bool.not_true, Bool.false_eq_true, if_false]
      exact ih
    · have e10 : (b == 10) = false := by simpa using h10
      by_cases h124 : b = 124
      · subst h124
        simp only [e10, BEq.rfl, if_true, Bool.false_eq_true, if_false, List.cons_append, List.nil_append]
        have : unescapeCell (92 :: 124 :: cellText bs) = 124 :: unescapeCell (cellText bs) := by
          rw [unescapeCell]
        rw [this]
        unfold strip at ih ⊢
        simp only [List.filter_cons, ih]
      · have e124 : (b == 124) = false := by simpa using h124
        simp only [e10, e124, Bool.false_eq_true, if_false, List.cons_append, List.nil_append]
        have : unescapeCell (b :: cellText bs) = b :: unescapeCell (cellText bs) :=
          unescape_cons b _ (fun r h => cellText_head bs r h.2)
        rw [this]
        unfold strip at ih ⊢
        simp only [List.filter_cons, ih]

/-- without a pipe there is nothing to un-escape -/
theorem strip_cellText_plain (c : Str) (h : 124 ∉ c) : strip (cellText c) = strip c := by
  induction c with
  | nil => rfl
  | cons b bs ih =>
    have hc : cellText (b :: bs) = (if b == 10 then [32] else if b == 124 then [92, 124] else [b]) ++ cellText bs := by
      unfold cellText; simp only [List.flatMap_cons]
    have hb : b ≠ 124 := fun e => h (by rw [e]; exact List.mem_cons_self ..)
    have e124 : (b == 124) = false := by simpa using hb
    rw [hc, strip_append, ih (fun hm => h (List.mem_cons_of_mem _ hm))]
    by_cases h10 : b = 10
    · subst h10; rfl
    · have e10 : (b == 10) = false := by simpa using h10
      simp only [e10, e124, Bool.false_eq_true, if_false]
      rw [← strip_append]; rfl

/-- a markdown table row is, white space aside, `|cell|cell|…|` with every (rendered) cell of
the row once, in order -/
theorem table_row_cells (cells : List Str) :
    strip (mdRow cells) = (cells.flatMap fun c => 124 :: strip (cellText c)) ++ (if cells.isEmpty then [] else [124]) := by
  unfold mdRow
  rw [strip_append, strip_append]
  have h10 : strip [10] = [] := by decide
  rw [h10, List.append_nil]
  congr 1
  · induction cells with
    | nil => rfl
    | cons c cs ih =>
      simp only [List.flatMap_cons, strip_append, ih]
      have h1 : strip [124, 32] = [124] := by decide
      have h2 : strip [32] = [] := by decide
      rw [h1, h2]; simp
  · split <;> rfl

/-- a rendered table is its header row, the separator and its body rows: every cell of every
row once, in order -/
theorem table_render_rows (hd : List Str) (rows : List (List Str)) :
    strip (toMarkdown (hd :: rows)) =
      strip (mdRow hd) ++ strip (mdSep hd) ++ rows.flatMap (fun r => strip (mdRow r)) := by
  simp only [toMarkdown, strip_append]
  congr 1
  induction rows with
  | nil => rfl
  | cons r rs ih => simp only [List.flatMap_cons, strip_append, ih]

/-- the separator holds no cell text: `|---|---|` -/
theorem table_sep (cells : List Str) :
    strip (mdSep cells) = (cells.flatMap fun _ => [124, 45, 45, 45]) ++ (if cells.isEmpty then [] else [124]) := by
  unfold mdSep
  rw [strip_append, strip_append]
  have h10 : strip [10] = [] := by decide
  rw [h10, List.append_nil]
  congr 1
  · induction cells with
    | nil => rfl
    | cons c cs ih =>
      simp only [List.flatMap_cons, strip_append, ih]
      have h1 : strip [124, 45, 45, 45] = [124, 45, 45, 45] := by decide
      rw [h1]
  · split <;> rfl

/-! ### the level of a heading-like paragraph -/

/-- **Every heading of a page gets the level of its own layout entry.** On a page whose number no
other page has, what `chunkPage` takes each element for (after `resolveRepeatedHeadings`, through
`isHeadingElement` / `getHeadingLevel` on the document's table of contents) is what `specHeadings`
says: a `model.Heading` keeps its level; a paragraph whose trimmed text is the text of layout
headings of the page is a heading, the k-th with that text taking the level of the k-th such
layout heading (the last if there are fewer); nothing else is a heading. The section path of
`section_path_enclosing` is the chain of *these* headings. -/
theorem heading_like_levels (d : Doc) (pg : Page) (hs : List (Int × Str)) (hl : pg.layout = some hs)
    (hu : UniquePage d pg) :
    (resolveRepeatedHeadings pg).map (headingOf (tableOfContents d) pg.number) = specHeadings hs [] pg.elems :=
  heading_levels d pg hs hl hu

/-- on a page without layout no paragraph is heading-like -/
theorem no_layout_no_heading_like (d : Doc) (pg : Page) (hl : pg.layout = none) (hu : UniquePage d pg) (t : Str) :
    isHeadingElement t (tableOfContents d) pg.number = false :=
  heading_levels_nolayout d pg hl hu t

/-- Layout.Headings = [H2 a, H4 a], elements a, x, a, y on page 1 of two pages: the first `a` is
level 2, the second level 4; `x` and `y` are no headings -/
example :
    let pg : Page := ⟨1, some [(2, [97]), (4, [97])], [.para [97], .para [120], .para [97], .para [121]]⟩
    let d : Doc := [pg, ⟨2, some [(3, [97])], [.para [97]]⟩]
    UniquePage d pg ∧ specHeadings [(2, [97]), (4, [97])] [] pg.elems = [some (2, [97]), none, some (4, [97]), none] := by
  refine ⟨⟨[], [⟨2, some [(3, [97])], [.para [97]]⟩], rfl, ?_⟩, by decide⟩
  intro q hq
  simp only [List.nil_append, List.mem_singleton] at hq
  subst hq
  decide

/-- the hypothesis matters: two pages with the number 1 — the paragraph of the second is matched
with the entry of the first (level 2, not 4) -/
example :
    let d : Doc := [⟨1, some [(2, [97])], []⟩, ⟨1, some [(4, [97])], [.para [97]]⟩]
    (chunkDocument (fun _ => none) d).map (·.path) = [[[97]]] ∧
    getHeadingLevel [97] (tableOfContents d) 1 = 2 := by decide

/-! ### the property, end to end -/

/-- **The property for `rag.ChunkDocumentWithConfig` / `ChunkDocument` / `Open(f).Chunks()`**
(`chunkDocumentC c d`: element walk, heading stack, `resolveRepeatedHeadings`, table of
contents, `IsAboveMax`/`SplitToSize`; any size configuration `c`; any document `d` whose
paragraphs have ASCII white space only):

1. *cover*: the chunk texts concatenate, white space aside, to the rendered elements of the
   document in document order — nothing dropped, repeated or reordered;
2. *indices, ids, total*: indices `0..n-1` in order, ids pairwise distinct, every chunk
   reports `n`;
3. *page range*: the chunks are the concatenation of one group per page; the chunks of a
   page's group report `PageStart = PageEnd =` that page's number and cover that page's elements;
4. *section path*: the chunks are those of the chunker whose section path is read off the whole
   heading history by `openSpec` (a heading is on the path iff every later heading is strictly
   deeper). -/
theorem element_chunker_property (c : Tabula.Split.SizeConfig) (d : Doc) (hd : DocNoWide d) :
    strip (textsOf (chunkDocumentC c d)) = strip ((d.flatMap (·.elems)).flatMap render) ∧
    ((chunkDocumentC c d).map (·.idx) = List.range (chunkDocumentC c d).length ∧
      ((chunkDocumentC c d).map (·.id)).Nodup ∧
      ∀ ch ∈ chunkDocumentC c d, ch.total = (chunkDocumentC c d).length) ∧
    (chunkDocumentC c d = setTotal (pageGroups stackTracker (splitterOf c) d).flatten ∧
      PagesOK d (pageGroups stackTracker (splitterOf c) d)) ∧
    chunkDocumentC c d = chunkDocumentWith histTracker (splitterOf c) d := by
  have hg : chunkDocument (guarded (splitterOf c)) d = chunkDocumentC c d :=
    chunkDocumentWith_guard stackTracker (splitterOf c) d hd
  have hpg : pageGroups stackTracker (guarded (splitterOf c)) d = pageGroups stackTracker (splitterOf c) d :=
    chunkPages_guard stackTracker (splitterOf c) _ _ d rfl hd
  refine ⟨element_cover c d hd, ?_, ?_, ?_⟩
  · have := Tabula.C12.indices_ids_total (guarded (splitterOf c)) (guarded_ok c) d
    rw [hg] at this
    exact this
  · have := Tabula.C12.page_range_true (guarded (splitterOf c)) (guarded_ok c) d
    rw [hg, hpg] at this
    exact this
  · exact Tabula.C12.section_path_enclosing (splitterOf c) d

/-- the public entry points without a size configuration use the default one -/
example (d : Doc) : chunkDocumentDefault d = chunkDocumentC defaultSizeConfig d := rfl

end Tabula.C12Compose
