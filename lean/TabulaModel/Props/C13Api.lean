import TabulaModel.Lemmas.SplitApi
import TabulaModel.Props.C13
import TabulaModel.Lemmas.SplitValid
import TabulaModel.Lemmas.Conserve
import TabulaModel.Lemmas.Aligned
/-!
# C13, deepening round, part 1 — the public entry points around the split mechanism

`SizeCalculator.Calculate/GetSize`, `FindSplitPoint(At)` with caller-supplied boundaries
(`findBestBoundaryNear`), the preset constructors of `rag/size_config.go`, and the size bound
through `ChunkDocumentWithConfig`.  Model: `Model/Split.lean`; helper lemmas:
`Lemmas/SplitApi.lean`.  Ops: `c13.splitb`, `c13.fsp`, `c13.size`, `c13.preset`.
-/
set_option linter.unusedVariables false
namespace Tabula.C13Api
open Tabula.Split

/-! ## size metrics -/

/-- `GetSize(text, unit)` is `Calculate(text).GetByUnit(unit)` for every unit -/
theorem getSize_calculate (c : SizeConfig) (s : Str) (u : SizeUnit) :
    (calculate c s).getByUnit u = getSize c s u := by
  cases u <;> rfl

/-- `IsAboveMax` is `ExceedsLimit` at the configured maximum -/
theorem isAboveMax_exceedsLimit (c : SizeConfig) (s : Str) :
    isAboveMax c s = exceedsLimit c s c.maxValue c.maxUnit := rfl

/-! ## what `SplitToSize` returns when there is nothing to split -/

/-- a non-empty text within the maximum is returned as the only piece, unchanged (not even
trimmed), whatever the boundaries -/
theorem split_within_max (c : SizeConfig) (text : Str) (bs : List Boundary)
    (hne : text ≠ []) (hfit : isAboveMax c text = false) : splitToSize c text bs = [text] := by
  rw [splitToSize]
  have : ¬ text.length = 0 := fun h => hne (List.length_eq_zero_iff.mp h)
  simp [this, hfit]

theorem split_empty (c : SizeConfig) (bs : List Boundary) : splitToSize c [] bs = [] := by
  rw [splitToSize]; simp

example : splitToSize defaultSizeConfig [32, 97, 32] [] = [[32, 97, 32]] := by decide +kernel

/-! ## caller-supplied boundaries -/

/-- **boundary_choice.** When `FindSplitPointAt` returns a supplied boundary it is one of the
given boundaries, lies within `target ± target/4` bytes of the byte position of the limit,
has a score above -1, and no supplied boundary in that window has a higher score. -/
theorem boundary_choice (bs : List Boundary) (target : Nat) (b : Boundary)
    (h : findBestBoundaryNear bs target (target / 4) = some b) :
    b ∈ bs ∧ (target - target / 4 ≤ b.pos ∧ b.pos ≤ target + target / 4) ∧ -1 < b.score ∧
      ∀ x ∈ bs, target - target / 4 ≤ x.pos → x.pos ≤ target + target / 4 → x.score ≤ b.score := by
  obtain ⟨h1, h2, h3, h4⟩ := findBestBoundaryNear_some h
  exact ⟨h1, h2, h3, fun x hx hlo hhi => h4 x hx ⟨hlo, hhi⟩⟩

/-- **split_point_cases.** `FindSplitPointAt` returns the text length (limit not inside the
text), or the position of the chosen boundary (semantic splitting on and a boundary in the
window), or what the sentence/word/character search `findSentenceEndNear` finds. -/
theorem split_point_cases (c : SizeConfig) (text : Str) (bs : List Boundary) (limit : Nat) (u : SizeUnit) :
    (text.length ≤ targetPosOf c limit u ∧ findSplitPointAt c text bs limit u = text.length)
    ∨ (∃ b, c.sem = true ∧ findBestBoundaryNear bs (targetPosOf c limit u) (targetPosOf c limit u / 4) = some b
          ∧ findSplitPointAt c text bs limit u = b.pos)
    ∨ findSplitPointAt c text bs limit u = findSentenceEndNear text (targetPosOf c limit u) := by
  unfold findSplitPointAt
  simp only
  by_cases h1 : targetPosOf c limit u ≥ text.length
  · left; exact ⟨h1, by rw [if_pos h1]⟩
  · right
    rw [if_neg h1]
    by_cases h2 : (c.sem && !bs.isEmpty) = true
    · rw [if_pos h2]
      cases hb : findBestBoundaryNear bs (targetPosOf c limit u) (targetPosOf c limit u / 4) with
      | none => right; rfl
      | some b =>
        left
        refine ⟨b, ?_, rfl, rfl⟩
        simp only [Bool.and_eq_true] at h2
        exact h2.1
    · rw [if_neg h2]; right; rfl

/-- without semantic splitting the boundaries are not consulted at all -/
theorem boundaries_ignored_without_sem (c : SizeConfig) (hs : c.sem = false) (text : Str)
    (bs : List Boundary) (limit : Nat) (u : SizeUnit) :
    findSplitPointAt c text bs limit u = findSplitPointAt c text [] limit u := by
  unfold findSplitPointAt
  simp [hs]

/-- **split_without_sem.** With `SplitAtSemanticBoundaries` off, `SplitToSize(text, boundaries)`
is `SplitToSize(text, nil)` for every list of boundaries: UTF-8 integrity and the size bound
then hold whatever the caller passes. -/
theorem split_without_sem (c : SizeConfig) (hs : c.sem = false) (text : Str) (bs : List Boundary) :
    splitToSize c text bs = splitToSize c text [] :=
  splitToSize_no_sem c hs text bs

/-- **the size bound needs `boundaries = nil` (or semantic splitting off).** The window for a
supplied boundary reaches 25 % beyond the byte position of the limit: "word " × 60 at 200
characters with a boundary at 250 gives a first piece of 249 bytes. -/
theorem split_bound_boundaries_counterexample :
    Spaced exampleText ∧ exampleConfig.maxValue = 200
      ∧ (splitToSize exampleConfig exampleText [⟨250, 70⟩]).map List.length = [249, 49] :=
  ⟨Spaced.of_spacedB (by decide +kernel), rfl, by decide +kernel⟩

/-- non-vacuity: two boundaries in the window, the higher score wins -/
example :
    (findBestBoundaryNear [⟨90, 20⟩, ⟨110, 70⟩, ⟨300, 100⟩] 100 25).map (·.pos) = some 110 := by decide

/-- **split_utf8 with boundaries needs boundaries ON character boundaries.** A supplied boundary
is used as it is: "aaaaaaaa␠␠日本語日本語" at 10 characters with a boundary at 11 (inside the
first "日") is cut inside that character.  For boundaries on character boundaries of the text
UTF-8 integrity and character conservation are theorems (`C13Boundaries.split_utf8_aligned`,
`split_conserves_characters_aligned`), and every list `DetectBoundaries` returns is one
(`C13Boundaries.detect_boundaries_aligned`).  Until fix cf372da this theorem had the witness
"boundaries at 8 and 16, both on character boundaries": `SplitToSize` trimmed the remaining
text but shifted the boundaries by the split position only, so they drifted by the white
space trimmed. -/
theorem split_utf8_boundaries_counterexample :
    let c : SizeConfig := { maxValue := 10, maxUnit := .characters, tpcNum := 1, tpcDen := 4, sem := true }
    let text : Str := [97,97,97,97,97,97,97,97, 32,32, 0xE6,0x97,0xA5, 0xE6,0x9C,0xAC, 0xE8,0xAA,0x9E,
      0xE6,0x97,0xA5, 0xE6,0x9C,0xAC, 0xE8,0xAA,0x9E]
    validUtf8 text = true ∧ validUtf8 (text.take 11) = false
      ∧ ¬ ∀ p ∈ splitToSize c text [⟨11, 70⟩], validUtf8 p = true := by
  decide +kernel

/-! ## the size bound through `ChunkDocumentWithConfig` and for the presets -/

/-- **doc_bound.** Size bound through `ChunkDocumentWithConfig` on a page of paragraphs: hard
maximum in characters or tokens, `M ≥ 200`, at most 4 tokens per byte, the accumulated block
text has a space at least every 50 bytes ⇒ every chunk text has size `≤ M`. -/
theorem doc_bound (c : SizeConfig) (paras : List Str)
    (hunit : c.maxUnit = .characters ∨ c.maxUnit = .tokens)
    (hM : 200 ≤ c.maxValue)
    (hratio : c.ratio.1 ≤ 4 * c.ratio.2)
    (hsp : Spaced (joinParagraphs paras)) :
    ∀ p ∈ docChunks c paras, getSize c p c.maxUnit ≤ c.maxValue := by
  unfold docChunks
  simp only
  split
  · simp
  · split
    · rename_i hfit
      intro p hp
      have hp : p = trimSpace (joinParagraphs paras) := by simpa using hp
      subst hp
      have h1 : getSize c (joinParagraphs paras) c.maxUnit ≤ c.maxValue := by
        simpa [isAboveMax] using hfit
      exact Nat.le_trans (getSize_mono hunit (trimSpace_length_le _)) h1
    · intro p hp
      obtain ⟨q, hq, e⟩ := List.mem_map.mp hp
      subst e
      exact Nat.le_trans (getSize_mono hunit (trimSpace_length_le _))
        (splitToSize_bound c _ hunit hM hratio hsp q hq)

/-- non-vacuity: "word " × 60 as one paragraph -/
example :
    Spaced (joinParagraphs [exampleText])
      ∧ (docChunks exampleConfig [exampleText]).map List.length = [199, 99] :=
  ⟨Spaced.of_spacedB (by decide +kernel), by decide +kernel⟩

/-- **split_bound_presets.** Every preset constructor of `size_config.go` without parameters
(`DefaultSizeConfig`, `MediumChunkConfig`, `SmallChunkConfig`, `LargeChunkConfig`,
`OpenAIEmbeddingConfig`, `CohereEmbeddingConfig`, `ClaudeContextConfig`) satisfies the
hypotheses of the size bound: on a text with a space every 50 bytes no piece exceeds the
preset's hard maximum. -/
theorem split_bound_presets (name : String) (c : SizeConfig) (hc : presetByName name = some c)
    (text : Str) (hsp : Spaced text) :
    ∀ p ∈ splitToSize c text [], getSize c p c.maxUnit ≤ c.maxValue := by
  have key : (c.maxUnit = .characters ∨ c.maxUnit = .tokens) ∧ 200 ≤ c.maxValue
      ∧ c.ratio.1 ≤ 4 * c.ratio.2 := by
    unfold presetByName at hc
    split at hc <;> first
      | (cases hc; exact ⟨by decide, by decide, by decide⟩)
      | cases hc
  exact splitToSize_bound c text key.1 key.2.1 key.2.2 hsp

/-- … and `TokenBasedSizeConfig(t, m)` for every `m ≥ 200` -/
theorem split_bound_token_based (maxTokens : Nat) (hM : 200 ≤ maxTokens) (text : Str) (hsp : Spaced text) :
    ∀ p ∈ splitToSize (tokenBasedSizeConfig maxTokens) text [],
      estimateTokens (tokenBasedSizeConfig maxTokens) p ≤ maxTokens :=
  splitToSize_bound (tokenBasedSizeConfig maxTokens) text (Or.inr rfl) hM
    (by simp [tokenBasedSizeConfig, SizeConfig.ratio]) hsp

example : presetByName "cohere" = some cohereEmbeddingConfig ∧ cohereEmbeddingConfig.maxValue = 512 :=
  ⟨rfl, rfl⟩

/-! ## the property statement, end to end, over the public API's model -/

/-- the paragraphs of a page joined by blank lines carry the paragraphs' content -/
theorem joinParagraphs_content (paras : List Str) (hv : ∀ p ∈ paras, validUtf8 p = true) :
    validUtf8 (joinParagraphs paras) = true
      ∧ stripWs (joinParagraphs paras) = paras.flatMap stripWs := by
  unfold joinParagraphs
  have key : ∀ (ps : List Str) (acc : Str), validUtf8 acc = true → (∀ p ∈ ps, validUtf8 p = true) →
      validUtf8 (ps.foldl (fun acc p => (if acc = [] then acc else acc ++ [10, 10]) ++ p) acc) = true
      ∧ stripWs (ps.foldl (fun acc p => (if acc = [] then acc else acc ++ [10, 10]) ++ p) acc)
          = stripWs acc ++ ps.flatMap stripWs := by
    intro ps
    induction ps with
    | nil => intro acc ha _; exact ⟨ha, by simp⟩
    | cons p ps ih =>
      intro acc ha hps
      have hp := hps p (List.mem_cons_self ..)
      have hsep : validUtf8 (if acc = [] then acc else acc ++ [10, 10]) = true := by
        split
        · exact ha
        · exact validUtf8_append _ _ ha (by decide +kernel)
      have hws : WsOnly [10, 10] :=
        WsOnly.cons (c := [10]) ⟨by simp, by decide⟩ (WsOnly.single ⟨by simp, by decide⟩)
      have hstrip : stripWs (if acc = [] then acc else acc ++ [10, 10]) = stripWs acc := by
        split
        · rfl
        · rw [stripWs_valid_append acc _ ha, stripWs_wsOnly hws, List.append_nil]
      obtain ⟨h1, h2⟩ := ih _ (validUtf8_append _ _ hsep hp) (fun q hq => hps q (List.mem_cons_of_mem _ hq))
      refine ⟨h1, ?_⟩
      rw [List.foldl_cons, h2, stripWs_valid_append _ p hsep, hstrip, List.flatMap_cons, List.append_assoc]
  have := key paras [] validUtf8_nil hv
  rw [stripWs_nil, List.nil_append] at this
  exact this

/-- **split_property.** The statement of C13 for `SplitToSize(text, nil)`, for every valid
UTF-8 text and every size configuration (all five units, any limit, any ratio): the call
terminates (the definition is total) with non-empty, valid UTF-8 pieces that together
contain exactly the non-whitespace characters of the text, in order; and when the hard
maximum is in characters or tokens (`M ≥ 200`, ≤ 4 tokens per byte) and the text has a space
at least every 50 bytes, no piece exceeds the maximum. -/
theorem split_property (c : SizeConfig) (text : Str) (hv : validUtf8 text = true) :
    (splitToSize c text []).flatMap stripWs = stripWs text
    ∧ (∀ p ∈ splitToSize c text [], validUtf8 p = true ∧ p ≠ [])
    ∧ ((c.maxUnit = .characters ∨ c.maxUnit = .tokens) → 200 ≤ c.maxValue →
        c.ratio.1 ≤ 4 * c.ratio.2 → Spaced text →
        ∀ p ∈ splitToSize c text [], getSize c p c.maxUnit ≤ c.maxValue) := by
  have hval := splitToSize_valid c text [] rfl hv
  refine ⟨(splitToSize_pieces c text []).stripWs_eq hval, ?_, ?_⟩
  · intro p hp
    exact ⟨hval p hp, Tabula.C13.split_pieces_nonempty c text [] p hp⟩
  · intro hunit hM hratio hsp
    exact splitToSize_bound c text hunit hM hratio hsp

/-- **split_conserves_characters.** Conservation at the level of characters for EVERY text, ill-formed
UTF-8 included (a byte that is not part of a well-formed character counts as a character, as
in the harness oracle `C13/conserves-nonspace`), every size configuration: the non-whitespace
characters of the pieces of `SplitToSize(text, nil)`, concatenated, are exactly those of the
text.  (No split point lies strictly inside a well-formed character, whatever the bytes:
`notCovered_findSplitPointAt`.) -/
theorem split_conserves_characters (c : SizeConfig) (text : Str) :
    (splitToSize c text []).flatMap stripWs = stripWs text :=
  splitToSize_content c text [] rfl

/-- … and through `ChunkDocumentWithConfig` (any bytes) -/
theorem doc_conserves_characters (c : SizeConfig) (paras : List Str) :
    (docChunks c paras).flatMap stripWs = stripWs (joinParagraphs paras) := by
  unfold docChunks
  simp only
  split
  · rename_i h; rw [h, stripWs_nil]; rfl
  · split
    · simp [stripWs_trimSpace_any]
    · have hm : ∀ ps : List Str, (ps.map trimSpace).flatMap stripWs = ps.flatMap stripWs := by
        intro ps
        induction ps with
        | nil => rfl
        | cons p rest ih => simp [List.flatMap_cons, stripWs_trimSpace_any, ih]
      rw [hm]
      exact split_conserves_characters c _

/-- non-vacuity: ill-formed text (a lone continuation byte, a truncated sequence) at 4 bytes -/
example :
    let c : SizeConfig := { maxValue := 4, maxUnit := .characters, tpcNum := 1, tpcDen := 4, sem := true }
    let text : Str := [0xE6,0x97, 0x20, 0xA5, 0xE6,0x97,0xA5, 0xC2, 0xA0, 0xE6,0x97,0xA5, 0x80]
    validUtf8 text = false ∧ (splitToSize c text []).length = 3
      ∧ (splitToSize c text []).flatMap stripWs = stripWs text := by decide +kernel

/-- for ANY bytes and ANY boundaries the structural form of conservation still holds
(`C13.split_conserves`); for valid pieces it gives the character-level form -/
theorem split_nonspace_of_valid_pieces (c : SizeConfig) (text : Str) (bs : List Boundary)
    (hval : ∀ p ∈ splitToSize c text bs, validUtf8 p = true) :
    (splitToSize c text bs).flatMap stripWs = stripWs text :=
  (splitToSize_pieces c text bs).stripWs_eq hval

/-- **doc_property.** The same through `ChunkDocumentWithConfig` on a page of valid UTF-8
paragraphs: the chunk texts are valid UTF-8 and contain exactly the non-whitespace characters
of the paragraphs, in order; under the hypotheses of the size bound none exceeds the maximum. -/
theorem doc_property (c : SizeConfig) (paras : List Str) (hv : ∀ p ∈ paras, validUtf8 p = true) :
    (docChunks c paras).flatMap stripWs = paras.flatMap stripWs
    ∧ (∀ p ∈ docChunks c paras, validUtf8 p = true)
    ∧ ((c.maxUnit = .characters ∨ c.maxUnit = .tokens) → 200 ≤ c.maxValue →
        c.ratio.1 ≤ 4 * c.ratio.2 → Spaced (joinParagraphs paras) →
        ∀ p ∈ docChunks c paras, getSize c p c.maxUnit ≤ c.maxValue) := by
  obtain ⟨hj, hs⟩ := joinParagraphs_content paras hv
  have hval := Tabula.C13.doc_utf8 c paras hj
  refine ⟨?_, hval, fun hunit hM hratio hsp => doc_bound c paras hunit hM hratio hsp⟩
  rw [← hs]
  exact (Tabula.C13.doc_conserves c paras).stripWs_eq hval

/-- **doc_pages_property.** `ChunkDocumentWithConfig` on any number of pages of valid UTF-8
paragraphs: conservation, UTF-8 integrity and (under its hypotheses, page by page) the size
bound hold for the whole document. -/
theorem doc_pages_property (c : SizeConfig) (pages : List (List Str))
    (hv : ∀ ps ∈ pages, ∀ p ∈ ps, validUtf8 p = true) :
    (docChunksPages c pages).flatMap stripWs = pages.flatten.flatMap stripWs
    ∧ (∀ p ∈ docChunksPages c pages, validUtf8 p = true)
    ∧ ((c.maxUnit = .characters ∨ c.maxUnit = .tokens) → 200 ≤ c.maxValue →
        c.ratio.1 ≤ 4 * c.ratio.2 → (∀ ps ∈ pages, Spaced (joinParagraphs ps)) →
        ∀ p ∈ docChunksPages c pages, getSize c p c.maxUnit ≤ c.maxValue) := by
  unfold docChunksPages
  induction pages with
  | nil => simp
  | cons ps rest ih =>
    obtain ⟨a1, a2, a3⟩ := doc_property c ps (hv ps (List.mem_cons_self ..))
    obtain ⟨b1, b2, b3⟩ := ih (fun qs hq => hv qs (List.mem_cons_of_mem _ hq))
    refine ⟨?_, ?_, ?_⟩
    · simp only [List.flatMap_cons, List.flatMap_append, List.flatten_cons]
      rw [a1, b1]
    · intro p hp
      simp only [List.flatMap_cons, List.mem_append] at hp
      rcases hp with hp | hp
      · exact a2 p hp
      · exact b2 p hp
    · intro hunit hM hratio hsp p hp
      simp only [List.flatMap_cons, List.mem_append] at hp
      rcases hp with hp | hp
      · exact a3 hunit hM hratio (hsp ps (List.mem_cons_self ..)) p hp
      · exact b3 hunit hM hratio (fun qs hq => hsp qs (List.mem_cons_of_mem _ hq)) p hp

/-- non-vacuity: a Japanese sentence with an ideographic space, split at 10 bytes -/
example :
    let c : SizeConfig := { maxValue := 10, maxUnit := .characters, tpcNum := 1, tpcDen := 4, sem := true }
    let text : Str := [0xE6,0x97,0xA5, 0xE6,0x9C,0xAC, 0xE8,0xAA,0x9E, 0xE3,0x80,0x80, 0xE3,0x81,0xAE, 0xE6,0x96,0x87,
      0xE7,0xAB,0xA0, 0xE3,0x81,0xAF, 0xE7,0xA9,0xBA]
    validUtf8 text = true ∧ (splitToSize c text []).length = 3
      ∧ stripWs text = text.take 9 ++ text.drop 12 := by decide +kernel

end Tabula.C13Api
