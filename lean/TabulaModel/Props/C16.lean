import TabulaModel.Lemmas.Docx
import TabulaModel.Lemmas.Odt
/-!
# C16 — Word-processor documents keep their order and structure

Property theorems about the models `Model/Docx.lean` and `Model/Odt.lean` (the readers
as they are after the C16 fixes). Helper lemmas live in `Lemmas/Docx.lean`, `Lemmas/Odt.lean`.
-/
namespace Tabula.C16
open Tabula.Xml Tabula.Docx

theorem find_body (pre post : List Node) (b : Node) (hb : b.named sBody = true)
    (hpre : noBodyList pre = true) : childNamed (pre ++ [b] ++ post) sBody = some b := by
  induction pre with
  | nil => simp [childNamed, hb]
  | cons n rest ih =>
    simp only [noBodyList, Bool.and_eq_true] at hpre
    have hn : n.named sBody = false := by
      cases n with
      | text s => simp
      | elem tag a ks =>
        have := hpre.1
        simp only [noBodyNode, Bool.and_eq_true, bne_iff_ne, ne_eq] at this
        simp only [named_elem]
        cases h : localName tag == sBody
        · rfl
        · exact absurd (by simpa using h) this.1
    have := ih hpre.2
    simp only [childNamed, List.cons_append, List.find?_cons, hn] at this ⊢
    exact this

/-- the `p` / `tbl` elements at the block level of a list of children: the body content the
readers present, block containers (`w:sdt` / `w:sdtContent`, `w:customXml`) looked through -/
def bodyBlocks (kids : List Node) : List Node := (blocksOfList kids).filter isBodyElem

/-- the walk over the `body` element itself, entered from outside -/
theorem walk_body_node (bodyTag : Str) (ba : List (Str × Str)) (kids : List Node) (hbody : localName bodyTag = sBody) :
    walkNode (childrenNamed (blocksOfList kids) sP) (childrenNamed (blocksOfList kids) sTbl) (.elem bodyTag ba kids)
        { inBody := false, depth := 0, boxes := 0, pi := 0, ti := 0, acc := [] } =
      { inBody := false, depth := 0, boxes := 0, pi := (childrenNamed (blocksOfList kids) sP).length,
        ti := (childrenNamed (blocksOfList kids) sTbl).length, acc := bodyBlocks kids } := by
  simp only [walkNode]
  have hs2 : startTok (childrenNamed (blocksOfList kids) sP) (childrenNamed (blocksOfList kids) sTbl) (localName bodyTag)
      { inBody := false, depth := 0, boxes := 0, pi := 0, ti := 0, acc := [] } =
      { inBody := true, depth := 0, boxes := 0, pi := 0, ti := 0, acc := [] } := by
    unfold startTok; simp [hbody]
  rw [hs2, walk_block_list _ _ kids _ [] [] rfl rfl (by simp) (by simp), endTok_body_end _ rfl rfl]
  simp [bodyBlocks]

/-- **body_interleave** (DOCX). For every document tree whose root holds one `body`
element (no other element named `body` before or after it), the element list produced
by the second pass is exactly the sequence of the `p` / `tbl` elements at the block level of
the body in source order: its direct `p` / `tbl` children AND those that sit in block-level
containers - a content control `w:sdt` / `w:sdtContent`, a `w:customXml`, nested in one
another to any depth -, each at the place of its container. For every sequence of paragraphs,
tables and containers, whatever the blocks themselves contain (cells with several paragraphs,
nested tables, text boxes). (Was `_partial` in effect: stated over the direct children only,
with `docx_block_container_content_lost_counterexample` for the rest; the old statement is
`body_interleave_old`, about the old pass.) -/
theorem body_interleave (docTag bodyTag : Str) (da ba : List (Str × Str)) (pre kids post : List Node)
    (hdoc : localName docTag ≠ sBody) (hbody : localName bodyTag = sBody)
    (hpre : noBodyList pre = true) (hpost : noBodyList post = true) :
    parseBodyElementsInOrder (.elem docTag da (pre ++ [.elem bodyTag ba kids] ++ post))
      = bodyBlocks kids := by
  have hnamed : (Node.elem bodyTag ba kids).named sBody = true := by simp [hbody]
  unfold parseBodyElementsInOrder bodyOf
  simp only [Node.kids]
  rw [find_body pre post _ hnamed hpre]
  simp only [Node.kids, bodyParas, bodyTables]
  have hd : (localName docTag == sBody) = false := by
    cases h : localName docTag == sBody
    · rfl
    · exact absurd (by simpa using h) hdoc
  simp only [walkNode]
  have hs : startTok (childrenNamed (blocksOfList kids) sP) (childrenNamed (blocksOfList kids) sTbl) (localName docTag)
      { inBody := false, depth := 0, boxes := 0, pi := 0, ti := 0, acc := [] } =
      { inBody := false, depth := 0, boxes := 0, pi := 0, ti := 0, acc := [] } := by
    unfold startTok; simp [hd]
  rw [hs, walkList_append, walkList_append, walk_outside_list _ _ pre _ rfl hpre]
  simp only [walkList]
  rw [walk_body_node bodyTag ba kids hbody, walk_outside_list _ _ post _ rfl hpost]
  unfold endTok
  simp

/-- the reader's element list is the processed blocks of the body, in source order -/
theorem elements_interleave (docTag bodyTag : Str) (da ba : List (Str × Str)) (pre kids post : List Node)
    (styles : Option Node)
    (hdoc : localName docTag ≠ sBody) (hbody : localName bodyTag = sBody)
    (hpre : noBodyList pre = true) (hpost : noBodyList post = true) :
    elements (.elem docTag da (pre ++ [.elem bodyTag ba kids] ++ post)) styles
      = (bodyBlocks kids).map (processElement (stylesOf styles)) := by
  unfold elements
  rw [body_interleave docTag bodyTag da ba pre kids post hdoc hbody hpre hpost]

/-- the body blocks of a list of children, piece by piece -/
theorem bodyBlocks_append (a b : List Node) : bodyBlocks (a ++ b) = bodyBlocks a ++ bodyBlocks b := by
  simp [bodyBlocks, blocksOfList_append, List.filter_append]

/-- **body_container_transparent** (DOCX). Blocks wrapped in a block-level container - `w:sdt`,
`w:sdtContent`, `w:customXml`, whatever its attributes - stand where the container stands:
the element list of `pre, container[inner], post` is that of `pre`, then that of `inner`, then
that of `post`. (By induction this covers containers nested in one another to any depth, as
`inner` may hold containers again.) -/
theorem body_container_transparent (ctag : Str) (ca : List (Str × Str)) (pre inner post : List Node)
    (hc : blockContainers.contains (localName ctag) = true) :
    bodyBlocks (pre ++ [.elem ctag ca inner] ++ post) = bodyBlocks pre ++ bodyBlocks inner ++ bodyBlocks post := by
  rw [bodyBlocks_append, bodyBlocks_append]
  have hm : localName ctag ∈ blockContainers := by simpa using hc
  have : bodyBlocks [.elem ctag ca inner] = bodyBlocks inner := by
    simp [bodyBlocks, blocksOfList, blocksOfNode, hm]
  rw [this]

example : blockContainers.contains (localName [119, 58, 115, 100, 116]) = true
    ∧ blockContainers.contains (localName [119, 58, 115, 100, 116, 67, 111, 110, 116, 101, 110, 116]) = true
    ∧ blockContainers.contains (localName [119, 58, 99, 117, 115, 116, 111, 109, 88, 109, 108]) = true := by decide

/-- a direct `p` / `tbl` child stands for itself -/
theorem bodyBlocks_block (n : Node) (h : isBodyElem n = true) : bodyBlocks [n] = [n] := by
  cases n with
  | text s => simp [isBodyElem] at h
  | elem tag attrs kids =>
    have hc : blockContainers.contains (localName tag) = false := by
      simp only [isBodyElem, named_elem, Bool.or_eq_true, beq_iff_eq] at h
      rcases h with h | h <;> rw [h] <;> decide
    have hm : ¬ (localName tag ∈ blockContainers) := by simpa using hc
    simp [bodyBlocks, blocksOfList, blocksOfNode, hm, h]

/-- what is neither a block nor a block container (`w:sectPr`, a bookmark, the properties of a
content control, character data) contributes nothing -/
theorem bodyBlocks_other (n : Node) (h : isBodyElem n = false) (hc : blockContainers.contains n.loc = false) :
    bodyBlocks [n] = [] := by
  cases n with
  | text s => simp [bodyBlocks, blocksOfList, blocksOfNode]
  | elem tag attrs kids =>
    simp only [Node.loc, Node.tag] at hc
    have hm : ¬ (localName tag ∈ blockContainers) := by simpa using hc
    simp [bodyBlocks, blocksOfList, blocksOfNode, hm, h]

/-- **body_no_container**. Without a block container among the children of the body the
element list is the direct `p` / `tbl` children in source order (what the pass presented
before the repair, `body_interleave_old`: the repair changes nothing for such documents). -/
theorem body_no_container (kids : List Node) (h : ∀ n ∈ kids, blockContainers.contains n.loc = false) :
    bodyBlocks kids = kids.filter isBodyElem :=
  blocks_plain_bodyElems kids h

/-! #### HISTORY: the second pass before block containers were looked through -/

/-- the old walk over the `body` element itself, entered from outside -/
theorem walk_body_node_old (bodyTag : Str) (ba : List (Str × Str)) (kids : List Node) (hbody : localName bodyTag = sBody) :
    walkNodeOld (childrenNamed kids sP) (childrenNamed kids sTbl) (.elem bodyTag ba kids)
        { inBody := false, depth := 0, pi := 0, ti := 0, acc := [] } =
      { inBody := false, depth := 0, pi := (childrenNamed kids sP).length,
        ti := (childrenNamed kids sTbl).length, acc := kids.filter isBodyElem } := by
  simp only [walkNodeOld]
  have hs2 : startTokOld (childrenNamed kids sP) (childrenNamed kids sTbl) (localName bodyTag)
      { inBody := false, depth := 0, pi := 0, ti := 0, acc := [] } =
      { inBody := true, depth := 0, pi := 0, ti := 0, acc := [] } := by
    unfold startTokOld; simp [hbody]
  rw [hs2, walk_body_kids_old _ _ kids _ rfl rfl (by simp) (by simp), endTokOld_body_end _ rfl rfl]
  simp

/-- **body_interleave_old**. The former `body_interleave`, about the pass as it was: the
element list was exactly the DIRECT `p` / `tbl` children of the body in source order - a block
inside a block-level container was in no element (`docx_block_container_lost_old`). -/
theorem body_interleave_old (docTag bodyTag : Str) (da ba : List (Str × Str)) (pre kids post : List Node)
    (hdoc : localName docTag ≠ sBody) (hbody : localName bodyTag = sBody)
    (hpre : noBodyList pre = true) (hpost : noBodyList post = true) :
    parseBodyElementsInOrderOld (.elem docTag da (pre ++ [.elem bodyTag ba kids] ++ post))
      = kids.filter isBodyElem := by
  have hnamed : (Node.elem bodyTag ba kids).named sBody = true := by simp [hbody]
  unfold parseBodyElementsInOrderOld bodyOf
  simp only [Node.kids]
  rw [find_body pre post _ hnamed hpre]
  simp only [Node.kids]
  have hd : (localName docTag == sBody) = false := by
    cases h : localName docTag == sBody
    · rfl
    · exact absurd (by simpa using h) hdoc
  simp only [walkNodeOld]
  have hs : startTokOld (childrenNamed kids sP) (childrenNamed kids sTbl) (localName docTag)
      { inBody := false, depth := 0, pi := 0, ti := 0, acc := [] } =
      { inBody := false, depth := 0, pi := 0, ti := 0, acc := [] } := by
    unfold startTokOld; simp [hd]
  rw [hs, walkListOld_append, walkListOld_append, walk_outside_list_old _ _ pre _ rfl hpre]
  simp only [walkListOld]
  rw [walk_body_node_old bodyTag ba kids hbody, walk_outside_list_old _ _ post _ rfl hpost]
  unfold endTokOld
  simp

/-- **docx_block_container_repair_scope**. What the old pass presented is a sub-sequence of
what the repaired pass presents: every direct `p` / `tbl` child of the body is still there, in
the same order; what is new are the blocks inside block containers, each between the
direct children its container stood between. -/
theorem docx_block_container_repair_scope (kids : List Node) :
    (kids.filter isBodyElem).Sublist (bodyBlocks kids) := by
  induction kids with
  | nil => simp [bodyBlocks, blocksOfList]
  | cons n rest ih =>
    have happ : bodyBlocks (n :: rest) = bodyBlocks [n] ++ bodyBlocks rest := by
      rw [← bodyBlocks_append]; rfl
    rw [happ, List.filter_cons]
    by_cases hb : isBodyElem n = true
    · rw [if_pos hb, bodyBlocks_block n hb]
      exact List.Sublist.cons₂ n ih
    · rw [if_neg hb]
      exact List.Sublist.trans ih (List.sublist_append_right _ _)

/-- **docx_block_container_lost_old** (the defect, for every document). Under the old pass the
blocks of a block container that is a child of the body were in no element: the element list of
`pre, container[inner], post` was that of `pre` followed by that of `post`, whatever `inner`
held - while the repaired pass presents `inner`'s blocks in between (`body_container_transparent`). -/
theorem docx_block_container_lost_old (ctag : Str) (ca : List (Str × Str)) (pre inner post : List Node)
    (hc : blockContainers.contains (localName ctag) = true) :
    (pre ++ [Node.elem ctag ca inner] ++ post).filter isBodyElem = pre.filter isBodyElem ++ post.filter isBodyElem := by
  have hn : isBodyElem (.elem ctag ca inner) = false := by
    cases h : isBodyElem (.elem ctag ca inner)
    · rfl
    · simp only [isBodyElem, named_elem, Bool.or_eq_true, beq_iff_eq] at h
      rcases h with h | h <;> rw [h] at hc <;> revert hc <;> decide
  simp [List.filter_append, List.filter_cons, hn]

/-! Non-vacuity: the tree of the defect the property quotes - a table whose only cell
holds two paragraphs, then a second table, then a paragraph, then `w:sectPr`. The pinned
code paired the second table with nothing and emitted it after the paragraph. -/
def wT (s : Str) : Node := .elem [119, 58, 116] [] [.text s]
def wR (kids : List Node) : Node := .elem [119, 58, 114] [] kids
def wP (kids : List Node) : Node := .elem [119, 58, 112] [] kids
def wTbl (cells : List (List Node)) : Node :=
  .elem [119, 58, 116, 98, 108] [] [.elem [119, 58, 116, 114] [] (cells.map fun ps => .elem [119, 58, 116, 99] [] ps)]
def witnessDoc : Node :=
  .elem [119, 58, 100, 111, 99, 117, 109, 101, 110, 116] []
    [.elem [119, 58, 98, 111, 100, 121] []
      [wTbl [[wP [wR [wT [65]]], wP [wR [wT [66]]]]], wTbl [[wP [wR [wT [67]]]]], wP [wR [wT [68]]],
       .elem [119, 58, 115, 101, 99, 116, 80, 114] [] []]]

example : elements witnessDoc none =
    [.table [[{ text := [65, 10, 66], colSpan := 1, rowSpan := 1, cont := false }]],
     .table [[{ text := [67], colSpan := 1, rowSpan := 1, cont := false }]],
     .para { text := [68], heading := none, list := none }] := by decide +kernel

example : localName [119, 58, 100, 111, 99, 117, 109, 101, 110, 116] ≠ sBody ∧ localName [119, 58, 98, 111, 100, 121] = sBody
    ∧ noBodyList [wP [wR [wT [65]]]] = true := by decide

/-! Block-level containers of the body. A paragraph that sits in a block-level content
control (`w:sdt` / `w:sdtContent`: a cover page, a table of contents, a rich-text control
around whole paragraphs) or in `w:customXml` is body content of the document, at the place of
the container. REPAIRED (was known finding `C16/docx-block-container-content-lost`,
harness/c16 structure.go, fixed witnesses 18 and 19): `bodyXML.UnmarshalXML` and the second
pass look through these containers, `tableCellXML.UnmarshalXML` does the same inside a cell. -/
def wSdt (kids : List Node) : Node :=
  .elem [119, 58, 115, 100, 116] []
    [.elem [119, 58, 115, 100, 116, 80, 114] [] [],
     .elem [119, 58, 115, 100, 116, 67, 111, 110, 116, 101, 110, 116] [] kids]
def wCustomXml (kids : List Node) : Node :=
  .elem [119, 58, 99, 117, 115, 116, 111, 109, 88, 109, 108] [] kids
def boxedDoc : Node :=
  .elem [119, 58, 100, 111, 99, 117, 109, 101, 110, 116] []
    [.elem [119, 58, 98, 111, 100, 121] []
      [wP [wR [wT [65]]], wSdt [wP [wR [wT [66]]]], wTbl [[wP [wR [wT [67]]]]], wP [wR [wT [68]]], wP [wR [wT [69]]],
       .elem [119, 58, 115, 101, 99, 116, 80, 114] [] []]]

/-- **docx_block_container_content_lost_pinned_counterexample** (was
`docx_block_container_content_lost_counterexample`, about the reader as it was). The body `A`,
content control holding the paragraph `B`, table `C`, `D`, `E`: the OLD reader's element list
is `A`, table `C`, `D`, `E` - in source order, and `B` is in no element; the repaired reader's
is `A`, `B`, table `C`, `D`, `E`. -/
theorem docx_block_container_content_lost_pinned_counterexample :
    elementsOld boxedDoc none =
      [.para { text := [65], heading := none, list := none },
       .table [[{ text := [67], colSpan := 1, rowSpan := 1, cont := false }]],
       .para { text := [68], heading := none, list := none },
       .para { text := [69], heading := none, list := none }]
    ∧ elements boxedDoc none =
      [.para { text := [65], heading := none, list := none },
       .para { text := [66], heading := none, list := none },
       .table [[{ text := [67], colSpan := 1, rowSpan := 1, cont := false }]],
       .para { text := [68], heading := none, list := none },
       .para { text := [69], heading := none, list := none }] := by
  constructor <;> decide +kernel

/-- containers nested in one another around a heading-less paragraph and a table, a table
behind the container: `A`, customXml[ sdt[ `B`, table `C` ] ], table `D`, `E` -/
def nestedBoxDoc : Node :=
  .elem [119, 58, 100, 111, 99, 117, 109, 101, 110, 116] []
    [.elem [119, 58, 98, 111, 100, 121] []
      [wP [wR [wT [65]]], wCustomXml [wSdt [wP [wR [wT [66]]], wTbl [[wP [wR [wT [67]]]]]]],
       wTbl [[wP [wR [wT [68]]]]], wP [wR [wT [69]]]]]

example : elements nestedBoxDoc none =
    [.para { text := [65], heading := none, list := none },
     .para { text := [66], heading := none, list := none },
     .table [[{ text := [67], colSpan := 1, rowSpan := 1, cont := false }]],
     .table [[{ text := [68], colSpan := 1, rowSpan := 1, cont := false }]],
     .para { text := [69], heading := none, list := none }] := by decide +kernel

example : elementsOld nestedBoxDoc none =
    [.para { text := [65], heading := none, list := none },
     .table [[{ text := [68], colSpan := 1, rowSpan := 1, cont := false }]],
     .para { text := [69], heading := none, list := none }] := by decide +kernel

/-! ### inline content -/

/-- **run_inline_order** (DOCX). The text of a run is assembled child by child in source
order: splitting the children anywhere splits the text at the same place. (Full statement;
on the pinned tree only runs whose children were of one kind satisfied it.) -/
theorem run_inline_order (tag : Str) (attrs : List (Str × Str)) (k1 k2 : List Node) :
    extractRunText (.elem tag attrs (k1 ++ k2)) =
      extractRunText (.elem tag attrs k1) ++ extractRunText (.elem tag attrs k2) := by
  simp [extractRunText, runContent, Node.kids, List.filter_append, List.flatMap_append]

/-- the quoted defect, now in order: `<w:tab/>` before `<w:t>` comes out before it -/
theorem run_tab_before_text (s : Str) (a1 a2 a3 : List (Str × Str)) :
    extractRunText (.elem [119, 58, 114] a1 [.elem [119, 58, 116, 97, 98] a2 [], .elem [119, 58, 116] a3 [.text s]])
      = 9 :: s := by
  simp [extractRunText, runContent, Node.kids, Node.isElem, Node.loc, Node.tag, localName, runChildText,
    sRPr, sDrawing, sT, sSym, sAlt, sTab, sBr, chardata, List.flatMap_cons]

/-- runs of a paragraph in source order, inline containers being transparent -/
theorem para_inline_order (tag : Str) (attrs : List (Str × Str)) (k1 k2 : List Node) :
    paraText (.elem tag attrs (k1 ++ k2)) = paraText (.elem tag attrs k1) ++ paraText (.elem tag attrs k2) := by
  simp [paraText, Node.kids, runsOfList_append, List.flatMap_append]

/-- text wrapped in `w:hyperlink`, `w:ins`, `w:sdt`/`w:sdtContent` … stands where the wrapper stands -/
theorem para_container_transparent (ptag ctag : Str) (pa ca : List (Str × Str)) (pre inner post : List Node)
    (hc : containers.contains (localName ctag) = true) :
    paraText (.elem ptag pa (pre ++ [.elem ctag ca inner] ++ post)) =
      paraText (.elem ptag pa pre) ++ paraText (.elem ptag pa inner) ++ paraText (.elem ptag pa post) := by
  have hne : (localName ctag == sR) = false := by
    cases h : localName ctag == sR
    · rfl
    · have : localName ctag = sR := by simpa using h
      rw [this] at hc; revert hc; decide
  have hc' : localName ctag ∈ containers := by simpa using hc
  simp [paraText, Node.kids, runsOfList_append, List.flatMap_append, runsOfList, runsOfNode, hne, hc']

example : containers.contains (localName [119, 58, 104, 121, 112, 101, 114, 108, 105, 110, 107]) = true := by decide

/-- **ODT**: mixed content of `text:p` / `text:h` in source order -/
theorem odt_inline_order (tag : Str) (attrs : List (Str × Str)) (k1 k2 : List Node) :
    Odt.paraText (.elem tag attrs (k1 ++ k2)) = Odt.paraText (.elem tag attrs k1) ++ Odt.paraText (.elem tag attrs k2) := by
  simp [Odt.paraText, Node.kids, Odt.inlineList_append]

/-- the quoted defect: text, span, text comes out as written (was: a ++ c ++ b) -/
theorem odt_text_around_span (a b c : Str) (pa sa : List (Str × Str)) :
    Odt.paraText (.elem [116, 101, 120, 116, 58, 112] pa
      [.text a, .elem [116, 101, 120, 116, 58, 115, 112, 97, 110] sa [.text b], .text c]) = a ++ b ++ c := by
  simp [Odt.paraText, Node.kids, Odt.inlineList, Odt.inlineNode, localName, Odt.sSpan]

/-! ### styles -/

/-- the basedOn walk visits no style twice (the cycle guard) … -/
theorem style_chain_nodup (defs : List StyleDef) (id : Str) : (chain defs id).Nodup :=
  chainFrom_nodup defs [] id

/-- … takes at most one step per defined style plus one for a dangling reference, so it
terminates on cyclic basedOn (the definition of `chainFrom` carries the termination proof;
this is the explicit bound: the loop of `buildInheritanceChain` turns at most once per defined
style, and since the chain is now built by appending and reversed once, the work is linear in
that number; the Go slice is the reverse of `chain`, as before - the rewrite changes no output) … -/
theorem style_chain_bounded (defs : List StyleDef) (id : Str) : (chain defs id).length ≤ defs.length + 1 := by
  have := chainFrom_length defs [] id
  rw [unvisited_nil] at this
  exact this

/-- … starts at the style itself and follows basedOn -/
theorem style_chain_linked (defs : List StyleDef) (id : Str) : Linked defs (chain defs id) :=
  chainFrom_linked defs [] id

/-- **style_level**. For a defined style, the heading level is the first level found along
the basedOn chain (the style itself first, then its ancestors). -/
theorem style_level (st : Styles) (id : Str) (d : StyleDef) (l : Nat) (pre post : List Str) (x : Str)
    (hid : id ≠ []) (hdef : lookup st.defs id = some d)
    (hch : chain st.defs id = pre ++ x :: post)
    (hpre : ∀ y ∈ pre, levelOfId st.defs y = none) (hx : levelOfId st.defs x = some l) :
    resolveHeading st id = some l := by
  unfold resolveHeading
  simp only [hid, if_false, hdef]
  have : (chain st.defs id).findSome? (levelOfId st.defs) = some l := by
    rw [hch, List.findSome?_append]
    have h1 : pre.findSome? (levelOfId st.defs) = none := by
      rw [List.findSome?_eq_none_iff]; exact hpre
    rw [h1]
    simp [List.findSome?_cons, hx]
  rw [this]

/-- without any level on the chain only the bold-and-large heuristic can make a heading -/
theorem style_level_none (st : Styles) (id : Str) (d : StyleDef)
    (hid : id ≠ []) (hdef : lookup st.defs id = some d)
    (hnone : ∀ y ∈ chain st.defs id, levelOfId st.defs y = none)
    (hplain : resolvedBold st.defs (chain st.defs id) = false) :
    resolveHeading st id = none := by
  unfold resolveHeading
  simp only [hid, if_false, hdef]
  have : (chain st.defs id).findSome? (levelOfId st.defs) = none := by
    rw [List.findSome?_eq_none_iff]; exact hnone
  rw [this]
  simp [hplain]

/-- non-vacuity: `A` based on `B`, `B` based on `A` (cyclic), `B` carries outline level 2:
the chain of `A` is `[A, B]` and the level is 3 -/
def cycA : StyleDef := { id := [65], name := [65], basedOn := [66], outline := [], boldSet := false, boldVal := [], sz := [] }
def cycB : StyleDef := { id := [66], name := [66], basedOn := [65], outline := [50], boldSet := false, boldVal := [], sz := [] }

example : chain [cycA, cycB] [65] = [[65], [66]] := by
  unfold chain
  rw [chainFrom_defined [cycA, cycB] [] [65] cycA (by decide) (by decide) (by decide)]
  rw [chainFrom_defined [cycA, cycB] [[65]] cycA.basedOn cycB (by decide) (by decide) (by decide)]
  rw [chainFrom_seen _ _ _ (by decide)]
  rfl

example : levelOfId [cycA, cycB] [65] = none ∧ levelOfId [cycA, cycB] [66] = some 3 := by decide

/-! ### tables -/

/-- the vertical-merge pass touches row spans only: text, grid span and continuation flag of
every cell of the parsed table are those `limitTableGrid` left (for every table) -/
theorem table_grid_any (tbl : Node) : stripRows (parseTable tbl) = stripRows (limitTableGrid (parseRows tbl)) := by
  unfold parseTable
  rw [stripRows_processVerticalMerges]

/-- **table_grid** (DOCX). Row r, cell i of the parsed table carries what the i-th `w:tc`
of the r-th `w:tr` says: its paragraphs' texts joined in order, its gridSpan, its
continuation flag; the vertical-merge pass touches row spans only.
RESTATED (was: for every `w:tbl`): `ParseTable` now calls `limitTableGrid`, which sets every
span to 1 when the table has spans and rows x spanned columns exceed `maxTableGridCells` =
2^20. The statement holds as before for every table within that limit (hypothesis `h`, a
decidable property of the authored table); beyond it see `table_grid_beyond`, and
`table_content_kept` for what holds of every table. -/
theorem table_grid (tbl : Node) (h : (parseRows tbl).length * colCount (parseRows tbl) ≤ maxTableGridCells) :
    stripRows (parseTable tbl) =
      (childrenNamed tbl.kids sTr).map fun tr => (childrenNamed tr.kids sTc).map fun tc => strip (parseCell tc) := by
  rw [table_grid_any, limit_within _ h]
  simp [stripRows, parseRows, List.map_map, Function.comp_def]

/-- the same for a table without any span, whatever its size -/
theorem table_grid_nospans (tbl : Node) (h : hasSpans (parseRows tbl) = false) :
    stripRows (parseTable tbl) =
      (childrenNamed tbl.kids sTr).map fun tr => (childrenNamed tr.kids sTc).map fun tc => strip (parseCell tc) := by
  rw [table_grid_any, limit_nospans _ h]
  simp [stripRows, parseRows, List.map_map, Function.comp_def]

/-- **table_grid_beyond** (DOCX). A table that has spans and whose rows x spanned columns
exceed 2^20 is read with every cell one grid column wide: texts and continuation flags as
authored, in source order, every `gridSpan` ignored. -/
theorem table_grid_beyond (tbl : Node) (hs : hasSpans (parseRows tbl) = true)
    (h : (parseRows tbl).length * colCount (parseRows tbl) > maxTableGridCells) :
    stripRows (parseTable tbl) =
      (childrenNamed tbl.kids sTr).map fun tr => (childrenNamed tr.kids sTc).map fun tc =>
        ((parseCell tc).text, 1, (parseCell tc).cont) := by
  rw [table_grid_any, limit_beyond _ hs h]
  simp [stripRows, resetSpans, parseRows, strip, List.map_map, Function.comp_def]

/-- **table_content_kept** (DOCX). For EVERY table, within the limit or not: row r, cell i of
the parsed table holds the text (paragraphs joined in order) and the continuation flag of the
i-th `w:tc` of the r-th `w:tr` - the grid limit never drops or reorders a cell. -/
theorem table_content_kept (tbl : Node) :
    (parseTable tbl).map (·.map fun c => (c.text, c.cont)) =
      (childrenNamed tbl.kids sTr).map fun tr => (childrenNamed tr.kids sTc).map fun tc =>
        ((parseCell tc).text, (parseCell tc).cont) := by
  have h1 : (parseTable tbl).map (·.map fun c => (c.text, c.cont)) =
      (stripRows (parseTable tbl)).map (·.map fun t => (t.1, t.2.2)) := by
    simp [stripRows, strip, List.map_map, Function.comp_def]
  rw [h1, table_grid_any]
  have h2 : (stripRows (limitTableGrid (parseRows tbl))).map (·.map fun t => (t.1, t.2.2)) =
      (limitTableGrid (parseRows tbl)).map (·.map fun c => (c.text, c.cont)) := by
    simp [stripRows, strip, List.map_map, Function.comp_def]
  rw [h2, limit_content]
  simp [parseRows, List.map_map, Function.comp_def]

/-- multi-paragraph cells: the non-empty texts of the cell's paragraphs (`cellParas`: the `w:p`
elements at the block level of the cell), in order, joined by a newline -/
theorem cell_text_joined (tc : Node) :
    (parseCell tc).text = joinWith [10] (((cellParas tc).map cellParaText).filter (· ≠ [])) := rfl

/-- the paragraphs of a cell, piece by piece -/
theorem cellParas_append (tag : Str) (attrs : List (Str × Str)) (a b : List Node) :
    cellParas (.elem tag attrs (a ++ b)) = cellParas (.elem tag attrs a) ++ cellParas (.elem tag attrs b) := by
  simp [cellParas, Node.kids, blocksOfList_append, childrenNamed_append]

/-- **cell_container_transparent** (DOCX). Paragraphs of a cell wrapped in a block-level
container (`w:sdt` / `w:sdtContent`, `w:customXml`) are paragraphs of the cell at the place of
the container, so their text is in the cell text between what stands before and behind it. -/
theorem cell_container_transparent (tcTag ctag : Str) (ta ca : List (Str × Str)) (pre inner post : List Node)
    (hc : blockContainers.contains (localName ctag) = true) :
    cellParas (.elem tcTag ta (pre ++ [.elem ctag ca inner] ++ post)) =
      cellParas (.elem tcTag ta pre) ++ cellParas (.elem tcTag ta inner) ++ cellParas (.elem tcTag ta post) := by
  rw [cellParas_append, cellParas_append]
  have hm : localName ctag ∈ blockContainers := by simpa using hc
  have : cellParas (.elem tcTag ta [.elem ctag ca inner]) = cellParas (.elem tcTag ta inner) := by
    simp [cellParas, Node.kids, blocksOfList, blocksOfNode, hm]
  rw [this]

/-- without a block container among its children a cell's paragraphs are its direct `w:p`
children (what `parseCellOld` read: the repair changes nothing for such cells) -/
theorem cell_no_container (tc : Node) (h : ∀ n ∈ tc.kids, blockContainers.contains n.loc = false) :
    cellParas tc = childrenNamed tc.kids sP ∧ parseCell tc = parseCellOld tc := by
  have hb : blocksOfList tc.kids = tc.kids.filter (·.isElem) := blocksOfList_plain tc.kids h
  have h1 := childrenNamed_filter_isElem tc.kids
  have h2 := childNamed_filter_isElem tc.kids
  constructor
  · simp only [cellParas, hb, h1]
  · simp only [parseCell, parseCellOld, cellParas, hb, h1, h2]

/-- **docx_cell_container_content_lost_pinned_counterexample**. The cell `A`, content control
holding the paragraph `B`, `C`: the OLD reader's cell text is `A\nC`, the repaired reader's
`A\nB\nC`. -/
theorem docx_cell_container_content_lost_pinned_counterexample :
    (parseCellOld (.elem [119, 58, 116, 99] [] [wP [wR [wT [65]]], wSdt [wP [wR [wT [66]]]], wP [wR [wT [67]]]])).text = [65, 10, 67]
    ∧ (parseCell (.elem [119, 58, 116, 99] [] [wP [wR [wT [65]]], wSdt [wP [wR [wT [66]]]], wP [wR [wT [67]]]])).text = [65, 10, 66, 10, 67] := by
  constructor <;> decide +kernel

/-- vertical merge, the regular case checked on an instance by the kernel: a 3-row column
`restart / continue / (bare)` next to plain cells gives the start cell row span 3 -/
example :
    let c (cont : Bool) : Cell := { text := [], colSpan := 1, rowSpan := 1, cont := cont }
    (processVerticalMerges [[c false, c false], [c true, c false], [c true, c false]]).map (·.map (·.rowSpan))
      = [[3, 1], [1, 1], [1, 1]] := by decide

/-! ### bounded spans, column repetitions and list levels -/

/-- a span / repetition attribute never yields less than 1 or more than `maxCellSpan`,
whatever the attribute says (sign, zero, huge, not a number) -/
theorem boundedSpan_range (s : Str) : 1 ≤ boundedSpan s ∧ boundedSpan s ≤ 1024 := by
  unfold boundedSpan
  cases atoi? s with
  | none => simp
  | some v =>
    by_cases h : 0 < v ∧ v ≤ 1024
    · simp only [h, and_self, if_true]
      omega
    · simp only [h, if_false]
      omega

/-- the edges: 1 and 1024 are taken, 1025, 0, -1, a 32-bit, a 64-bit and a larger value,
the empty string and a non-number leave the default 1; a leading `+` is a sign -/
example : boundedSpan [49] = 1 ∧ boundedSpan [49, 48, 50, 52] = 1024 ∧ boundedSpan [49, 48, 50, 53] = 1
    ∧ boundedSpan [48] = 1 ∧ boundedSpan [45, 49] = 1 ∧ boundedSpan [50, 49, 52, 55, 52, 56, 51, 54, 52, 55] = 1
    ∧ boundedSpan [57, 50, 50, 51, 51, 55, 50, 48, 51, 54, 56, 53, 52, 55, 55, 53, 56, 48, 55] = 1
    ∧ boundedSpan [57, 57, 57, 57, 57, 57, 57, 57, 57, 57, 57, 57, 57, 57, 57, 57, 57, 57, 57, 57] = 1
    ∧ boundedSpan [] = 1 ∧ boundedSpan [120] = 1 ∧ boundedSpan [43, 51] = 3 ∧ boundedSpan [48, 48, 55] = 7 := by
  decide +kernel

/-- **docx_span_bounded**. Every parsed DOCX cell is 1..1024 grid columns wide. -/
theorem docx_span_bounded (tc : Node) :
    1 ≤ (parseCell tc).colSpan ∧ (parseCell tc).colSpan ≤ 1024 := by
  unfold parseCell
  exact boundedSpan_range _

/-- **odt_span_bounded**. Every parsed ODT cell spans 1..1024 columns and 1..1024 rows. -/
theorem odt_span_bounded (tc : Node) :
    (1 ≤ (Odt.parseCell tc).colSpan ∧ (Odt.parseCell tc).colSpan ≤ 1024)
    ∧ (1 ≤ (Odt.parseCell tc).rowSpan ∧ (Odt.parseCell tc).rowSpan ≤ 1024) := by
  unfold Odt.parseCell Odt.spanOf
  exact ⟨boundedSpan_range _, boundedSpan_range _⟩

theorem sum_map_le {α : Type} (f : α → Nat) (b : Nat) (h : ∀ x, f x ≤ b) :
    ∀ l : List α, (l.map f).sum ≤ b * l.length := by
  intro l
  induction l with
  | nil => simp
  | cons x xs ih =>
    simp only [List.map_cons, List.sum_cons, List.length_cons]
    have := h x
    rw [Nat.mul_succ]
    omega

/-- **odt_columns_bounded**. The column widths of an ODT table number at most 1024 per
`table:table-column` element (direct or inside grouping elements). -/
theorem odt_columns_bounded (tbl : Node) :
    Odt.columnCount tbl ≤ 1024 * (Odt.tableColumns tbl).length := by
  unfold Odt.columnCount
  exact sum_map_le _ 1024 (fun col => (boundedSpan_range _).2) _

theorem listLevelFrom_le (s : Str) : ∀ level, level ≤ maxListLevel → listLevelFrom s level ≤ maxListLevel := by
  induction s with
  | nil => intro level h; simpa [listLevelFrom] using h
  | cons c rest ih =>
    intro level h
    simp only [listLevelFrom]
    split
    · split
      · exact Nat.le_refl _
      · apply ih; omega
    · exact ih level h

/-- **list_level_bounded**. Whatever `w:ilvl` says, the list level is in 0..8. -/
theorem list_level_bounded (s : Str) : parseListLevel s ≤ 8 :=
  listLevelFrom_le s 0 (by decide)

/-- the levels WordprocessingML defines are read as written -/
theorem list_level_valid : ∀ k : Fin 9, parseListLevel [48 + k.val] = k.val := by decide +kernel

/-- the edges: 8 stays, 9 / 10 / 2147483647 / 99999999999999999999 become 8, the sign of
"-1" is ignored (level 1), the empty string is level 0 -/
example : parseListLevel [56] = 8 ∧ parseListLevel [57] = 8 ∧ parseListLevel [49, 48] = 8
    ∧ parseListLevel [50, 49, 52, 55, 52, 56, 51, 54, 52, 55] = 8
    ∧ parseListLevel [57, 57, 57, 57, 57, 57, 57, 57, 57, 57, 57, 57, 57, 57, 57, 57, 57, 57, 57, 57] = 8
    ∧ parseListLevel [45, 49] = 1 ∧ parseListLevel [] = 0 ∧ parseListLevel [48, 48, 51] = 3 := by decide +kernel

/-! ### headers / footers -/

/-- **headers_not_in_body**. The element list is a function of document.xml and styles.xml
only (`elements` has no header/footer argument), and the writers skip a paragraph because of
a header/footer part only when the caller asked for it: with the default options every
element is written, whatever the header and footer parts contain. -/
theorem headers_not_in_body (hdr ftr : List Str) (trim : Str → Str) (els : List Elem) :
    visibleElements {} hdr ftr trim els = els := by
  unfold visibleElements
  rw [List.filter_eq_self]
  intro e _
  cases e with
  | para p => simp [shouldExclude]
  | table _ => rfl

/-- and when asked, exclusion only removes elements (never adds header text) -/
theorem exclusion_only_narrows (opts : ExtractOptions) (hdr ftr : List Str) (trim : Str → Str) (els : List Elem) :
    (visibleElements opts hdr ftr trim els).Sublist els := by
  unfold visibleElements
  exact List.filter_sublist

/-! ### ODT body order -/

/-- **odt_body_interleave**. Inside `office:text` the streaming walk appends, for each
child in source order, exactly the elements that child stands for (`elemsOfNode`: a
paragraph, a heading, the items of a list, a table; a wrapper such as `text:section`
contributes its children's elements in place).
RESTATED (was: for every list of children): `decodeInlineContentAt` refuses the 10001st
level of nested `text:span` / `text:a`, and `odt.Open` then fails (`odt_body_refused`,
`C16Bounds.odt_open_beyond`). The statement holds as before when every body element is decoded
to its end (`decodesList kids`, decidable; by `odt_decodes_iff_depth` it says that no
paragraph of a body element nests spans deeper than `maxInlineDepth` = 10000). -/
theorem odt_body_interleave (defs : List Odt.StyleDef) (ta : List (Str × Str)) (kids : List Node) (acc : List Odt.Elem)
    (hk : Odt.noTextList kids = true) (hdec : Odt.decodesList kids = true) :
    Odt.walkNode defs (.elem Odt.sOfficeText ta kids) { inBody := false, acc := acc } =
      { inBody := false, acc := acc ++ Odt.elemsOfList defs kids } := by
  simp only [Odt.walkNode, BEq.rfl, if_true, Bool.false_eq_true, if_false]
  rw [Odt.walk_inside_list defs kids _ rfl rfl hk hdec]

/-- **odt_body_refused**. The other half: when some body element is not decoded to its end the
walk over `office:text` ends with the depth error (`failed`), whatever stands before or behind
that element. -/
theorem odt_body_refused (defs : List Odt.StyleDef) (ta : List (Str × Str)) (kids : List Node) (acc : List Odt.Elem)
    (hk : Odt.noTextList kids = true) (hdec : Odt.decodesList kids = false) :
    (Odt.walkNode defs (.elem Odt.sOfficeText ta kids) { inBody := false, acc := acc }).failed = true := by
  simp only [Odt.walkNode, BEq.rfl, if_true, Bool.false_eq_true, if_false]
  exact Odt.walk_refuses_list defs kids _ rfl rfl hk hdec

/-- the walk of `parseBodyElements` from the root of content.xml: `office:text` sits in
`office:body`, nothing named `office:text` elsewhere (styles, scripts, …) -/
theorem odt_body_walk (docTag bodyTag : Str) (da ba ta : List (Str × Str)) (pre kids post : List Node)
    (styles : Option Node)
    (hdoc : docTag ≠ Odt.sOfficeText) (hbody : bodyTag ≠ Odt.sOfficeText)
    (hpre : Odt.noTextList pre = true) :
    let content : Node := .elem docTag da (pre ++ [.elem bodyTag ba [.elem Odt.sOfficeText ta kids]] ++ post)
    Odt.bodyWalk content styles =
      Odt.walkList (Odt.allStyles content styles) post
        (Odt.walkNode (Odt.allStyles content styles) (.elem Odt.sOfficeText ta kids) { inBody := false, acc := [] }) := by
  intro content
  unfold Odt.bodyWalk
  generalize Odt.allStyles content styles = defs
  have hd : (docTag == Odt.sOfficeText) = false := by
    cases h : docTag == Odt.sOfficeText
    · rfl
    · exact absurd (by simpa using h) hdoc
  have hb : (bodyTag == Odt.sOfficeText) = false := by
    cases h : bodyTag == Odt.sOfficeText
    · rfl
    · exact absurd (by simpa using h) hbody
  show Odt.walkNode defs (.elem docTag da (pre ++ [.elem bodyTag ba [.elem Odt.sOfficeText ta kids]] ++ post)) _ = _
  rw [Odt.walkNode]
  simp only [hd, Bool.false_eq_true, if_false, Bool.not_false, if_true]
  rw [Odt.walkList_append, Odt.walkList_append, Odt.walk_outside_list defs pre _ rfl hpre]
  simp only [Odt.walkList]
  rw [Odt.walkNode]
  simp only [hb, Bool.false_eq_true, if_false, Bool.not_false, if_true, Odt.walkList]

/-- the whole walk over a content.xml whose body elements are all decoded to their end: no
error, and the elements are what the children of `office:text` stand for -/
theorem odt_body_walk_within (docTag bodyTag : Str) (da ba ta : List (Str × Str)) (pre kids post : List Node)
    (styles : Option Node)
    (hdoc : docTag ≠ Odt.sOfficeText) (hbody : bodyTag ≠ Odt.sOfficeText)
    (hpre : Odt.noTextList pre = true) (hpost : Odt.noTextList post = true) (hk : Odt.noTextList kids = true)
    (hdec : Odt.decodesList kids = true) :
    Odt.bodyWalk (.elem docTag da (pre ++ [.elem bodyTag ba [.elem Odt.sOfficeText ta kids]] ++ post)) styles =
      { inBody := false, failed := false,
        acc := Odt.elemsOfList (Odt.allStyles (.elem docTag da (pre ++ [.elem bodyTag ba [.elem Odt.sOfficeText ta kids]] ++ post)) styles) kids } := by
  have := odt_body_walk docTag bodyTag da ba ta pre kids post styles hdoc hbody hpre
  simp only at this
  rw [this, odt_body_interleave _ ta kids [] hk hdec, Odt.walk_outside_list _ post _ rfl hpost]
  simp

/-- **odt_elements_interleave**: the same from the root of content.xml. RESTATED with `hdec` as
`odt_body_interleave`. -/
theorem odt_elements_interleave (docTag bodyTag : Str) (da ba ta : List (Str × Str)) (pre kids post : List Node)
    (styles : Option Node)
    (hdoc : docTag ≠ Odt.sOfficeText) (hbody : bodyTag ≠ Odt.sOfficeText)
    (hpre : Odt.noTextList pre = true) (hpost : Odt.noTextList post = true) (hk : Odt.noTextList kids = true)
    (hdec : Odt.decodesList kids = true) :
    Odt.elements (.elem docTag da (pre ++ [.elem bodyTag ba [.elem Odt.sOfficeText ta kids]] ++ post)) styles =
      Odt.elemsOfList (Odt.allStyles (.elem docTag da (pre ++ [.elem bodyTag ba [.elem Odt.sOfficeText ta kids]] ++ post)) styles) kids := by
  unfold Odt.elements
  rw [odt_body_walk_within docTag bodyTag da ba ta pre kids post styles hdoc hbody hpre hpost hk hdec]

/-- … and when some body element is not decoded to its end, the walk over content.xml ends with
the depth error, whatever follows the body -/
theorem odt_elements_refused (docTag bodyTag : Str) (da ba ta : List (Str × Str)) (pre kids post : List Node)
    (styles : Option Node)
    (hdoc : docTag ≠ Odt.sOfficeText) (hbody : bodyTag ≠ Odt.sOfficeText)
    (hpre : Odt.noTextList pre = true) (hk : Odt.noTextList kids = true)
    (hdec : Odt.decodesList kids = false) :
    (Odt.bodyWalk (.elem docTag da (pre ++ [.elem bodyTag ba [.elem Odt.sOfficeText ta kids]] ++ post)) styles).failed = true := by
  have := odt_body_walk docTag bodyTag da ba ta pre kids post styles hdoc hbody hpre
  simp only at this
  rw [this]
  have hf := odt_body_refused (Odt.allStyles (.elem docTag da (pre ++ [.elem bodyTag ba [.elem Odt.sOfficeText ta kids]] ++ post)) styles)
    ta kids [] hk hdec
  rw [Odt.walk_failed_list _ post _ hf]
  exact hf

/-- **table_grid** (ODT). Expanding row spans only inserts blank covered placeholders: in every
row the cells `limitTableGrid` left (text = paragraphs joined in order, column/row span as
written or, beyond the grid limit, 1) stay in source order; a row is cut short only if it
overflows the grid. Holds for every table. -/
theorem odt_table_grid_any (tbl : Node) : Odt.RowsKept (Odt.parseTable tbl) (Odt.limitTableGrid (Odt.parseRows tbl)) := by
  unfold Odt.parseTable Odt.processRowSpans
  exact Odt.live_spanRows _ _ _ (Odt.limit_live _ (Odt.parseRows_live tbl))

/-- **odt_table_grid**: within the grid limit the cells are the authored ones.
RESTATED (was: for every `table:table`): `ParseTable` now calls `limitTableGrid`; the
hypothesis `h` (rows x spanned columns ≤ `maxTableGridCells` = 2^20, decidable) is what the
code demands for believing the spans. Beyond it: `odt_table_grid_beyond`. -/
theorem odt_table_grid (tbl : Node)
    (h : (Odt.parseRows tbl).length * Odt.colCount (Odt.parseRows tbl) ≤ Odt.maxTableGridCells) :
    Odt.RowsKept (Odt.parseTable tbl) (Odt.parseRows tbl) := by
  have := odt_table_grid_any tbl
  rw [Odt.limit_within _ h] at this
  exact this

/-- **odt_table_grid_beyond**. A table that has spans and whose rows x spanned columns exceed
2^20 is read without any span: no placeholder is inserted, every row holds its authored cells
in source order, each 1 x 1 with its text. -/
theorem odt_table_grid_beyond (tbl : Node) (hs : Odt.hasSpans (Odt.parseRows tbl) = true)
    (h : (Odt.parseRows tbl).length * Odt.colCount (Odt.parseRows tbl) > Odt.maxTableGridCells) :
    Odt.parseTable tbl = Odt.resetSpans (Odt.parseRows tbl) := by
  unfold Odt.parseTable
  rw [Odt.limit_beyond _ hs h]
  apply Odt.processRowSpans_flat
  intro row hrow c hc
  simp only [Odt.resetSpans, List.mem_map] at hrow
  obtain ⟨r0, _, rfl⟩ := hrow
  simp only [List.mem_map] at hc
  obtain ⟨c0, _, rfl⟩ := hc
  exact ⟨Nat.le_refl 1, Nat.le_refl 1⟩

/-- **odt_placeholders_blank**. Every covered cell of a parsed ODT table is the blank 1x1
placeholder: it holds no text and no span of its own (whatever the authored cells say). -/
theorem odt_placeholders_blank (tbl : Node) (row : List Odt.Cell) (c : Odt.Cell)
    (hrow : row ∈ Odt.parseTable tbl) (hc : c ∈ row) (hcov : c.covered = true) : c = Odt.coveredCell := by
  unfold Odt.parseTable Odt.processRowSpans at hrow
  exact Odt.covered_blank_spanRows _ _ _ (Odt.limit_live _ (Odt.parseRows_live tbl)) row hrow c hc hcov

/-- the authored grid itself: row r, cell i is the i-th `table:table-cell` of the r-th `table:table-row` -/
theorem odt_cell_authored (tc : Node) :
    (Odt.parseCell tc).text = joinWith [10] (((childrenNamed tc.kids Odt.sP).map Odt.paraText).filter (· ≠ []))
    ∧ (Odt.parseCell tc).colSpan = Odt.spanOf (tc.attr Odt.sColsSpanned)
    ∧ (Odt.parseCell tc).rowSpan = Odt.spanOf (tc.attr Odt.sRowsSpanned) := ⟨rfl, rfl, rfl⟩

/-- row spans on an instance, checked by the kernel: a 2x2 cell spanning two rows and two
columns, followed by a plain cell; the second row gets two covered placeholders in front -/
example :
    let c (t : Str) (cs rs : Nat) : Odt.Cell := { text := t, colSpan := cs, rowSpan := rs, covered := false }
    (Odt.processRowSpans [[c [65] 2 2, c [66] 1 1], [c [67] 1 1]]).map (·.map fun x => (x.text, x.covered))
      = [[([65], false), ([66], false)], [([], true), ([], true), ([67], false)]] := by decide

end Tabula.C16
