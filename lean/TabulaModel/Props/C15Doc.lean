import TabulaModel.Props.C15
import TabulaModel.Lemmas.MarkdownDocx
import TabulaModel.Lemmas.MarkdownOdt
import TabulaModel.Lemmas.MarkdownHtml
import TabulaModel.Lemmas.MarkdownPre
/-!
# C15 — end-to-end: what a Markdown reader gets back from the public entry points

Composition theorems over `Model/MarkdownDoc.lean`: the whole output of `Reader.Markdown()`,
`Reader.MarkdownWithOptions`, `Reader.MarkdownWithRAGOptions` (and so of
`tabula.Open(f).ToMarkdownWithOptions`, which forwards to it), read by the reading spec `readMd`
(front matter and generated TOC skipped, ATX headings, list item lines, GFM pipe tables,
paragraph lines), is exactly the source structure: every heading with its level
`clamp (level + offset) 1 (min max 6)` and its text, every list item with depth, kind and text,
every table as its rows × columns grid of normalised cell texts, every body paragraph — in order,
nothing else, for all element lists and all options.
-/
namespace Tabula.C15Doc
open Tabula.A1 (Str dec decInt)
open Tabula.Markdown Tabula.MarkdownDoc

/-! ## tables inside a document -/

/-- the lines of a DOCX table, as a block of a document, read back as the grid -/
theorem docx_table_lines_roundtrip (t : List (List SCell)) (hc : colCount t ≠ 0)
    (hbs : Tabula.C15.NoBackslashS t) :
    gfmTableL (spanLines .docx t) = some (t.map (gridRow .docx (colCount t))) := by
  have hne : t ≠ [] := by intro e; rw [e] at hc; exact hc rfl
  have h2 : 2 ≤ (spanLines .docx t).length := by
    cases t with
    | nil => exact absurd rfl hne
    | cons hdr rows => simp [spanLines]
  rw [gfmTableL_of_joined _ (spanLines_noNl .docx t) h2, ← renderSpan_lines .docx t hc]
  exact Tabula.C15.table_roundtrip_spans_docx t hne (by omega) hbs

theorem odt_table_lines_roundtrip (t : List (List SCell)) (hc : colCount t ≠ 0)
    (hbs : Tabula.C15.NoBackslashS t) :
    gfmTableL (spanLines .odt t) = some (t.map (gridRow .odt (colCount t))) := by
  have hne : t ≠ [] := by intro e; rw [e] at hc; exact hc rfl
  have h2 : 2 ≤ (spanLines .odt t).length := by
    cases t with
    | nil => exact absurd rfl hne
    | cons hdr rows => simp [spanLines]
  rw [gfmTableL_of_joined _ (spanLines_noNl .odt t) h2, ← renderSpan_lines .odt t hc]
  exact Tabula.C15.table_roundtrip_spans_odt t hne (by omega) hbs

/-! ## DOCX -/

/-- the source structure of a DOCX element list as a Markdown reader should see it: headings
(level through `hl`), list items (depth = list level, kind from the numbering), tables (grid of
normalised cell texts; a table without columns is nothing), body paragraphs -/
def docxExpected (excl : Str → Bool) (hl : Int → Int) (fmt : Str → Int → NumFmt) (els : List DElem) : MdDoc :=
  { headings := dHeadings excl hl els
    items := dItems excl fmt els
    tables := (dTables els).map fun t => some (t.map (gridRow .docx (colCount t)))
    paras := dParas excl els }

/-- no table cell of the document contains a backslash -/
def DocxCells (els : List DElem) : Prop := ∀ t, DElem.table t ∈ els → Tabula.C15.NoBackslashS t

theorem dTables_mem (els : List DElem) (t : List (List SCell)) (h : t ∈ dTables els) :
    DElem.table t ∈ els ∧ colCount t ≠ 0 := by
  unfold dTables at h
  rcases List.mem_filterMap.mp h with ⟨e, he, hf⟩
  cases e with
  | para p => simp at hf
  | table t' =>
    by_cases hc : colCount t' = 0
    · simp [hc] at hf
    · simp only [hc, if_false, Option.some.injEq] at hf
      subst hf
      exact ⟨he, hc⟩

theorem docx_tables_read (els : List DElem) (hcells : DocxCells els) :
    ((dTables els).map fun t => gfmTableL (spanLines .docx t))
      = (dTables els).map fun t => some (t.map (gridRow .docx (colCount t))) := by
  apply List.map_congr_left
  intro t ht
  obtain ⟨hm, hc⟩ := dTables_mem els t ht
  exact docx_table_lines_roundtrip t hc (hcells t hm)

/-- the element loop from an empty builder, trimmed: reads back as the source structure -/
theorem docx_loop_read (excl : Str → Bool) (hl : Int → Int) (fmt : Str → Int → NumFmt) (els : List DElem)
    (hwf : DocxWF excl hl fmt els) (hcells : DocxCells els)
    (htoc : (2, tocText) ∉ dHeadings excl hl els) :
    readMd (trimNl (docxLoop excl hl fmt 0 { out := [] } els).out) = docxExpected excl hl fmt els := by
  obtain ⟨h1, h2, _, h4⟩ := docx_body_read excl hl fmt els hwf htoc
  have hout := docxLoop_out excl hl fmt els 0 { out := [] } (by intro h; cases h)
  simp only [DSt.ls, List.nil_append] at hout
  rw [hout, readMd_trimNl_joinLines _ h1 (fun _ => h2), h4, docx_tables_read els hcells]
  rfl

theorem readMd_nil : readMd [] = { headings := [], items := [], tables := [], paras := [] } := by decide

theorem docxExpected_nil (excl : Str → Bool) (hl : Int → Int) (fmt : Str → Int → NumFmt) :
    docxExpected excl hl fmt [] = { headings := [], items := [], tables := [], paras := [] } := rfl

/-- the 1..6 clamp of `MarkdownWithOptions` -/
def clamp16 (l : Int) : Int := if l < 1 then 1 else if l > 6 then 6 else l

theorem clamp16_range (l : Int) : 1 ≤ (clamp16 l).toNat ∧ (clamp16 l).toNat ≤ 6 := by
  unfold clamp16; split
  · decide
  · split
    · decide
    · omega

theorem headingLevel_toNat_range (l o m : Int) :
    1 ≤ (headingLevel l o m).toNat ∧ (headingLevel l o m).toNat ≤ 6 := by
  have := Tabula.C15.heading_level_range l o m
  omega

/-- **DOCX, `Reader.MarkdownWithOptions` / `Reader.Markdown()`: structurally lossless.**  For every
element list (paragraph texts single lines, body paragraphs not themselves Markdown markup, list
levels ≥ 0, cells without backslash, no heading called "Table of Contents" at level 2) and every
header/footer exclusion setting, the Markdown reads back as: the headings in order with level
`clamp level 1 6` and their text; the list items in order with depth = list level, kind as the
numbering says, and text; every table as its grid; every body paragraph. -/
theorem docx_markdown_lossless (fmt : Str → Int → NumFmt) (hdrs ftrs : List Str) (exH exF : Bool)
    (nParas : Nat) (els : List DElem)
    (hwf : DocxWF (fun t => HF.shouldExcludeParagraph t hdrs ftrs exH exF) clamp16 fmt els)
    (hcells : DocxCells els)
    (htoc : (2, tocText) ∉ dHeadings (fun t => HF.shouldExcludeParagraph t hdrs ftrs exH exF) clamp16 els) :
    readMd (docxMarkdownWithOptions fmt hdrs ftrs exH exF nParas els)
      = docxExpected (fun t => HF.shouldExcludeParagraph t hdrs ftrs exH exF) clamp16 fmt els := by
  unfold docxMarkdownWithOptions
  split
  · rename_i h
    have : els = [] := by
      cases els with
      | nil => rfl
      | cons a b => simp at h
    subst this
    rw [readMd_nil, docxExpected_nil]
  · exact docx_loop_read _ clamp16 fmt els hwf hcells htoc

theorem docx_plain_markdown_lossless (fmt : Str → Int → NumFmt) (hdrs ftrs : List Str)
    (nParas : Nat) (els : List DElem)
    (hwf : DocxWF (fun t => HF.shouldExcludeParagraph t hdrs ftrs false false) clamp16 fmt els)
    (hcells : DocxCells els)
    (htoc : (2, tocText) ∉ dHeadings (fun t => HF.shouldExcludeParagraph t hdrs ftrs false false) clamp16 els) :
    readMd (docxMarkdown fmt hdrs ftrs nParas els)
      = docxExpected (fun t => HF.shouldExcludeParagraph t hdrs ftrs false false) clamp16 fmt els :=
  docx_markdown_lossless fmt hdrs ftrs false false nParas els hwf hcells htoc

theorem docxTocHeadings_noNl (o : MdOpts) (els : List DElem) (h : ∀ p, DElem.para p ∈ els → 10 ∉ p.text) :
    ∀ x ∈ docxTocHeadings o els, 10 ∉ x.2 := by
  intro x hx
  unfold docxTocHeadings at hx
  rcases List.mem_filterMap.mp hx with ⟨e, he, hf⟩
  cases e with
  | table t => simp at hf
  | para p =>
    by_cases hh : p.isHeading = true
    · simp only [hh, if_true, Option.some.injEq] at hf
      subst hf
      exact h p he
    · simp [hh] at hf

/-- **DOCX, `Reader.MarkdownWithRAGOptions` (= `tabula.Open(f).ToMarkdownWithOptions` for a DOCX
file): structurally lossless under every option.**  With or without YAML front matter, with or
without the generated table of contents, for every heading offset and maximum: the Markdown reads
back as the headings in order with level `headingLevel level offset max`
(= `clamp (level + offset) 1 (min max 6)`, see `heading_level_clamped`) and their text, the list
items with depth, kind and text, the tables as their grids, the body paragraphs. -/
theorem docx_rag_lossless (ext : Ext) (hext : ExtOK ext) (fmt : Str → Int → NumFmt) (hdrs ftrs : List Str)
    (exH exF : Bool) (o : MdOpts) (m : Meta) (nParas : Nat) (els : List DElem)
    (hwf : DocxWF (fun t => HF.shouldExcludeParagraph t hdrs ftrs exH exF)
      (fun l => headingLevel l o.offset o.max) fmt els)
    (hcells : DocxCells els)
    (htoc : (2, tocText) ∉ dHeadings (fun t => HF.shouldExcludeParagraph t hdrs ftrs exH exF)
      (fun l => headingLevel l o.offset o.max) els) :
    readMd (docxMarkdownRag ext fmt hdrs ftrs exH exF o m nParas els)
      = docxExpected (fun t => HF.shouldExcludeParagraph t hdrs ftrs exH exF)
          (fun l => headingLevel l o.offset o.max) fmt els := by
  unfold docxMarkdownRag
  split
  · rename_i h
    have : els = [] := by
      cases els with
      | nil => rfl
      | cons a b => simp at h
    subst this
    rw [readMd_nil, docxExpected_nil]
  · obtain ⟨h1, h2, h3, h4⟩ := docx_body_read _ _ fmt els hwf htoc
    have hout := docxLoop_out (fun t => HF.shouldExcludeParagraph t hdrs ftrs exH exF)
      (fun l => headingLevel l o.offset o.max) fmt els 0
      { out := docPreamble ext o m (docxTocHeadings o els) } (by intro h; cases h)
    simp only [DSt.ls] at hout
    rw [hout, readMd_docPreamble ext hext o m _ (docxTocHeadings_noNl o els hwf.noNl) _ h1 h2 h3, h4,
      docx_tables_read els hcells]
    rfl

/-- the extractor's terminal operation on a DOCX file is the reader's `MarkdownWithRAGOptions`:
the same read-back holds for `tabula.Open(f).ToMarkdownWithOptions(o)` -/
theorem docx_extractor_lossless (ext : Ext) (hext : ExtOK ext) (fmt : Str → Int → NumFmt) (hdrs ftrs : List Str)
    (exH exF : Bool) (o : MdOpts) (m : Meta) (nParas : Nat) (els : List DElem)
    (hwf : DocxWF (fun t => HF.shouldExcludeParagraph t hdrs ftrs exH exF)
      (fun l => headingLevel l o.offset o.max) fmt els)
    (hcells : DocxCells els)
    (htoc : (2, tocText) ∉ dHeadings (fun t => HF.shouldExcludeParagraph t hdrs ftrs exH exF)
      (fun l => headingLevel l o.offset o.max) els) :
    readMd (extractorMarkdown ext exH exF o (.docx fmt hdrs ftrs m nParas els))
      = docxExpected (fun t => HF.shouldExcludeParagraph t hdrs ftrs exH exF)
          (fun l => headingLevel l o.offset o.max) fmt els :=
  docx_rag_lossless ext hext fmt hdrs ftrs exH exF o m nParas els hwf hcells htoc

/-- every heading of the read-back has a level in 1..6, whatever the source level and options -/
theorem docx_heading_levels_valid (excl : Str → Bool) (o : MdOpts) (els : List DElem) :
    ∀ h ∈ dHeadings excl (fun l => headingLevel l o.offset o.max) els, 1 ≤ h.1 ∧ h.1 ≤ 6 := by
  intro h hh
  unfold dHeadings at hh
  rcases List.mem_filterMap.mp hh with ⟨e, _, hf⟩
  cases e with
  | table t => simp at hf
  | para p =>
    by_cases hc : (!excl p.text && p.isHeading) = true
    · simp only [hc, if_true, Option.some.injEq] at hf
      subst hf
      exact headingLevel_toNat_range _ _ _
    · simp [hc] at hf

/-! ## ODT -/

/-- the source structure of a ODT element list as a Markdown reader should see it: headings
(level through `hl`), list items (depth = list level, kind from the numbering), tables (grid of
normalised cell texts; a table without columns is nothing), body paragraphs -/
def odtExpected (excl : Str → Bool) (hl : Int → Int) (fmt : Str → Int → Bool) (els : List OElem) : MdDoc :=
  { headings := oHeadings excl hl els
    items := oItems excl fmt els
    tables := (oTables els).map fun t => some (t.map (gridRow .odt (colCount t)))
    paras := oParas excl els }

/-- no table cell of the document contains a backslash -/
def OdtCells (els : List OElem) : Prop := ∀ t, OElem.table t ∈ els → Tabula.C15.NoBackslashS t

theorem oTables_mem (els : List OElem) (t : List (List SCell)) (h : t ∈ oTables els) :
    OElem.table t ∈ els ∧ colCount t ≠ 0 := by
  unfold oTables at h
  rcases List.mem_filterMap.mp h with ⟨e, he, hf⟩
  cases e with
  | para p => simp at hf
  | table t' =>
    by_cases hc : colCount t' = 0
    · simp [hc] at hf
    · simp only [hc, if_false, Option.some.injEq] at hf
      subst hf
      exact ⟨he, hc⟩

theorem odt_tables_read (els : List OElem) (hcells : OdtCells els) :
    ((oTables els).map fun t => gfmTableL (spanLines .odt t))
      = (oTables els).map fun t => some (t.map (gridRow .odt (colCount t))) := by
  apply List.map_congr_left
  intro t ht
  obtain ⟨hm, hc⟩ := oTables_mem els t ht
  exact odt_table_lines_roundtrip t hc (hcells t hm)

/-- the element loop from an empty builder, trimmed: reads back as the source structure -/
theorem odt_loop_read (excl : Str → Bool) (hl : Int → Int) (fmt : Str → Int → Bool) (els : List OElem)
    (hwf : OdtWF excl hl fmt els) (hcells : OdtCells els)
    (htoc : (2, tocText) ∉ oHeadings excl hl els) :
    readMd (trimNl (odtLoop excl hl fmt 0 { out := [] } els).out) = odtExpected excl hl fmt els := by
  obtain ⟨h1, h2, _, h4⟩ := odt_body_read excl hl fmt els hwf htoc
  have hout := odtLoop_out excl hl fmt els 0 { out := [] } (by intro h; cases h)
  simp only [OSt.ls, List.nil_append] at hout
  rw [hout, readMd_trimNl_joinLines _ h1 (fun _ => h2), h4, odt_tables_read els hcells]
  rfl

theorem odtExpected_nil (excl : Str → Bool) (hl : Int → Int) (fmt : Str → Int → Bool) :
    odtExpected excl hl fmt [] = { headings := [], items := [], tables := [], paras := [] } := rfl

/-- **ODT, `Reader.MarkdownWithOptions` / `Reader.Markdown()`: structurally lossless.**  For every
element list (paragraph texts single lines, body paragraphs not themselves Markdown markup, cells without backslash, no heading called "Table of Contents" at level 2) and every
header/footer exclusion setting, the Markdown reads back as: the headings in order with level
`clamp level 1 6` and their text; the list items in order with depth = list level, kind as the
numbering says, and text; every table as its grid; every body paragraph. -/
theorem odt_markdown_lossless (fmt : Str → Int → Bool) (hdrs ftrs : List Str) (exH exF : Bool)
    (nParas : Nat) (els : List OElem)
    (hwf : OdtWF (fun t => HF.shouldExcludeParagraph t hdrs ftrs exH exF) clamp16 fmt els)
    (hcells : OdtCells els)
    (htoc : (2, tocText) ∉ oHeadings (fun t => HF.shouldExcludeParagraph t hdrs ftrs exH exF) clamp16 els) :
    readMd (odtMarkdownWithOptions fmt hdrs ftrs exH exF nParas els)
      = odtExpected (fun t => HF.shouldExcludeParagraph t hdrs ftrs exH exF) clamp16 fmt els := by
  unfold odtMarkdownWithOptions
  split
  · rename_i h
    have : els = [] := by
      cases els with
      | nil => rfl
      | cons a b => simp at h
    subst this
    rw [readMd_nil, odtExpected_nil]
  · exact odt_loop_read _ clamp16 fmt els hwf hcells htoc

theorem odt_plain_markdown_lossless (fmt : Str → Int → Bool) (hdrs ftrs : List Str)
    (nParas : Nat) (els : List OElem)
    (hwf : OdtWF (fun t => HF.shouldExcludeParagraph t hdrs ftrs false false) clamp16 fmt els)
    (hcells : OdtCells els)
    (htoc : (2, tocText) ∉ oHeadings (fun t => HF.shouldExcludeParagraph t hdrs ftrs false false) clamp16 els) :
    readMd (odtMarkdown fmt hdrs ftrs nParas els)
      = odtExpected (fun t => HF.shouldExcludeParagraph t hdrs ftrs false false) clamp16 fmt els :=
  odt_markdown_lossless fmt hdrs ftrs false false nParas els hwf hcells htoc

theorem odtTocHeadings_noNl (o : MdOpts) (els : List OElem) (h : ∀ p, OElem.para p ∈ els → 10 ∉ p.text) :
    ∀ x ∈ odtTocHeadings o els, 10 ∉ x.2 := by
  intro x hx
  unfold odtTocHeadings at hx
  rcases List.mem_filterMap.mp hx with ⟨e, he, hf⟩
  cases e with
  | table t => simp at hf
  | para p =>
    by_cases hh : p.isHeading = true
    · simp only [hh, if_true, Option.some.injEq] at hf
      subst hf
      exact h p he
    · simp [hh] at hf

/-- **ODT, `Reader.MarkdownWithRAGOptions` (= `tabula.Open(f).ToMarkdownWithOptions` for a ODT
file): structurally lossless under every option.**  With or without YAML front matter, with or
without the generated table of contents, for every heading offset and maximum: the Markdown reads
back as the headings in order with level `headingLevel level offset max`
(= `clamp (level + offset) 1 (min max 6)`, see `heading_level_clamped`) and their text, the list
items with depth, kind and text, the tables as their grids, the body paragraphs. -/
theorem odt_rag_lossless (ext : Ext) (hext : ExtOK ext) (fmt : Str → Int → Bool) (hdrs ftrs : List Str)
    (exH exF : Bool) (o : MdOpts) (m : Meta) (nParas : Nat) (els : List OElem)
    (hwf : OdtWF (fun t => HF.shouldExcludeParagraph t hdrs ftrs exH exF)
      (fun l => headingLevel l o.offset o.max) fmt els)
    (hcells : OdtCells els)
    (htoc : (2, tocText) ∉ oHeadings (fun t => HF.shouldExcludeParagraph t hdrs ftrs exH exF)
      (fun l => headingLevel l o.offset o.max) els) :
    readMd (odtMarkdownRag ext fmt hdrs ftrs exH exF o m nParas els)
      = odtExpected (fun t => HF.shouldExcludeParagraph t hdrs ftrs exH exF)
          (fun l => headingLevel l o.offset o.max) fmt els := by
  unfold odtMarkdownRag
  split
  · rename_i h
    have : els = [] := by
      cases els with
      | nil => rfl
      | cons a b => simp at h
    subst this
    rw [readMd_nil, odtExpected_nil]
  · obtain ⟨h1, h2, h3, h4⟩ := odt_body_read _ _ fmt els hwf htoc
    have hout := odtLoop_out (fun t => HF.shouldExcludeParagraph t hdrs ftrs exH exF)
      (fun l => headingLevel l o.offset o.max) fmt els 0
      { out := docPreamble ext o m (odtTocHeadings o els) } (by intro h; cases h)
    simp only [OSt.ls] at hout
    rw [hout, readMd_docPreamble ext hext o m _ (odtTocHeadings_noNl o els hwf.noNl) _ h1 h2 h3, h4,
      odt_tables_read els hcells]
    rfl

/-- the extractor's terminal operation on a ODT file is the reader's `MarkdownWithRAGOptions`:
the same read-back holds for `tabula.Open(f).ToMarkdownWithOptions(o)` -/
theorem odt_extractor_lossless (ext : Ext) (hext : ExtOK ext) (fmt : Str → Int → Bool) (hdrs ftrs : List Str)
    (exH exF : Bool) (o : MdOpts) (m : Meta) (nParas : Nat) (els : List OElem)
    (hwf : OdtWF (fun t => HF.shouldExcludeParagraph t hdrs ftrs exH exF)
      (fun l => headingLevel l o.offset o.max) fmt els)
    (hcells : OdtCells els)
    (htoc : (2, tocText) ∉ oHeadings (fun t => HF.shouldExcludeParagraph t hdrs ftrs exH exF)
      (fun l => headingLevel l o.offset o.max) els) :
    readMd (extractorMarkdown ext exH exF o (.odt fmt hdrs ftrs m nParas els))
      = odtExpected (fun t => HF.shouldExcludeParagraph t hdrs ftrs exH exF)
          (fun l => headingLevel l o.offset o.max) fmt els :=
  odt_rag_lossless ext hext fmt hdrs ftrs exH exF o m nParas els hwf hcells htoc

/-- every heading of the read-back has a level in 1..6, whatever the source level and options -/
theorem odt_heading_levels_valid (excl : Str → Bool) (o : MdOpts) (els : List OElem) :
    ∀ h ∈ oHeadings excl (fun l => headingLevel l o.offset o.max) els, 1 ≤ h.1 ∧ h.1 ≤ 6 := by
  intro h hh
  unfold oHeadings at hh
  rcases List.mem_filterMap.mp hh with ⟨e, _, hf⟩
  cases e with
  | table t => simp at hf
  | para p =>
    by_cases hc : (!excl p.text && p.isHeading) = true
    · simp only [hc, if_true, Option.some.injEq] at hf
      subst hf
      exact headingLevel_toNat_range _ _ _
    · simp [hc] at hf

/-! ## HTML -/

def htmlExpected (hl : Int → Int) (els : List HElem) : MdDoc :=
  { headings := hHeadings hl els
    items := hItems els
    tables := (hTables els).map fun t => some (t.map (List.map (normCell .html)))
    paras := hParas els }

/-- every table is rectangular.  An `HElem` table is the grid `ToMarkdown` writes (`HSrc.view`):
for the reader's own elements — cells with any `colspan`/`rowspan` — this always holds
(Props/C15DocHtml.lean, `htmlCells_view`; until fix 72cc329 tables with spans were the recorded
finding `C15/table-shape-merged-html`).  The cells are any bytes, backslashes included. -/
def HtmlCells (els : List HElem) : Prop :=
  ∀ hdr rest, HElem.table (some (hdr :: rest)) ∈ els → Tabula.C15.Rect hdr.length (hdr :: rest)

theorem hTables_mem (els : List HElem) (t : List (List Str)) (h : t ∈ hTables els) :
    ∃ hdr rest, t = hdr :: rest ∧ HElem.table (some (hdr :: rest)) ∈ els := by
  unfold hTables at h
  rcases List.mem_filterMap.mp h with ⟨e, he, hf⟩
  cases e with
  | table rows =>
    cases rows with
    | none => simp at hf
    | some rows =>
      cases rows with
      | nil => simp at hf
      | cons hdr rest =>
        simp only [Option.some.injEq] at hf
        exact ⟨hdr, rest, hf.symm, he⟩
  | heading l t => simp at hf
  | para t => simp at hf
  | list items => simp at hf
  | code t => simp at hf
  | quote t => simp at hf

theorem html_tables_read (hl : Int → Int) (els : List HElem) (hwf : HtmlWF hl els) (hcells : HtmlCells els) :
    ((hTables els).map fun t => gfmTableL (htmlTableLinesOf t))
      = (hTables els).map fun t => some (t.map (List.map (normCell .html))) := by
  apply List.map_congr_left
  intro t ht
  obtain ⟨hdr, rest, rfl, hm⟩ := hTables_mem els t ht
  have hrect := hcells hdr rest hm
  have hne := hwf.rows hdr rest hm
  have hlen : 1 ≤ hdr.length := by
    have := hne hdr (by simp)
    cases hdr with
    | nil => exact absurd rfl this
    | cons a b => simp
  have hprops := htmlTableLines_props hdr rest hne
  show gfmTableL (htmlTableLines hdr rest) = _
  rw [gfmTableL_of_joined _ (fun l hl' => (hprops l hl').2) (by simp [htmlTableLines]),
    show joinLines (htmlTableLines hdr rest) = render .html (hdr :: rest) from (render_html_lines hdr rest).symm]
  exact Tabula.C15.table_roundtrip_any .html hdr.length hlen (hdr :: rest) (by simp) hrect

theorem readMd_unlines_dropEmpty (U : List Str) (hnl : ∀ l ∈ U, 10 ∉ l) (hhr : hrLine ∉ U) :
    readMd (unlines (dropEmpty U)) = readLines U := by
  unfold readMd
  by_cases hd : dropEmpty U = []
  · rw [hd]
    have : readLines (splitLines (unlines [])) = readLines [] := by decide
    rw [this, ← hd, readLines_dropEmpty U hhr]
  · rw [splitLines_unlines _ hd (fun l hl' => hnl l (by
      unfold dropEmpty at hl'
      exact (List.dropWhile_sublist _).subset hl')), readLines_dropEmpty U hhr]

/-- **HTML, `Reader.MarkdownWithOptions` / `Reader.Markdown()`** (the element list is the one of
the navigation mode in use): headings with their source level, list items with depth and the kind
of the list they were met in, rectangular tables as their grid, paragraphs. -/
theorem html_markdown_lossless (els : List HElem) (hwf : HtmlWF id els) (hcells : HtmlCells els)
    (htoc : (2, tocText) ∉ hHeadings id els) :
    readMd (htmlMarkdownWithOptions els) = htmlExpected id els := by
  obtain ⟨h1, h2, _, h4, h5⟩ := html_body_read id els hwf htoc
  unfold htmlMarkdownWithOptions
  rw [h4, readMd_unlines_dropEmpty _ h1 h2, h5, html_tables_read id els hwf hcells]
  rfl

theorem htmlHeadingTexts_noNl (hl : Int → Int) (els : List HElem) (hwf : HtmlWF hl els) :
    ∀ t ∈ htmlHeadingTexts els, 10 ∉ t := by
  intro t ht
  unfold htmlHeadingTexts at ht
  rcases List.mem_filterMap.mp ht with ⟨e, he, hf⟩
  cases e with
  | heading l t' =>
    simp only [Option.some.injEq] at hf
    subst hf
    exact hwf.headNl l t' he
  | para _ => simp at hf
  | list _ => simp at hf
  | table _ => simp at hf
  | code _ => simp at hf
  | quote _ => simp at hf

/-- **HTML, `Reader.MarkdownWithRAGOptions` (= `tabula.Open(f).ToMarkdownWithOptions` for an
HTML file): structurally lossless under every option** — front matter and the numbered TOC are
skipped, headings come out at `headingLevel level offset max`. -/
theorem html_rag_lossless (ext : Ext) (hext : ExtOK ext) (o : MdOpts) (m : HMeta) (els : List HElem)
    (hwf : HtmlWF (fun l => headingLevel l o.offset o.max) els) (hcells : HtmlCells els)
    (htoc : (2, tocText) ∉ hHeadings (fun l => headingLevel l o.offset o.max) els) :
    readMd (htmlMarkdownRag ext o m els) = htmlExpected (fun l => headingLevel l o.offset o.max) els := by
  obtain ⟨h1, h2, h3, h4, h5⟩ := html_body_read _ els hwf htoc
  have hpre := htmlPreamble_lines ext o m els
  unfold htmlMarkdownRag
  rw [hpre, h4]
  -- the lines of the whole output
  have hPnl : ∀ l ∈ htmlPreambleLines ext o m els, 10 ∉ l := by
    intro l hl
    unfold htmlPreambleLines at hl
    rcases List.mem_append.mp hl with hl | hl
    · cases hm : o.meta
      · simp [hm, optBlock] at hl
      · simp only [hm, if_true, optBlock] at hl
        exact fmBlock_props _ (fun x hx => (fmLinesHtml_props ext hext m x hx).1) l hl
    · split at hl
      · simp only [optBlock] at hl
        refine tocBlock_props _ ?_ l hl
        intro x hx
        rcases List.mem_cons.mp hx with rfl | hx
        · simp
        · rcases List.mem_append.mp hx with hx | hx
          · exact (tocNumberedLinesFrom_props ext hext _ (htmlHeadingTexts_noNl _ els hwf) 0 x hx).1
          · simp only [List.mem_singleton] at hx; subst hx; simp
      · simp [optBlock] at hl
  have hsub : ∀ l ∈ dropEmpty (htmlUniform (fun l => headingLevel l o.offset o.max) els),
      l ∈ htmlUniform (fun l => headingLevel l o.offset o.max) els := by
    intro l hl
    unfold dropEmpty at hl
    exact (List.dropWhile_sublist _).subset hl
  have key : readLines (htmlPreambleLines ext o m els ++
      dropEmpty (htmlUniform (fun l => headingLevel l o.offset o.max) els))
        = readLines (dropEmpty (htmlUniform (fun l => headingLevel l o.offset o.max) els)) := by
    unfold htmlPreambleLines
    rw [List.append_assoc]
    apply readLines_preamble
    · intro f hf
      cases hm : o.meta
      · simp [hm] at hf
      · simp only [hm, if_true, Option.some.injEq] at hf
        subst hf
        exact fun h => (fmLinesHtml_props ext hext m _ h).2 rfl
    · intro t ht
      split at ht
      · simp only [Option.some.injEq] at ht
        subst ht
        intro hm
        rcases List.mem_cons.mp hm with hm | hm
        · revert hm; decide
        · rcases List.mem_append.mp hm with hm | hm
          · exact (tocNumberedLinesFrom_props ext hext _ (htmlHeadingTexts_noNl _ els hwf) 0 _ hm).2 rfl
          · revert hm; decide
      · cases ht
    · intro hh
      cases hd : dropEmpty (htmlUniform (fun l => headingLevel l o.offset o.max) els) with
      | nil => rw [hd] at hh; simp at hh
      | cons a b =>
        rw [hd] at hh
        simp only [List.head?_cons, Option.some.injEq] at hh
        exact h2 (hsub _ (by rw [hd, hh]; simp))
    · exact fun hm => h3 (hsub _ hm)
  unfold readMd
  by_cases hd : dropEmpty (htmlUniform (fun l => headingLevel l o.offset o.max) els) = []
  · rw [hd] at key ⊢
    have : splitLines (joinLines (htmlPreambleLines ext o m els) ++ unlines [])
        = htmlPreambleLines ext o m els ++ [[]] := by
      simpa [unlines] using splitLines_joinLines _ hPnl
    rw [this, readLines_end_blank]
    simp only [List.append_nil] at key
    rw [key, ← hd, readLines_dropEmpty _ h2, h5, html_tables_read _ els hwf hcells]
    rfl
  · rw [splitLines_joinLines_append _ hPnl, splitLines_unlines _ hd (fun l hl => h1 l (hsub l hl)), key,
      readLines_dropEmpty _ h2, h5, html_tables_read _ els hwf hcells]
    rfl

theorem html_extractor_lossless (ext : Ext) (hext : ExtOK ext) (exH exF : Bool) (o : MdOpts) (m : HMeta)
    (els : List HElem) (hwf : HtmlWF (fun l => headingLevel l o.offset o.max) els) (hcells : HtmlCells els)
    (htoc : (2, tocText) ∉ hHeadings (fun l => headingLevel l o.offset o.max) els) :
    readMd (extractorMarkdown ext exH exF o (.html m els))
      = htmlExpected (fun l => headingLevel l o.offset o.max) els :=
  html_rag_lossless ext hext o m els hwf hcells htoc

/-! ## the hypotheses are satisfiable -/

/-- `%q` stand-in for the examples: the string without its newlines, between double quotes -/
def exExt : Ext := { quote := fun s => 34 :: s.filter (· != 10) ++ [34], lower := id }

/-- a heading at source level 5, a nested ordered item, a table with a spanning cell and a pipe
in a cell, a body paragraph -/
def exDocx : List DElem :=
  [ .para { text := [72, 105], isHeading := true, level := 5 },
    .para { text := [105, 116], isListItem := true, numID := [49], listLevel := 1 },
    .table [[⟨[97, 124, 98], 2, false⟩, ⟨[99], 1, false⟩], [⟨[], 1, true⟩, ⟨[100], 1, false⟩]],
    .para { text := [98, 111, 100, 121] } ]

def exFmt : Str → Int → NumFmt := fun _ _ => ⟨true, 3⟩
def exOpts : MdOpts := { «meta» := true, toc := true, offset := 2, max := 4 }

example : DocxWF (fun t => HF.shouldExcludeParagraph t [] [] false false)
    (fun l => headingLevel l exOpts.offset exOpts.max) exFmt exDocx := by
  refine ⟨fun l => headingLevel_toNat_range _ _ _, ?_, ?_, ?_, ?_⟩
  · intro p hp
    simp only [exDocx, List.mem_cons, DElem.para.injEq, List.not_mem_nil, or_false] at hp
    rcases hp with rfl | rfl | hp | rfl
    · decide
    · decide
    · cases hp
    · decide
  · intro p hp _ hh hl _
    simp only [exDocx, List.mem_cons, DElem.para.injEq, List.not_mem_nil, or_false] at hp
    rcases hp with rfl | rfl | hp | rfl
    · cases hh
    · revert hl; decide
    · cases hp
    · decide
  · intro p hp hl
    simp only [exDocx, List.mem_cons, DElem.para.injEq, List.not_mem_nil, or_false] at hp
    rcases hp with rfl | rfl | hp | rfl
    · revert hl; decide
    · decide
    · cases hp
    · revert hl; decide
  · intro p _ _ _
    show (0 : Int) ≤ 3
    decide

example : DocxCells exDocx := by
  intro t ht
  simp only [exDocx, List.mem_cons, DElem.table.injEq, List.not_mem_nil, or_false] at ht
  rcases ht with ht | ht | rfl | ht
  · cases ht
  · cases ht
  · intro r hr c hc
    simp only [List.mem_cons, List.not_mem_nil, or_false] at hr
    rcases hr with rfl | rfl
    · simp only [List.mem_cons, List.not_mem_nil, or_false] at hc
      rcases hc with rfl | rfl <;> decide
    · simp only [List.mem_cons, List.not_mem_nil, or_false] at hc
      rcases hc with rfl | rfl <;> decide
  · cases ht

example : ExtOK exExt := ⟨fun s => by simp [exExt], fun s h => h⟩

/-- …and the conclusion on the example, computed: front matter and TOC are skipped, the heading
comes out at `clamp (5 + 2) 1 (min 4 6) = 4`, the item at depth 1 as ordered, the table as its
2 × 3 grid with the pipe intact -/
example : (2, tocText) ∉ dHeadings (fun t => HF.shouldExcludeParagraph t [] [] false false)
    (fun l => headingLevel l exOpts.offset exOpts.max) exDocx := by decide

example : docxExpected (fun t => HF.shouldExcludeParagraph t [] [] false false)
    (fun l => headingLevel l exOpts.offset exOpts.max) exFmt exDocx
    = { headings := [(4, [72, 105])], items := [(1, true, [105, 116])],
        tables := [some [[[97, 124, 98], [], [99]], [[], [100], []]]], paras := [[98, 111, 100, 121]] } := by
  decide

end Tabula.C15Doc
