import TabulaModel.Props.C04Bytes
/-!
# C04 — classic cross-reference tables that are NOT well formed: no partial tables

`parseTraditionalXRef` either reads a section completely or fails; `reader.Open` then fails as
a whole (the section is on the `/Prev` chain), so no lookup is ever answered from half a table.

* `classic_entry_accepts_iff` — exactly which 18+-byte lines `parseEntry` accepts, and as what;
* `classic_table_bad_entry_is_error` — any number of well-formed subsections, then a subsection
  with some well-formed entries and one line `parseEntry` refuses: the section is refused,
  whatever follows;
* `classic_table_short_subsection_is_error` — a subsection that announces more entries than it
  has (the `trailer` line comes too early);
* `classic_table_without_trailer_is_error` — the lines end before `trailer`.
-/
namespace Tabula.C04M
open Tabula.XrefFile Tabula.XrefBytes Tabula.A1 Tabula.Pdf Tabula.C04B

/-- **classic_entry_accepts_iff** (every byte string): `parseEntry(line)` succeeds with
(offset, generation, in use) exactly when the line has at least 18 bytes, its first ten bytes
trimmed are a decimal int64 - the offset -, the next six trimmed are a decimal int64 - the
generation -, and bytes 16 and 17 trimmed are `n` or `f` -/
theorem classic_entry_accepts_iff (line : List Nat) (off gen : Int) (inUse : Bool) :
    parseEntryU line = some (off, gen, inUse) ↔
      18 ≤ line.length ∧ atoi (trimSpaceU (line.take 10)) = some off ∧
      atoi (trimSpaceU ((line.drop 10).take 6)) = some gen ∧
      trimSpaceU ((line.drop 16).take 2) = [if inUse then 110 else 102] := by
  unfold parseEntryU
  by_cases hl : line.length < 18
  · simp only [hl, if_true]
    constructor
    · intro h; cases h
    · intro h; omega
  · simp only [hl, if_false]
    cases ho : atoi (trimSpaceU (line.take 10)) with
    | none => simp
    | some o =>
      cases hg : atoi (trimSpaceU ((line.drop 10).take 6)) with
      | none => simp
      | some g =>
        simp only
        by_cases hn : trimSpaceU ((line.drop 16).take 2) = [110]
        · simp only [hn, if_true, Option.some.injEq, Prod.mk.injEq]
          constructor
          · rintro ⟨rfl, rfl, rfl⟩; exact ⟨by omega, rfl, rfl, rfl⟩
          · rintro ⟨_, h1, h2, h3⟩
            cases inUse with
            | true => exact ⟨h1, h2, rfl⟩
            | false => simp at h3
        · simp only [hn, if_false]
          by_cases hf : trimSpaceU ((line.drop 16).take 2) = [102]
          · simp only [hf, if_true, Option.some.injEq, Prod.mk.injEq]
            constructor
            · rintro ⟨rfl, rfl, rfl⟩; exact ⟨by omega, rfl, rfl, rfl⟩
            · rintro ⟨_, h1, h2, h3⟩
              cases inUse with
              | false => exact ⟨h1, h2, rfl⟩
              | true => simp at h3
          · simp only [hf, if_false]
            constructor
            · intro h; cases h
            · rintro ⟨_, _, _, h3⟩
              cases inUse with
              | true => exact absurd h3 hn
              | false => exact absurd h3 hf

/-- a line shorter than 18 bytes is no entry -/
theorem classic_entry_short_is_error (line : List Nat) (h : line.length < 18) : parseEntryU line = none := by
  unfold parseEntryU; simp only [h, if_true]

/-- the entries of a subsection that announces more than it has read so far -/
theorem classicLoop_entries_pending (tl : Bool) (ee : EntEol) (es : List CEnt) (hes : ∀ e ∈ es, e.Ok)
    (more : List (List Nat)) (p : Nat) :
    ∀ (num : Int) (acc : RawSection), 0 ≤ num → num + es.length < 9223372036854775808 →
      classicLoop tl (es.map (entryLine ee) ++ more) (es.length + p) num acc =
        classicLoop tl more p (num + es.length) (acc ++ numberFrom num (es.map CEnt.raw)) := by
  induction es with
  | nil =>
    intro num acc _ _
    simp [numberFrom]
  | cons e es ih =>
    intro num acc h0 hb
    simp only [List.length_cons] at hb
    have e1 : (e :: es).length + p = (es.length + p) + 1 := by simp only [List.length_cons]; omega
    rw [e1]
    simp only [List.map_cons, List.cons_append, classicLoop, parseEntryU_entryLine ee e (hes e (by simp))]
    rw [wrap64_id (num + 1) (by omega) (by omega),
      ih (fun x hx => hes x (by simp [hx])) (num + 1) _ (by omega) (by omega)]
    simp only [List.length_cons, numberFrom, CEnt.raw, List.map_cons, List.append_assoc, List.cons_append,
      List.nil_append]
    congr 1
    omega

/-- **classic_table_bad_entry_is_error** (no partial tables): the keyword `xref`, any
well-formed subsections, then a subsection whose header announces `es.length + 1 + extra`
entries, `es.length` well-formed ones, and a line `bad` that `parseEntry` refuses: the section
is an error, whatever lines follow (more entries, a perfect trailer, …) -/
theorem classic_table_bad_entry_is_error (tl : Bool) (ee : EntEol) (subs : List CSub) (hss : ∀ s ∈ subs, s.Ok)
    (first : Nat) (es pad : List CEnt) (hok : CSub.Ok (first, es ++ pad)) (hpad : pad ≠ [])
    (bad : List Nat) (hbad : parseEntryU bad = none) (more : List (List Nat)) :
    parseClassic (kwXref :: (subLines ee subs ++
      headerLine (first, es ++ pad) :: (es.map (entryLine ee) ++ bad :: more))) tl = .error .err := by
  simp only [parseClassic, trimSpaceU_kwXref, if_true]
  rw [classicLoop_subs tl ee subs hss, classicLoop_header tl (first, es ++ pad) hok]
  obtain ⟨q, hq⟩ : ∃ q, (es ++ pad).length = es.length + (q + 1) := by
    cases pad with
    | nil => exact absurd rfl hpad
    | cons a pad' => exact ⟨pad'.length, by simp only [List.length_append, List.length_cons]⟩
  simp only [hq]
  have hesok : ∀ e ∈ es, e.Ok := fun e he => hok.2 e (by simp [he])
  have hb := hok.1
  simp only [List.length_append] at hb
  rw [classicLoop_entries_pending tl ee es hesok _ (q + 1) (first : Int) _ (by omega) (by omega)]
  simp only [classicLoop, hbad]

/-- satisfiable: object numbers from 3, one good entry, then `trailer` where the second entry
should stand -/
example : CSub.Ok (3, [⟨17, 0, true⟩] ++ [⟨0, 0, false⟩]) ∧ parseEntryU kwTrailer = none := by
  refine ⟨⟨by decide, ?_⟩, by decide⟩
  intro e he
  simp at he
  rcases he with rfl | rfl <;> simp [CEnt.Ok]

/-- **classic_table_short_subsection_is_error**: a subsection that announces more entries than
stand in front of the `trailer` keyword makes the whole section an error (the `trailer` line is
read as an entry) - the entries that did parse are not used -/
theorem classic_table_short_subsection_is_error (tl : Bool) (ee : EntEol) (subs : List CSub)
    (hss : ∀ s ∈ subs, s.Ok) (first : Nat) (es pad : List CEnt) (hok : CSub.Ok (first, es ++ pad))
    (hpad : pad ≠ []) (more : List (List Nat)) :
    parseClassic (kwXref :: (subLines ee subs ++
      headerLine (first, es ++ pad) :: (es.map (entryLine ee) ++ kwTrailer :: more))) tl = .error .err :=
  classic_table_bad_entry_is_error tl ee subs hss first es pad hok hpad kwTrailer (by decide) more

/-- **classic_table_without_trailer_is_error**: well-formed subsections and then the end of
the data - no `trailer` keyword: an error (the table is not used without its trailer) -/
theorem classic_table_without_trailer_is_error (tl : Bool) (ee : EntEol) (subs : List CSub)
    (hss : ∀ s ∈ subs, s.Ok) : parseClassic (kwXref :: subLines ee subs) tl = .error .err := by
  simp only [parseClassic, trimSpaceU_kwXref, if_true]
  have := classicLoop_subs tl ee subs hss [] []
  simp only [List.append_nil, List.nil_append] at this
  rw [this]
  rfl

/-- a first line other than `xref` is no classic table -/
theorem classic_table_needs_keyword (tl : Bool) (l : List Nat) (ls : List (List Nat)) (h : trimSpaceU l ≠ kwXref) :
    parseClassic (l :: ls) tl = .error .err := by
  simp only [parseClassic, h, if_false]

end Tabula.C04M
