import TabulaModel.Lemmas.OverlapBytes
import TabulaModel.Lemmas.OverlapRunes
import TabulaModel.Props.C13Overlap
/-!
# C13, round 6, part 4 — the byte-index cuts of the overlap code on ARBITRARY bytes

`C13Overlap.overlap_suffix` / `overlap_utf8` are stated for valid UTF-8 chunks (the property's
"whenever the input is").  The two places of `rag/overlap.go` that cut by byte index —
`generateCharacterOverlap` and `tailAtRuneBoundary` — are proved here for EVERY byte string,
ill-formed UTF-8 included (an ill-formed byte counts as a character, as in
`C13Api.split_conserves_characters`): the cut never lies inside a well-formed character, so
the overlap carries a suffix of the chunk's non-whitespace characters.  (The sentence and
paragraph strategies and the sentence branch of `truncateOverlap` go through `[]rune`, which
re-encodes ill-formed bytes as U+FFFD; on ill-formed input they are compared by op `c13.gen`
only.)  Lemmas: `Lemmas/OverlapBytes.lean`.
-/
set_option linter.unusedVariables false
namespace Tabula.C13Bytes
open Tabula.Split Tabula.Overlap

/-- **character_overlap_any_bytes.** `generateCharacterOverlap` on any bytes, any `Size`, with
or without `PreserveWords`: the overlap's non-whitespace characters are a suffix of the
chunk's. -/
theorem character_overlap_any_bytes (c : OverlapConfig) (text : Str) :
    ∃ x, stripWs text = x ++ stripWs (generateCharacterOverlap c text) :=
  contentSuffix_charOverlap_any c text

/-- **tail_at_rune_boundary_any_bytes.** `tailAtRuneBoundary(s, n)` on any bytes: at most `n`
bytes, a suffix of `s` that starts at a position no well-formed character covers. -/
theorem tail_at_rune_boundary_any_bytes (s : Str) (n : Nat) :
    (tailAtRuneBoundary s n).length ≤ n ∨ tailAtRuneBoundary s n = s := by
  by_cases h : n ≥ s.length
  · right; unfold tailAtRuneBoundary; rw [if_pos h]
  · left; exact tailAtRuneBoundary_length_le s n

theorem tail_at_rune_boundary_content (s : Str) (n : Nat) :
    ∃ x, stripWs s = x ++ stripWs (tailAtRuneBoundary s n) :=
  tailAtRuneBoundary_any s n

/-- **overlap_suffix_any_bytes.** `GenerateOverlap` with the character strategy and
`Size ≤ MaxOverlap` (no truncation; the configuration `ChunkWithOverlapEnabled` derives for
character overlap), for EVERY byte string: the overlap has at most `Size` bytes and its
non-whitespace characters are a suffix of the chunk's.  This is `C13.overlap_suffix_partial`
at the level of characters instead of bytes, without the validity hypothesis of
`C13Overlap.overlap_suffix`. -/
theorem overlap_suffix_any_bytes (cl : Classes) (c : OverlapConfig) (text : Str)
    (hs : c.strategy = 1) (hle : c.size ≤ c.maxOverlap) :
    (generateOverlap cl c text).length ≤ c.size
      ∧ ∃ x, stripWs text = x ++ stripWs (generateOverlap cl c text) := by
  refine ⟨(Tabula.C13.overlap_bounds cl c text).2 hs hle, ?_⟩
  unfold generateOverlap
  split
  · exact ⟨stripWs text, by simp [stripWs_nil]⟩
  · have h1 := generateCharacterOverlap_length_le_size c text
    simp only [rawOverlap, hs, if_true]
    have : ¬ (1 = 2) := by decide
    simp only [this, false_and, and_false, if_false]
    unfold capOverlap
    split
    · omega
    · exact contentSuffix_charOverlap_any c text

/-- non-vacuity: a chunk that ends with a truncated character and a stray continuation byte;
the 6-byte overlap starts behind the space, not inside "日" -/
example :
    let c : OverlapConfig := { strategy := 1, size := 6, minOverlap := 0, maxOverlap := 18, preserveWords := false, includeHeadingContext := false }
    let text : Str := [97, 98, 0xE6, 0x97, 0xA5, 32, 0xE6, 0x97, 99, 0x80]
    validUtf8 text = false ∧ generateOverlap [] c text = [0xE6, 0x97, 99, 0x80]
      ∧ stripWs text = [97, 98, 0xE6, 0x97, 0xA5] ++ stripWs (generateOverlap [] c text) := by
  decide +kernel

/-- … and through `ApplyOverlapToChunks` with character overlap: any chunk bytes -/
theorem apply_character_overlap_any_bytes (cl : Classes) (c : OverlapConfig) (items : List (Str × Str))
    (hs : c.strategy = 1) (hle : c.size ≤ c.maxOverlap) (i : Nat) (prev own : Str × Str)
    (hp : items[i]? = some prev) (ho : items[i + 1]? = some own) :
    ∃ o, (applyOverlapAux cl c none items)[i + 1]? = some o
      ∧ o.pref.length ≤ c.size ∧ ∃ x, stripWs prev.1 = x ++ stripWs o.pref := by
  rw [applyOverlapAux_get, ho]
  simp only [Option.map_some, prevText, hp, overlapFrom]
  refine ⟨_, rfl, ?_⟩
  have hne : c.strategy ≠ 0 := by omega
  rw [if_pos hne]
  obtain ⟨h1, h2⟩ := overlap_suffix_any_bytes cl c prev.1 hs hle
  unfold outOf
  split
  · rename_i he
    rw [he] at h2
    exact ⟨Nat.zero_le _, h2⟩
  · exact ⟨h1, h2⟩

/-- **paragraph_overlap_any_bytes.** `splitIntoParagraphs` and `generateParagraphOverlap` work on
bytes (`strings.Split`, `strings.TrimSpace`, separators that are ASCII): for EVERY byte string
the paragraphs carry exactly its non-whitespace characters and the paragraph overlap carries a
suffix of them. -/
theorem paragraph_overlap_any_bytes (cl : Classes) (c : OverlapConfig) (text : Str) :
    (splitIntoParagraphs text).flatMap stripWs = stripWs text
      ∧ ∃ x, stripWs text = x ++ stripWs (generateParagraphOverlap cl c text).1 :=
  ⟨splitIntoParagraphs_content_any text, contentSuffix_paragraphOverlap_any cl c text⟩

/-- **overlap_untruncated_any_bytes.** `GenerateOverlap` with the character or the paragraph
strategy, when the selected overlap fits `MaxOverlap` (no truncation), for EVERY byte string:
the overlap's non-whitespace characters are a suffix of the chunk's.  What is left to the
correspondence on ill-formed input is exactly what goes through `[]rune`: the sentence
strategy (`sentence_overlap_any_bytes` says what it does) and `truncateOverlap`. -/
theorem overlap_untruncated_any_bytes (cl : Classes) (c : OverlapConfig) (text : Str)
    (hs : c.strategy = 1 ∨ c.strategy = 3) (hfit : (rawOverlap cl c text).1.length ≤ c.maxOverlap) :
    ∃ x, stripWs text = x ++ stripWs (generateOverlap cl c text) := by
  unfold generateOverlap
  split
  · exact ⟨stripWs text, by simp [stripWs_nil]⟩
  · simp only
    have hne : ¬ c.strategy = 2 := by omega
    rw [if_neg (by intro h; exact hne h.2.1)]
    unfold capOverlap
    rw [if_neg (by omega)]
    unfold rawOverlap
    rcases hs with h | h
    · rw [if_pos h]; exact contentSuffix_charOverlap_any c text
    · rw [if_neg (by omega), if_neg hne]; exact contentSuffix_paragraphOverlap_any cl c text

/-- non-vacuity: paragraph overlap of a text whose last paragraph holds a truncated character -/
example :
    let c : OverlapConfig := { strategy := 3, size := 1, minOverlap := 0, maxOverlap := 100, preserveWords := true, includeHeadingContext := false }
    let text : Str := [97, 10, 10, 98, 0xE6, 0x97, 32, 99, 10]
    validUtf8 text = false ∧ generateOverlap [] c text = [98, 0xE6, 0x97, 32, 99] := by
  decide +kernel

/-- **sentence_overlap_any_bytes.** `generateSentenceOverlap` on ANY bytes: the sentence splitter
works on `[]rune(text)`, so what it returns is always valid UTF-8, and its non-whitespace
characters are a suffix of those of `string([]rune(text))` — the text with every ill-formed
byte replaced by U+FFFD (the text itself when it is valid, `Codec.encode_decode`). -/
theorem sentence_overlap_any_bytes (cl : Classes) (c : OverlapConfig) (text : Str) :
    validUtf8 (generateSentenceOverlap cl c text).1 = true
      ∧ ∃ x, stripWs (encodeRunes (decodeRunes text)) = x ++ stripWs (generateSentenceOverlap cl c text).1 := by
  unfold generateSentenceOverlap
  simp only
  split
  · exact ⟨validUtf8_nil, stripWs (encodeRunes (decodeRunes text)), by simp [stripWs_nil]⟩
  · obtain ⟨hp, hval⟩ := splitIntoSentences_pieces cl text
    have := contentSuffix_join_drop (encodeRunes (decodeRunes text)) [32] wsOnly_space
      (splitIntoSentences cl text)
      ((splitIntoSentences cl text).length - min c.size (splitIntoSentences cl text).length)
      hval (hp.stripWs_eq hval)
    exact ⟨this.2, this.1⟩

example :
    let c : OverlapConfig := { strategy := 2, size := 1, minOverlap := 0, maxOverlap := 100, preserveWords := true, includeHeadingContext := false }
    (generateSentenceOverlap [] c [65, 98, 46, 32, 66, 0x80, 0xE6, 46]).1 = [66, 0xEF, 0xBF, 0xBD, 0xEF, 0xBF, 0xBD, 46] := by
  decide +kernel

/-! ## every strategy, every byte string -/

/-- `content` is the property's "non-whitespace characters" on valid UTF-8 -/
theorem content_of_valid (s : Str) (hv : validUtf8 s = true) : content s = stripWs s :=
  content_valid s hv

/-- … and in general those of `string([]rune(s))`, which is always valid UTF-8 -/
theorem content_is_stripWs_of_runes (s : Str) :
    content s = stripWs (encodeRunes (decodeRunes s)) ∧ validUtf8 (encodeRunes (decodeRunes s)) = true :=
  ⟨rfl, valid_san s⟩

/-- **overlap_suffix_all_bytes.** The overlap clause of C13 without the validity hypothesis: for
EVERY byte string, every strategy (character, sentence, paragraph), every size,
`MinOverlap`/`MaxOverlap` (truncation included) and every class table, the non-whitespace
characters of the overlap are a suffix of those of the chunk — characters read as Go's `range`
reads a string (an ill-formed byte is U+FFFD).  `C13Overlap.overlap_suffix` is the special case of
valid text (`content_of_valid`). -/
theorem overlap_suffix_all_bytes (cl : Classes) (c : OverlapConfig) (text : Str) :
    ∃ x, content text = x ++ content (generateOverlap cl c text) :=
  generateOverlap_any cl c text

/-- … and through `ApplyOverlapToChunks`, for every list of chunks of any bytes -/
theorem apply_overlap_all_bytes (cl : Classes) (c : OverlapConfig) (items : List (Str × Str))
    (i : Nat) (prev own : Str × Str) (hp : items[i]? = some prev) (ho : items[i + 1]? = some own) :
    ∃ o x, (applyOverlapAux cl c none items)[i + 1]? = some o
      ∧ o.pref.length ≤ c.maxOverlap ∧ content prev.1 = x ++ content o.pref := by
  rw [applyOverlapAux_get, ho]
  simp only [Option.map_some, prevText, hp, overlapFrom]
  have key : (if c.strategy ≠ 0 then generateOverlap cl c prev.1 else []).length ≤ c.maxOverlap
      ∧ ∃ x, content prev.1 = x ++ content (if c.strategy ≠ 0 then generateOverlap cl c prev.1 else []) := by
    split
    · exact ⟨generateOverlap_length_le cl c _, overlap_suffix_all_bytes cl c prev.1⟩
    · exact ⟨Nat.zero_le _, content prev.1, by simp [content_nil]⟩
  generalize (if c.strategy ≠ 0 then generateOverlap cl c prev.1 else []) = ov at key
  obtain ⟨k1, x, k2⟩ := key
  refine ⟨_, x, rfl, ?_⟩
  unfold outOf
  split
  · rename_i he
    subst he
    exact ⟨Nat.zero_le _, k2⟩
  · exact ⟨k1, k2⟩

/-- non-vacuity: sentence overlap of a chunk with a stray continuation byte and a truncated
character: they come back as U+FFFD, and the content is still a suffix -/
example :
    let c : OverlapConfig := { strategy := 2, size := 1, minOverlap := 0, maxOverlap := 100, preserveWords := true, includeHeadingContext := false }
    let text : Str := [65, 98, 46, 32, 66, 0x80, 32, 0xE6, 46]
    content text = [65, 98, 46, 66, 0xEF, 0xBF, 0xBD, 0xEF, 0xBF, 0xBD, 46]
      ∧ content (generateOverlap [] c text) = [66, 0xEF, 0xBF, 0xBD, 0xEF, 0xBF, 0xBD, 46] := by
  decide +kernel

end Tabula.C13Bytes
