import TabulaModel.Props.C02
/-!
# C02 — the three guards of `Model/Bounds.lean` characterised exactly

`Props/C02.lean` proves that an *accepted* cross-reference stream layout, an *accepted*
worksheet grid and the page-tree walk are in bounds (one direction each).  This file proves
the other halves and the laws the property relies on:

* `/W`: accepted exactly for three widths in 0..8 with a positive sum; the entry width is at
  most 24 bytes (`checkW_iff`, `entry_width_le`);
* `/Index`: accepted exactly when it consists of pairs of non-negative numbers whose announced
  entries fit (`checkIndex_iff`); hence the whole layout check accepts **exactly** the streams
  whose announced entries lie inside the decoded data (`xref_stream_accepted_iff`) — the guard
  refuses nothing it could have served —, every entry slice is in range
  (`xref_entry_slice_in_bounds`), and cutting the data can only turn acceptance into refusal,
  never change the layout (`xref_stream_data_monotone`);
* grid: allocated exactly when the cells fit the budget (`grid_accepted_iff`), monotone in
  the sheet size and in the budget already used (`grid_smaller_accepted`,
  `grid_less_used_accepted`);
* page tree: the answer of the walk does not depend on the fuel of the model
  (`trun_fuel_mono`, `loadPages_fuel_irrelevant`), and the page list it returns on **every**
  graph has no object twice, consists of page objects of the file, and is no longer than the
  number of objects (`page_list_sound`).
-/
namespace Tabula.C02More
open Tabula.Bounds

/-! ### `/W` -/

theorem checkW_iff (w : List Int) (ew : Nat) :
    checkW w = some ew ↔
      ∃ a b c : Int, w = [a, b, c] ∧ 0 ≤ a ∧ a ≤ 8 ∧ 0 ≤ b ∧ b ≤ 8 ∧ 0 ≤ c ∧ c ≤ 8 ∧
        ew = a.toNat + b.toNat + c.toNat ∧ 0 < ew := by
  constructor
  · intro h
    rcases w with _ | ⟨a, _ | ⟨b, _ | ⟨c, _ | ⟨d, t⟩⟩⟩⟩
    · simp [checkW] at h
    · simp [checkW] at h
    · simp [checkW] at h
    · refine ⟨a, b, c, rfl, ?_⟩
      simp [checkW] at h
      omega
    · simp [checkW] at h
  · rintro ⟨a, b, c, rfl, ha0, ha8, hb0, hb8, hc0, hc8, he, hpos⟩
    simp [checkW]
    omega

/-- the entry width of an accepted cross-reference stream is at most 24 bytes -/
theorem entry_width_le (w : List Int) (ew : Nat) (h : checkW w = some ew) : ew ≤ 24 := by
  obtain ⟨a, b, c, -, ha0, ha8, hb0, hb8, hc0, hc8, he, -⟩ := (checkW_iff w ew).mp h
  omega

example : checkW [8, 8, 8] = some 24 := by decide

/-! ### `/Index` -/

/-- the number of entries an `/Index` array announces: the sum of its counts -/
def announced : List Int → Nat
  | _ :: count :: rest => count.toNat + announced rest
  | _ => 0

/-- **checkIndex_iff**: the `/Index` loop accepts exactly the arrays made of pairs of
non-negative numbers whose announced entries, added to those already counted, fit the
capacity; the count it returns is the announced one. -/
theorem checkIndex_iff (cap : Nat) (index : List Int) (total n : Nat) (ht : total ≤ cap) :
    checkIndex cap index total = some n ↔
      (index.length % 2 = 0 ∧ (∀ x ∈ index, 0 ≤ x) ∧ total + announced index ≤ cap ∧
        n = total + announced index) := by
  fun_induction checkIndex cap index total generalizing n with
  | case1 total =>
    constructor
    · intro h
      simp at h
      simp [announced]
      omega
    · rintro ⟨-, -, -, h⟩
      simp [announced] at h
      simp
      omega
  | case2 a total => simp
  | case3 first count rest total hneg =>
    constructor
    · intro h; simp at h
    · rintro ⟨-, hnn, -, -⟩
      have h1 := hnn first (by simp)
      have h2 := hnn count (by simp)
      simp at hneg
      omega
  | case4 first count rest total hneg hbig =>
    constructor
    · intro h; simp at h
    · rintro ⟨-, -, hfit, -⟩
      simp [announced] at hfit
      omega
  | case5 first count rest total hneg hbig ih =>
    have hle : total + count.toNat ≤ cap := by omega
    rw [ih n hle]
    simp at hneg
    constructor
    · rintro ⟨hl, hnn, hfit, hn⟩
      refine ⟨?_, ?_, ?_, ?_⟩
      · simp only [List.length_cons]; omega
      · intro x hx
        rcases List.mem_cons.mp hx with rfl | hx
        · omega
        · rcases List.mem_cons.mp hx with rfl | hx
          · omega
          · exact hnn x hx
      · simp only [announced]; omega
      · simp only [announced]; omega
    · rintro ⟨hl, hnn, hfit, hn⟩
      simp only [announced] at hfit hn
      simp only [List.length_cons] at hl
      refine ⟨by omega, fun x hx => hnn x (by simp [hx]), by omega, by omega⟩

/-- a larger capacity accepts everything a smaller one accepts, with the same count -/
theorem checkIndex_cap_monotone (cap cap' : Nat) (index : List Int) (n : Nat) (hc : cap ≤ cap')
    (h : checkIndex cap index 0 = some n) : checkIndex cap' index 0 = some n := by
  obtain ⟨h1, h2, h3, h4⟩ := (checkIndex_iff cap index 0 n (Nat.zero_le _)).mp h
  exact (checkIndex_iff cap' index 0 n (Nat.zero_le _)).mpr ⟨h1, h2, by omega, h4⟩

example : checkIndex 5 [0, 3, 7, 2] 0 = some 5 := by decide

/-- **xref_stream_accepted_iff**: the layout check of a cross-reference stream accepts exactly
when `/W` is three widths in 0..8 with positive sum `ew`, `/Index` is pairs of non-negative
numbers, and the entries it announces, `ew` bytes each, lie inside the decoded data.  So the
guard is complete as well as sound: no stream whose entries are all present is refused. -/
theorem xref_stream_accepted_iff (w index : List Int) (dataLen ew n : Nat) :
    checkXRefStream w index dataLen = some (ew, n) ↔
      (checkW w = some ew ∧ index.length % 2 = 0 ∧ (∀ x ∈ index, 0 ≤ x) ∧
        announced index * ew ≤ dataLen ∧ n = announced index) := by
  unfold checkXRefStream
  cases hw : checkW w with
  | none => simp
  | some ew' =>
    have hpos : 0 < ew' := Tabula.C02.checkW_pos w ew' hw
    simp only []
    cases hi : checkIndex (dataLen / ew') index 0 with
    | none =>
      constructor
      · intro h; simp at h
      · rintro ⟨he, h1, h2, h3, h4⟩
        simp at he
        subst he
        have := (checkIndex_iff (dataLen / ew') index 0 n (Nat.zero_le _)).mpr
          ⟨h1, h2, by rw [Nat.zero_add]; exact (Nat.le_div_iff_mul_le hpos).mpr h3, by omega⟩
        rw [hi] at this
        cases this
    | some n' =>
      obtain ⟨h1, h2, h3, h4⟩ := (checkIndex_iff (dataLen / ew') index 0 n' (Nat.zero_le _)).mp hi
      rw [Nat.zero_add] at h3 h4
      have h3' := (Nat.le_div_iff_mul_le hpos).mp h3
      constructor
      · intro h
        simp only [Option.some.injEq, Prod.mk.injEq] at h
        obtain ⟨rfl, rfl⟩ := h
        exact ⟨rfl, h1, h2, h3', h4⟩
      · rintro ⟨he, -, -, -, hn⟩
        simp at he
        subst he
        rw [hn, ← h4]

/-- every entry slice `data[j*ew : (j+1)*ew]`, `j < n`, of an accepted stream is in range -/
theorem xref_entry_slice_in_bounds (w index : List Int) (dataLen ew n j : Nat)
    (h : checkXRefStream w index dataLen = some (ew, n)) (hj : j < n) :
    j * ew + ew ≤ dataLen := by
  have hb := (Tabula.C02.xref_stream_in_bounds w index dataLen ew n h).2.1
  have : (j + 1) * ew ≤ n * ew := Nat.mul_le_mul_right _ hj
  rw [Nat.add_mul, Nat.one_mul] at this
  omega

/-- more decoded data never turns acceptance into refusal and never changes the layout; read
backwards: truncating the data of a stream either keeps the answer or makes it an error -/
theorem xref_stream_data_monotone (w index : List Int) (dataLen dataLen' ew n : Nat)
    (hd : dataLen ≤ dataLen') (h : checkXRefStream w index dataLen = some (ew, n)) :
    checkXRefStream w index dataLen' = some (ew, n) := by
  obtain ⟨h0, h1, h2, h3, h4⟩ := (xref_stream_accepted_iff w index dataLen ew n).mp h
  exact (xref_stream_accepted_iff w index dataLen' ew n).mpr ⟨h0, h1, h2, by omega, h4⟩

example : checkXRefStream [1, 4, 2] [0, 3, 7, 2] 35 = some (7, 5) := by decide
example : checkXRefStream [1, 4, 2] [0, 3, 7, 2] 34 = none := by decide

/-! ### worksheet grid -/

/-- **grid_accepted_iff**: a grid is allocated exactly when its cells fit what is left of the
workbook's budget plus 16 per cell element of the part (`grid_bounded` is one half) -/
theorem grid_accepted_iff (used elems maxRow maxCol : Nat) :
    gridAcceptedE used elems maxRow maxCol = true ↔
      maxRow * (maxCol + 1) ≤ maxGridCells - used + gridCellsPerElement * elems := by
  constructor
  · exact Tabula.C02.grid_bounded used elems maxRow maxCol
  · intro h
    unfold gridAcceptedE
    by_cases hr : maxRow > 0
    · simp only [hr, decide_true, Bool.true_and, Bool.not_eq_true', decide_eq_false_iff_not, Nat.not_lt]
      apply (Nat.le_div_iff_mul_le hr).mpr
      rw [Nat.mul_comm]
      exact h
    · have : maxRow = 0 := by omega
      subst this; simp

/-- a sheet no larger in either direction than an allocated one is allocated -/
theorem grid_smaller_accepted (used elems maxRow maxCol maxRow' maxCol' : Nat)
    (hr : maxRow' ≤ maxRow) (hc : maxCol' ≤ maxCol)
    (h : gridAcceptedE used elems maxRow maxCol = true) :
    gridAcceptedE used elems maxRow' maxCol' = true := by
  rw [grid_accepted_iff] at h ⊢
  have : maxRow' * (maxCol' + 1) ≤ maxRow * (maxCol + 1) := Nat.mul_le_mul hr (by omega)
  omega

/-- the less of the workbook's budget is taken (and the more cell elements the part has),
the more is allocated: the order of the sheets can only matter through `used` -/
theorem grid_less_used_accepted (used used' elems elems' maxRow maxCol : Nat)
    (hu : used ≤ used') (he : elems' ≤ elems)
    (h : gridAcceptedE used' elems' maxRow maxCol = true) :
    gridAcceptedE used elems maxRow maxCol = true := by
  rw [grid_accepted_iff] at h ⊢
  have : gridCellsPerElement * elems' ≤ gridCellsPerElement * elems := Nat.mul_le_mul_left _ he
  omega

example : gridAcceptedE 10 1 1048576 7 = true := by decide
example : gridAcceptedE 100 1 1048576 7 = false := by decide

/-! ### page-tree walk: fuel and the returned page list -/

/-- more fuel never changes an answer -/
theorem trun_fuel_mono (g : Graph) (fuel k : Nat) (s : TState) (r : Option (List Nat))
    (h : trun g fuel s = some r) : trun g (fuel + k) s = some r := by
  induction fuel generalizing s with
  | zero => simp [trun] at h
  | succ fuel ih =>
    have e : fuel + 1 + k = (fuel + k) + 1 := by omega
    rw [e]
    unfold trun at h ⊢
    cases hs : tstep g s with
    | done l => simpa [hs] using h
    | error => simpa [hs] using h
    | running s' =>
      simp only [hs] at h ⊢
      exact ih s' h

/-- **loadPages_fuel_irrelevant**: the fuel of the model (objects + 2) is not part of the
specification: with any fuel at least that large the walk gives the same answer -/
theorem loadPages_fuel_irrelevant (g : Graph) (kids : List Nat) (fuel : Nat)
    (hf : g.length + 2 ≤ fuel) :
    trun g fuel { stack := kids, visited := [], out := [] } = loadPages g kids := by
  cases hl : loadPages g kids with
  | none => exact absurd hl (Tabula.C02.traversal_terminates g kids)
  | some r =>
    unfold loadPages at hl
    have := trun_fuel_mono g (g.length + 2) (fuel - (g.length + 2)) _ r hl
    have e : g.length + 2 + (fuel - (g.length + 2)) = fuel := by omega
    rw [e] at this
    exact this

/-- what the walk keeps true: nothing visited twice, nothing output twice, every output
visited, every output a page object -/
structure WalkInv (g : Graph) (s : TState) : Prop where
  vnd : s.visited.Nodup
  ond : s.out.Nodup
  sub : ∀ x ∈ s.out, x ∈ s.visited
  pg : ∀ x ∈ s.out, g.get x = some .page

theorem tstep_inv (g : Graph) (s s' : TState) (hs : tstep g s = .running s') (hi : WalkInv g s) :
    WalkInv g s' := by
  unfold tstep at hs
  cases hst : s.stack with
  | nil => simp [hst] at hs
  | cons n rest =>
    simp only [hst] at hs
    by_cases hnv : n ∈ s.visited
    · simp [hnv] at hs
    · simp only [List.contains_eq_mem, hnv, decide_false, Bool.false_eq_true, if_false] at hs
      cases hg : g.get n with
      | none => simp [hg] at hs
      | some nd =>
        cases nd with
        | page =>
          simp [hg] at hs
          subst hs
          refine ⟨List.nodup_cons.mpr ⟨hnv, hi.vnd⟩,
                  List.nodup_cons.mpr ⟨fun h => hnv (hi.sub n h), hi.ond⟩, ?_, ?_⟩
          · intro x hx
            rcases List.mem_cons.mp hx with rfl | hx
            · exact List.mem_cons_self
            · exact List.mem_cons_of_mem _ (hi.sub x hx)
          · intro x hx
            rcases List.mem_cons.mp hx with rfl | hx
            · exact hg
            · exact hi.pg x hx
        | pages kids =>
          simp [hg] at hs
          subst hs
          exact ⟨List.nodup_cons.mpr ⟨hnv, hi.vnd⟩, hi.ond,
                 fun x hx => List.mem_cons_of_mem _ (hi.sub x hx), hi.pg⟩

theorem tstep_done (g : Graph) (s : TState) (l : List Nat) (h : tstep g s = .done l) :
    l = s.out.reverse := by
  unfold tstep at h
  split at h
  · simp at h; exact h.symm
  · split at h
    · cases h
    · split at h <;> cases h

theorem trun_inv (g : Graph) (fuel : Nat) (s : TState) (ls : List Nat)
    (h : trun g fuel s = some (some ls)) (hi : WalkInv g s) :
    ls.Nodup ∧ ∀ x ∈ ls, g.get x = some .page := by
  induction fuel generalizing s with
  | zero => simp [trun] at h
  | succ fuel ih =>
    unfold trun at h
    cases hs : tstep g s with
    | done l =>
      simp [hs] at h
      subst h
      rw [tstep_done g s l hs]
      exact ⟨(List.reverse_perm s.out).nodup_iff.mpr hi.ond, fun x hx => hi.pg x (List.mem_reverse.mp hx)⟩
    | error => simp [hs] at h
    | running s' =>
      simp only [hs] at h
      exact ih s' h (tstep_inv g s s' hs hi)

/-- **page_list_sound**: on every object graph — cyclic, shared, dangling — a page list
returned by the walk names no object twice, names only page objects present in the file, and
is no longer than the number of objects: the page table built from it is linear in the file
whatever `/Count` and `/Kids` say. -/
theorem page_list_sound (g : Graph) (kids ls : List Nat) (h : loadPages g kids = some (some ls)) :
    ls.Nodup ∧ (∀ x ∈ ls, g.get x = some .page) ∧ ls.length ≤ g.length := by
  unfold loadPages at h
  have hi0 : WalkInv g { stack := kids, visited := [], out := [] } :=
    { vnd := List.nodup_nil, ond := List.nodup_nil,
      sub := fun x hx => by simp at hx, pg := fun x hx => by simp at hx }
  obtain ⟨hnd, hpg⟩ := trun_inv g _ _ ls h hi0
  refine ⟨hnd, hpg, ?_⟩
  have hsub : ls ⊆ g.map Prod.fst := fun x hx => Tabula.C02.get_mem_keys g x _ (hpg x hx)
  have := List.Nodup.length_le_of_subset hnd hsub
  simpa using this

/-- non-vacuity: a shared leaf is an error, a proper tree gives its leaves -/
example : loadPages [(1, .pages [2, 2]), (2, .page)] [1] = some none := by decide
example : loadPages [(1, .pages [2, 5]), (2, .pages [3, 4]), (3, .page), (4, .page), (5, .page)] [1]
    = some (some [3, 4, 5]) := by decide
example : trun [(1, .pages [2]), (2, .page)] 3 { stack := [1], visited := [], out := [] }
    = some (some [2]) := by decide

end Tabula.C02More
