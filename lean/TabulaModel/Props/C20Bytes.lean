import TabulaModel.Props.C20Api
import TabulaModel.Props.C20Enc
import TabulaModel.Lemmas.DetectBytes
/-!
# C20, byte-exact — names, file fronts, mimetype members and cipher references as BYTES

`Model/Detect.lean` and `Model/Drm.lean` restrict `strings.ToLower`, `strings.ToUpper` and
`strings.TrimSpace` to ASCII; their theorems are about every input of THAT model, and the
model is the code only on ASCII input.  `Model/DetectBytes.lean` models the three functions
on arbitrary byte strings (ill-formed UTF-8, non-ASCII letters and white space).  The
theorems here are for every byte string and every pair of case tables with the one
property `UpperOK` / `LowerOK` (which the harness checks on all of `unicode`'s runes):

* where the byte-exact function IS the ASCII model, whatever the bytes (`format.Detect`,
  the three prefix tests of `detectHTMLMagic`, `isContentFile`, the DRM gate);
* where it is not, exactly how it differs (the 500-byte window of the `<?xml` branch is cut
  from the upper-cased text; `TrimSpace` strips Unicode white space), with witnesses;
* the end-to-end statements of `Props/C20Api.lean` again, on the bytes, through a proved
  simulation (`admit_bytes_simulation`).
-/
set_option autoImplicit false
namespace Tabula.C20B
open Tabula.Detect Tabula.Drm Tabula.Admit Tabula.EncXml Tabula.DetectB Tabula.C20 Tabula.C20A Tabula.C20E

/-! ## the case tables -/

/-- `unicode.ToUpper` outside ASCII as far as ASCII results go: U+0131 → `I`, U+017F → `S`
(every other rune to itself here; the harness sends the real pairs) -/
def exUpper : CaseTable := fun r => if r = 0x131 then 73 else if r = 0x17F then 83 else r
/-- `unicode.ToLower`: U+0130 → `i`, U+212A (Kelvin sign) → `k` -/
def exLower : CaseTable := fun r => if r = 0x130 then 105 else if r = 0x212A then 107 else r

theorem exUpper_ok : UpperOK exUpper := by
  intro r hr; unfold exUpper; split
  · exact Or.inr (Or.inl rfl)
  · split
    · exact Or.inr (Or.inr rfl)
    · exact Or.inl hr

theorem exLower_ok : LowerOK exLower := by
  intro r hr; unfold exLower; split
  · exact Or.inr (Or.inl rfl)
  · split
    · exact Or.inr (Or.inr rfl)
    · exact Or.inl hr

/-! ## file names -/

/-- `ext_table_all_bytes`: `format.Detect` on ANY byte string — non-ASCII letters, ill-formed
UTF-8, runes whose lower case is an ASCII letter — is the ASCII table look-up of
`Model/Detect.lean`: every theorem about `detect` is a theorem about the code's `Detect`. -/
theorem ext_table_all_bytes (lo : CaseTable) (h : LowerOK lo) (name : Str) : detectB lo name = detect name :=
  detectB_eq h name

/-- … in particular the extension table, for every stem of bytes -/
theorem ext_table_bytes (lo : CaseTable) (h : LowerOK lo) (p : Str × Format) (hp : p ∈ extPairs)
    (stem e : Str) (he : lower e = p.1) : detectB lo (stem ++ e) = p.2 := by
  rw [detectB_eq h]; exact ext_table p hp stem e he

/-- a stem with an ill-formed byte, a Kelvin sign and a dotted capital I -/
example : detectB exLower ([0xFF, 0xE2, 0x84, 0xAA, 0xC4, 0xB0] ++ [46, 80, 100, 70]) = .pdf := by decide

/-- … and nothing else asks for a format: an extension with a non-ASCII byte never does -/
theorem ext_table_bytes_only (lo : CaseTable) (h : LowerOK lo) (name : Str) (f : Format)
    (hd : detectB lo name = f) (hf : f ≠ .unknown) : (lower (ext name), f) ∈ extPairs := by
  rw [detectB_eq h] at hd
  exact ext_table_only name f hd hf

/-- `".pd"` + U+017F would be `.pds` in upper case; in lower case it is no extension of the table -/
example : detectB exLower [97, 46, 112, 100, 0xC5, 0xBF] = .unknown := by decide

/-! ## the front of the file -/

/-- `html_front_all_bytes`: `detectHTMLMagic` on ANY bytes.  Leading white space is skipped
byte-wise; the DOCTYPE test, the `<HTML` test and the `<?XML` test are those of the ASCII
model on the byte-wise upper-cased text, whatever follows the pattern; only the window of
the `<?XML` branch is cut from what `strings.ToUpper` really returns, where an ill-formed
byte takes three bytes and a letter may change its length. -/
theorem html_front_all_bytes (up : CaseTable) (h : UpperOK up) (data : Str) :
    detectHTMLMagicB up data =
      (let d := data.dropWhile isMagicWS
       if d.isEmpty then false
       else if isHTMLDoctype (upper d) then true
       else if sHtmlTag.isPrefixOf (upper d) then true
       else if sXmlDecl.isPrefixOf (upper d) && hasSub sHtmlTag ((goUpper up d).take 500) then true
       else false) :=
  detectHTMLMagicB_eq h data

/-- where the first 500 bytes behind the leading white space are ASCII, the code is the
ASCII model -/
theorem html_front_ascii_window (up : CaseTable) (h : UpperOK up) (data : Str)
    (ha : ∀ c ∈ (data.dropWhile isMagicWS).take 500, c < 128) :
    detectHTMLMagicB up data = detectHTMLMagic data :=
  detectHTMLMagicB_ascii h data ha

example : ∀ c ∈ (([32, 10] ++ sHtmlTag : Str).dropWhile isMagicWS).take 500, c < 128 := by decide

/-- `<?xml`, `n` ill-formed bytes, `<html` -/
def exPadded (pad : Str) : Str := [60, 63, 120, 109, 108] ++ pad ++ [60, 104, 116, 109, 108]

/-- the window is NOT the ASCII model's on other bytes, in both directions: 165 ill-formed
bytes become 495 and push `<html` out of the window; 250 U+017F (two bytes each) become 250
`S` and pull a tag at byte offset 505 into it -/
theorem html_window_differs_from_ascii_model :
    (detectHTMLMagic (exPadded (List.replicate 165 0xFF)) = true ∧
      detectHTMLMagicB exUpper (exPadded (List.replicate 165 0xFF)) = false) ∧
    (detectHTMLMagic (exPadded ((List.replicate 250 [0xC5, 0xBF]).flatten)) = false ∧
      detectHTMLMagicB exUpper (exPadded ((List.replicate 250 [0xC5, 0xBF]).flatten)) = true) := by
  decide +kernel

/-- an ASCII front the ASCII model accepts is accepted whatever bytes follow it -/
theorem html_front_decides (up : CaseTable) (h : UpperOK up) (a t : Str) (ha : ∀ c ∈ a, c < 128)
    (hm : detectHTMLMagic a = true) : detectHTMLMagicB up (a ++ t) = true :=
  detectHTMLMagicB_mono h a t ha hm

/-- `<!DOCTYPE html>` followed by a title in UTF-8 and an ill-formed byte -/
example : detectHTMLMagicB exUpper ([60, 33, 100, 111, 99, 116, 121, 112, 101, 32, 104, 116, 109, 108, 62] ++
    [0xC3, 0xBC, 0xFF, 60, 112, 62]) = true := by decide

/-- `html_needs_lt`: nothing is HTML for the sniffer unless its first byte after HTML white
space is `<` — whatever the case tables do -/
theorem html_needs_lt (up : CaseTable) (h : UpperOK up) (data : Str) (hm : detectHTMLMagicB up data = true) :
    ∃ ws rest, data = ws ++ 60 :: rest ∧ ∀ c ∈ ws, isMagicWS c = true := by
  rw [detectHTMLMagicB_eq h] at hm
  obtain ⟨ws, hsplit, hws⟩ := split_ws data
  cases hd : data.dropWhile isMagicWS with
  | nil => simp [hd] at hm
  | cons c rest =>
    have hc : c = 60 := by
      apply upperB_eq_lt
      simp only [hd, List.isEmpty_cons, Bool.false_eq_true, if_false] at hm
      have hu : upper (c :: rest) = upperB c :: upper rest := rfl
      rw [hu] at hm
      by_cases h1 : isHTMLDoctype (upperB c :: upper rest) = true
      · unfold isHTMLDoctype at h1
        simp only [Bool.and_eq_true] at h1
        have := h1.1
        simp only [sDoctype, List.isPrefixOf, Bool.and_eq_true, beq_iff_eq] at this
        exact this.1.symm
      · by_cases h2 : sHtmlTag.isPrefixOf (upperB c :: upper rest) = true
        · simp only [sHtmlTag, List.isPrefixOf, Bool.and_eq_true, beq_iff_eq] at h2
          exact h2.1.symm
        · simp only [h1, h2, Bool.false_eq_true, if_false] at hm
          by_cases h3 : sXmlDecl.isPrefixOf (upperB c :: upper rest) = true
          · simp only [sXmlDecl, List.isPrefixOf, Bool.and_eq_true, beq_iff_eq] at h3
            exact h3.1.symm
          · simp [h3] at hm
    rw [hd, hc] at hsplit
    exact ⟨ws, rest, hsplit, hws⟩

/-! ## `DetectFromReader`, byte-exact -/

theorem zip_detect_bytes_range (ms : List Member) : detectZipB ms ≠ .pdf ∧ detectZipB ms ≠ .html := by
  rw [detectZipB_eq]; exact zip_detect_range _

/-- `detect_bytes_exact`: what each answer of `DetectFromReader` means, on the bytes: PDF iff
the file starts `%PDF`; for a file that starts with a local header the archive's answer or
an error; HTML iff neither and `detectHTMLMagic` accepts the first 512 bytes -/
theorem detect_bytes_exact (up : CaseTable) (file : Str) (zip : Option (List Member)) :
    (detectFromReaderB up file zip = some .pdf ↔ sPdfMagic.isPrefixOf (file.take 512) = true) ∧
    (sPdfMagic.isPrefixOf (file.take 512) = false → sZipMagic.isPrefixOf (file.take 512) = true →
      detectFromReaderB up file zip = zip.map detectZipB) ∧
    (detectFromReaderB up file zip = some .html ↔
      sPdfMagic.isPrefixOf (file.take 512) = false ∧ sZipMagic.isPrefixOf (file.take 512) = false ∧
        detectHTMLMagicB up (file.take 512) = true) ∧
    (detectFromReaderB up file zip = none ↔
      sPdfMagic.isPrefixOf (file.take 512) = false ∧ sZipMagic.isPrefixOf (file.take 512) = true ∧ zip = none) := by
  unfold detectFromReaderB
  by_cases hp : sPdfMagic.isPrefixOf (file.take 512) = true
  · simp [hp]
  · have hp' : sPdfMagic.isPrefixOf (file.take 512) = false := Bool.eq_false_iff.2 hp
    by_cases hz : sZipMagic.isPrefixOf (file.take 512) = true
    · simp only [hp', hz, Bool.false_eq_true, if_false, if_true]
      cases zip with
      | none => simp
      | some ms =>
        have := zip_detect_bytes_range ms
        refine ⟨?_, ?_, ?_, ?_⟩
        · simp only [Option.some.injEq, iff_false]; exact this.1
        · intro _ _; rfl
        · simp only [Option.some.injEq, Bool.true_eq_false, false_and, and_false, iff_false]; exact this.2
        · simp
    · have hz' : sZipMagic.isPrefixOf (file.take 512) = false := Bool.eq_false_iff.2 hz
      simp only [hp', hz', Bool.false_eq_true, if_false]
      cases detectHTMLMagicB up (file.take 512) <;> simp

/-- `detect_bytes_bom_unclassified`: a file that starts with a UTF-8 byte-order mark is
never classified — not as HTML either, whatever follows (admitted by extension only) -/
theorem detect_bytes_bom_unclassified (up : CaseTable) (h : UpperOK up) (rest : Str) (zip : Option (List Member)) :
    detectFromReaderB up (0xEF :: 0xBB :: 0xBF :: rest) zip = some .unknown := by
  have hm : detectHTMLMagicB up ((0xEF :: 0xBB :: 0xBF :: rest).take 512) = false := by
    cases hb : detectHTMLMagicB up ((0xEF :: 0xBB :: 0xBF :: rest).take 512) with
    | false => rfl
    | true =>
      exfalso
      obtain ⟨ws, r, he, hws⟩ := html_needs_lt up h _ hb
      cases ws with
      | nil => simp at he
      | cons w ws =>
        have hw := hws w List.mem_cons_self
        have : w = 0xEF := by
          have := congrArg List.head? he
          simpa using this.symm
        rw [this] at hw
        exact absurd hw (by decide)
  unfold detectFromReaderB
  simp only [hm]
  rfl

/-- … and so is a file that starts with a comment, `<!-`: the DOCTYPE behind it is not looked for -/
theorem detect_bytes_comment_first_unclassified (up : CaseTable) (h : UpperOK up) (rest : Str)
    (zip : Option (List Member)) : detectFromReaderB up (60 :: 33 :: 45 :: rest) zip = some .unknown := by
  have hm : detectHTMLMagicB up ((60 :: 33 :: 45 :: rest).take 512) = false := by
    rw [detectHTMLMagicB_eq h]
    simp [isMagicWS, upper, upperB, isHTMLDoctype, sDoctype, sHtmlTag, sXmlDecl, List.isPrefixOf]
  unfold detectFromReaderB
  simp only [hm]
  rfl

/-- the byte-exact sniffer is the ASCII model wherever the sniffed window is ASCII and the
mimetype members are ASCII -/
theorem detect_bytes_agrees_on_ascii (up : CaseTable) (h : UpperOK up) (file : Str) (zip : Option (List Member))
    (hf : ∀ c ∈ file.take 512, c < 128)
    (hz : ∀ ms, zip = some ms → ∀ m ∈ ms, ∀ d, m.data = some d → ∀ c ∈ d.take 256, c < 128) :
    detectFromReaderB up file zip = detectFromReader file zip := by
  unfold detectFromReaderB detectFromReader
  have h1 : detectHTMLMagicB up (file.take 512) = detectHTMLMagic (file.take 512) := by
    apply detectHTMLMagicB_ascii h
    intro c hc
    exact hf c ((List.dropWhile_sublist _).subset (List.mem_of_mem_take hc))
  have h2 : ∀ ms, zip = some ms → detectZipB ms = detectZip ms := by
    intro ms hms
    have hm : ∀ m ∈ ms, mimeVerdictB m = mimeVerdict m := fun m hmem => mimeVerdictB_ascii m (hz ms hms m hmem)
    have hfm : ∀ l : List Member, (∀ m ∈ l, mimeVerdictB m = mimeVerdict m) → firstMimeB l = firstMime l := by
      intro l hl
      induction l with
      | nil => rfl
      | cons a l ih =>
        simp only [firstMimeB, firstMime, hl a List.mem_cons_self, ih (fun m hm' => hl m (List.mem_cons_of_mem _ hm'))]
        cases mimeVerdict a <;> rfl
    unfold detectZipB detectZip
    rw [hfm ms hm]
    cases firstMime ms <;> rfl
  simp only [h1]
  cases zip with
  | none => rfl
  | some ms => simp only [h2 ms rfl]

/-! ## the mimetype member -/

/-- what the sniffer makes of a mimetype member, `strings.TrimSpace` as it is -/
theorem mime_class_spec (d : Str) (f : Format) :
    mimeClassB d = some f ↔
      (hasSub odtMime (Split.trimSpace (d.take 256)) = true ∧ f = .odt) ∨
      (hasSub odtMime (Split.trimSpace (d.take 256)) = false ∧ Split.trimSpace (d.take 256) = epubMime ∧ f = .epub) := by
  unfold mimeClassB
  simp only
  by_cases h1 : hasSub odtMime (Split.trimSpace (d.take 256)) = true
  · rw [if_pos h1]
    constructor
    · intro h; exact Or.inl ⟨h1, (Option.some.inj h).symm⟩
    · rintro (⟨_, rfl⟩ | ⟨h, _⟩)
      · rfl
      · rw [h1] at h; cases h
  · rw [if_neg h1]
    have h1' : hasSub odtMime (Split.trimSpace (d.take 256)) = false := Bool.eq_false_iff.2 h1
    by_cases h2 : Split.trimSpace (d.take 256) = epubMime
    · rw [if_pos h2]
      constructor
      · intro h; exact Or.inr ⟨h1', h2, (Option.some.inj h).symm⟩
      · rintro (⟨h, _⟩ | ⟨_, _, rfl⟩)
        · exact absurd h h1
        · rfl
    · rw [if_neg h2]
      constructor
      · intro h; cases h
      · rintro (⟨h, _⟩ | ⟨_, h, _⟩)
        · exact absurd h h1
        · exact absurd h h2

/-- a no-break space (U+00A0) behind the media type is white space for the code; the ASCII
model of `Model/Detect.lean` keeps it and decides differently -/
example : mimeClassB (epubMime ++ [0xC2, 0xA0]) = some .epub ∧
    mimeVerdict ⟨nMimetype, some (epubMime ++ [0xC2, 0xA0])⟩ = none := by decide +kernel

/-- a run of white-space characters: what `strings.TrimSpace` removes entirely, from the
left and from the right -/
def SpaceRunL (l : Str) : Prop := Split.trimLeft l = []
def SpaceRunR (r : Str) : Prop := Split.trimLeftRev r.reverse = []

/-- `mime_any_white_space`: a mimetype member that holds a media type surrounded by white
space OF ANY KIND — line breaks, no-break spaces, ideographic spaces, U+2028 … — within the
256 bytes the sniffer reads is classified by the media type alone: ODT if it contains the
OpenDocument text type, else EPUB if it is the EPUB type, else nothing -/
theorem mime_any_white_space (l core r : Str) (hl : SpaceRunL l) (hr : SpaceRunR r)
    (hh : ∃ a t, core = a :: t ∧ a < 128 ∧ Split.isAsciiSpace a = false)
    (ht : ∃ t z, core = t ++ [z] ∧ z < 128 ∧ Split.isAsciiSpace z = false)
    (hlen : (l ++ (core ++ r)).length ≤ 256) :
    mimeClassB (l ++ (core ++ r)) =
      if hasSub odtMime core then some .odt else if core = epubMime then some .epub else none := by
  unfold mimeClassB
  simp only [List.take_of_length_le hlen, trimSpace_strips_runs l core r hl hr hh ht]

/-- U+3000 and a line break in front, a no-break space and CR LF behind -/
example : SpaceRunL [0xE3, 0x80, 0x80, 10] ∧ SpaceRunR [0xC2, 0xA0, 13, 10] ∧
    (∃ a t, epubMime = a :: t ∧ a < 128 ∧ Split.isAsciiSpace a = false) ∧
    (∃ t z, epubMime = t ++ [z] ∧ z < 128 ∧ Split.isAsciiSpace z = false) := by
  refine ⟨by unfold SpaceRunL; decide +kernel, by unfold SpaceRunR; decide +kernel, ⟨97, _, rfl, by decide, by decide⟩,
    ⟨epubMime.dropLast, 112, by decide, by decide, by decide⟩⟩

/-- a zero-width no-break space (U+FEFF, the byte-order mark) is NOT white space for Go:
a mimetype file that starts with one does not name the EPUB type -/
example : mimeClassB ([0xEF, 0xBB, 0xBF] ++ epubMime) = none := by decide +kernel

/-- on ASCII content the code is the ASCII model -/
theorem mime_verdict_ascii (m : Member) (ha : ∀ d, m.data = some d → ∀ c ∈ d.take 256, c < 128) :
    mimeVerdictB m = mimeVerdict m :=
  mimeVerdictB_ascii m ha

/-- `zip_detect_bytes_perm_invariant`: the byte-exact archive sniffer gives the same answer
for every permutation of the members and for every set of decoys in any arrangement -/
theorem zip_detect_bytes_perm_invariant (ms ms' : List Member) (hp : ms.Perm ms')
    (hn : (ms.map (·.name)).Nodup) : detectZipB ms = detectZipB ms' := by
  rw [detectZipB_eq, detectZipB_eq]
  apply zip_detect_perm_invariant_nodup _ _ (hp.map _)
  simpa [List.map_map, normMember, Function.comp_def] using hn

theorem zip_detect_bytes_decoy_invariant (ms ds l : List Member) (hp : (ms ++ ds).Perm l)
    (hm : HasMarker (ms.map normMember)) (ha : MimeAgree (ms.map normMember))
    (hd : ∀ d ∈ ds, isMarkerName d.name = false) : detectZipB l = detectZipB ms := by
  rw [detectZipB_eq, detectZipB_eq]
  refine zip_detect_perm_decoy_invariant (ms.map normMember) (ds.map normMember) _
    (by rw [← List.map_append]; exact hp.map _) ha ?_ hm
  intro d hd'
  obtain ⟨x, hx, rfl⟩ := List.mem_map.1 hd'
  exact hd x hx

/-! ## the DRM gate -/

/-- `isContentFile` on ANY bytes is the ASCII suffix test: no non-ASCII letter turns a
reference into a content file or hides one -/
theorem content_file_all_bytes (lo : CaseTable) (h : LowerOK lo) (uri : Str) :
    isContentFileB lo uri = isContentFile uri :=
  isContentFileB_eq h uri

/-- `"ch1.xhtm"` + U+0130 + … is no content file although U+0130 lowers to `i`; a Kelvin sign
in the stem does not hide `.html` -/
example : isContentFileB exLower [99, 104, 49, 46, 120, 104, 116, 109, 0xC4, 0xB0] = false ∧
    isContentFileB exLower [0xE2, 0x84, 0xAA, 46, 72, 84, 77, 76] = true := by decide

/-- `drm_gate_all_bytes`: `checkForDRM` on the archive — encryption metadata as a tree,
references and algorithms as bytes — is the gate of `Props/C20Enc.lean` -/
theorem drm_gate_all_bytes (lo : CaseTable) (h : LowerOK lo) (ms : List XMember) :
    checkForDRMB lo ms = true ↔
      (∃ m ∈ ms, m.name = nRights) ∨
      (∃ m ∈ ms, m.name = nEncryption ∧ encEntries m.doc = none) ∨
      (∃ m ∈ ms, m.name = nEncryption ∧ ∃ as ks, m.doc = some (.elem sEncryption as ks) ∧
        ∃ k ∈ dataKids ks, isFontObfuscation (algOf k) = false ∧ isContentFile (uriOf k) = true) := by
  rw [checkForDRMB_eq h]; exact tree_drm_decision ms

/-- the EPUB reader on the bytes: DRM iff the gate refuses, whatever the mimetype member
holds and whatever the state of the structure -/
theorem epub_open_bytes_spec (lo : CaseTable) (zip : Option (List XMember)) (rest : Bool) :
    (epubOpenB lo zip rest = .drm ↔ ∃ ms, zip = some ms ∧ checkForDRMB lo ms = true) ∧
    (epubOpenB lo zip rest = .ok ↔ ∃ ms, zip = some ms ∧ checkForDRMB lo ms = false ∧ rest = true) ∧
    (epubOpenB lo zip rest = .invalidArchive ↔ zip = none) := by
  cases zip with
  | none => simp [epubOpenB]
  | some ms =>
    simp only [epubOpenB, Option.some.injEq, exists_eq_left', reduceCtorEq, iff_false]
    cases checkForDRMB lo ms <;> cases rest <;> simp

/-! ## the simulation: the API model sees what the code computes on the bytes -/

/-- `admit_bytes_simulation`: `validateFormat` + the reader switch + `epubdoc.Open` computed
on the bytes (`admitFileB`: byte-exact sniffer, real `TrimSpace`, encryption metadata as a
tree, byte-exact gate) is `admitFile` of the API model on the abstraction of the file -/
theorem admit_bytes_simulation (t : Tables) (hlo : LowerOK t.lo) (extF : Format) (fs : FileStateB) :
    admitFileB t extF fs = admitFile extF (absFile t fs) := by
  cases fs with
  | missing => rfl
  | unreadable => rfl
  | file f =>
    simp only [admitFileB, absFile, admitFile, detectFile_abs, epubOpen_abs hlo]
    generalize Detect.ensureReader extF _ = r
    cases r with
    | proceed g =>
      dsimp only
      by_cases hg : g = .epub
      · simp only [hg, if_true]
        cases epubOpenB t.lo f.zip (f.accepts .epub) <;> rfl
      · simp only [hg, if_false]
    | detectFailed => rfl
    | mismatch => rfl
    | unsupported => rfl

/-- `tabula.Open(name)` on any bytes of a name is `openExt` of the API model -/
theorem open_bytes_eq (t : Tables) (hlo : LowerOK t.lo) (name : Str) (fs : FileStateB) (k : TKind) :
    openAndRunB t name fs k = openAndRun name (absFile t fs) k := by
  unfold openAndRunB openAndRun openExt
  rw [detectB_eq hlo]

/-- the reader stage on the bytes -/
def readerStageB (t : Tables) (d : Format) (f : FileB) (k : TKind) : Outcome :=
  if d = .epub then
    match epubOpenB t.lo f.zip (f.accepts .epub) with
    | .ok => afterOpen d k
    | .drm => .drm
    | _ => .readerFailed
  else if f.accepts d then afterOpen d k
  else .readerFailed

theorem readerStage_abs (t : Tables) (hlo : LowerOK t.lo) (d : Format) (f : FileB) (k : TKind) :
    readerStage d (f.zip.map (·.map absMember)) f.accepts k = readerStageB t d f k := by
  unfold readerStage readerStageB
  rw [epubOpen_abs hlo]
  by_cases hd : d = .epub
  · simp only [hd, if_true]
    cases epubOpenB t.lo f.zip (f.accepts .epub) <;> rfl
  · simp only [hd, if_false]

/-- THE PROPERTY'S FIRST SENTENCE on the bytes.  Whatever `DetectFromReader` answers on the
file (`d`, one of the seven formats), `Open(stem ++ e).<any operation>()` — any stem of
bytes, any of the eight extensions in any letter case — goes on to `d`'s reader iff the
extension is one of `d`'s, and is refused as a mismatch under every other one. -/
theorem open_bytes_by_name (t : Tables) (hlo : LowerOK t.lo) (p : Str × Format) (hp : p ∈ extPairs)
    (stem e : Str) (he : lower e = p.1) (f : FileB) (d : Format) (hd : d ≠ .unknown)
    (hdet : detectFromReaderB t.up f.head (f.zip.map (·.map XMember.toMember)) = some d) (k : TKind) :
    (openAndRunB t (stem ++ e) (.file f) k).out = if p.2 = d then readerStageB t d f k else .mismatch := by
  rw [open_bytes_eq t hlo, ← readerStage_abs t hlo]
  exact open_by_name p hp stem e he _ _ _ d hd (by rw [detectFile_abs]; exact hdet) k

/-- content the sniffer cannot classify — a byte-order mark or a comment in front, an HTML
fragment, an archive behind a stub — is admitted by extension alone -/
theorem open_bytes_unclassifiable_by_extension (t : Tables) (hlo : LowerOK t.lo) (p : Str × Format)
    (hp : p ∈ extPairs) (stem e : Str) (he : lower e = p.1) (f : FileB)
    (hdet : detectFromReaderB t.up f.head (f.zip.map (·.map XMember.toMember)) = some .unknown) (k : TKind) :
    (openAndRunB t (stem ++ e) (.file f) k).out = readerStageB t p.2 f k := by
  rw [open_bytes_eq t hlo, ← readerStage_abs t hlo]
  exact open_unclassifiable_by_extension p hp stem e he _ _ _ (by rw [detectFile_abs]; exact hdet) k

/-- an archive the byte-exact sniffer takes for an EPUB, under an EPUB name in any letter
case, through any operation: `ErrDRMProtected` exactly in the three cases of the gate -/
theorem open_bytes_epub_drm_iff (t : Tables) (hlo : LowerOK t.lo) (stem e : Str) (he : lower e = dotEpub)
    (f : FileB) (ms : List XMember) (hz : f.zip = some ms)
    (hdet : detectFromReaderB t.up f.head (some (ms.map XMember.toMember)) = some .epub) (k : TKind) :
    (openAndRunB t (stem ++ e) (.file f) k).out = .drm ↔
      (∃ m ∈ ms, m.name = nRights) ∨
      (∃ m ∈ ms, m.name = nEncryption ∧ encEntries m.doc = none) ∨
      (∃ m ∈ ms, m.name = nEncryption ∧ ∃ as ks, m.doc = some (.elem sEncryption as ks) ∧
        ∃ x ∈ dataKids ks, isFontObfuscation (algOf x) = false ∧ isContentFile (uriOf x) = true) := by
  rw [open_bytes_by_name t hlo (dotEpub, .epub) (by decide) stem e he f .epub (by decide) (by rw [hz]; exact hdet) k,
    ← drm_gate_all_bytes t.lo hlo]
  simp only [if_true, readerStageB, hz, epubOpenB]
  cases checkForDRMB t.lo ms with
  | true => simp
  | false =>
    simp only [Bool.false_eq_true, if_false, iff_false]
    cases f.accepts .epub
    · simp
    · simp only [if_true, afterOpen]; split <;> simp

/-- the outcome depends on the name only through the format it asks for, and not on its
letter case — for names of arbitrary bytes -/
theorem open_bytes_same_format_same_outcome (t : Tables) (hlo : LowerOK t.lo) (a b : Str) (ha : a ≠ [])
    (hb : b ≠ []) (h : detectB t.lo a = detectB t.lo b) (fs : FileStateB) (k : TKind) :
    (openAndRunB t a fs k).out = (openAndRunB t b fs k).out := by
  rw [open_bytes_eq t hlo, open_bytes_eq t hlo]
  rw [detectB_eq hlo, detectB_eq hlo] at h
  exact open_same_format_same_outcome a b ha hb h _ k

/-! ## valid documents, as bytes -/

/-- no member of the archive has the name -/
def NoMemberX (n : Str) (ms : List XMember) : Prop := ∀ m ∈ ms, m.name ≠ n

/-- A valid document of each of the seven formats as far as recognition is concerned, ON THE
BYTES: as `ValidDoc` of `Props/C20Api.lean`, with what follows the recognised front
arbitrary bytes (non-ASCII text, ill-formed UTF-8), the mimetype content surrounded by any
white space of `unicode.IsSpace`, and — the one extra demand of the byte-exact model — the
text between an XML declaration and the root tag in ASCII (the window is measured on the
upper-cased text). -/
inductive ValidDocB : Format → Str → Option (List XMember) → Prop
  | pdf (rest : Str) (zip : Option (List XMember)) : ValidDocB .pdf (sPdfMagic ++ rest) zip
  | htmlDoctype (lead dt ws n rest : Str) (zip : Option (List XMember))
      (hl : ∀ c ∈ lead, isMagicWS c = true) (hdt : upper dt = sDoctype) (hwne : ws ≠ [])
      (hws : ∀ c ∈ ws, isMagicWS c = true) (hn : upper n = sHtmlName)
      (hlen : lead.length + dt.length + ws.length + n.length ≤ 512) :
      ValidDocB .html (lead ++ (dt ++ (ws ++ (n ++ rest)))) zip
  | htmlRoot (lead t rest : Str) (zip : Option (List XMember))
      (hl : ∀ c ∈ lead, isMagicWS c = true) (ht : upper t = sHtmlTag) (hlen : lead.length + t.length ≤ 512) :
      ValidDocB .html (lead ++ (t ++ rest)) zip
  | xhtml (lead x mid t rest : Str) (zip : Option (List XMember))
      (hl : ∀ c ∈ lead, isMagicWS c = true) (hx : upper x = sXmlDecl) (ht : upper t = sHtmlTag)
      (hmid : ∀ c ∈ mid, c < 128)
      (h500 : x.length + mid.length + t.length ≤ 500)
      (h512 : lead.length + x.length + mid.length + t.length ≤ 512) :
      ValidDocB .html (lead ++ (x ++ (mid ++ (t ++ rest)))) zip
  | odt (rest : Str) (ms : List XMember) (m : XMember) (d : Str) (hn : (ms.map (·.name)).Nodup)
      (hm : m ∈ ms) (hname : m.name = nMimetype) (hdata : m.data = some d)
      (hmime : hasSub odtMime (Split.trimSpace (d.take 256)) = true) :
      ValidDocB .odt (sZipMagic ++ rest) (some ms)
  | epubMime (rest : Str) (ms : List XMember) (m : XMember) (d : Str) (hn : (ms.map (·.name)).Nodup)
      (hm : m ∈ ms) (hname : m.name = nMimetype) (hdata : m.data = some d)
      (hnodt : hasSub odtMime (Split.trimSpace (d.take 256)) = false)
      (hmime : Split.trimSpace (d.take 256) = epubMime) :
      ValidDocB .epub (sZipMagic ++ rest) (some ms)
  | epubContainer (rest : Str) (ms : List XMember) (hno : NoMemberX nMimetype ms)
      (m : XMember) (hm : m ∈ ms) (hname : m.name = nContainer) :
      ValidDocB .epub (sZipMagic ++ rest) (some ms)
  | docx (rest : Str) (ms : List XMember) (h1 : NoMemberX nMimetype ms) (h2 : NoMemberX nContainer ms)
      (m : XMember) (hm : m ∈ ms) (hname : m.name = nWordDoc) :
      ValidDocB .docx (sZipMagic ++ rest) (some ms)
  | xlsx (rest : Str) (ms : List XMember) (h1 : NoMemberX nMimetype ms) (h2 : NoMemberX nContainer ms)
      (h3 : NoMemberX nWordDoc ms) (m : XMember) (hm : m ∈ ms) (hname : m.name = nXlWorkbook) :
      ValidDocB .xlsx (sZipMagic ++ rest) (some ms)
  | pptx (rest : Str) (ms : List XMember) (h1 : NoMemberX nMimetype ms) (h2 : NoMemberX nContainer ms)
      (h3 : NoMemberX nWordDoc ms) (h4 : NoMemberX nXlWorkbook ms)
      (m : XMember) (hm : m ∈ ms) (hname : m.name = nPptPres) :
      ValidDocB .pptx (sZipMagic ++ rest) (some ms)

theorem validDoc_repHtml (zip : Option (List AMember)) : ValidDoc .html repHtml zip := by
  have := ValidDoc.htmlRoot [] repHtml [] zip (by simp) (by decide) (by decide)
  simpa using this

theorem noMember_abs {n : Str} {ms : List XMember} (h : NoMemberX n ms) : NoMember n (ms.map absMember) := by
  intro m hm
  obtain ⟨x, hx, rfl⟩ := List.mem_map.1 hm
  exact h x hx

/-- the byte-exact valid document is a valid document of the API model under the abstraction -/
theorem validDoc_abs (up : CaseTable) (h : UpperOK up) {f : Format} {head : Str} {zip : Option (List XMember)}
    (hv : ValidDocB f head zip) : ValidDoc f (absHead up head) (zip.map (·.map absMember)) := by
  cases hv with
  | pdf rest zip => rw [absHead_pdf]; exact .pdf rest _
  | htmlDoctype lead dt ws n rest zip hl hdt hwne hws hn hlen =>
    have hold := (detect_html_iff _ none).1 (detect_html_doctype_any_space lead dt ws n rest none hl hdt hwne hws hn hlen)
    have hfront : detectHTMLMagic (lead ++ (dt ++ (ws ++ (n ++ [])))) = true :=
      detectHTMLMagic_doctype_ws lead dt ws n [] hl hdt hwne hws hn
    have hascii : ∀ c ∈ lead ++ (dt ++ (ws ++ (n ++ []))), c < 128 := by
      intro c hc
      simp only [List.mem_append, List.append_nil] at hc
      rcases hc with hc | hc | hc | hc
      · exact ascii_of_ws hl c hc
      · exact ascii_of_upper_eq hdt (by decide) c hc
      · exact ascii_of_ws hws c hc
      · exact ascii_of_upper_eq hn (by decide) c hc
    have hsplit : (lead ++ (dt ++ (ws ++ (n ++ rest)))).take 512 =
        (lead ++ (dt ++ (ws ++ (n ++ [])))) ++ rest.take (512 - (lead ++ (dt ++ (ws ++ (n ++ [])))).length) := by
      have e : lead ++ (dt ++ (ws ++ (n ++ rest))) = (lead ++ (dt ++ (ws ++ (n ++ [])))) ++ rest := by simp
      rw [e, take_append_short _ _ _ (by simp only [List.length_append, List.length_nil]; omega)]
    have hm : detectHTMLMagicB up ((lead ++ (dt ++ (ws ++ (n ++ rest)))).take 512) = true := by
      rw [hsplit]; exact detectHTMLMagicB_mono h _ _ hascii hfront
    rw [absHead_html up _ hold.1 hold.2.1 hm]
    exact validDoc_repHtml _
  | htmlRoot lead t rest zip hl ht hlen =>
    have hold := (detect_html_iff _ none).1 (detect_html_root_tag lead t rest none hl ht hlen)
    have hfront : detectHTMLMagic (lead ++ (t ++ [])) = true := detectHTMLMagic_tag lead t [] hl ht
    have hascii : ∀ c ∈ lead ++ (t ++ []), c < 128 := by
      intro c hc
      simp only [List.mem_append, List.append_nil] at hc
      rcases hc with hc | hc
      · exact ascii_of_ws hl c hc
      · exact ascii_of_upper_eq ht (by decide) c hc
    have hsplit : (lead ++ (t ++ rest)).take 512 = (lead ++ (t ++ [])) ++ rest.take (512 - (lead ++ (t ++ [])).length) := by
      have e : lead ++ (t ++ rest) = (lead ++ (t ++ [])) ++ rest := by simp
      rw [e, take_append_short _ _ _ (by simp only [List.length_append, List.length_nil]; omega)]
    have hm : detectHTMLMagicB up ((lead ++ (t ++ rest)).take 512) = true := by
      rw [hsplit]; exact detectHTMLMagicB_mono h _ _ hascii hfront
    rw [absHead_html up _ hold.1 hold.2.1 hm]
    exact validDoc_repHtml _
  | xhtml lead x mid t rest zip hl hx ht hmid h500 h512 =>
    have hold := (detect_html_iff _ none).1 (detect_xhtml_declaration lead x mid t rest none hl hx ht h500 h512)
    have hfront : detectHTMLMagic (lead ++ (x ++ (mid ++ (t ++ [])))) = true :=
      detectHTMLMagic_xmldecl lead x mid t [] hl hx ht h500
    have hascii : ∀ c ∈ lead ++ (x ++ (mid ++ (t ++ []))), c < 128 := by
      intro c hc
      simp only [List.mem_append, List.append_nil] at hc
      rcases hc with hc | hc | hc | hc
      · exact ascii_of_ws hl c hc
      · exact ascii_of_upper_eq hx (by decide) c hc
      · exact hmid c hc
      · exact ascii_of_upper_eq ht (by decide) c hc
    have hsplit : (lead ++ (x ++ (mid ++ (t ++ rest)))).take 512 =
        (lead ++ (x ++ (mid ++ (t ++ [])))) ++ rest.take (512 - (lead ++ (x ++ (mid ++ (t ++ [])))).length) := by
      have e : lead ++ (x ++ (mid ++ (t ++ rest))) = (lead ++ (x ++ (mid ++ (t ++ [])))) ++ rest := by simp
      rw [e, take_append_short _ _ _ (by simp only [List.length_append, List.length_nil]; omega)]
    have hm : detectHTMLMagicB up ((lead ++ (x ++ (mid ++ (t ++ rest)))).take 512) = true := by
      rw [hsplit]; exact detectHTMLMagicB_mono h _ _ hascii hfront
    rw [absHead_html up _ hold.1 hold.2.1 hm]
    exact validDoc_repHtml _
  | odt rest ms m d hn hm hname hdata hmime =>
    rw [absHead_zip]
    have hc : mimeClassB d = some .odt := (mime_class_spec d .odt).2 (Or.inl ⟨hmime, rfl⟩)
    exact .odt rest _ (absMember m) odtMime (by rw [names_abs]; exact hn) (List.mem_map.2 ⟨m, hm, rfl⟩) hname
      (by simp [absMember, hdata, hc, repMime]) (by decide)
  | epubMime rest ms m d hn hm hname hdata hnodt hmime =>
    rw [absHead_zip]
    have hc : mimeClassB d = some .epub := (mime_class_spec d .epub).2 (Or.inr ⟨hnodt, hmime, rfl⟩)
    exact .epubMime rest _ (absMember m) epubMime (by rw [names_abs]; exact hn) (List.mem_map.2 ⟨m, hm, rfl⟩) hname
      (by simp [absMember, hdata, hc, repMime]) (by decide) (by decide)
  | epubContainer rest ms hno m hm hname =>
    rw [absHead_zip]
    exact .epubContainer rest _ (noMember_abs hno) (absMember m) (List.mem_map.2 ⟨m, hm, rfl⟩) hname
  | docx rest ms h1 h2 m hm hname =>
    rw [absHead_zip]
    exact .docx rest _ (noMember_abs h1) (noMember_abs h2) (absMember m) (List.mem_map.2 ⟨m, hm, rfl⟩) hname
  | xlsx rest ms h1 h2 h3 m hm hname =>
    rw [absHead_zip]
    exact .xlsx rest _ (noMember_abs h1) (noMember_abs h2) (noMember_abs h3) (absMember m)
      (List.mem_map.2 ⟨m, hm, rfl⟩) hname
  | pptx rest ms h1 h2 h3 h4 m hm hname =>
    rw [absHead_zip]
    exact .pptx rest _ (noMember_abs h1) (noMember_abs h2) (noMember_abs h3) (noMember_abs h4) (absMember m)
      (List.mem_map.2 ⟨m, hm, rfl⟩) hname

/-- every valid document is recognised as its own format by `DetectFromReader` on its bytes -/
theorem valid_document_recognised_bytes (up : CaseTable) (h : UpperOK up) {f : Format} {head : Str}
    {zip : Option (List XMember)} (hv : ValidDocB f head zip) :
    detectFromReaderB up head (zip.map (·.map XMember.toMember)) = some f := by
  rw [← detectFile_abs]
  exact valid_document_recognised (validDoc_abs up h hv)

/-- an HTML5 document with a non-ASCII title and an ill-formed byte behind the DOCTYPE -/
example : ValidDocB .html ([] ++ ([60, 33, 100, 111, 99, 116, 121, 112, 101] ++ ([10] ++ ([104, 116, 109, 108] ++
    [62, 0xC3, 0xBC, 0xFF])))) none :=
  .htmlDoctype [] _ [10] _ _ none (by simp) (by decide) (by simp) (by decide) (by decide) (by decide)

/-- an EPUB whose mimetype file ends in a no-break space and a line break -/
example : ValidDocB .epub (sZipMagic ++ []) (some [⟨nMimetype, some (epubMime ++ [0xC2, 0xA0, 10]), none⟩]) :=
  .epubMime [] _ ⟨nMimetype, some (epubMime ++ [0xC2, 0xA0, 10]), none⟩ _ (by decide) (by simp) rfl rfl
    (by decide +kernel) (by decide +kernel)

/-- THE PROPERTY, first sentence, ON THE BYTES: every valid PDF, DOCX, ODT, XLSX, PPTX, EPUB
and HTML document — members in any order, any further members, any bytes behind the
recognised front — under every naming `stem ++ e` (any stem of bytes, `e` one of the eight
extensions in any letter case) and for every operation of the public API goes on to its own
reader under its own extension and is refused with a mismatch error under every other. -/
theorem c20_end_to_end_bytes (t : Tables) (hup : UpperOK t.up) (hlo : LowerOK t.lo) {f : Format} {head : Str}
    {zip : Option (List XMember)} (hv : ValidDocB f head zip)
    (p : Str × Format) (hp : p ∈ extPairs) (stem e : Str) (he : lower e = p.1)
    (acc : Format → Bool) (k : TKind) :
    (openAndRunB t (stem ++ e) (.file ⟨head, zip, acc⟩) k).out =
      if p.2 = f then readerStageB t f ⟨head, zip, acc⟩ k else .mismatch := by
  have hf : f ≠ .unknown := by cases hv <;> decide
  exact open_bytes_by_name t hlo p hp stem e he ⟨head, zip, acc⟩ f hf (valid_document_recognised_bytes t.up hup hv) k

/-! ## call histories on the bytes -/

/-- NO SEQUENCE OF CALLS GETS AROUND THE CROSS-CHECK, on the bytes: while the file is what it
is (`DetectFromReader` answers `d`), every operation in every history on every extractor
whose name — any bytes — asks for another format is refused -/
theorem history_bytes_mismatch_always_refused (t : Tables) (hlo : LowerOK t.lo) (f : FileB) (d : Format)
    (hd : d ≠ .unknown) (hdet : detectFromReaderB t.up f.head (f.zip.map (·.map XMember.toMember)) = some d)
    (cs : List Call) (hnr : NoRewrite cs) (k i : Nat) (kind : TKind) (r : Res)
    (hc : cs[k]? = some (.op i kind))
    (hr : (runCalls (start (absFile t (.file f))) cs).2[k]? = some (.res r))
    (e : Ext) (he : (runCalls (start (absFile t (.file f))) cs).1.exts[i]? = some e)
    (hn : e.name ≠ []) (hmis : detectB t.lo e.name ≠ d) :
    r.out = .mismatch ∨ r.out = .errSet := by
  rw [detectB_eq hlo] at hmis
  exact history_mismatch_always_refused _ _ _ d hd (by rw [detectFile_abs]; exact hdet) cs hnr k i kind r hc hr e he
    hn hmis

end Tabula.C20B
