import TabulaModel.Lemmas.XrefObjStm
import TabulaModel.Lemmas.Xref
/-!
# C04, histories — "the answer does not depend on the order of lookups or on what was looked
up before", for the state the reader and its object streams carry between calls

The `reader_*` theorems are about the abstract `File` of Model/Xref.lean (what stands at an
offset is a function of the file alone): for the code that holds while lookups nest at most
`maxNestedLoads` = 16 loads (129dd3d); see `Props/C04NestCache.lean` for the caches beyond it.
-/
namespace Tabula.C04Hs
open Tabula.XrefFile Tabula.Xref Tabula.Pdf

/-- **objstm_history_free**: on one `core.ObjectStream`, from its initial state, every finite
sequence of `GetObjectByIndex` calls (any indices, negative, out of range, repeated) answers
each call with what the index means in the stream (`osSpec`: a function of the stream and the
index alone) — the lazily decoded data, the header pairs and the per-index cache never change
an answer. -/
theorem objstm_history_free (dec : Except Reader.Err Reader.ObjStm) (is : List Int) :
    osRun dec {} is = is.map (osSpec dec) :=
  osRun_refines dec is {} (osOk_empty dec)

/-- … from any state reached by earlier calls, too -/
theorem objstm_answer_independent_of_earlier_calls (dec : Except Reader.Err Reader.ObjStm)
    (before : List Int) (i : Int) :
    (osRun dec {} (before ++ [i])).getLast? = some (osSpec dec i) := by
  rw [objstm_history_free]
  simp

/-- **objstm_failed_decode_leaves_no_trace** (the repair of c469dd4 in the model): when the
stream does not decode or its header does not parse, a call fails and leaves the object
exactly as it was — so the next call fails the same way. (Before the repair `decoded` and the
header pairs read so far were kept: the first lookup of a member failed, the second succeeded.) -/
theorem objstm_failed_decode_leaves_no_trace (e : Reader.Err) (st : OSState) (hd : st.decoded = none)
    (i : Int) : osGetByIndex (.error e) st i = (none, st) := by
  simp [osGetByIndex, osDecode, hd]

/-- satisfiable, and not vacuous: a stream that fails to decode answers every call with an error -/
example : osRun (.error .err) {} [0, 1, 0, -1] = [none, none, none, none] := by
  rw [objstm_history_free]; rfl

/-- **objstm_header_error_kept_equivalent** (the repair c437385 against the model): the code now
keeps the decoded data and the header error (`headerErr`) instead of staying undecoded
(`OSStateK` / `osRunK`; `keep` = whether the failure is one the object remembers — a header
that does not parse — or one it meets again on every access — `Stream.Decode()` failing).
Either way, every finite sequence of `GetObjectByIndex` calls is answered exactly as by the
"stays undecoded" machine of c469dd4, hence by what each index means in the stream: the two
repairs are different state machines with the same answers. -/
theorem objstm_header_error_kept_equivalent (keep : Bool) (dec : Except Reader.Err Reader.ObjStm)
    (is : List Int) :
    osRunK keep dec {} is = osRun dec {} is ∧ osRunK keep dec {} is = is.map (osSpec dec) := by
  have h := osRunK_eq keep dec is {} {} (osRel_empty dec)
  exact ⟨h, h.trans (objstm_history_free dec is)⟩

/-- **objstm_header_error_every_time** (what c437385 is about): an object stream whose data does
not decode or whose header does not parse answers EVERY call of every sequence with an error,
whether or not the failure is remembered. -/
theorem objstm_header_error_every_time (keep : Bool) (e : Reader.Err) (is : List Int) :
    osRunK keep (.error e) {} is = is.map (fun _ => none) := by
  rw [(objstm_header_error_kept_equivalent keep (.error e) is).2]
  apply List.map_congr_left
  intro i _
  rfl

/-- the kept error: after the first failing call the object holds `headerErr`, and the second
call fails without decoding again -/
example : (osGetByIndexK true (.error .err) {} 0).2.headerErr = true ∧
    osRunK true (.error .err) {} [0, 1, 0, -1] = [none, none, none, none] := by
  refine ⟨rfl, ?_⟩
  rw [objstm_header_error_every_time]; rfl

/-- **reader_answers_independent_of_prefix**: whatever sequence of lookups and cache clears
came before, the answers to a sequence of operations are those a fresh reader gives. -/
theorem reader_answers_independent_of_prefix (f : File) (before ops : List Op) :
    run f {} (before ++ ops) = run f {} before ++ run f {} ops := by
  rw [run_refines f (before ++ ops) {} (cacheOk_empty f), run_refines f before {} (cacheOk_empty f),
    run_refines f ops {} (cacheOk_empty f)]
  induction before with
  | nil => rfl
  | cons op rest ih =>
    cases op with
    | get n => simp [specRun, ih]
    | clear => simpa [specRun] using ih

/-- **reader_sound_cache_suffices**: from ANY cache contents that are sound (every cached object
is what a cache-free lookup yields, every cached object stream is what loading it yields) —
not only from the caches reachable from empty — every operation sequence answers the
cache-free specification. -/
theorem reader_sound_cache_suffices (f : File) (c : Cache) (h : CacheOk f c) (ops : List Op) :
    run f c ops = specRun f ops :=
  run_refines f ops c h

/-- reachable caches are sound: after any operation sequence from empty caches -/
def cacheAfter (f : File) : Cache → List Op → Cache
  | c, [] => c
  | c, .get n :: ops => cacheAfter f (stepGet f c n).2 ops
  | c, .clear :: ops => cacheAfter f (stepClear c) ops

theorem reachable_cache_sound (f : File) (ops : List Op) : CacheOk f (cacheAfter f {} ops) := by
  suffices h : ∀ c, CacheOk f c → CacheOk f (cacheAfter f c ops) from h {} (cacheOk_empty f)
  induction ops with
  | nil => intro c hc; exact hc
  | cons op ops ih =>
    intro c hc
    cases op with
    | get n => exact ih _ (stepGet_spec f c n hc).2
    | clear => exact ih _ (cacheOk_empty f)

end Tabula.C04Hs
